(* C11: the membership test (pure, all entry lists) and the Reload protocol. *)
From Coq Require Import List NArith Bool Arith Lia Permutation.
From GS Require Import Errs LTS Composite CompositeMon CompositeBase.
Import ListNotations.

(* ------------------------------------------------------------------ membership_changed *)

Lemma mem_N_In x l : mem_N x l = true <-> In x l.
Proof.
  induction l as [|y l IH]; cbn; [split; [discriminate|tauto]|].
  rewrite orb_true_iff, IH, N.eqb_eq. split; intros [H|H]; auto.
Qed.

Definition same_set (a b : list N) : Prop := forall x, In x a <-> In x b.

Lemma existsb_not_mem_false (l old : list N) :
  existsb (fun x => negb (mem_N x old)) l = false <-> incl l old.
Proof.
  induction l as [|y l IH]; cbn.
  - split; [intros _ x []|reflexivity].
  - rewrite orb_false_iff, IH, negb_false_iff, mem_N_In. split.
    + intros [H1 H2] x [<-|Hx]; auto.
    + intros H. split; [apply H; now left|intros x Hx; apply H; now right].
Qed.

Lemma existsb_names P (old new : config) :
  existsb (fun e => negb (mem_N (name_of P (fst e)) (names P old))) new
  = existsb (fun x => negb (mem_N x (names P old))) (names P new).
Proof. unfold names. induction new as [|e new IH]; cbn; [reflexivity|]. now rewrite IH. Qed.

(* the code's test, for the unrepaired code: "unchanged" iff same length and new names among old *)
Lemma membership_unfixed P old new :
  fix_ms P = false -> fix_c11 P = false ->
  (membership_changed P old new = false <->
   length old = length new /\ incl (names P new) (names P old)).
Proof.
  intros Hms Hf. unfold membership_changed. rewrite Hms, Hf.
  destruct (Nat.eqb (length old) (length new)) eqn:El; cbn.
  - apply Nat.eqb_eq in El. rewrite existsb_names.
    destruct (existsb (fun x => negb (mem_N x (names P old))) (names P new)) eqn:Ee.
    + split; [discriminate|]. intros [_ Hi]. apply existsb_not_mem_false in Hi. congruence.
    + apply existsb_not_mem_false in Ee. split; auto.
  - apply Nat.eqb_neq in El. split; [discriminate|]. intros [H _]. contradiction.
Qed.

Lemma names_length P c : length (names P c) = length c.
Proof. apply map_length. Qed.

(* for duplicate-free entry lists the code's answer is exactly "the two name sets are equal" *)
Lemma membership_nodup P old new :
  fix_ms P = false -> fix_c11 P = false -> NoDup (names P old) -> NoDup (names P new) ->
  (membership_changed P old new = false <-> same_set (names P old) (names P new)).
Proof.
  intros Hms Hf Ho Hn. rewrite (membership_unfixed P old new Hms Hf). split.
  - intros [Hl Hi] x. split; [|apply Hi].
    revert x. apply NoDup_length_incl; [exact Hn| |exact Hi].
    rewrite !names_length. lia.
  - intros Hs. split.
    + assert (H1 : length (names P old) <= length (names P new))
        by (apply NoDup_incl_length; [exact Ho|intros x Hx; now apply Hs]).
      assert (H2 : length (names P new) <= length (names P old))
        by (apply NoDup_incl_length; [exact Hn|intros x Hx; now apply Hs]).
      rewrite !names_length in *. lia.
    + intros x Hx. now apply Hs.
Qed.

(* ---- sort_N: sorted and duplicate-free, same elements ---- *)

Lemma insert_N_In x y l : In y (insert_N x l) <-> y = x \/ In y l.
Proof.
  induction l as [|z l IH]; cbn; [intuition|].
  destruct (N.compare x z) eqn:E; cbn.
  - apply N.compare_eq in E. subst. intuition.
  - intuition.
  - rewrite IH. intuition.
Qed.

Lemma sort_N_In y l : In y (sort_N l) <-> In y l.
Proof.
  induction l as [|x l IH]; cbn; [tauto|].
  unfold sort_N in *. cbn. rewrite insert_N_In, IH. intuition.
Qed.

Definition lb (x : N) (l : list N) : Prop := forall y, In y l -> (x < y)%N.
Fixpoint ssorted (l : list N) : Prop :=
  match l with [] => True | x :: t => lb x t /\ ssorted t end.

Lemma insert_N_sorted x l : ssorted l -> ssorted (insert_N x l).
Proof.
  induction l as [|z l IH]; cbn; [intros _; split; [intros y []|exact I]|].
  intros [Hlb Hs]. destruct (N.compare x z) eqn:E; cbn.
  - auto.
  - apply N.compare_lt_iff in E. split; [|auto].
    intros y [<-|Hy]; [exact E|]. specialize (Hlb y Hy). eapply N.lt_trans; eassumption.
  - apply N.compare_gt_iff in E. split; [|auto].
    intros y Hy. apply insert_N_In in Hy as [->|Hy]; [exact E|now apply Hlb].
Qed.

Lemma sort_N_sorted l : ssorted (sort_N l).
Proof. induction l as [|x l IH]; cbn; [exact I|]. now apply insert_N_sorted. Qed.

Lemma ssorted_NoDup l : ssorted l -> NoDup l.
Proof.
  induction l as [|x l IH]; cbn; [constructor|].
  intros [Hlb Hs]. constructor; [|auto]. intros Hin. specialize (Hlb x Hin). now apply N.lt_irrefl in Hlb.
Qed.

Lemma sort_N_NoDup l : NoDup (sort_N l).
Proof. apply ssorted_NoDup, sort_N_sorted. Qed.

(* the test of /repo 5b52fc2 (before the multiset repair): for ALL entry lists, "unchanged" iff same
   length and same name SET *)
Lemma membership_fixed P old new :
  fix_ms P = false -> fix_c11 P = true ->
  (membership_changed P old new = false <->
   length old = length new /\ same_set (names P old) (names P new)).
Proof.
  intros Hms Hf. unfold membership_changed. rewrite Hms, Hf.
  destruct (Nat.eqb (length old) (length new)) eqn:El; cbn.
  2:{ apply Nat.eqb_neq in El. split; [discriminate|]. intros [H _]. exfalso. apply El. exact H. }
  apply Nat.eqb_eq in El. rewrite existsb_names.
  destruct (existsb (fun x => negb (mem_N x (names P old))) (names P new)) eqn:Ee.
  - split; [discriminate|]. intros [_ Hs].
    assert (Hi : incl (names P new) (names P old)) by (intros x Hx; now apply Hs).
    apply existsb_not_mem_false in Hi. congruence.
  - apply existsb_not_mem_false in Ee. rewrite negb_false_iff, Nat.eqb_eq. split.
    + intros Hlen. split; [exact El|]. intros x. split; [|apply Ee].
      intros Hx. apply (proj1 (sort_N_In _ _)). apply (proj2 (sort_N_In _ _)) in Hx. revert x Hx.
      apply NoDup_length_incl; [apply sort_N_NoDup|lia|].
      intros y Hy. apply (proj2 (sort_N_In _ _)). apply (proj1 (sort_N_In _ _)) in Hy. now apply Ee.
    + intros [_ Hs].
      assert (H1 : length (sort_N (names P old)) <= length (sort_N (names P new))).
      { apply NoDup_incl_length; [apply sort_N_NoDup|]. intros y Hy.
        apply (proj2 (sort_N_In _ _)). apply (proj1 (sort_N_In _ _)) in Hy. now apply Hs. }
      assert (H2 : length (sort_N (names P new)) <= length (sort_N (names P old))).
      { apply NoDup_incl_length; [apply sort_N_NoDup|]. intros y Hy.
        apply (proj2 (sort_N_In _ _)). apply (proj1 (sort_N_In _ _)) in Hy. now apply Hs. }
      lia.
Qed.

(* ---- the current test (hooks/fix-c09-membership-multiset.patch): name MULTISETS ---- *)

Lemma take_out_perm x l l' : take_out x l = Some l' -> Permutation l (x :: l').
Proof.
  revert l'; induction l as [|y l IH]; intros l' H; cbn in H; [discriminate|].
  destruct (N.eqb x y) eqn:E.
  - apply N.eqb_eq in E. subst. injection H as <-. apply Permutation_refl.
  - destruct (take_out x l) as [t|]; [|discriminate]. injection H as <-.
    eapply perm_trans; [apply perm_skip, IH; reflexivity|apply perm_swap].
Qed.

Lemma take_out_in x l : In x l -> exists l', take_out x l = Some l'.
Proof.
  induction l as [|y l IH]; cbn; [intros []|].
  destruct (N.eqb x y) eqn:E; [eexists; reflexivity|].
  intros [H|H]; [subst; rewrite N.eqb_refl in E; discriminate|].
  destruct (IH H) as [l' ->]. eexists; reflexivity.
Qed.

(* the loop succeeds iff the new names are, with their multiplicities, among the old ones; what is left
   over is the rest of the old ones *)
Lemma all_taken_perm new : forall avail,
  all_taken new avail = true <-> exists rest, Permutation avail (new ++ rest).
Proof.
  induction new as [|x new IH]; intros avail; cbn.
  - split; [intros _; exists avail; apply Permutation_refl|reflexivity].
  - destruct (take_out x avail) as [av'|] eqn:E.
    + rewrite IH. pose proof (take_out_perm _ _ _ E) as Hp. split.
      * intros [rest Hr]. exists rest. eapply perm_trans; [exact Hp|]. now apply perm_skip.
      * intros [rest Hr]. exists rest. apply (Permutation_cons_inv (a := x)).
        eapply perm_trans; [apply Permutation_sym; exact Hp|exact Hr].
    + split; [discriminate|]. intros [rest Hr]. exfalso.
      assert (Hin : In x avail) by (eapply Permutation_in; [apply Permutation_sym; exact Hr|now left]).
      destruct (take_out_in _ _ Hin) as [l' El]. congruence.
Qed.

(* "unchanged" iff the two name lists are permutations of each other, for ALL entry lists *)
Lemma membership_multiset P old new :
  fix_ms P = true ->
  (membership_changed P old new = false <-> Permutation (names P old) (names P new)).
Proof.
  intros Hms. unfold membership_changed. rewrite Hms.
  destruct (Nat.eqb (length old) (length new)) eqn:El; cbn.
  - apply Nat.eqb_eq in El. rewrite negb_false_iff, all_taken_perm. split.
    + intros [rest Hr]. assert (rest = []).
      { apply Permutation_length in Hr. rewrite app_length, !names_length in Hr.
        destruct rest; [reflexivity|cbn in Hr; lia]. }
      subst. now rewrite app_nil_r in Hr.
    + intros Hp. exists []. now rewrite app_nil_r.
  - apply Nat.eqb_neq in El. split; [discriminate|]. intros Hp. exfalso. apply El.
    apply Permutation_length in Hp. now rewrite !names_length in Hp.
Qed.

(* what every repaired variant gives (enough for the set-level invariants) *)
Lemma membership_false_len_set P old new :
  fix_ms P = true \/ fix_c11 P = true ->
  membership_changed P old new = false ->
  length old = length new /\ same_set (names P old) (names P new).
Proof.
  intros Hv Hm. destruct (fix_ms P) eqn:Hms.
  - apply (membership_multiset P old new Hms) in Hm. split.
    + apply Permutation_length in Hm. now rewrite !names_length in Hm.
    + intros x. split; intros Hx; [eapply Permutation_in; eassumption|
                                    eapply Permutation_in; [apply Permutation_sym|]; eassumption].
  - destruct Hv as [Hv|Hv]; [discriminate|]. now apply (membership_fixed P old new Hms Hv).
Qed.

(* the witness against the name-SET test of 5b52fc2: old [a;a;b], new [a;b;b] *)
Definition ms_pool (ms : bool) : params :=
  mkParams [mkSpec 0 UntilRunDone OnSignal RWC; mkSpec 1 UntilRunDone OnSignal RWC] true true true true ms.
Definition ms_old : config := [(0, 0); (0, 0); (1, 0)]%N.
Definition ms_new : config := [(0, 1); (1, 1); (1, 1)]%N.

Lemma membership_set_refuted :
  membership_changed (ms_pool false) ms_old ms_new = false /\
  membership_changed (ms_pool true) ms_old ms_new = true /\
  ~ Permutation (names (ms_pool false) ms_old) (names (ms_pool false) ms_new).
Proof.
  split; [reflexivity|]. split; [reflexivity|]. intros H.
  apply (Permutation_count_occ N.eq_dec) with (x := 0%N) in H. cbn in H. discriminate H.
Qed.

(* the witness: old [a;b], new [a;a] *)
Definition dup_pool : params :=
  mkParams [mkSpec 0 UntilRunDone OnSignal RWC; mkSpec 1 UntilRunDone OnSignal RWC] false false false false false.
Definition dup_old : config := [(0, 0); (1, 0)]%N.
Definition dup_new : config := [(0, 1); (0, 2)]%N.

Lemma membership_dup_refuted :
  membership_changed dup_pool dup_old dup_new = false /\
  ~ same_set (names dup_pool dup_old) (names dup_pool dup_new).
Proof.
  split; [reflexivity|]. intros H. specialize (H 1%N). cbn in H.
  destruct H as [H _]. destruct H as [H|[H|[]]]; auto; discriminate.
Qed.

(* ------------------------------------------------------------------ protocol: step-level facts *)

(* a callback error or nil configuration: no child is touched, the configuration is kept,
   the machine goes to Error, the reload lock is released *)
Lemma failed_callback_step P s k r s' :
  (forall c, r <> CbSome c) ->
  step P s (LCb (ORel k) r) = Some s' ->
  fsm s' = FError /\ cfg s' = cfg s /\ kids s' = kids s /\ workers s' = workers s
  /\ sigs s' = sigs s /\ reload_mu s' = None
  /\ option_map r_pc (nth_error (reloaders s') k) = Some RRet
  /\ option_map r_path (nth_error (reloaders s') k) = Some PFailedCb
  /\ option_map r_calls (nth_error (reloaders s') k) = option_map r_calls (nth_error (reloaders s) k).
Proof.
  intros Hr Hst. cbn [step] in Hst.
  unfold rel_pc in Hst. destruct (nth_error (reloaders s) k) as [x|] eqn:Ex; cbn in Hst; [|discriminate].
  destruct (r_pc x) eqn:Ep; try discriminate.
  destruct r as [c| |]; [exfalso; now apply (Hr c)| |];
    injection Hst as <-; cbn;
    rewrite (nth_error_upd_same _ _ _ _ Ex); cbn; repeat split; reflexivity.
Qed.
