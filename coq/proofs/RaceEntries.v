(* C17 - the "locks held by every caller" certificate.
   srcfacts proposes, for each private helper context, an entry lock set; the table lists every
   call site with the locks lexically held there.  [entry_failures tbl = []] (part of table_ok)
   makes the proposal an inductive invariant of the call graph: whatever chain of calls leads into
   a context, the locks held on its receiver object cover its claimed entry set.  So the effective
   annotation [eff_locks] of a site is truthful as soon as the LEXICAL lock sets are. *)
From Coq Require Import String List Bool.
From GS Require Import Race RaceSound.
Import ListNotations.
Open Scope string_scope.
Open Scope list_scope.

(* contexts that anybody may enter holding nothing: exported, used as a value, or unknown *)
Definition root (tbl : access_table) (f : string) : bool :=
  match decl_of (t_funcs tbl) f with
  | Some d => fn_exported d || fn_value_used d
  | None => true
  end.

(* [enters tbl f H]: context f can start running in a goroutine that holds (on f's receiver
   object) at least the locks H *)
Inductive enters (tbl : access_table) : string -> lockset -> Prop :=
| enter_root : forall f, root tbl f = true -> enters tbl f []
| enter_call : forall c H, In c (t_calls tbl) -> cs_spawn c = false -> enters tbl (cs_caller c) H ->
    enters tbl (cs_callee c) (cs_locks c ++ (if cs_same_recv c then H else []))
| enter_spawn : forall c, In c (t_calls tbl) -> cs_spawn c = true -> enters tbl (cs_callee c) []
| enter_more : forall f H H', enters tbl f H -> covers H' H = true -> enters tbl f H'.

Lemma decl_of_in : forall fs f d, decl_of fs f = Some d -> In d fs /\ fn_name d = f.
Proof.
  induction fs as [|x r IH]; intros f d H; cbn in H; [discriminate|].
  destruct (String.eqb (fn_name x) f) eqn:E.
  - inversion H; subst. apply String.eqb_eq in E. split; [left|]; auto.
  - destruct (IH _ _ H). split; [right|]; auto.
Qed.

Lemma covers_nil : forall h, covers h [] = true.
Proof. reflexivity. Qed.

Lemma covers_mono : forall a b e,
  (forall l, holds_any a l = true -> holds_any b l = true) ->
  (forall l, holds_ex a l = true -> holds_ex b l = true) ->
  covers a e = true -> covers b e = true.
Proof.
  intros a b e Hany Hex Hc. unfold covers in *. rewrite forallb_forall in *.
  intros p Hin. specialize (Hc p Hin). unfold covers1 in *. destruct (is_ex (snd p)); auto.
Qed.

Lemma covers_trans : forall a b c, covers a b = true -> covers b c = true -> covers a c = true.
Proof.
  intros a b c Hab Hbc. eapply covers_mono; [| |exact Hbc]; intros l H.
  - eapply covers_any; eauto.
  - eapply covers_ex; eauto.
Qed.

(* what an accepted certificate says about one declaration *)
Lemma entry_decl_ok : forall tbl d,
  entry_failures tbl = [] -> In d (t_funcs tbl) -> fn_entry d <> [] ->
  (fn_exported d || fn_value_used d = false) /\
  forall c, In c (t_calls tbl) -> cs_callee c = fn_name d ->
    cs_spawn c = false /\ covers (call_locks tbl c) (fn_entry d) = true.
Proof.
  intros tbl d Hf Hin Hne. unfold entry_failures in Hf.
  pose proof (flat_map_nil _ _ _ _ _ Hf Hin) as H. cbn beta in H.
  destruct (fn_entry d) as [|e0 er] eqn:He; [congruence|]. cbn [is_nil] in H.
  apply app_eq_nil in H. destruct H as [H1 H2]. split.
  - destruct (fn_exported d || fn_value_used d); auto. discriminate.
  - intros c Hc Hcal. pose proof (flat_map_nil _ _ _ _ _ H2 Hc) as H3. cbn beta in H3.
    rewrite Hcal, String.eqb_refl in H3.
    destruct (cs_spawn c); [discriminate|]. split; auto.
    destruct (covers (call_locks tbl c) (e0 :: er)); auto. discriminate.
Qed.

Theorem entries_sound : forall tbl f H,
  entry_failures tbl = [] -> enters tbl f H -> covers H (entry_of (t_funcs tbl) f) = true.
Proof.
  intros tbl f H Hf He. induction He as [f Hr|c H Hc Hs He IH|c Hc Hs|f H H' He IH Hcov].
  - unfold entry_of. unfold root in Hr. destruct (decl_of (t_funcs tbl) f) as [d|] eqn:Hd; auto.
    destruct (fn_entry d) as [|e0 er] eqn:Hen; auto.
    destruct (decl_of_in _ _ _ Hd) as [Hin _].
    destruct (entry_decl_ok tbl d Hf Hin) as [Hx _]; [congruence|]. congruence.
  - unfold entry_of at 1. destruct (decl_of (t_funcs tbl) (cs_callee c)) as [d|] eqn:Hd; auto.
    destruct (fn_entry d) as [|e0 er] eqn:Hen; auto.
    destruct (decl_of_in _ _ _ Hd) as [Hin Hn].
    destruct (entry_decl_ok tbl d Hf Hin) as [_ Hcalls]; [congruence|].
    destruct (Hcalls c Hc (eq_sym Hn)) as [_ Hcv]. rewrite Hen in Hcv.
    eapply covers_mono; [| |exact Hcv]; unfold call_locks; intros l;
      [rewrite !holds_any_app|rewrite !holds_ex_app]; intros Hl;
      apply orb_prop in Hl; destruct Hl as [Hl|Hl]; try (rewrite Hl; auto; fail);
      destruct (cs_same_recv c); try discriminate.
    + rewrite (covers_any _ _ _ IH Hl). apply orb_true_r.
    + rewrite (covers_ex _ _ _ IH Hl). apply orb_true_r.
  - unfold entry_of. destruct (decl_of (t_funcs tbl) (cs_callee c)) as [d|] eqn:Hd; auto.
    destruct (fn_entry d) as [|e0 er] eqn:Hen; auto.
    destruct (decl_of_in _ _ _ Hd) as [Hin Hn].
    destruct (entry_decl_ok tbl d Hf Hin) as [_ Hcalls]; [congruence|].
    destruct (Hcalls c Hc (eq_sym Hn)) as [Hsp _]. congruence.
  - eapply covers_trans; eauto.
Qed.

(* consequence for a site: lexical truthfulness + the certificate give the effective annotation *)
Theorem eff_locks_truthful : forall tbl s h Hentry,
  entry_failures tbl = [] ->
  enters tbl (s_func s) Hentry ->
  (* the goroutine holds the lexical locks of the site, and still holds what it held on entry
     (if the accessed object is the context's receiver) *)
  covers h (s_lex s) = true ->
  (s_same_recv s = true -> covers h Hentry = true) ->
  covers h (eff_locks tbl s) = true.
Proof.
  intros tbl s h He Hf Hen Hlex Hsame. unfold eff_locks, covers. rewrite forallb_app.
  apply andb_true_intro. split; [exact Hlex|].
  destruct (s_same_recv s); auto.
  change (covers h (entry_of (t_funcs tbl) (s_func s)) = true).
  eapply covers_trans; [apply Hsame; auto|]. eapply entries_sound; eauto.
Qed.
