(* Shutdown never starts without a cause: as long as no trigger event has occurred (and the
   start-up deadline cannot fire) the supervisor stays in its "calm" region.  Used by C01 (no
   Stop before shutdown starts) and C04 (Run() never returns without a cause). *)
From Coq Require Import List NArith Bool Arith Lia.
From GS Require Import LTS Supervisor SupAccept SupProps SupInv.
Import ListNotations.

(* ---- generic: checks of every event against its prefix ---- *)

Lemma all_check_from_snoc chk t : forall pre e,
  all_check_from chk pre (t ++ [e]) = all_check_from chk pre t && chk (pre ++ t) e.
Proof.
  induction t as [|x t IH]; intros pre e; cbn [app all_check_from].
  - now rewrite app_nil_r, andb_true_r.
  - rewrite IH, <- app_assoc. cbn [app]. now rewrite andb_assoc.
Qed.

Lemma all_check_snoc chk t e : all_check chk (t ++ [e]) = all_check chk t && chk t e.
Proof. unfold all_check. now rewrite all_check_from_snoc. Qed.

(* if every step's event passes the check against the history so far, every trace passes *)
Lemma all_check_reachable c chk :
  (forall s l s' e, reachable_sup c s -> step c s l = Some s' -> obs l = Some e ->
                    chk (rev (hist s)) e = true) ->
  forall ls s, run (step c) (init c) ls = Some s -> all_check chk (obs_trace obs ls) = true.
Proof.
  intros Hchk ls s Hr. rewrite (trace_is_history _ _ _ Hr).
  assert (G : forall s, reachable_sup c s -> reachable_sup c s /\ all_check chk (rev (hist s)) = true).
  { apply sup_inv.
    - split; [exists []; reflexivity|reflexivity].
    - intros s0 l s1 [Hre Hac] Hs. split.
      + destruct Hre as [ls0 H0]. exists (ls0 ++ [l]). rewrite run_app, H0. cbn [run]. now rewrite Hs.
      + rewrite (step_hist _ _ _ _ Hs). destruct (obs l) as [e|] eqn:Eo; [|exact Hac].
        cbn [rev]. rewrite all_check_snoc, Hac. cbn [andb]. eapply Hchk; eassumption. }
  apply G. now exists ls.
Qed.


(* ---- the calm region ---- *)

Definition has_trig (s : state) : Prop := existsb is_trigger (hist s) = true.

Definition benign_sig (g : sig) : Prop := g = SigHup \/ g = SigOther.
Definition benign_op (o : op) : Prop :=
  o = OpReloadAll \/ o = OpSignal SigHup \/ o = OpSignal SigOther.

Record calm (s : state) : Prop := {
  cm_errq : errq s = [];
  cm_rn : forall i e, rn_at s i <> RnSending e;
  cm_sigq : forall g, In g (sigq s) -> benign_sig g;
  cm_parent : parent_cancel s = false;
  cm_own : own_cancel s = false;
  cm_sd : sd s = SdNot;
  cm_main : match main s with MNew | MEntering | MLaunch _ | MGate _ | MGateCheck _ | MReap => True | _ => False end;
  cm_strig : forall i, get 0 (strig (aux s)) i = 0;
  cm_callers : forall k o cs, In (k, o, cs) (callers s) -> benign_op o;
}.

Definition InvTrig (c : config) (s : state) : Prop :=
  startup_may_fire c = true \/ has_trig s \/ calm s.

Lemma find_caller_In k l o cs : find_caller k l = Some (o, cs) -> In (k, o, cs) l.
Proof.
  induction l as [|[[k' o'] c'] t IH]; cbn; [discriminate|].
  destruct (Nat.eqb k k') eqn:E.
  - apply Nat.eqb_eq in E; subst. intros H; injection H as -> ->. now left.
  - intros H. right. auto.
Qed.

Lemma In_set_caller k c0 l k' o cs :
  In (k', o, cs) (set_caller k c0 l) -> exists cs', In (k', o, cs') l.
Proof.
  induction l as [|[[k1 o1] c1] t IH]; cbn; [tauto|].
  destruct (Nat.eqb k k1).
  - intros [H|H]; [injection H as <- <- <-; eexists; now left|eexists; right; exact H].
  - intros [H|H]; [injection H as <- <- <-; eexists; now left|].
    destruct (IH H) as [cs' H']. eexists; right; exact H'.
Qed.

Lemma In_del_caller k l x : In x (del_caller k l) -> In x l.
Proof.
  induction l as [|[[k1 o1] c1] t IH]; cbn; [tauto|].
  destruct (Nat.eqb k k1); [now right|]. intros [H|H]; [now left|right; auto].
Qed.

Lemma nth_repeat' {A} (d x : A) n i : nth i (repeat x n) d = x \/ nth i (repeat x n) d = d.
Proof. revert i; induction n as [|n IH]; intros [|i]; cbn; auto. Qed.

Lemma rn_upd_ok l i p :
  (forall j e, get RnDone l j <> RnSending e) -> (forall e, p <> RnSending e) ->
  forall j e, nth j (upd l i p) RnDone <> RnSending e.
Proof.
  intros H Hp j e. change (nth j (upd l i p) RnDone) with (get RnDone (upd l i p) j).
  destruct (get_upd_cases RnDone l i j p) as [-> | ->]; auto.
Qed.

Lemma calm_init c : calm (init c).
Proof.
  constructor; cbn; auto.
  - intros i e. unfold rn_at, get. cbn.
    destruct (nth_repeat' RnDone RnNot (nrun c) i) as [-> | ->]; discriminate.
  - intros g [].
  - intros i. unfold get.
    destruct (nth_repeat' 0 0 (nrun c) i) as [-> | ->]; reflexivity.
  - intros k o cs [].
Qed.

Lemma has_trig_step c s l s' : has_trig s -> step c s l = Some s' -> has_trig s'.
Proof.
  unfold has_trig. intros H Hs. rewrite (step_hist _ _ _ _ Hs).
  destruct (obs l); [cbn [existsb]; rewrite H; apply orb_true_r|exact H].
Qed.

Ltac calm_fields :=
  repeat match goal with
         | |- forall _, _ => intro
         | H : In _ (_ ++ [_]) |- _ => apply in_app_or in H as [H|[H|[]]]
         | H : In _ (set_caller _ _ _) |- _ => apply In_set_caller in H as [? H]
         | H : In _ (del_caller _ _) |- _ => apply In_del_caller in H
         | H : (_, _, _) = (_, _, _) |- _ => injection H as <- <- <-
         end.

Lemma calm_step c s l s' :
  startup_may_fire c = false -> calm s -> step c s l = Some s' -> has_trig s' \/ calm s'.
Proof.
  intros Su [Cq Cr Cs Cp Co Cd Cm Ct Cc] H. unfold step in H. unfold benign_sig, benign_op in *.
  assert (Cx : ctx_done s = false) by (unfold ctx_done; now rewrite Cp, Co).
  destruct l; cbn [step0] in H; unfold start_shutdown, store_state in H;
    rewrite ?Cq, ?Cd, ?Cx, ?Su, ?andb_false_r in H; cbn [andb negb] in H; try discriminate H;
    step_cases H; inversion H; subst; clear H.
  (* impossible in the calm region *)
  all: try (match goal with E : _ && false && _ = true |- _ => rewrite andb_false_r in E; discriminate E end).
  all: try (match goal with E : context [startup_may_fire _] |- _ =>
              rewrite ?Su in E; rewrite ?andb_false_r, ?andb_false_l in E; cbn [andb] in E; discriminate E end).
  all: try (match goal with E : context [_ && false] |- _ =>
              rewrite ?andb_false_r, ?andb_false_l in E; cbn [andb] in E; discriminate E end).
  all: try (exfalso; cbn in Cm; exact Cm).
  all: try (exfalso; match goal with E : sigq _ = ?g :: _ |- _ =>
              destruct (Cs g) as [X|X]; [discriminate X|discriminate X|first [now left|rewrite E; now left]] end).
  all: try (exfalso; match goal with E : rn_at _ ?i = RnSending ?e |- _ => exact (Cr i e E) end).
  all: try (exfalso; match goal with E : find_caller ?k (callers _) = Some (OpShutdown, _) |- _ =>
              destruct (Cc _ _ _ (find_caller_In _ _ _ _ E)) as [X|[X|X]]; discriminate X end).
  all: try (exfalso; match goal with E : get 0 (strig (aux _)) ?i = S _ |- _ => rewrite Ct in E; discriminate E end).
  all: try match goal with s0 : sig |- _ => destruct s0 end.
  (* the event is a trigger *)
  all: try (left; unfold has_trig; cbn; reflexivity).
  (* still calm *)
  all: right; constructor; cbn; auto.
  all: try (calm_fields; eauto; fail).
  all: try (apply rn_upd_ok; [exact Cr|discriminate]).
  all: try exact Cm.
  all: try (unfold after_launch; match goal with |- context [if ?b then _ else _] => destruct b end; exact I).
  all: try (match goal with E : sigq _ = _ :: _ |- _ => intros gg Hgg; apply Cs; first [right; exact Hgg|rewrite E; right; exact Hgg] end).
  all: try (match goal with E : main _ = _ |- _ => rewrite E; exact I end).
  all: try (unfold benign_op in *; calm_fields; eauto; fail).
  all: try (match goal with E : find_caller _ _ = Some (OpSignal ?g, _) |- _ =>
              intros g' [<-|[]]; destruct (Cc _ _ _ (find_caller_In _ _ _ _ E)) as [X|[X|X]];
              [discriminate X|injection X as ->; now left|injection X as ->; now right] end).
  all: try (match goal with E : sigq _ = ?g :: _ |- False =>
              destruct (Cs g) as [X|X]; try discriminate X; now left end).
  all: try (intros gg [<-|[]]; unfold benign_sig; auto; fail).
Qed.

Lemma InvTrig_init c : InvTrig c (init c).
Proof. right; right. apply calm_init. Qed.

Lemma InvTrig_step c s l s' : InvTrig c s -> step c s l = Some s' -> InvTrig c s'.
Proof.
  intros [Su|[Ht|Cm]] H.
  - now left.
  - right; left. eapply has_trig_step; eassumption.
  - destruct (startup_may_fire c) eqn:Su; [now left|].
    right. eapply calm_step; eassumption.
Qed.

Lemma InvTrig_reachable c s : reachable_sup c s -> InvTrig c s.
Proof. apply sup_inv; [apply InvTrig_init|apply InvTrig_step]. Qed.

Lemma has_trig_rev s : has_trig s -> existsb is_trigger (rev (hist s)) = true.
Proof.
  unfold has_trig. intros H. apply existsb_exists in H as (e & Hin & He).
  apply existsb_exists. exists e. split; [now apply in_rev in Hin|exact He].
Qed.

(* C01: every StopCall is preceded by a shutdown trigger *)
Theorem sup_c01_not_before c ls s :
  run (step c) (init c) ls = Some s -> c01_not_before c (obs_trace obs ls) = true.
Proof.
  intros H. unfold c01_not_before. destruct (startup_may_fire c) eqn:Su; [reflexivity|]. cbn [orb].
  eapply all_check_reachable; [|exact H].
  intros s0 l s1 e Hre Hs Ho. destruct e; try reflexivity. cbn [chk_not_before].
  destruct (InvTrig_reachable _ _ Hre) as [X|[X|X]]; [congruence|now apply has_trig_rev|].
  (* calm: the shutdown body has not started, so StopCall is not enabled *)
  exfalso. destruct l; try discriminate Ho. injection Ho as ->.
  unfold step in Hs. cbn [step0] in Hs. rewrite (cm_sd _ X) in Hs. discriminate Hs.
Qed.

(* C04: Run() does not return without a cause *)
Theorem sup_c04_needs_cause c ls s :
  run (step c) (init c) ls = Some s -> c04_needs_cause c (obs_trace obs ls) = true.
Proof.
  intros H. eapply all_check_reachable; [|exact H].
  intros s0 l s1 e Hre Hs Ho. destruct e; try reflexivity. cbn [chk_cause].
  destruct (InvTrig_reachable _ _ Hre) as [X|[X|X]];
    [now rewrite X|rewrite (has_trig_rev _ X); apply orb_true_r|].
  exfalso. destruct l; try discriminate Ho. injection Ho as ->.
  unfold step in Hs. cbn [step0] in Hs. pose proof (cm_main _ X) as Hm.
  destruct (main s0); try discriminate Hs; exact Hm.
Qed.
