(* Shutdown never starts without a cause: as long as no trigger event has occurred (and the
   start-up deadline cannot fire) the supervisor stays in its "calm" region.  Used by C01 (no
   Stop before shutdown starts) and C04 (Run() never returns without a cause). *)
From Coq Require Import List NArith Bool Arith Lia.
From GS Require Import LTS Supervisor SupAccept SupProps SupInv.
Import ListNotations.

(* ---- generic: checks of every event against its prefix ---- *)

Lemma all_check_from_snoc chk t : forall pre e,
  all_check_from chk pre (t ++ [e]) = all_check_from chk pre t && chk (pre ++ t) e.
Proof.
  induction t as [|x t IH]; intros pre e; cbn [app all_check_from].
  - now rewrite app_nil_r, andb_true_r.
  - rewrite IH, <- app_assoc. cbn [app]. now rewrite andb_assoc.
Qed.

Lemma all_check_snoc chk t e : all_check chk (t ++ [e]) = all_check chk t && chk t e.
Proof. unfold all_check. now rewrite all_check_from_snoc. Qed.

(* if every step's event passes the check against the history so far, every trace passes *)
Lemma all_check_reachable c chk :
  (forall s l s' e, reachable_sup c s -> step c s l = Some s' -> obs l = Some e ->
                    chk (rev (hist s)) e = true) ->
  forall ls s, run (step c) (init c) ls = Some s -> all_check chk (obs_trace obs ls) = true.
Proof.
  intros Hchk ls s Hr. rewrite (trace_is_history _ _ _ Hr).
  assert (G : forall s, reachable_sup c s -> reachable_sup c s /\ all_check chk (rev (hist s)) = true).
  { apply sup_inv.
    - split; [exists []; reflexivity|reflexivity].
    - intros s0 l s1 [Hre Hac] Hs. split.
      + destruct Hre as [ls0 H0]. exists (ls0 ++ [l]). rewrite run_app, H0. cbn [run]. now rewrite Hs.
      + rewrite (step_hist _ _ _ _ Hs). destruct (obs l) as [e|] eqn:Eo; [|exact Hac].
        cbn [rev]. rewrite all_check_snoc, Hac. cbn [andb]. eapply Hchk; eassumption. }
  apply G. now exists ls.
Qed.


Lemma after_launch_cases' c i r : after_launch c i = MReturned r -> False.
Proof. unfold after_launch. destruct (Nat.ltb _ _); discriminate. Qed.

(* ---- the calm region ---- *)

Definition has_trig (c : config) (s : state) : Prop := existsb (is_trigger c) (hist s) = true.

Definition benign_sig (g : sig) : Prop := g = SigHup \/ g = SigOther.
Definition benign_op (o : op) : Prop :=
  o = OpReloadAll \/ o = OpSignal SigHup \/ o = OpSignal SigOther.

(* Main's result, once fixed *)
Definition main_res (m : main_pc) : option result :=
  match m with MExit r | MWaitSd r | MReturned r => Some r | _ => None end.

Record calm (c : config) (s : state) : Prop := {
  cm_errq : errq s = [];
  cm_rn : forall i e, rn_at s i <> RnSending e;
  cm_sigq : forall g, In g (sigq s) -> benign_sig g;
  cm_parent : parent_cancel s = false;
  cm_own : own_cancel s = false;
  cm_sd : sd s = SdNot;
  cm_main : match main s with MNew | MEntering | MLaunch _ | MGate _ | MGateCheck _ | MReap => True | _ => False end;
  (* no trigger of a ShutdownSender is pending; only a ShutdownSender has a listener *)
  cm_strig : forall i, ssender (spec c i) = true -> get 0 (strig (aux s)) i = 0;
  cm_sls : forall i, get LsAbsent (sls s) i = LsIdle -> ssender (spec c i) = true;
  cm_callers : forall k o cs, In (k, o, cs) (callers s) -> benign_op o;
}.

(* the ghost flag su_fired (a start-up deadline has fired: only LGateTimeout sets it) means: the deadline can
   fire in this configuration and Main has fixed the start-up timeout as its result *)
Definition InvSu (c : config) (s : state) : Prop :=
  su_fired (aux s) = true -> startup_may_fire c = true /\ main_res (main s) = Some ResTimeout.

Lemma InvSu_step c s l s' : InvSu c s -> step c s l = Some s' -> InvSu c s'.
Proof.
  intros IS H. unfold step in H. unfold InvSu in *.
  destruct l; cbn [step0] in H; unfold start_shutdown, store_state in H;
    step_cases H; inversion H; subst; clear H; simp_st.
  all: try exact IS.
  all: try (intros _; split; [|reflexivity];
            repeat match goal with E : _ && _ = true |- _ => apply andb_true_iff in E as [E ?] end; assumption).
  all: try (intros X; destruct (IS X) as [A B];
            repeat match goal with E : main _ = _ |- _ => rewrite E in B end;
            cbn [main_res] in B;
            first [discriminate B
                  |split; [exact A|]; cbn [main_res];
                   first [exact B|congruence|injection B as ->; reflexivity
                         |match goal with E : main _ = _ |- _ => rewrite E; exact B end]]).
Qed.

Lemma InvSu_reachable c s : reachable_sup c s -> InvSu c s.
Proof. apply sup_inv; [intros X; discriminate X|apply InvSu_step]. Qed.

(* no shutdown without a cause: the start-up deadline has fired, or a trigger event is in the history, or the
   supervisor is in its calm region *)
Definition InvTrig (c : config) (s : state) : Prop :=
  su_fired (aux s) = true \/ has_trig c s \/ calm c s.

Lemma find_caller_In k l o cs : find_caller k l = Some (o, cs) -> In (k, o, cs) l.
Proof.
  induction l as [|[[k' o'] c'] t IH]; cbn; [discriminate|].
  destruct (Nat.eqb k k') eqn:E.
  - apply Nat.eqb_eq in E; subst. intros H; injection H as -> ->. now left.
  - intros H. right. auto.
Qed.

Lemma In_set_caller k c0 l k' o cs :
  In (k', o, cs) (set_caller k c0 l) -> exists cs', In (k', o, cs') l.
Proof.
  induction l as [|[[k1 o1] c1] t IH]; cbn; [tauto|].
  destruct (Nat.eqb k k1).
  - intros [H|H]; [injection H as <- <- <-; eexists; now left|eexists; right; exact H].
  - intros [H|H]; [injection H as <- <- <-; eexists; now left|].
    destruct (IH H) as [cs' H']. eexists; right; exact H'.
Qed.

Lemma In_del_caller k l x : In x (del_caller k l) -> In x l.
Proof.
  induction l as [|[[k1 o1] c1] t IH]; cbn; [tauto|].
  destruct (Nat.eqb k k1); [now right|]. intros [H|H]; [now left|right; auto].
Qed.

Lemma nth_repeat' {A} (d x : A) n i : nth i (repeat x n) d = x \/ nth i (repeat x n) d = d.
Proof. revert i; induction n as [|n IH]; intros [|i]; cbn; auto. Qed.

Lemma rn_upd_ok l i p :
  (forall j e, get RnDone l j <> RnSending e) -> (forall e, p <> RnSending e) ->
  forall j e, nth j (upd l i p) RnDone <> RnSending e.
Proof.
  intros H Hp j e. change (nth j (upd l i p) RnDone) with (get RnDone (upd l i p) j).
  destruct (get_upd_cases RnDone l i j p) as [-> | ->]; auto.
Qed.

Lemma get_const_absent {A} (l : list A) i : get LsAbsent (map (fun _ => LsAbsent) l) i = LsAbsent.
Proof. unfold get. revert i. induction l as [|x l IH]; intros [|i]; cbn; auto. Qed.

(* the shutdown-trigger listeners as Run() creates them: one for each ShutdownSender *)
Lemma fresh_sls_idle c i :
  get LsAbsent (map (fun r => if ssender r then LsIdle else LsAbsent) (specs c)) i = LsIdle -> ssender (spec c i) = true.
Proof.
  unfold get, spec. revert i. induction (specs c) as [|r l IH]; intros [|i]; cbn; try discriminate.
  - destruct (ssender r); [reflexivity|discriminate].
  - apply IH.
Qed.

Lemma sls_upd_idle (l : list ls_pc) i j : get LsAbsent (upd l i LsDone) j = LsIdle -> get LsAbsent l j = LsIdle.
Proof. intros H. destruct (get_upd_cases LsAbsent l i j LsDone) as [E|E]; rewrite E in H; [discriminate H|exact H]. Qed.

Lemma sls_mark_idle (l : list ls_pc) j : get LsAbsent (mark_ls_done l) j <> LsIdle.
Proof.
  unfold get, mark_ls_done. revert j. induction l as [|p l IH]; intros [|j]; cbn; try discriminate; auto.
  destruct p; discriminate.
Qed.

Lemma calm_init c : calm c (init c).
Proof.
  constructor; cbn; auto.
  - intros i e. unfold rn_at, get. cbn.
    destruct (nth_repeat' RnDone RnNot (nrun c) i) as [-> | ->]; discriminate.
  - intros g [].
  - intros i _. unfold get.
    destruct (nth_repeat' 0 0 (nrun c) i) as [-> | ->]; reflexivity.
  - intros i H. change (get LsAbsent (map (fun _ => LsAbsent) (specs c)) i = LsIdle) in H.
    rewrite get_const_absent in H. discriminate H.
  - intros k o cs [].
Qed.

Lemma has_trig_step c s l s' : has_trig c s -> step c s l = Some s' -> has_trig c s'.
Proof.
  unfold has_trig. intros H Hs. rewrite (step_hist _ _ _ _ Hs).
  destruct (obs l); [cbn [existsb]; rewrite H; apply orb_true_r|exact H].
Qed.

Ltac calm_fields :=
  repeat match goal with
         | |- forall _, _ => intro
         | H : In _ (_ ++ [_]) |- _ => apply in_app_or in H as [H|[H|[]]]
         | H : In _ (set_caller _ _ _) |- _ => apply In_set_caller in H as [? H]
         | H : In _ (del_caller _ _) |- _ => apply In_del_caller in H
         | H : (_, _, _) = (_, _, _) |- _ => injection H as <- <- <-
         end.

Lemma calm_step c s l s' :
  calm c s -> step c s l = Some s' -> su_fired (aux s') = true \/ has_trig c s' \/ calm c s'.
Proof.
  intros [Cq Cr Cs Cp Co Cd Cm Ct Cl Cc] H. unfold step in H. unfold benign_sig, benign_op in *.
  assert (Cx : ctx_done s = false) by (unfold ctx_done; now rewrite Cp, Co).
  destruct l; cbn [step0] in H; unfold start_shutdown, store_state in H;
    rewrite ?Cq, ?Cd, ?Cx, ?andb_false_r in H; cbn [andb negb] in H; try discriminate H;
    step_cases H; inversion H; subst; clear H.
  (* impossible in the calm region *)
  all: try (match goal with E : _ && false && _ = true |- _ => rewrite andb_false_r in E; discriminate E end).
  all: try (match goal with E : context [_ && false] |- _ =>
              rewrite ?andb_false_r, ?andb_false_l in E; cbn [andb] in E; discriminate E end).
  all: try (exfalso; cbn in Cm; exact Cm).
  all: try (exfalso; match goal with E : sigq _ = ?g :: _ |- _ =>
              destruct (Cs g) as [X|X]; [discriminate X|discriminate X|first [now left|rewrite E; now left]] end).
  all: try (exfalso; match goal with E : rn_at _ ?i = RnSending ?e |- _ => exact (Cr i e E) end).
  all: try (exfalso; match goal with E : find_caller ?k (callers _) = Some (OpShutdown, _) |- _ =>
              destruct (Cc _ _ _ (find_caller_In _ _ _ _ E)) as [X|[X|X]]; discriminate X end).
  (* a listener receives a shutdown trigger: it belongs to a ShutdownSender, which has none pending *)
  all: try (exfalso; match goal with E : get 0 (strig (aux _)) ?i = S _, F : get LsAbsent (sls _) ?i = LsIdle |- _ =>
              rewrite (Ct i (Cl i F)) in E; discriminate E end).
  all: try match goal with s0 : sig |- _ => destruct s0 end.
  (* the start-up deadline fires *)
  all: try (left; reflexivity).
  (* a trigger offered by runnable i: a trigger event iff i is a ShutdownSender *)
  all: try (match goal with |- _ \/ has_trig _ (with_hist _ (ETrigS ?i)) \/ _ =>
              destruct (ssender (spec c i)) eqn:Si;
              [right; left; unfold has_trig; cbn [hist with_hist existsb is_trigger]; rewrite Si; reflexivity|] end).
  (* the event is a trigger *)
  all: try (right; left; unfold has_trig; cbn; reflexivity).
  (* still calm *)
  all: right; right; constructor; cbn; auto.
  all: try (calm_fields; eauto; fail).
  all: try (apply rn_upd_ok; [exact Cr|discriminate]).
  all: try exact Cm.
  all: try (unfold after_launch; match goal with |- context [if ?b then _ else _] => destruct b end; exact I).
  all: try (match goal with E : sigq _ = _ :: _ |- _ => intros gg Hgg; apply Cs; first [right; exact Hgg|rewrite E; right; exact Hgg] end).
  all: try (match goal with E : main _ = _ |- _ => rewrite E; exact I end).
  all: try (unfold benign_op in *; calm_fields; eauto; fail).
  all: try (match goal with E : find_caller _ _ = Some (OpSignal ?g, _) |- _ =>
              intros g' [<-|[]]; destruct (Cc _ _ _ (find_caller_In _ _ _ _ E)) as [X|[X|X]];
              [discriminate X|injection X as ->; now left|injection X as ->; now right] end).
  all: try (match goal with E : sigq _ = ?g :: _ |- False =>
              destruct (Cs g) as [X|X]; try discriminate X; now left end).
  all: try (intros gg [<-|[]]; unfold benign_sig; auto; fail).
  (* the listeners *)
  all: try (intros j Hj; apply Cl; exact Hj).
  all: try exact (fresh_sls_idle c).
  all: try (intros j Hj; apply Cl; eapply sls_upd_idle; exact Hj).
  all: try (intros j Hj; exfalso; exact (sls_mark_idle _ _ Hj)).
  (* a trigger of a runnable that is not a ShutdownSender: the pending count of the ShutdownSenders is unchanged *)
  all: try (intros j Sj;
            match goal with |- nth ?jj (upd ?l ?i ?x) 0 = 0 =>
              assert (N : i <> jj) by (intros ->; congruence);
              change (get 0 (upd l i x) jj = 0); rewrite (get_upd_other 0 l i jj x N); apply Ct; exact Sj end).
Qed.

Lemma InvTrig_init c : InvTrig c (init c).
Proof. right; right. apply calm_init. Qed.

Lemma su_fired_step c s l s' : su_fired (aux s) = true -> step c s l = Some s' -> su_fired (aux s') = true.
Proof.
  intros F H. unfold step in H.
  destruct l; cbn [step0] in H; unfold start_shutdown, store_state in H;
    step_cases H; inversion H; subst; clear H; simp_st; first [exact F|reflexivity].
Qed.

Lemma InvTrig_step c s l s' : InvTrig c s -> step c s l = Some s' -> InvTrig c s'.
Proof.
  intros [Su|[Ht|Cm]] H.
  - left. eapply su_fired_step; eassumption.
  - right; left. eapply has_trig_step; eassumption.
  - eapply calm_step; eassumption.
Qed.

Lemma InvTrig_reachable c s : reachable_sup c s -> InvTrig c s.
Proof. apply sup_inv; [apply InvTrig_init|apply InvTrig_step]. Qed.

Lemma has_trig_rev c s : has_trig c s -> existsb (is_trigger c) (rev (hist s)) = true.
Proof.
  unfold has_trig. intros H. apply existsb_exists in H as (e & Hin & He).
  apply existsb_exists. exists e. split; [now apply in_rev in Hin|exact He].
Qed.

(* the flag never goes back *)
Lemma su_fired_run c ls : forall s s', su_fired (aux s) = true -> run (step c) s ls = Some s' -> su_fired (aux s') = true.
Proof.
  induction ls as [|l ls IH]; intros s s' F H.
  - now injection H as <-.
  - cbn [run] in H. destruct (step c s l) as [s1|] eqn:E; [|discriminate].
    eapply IH; [eapply su_fired_step; eassumption|exact H].
Qed.

(* C01 (model form): in a state reached without the start-up deadline having fired, every StopCall of the
   history is preceded by a shutdown trigger.  Checks of every event of a trace need the flag at every prefix:
   it is monotone, so its value at the end is enough. *)
Lemma not_before_inv c :
  forall s, reachable_sup c s ->
            reachable_sup c s /\ (su_fired (aux s) = false -> all_check (chk_not_before c) (rev (hist s)) = true).
Proof.
  apply sup_inv.
  - split; [exists []; reflexivity|]. intros _. reflexivity.
  - intros s0 l s1 [Hre Hac] Hs.
    assert (Hre1 : reachable_sup c s1).
    { destruct Hre as [ls0 H0]. exists (ls0 ++ [l]). rewrite run_app, H0. cbn [run]. now rewrite Hs. }
    split; [exact Hre1|]. intros F1.
    assert (F0 : su_fired (aux s0) = false).
    { destruct (su_fired (aux s0)) eqn:E; [|reflexivity]. rewrite (su_fired_step _ _ _ _ E Hs) in F1. discriminate F1. }
    specialize (Hac F0). rewrite (step_hist _ _ _ _ Hs). destruct (obs l) as [e|] eqn:Eo; [|exact Hac].
    cbn [rev]. rewrite all_check_snoc, Hac. cbn [andb].
    destruct e; try reflexivity. cbn [chk_not_before].
    destruct (InvTrig_reachable _ _ Hre) as [X|[X|X]]; [congruence|now apply has_trig_rev|].
    (* calm: the shutdown body has not started, so StopCall is not enabled *)
    exfalso. destruct l; try discriminate Eo. injection Eo as ->.
    unfold step in Hs. cbn [step0] in Hs. rewrite (cm_sd _ _ X) in Hs. discriminate Hs.
Qed.

Theorem sup_c01_not_before_model c ls s :
  run (step c) (init c) ls = Some s -> su_fired (aux s) = false ->
  c01_not_before_strict c (obs_trace obs ls) = true.
Proof.
  intros H F. rewrite (trace_is_history _ _ _ H). unfold c01_not_before_strict.
  apply (not_before_inv c s); [now exists ls|exact F].
Qed.

Lemma run_returned_hist s :
  run_returned (rev (hist s)) = true -> existsb (fun e => match e with ERunReturn _ => true | _ => false end) (hist s) = true.
Proof.
  unfold run_returned. intros H. apply existsb_exists in H as (x & Hin & Hx). apply in_rev in Hin.
  apply existsb_exists. now exists x.
Qed.

(* Run() has returned r: r is Main's result and ERunReturn r is in the history *)
Definition InvRetEv (s : state) : Prop :=
  (forall r, main s = MReturned r -> In (ERunReturn r) (hist s)) /\
  (existsb (fun e => match e with ERunReturn _ => true | _ => false end) (hist s) = true -> exists r, main s = MReturned r).

Lemma InvRetEv_step c s l s' : InvRetEv s -> step c s l = Some s' -> InvRetEv s'.
Proof.
  intros IR H. unfold step in H. unfold InvRetEv in *.
  destruct l; cbn [step0] in H; unfold start_shutdown, store_state in H;
    step_cases H; inversion H; subst; clear H; split; simp_st.
  all: try exact (proj1 IR).
  all: try exact (proj2 IR).
  all: try (intros r0 Hr; discriminate Hr).
  all: try (intros r0 Hr; apply after_launch_cases' in Hr; contradiction).
  all: try (intros r0 Hr; right; apply (proj1 IR); exact Hr).
  all: try (cbn [existsb orb]; exact (proj2 IR)).
  all: try (intros Hx; destruct (proj2 IR Hx) as [r0 Hr0]; congruence).
  all: try (intros r0 Hr; injection Hr as <-; now left).
  all: try (intros _; eexists; reflexivity).
  all: try (intros r0 Hr; exfalso; match goal with E : main _ = _ |- _ => rewrite E in Hr; discriminate Hr end).
Qed.

Lemma InvRetEv_reachable c s : reachable_sup c s -> InvRetEv s.
Proof. apply sup_inv; [split; [intros r H; discriminate H|intros H; discriminate H]|apply InvRetEv_step]. Qed.

(* C01 (trace form): the only excuse for a StopCall without a trigger before it is the start-up deadline - then
   Run() returns the start-up timeout error, or has not returned yet and the deadline can fire *)
Theorem sup_c01_not_before c ls s :
  run (step c) (init c) ls = Some s -> c01_not_before c (obs_trace obs ls) = true.
Proof.
  intros H. assert (Hre : reachable_sup c s) by (now exists ls).
  unfold c01_not_before. destruct (su_fired (aux s)) eqn:F.
  - destruct (InvSu_reachable _ _ Hre F) as [A B]. rewrite (trace_is_history _ _ _ H).
    destruct (run_returned (rev (hist s))) eqn:R.
    + destruct (InvRetEv_reachable _ _ Hre) as [R1 R2].
      destruct (R2 (run_returned_hist _ R)) as [r Hr]. rewrite Hr in B. cbn in B. injection B as ->.
      replace (mem_ev (ERunReturn ResTimeout) (rev (hist s))) with true; [now rewrite orb_true_r|].
      symmetry. unfold mem_ev. apply existsb_exists. exists (ERunReturn ResTimeout).
      split; [apply -> in_rev; exact (R1 _ Hr)|reflexivity].
    + rewrite A. cbn [negb andb]. apply orb_true_r.
  - rewrite (sup_c01_not_before_model c ls s H F). reflexivity.
Qed.

(* C04: Run() does not return without a cause *)
Theorem sup_c04_needs_cause c ls s :
  run (step c) (init c) ls = Some s -> c04_needs_cause c (obs_trace obs ls) = true.
Proof.
  intros H. eapply all_check_reachable; [|exact H].
  intros s0 l s1 e Hre Hs Ho. destruct e; try reflexivity. cbn [chk_cause].
  destruct l; try discriminate Ho. injection Ho as ->.
  unfold step in Hs. cbn [step0] in Hs.
  destruct (InvTrig_reachable _ _ Hre) as [X|[X|X]].
  - (* the start-up deadline has fired: Main's result is the start-up timeout *)
    destruct (InvSu_reachable _ _ Hre X) as [A B]. rewrite A. cbn [andb].
    destruct (main s0) eqn:Em; try discriminate Hs. cbn in B. injection B as ->.
    destruct (sd s0); try discriminate Hs. destruct r; try discriminate Hs. apply orb_true_r.
  - rewrite (has_trig_rev _ _ X). reflexivity.
  - exfalso. pose proof (cm_main _ _ X) as Hm. destruct (main s0); try discriminate Hs; exact Hm.
Qed.

(* C04 (SIGHUP clause, on the model): as long as no shutdown trigger has occurred and no start-up deadline has
   fired, the supervisor is in its calm region: the shutdown has not started, nothing is cancelled, Run() has
   neither returned nor fixed a result - whatever else happened: SIGHUPs, unknown signals, reloads, runnables
   exiting with nil or with cancellation errors, state changes, triggers offered by runnables that are not
   ShutdownSenders *)
Theorem sup_c04_hup c ls s :
  run (step c) (init c) ls = Some s ->
  existsb (is_trigger c) (obs_trace obs ls) = false -> su_fired (aux s) = false ->
  sd s = SdNot /\ own_cancel s = false /\ main_res (main s) = None /\ (forall r, main s <> MReturned r).
Proof.
  intros H Ht F. assert (Hre : reachable_sup c s) by (now exists ls).
  rewrite (trace_is_history _ _ _ H) in Ht.
  destruct (InvTrig_reachable _ _ Hre) as [X|[X|X]]; [congruence| |].
  - rewrite (has_trig_rev _ _ X) in Ht. discriminate Ht.
  - split; [exact (cm_sd _ _ X)|]. split; [exact (cm_own _ _ X)|].
    pose proof (cm_main _ _ X) as Hm. destruct (main s); try contradiction; (split; [reflexivity|intros r; discriminate]).
Qed.
