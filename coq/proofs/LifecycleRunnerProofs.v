(* A runnable written after the skeleton of LifecycleRunner.v instantiates the Run-cycle contract
   of the StartStop model: every runner schedule projects to a lifecycle schedule, so the C07
   theorems hold for its Stop(). *)
From Coq Require Import List Arith Bool Lia.
From GS Require Import Lifecycle LifecycleInv LifecycleStep LifecycleMain LifecycleRunner.
Import ListNotations.

Lemma run_app : forall fx a b s,
  run fx s (a ++ b) = match run fx s a with Some s' => run fx s' b | None => None end.
Proof.
  induction a as [|l a IH]; intros b s; cbn; [reflexivity|].
  destruct (step fx s l); [apply IH | reflexivity].
Qed.

Lemma lift_inv : forall pc o rs, lift pc o = Some rs -> exists lc', o = Some lc' /\ rs = mkR lc' pc.
Proof. intros pc [lc'|] rs H; cbn in H; [inversion H; eauto | discriminate]. Qed.

(* one runner step = zero or one lifecycle step *)
Lemma rstep_proj : forall s l s',
  rstep s l = Some s' -> run true (r_lc s) (proj l) = Some (r_lc s').
Proof.
  intros [lc pc] l s' H. unfold rstep in H. cbn [r_lc r_pc] in *.
  destruct l; destruct pc; cbn [proj run]; try discriminate;
    try (destruct (is_caller_label l); [|discriminate]);
    try (apply lift_inv in H; destruct H as (lc' & E & ->); rewrite E; reflexivity);
    try (inversion H; subst; reflexivity).
Qed.

Theorem runner_sim : forall ls s s',
  rrun s ls = Some s' -> run true (r_lc s) (flat_map proj ls) = Some (r_lc s').
Proof.
  induction ls as [|l ls IH]; cbn; intros s s' H.
  - inversion H; subst; reflexivity.
  - destruct (rstep s l) as [s1|] eqn:E; [|discriminate].
    rewrite run_app. rewrite (rstep_proj _ _ _ E). apply IH. exact H.
Qed.

Corollary runner_reachable : forall ls rs,
  rrun rinit ls = Some rs -> run true init (flat_map proj ls) = Some (r_lc rs).
Proof. intros ls rs H. apply (runner_sim ls rinit rs H). Qed.

(* ---------- the runner's program counter agrees with the newest cycle ---------- *)
Definition link (rs : rstate) : Prop :=
  match r_pc rs with
  | KIdle => run_idle (cycles (r_lc rs)) = true
  | KBoot | KSelect => exists d st t, cycles (r_lc rs) = mkCyc d st Body :: t
  | KTeardown => exists d st t, cycles (r_lc rs) = mkCyc d st Exiting :: t
  end.

Lemma signal_cycles : forall s, cycles (signal s) = cycles s.
Proof. intro s. unfold signal. destruct (stopped s); reflexivity. Qed.

Lemma caller_step_cycles : forall fx s c s',
  is_caller_label c = true -> step fx s c = Some s' -> cycles s' = cycles s.
Proof.
  intros fx s c s' Hc Hs. destruct c as [|k|k|k|k| | | |]; try discriminate; cbn [step] in Hs.
  - inversion Hs; reflexivity.
  - destruct (nth_error (callers s) k) as [[pc g sp]|]; [|discriminate].
    destruct pc; try discriminate. inversion Hs; subst. cbn. apply signal_cycles.
  - destruct (nth_error (callers s) k) as [[pc g sp]|]; [|discriminate].
    destruct pc as [|ch| | |]; try discriminate. destruct (is_closed s ch); [|discriminate].
    inversion Hs; reflexivity.
  - destruct (nth_error (callers s) k) as [[pc g sp]|]; [|discriminate].
    destruct pc; try discriminate.
    destruct (gen s =? g); [|destruct fx]; inversion Hs; reflexivity.
  - destruct (nth_error (callers s) k) as [[pc g sp]|]; [|discriminate].
    destruct pc as [| | |d|]; try discriminate. destruct (is_closed s d); [|discriminate].
    inversion Hs; reflexivity.
Qed.

Lemma link_init : link rinit.
Proof. reflexivity. Qed.

Lemma link_step : forall s l s', link s -> rstep s l = Some s' -> link s'.
Proof.
  intros [lc pc] l s' HL H. unfold rstep in H. unfold link in *. cbn [r_lc r_pc] in *.
  destruct l.
  - destruct (is_caller_label l) eqn:Ec; [|discriminate].
    apply lift_inv in H. destruct H as (lc' & E & ->). cbn [r_lc r_pc].
    rewrite (caller_step_cycles _ _ _ _ Ec E). exact HL.
  - destruct pc; try discriminate. apply lift_inv in H. destruct H as (lc' & E & ->).
    cbn [step] in E. rewrite HL in E. inversion E; subst. cbn. eauto.
  - destruct pc; try discriminate. inversion H; subst. exact HL.
  - destruct pc; try discriminate. apply lift_inv in H. destruct H as (lc' & E & ->).
    destruct HL as (d & st & t & Hc). cbn [step] in E. rewrite Hc in E. inversion E; subst. cbn. eauto.
  - destruct pc; try discriminate. apply lift_inv in H. destruct H as (lc' & E & ->).
    destruct HL as (d & st & t & Hc). cbn [step] in E. rewrite Hc in E.
    destruct (is_closed lc st); [|discriminate]. inversion E; subst. cbn. eauto.
  - destruct pc; try discriminate. apply lift_inv in H. destruct H as (lc' & E & ->).
    destruct HL as (d & st & t & Hc). cbn [step] in E. rewrite Hc in E. inversion E; subst. cbn. eauto.
  - destruct pc; try discriminate; inversion H; subst; exact HL.
  - destruct pc; try discriminate. apply lift_inv in H. destruct H as (lc' & E & ->).
    destruct HL as (d & st & t & Hc). cbn [step] in E. rewrite Hc in E. inversion E; subst. reflexivity.
Qed.

Lemma link_run : forall ls s s', link s -> rrun s ls = Some s' -> link s'.
Proof.
  induction ls as [|l ls IH]; cbn; intros s s' HL H.
  - inversion H; subst; exact HL.
  - destruct (rstep s l) as [s1|] eqn:E; [|discriminate]. eapply IH; [|exact H]. eapply link_step; eauto.
Qed.

(* ---------- the four statements, for Stop() of a runner ---------- *)
Theorem runner_after_run : forall ls rs k c,
  rrun rinit ls = Some rs -> nth_error (callers (r_lc rs)) k = Some c -> c_pc c = Returned ->
  exists cy, cyc_at (cycles (r_lc rs)) (c_tgt c) = Some cy /\ cy_pc cy = Finished.
Proof. intros ls rs k c H. eapply after_run_fixed. eapply runner_reachable; eauto. Qed.

Theorem runner_signalled : forall ls rs k c d,
  rrun rinit ls = Some rs -> nth_error (callers (r_lc rs)) k = Some c -> c_pc c = AfterSec2 d ->
  exists cy, cyc_at (cycles (r_lc rs)) (c_tgt c) = Some cy /\ cy_done cy = d /\
             is_closed (r_lc rs) (cy_stop cy) = true.
Proof. intros ls rs k c d H. eapply signalled_fixed. eapply runner_reachable; eauto. Qed.

Lemma own_is_caller : forall k l, In l (own_labels k) -> is_caller_label l = true.
Proof. intros k l H. cbn in H. intuition; subst; reflexivity. Qed.

Lemma rrun_callers : forall own lc lc' pc,
  Forall (fun l => is_caller_label l = true) own -> run true lc own = Some lc' ->
  rrun (mkR lc pc) (map RCaller own) = Some (mkR lc' pc).
Proof.
  induction own as [|l own IH]; cbn; intros lc lc' pc HF H.
  - inversion H; subst; reflexivity.
  - inversion HF as [|? ? Hl HF']; subst. unfold rstep. cbn [r_lc r_pc]. rewrite Hl.
    destruct (step true lc l) as [lc1|]; [|discriminate]. cbn [lift]. apply IH; assumption.
Qed.

Theorem runner_immediate : forall ls rs k c,
  rrun rinit ls = Some rs -> r_pc rs = KIdle -> cycles (r_lc rs) <> [] ->
  nth_error (callers (r_lc rs)) k = Some c ->
  exists own rs' c',
    Forall (fun l => In l (own_labels k)) own /\ length own <= 4 /\
    rrun rs (map RCaller own) = Some rs' /\ r_pc rs' = KIdle /\
    nth_error (callers (r_lc rs')) k = Some c' /\ c_pc c' = Returned.
Proof.
  intros ls [lc pc] k c H Hpc Hne Hn. cbn [r_lc r_pc] in *. subst pc.
  pose proof (link_run _ _ _ link_init H) as HL. unfold link in HL. cbn [r_lc r_pc] in HL.
  destruct (cycles lc) as [|c0 t] eqn:Ec; [exfalso; apply Hne; reflexivity|].
  cbn [run_idle] in HL. destruct (cy_pc c0) eqn:Ep; try discriminate.
  pose proof (runner_reachable _ _ H) as Hr. cbn [r_lc] in Hr.
  destruct (immediate true _ lc k c c0 t Hr Ec Ep Hn) as (own & lc' & c' & HF & Hlen & Hrun & Hn' & Hp').
  exists own, (mkR lc' KIdle), c'. repeat split; auto.
  apply rrun_callers; [|exact Hrun].
  eapply Forall_impl; [|exact HF]. intros l Hl. apply (own_is_caller k l Hl).
Qed.

Lemma rstep_caller : forall lc pc l lc',
  is_caller_label l = true -> step true lc l = Some lc' -> rstep (mkR lc pc) (RCaller l) = Some (mkR lc' pc).
Proof. intros lc pc l lc' Hl Hs. unfold rstep. cbn [r_lc r_pc]. rewrite Hl, Hs. reflexivity. Qed.

Theorem runner_progress : forall ls rs k c,
  rrun rinit ls = Some rs -> nth_error (callers (r_lc rs)) k = Some c -> c_pc c <> Returned ->
  exists rl rs' c',
    In rl (rhelpful k) /\ rstep rs rl = Some rs' /\ nth_error (callers (r_lc rs')) k = Some c' /\
    rmeasure rs' c' < rmeasure rs c.
Proof.
  intros ls [lc pc] k c H Hn Hp. cbn [r_lc] in *.
  pose proof (link_run _ _ _ link_init H) as HL. unfold link in HL. cbn [r_lc r_pc] in HL.
  pose proof (runner_reachable _ _ H) as Hr. cbn [r_lc] in Hr.
  destruct (progress_fixed _ lc k c Hr Hn Hp) as (l & lc' & c' & Hin & Hs & Hn' & Hm & _).
  unfold rhelpful, rmeasure. cbn [r_lc r_pc].
  cbn in Hin. destruct Hin as [E|[E|[E|[E|[E|[E|[E|[]]]]]]]]; subst l.
  1-4: (match type of Hs with step true _ ?l = _ => exists (RCaller l) end; exists (mkR lc' pc), c';
        split; [apply in_or_app; left; cbn; auto|];
        split; [apply rstep_caller; [reflexivity | exact Hs]|];
        split; [exact Hn'|]; cbn [r_lc r_pc]; destruct pc; lia).
  - (* LRunStart: the runner is idle *)
    cbn [step] in Hs. destruct (run_idle (cycles lc)) eqn:Ei; [|discriminate].
    destruct pc.
    + exists RRunCall, (mkR lc' KBoot), c'. split; [apply in_or_app; right; cbn; auto|].
      split; [unfold rstep; cbn [r_lc r_pc step]; rewrite Ei; rewrite Hs; reflexivity|].
      split; [exact Hn'|]. cbn [r_lc r_pc]. lia.
    + destruct HL as (d & st & t & Hc). rewrite Hc in Ei. discriminate.
    + destruct HL as (d & st & t & Hc). rewrite Hc in Ei. discriminate.
    + destruct HL as (d & st & t & Hc). rewrite Hc in Ei. discriminate.
  - (* LRunSeeStop: the runner is booting or in its select *)
    cbn [step] in Hs. destruct (cycles lc) as [|[d st p] t] eqn:Ec; [discriminate|].
    destruct p; try discriminate.
    destruct pc.
    + cbn in HL. discriminate.
    + exists RBootOk, (mkR lc KSelect), c. split; [apply in_or_app; right; cbn; auto|].
      split; [reflexivity|]. split; [exact Hn|]. cbn [r_lc r_pc]. lia.
    + exists RSelStop, (mkR lc' KTeardown), c'. split; [apply in_or_app; right; cbn; auto|].
      split; [unfold rstep; cbn [r_lc r_pc step]; rewrite Ec; rewrite Hs; reflexivity|].
      split; [exact Hn'|]. cbn [r_lc r_pc]. lia.
    + destruct HL as (d' & st' & t' & Hc). discriminate.
  - (* LDone: the runner is in its teardown *)
    cbn [step] in Hs. destruct (cycles lc) as [|[d st p] t] eqn:Ec; [discriminate|].
    destruct p; try discriminate.
    destruct pc.
    + cbn in HL. discriminate.
    + destruct HL as (d' & st' & t' & Hc). discriminate.
    + destruct HL as (d' & st' & t' & Hc). discriminate.
    + exists RReturn, (mkR lc' KIdle), c'. split; [apply in_or_app; right; cbn; auto|].
      split; [unfold rstep; cbn [r_lc r_pc step]; rewrite Ec; rewrite Hs; reflexivity|].
      split; [exact Hn'|]. cbn [r_lc r_pc]. lia.
Qed.
