(* C08_stream: what a subscriber that keeps up receives, for every schedule of the machine model.

   Invariant, per subscriber x registered after [reg_at x] changes, which read the state after
   [read_at x] changes (and was un-registered after [unsub_at x] changes):
     everything delivered or still in flight  =  [state read] ++ changes reg_at+1 .. end
   i.e.  got ++ wch ++ hand ++ bch ++ (pending broadcast)  =  expected_stream hist reg read end. *)
From Coq Require Import List Arith NArith Bool Lia.
From GS Require Import LTS Fsm FsmBase.
Import ListNotations.

(* ------------------------------------------------------------------ *)
(* list facts *)
Lemma segment_snoc h x g :
  g <= length h -> segment (h ++ [x]) g (S (length h)) = segment h g (length h) ++ [x].
Proof.
  intros Hg. unfold segment. rewrite skipn_app. replace (g - length h) with 0 by lia. cbn [skipn].
  rewrite firstn_app, skipn_length.
  replace (S (length h) - g - (length h - g)) with 1 by lia.
  cbn [firstn]. f_equal.
  rewrite !firstn_all2 by (rewrite skipn_length; lia). reflexivity.
Qed.

Lemma segment_stable h x g u : u <= length h -> segment (h ++ [x]) g u = segment h g u.
Proof.
  intros Hu. unfold segment. rewrite skipn_app, firstn_app, skipn_length.
  replace (u - g - (length h - g)) with 0 by lia. cbn [firstn]. apply app_nil_r.
Qed.

Lemma segment_nil h g : segment h g g = [].
Proof. unfold segment. now rewrite Nat.sub_diag. Qed.

Lemma state_at_stable h x r : r <= length h -> state_at (h ++ [x]) r = state_at h r.
Proof. destruct r; [reflexivity|]. cbn [state_at]. intros. apply app_nth1. lia. Qed.

Lemma state_at_last h x : state_at (h ++ [x]) (S (length h)) = x.
Proof. cbn [state_at]. rewrite app_nth2 by lia. now rewrite Nat.sub_diag. Qed.

Lemma skipn_cons_nth (h : list st) g : g < length h -> skipn g h = nth g h New :: skipn (S g) h.
Proof.
  revert g; induction h as [|a t IH]; intros g Hg; [cbn in Hg; lia|].
  destruct g; [reflexivity|]. cbn [skipn nth length] in *. rewrite IH by lia. reflexivity.
Qed.

Lemma segment_cons h g u :
  g < u -> u <= length h -> segment h g u = state_at h (S g) :: segment h (S g) u.
Proof.
  intros H1 H2. unfold segment. rewrite skipn_cons_nth by lia.
  replace (u - g) with (S (u - S g)) by lia. reflexivity.
Qed.

(* ------------------------------------------------------------------ *)
Definition olist (o : option st) : list st := match o with Some v => [v] | None => [] end.

Definition flow (c : st) (inp : bool) (x : sub) : list st :=
  got x ++ wch x ++ olist (hand x) ++ bch x ++ (if inp then [c] else []).

Definition endp (n : nat) (x : sub) : nat := if unsub x then unsub_at x else n.

Definition head_part (h : list st) (x : sub) : list st :=
  match sg x with SLive => [state_at h (read_at x)] | SReg => [] end.

Definition sub_ok (h : list st) (c : st) (inp : bool) (x : sub) : Prop :=
  (inp = true -> unsub x = false) /\
  bclosed x = unsub x /\
  (unsub x = true -> cancelled x = true) /\
  (wclosed x = true -> unsub x = true /\ bch x = [] /\ hand x = None /\ sg x = SLive) /\
  (gotclosed x = true -> wclosed x = true /\ wch x = []) /\
  (sg x = SReg -> got x = [] /\ wch x = [] /\ hand x = None /\ wclosed x = false /\ gotclosed x = false) /\
  reg_at x <= endp (length h) x /\ endp (length h) x <= length h /\
  (sg x = SLive -> reg_at x <= read_at x /\ read_at x <= length h) /\
  (dropped x = false ->
   flow c inp x = head_part h x ++ segment h (reg_at x) (endp (length h) x)).

Definition inv (s : state) : Prop :=
  cur s = state_at (hist s) (length (hist s)) /\
  forall i x, nth_error (subs s) i = Some x -> sub_ok (hist s) (cur s) (memn i (pend s)) x.

Ltac simp_sub :=
  cbn [sg bch bclosed hand wch wclosed cancelled unsub dropped got gotclosed reg_at read_at unsub_at
       app olist] in *.
Ltac unf := unfold sub_ok, flow, head_part, endp in *; simp_sub.
Ltac fin := repeat match goal with |- _ /\ _ => split end; intros; subst; simp_sub;
            try tauto; try congruence; try lia.

Ltac fin2 := intuition (subst; simp_sub; try congruence; try discriminate; try lia).

(* ---- per-subscriber steps that do not change the machine's view ---- *)

Lemma ok_cancel h c inp x :
  sub_ok h c inp x ->
  sub_ok h c inp (mkSub (sg x) (bch x) (bclosed x) (hand x) (wch x) (wclosed x) true (unsub x)
                        (dropped x) (got x) (gotclosed x) (reg_at x) (read_at x) (unsub_at x)).
Proof. destruct x as [sg0 bch0 bclosed0 hand0 wch0 wclosed0 cancelled0 unsub0 dropped0 got0 gotclosed0 reg_at0 read_at0 unsub_at0]. unf. intros H. fin2. Qed.

Lemma ok_take h c inp x v r :
  sg x = SLive -> hand x = None -> bch x = v :: r -> sub_ok h c inp x ->
  sub_ok h c inp (mkSub SLive r (bclosed x) (Some v) (wch x) (wclosed x) (cancelled x) (unsub x)
                        (dropped x) (got x) (gotclosed x) (reg_at x) (read_at x) (unsub_at x)).
Proof. destruct x as [sg0 bch0 bclosed0 hand0 wch0 wclosed0 cancelled0 unsub0 dropped0 got0 gotclosed0 reg_at0 read_at0 unsub_at0]. unf. intros -> -> -> H. fin2. Qed.

Lemma ok_put h c inp x v :
  hand x = Some v -> wch x = [] -> sub_ok h c inp x ->
  sub_ok h c inp (mkSub (sg x) (bch x) (bclosed x) None [v] (wclosed x) (cancelled x) (unsub x)
                        (dropped x) (got x) (gotclosed x) (reg_at x) (read_at x) (unsub_at x)).
Proof. destruct x as [sg0 bch0 bclosed0 hand0 wch0 wclosed0 cancelled0 unsub0 dropped0 got0 gotclosed0 reg_at0 read_at0 unsub_at0]. unf. intros -> -> H. fin2. Qed.

(* the repaired forwarder discards the value it holds: from then on the subscriber counts as one that
   did not keep up (every clause about the stream is conditional on [dropped = false]) *)
Lemma ok_abort h c inp x v :
  sg x = SLive -> hand x = Some v -> cancelled x = true -> sub_ok h c inp x ->
  sub_ok h c inp (mkSub SLive (bch x) (bclosed x) None (wch x) (wclosed x) true (unsub x)
                        true (got x) (gotclosed x) (reg_at x) (read_at x) (unsub_at x)).
Proof. destruct x as [sg0 bch0 bclosed0 hand0 wch0 wclosed0 cancelled0 unsub0 dropped0 got0 gotclosed0 reg_at0 read_at0 unsub_at0]. unf. intros -> -> -> H. fin2. Qed.

Lemma ok_close h c inp x :
  sg x = SLive -> hand x = None -> bch x = [] -> bclosed x = true -> wclosed x = false ->
  sub_ok h c inp x ->
  sub_ok h c inp (mkSub SLive [] true None (wch x) true (cancelled x) (unsub x)
                        (dropped x) (got x) (gotclosed x) (reg_at x) (read_at x) (unsub_at x)).
Proof. destruct x as [sg0 bch0 bclosed0 hand0 wch0 wclosed0 cancelled0 unsub0 dropped0 got0 gotclosed0 reg_at0 read_at0 unsub_at0]. unf. intros -> -> -> -> -> H. fin2. Qed.

Lemma ok_recv h c inp x w r :
  sg x = SLive -> wch x = w :: r -> sub_ok h c inp x ->
  sub_ok h c inp (mkSub SLive (bch x) (bclosed x) (hand x) r (wclosed x) (cancelled x) (unsub x)
                        (dropped x) (got x ++ [w]) (gotclosed x) (reg_at x) (read_at x) (unsub_at x)).
Proof.
  destruct x as [sg0 bch0 bclosed0 hand0 wch0 wclosed0 cancelled0 unsub0 dropped0 got0 gotclosed0 reg_at0 read_at0 unsub_at0]. unf. intros -> -> H. fin2.
  rewrite <- app_assoc. simp_sub. assumption.
Qed.

Lemma ok_recvclosed h c inp x :
  sg x = SLive -> wch x = [] -> wclosed x = true -> sub_ok h c inp x ->
  sub_ok h c inp (mkSub SLive (bch x) (bclosed x) (hand x) [] true (cancelled x) (unsub x)
                        (dropped x) (got x) true (reg_at x) (read_at x) (unsub_at x)).
Proof. destruct x as [sg0 bch0 bclosed0 hand0 wch0 wclosed0 cancelled0 unsub0 dropped0 got0 gotclosed0 reg_at0 read_at0 unsub_at0]. unf. intros -> -> -> H. fin2. Qed.

(* ---- steps that change the view ---- *)

Lemma ok_read h c inp x :
  c = state_at h (length h) -> sg x = SReg -> sub_ok h c inp x ->
  sub_ok h c inp (mkSub SLive (bch x) (bclosed x) (hand x) [c] (wclosed x) (cancelled x) (unsub x)
                        (dropped x) (got x) (gotclosed x) (reg_at x) (length h) (unsub_at x)).
Proof.
  destruct x as [sg0 bch0 bclosed0 hand0 wch0 wclosed0 cancelled0 unsub0 dropped0 got0 gotclosed0 reg_at0 read_at0 unsub_at0]. unf. intros Hc -> H.
  assert (got0 = [] /\ wch0 = [] /\ hand0 = None) as (-> & -> & ->) by (intuition congruence).
  destruct unsub0; fin2.
Qed.

Lemma ok_deliver h c x :
  bch x = [] -> sub_ok h c true x ->
  sub_ok h c false (mkSub (sg x) [c] (bclosed x) (hand x) (wch x) (wclosed x) (cancelled x) (unsub x)
                          (dropped x) (got x) (gotclosed x) (reg_at x) (read_at x) (unsub_at x)).
Proof. destruct x as [sg0 bch0 bclosed0 hand0 wch0 wclosed0 cancelled0 unsub0 dropped0 got0 gotclosed0 reg_at0 read_at0 unsub_at0]. unf. intros -> H. fin2. Qed.

Lemma ok_drop h c x :
  sub_ok h c true x ->
  sub_ok h c false (mkSub (sg x) (bch x) (bclosed x) (hand x) (wch x) (wclosed x) (cancelled x) (unsub x)
                          true (got x) (gotclosed x) (reg_at x) (read_at x) (unsub_at x)).
Proof. destruct x as [sg0 bch0 bclosed0 hand0 wch0 wclosed0 cancelled0 unsub0 dropped0 got0 gotclosed0 reg_at0 read_at0 unsub_at0]. unf. intros H. fin2. Qed.

Lemma ok_unsub h c x :
  cancelled x = true -> unsub x = false -> sub_ok h c false x ->
  sub_ok h c false (mkSub (sg x) (bch x) true (hand x) (wch x) (wclosed x) true true
                          (dropped x) (got x) (gotclosed x) (reg_at x) (read_at x) (length h)).
Proof. destruct x as [sg0 bch0 bclosed0 hand0 wch0 wclosed0 cancelled0 unsub0 dropped0 got0 gotclosed0 reg_at0 read_at0 unsub_at0]. unf. intros -> -> H. fin2. Qed.

(* a successful machine call: the history grows, live subscribers become pending *)
Lemma ok_op h c x to :
  sub_ok h c false x -> sub_ok (h ++ [to]) to (negb (unsub x)) x.
Proof.
  destruct x as [sg0 bch0 bclosed0 hand0 wch0 wclosed0 cancelled0 unsub0 dropped0 got0 gotclosed0 reg_at0 read_at0 unsub_at0]. unf. intros H. rewrite app_length. cbn [length]. rewrite Nat.add_1_r.
  destruct unsub0; cbn [negb] in *.
  - assert (Hseg : segment (h ++ [to]) reg_at0 unsub_at0 = segment h reg_at0 unsub_at0)
      by (apply segment_stable; intuition lia).
    rewrite Hseg. destruct sg0.
    + fin2.
    + assert (Hst : state_at (h ++ [to]) read_at0 = state_at h read_at0)
        by (apply state_at_stable; intuition lia).
      rewrite Hst. fin2.
  - assert (Hseg : segment (h ++ [to]) reg_at0 (S (length h)) = segment h reg_at0 (length h) ++ [to])
      by (apply segment_snoc; intuition lia).
    rewrite Hseg. destruct sg0.
    + fin2. match goal with H : _ = segment _ _ _ |- _ => rewrite <- H end. rewrite <- !app_assoc. reflexivity.
    + assert (Hst : state_at (h ++ [to]) read_at0 = state_at h read_at0)
        by (apply state_at_stable; intuition lia).
      rewrite Hst. fin2. rewrite app_comm_cons.
      match goal with H : _ = _ :: segment _ _ _ |- _ => rewrite <- H end. rewrite <- !app_assoc. reflexivity.
Qed.

Lemma ok_new h c : sub_ok h c false (new_sub (length h)).
Proof. unfold new_sub. unf. fin. now rewrite segment_nil. Qed.

(* ------------------------------------------------------------------ *)
Lemma memn_remn_same i p : memn i (remn i p) = false.
Proof.
  induction p as [|a t IH]; [reflexivity|]. cbn [remn]. destruct (Nat.eqb a i) eqn:E; [exact IH|].
  cbn [memn]. now rewrite E, IH.
Qed.

Lemma memn_remn_other i j p : j <> i -> memn j (remn i p) = memn j p.
Proof.
  intros Hn. induction p as [|a t IH]; [reflexivity|]. cbn [remn memn].
  destruct (Nat.eqb a i) eqn:E.
  - apply Nat.eqb_eq in E. subst. destruct (Nat.eqb i j) eqn:E2; [apply Nat.eqb_eq in E2; congruence|exact IH].
  - cbn [memn]. now rewrite IH.
Qed.

Lemma memn_live_from k l j x :
  nth_error l j = Some x -> memn (k + j) (live_from k l) = negb (unsub x).
Proof.
  revert k j; induction l as [|a t IH]; intros k j Hn; [destruct j; discriminate|].
  destruct j; cbn [nth_error] in Hn.
  - inversion Hn; subst. cbn [live_from]. rewrite Nat.add_0_r. destruct (unsub x); cbn [negb].
    + clear. assert (forall m l, m > k -> memn k (live_from m l) = false) as Hlt.
      { intros m l; revert m; induction l as [|b u IHl]; intros m Hm; [reflexivity|].
        cbn [live_from]. destruct (unsub b); [apply IHl; lia|]. cbn [memn].
        destruct (Nat.eqb m k) eqn:E; [apply Nat.eqb_eq in E; lia|]. apply IHl; lia. }
      apply Hlt; lia.
    + cbn [memn]. now rewrite Nat.eqb_refl.
  - cbn [live_from]. replace (k + S j) with (S k + j) by lia. destruct (unsub a).
    + apply IH; exact Hn.
    + cbn [memn]. destruct (Nat.eqb k (S k + j)) eqn:E; [apply Nat.eqb_eq in E; lia|]. apply IH; exact Hn.
Qed.

Lemma inv_init : inv init.
Proof. split; [reflexivity|]. intros i x H. destruct i; discriminate. Qed.

(* replacing subscriber i, same machine view for everybody else *)
Lemma inv_upd s i x y p' :
  inv s -> nth_error (subs s) i = Some x ->
  (forall j, j <> i -> memn j p' = memn j (pend s)) ->
  (sub_ok (hist s) (cur s) (memn i (pend s)) x -> sub_ok (hist s) (cur s) (memn i p') y) ->
  inv (mkState (cur s) (hist s) p' (upd i (fun _ => y) (subs s))).
Proof.
  intros [Hc Hs] Hx Hp Hy. split; [exact Hc|]. cbn [subs hist cur pend]. intros j z Hz.
  rewrite nth_error_upd in Hz. destruct (Nat.eqb j i) eqn:E.
  - apply Nat.eqb_eq in E. subst j. rewrite Hx in Hz. cbn in Hz. inversion Hz; subst.
    apply Hy, Hs, Hx.
  - apply Nat.eqb_neq in E. rewrite Hp by exact E. apply Hs, Hz.
Qed.

Lemma inv_step cfg s l s' : inv s -> step cfg s l = Some s' -> inv s'.
Proof.
  intros Hi H. pose proof Hi as [Hc Hs]. destruct l; unfold step in H; cbn [stepx fix_fwd] in H.
  - (* LOp *)
    destruct (is_nil (pend s)) eqn:En; [|discriminate].
    destruct (pend s) as [|? ?] eqn:Ep; [|discriminate].
    destruct (op_result cfg (cur s) o) as [to|]; destruct ok; try discriminate; inversion H; subst; clear H;
      [|exact Hi].
    split; cbn [cur hist subs pend].
    + rewrite app_length. cbn [length]. rewrite Nat.add_1_r. symmetry. apply state_at_last.
    + intros i x Hx. rewrite (memn_live_from 0 (subs s) i x Hx : memn i _ = _).
      apply (ok_op (hist s) (cur s)). exact (Hs i x Hx).
  - (* LSub *)
    destruct (pend s) as [|? ?] eqn:Ep; [|discriminate]. cbn [is_nil] in H. inversion H; subst; clear H.
    split; [exact Hc|]. cbn [set_subs subs hist cur pend]. intros i x Hx. rewrite Ep. cbn [memn].
    destruct (Nat.lt_ge_cases i (length (subs s))) as [Hlt|Hge].
    + rewrite nth_error_app1 in Hx by exact Hlt. exact (Hs i x Hx).
    + rewrite nth_error_app2 in Hx by exact Hge.
      destruct (i - length (subs s)) as [|k]; [|destruct k; discriminate].
      inversion Hx; subst. apply ok_new.
  - (* LRead *)
    apply with_sub_inv in H as (x & y & Hx & Hg & ->). destruct (sg x) eqn:Esg; [|discriminate].
    inversion Hg; subst; clear Hg.
    apply (inv_upd s i x _ (pend s) Hi Hx); [reflexivity|].
    apply ok_read; [exact Hc|exact Esg].
  - (* LDeliver *)
    destruct (memn i (pend s)) eqn:Em; [|discriminate].
    match type of H with context [with_sub s i ?g] => destruct (with_sub s i g) as [s1|] eqn:E end; [|discriminate].
    apply with_sub_inv in E as (x & y & Hx & Hg & ->). inversion H; subst; clear H. cbn [set_subs cur hist subs].
    destruct (bch x) eqn:Eb; [|discriminate]. cbn [is_nil] in Hg. inversion Hg; subst; clear Hg.
    apply (inv_upd s i x _ (remn i (pend s)) Hi Hx); [intros; now apply memn_remn_other|].
    rewrite Em, memn_remn_same. apply ok_deliver. exact Eb.
  - (* LDrop *)
    destruct (memn i (pend s)) eqn:Em; [|discriminate].
    match type of H with context [with_sub s i ?g] => destruct (with_sub s i g) as [s1|] eqn:E end; [|discriminate].
    apply with_sub_inv in E as (x & y & Hx & Hg & ->). inversion H; subst; clear H. cbn [set_subs cur hist subs].
    destruct (is_nil (bch x)); [discriminate|]. inversion Hg; subst; clear Hg.
    apply (inv_upd s i x _ (remn i (pend s)) Hi Hx); [intros; now apply memn_remn_other|].
    rewrite Em, memn_remn_same. apply ok_drop.
  - (* LFwdTake *)
    apply with_sub_inv in H as (x & y & Hx & Hg & ->).
    destruct (sg x) eqn:E1; [discriminate|]. destruct (hand x) eqn:E2; [discriminate|].
    destruct (bch x) as [|v r] eqn:E3; [discriminate|]. inversion Hg; subst; clear Hg.
    apply (inv_upd s i x _ (pend s) Hi Hx); [reflexivity|]. now apply ok_take.
  - (* LFwdPut *)
    apply with_sub_inv in H as (x & y & Hx & Hg & ->).
    destruct (hand x) as [v|] eqn:E2; [|discriminate]. destruct (wch x) eqn:E3; [|discriminate].
    inversion Hg; subst; clear Hg.
    apply (inv_upd s i x _ (pend s) Hi Hx); [reflexivity|]. now apply ok_put.
  - (* LFwdClose *)
    apply with_sub_inv in H as (x & y & Hx & Hg & ->).
    destruct (sg x) eqn:E1; [discriminate|]. destruct (hand x) eqn:E2; [discriminate|].
    destruct (bch x) eqn:E3; [|discriminate].
    destruct (bclosed x) eqn:E4; [|discriminate]. destruct (wclosed x) eqn:E5; [discriminate|].
    cbn in Hg. inversion Hg; subst; clear Hg.
    apply (inv_upd s i x _ (pend s) Hi Hx); [reflexivity|]. now apply ok_close.
  - (* LCancel *)
    apply with_sub_inv in H as (x & y & Hx & Hg & ->). inversion Hg; subst; clear Hg.
    apply (inv_upd s i x _ (pend s) Hi Hx); [reflexivity|]. apply ok_cancel.
  - (* LUnsub *)
    destruct (pend s) as [|? ?] eqn:Ep; [|discriminate]. cbn [is_nil] in H.
    apply with_sub_inv in H as (x & y & Hx & Hg & ->).
    destruct (cancelled x) eqn:E1; [|discriminate]. destruct (unsub x) eqn:E2; [discriminate|].
    cbn in Hg. inversion Hg; subst; clear Hg.
    pose proof (inv_upd s i x (mkSub (sg x) (bch x) true (hand x) (wch x) (wclosed x) true true (dropped x)
                                      (got x) (gotclosed x) (reg_at x) (read_at x) (length (hist s)))
                        (pend s) Hi Hx (fun _ _ => eq_refl)) as Hu.
    rewrite Ep in Hu. cbn [memn] in Hu. unfold set_subs. rewrite Ep. apply Hu. now apply ok_unsub.
  - (* LRecv *)
    apply with_sub_inv in H as (x & y & Hx & Hg & ->).
    destruct (sg x) eqn:E1; [discriminate|]. destruct (wch x) as [|w r] eqn:E3; [discriminate|].
    destruct (st_eqb w v); [|discriminate]. inversion Hg; subst; clear Hg.
    apply (inv_upd s i x _ (pend s) Hi Hx); [reflexivity|]. now apply ok_recv.
  - (* LRecvClosed *)
    apply with_sub_inv in H as (x & y & Hx & Hg & ->).
    destruct (sg x) eqn:E1; [discriminate|]. destruct (wch x) eqn:E3; [|discriminate].
    destruct (wclosed x) eqn:E4; [|discriminate]. destruct (gotclosed x) eqn:E5; [discriminate|].
    cbn in Hg. inversion Hg; subst; clear Hg.
    apply (inv_upd s i x _ (pend s) Hi Hx); [reflexivity|]. now apply ok_recvclosed.
  - destruct (st_eqb (cur s) v); inversion H; subst; exact Hi.
  - destruct (Bool.eqb (st_eqb (cur s) Running) b); inversion H; subst; exact Hi.
  - (* LFwdAbort *)
    apply with_sub_inv in H as (x & y & Hx & Hg & ->).
    destruct (sg x) eqn:E1; [discriminate|]. destruct (hand x) as [v|] eqn:E2; [|discriminate].
    destruct (wch x) as [|w r] eqn:E4; [discriminate|].
    destruct (cancelled x) eqn:E3; [|discriminate]. inversion Hg; subst; clear Hg. rewrite <- E4.
    apply (inv_upd s i x _ (pend s) Hi Hx); [reflexivity|]. now apply (ok_abort _ _ _ x v).
Qed.

Lemma inv_reach cfg ls s : run (step cfg) init ls = Some s -> inv s.
Proof. intros H. eapply (run_inv _ _ (step cfg) inv); [apply inv_step|apply inv_init|exact H]. Qed.

(* ------------------------------------------------------------------ *)
(* the statements                                                       *)

(* what every keeping-up subscriber has received so far is a prefix of
   [state read inside the call] :: [all changes since the registration inside the call] *)
Lemma stream_prefix cfg ls s i x :
  run (step cfg) init ls = Some s -> nth_error (subs s) i = Some x ->
  dropped x = false -> sg x = SLive ->
  reg_at x <= read_at x /\ read_at x <= length (hist s) /\
  exists rest, expected_stream (hist s) (reg_at x) (read_at x) (endp (length (hist s)) x) = got x ++ rest.
Proof.
  intros Hr Hx Hd Hl. apply inv_reach in Hr as [_ Hs]. specialize (Hs i x Hx).
  unfold sub_ok, flow, head_part in Hs. rewrite Hl in Hs.
  destruct Hs as (_ & _ & _ & _ & _ & _ & _ & _ & Hrd & Hf).
  destruct (Hrd eq_refl) as [A B]. specialize (Hf Hd).
  split; [exact A|]. split; [exact B|].
  exists (wch x ++ olist (hand x) ++ bch x ++ (if memn i (pend s) then [cur s] else [])).
  unfold expected_stream. cbn [app] in Hf. symmetry. exact Hf.
Qed.

(* once the consumer saw the channel closed: the context was cancelled and the stream is complete *)
Lemma stream_closed cfg ls s i x :
  run (step cfg) init ls = Some s -> nth_error (subs s) i = Some x -> gotclosed x = true ->
  cancelled x = true /\ unsub x = true /\
  (dropped x = false -> got x = expected_stream (hist s) (reg_at x) (read_at x) (unsub_at x)).
Proof.
  intros Hr Hx Hg. apply inv_reach in Hr as [_ Hs]. specialize (Hs i x Hx).
  unfold sub_ok, flow, head_part, endp in Hs.
  destruct Hs as (K1 & K2 & K3 & K4 & K5 & K6 & _ & _ & _ & Hf).
  destruct (K5 Hg) as [Hw Hwch]. destruct (K4 Hw) as (Hu & Hb & Hh & Hl).
  split; [auto|]. split; [auto|]. intros Hd. specialize (Hf Hd).
  rewrite Hl, Hu, Hwch, Hb, Hh in Hf.
  destruct (memn i (pend s)); [specialize (K1 eq_refl); congruence|].
  cbn [app olist] in Hf. rewrite app_nil_r in Hf. exact Hf.
Qed.

(* a channel is closed only after its context was cancelled *)
Lemma closed_only_after_cancel cfg ls s i x :
  run (step cfg) init ls = Some s -> nth_error (subs s) i = Some x -> wclosed x = true -> cancelled x = true.
Proof.
  intros Hr Hx Hw. apply inv_reach in Hr as [_ Hs]. specialize (Hs i x Hx).
  unfold sub_ok in Hs. destruct Hs as (K1 & K2 & K3 & K4 & _).
  destruct (K4 Hw) as (Hu & _). auto.
Qed.

(* ... and it IS closed after the cancel, as far as a safety argument can say it: once the context
   is cancelled, as long as the consumer has not seen the close, some step of this subscriber's own
   pipeline (cleanup goroutine, forwarder, consumer) is enabled - it is never stuck before the close.
   (The cleanup goroutine needs the manager mutex: while a broadcast is in progress it waits.) *)
Definition pipeline_labels (i : nat) : list label :=
  [LUnsub i; LFwdTake i; LFwdPut i; LFwdClose i; LRecvClosed i] ++ map (LRecv i) all_st.

Lemma close_progress cfg ls s i x :
  run (step cfg) init ls = Some s -> nth_error (subs s) i = Some x ->
  cancelled x = true -> sg x = SLive -> gotclosed x = false ->
  (unsub x = false -> pend s = []) ->
  exists l, In l (pipeline_labels i) /\ step cfg s l <> None.
Proof.
  intros Hr Hx Hc Hl Hg Hp. apply inv_reach in Hr as [_ Hs]. specialize (Hs i x Hx).
  unfold sub_ok in Hs. destruct Hs as (_ & K2 & _).
  destruct (unsub x) eqn:Eu.
  - destruct (wch x) as [|w r] eqn:Ew.
    + destruct (hand x) as [v|] eqn:Eh.
      * exists (LFwdPut i). split; [cbn; tauto|]. unfold step. cbn [stepx]. unfold with_sub. rewrite Hx, Eh, Ew. discriminate.
      * destruct (bch x) as [|v r] eqn:Eb.
        -- destruct (wclosed x) eqn:Ewc.
           ++ exists (LRecvClosed i). split; [cbn; tauto|]. unfold step. cbn [stepx]. unfold with_sub.
              rewrite Hx, Hl, Ew, Ewc, Hg. discriminate.
           ++ exists (LFwdClose i). split; [cbn; tauto|]. unfold step. cbn [stepx]. unfold with_sub.
              rewrite Hx, Hl, Eh, Eb, K2, Ewc. discriminate.
        -- exists (LFwdTake i). split; [cbn; tauto|]. unfold step. cbn [stepx]. unfold with_sub.
           rewrite Hx, Hl, Eh, Eb. discriminate.
    + exists (LRecv i w). split.
      * unfold pipeline_labels. apply in_or_app. right. apply in_map. destruct w; cbn; tauto.
      * unfold step. cbn [stepx]. unfold with_sub. rewrite Hx, Hl, Ew, st_eqb_refl. discriminate.
  - exists (LUnsub i). split; [cbn; tauto|]. unfold step. cbn [stepx]. rewrite (Hp eq_refl). cbn [is_nil].
    unfold with_sub. rewrite Hx, Hc, Eu. discriminate.
Qed.

(* the two shapes the property allows: s0 :: changes, and the same with one leading duplicate *)
Lemma expected_exact h r u : expected_stream h r r u = state_at h r :: segment h r u.
Proof. reflexivity. Qed.

Lemma expected_one_dup h g u :
  u <= length h ->
  expected_stream h g (S g) u = state_at h (S g) :: segment h (S g) u \/
  expected_stream h g (S g) u = state_at h (S g) :: state_at h (S g) :: segment h (S g) u.
Proof.
  intros Hu. unfold expected_stream. destruct (Nat.lt_ge_cases g u) as [Hlt|Hge].
  - right. now rewrite (segment_cons h g u Hlt Hu).
  - left. unfold segment. replace (u - g) with 0 by lia. replace (u - S g) with 0 by lia. reflexivity.
Qed.
