(* Soundness of the C16 monitor (ClusterMon.v): every schedule of the liveness model passes it.
   Forward simulation: a relation between the monitor state (computed from the observable events only)
   and the model state is preserved by every label; on a visible label the monitor's check succeeds. *)
From Coq Require Import List Arith NArith Bool Lia Permutation.
From GS Require Import LTS Cluster ClusterLTS ClusterPlan ClusterFix ClusterFixPlan ClusterRun ClusterInv ClusterStep
     ClusterMain ClusterRound ClusterRoundB ClusterRoundC ClusterHist ClusterFsm ClusterGo ClusterLive ClusterMon.
Import ListNotations.
Open Scope N_scope.

(* ---------------------------------------------------------------- more frame facts of [step] *)
Lemma remove_inst_none i l : find_inst i l = None -> remove_inst i l = l.
Proof.
  intros H. unfold remove_inst. apply filter_all. intros x Hx. apply negb_true_iff. apply N.eqb_neq. intros E.
  apply find_inst_none in H. apply H. rewrite <- E. now apply in_map.
Qed.

Lemma live_move i s : s_live (move_to_stopping i s) = remove_inst i (s_live s).
Proof.
  unfold move_to_stopping. destruct (find_inst i (s_live s)) eqn:E; psimpl; [reflexivity|].
  symmetry. now apply remove_inst_none.
Qed.

Lemma stopping_move i s :
  s_stopping (move_to_stopping i s) =
  match find_inst i (s_live s) with Some x => x :: s_stopping s | None => s_stopping s end.
Proof. unfold move_to_stopping. destruct (find_inst i (s_live s)); reflexivity. Qed.

Lemma step_live fx s l s' :
  step fx s l = Some s' ->
  s_live s' = match l with
              | LFactory k c i _ => (i, (k, c)) :: s_live s
              | LStopCall i => remove_inst i (s_live s)
              | _ => s_live s
              end.
Proof.
  intros H. destruct l; unfold step in H; cbv zeta in H; brk H; injection H as <-;
    rewrite ?(h_begin _ s_live), ?(h_after _ s_live), ?(h_next _ s_live), ?live_move; reflexivity.
Qed.

Lemma step_stopping fx s l s' :
  step fx s l = Some s' ->
  s_stopping s' = match l with
                  | LStopCall i => match find_inst i (s_live s) with Some x => x :: s_stopping s | None => s_stopping s end
                  | LStopRet i => remove_inst i (s_stopping s)
                  | _ => s_stopping s
                  end.
Proof.
  intros H. destruct l; unfold step in H; cbv zeta in H; brk H; injection H as <-;
    rewrite ?(h_begin _ s_stopping), ?(h_after _ s_stopping), ?(h_next _ s_stopping), ?stopping_move; reflexivity.
Qed.

Lemma step_stopreq fx s l s' :
  step fx s l = Some s' -> s_stopreq s' = match l with LStopApi => true | _ => s_stopreq s end.
Proof.
  intros H. destruct l; unfold step in H; cbv zeta in H; brk H; injection H as <-;
    rewrite ?(h_begin _ s_stopreq), ?(h_after _ s_stopreq), ?(h_next _ s_stopreq); try reflexivity;
    try (unfold finish_round; psimpl; congruence);
    unfold move_to_stopping; try (destruct (find_inst _ _)); reflexivity.
Qed.

Lemma step_closed fx s l s' :
  step fx s l = Some s' -> s_closed s' = match l with LClose => true | _ => s_closed s end.
Proof.
  intros H. destruct l; unfold step in H; cbv zeta in H; brk H; injection H as <-;
    rewrite ?(h_begin _ s_closed), ?(h_after _ s_closed), ?(h_next _ s_closed); try reflexivity;
    try (unfold finish_round; psimpl; congruence);
    unfold move_to_stopping; try (destruct (find_inst _ _)); reflexivity.
Qed.

Lemma step_offer fx s l s' :
  step fx s l = Some s' ->
  s_offer s' = match l with LOffer m => Some m | LRecv _ => None | _ => s_offer s end.
Proof.
  intros H. destruct l; unfold step in H; cbv zeta in H; brk H; injection H as <-;
    rewrite ?(h_begin _ s_offer), ?(h_after _ s_offer), ?(h_next _ s_offer); try reflexivity;
    try (unfold finish_round; psimpl; congruence);
    unfold move_to_stopping; try (destruct (find_inst _ _)); try reflexivity; psimpl; congruence.
Qed.

Lemma step_shut_eq fx s l s' :
  step fx s l = Some s' -> (forall o, l <> LRecv o) -> l <> LShut -> s_shut s' = s_shut s.
Proof.
  intros H H1 H2. destruct l; try (exfalso; now apply (H1 ord)); try (exfalso; now apply H2);
    unfold step in H; cbv zeta in H; brk H; injection H as <-;
    rewrite ?(h_begin _ s_shut), ?(h_after _ s_shut), ?(h_next _ s_shut); try reflexivity;
    unfold move_to_stopping; try (destruct (find_inst _ _)); reflexivity.
Qed.

Lemma step_des fx s l s' :
  step fx s l = Some s' -> (forall o, l <> LRecv o) -> l <> LShut -> s_des s' = s_des s.
Proof.
  intros H H1 H2. destruct l; try (exfalso; now apply (H1 ord)); try (exfalso; now apply H2);
    unfold step in H; cbv zeta in H; brk H; injection H as <-;
    rewrite ?(h_begin _ s_des), ?(h_after _ s_des), ?(h_next _ s_des); try reflexivity;
    unfold move_to_stopping; try (destruct (find_inst _ _)); reflexivity.
Qed.

(* the instance startServers is dealing with: waiting for its readiness, or stopping it after a failure *)
Definition wk (s : state) : option (id * N) :=
  match s_pc s with
  | PWait _ _ k i _ | PFailStop _ _ k i => Some (k, i)
  | _ => None
  end.

Lemma wk_finish s p : wk (finish_round s p) = None.
Proof. unfold wk, finish_round. psimpl. now destruct (s_shut s). Qed.
Lemma wk_next s p ts : wk (next_start s p ts) = None.
Proof. destruct ts; [apply wk_finish|reflexivity]. Qed.
Lemma wk_after s p ts tp : wk (after_stops s p ts tp) = None.
Proof. unfold after_stops. destruct ts; [apply wk_finish|]. now destruct (s_delay s). Qed.
Lemma wk_begin s p : wk (begin_round s p) = None.
Proof.
  unfold begin_round. destruct (pending_actions p) as [ts tp]. destruct (stop_insts p tp); [|reflexivity].
  destruct tp; [apply wk_next|apply wk_after].
Qed.

Lemma wk_step fx s l s' k i :
  step fx s l = Some s' -> wk s' = Some (k, i) ->
  (wk s = Some (k, i) /\ l <> LStopRet i) \/ exists c b, l = LFactory k c i b.
Proof.
  intros H Hw. destruct l; unfold step in H; cbv zeta in H; brk H; injection H as <-;
    rewrite ?wk_begin, ?wk_after, ?wk_next, ?wk_finish in Hw; try discriminate Hw;
    unfold wk in Hw |- *; rewrite ?pc_move in Hw; unfold set_pc, drop_offer in Hw; psimpl in Hw;
    try discriminate Hw;
    try (left; split; [exact Hw|discriminate]);
    try (left; split; [|discriminate]; match goal with E : s_pc s = _ |- _ => rewrite E in * end; exact Hw).
  (* LFactory *) right. injection Hw as <- <-. eauto.
Qed.

(* it is in the bookkeeping with that id *)
Definition WInv (s : state) : Prop :=
  forall k i, wk s = Some (k, i) -> exists c, In (i, (k, c)) (insts_of s).

Lemma WInv_step s l s' : acct s -> WInv s -> step true s l = Some s' -> WInv s'.
Proof.
  intros Ha HW Hs k i Hw. destruct (wk_step _ _ _ _ _ _ Hs Hw) as [[Hw0 Hne]|(c & b & ->)].
  - destruct (HW k i Hw0) as [c Hin]. exists c.
    destruct (insts_step s l s' _ Ha Hs Hin) as [->|H]; [now cbn [fst] in Hne|exact H].
  - exists c. exact (factory_adds _ _ _ _ _ _ Hs).
Qed.

Lemma WInv_reachable d ls s : run (step true) (init d) ls = Some s -> WInv s.
Proof.
  intros Hr. assert (H : acct s /\ WInv s); [|apply H].
  eapply (run_inv _ _ (step true) (fun s => acct s /\ WInv s)); [| |exact Hr].
  - intros s0 l s1 [Ha Hw] Hs. split; [exact (acct_step _ _ _ Ha Hs)|exact (WInv_step _ _ _ Ha Hw Hs)].
  - split; [apply acct_init|]. intros k i H. discriminate.
Qed.

(* a shutdown in progress or finished had a trigger *)
Definition TInv (s : state) : Prop :=
  (returned_pc (s_pc s) = true -> s_shut s = true) /\
  (s_shut s = true -> s_cancel s || s_stopreq s || s_closed s = true).

Definition strig (s : state) : bool := s_cancel s || s_stopreq s || s_closed s.

Lemma T_finish s p : (s_shut s = true -> strig s = true) -> TInv (finish_round s p).
Proof. intros H. unfold TInv, finish_round. psimpl. split; [destruct (s_shut s); [reflexivity|discriminate]|exact H]. Qed.
Lemma T_pc s p : (s_shut s = true -> strig s = true) -> returned_pc p = false -> TInv (set_pc s p).
Proof. intros H Hp. unfold TInv, set_pc. psimpl. split; [rewrite Hp; discriminate|exact H]. Qed.
Lemma T_next s p ts : (s_shut s = true -> strig s = true) -> TInv (next_start s p ts).
Proof. intros H. destruct ts; [now apply T_finish|now apply T_pc]. Qed.
Lemma T_after s p ts tp : (s_shut s = true -> strig s = true) -> TInv (after_stops s p ts tp).
Proof. intros H. unfold after_stops. destruct ts; [now apply T_finish|]. destruct (s_delay s); now apply T_pc. Qed.
Lemma T_begin s p : (s_shut s = true -> strig s = true) -> TInv (begin_round s p).
Proof.
  intros H. unfold begin_round. destruct (pending_actions p) as [ts tp]. destruct (stop_insts p tp); [|now apply T_pc].
  destruct tp; [now apply T_next|now apply T_after].
Qed.

Lemma T_move i s : TInv s -> TInv (move_to_stopping i s).
Proof. intros H. unfold TInv, move_to_stopping. destruct (find_inst i (s_live s)); psimpl; exact H. Qed.

Lemma TInv_step fx s l s' : TInv s -> step fx s l = Some s' -> TInv s'.
Proof.
  intros HT H. pose proof HT as [_ T2]. fold (strig s) in T2.
  destruct l; unfold step in H; cbv zeta in H; brk H; injection H as <-;
    try exact HT;
    try (apply T_begin; psimpl; unfold strig; psimpl; intros; try discriminate; auto; fail);
    try (apply T_after; unfold drop_stopping, strig; psimpl; exact T2);
    try (apply T_next; unfold add_failed, drop_stopping, strig; psimpl; exact T2);
    try (apply T_finish; exact T2);
    try (apply T_move; apply T_pc; [exact T2|reflexivity]);
    try (apply T_pc; [unfold drop_stopping, strig; psimpl; exact T2|reflexivity]);
    try (destruct HT as [A B]; unfold TInv, strig, drop_offer in *; psimpl; split; [exact A|]; intros X; specialize (B X);
         rewrite ?orb_true_r, ?orb_true_l; auto;
         match goal with E : s_closed s = false |- _ => rewrite E in B; exact B end).
  destruct HT as [A B]. unfold TInv, set_pc. psimpl.
  split; [intros _; apply A; match goal with E : s_pc s = _ |- _ => now rewrite E end|exact B].
Qed.

Lemma TInv_reachable fx d ls s : run (step fx) (init d) ls = Some s -> TInv s.
Proof.
  intros Hr. eapply (run_inv _ _ (step fx) TInv); [apply TInv_step| |exact Hr].
  split; cbn; discriminate.
Qed.

Lemma step_failed fx s l s' :
  step fx s l = Some s' ->
  s_failed s' = match l with
                | LFactoryErr k _ => k :: s_failed s
                | LStopRet i => match s_pc s with PFailStop _ _ k _ => k :: s_failed s | _ => s_failed s end
                | LRecv _ => if cstate_eqb (s_fsm s) CRunning && fsm_allowed (s_fsm s) CReloading then [] else s_failed s
                | LShut => []
                | _ => s_failed s
                end.
Proof.
  intros H. destruct l; unfold step in H; cbv zeta in H; brk H; injection H as <-;
    rewrite ?(h_begin _ s_failed), ?(h_after _ s_failed), ?(h_next _ s_failed); try reflexivity;
    unfold move_to_stopping; try (destruct (find_inst _ _)); reflexivity.
Qed.

(* ---------------------------------------------------------------- the simulation relation *)
Record Rel (d : bool) (m : mst) (g : gstate) : Prop := mkRel {
  r_reach : greachable d g;
  r_live : m_live m = s_live (g_s g);
  r_stopping : m_stopping m = s_stopping (g_s g);
  r_cancel : m_cancel m = s_cancel (g_s g);
  r_stopreq : m_stopreq m = s_stopreq (g_s g);
  r_closed : m_closed m = s_closed (g_s g);
  r_ret : m_ret m = true -> s_pc (g_s g) = PRet;
  r_offer :
    (m_acked m = true /\ s_offer (g_s g) = None /\ g_ack g = false) \/
    (m_acked m = false /\ s_offer (g_s g) = Some (m_last m) /\ g_ack g = false) \/
    (m_acked m = false /\ s_offer (g_s g) = None /\ g_ack g = true);
  r_des : s_offer (g_s g) = None -> s_shut (g_s g) = false -> s_des (g_s g) = new_entries (m_last m);
  r_failed : s_offer (g_s g) = None -> incl (s_failed (g_s g)) (m_failed m);
  r_fresh : s_offer (g_s g) = None -> forall k i, wk (g_s g) = Some (k, i) -> In i (m_fresh m);
  r_beh : forall pend ts k i b, s_pc (g_s g) = PWait pend ts k i b -> beh_of i (m_beh m) = Some b;
  r_cx : forall i, In i (g_cx g) -> In i (lv (g_s g)) ->
         exists pend ts k b, s_pc (g_s g) = PWait pend ts k i b /\ (b <> BReady \/ s_cancel (g_s g) = true);
  r_cxlt : forall i, In i (g_cx g) -> i < s_next (g_s g);
  r_rc : g_rc g = true -> s_stopreq (g_s g) = true;
  r_idle : m_idle m = true -> s_pc (g_s g) = PIdle /\ s_offer (g_s g) = None /\ strig (g_s g) = false
}.

Lemma greachable_step d g l g' : greachable d g -> gstep true g l = Some g' -> greachable d g'.
Proof.
  intros [ls H] Hs. exists (ls ++ [l]). rewrite run_app, H. cbn [run]. now rewrite Hs.
Qed.

Lemma Rel_init d : Rel d m0 (ginit d).
Proof.
  constructor; cbn; try reflexivity; try discriminate; auto.
  - exists []. reflexivity.
  - intros _ x [].
  - intros i [].
  - intros i [].
Qed.

(* which program counters the internal labels need *)
Lemma tau_pc fx s l s' :
  step fx s l = Some s' -> obs l = None ->
  match l with
  | LRecv _ => s_pc s = PIdle /\ s_offer s <> None
  | LShut => s_pc s = PIdle /\ strig s = true
  | LDelayFire | LDelayCancel => exists p t, s_pc s = PDelay p t
  | LReady => exists p t k i b, s_pc s = PWait p t k i b
  | _ => False
  end.
Proof.
  intros H Ho. destruct l; try discriminate Ho; unfold step in H; brk H.
  - split; [reflexivity|discriminate].
  - split; [reflexivity|discriminate].
  - split; [reflexivity|]. unfold strig. assumption.
  - eauto.
  - eauto.
  - eauto 6.
Qed.

Lemma sim_tau_base d m g bl s' g' :
  Rel d m g -> step true (g_s g) bl = Some s' -> obs bl = None -> greachable d g' ->
  g_s g' = s' -> g_cx g' = g_cx g ->
  g_ack g' = match bl with LRecv _ => true | _ => g_ack g end ->
  (g_rc g' = g_rc g \/ (g_rc g' = true /\ s_stopreq (g_s g) = true)) ->
  (bl = LReady -> gguard g LReady = true) ->
  Rel d m g'.
Proof.
  intros R Hs Ho Hre Egs Ecx Eack Erc Hgd.
  pose proof (step_live _ _ _ _ Hs) as Elive. pose proof (step_stopping _ _ _ _ Hs) as Estop.
  pose proof (step_cancel _ _ _ _ Hs) as Ecn. pose proof (step_stopreq _ _ _ _ Hs) as Esr.
  pose proof (step_closed _ _ _ _ Hs) as Ecl. pose proof (step_offer _ _ _ _ Hs) as Eof.
  pose proof (step_failed _ _ _ _ Hs) as Efl. pose proof (tau_pc _ _ _ _ Hs Ho) as Hpc.
  pose proof (step_lv _ _ _ _ Hs) as Elv.
  destruct R as [Rre Rl Rs Rc Rq Rcl Rret Roff Rdes Rfail Rfresh Rbeh Rcx Rcxlt Rrc Ridle].
  assert (Hidle : m_idle m = true -> False).
  { intros Hi. destruct (Ridle Hi) as (Ep & Eo & Et).
    destruct bl; try discriminate Ho; try contradiction.
    - destruct Hpc as [_ Hn]. contradiction.
    - destruct Hpc as [_ Ht]. congruence.
    - destruct Hpc as (p & t & E). congruence.
    - destruct Hpc as (p & t & E). congruence.
    - destruct Hpc as (p & t & k & i & b & E). congruence. }
  assert (Hwk : wk s' = None).
  { destruct bl; try discriminate Ho; unfold step in Hs; brk Hs; injection Hs as <-;
      rewrite ?wk_begin, ?wk_next, ?wk_finish; try reflexivity.
    unfold wk, drop_offer. psimpl. match goal with E : s_pc (g_s g) = _ |- _ => now rewrite E end. }
  constructor; rewrite ?Egs.
  - exact Hre.
  - rewrite Elive, Rl. now destruct bl.
  - rewrite Estop, Rs. now destruct bl.
  - rewrite Ecn, Rc. now destruct bl.
  - rewrite Esr, Rq. now destruct bl.
  - rewrite Ecl, Rcl. now destruct bl.
  - intros Hr. specialize (Rret Hr). destruct bl; try discriminate Ho; try contradiction.
    + destruct Hpc as [E _]. congruence.
    + destruct Hpc as [E _]. congruence.
    + destruct Hpc as (p & t & E). congruence.
    + destruct Hpc as (p & t & E). congruence.
    + destruct Hpc as (p & t & k & i & b & E). congruence.
  - rewrite Eof, Eack. destruct bl; try discriminate Ho; try exact Roff.
    destruct Hpc as [_ Hn]. destruct Roff as [(A & B & C)|[(A & B & C)|(A & B & C)]]; try contradiction.
    right. right. auto.
  - (* the desired entries of the round are the last offered map *)
    intros Eo Esh. rewrite Eof in Eo.
    destruct bl; try discriminate Ho.
    + (* LRecv *) destruct Hpc as [Epc Hn].
      destruct Roff as [(A & B & C)|[(A & B & C)|(A & B & C)]]; try contradiction.
      destruct (greachable_base d g Rre) as [ls Hr].
      destruct (update_never_ignored true d ls _ Hr Epc) as [_ Hu].
      now destruct (Hu (m_last m) ord s' B Hs) as (_ & Hd & _).
    + (* LShut *) rewrite (step_shut_true _ _ _ Hs) in Esh. discriminate.
    + rewrite (step_des _ _ _ _ Hs); [|discriminate|discriminate].
      rewrite (step_shut_eq _ _ _ _ Hs) in Esh; [|discriminate|discriminate]. now apply Rdes.
    + rewrite (step_des _ _ _ _ Hs); [|discriminate|discriminate].
      rewrite (step_shut_eq _ _ _ _ Hs) in Esh; [|discriminate|discriminate]. now apply Rdes.
    + rewrite (step_des _ _ _ _ Hs); [|discriminate|discriminate].
      rewrite (step_shut_eq _ _ _ _ Hs) in Esh; [|discriminate|discriminate]. now apply Rdes.
  - intros Eo. rewrite Eof in Eo. rewrite Efl. destruct bl; try discriminate Ho; try (now apply Rfail).
    + destruct Hpc as [Epc _]. destruct (greachable_base d g Rre) as [ls Hr].
      destruct (update_never_ignored true d ls _ Hr Epc) as [-> _]. intros x [].
    + intros x [].
  - intros _ k i Hw. rewrite Hwk in Hw. discriminate.
  - intros pend ts k i b E. unfold wk in Hwk. rewrite E in Hwk. discriminate.
  - (* cancelled own contexts *)
    intros i Hi Hl. rewrite Ecx in Hi. rewrite Elv in Hl.
    assert (Hl0 : In i (lv (g_s g))) by (destruct bl; try discriminate Ho; exact Hl).
    destruct (Rcx i Hi Hl0) as (pend & ts & k & b & Ep & Hb). exfalso.
    destruct bl; try discriminate Ho; try contradiction.
    + destruct Hpc as [E _]. congruence.
    + destruct Hpc as [E _]. congruence.
    + destruct Hpc as (p & t & E). congruence.
    + destruct Hpc as (p & t & E). congruence.
    + specialize (Hgd eq_refl). unfold gguard in Hgd. rewrite Ep in Hgd.
      apply andb_prop in Hgd as [_ Hgd]. apply negb_true_iff in Hgd. apply memN_in in Hi. congruence.
  - intros i Hi. rewrite Ecx in Hi. apply Rcxlt in Hi. rewrite (step_next _ _ _ _ Hs). destruct bl; lia.
  - intros Hr. rewrite Esr. destruct Erc as [E|[_ E]].
    + rewrite E in Hr. specialize (Rrc Hr). rewrite Rrc. now destruct bl.
    + rewrite E. now destruct bl.
  - intros Hi. destruct (Hidle Hi).
Qed.

Lemma sim_tau d m g l g' : Rel d m g -> gstep true g l = Some g' -> gobs l = None -> Rel d m g'.
Proof.
  intros R Hs Ho. pose proof (greachable_step d g l g' (r_reach _ _ _ R) Hs) as Hre.
  destruct l as [bl| |i|i|i|i| |mm h r]; try discriminate Ho; unfold gstep in Hs.
  - (* GB bl, bl internal *)
    cbn [gobs] in Ho. destruct (obs bl) eqn:Eo; [discriminate|].
    destruct (gguard g bl) eqn:Eg; [|discriminate].
    destruct (step true (g_s g) bl) as [s'|] eqn:Es; [|discriminate]. injection Hs as <-.
    apply (sim_tau_base d m g bl s'); try assumption.
    + now destruct bl.
    + now destruct bl.
    + destruct bl; try discriminate Eo; reflexivity.
    + left. now destruct bl.
    + intros ->. exact Eg.
  - (* GShutStop *)
    destruct (s_stopreq (g_s g)) eqn:Eq; [|discriminate].
    destruct (step true (g_s g) LShut) as [s'|] eqn:Es; [|discriminate]. injection Hs as <-.
    apply (sim_tau_base d m g LShut s'); try assumption; try reflexivity.
    + right. split; [reflexivity|exact Eq].
    + discriminate.
  - (* GFailCancel *)
    destruct (s_pc (g_s g)) eqn:Epc; try discriminate.
    destruct ((i =? i0) && (negb (beh_eqb b BReady) || s_cancel (g_s g)) && negb (memN i (g_cx g))) eqn:Ec; [|discriminate].
    injection Hs as <-. apply andb_prop in Ec as [Ec _]. apply andb_prop in Ec as [Ei Eb]. apply N.eqb_eq in Ei. subst i0.
    destruct R as [Rre Rl Rs Rc Rq Rcl Rret Roff Rdes Rfail Rfresh Rbeh Rcx Rcxlt Rrc Ridle].
    constructor; cbn [g_s g_cx g_rc g_ack]; try assumption.
    + intros j [<-|Hj] Hl; [|now apply Rcx].
      exists pend, ts, k, b. split; [exact Epc|]. apply orb_prop in Eb as [Eb|Eb]; [left|now right].
      intros ->. discriminate.
    + intros j [<-|Hj]; [|now apply Rcxlt].
      destruct (greachable_acct d g Rre) as (_ & Hlt & Hpc). unfold acct_pc in Hpc. rewrite Epc in Hpc.
      destruct Hpc as (Hk & Hp & _ & _ & _ & Hat & _). apply Hlt.
      eapply Permutation_in; [apply Permutation_sym; exact Hp|]. now apply (at_key_in_keep pend k).
Qed.

(* ---------------------------------------------------------------- visible labels *)
Definition same_core (s s' : state) : Prop :=
  s_live s' = s_live s /\ s_stopping s' = s_stopping s /\ s_cancel s' = s_cancel s /\
  s_stopreq s' = s_stopreq s /\ s_closed s' = s_closed s /\ s_pc s' = s_pc s /\ s_offer s' = s_offer s /\
  s_shut s' = s_shut s /\ s_des s' = s_des s /\ s_failed s' = s_failed s /\ s_next s' = s_next s.

Lemma same_core_refl s : same_core s s.
Proof. repeat split. Qed.

Lemma Rel_core d m g g' b :
  Rel d m g -> greachable d g' -> same_core (g_s g) (g_s g') ->
  g_cx g' = g_cx g -> g_rc g' = g_rc g -> g_ack g' = g_ack g ->
  (b = true -> m_idle m = true) ->
  Rel d (set_idle m b) g'.
Proof.
  intros [Rre Rl Rs Rc Rq Rcl Rret Roff Rdes Rfail Rfresh Rbeh Rcx Rcxlt Rrc Ridle] Hre
         (C1 & C2 & C3 & C4 & C5 & C6 & C7 & C8 & C9 & C10 & C11) Ecx Erc Eack Hb.
  constructor; cbn [set_idle m_live m_stopping m_beh m_cancel m_stopreq m_closed m_ret m_last m_acked m_failed m_fresh m_idle];
    unfold lv, wk, strig in *; rewrite ?C1, ?C2, ?C3, ?C4, ?C5, ?C6, ?C7, ?C8, ?C9, ?C10, ?C11, ?Ecx, ?Erc, ?Eack; try assumption.
  intros E. apply Ridle. now apply Hb.
Qed.

Lemma set_idle_same m : set_idle m (m_idle m) = m.
Proof. now destruct m. Qed.

Lemma in_insts_live s x : In x (s_live s) -> In x (insts_of s).
Proof. intros H. unfold insts_of. apply in_or_app. now left. Qed.

(* the checks of the monitor, from the theorems about the model *)
Lemma chk_factory d g k c i b s' :
  greachable d g -> step true (g_s g) (LFactory k c i b) = Some s' ->
  forallb (fun x => negb (id_eqb (inst_id x) k)) (s_live (g_s g) ++ s_stopping (g_s g)) = true.
Proof.
  intros Hre Hs. destruct (greachable_base d g Hre) as [ls Hr].
  pose proof (factory_no_same_id _ k c i b s' (RInv_reachable d ls _ Hr) Hs) as Hno.
  apply forallb_forall. intros (j & k' & c') Hin. unfold inst_id. cbn [fst snd].
  destruct (id_eqb k' k) eqn:E; [|reflexivity]. apply id_eqb_eq in E. subst k'.
  exfalso. exact (Hno j c' Hin).
Qed.

Lemma chk_extra d g :
  greachable d g -> s_pc (g_s g) = PIdle ->
  no_extra (s_des (g_s g)) (s_live (g_s g)) = true.
Proof.
  intros Hre Epc. destruct (greachable_base d g Hre) as [ls Hr].
  destruct (round_converges d ls _ Hr Epc) as (_ & _ & _ & _ & R5).
  apply forallb_forall. intros (j & k & c) Hin. unfold inst_id, inst_cfg. cbn [fst snd].
  destruct (R5 j k c Hin) as (e & _ & _ & _ & Hd). rewrite Hd. cbn [optcfg_eqb]. apply N.eqb_refl.
Qed.

Lemma chk_missing d g F :
  greachable d g -> s_pc (g_s g) = PIdle -> s_cancel (g_s g) = false ->
  NoDup (keys (s_des (g_s g))) -> incl (s_failed (g_s g)) F ->
  no_missing (s_des (g_s g)) (s_live (g_s g)) F = true.
Proof.
  intros Hre Epc Hc Hnd Hincl. destruct (runs_exactly d g Hre Epc Hc) as [H1 _].
  apply forallb_forall. intros (q & e) Hin. cbn [fst snd].
  assert (Hd : dcfg (s_des (g_s g)) q = Some (e_cfg e)).
  { unfold dcfg. now rewrite (in_lookup _ q e Hnd Hin). }
  destruct (H1 q (e_cfg e) Hd) as [Hf|(j & Hj & _)].
  - apply orb_true_iff. right. apply mem_id_in. now apply Hincl.
  - apply orb_true_iff. left. apply existsb_exists. exists (j, (q, e_cfg e)). split; [exact Hj|].
    unfold inst_id, inst_cfg. cbn [fst snd]. rewrite N.eqb_refl, andb_true_r. apply id_eqb_eq. reflexivity.
Qed.

Lemma beh_check d m g i :
  Rel d m g -> cxb g i = true -> lvb (g_s g) i = true ->
  m_cancel m || m_stopreq m ||
  match beh_of i (m_beh m) with Some b => negb (beh_eqb b BReady) | None => false end = true.
Proof.
  intros R Hc Hl. unfold cxb in Hc. rewrite (r_cancel _ _ _ R), (r_stopreq _ _ _ R).
  destruct (s_cancel (g_s g)) eqn:Ecn; [reflexivity|]. cbn [orb].
  destruct (g_rc g) eqn:Erc; [rewrite (r_rc _ _ _ R Erc); reflexivity|].
  rewrite !orb_false_r in Hc. apply memN_in in Hc. unfold lvb in Hl. apply memN_in in Hl.
  destruct (r_cx _ _ _ R i Hc Hl) as (pend & ts & k & b & Ep & [Hb|Hb]); [|congruence].
  rewrite (r_beh _ _ _ R _ _ _ _ _ Ep). apply orb_true_iff. right. destruct b; try reflexivity. contradiction.
Qed.

(* the wrapper's own visible labels: the protocol state does not move *)
Lemma sim_vis_wrapper d m g l g' e :
  Rel d m g -> gstep true g l = Some g' -> gobs l = Some e ->
  match l with GB _ => False | _ => True end ->
  exists m', mstep m e = inl m' /\ Rel d m' g'.
Proof.
  intros R Hs Ho Hl. pose proof (greachable_step d g l g' (r_reach _ _ _ R) Hs) as Hre.
  destruct l as [bl| |i|i|i|i| |mm h r]; try contradiction; try discriminate Ho;
    injection Ho as <-; unfold gstep in Hs.
  - (* GCtxSeen *)
    destruct (memN i (g_run g) && negb (memN i (s_unrun (g_s g))) && cxb g i && lvb (g_s g) i) eqn:Ec; [|discriminate].
    injection Hs as <-. apply andb_prop in Ec as [Ec Hlv]. apply andb_prop in Ec as [_ Hcx].
    cbn [mstep]. rewrite (beh_check d m g i R Hcx Hlv). eexists. split; [reflexivity|].
    apply (Rel_core d m g g false); auto using same_core_refl. discriminate.
  - (* GRunRet *)
    brk Hs. injection Hs as <-. cbn [mstep]. eexists. split; [reflexivity|].
    apply (Rel_core d m g _ false); auto using same_core_refl. discriminate.
  - (* GSelfExit *)
    brk Hs. injection Hs as <-. cbn [mstep]. eexists. split; [reflexivity|].
    apply (Rel_core d m g _ false); auto using same_core_refl. discriminate.
  - (* GSent *)
    destruct (g_ack g) eqn:Ea; [|discriminate]. injection Hs as <-. cbn [mstep]. eexists. split; [reflexivity|].
    destruct R as [Rre Rl Rs Rc Rq Rcl Rret Roff Rdes Rfail Rfresh Rbeh Rcx Rcxlt Rrc Ridle].
    constructor; cbn [g_s g_cx g_rc g_ack m_live m_stopping m_beh m_cancel m_stopreq m_closed m_ret m_last m_acked
                      m_failed m_fresh m_idle]; try assumption.
    + destruct Roff as [(A & B & C)|[(A & B & C)|(A & B & C)]]; try congruence. left. auto.
    + discriminate.
  - (* GCensus *)
    brk Hs. injection Hs as <-. cbn [mstep]. exists m. split; [reflexivity|exact R].
Qed.

Lemma same_core_step fx s l s' :
  step fx s l = Some s' ->
  match l with LStopApiRet | LRunCall _ | LCount _ | LState _ => True | _ => False end ->
  same_core s s'.
Proof.
  intros H Hl. destruct l; try contradiction; unfold step in H; brk H; injection H as <-; repeat split.
Qed.

Lemma strig_of d m g : Rel d m g -> strig (g_s g) = trigger m.
Proof. intros R. unfold strig, trigger. now rewrite (r_cancel _ _ _ R), (r_stopreq _ _ _ R), (r_closed _ _ _ R). Qed.

Lemma sim_count d m g n s' :
  Rel d m g -> step true (g_s g) (LCount n) = Some s' ->
  exists m', mstep m (GE (ECount n)) = inl m' /\ Rel d m' (gafter g (LCount n) s').
Proof.
  intros R Hs. pose proof (same_core_step _ _ _ _ Hs I) as Hsc.
  assert (Hre' : greachable d (gafter g (LCount n) s')).
  { apply (greachable_step d g (GB (LCount n))); [exact (r_reach _ _ _ R)|]. unfold gstep. cbn [gguard]. now rewrite Hs. }
  destruct (greachable_base d g (r_reach _ _ _ R)) as [ls Hr].
  assert (Hidle : idle_pc (s_pc (g_s g)) = true /\ n = N.of_nat (count (s_entries (g_s g)))).
  { unfold step in Hs. destruct (s_pc (g_s g)); try discriminate Hs;
      (destruct (n =? N.of_nat (count (s_entries (g_s g)))) eqn:E; [|discriminate Hs]); apply N.eqb_eq in E; now split. }
  destruct Hidle as [Hip Hn]. destruct (count_ok d ls _ Hr Hip) as [Hsp Hcount].
  pose proof (TInv_reachable true d ls _ Hr) as [T1 T2]. fold (strig (g_s g)) in T2.
  pose proof (acct_reachable d ls _ Hr) as (_ & _ & Hacct).
  (* the count clause *)
  assert (Hc3 : (if m_cancel m && negb (m_ret m) then Nat.leb (length (m_live m)) (N.to_nat n)
                 else Nat.eqb (N.to_nat n) (length (m_live m))) = true).
  { rewrite (r_live _ _ _ R), Hn, Nat2N.id, Hcount.
    destruct (m_cancel m && negb (m_ret m)) eqn:Ecr; [apply Nat.leb_le; lia|]. apply Nat.eqb_eq.
    assert (Hz : no_rt (s_entries (g_s g)) = []).
    { apply andb_false_iff in Ecr as [Ecn|Eret].
      - rewrite (r_cancel _ _ _ R) in Ecn. destruct (s_pc (g_s g)) eqn:Epc; try discriminate Hip.
        + now destruct (count_exact_without_cancel d ls _ Hr Epc Ecn).
        + unfold acct_pc in Hacct. rewrite Epc in Hacct. destruct Hacct as (_ & _ & ->). reflexivity.
        + unfold acct_pc in Hacct. rewrite Epc in Hacct. destruct Hacct as (_ & _ & ->). reflexivity.
      - apply negb_false_iff in Eret. pose proof (r_ret _ _ _ R Eret) as Epc.
        unfold acct_pc in Hacct. rewrite Epc in Hacct. destruct Hacct as (_ & _ & ->). reflexivity. }
    rewrite Hz. cbn [length]. lia. }
  cbn [mstep]. cbv zeta. rewrite Hc3.
  destruct (negb (trigger m) && m_acked m) eqn:Eq.
  - (* an idle point: no trigger, the last map received *)
    apply andb_prop in Eq as [Et Ea]. apply negb_true_iff in Et.
    assert (Est : strig (g_s g) = false) by now rewrite (strig_of d m g R).
    assert (Epc : s_pc (g_s g) = PIdle).
    { destruct (s_pc (g_s g)) eqn:Epc; try discriminate Hip; try reflexivity;
        (assert (X : s_shut (g_s g) = true) by (apply T1; reflexivity)); rewrite (T2 X) in Est; discriminate. }
    assert (Eo : s_offer (g_s g) = None).
    { destruct (r_offer _ _ _ R) as [(A & B & C)|[(A & B & C)|(A & B & C)]]; congruence. }
    assert (Esh : s_shut (g_s g) = false) by (apply (acct_idle_shut _ (acct_reachable d ls _ Hr) Epc)).
    assert (Ecn : s_cancel (g_s g) = false).
    { unfold strig in Est. apply orb_false_iff in Est as [Est _]. now apply orb_false_iff in Est as [Est _]. }
    pose proof (r_des _ _ _ R Eo Esh) as Hdes.
    rewrite (r_live _ _ _ R), <- Hdes.
    rewrite (chk_extra d g (r_reach _ _ _ R) Epc).
    rewrite (chk_missing d g (m_failed m) (r_reach _ _ _ R) Epc Ecn);
      [|rewrite Hdes; apply new_entries_nodup|exact (r_failed _ _ _ R Eo)].
    eexists. split; [reflexivity|].
    destruct Hsc as (C1 & C2 & C3 & C4 & C5 & C6 & C7 & C8 & C9 & C10 & C11).
    destruct R as [Rre Rl Rs Rc Rq Rcl Rret Roff Rdes Rfail Rfresh Rbeh Rcx Rcxlt Rrc Ridle].
    constructor; cbn [gafter g_s g_cx g_rc g_ack set_idle m_live m_stopping m_beh m_cancel m_stopreq m_closed m_ret m_last
                      m_acked m_failed m_fresh m_idle];
      unfold lv, wk, strig in *; rewrite ?C1, ?C2, ?C3, ?C4, ?C5, ?C6, ?C7, ?C8, ?C9, ?C10, ?C11; try assumption.
    intros _. auto.
  - eexists. split; [reflexivity|].
    apply (Rel_core d m g _ false); auto. discriminate.
Qed.

Lemma cstate_eqb_eq_local a b : cstate_eqb a b = true -> a = b.
Proof. destruct a, b; cbn; try discriminate; reflexivity. Qed.

Lemma gre_base d g bl s' :
  greachable d g -> gguard g bl = true -> step true (g_s g) bl = Some s' -> greachable d (gafter g bl s').
Proof.
  intros Hre Hg Hs. apply (greachable_step d g (GB bl)); [exact Hre|]. unfold gstep. now rewrite Hg, Hs.
Qed.

Lemma sim_state d m g c s' :
  Rel d m g -> step true (g_s g) (LState c) = Some s' ->
  exists m', mstep m (GE (EState c)) = inl m' /\ Rel d m' (gafter g (LState c) s').
Proof.
  intros R Hs. pose proof (same_core_step _ _ _ _ Hs I) as Hsc.
  pose proof (gre_base d g (LState c) s' (r_reach _ _ _ R) eq_refl Hs) as Hre'.
  destruct (greachable_base d g (r_reach _ _ _ R)) as [ls Hr].
  pose proof (fsm_reachable true d ls _ Hr) as Hf.
  assert (Ec : c = s_fsm (g_s g)).
  { unfold step in Hs. destruct (cstate_eqb c (s_fsm (g_s g))) eqn:E; [|discriminate]. now apply cstate_eqb_eq_local. }
  assert (Hrel : Rel d m (gafter g (LState c) s')).
  { rewrite <- (set_idle_same m). apply (Rel_core d m g _ (m_idle m)); auto. }
  cbn [mstep]. unfold fsm_ok in Hf.
  destruct (m_idle m) eqn:Ei.
  - destruct (r_idle _ _ _ R Ei) as (Epc & _). rewrite Epc in Hf. destruct Hf as [Hf _].
    rewrite Ec, Hf. cbn. exists m. split; [reflexivity|exact Hrel].
  - cbn [andb]. exists m. split; [|exact Hrel]. rewrite Ec.
    destruct (s_pc (g_s g)); try (destruct Hf as [-> _]; reflexivity); try (rewrite Hf; reflexivity);
      rewrite Hf; destruct (s_shut (g_s g)); reflexivity.
Qed.

(* labels that only set a flag or the pending offer: everything else is framed *)
Lemma sim_flags d m g bl s' e :
  Rel d m g -> gguard g bl = true -> step true (g_s g) bl = Some s' -> obs bl = Some e ->
  match bl with LOffer _ | LStopApi | LCancel | LClose => True | _ => False end ->
  exists m', mstep m (GE e) = inl m' /\ Rel d m' (gafter g bl s').
Proof.
  intros R Hg Hs Ho Hbl. pose proof (gre_base d g bl s' (r_reach _ _ _ R) Hg Hs) as Hre'.
  pose proof (step_live _ _ _ _ Hs) as Elive. pose proof (step_stopping _ _ _ _ Hs) as Estop.
  pose proof (step_cancel _ _ _ _ Hs) as Ecn. pose proof (step_stopreq _ _ _ _ Hs) as Esr.
  pose proof (step_closed _ _ _ _ Hs) as Ecl. pose proof (step_offer _ _ _ _ Hs) as Eof.
  pose proof (step_failed _ _ _ _ Hs) as Efl. pose proof (step_next _ _ _ _ Hs) as Enx.
  assert (Epc : s_pc s' = s_pc (g_s g)).
  { destruct bl; try contradiction; unfold step in Hs; brk Hs; injection Hs as <-; reflexivity. }
  assert (Esh : s_shut s' = s_shut (g_s g)) by (apply (step_shut_eq _ _ _ _ Hs); destruct bl; try contradiction; discriminate).
  assert (Ede : s_des s' = s_des (g_s g)) by (apply (step_des _ _ _ _ Hs); destruct bl; try contradiction; discriminate).
  destruct R as [Rre Rl Rs Rc Rq Rcl Rret Roff Rdes Rfail Rfresh Rbeh Rcx Rcxlt Rrc Ridle].
  destruct bl; try contradiction; injection Ho as <-; cbn [mstep]; eexists; (split; [reflexivity|]);
    constructor; cbn [gafter g_s g_cx g_rc g_ack m_live m_stopping m_beh m_cancel m_stopreq m_closed m_ret m_last
                      m_acked m_failed m_fresh m_idle];
    unfold lv, wk in *; rewrite ?Elive, ?Estop, ?Ecn, ?Esr, ?Ecl, ?Eof, ?Efl, ?Enx, ?Epc, ?Esh, ?Ede;
    try assumption; try reflexivity; try discriminate;
    try (intros i Hi Hl; destruct (Rcx i Hi Hl) as (p & t & k & b & A & B); exists p, t, k, b; split; [exact A|tauto]).
  all: try (right; left; unfold gguard in Hg; apply negb_true_iff in Hg; auto; fail).
  all: try (intros _; reflexivity).
  all: try (intros i Hi Hl; destruct (Rcx i Hi Hl) as (p & t & k & b & A & B); exists p, t, k, b; split; [exact A|now right]).
Qed.

Lemma sim_plain d m g bl s' e :
  Rel d m g -> step true (g_s g) bl = Some s' -> obs bl = Some e ->
  match bl with LStopApiRet | LRunCall _ => True | _ => False end ->
  exists m', mstep m (GE e) = inl m' /\ Rel d m' (gafter g bl s').
Proof.
  intros R Hs Ho Hbl.
  assert (Hsc : same_core (g_s g) s') by (apply (same_core_step _ _ _ _ Hs); destruct bl; try contradiction; exact I).
  assert (Hre' : greachable d (gafter g bl s')) by (apply gre_base; [exact (r_reach _ _ _ R)|now destruct bl|exact Hs]).
  destruct bl; try contradiction; injection Ho as <-; cbn [mstep]; eexists; (split; [reflexivity|]);
    apply (Rel_core d m g _ false); auto; discriminate.
Qed.

Lemma sim_runreturn d m g s' :
  Rel d m g -> step true (g_s g) LRunReturn = Some s' ->
  exists m', mstep m (GE ERunReturn) = inl m' /\ Rel d m' (gafter g LRunReturn s').
Proof.
  intros R Hs. pose proof (gre_base d g LRunReturn s' (r_reach _ _ _ R) eq_refl Hs) as Hre'.
  destruct (greachable_acct d g (r_reach _ _ _ R)) as (_ & _ & Hacct).
  assert (Epc : s_pc (g_s g) = PFin) by (unfold step in Hs; destruct (s_pc (g_s g)); try discriminate Hs; reflexivity).
  unfold acct_pc in Hacct. rewrite Epc in Hacct. destruct Hacct as (Hl & Hp & _).
  unfold lv in Hl. unfold sp in Hp. apply map_eq_nil in Hl, Hp.
  assert (Es' : s' = set_pc (g_s g) PRet) by (unfold step in Hs; rewrite Epc in Hs; now injection Hs).
  destruct R as [Rre Rl Rs Rc Rq Rcl Rret Roff Rdes Rfail Rfresh Rbeh Rcx Rcxlt Rrc Ridle].
  cbn [mstep]. rewrite Rl, Rs, Hl, Hp. eexists. split; [reflexivity|].
  constructor; cbn [gafter g_s g_cx g_rc g_ack m_live m_stopping m_beh m_cancel m_stopreq m_closed m_ret m_last
                    m_acked m_failed m_fresh m_idle]; subst s'; unfold set_pc, lv, wk in *; psimpl;
    try assumption; try (symmetry; assumption); try reflexivity; try discriminate.
  - intros i Hi Hl'. rewrite Hl in Hl'. destruct Hl'.
Qed.

Lemma incl_cons_both {A} (x : A) l l' : incl l l' -> incl (x :: l) (x :: l').
Proof. intros H y [<-|Hy]; [now left|right; now apply H]. Qed.

Lemma sim_factoryerr d m g k c s' :
  Rel d m g -> step true (g_s g) (LFactoryErr k c) = Some s' ->
  exists m', mstep m (GE (EFactoryErr k c)) = inl m' /\ Rel d m' (gafter g (LFactoryErr k c) s').
Proof.
  intros R Hs. pose proof (gre_base d g (LFactoryErr k c) s' (r_reach _ _ _ R) eq_refl Hs) as Hre'.
  pose proof (step_live _ _ _ _ Hs) as Elive. pose proof (step_stopping _ _ _ _ Hs) as Estop.
  pose proof (step_cancel _ _ _ _ Hs) as Ecn. pose proof (step_stopreq _ _ _ _ Hs) as Esr.
  pose proof (step_closed _ _ _ _ Hs) as Ecl. pose proof (step_offer _ _ _ _ Hs) as Eof.
  pose proof (step_failed _ _ _ _ Hs) as Efl. pose proof (step_next _ _ _ _ Hs) as Enx.
  assert (Esh : s_shut s' = s_shut (g_s g)) by (apply (step_shut_eq _ _ _ _ Hs); discriminate).
  assert (Ede : s_des s' = s_des (g_s g)) by (apply (step_des _ _ _ _ Hs); discriminate).
  assert (Hpc : (exists p t, s_pc (g_s g) = PStart p t) /\ wk s' = None).
  { unfold step in Hs. brk Hs. injection Hs as <-. split; [eauto|apply wk_next]. }
  destruct Hpc as [(p0 & t0 & Epc) Hwk].
  destruct R as [Rre Rl Rs Rc Rq Rcl Rret Roff Rdes Rfail Rfresh Rbeh Rcx Rcxlt Rrc Ridle].
  cbn [mstep]. eexists. split; [reflexivity|].
  constructor; cbn [gafter g_s g_cx g_rc g_ack m_live m_stopping m_beh m_cancel m_stopreq m_closed m_ret m_last
                    m_acked m_failed m_fresh m_idle];
    rewrite ?Elive, ?Estop, ?Ecn, ?Esr, ?Ecl, ?Eof, ?Efl, ?Enx, ?Esh, ?Ede; try assumption; try discriminate.
  - intros Hr. specialize (Rret Hr). congruence.
  - intros Eo. apply incl_cons_both. now apply Rfail.
  - intros _ k0 i0 Hw. rewrite Hwk in Hw. discriminate.
  - intros pend ts k0 i0 b E. unfold wk in Hwk. rewrite E in Hwk. discriminate.
  - intros i Hi Hl. unfold lv in Hl. rewrite Elive in Hl. destruct (Rcx i Hi Hl) as (p & t & k0 & b & A & _). congruence.
Qed.

Lemma sim_factory d m g k c i b s' :
  Rel d m g -> step true (g_s g) (LFactory k c i b) = Some s' ->
  exists m', mstep m (GE (EFactory k c i b)) = inl m' /\ Rel d m' (gafter g (LFactory k c i b) s').
Proof.
  intros R Hs. pose proof (gre_base d g (LFactory k c i b) s' (r_reach _ _ _ R) eq_refl Hs) as Hre'.
  pose proof (step_live _ _ _ _ Hs) as Elive. pose proof (step_stopping _ _ _ _ Hs) as Estop.
  pose proof (step_cancel _ _ _ _ Hs) as Ecn. pose proof (step_stopreq _ _ _ _ Hs) as Esr.
  pose proof (step_closed _ _ _ _ Hs) as Ecl. pose proof (step_offer _ _ _ _ Hs) as Eof.
  pose proof (step_failed _ _ _ _ Hs) as Efl. pose proof (step_next _ _ _ _ Hs) as Enx.
  pose proof (step_factory_fresh _ _ _ _ _ _ _ Hs) as Efr.
  assert (Esh : s_shut s' = s_shut (g_s g)) by (apply (step_shut_eq _ _ _ _ Hs); discriminate).
  assert (Ede : s_des s' = s_des (g_s g)) by (apply (step_des _ _ _ _ Hs); discriminate).
  assert (Hpc : (exists p t, s_pc (g_s g) = PStart p t) /\ exists p t, s_pc s' = PWait p t k i b).
  { unfold step in Hs. brk Hs. injection Hs as <-. split; psimpl; eauto. }
  destruct Hpc as [(p0 & t0 & Epc) (p1 & t1 & Epc')].
  pose proof (chk_factory d g k c i b s' (r_reach _ _ _ R) Hs) as Hchk.
  destruct R as [Rre Rl Rs Rc Rq Rcl Rret Roff Rdes Rfail Rfresh Rbeh Rcx Rcxlt Rrc Ridle].
  cbn [mstep]. rewrite Rl, Rs, Hchk. eexists. split; [reflexivity|].
  constructor; cbn [gafter g_s g_cx g_rc g_ack m_live m_stopping m_beh m_cancel m_stopreq m_closed m_ret m_last
                    m_acked m_failed m_fresh m_idle];
    rewrite ?Elive, ?Estop, ?Ecn, ?Esr, ?Ecl, ?Eof, ?Efl, ?Enx, ?Esh, ?Ede; try assumption; try discriminate;
    try (f_equal; assumption).
  - intros Hr. specialize (Rret Hr). congruence.
  - intros _ k0 i0 Hw. unfold wk in Hw. rewrite Epc' in Hw. injection Hw as <- <-. now left.
  - intros pend ts k0 i0 b0 E. rewrite Epc' in E. injection E as _ _ _ <- <-.
    unfold beh_of. cbn [find fst]. now rewrite N.eqb_refl.
  - intros j Hj Hl. exfalso. unfold lv in Hl. rewrite Elive in Hl. cbn [map fst] in Hl. destruct Hl as [<-|Hl].
    + apply Rcxlt in Hj. lia.
    + destruct (Rcx j Hj Hl) as (p & t & k0 & b0 & A & _). congruence.
  - intros j Hj. apply Rcxlt in Hj. lia.
Qed.

Lemma sim_stopcall d m g i s' :
  Rel d m g -> gguard g (LStopCall i) = true -> step true (g_s g) (LStopCall i) = Some s' ->
  exists m', mstep m (GE (EStopCall i)) = inl m' /\ Rel d m' (gafter g (LStopCall i) s').
Proof.
  intros R Hg Hs. pose proof (gre_base d g (LStopCall i) s' (r_reach _ _ _ R) Hg Hs) as Hre'.
  pose proof (step_live _ _ _ _ Hs) as Elive. pose proof (step_stopping _ _ _ _ Hs) as Estop.
  pose proof (step_cancel _ _ _ _ Hs) as Ecn. pose proof (step_stopreq _ _ _ _ Hs) as Esr.
  pose proof (step_closed _ _ _ _ Hs) as Ecl. pose proof (step_offer _ _ _ _ Hs) as Eof.
  pose proof (step_failed _ _ _ _ Hs) as Efl. pose proof (step_next _ _ _ _ Hs) as Enx.
  pose proof (step_lv _ _ _ _ Hs) as Elv.
  assert (Esh : s_shut s' = s_shut (g_s g)) by (apply (step_shut_eq _ _ _ _ Hs); discriminate).
  assert (Ede : s_des s' = s_des (g_s g)) by (apply (step_des _ _ _ _ Hs); discriminate).
  assert (Hpc : (forall p t k j b, s_pc s' <> PWait p t k j b) /\ s_pc (g_s g) <> PRet /\
                (forall k0 i0, wk s' = Some (k0, i0) -> wk (g_s g) = Some (k0, i0)) /\
                (forall p t k j b, s_pc (g_s g) = PWait p t k j b -> i = j)).
  { unfold step in Hs. brk Hs; injection Hs as <-; unfold wk; rewrite ?pc_move; unfold set_pc; psimpl;
      match goal with E : s_pc (g_s g) = _ |- _ => rewrite E end; repeat split; try discriminate; try congruence.
    intros p9 t9 k9 j9 b9 E. injection E as _ _ _ <- _.
    match goal with E : _ && _ = true |- _ => apply andb_prop in E as [E _]; now apply N.eqb_eq in E end. }
  destruct Hpc as (Hnw & Hnr & Hwk & Hij).
  destruct R as [Rre Rl Rs Rc Rq Rcl Rret Roff Rdes Rfail Rfresh Rbeh Rcx Rcxlt Rrc Ridle].
  cbn [mstep]. eexists. split; [reflexivity|].
  constructor; cbn [gafter g_s g_cx g_rc g_ack m_live m_stopping m_beh m_cancel m_stopreq m_closed m_ret m_last
                    m_acked m_failed m_fresh m_idle];
    rewrite ?Elive, ?Estop, ?Ecn, ?Esr, ?Ecl, ?Eof, ?Efl, ?Enx, ?Esh, ?Ede; try assumption; try discriminate.
  - now rewrite Rl.
  - now rewrite Rl, Rs.
  - intros Hr. specialize (Rret Hr). contradiction.
  - intros Eo k0 i0 Hw. apply (Rfresh Eo k0 i0). now apply Hwk.
  - intros p t k j b E. destruct (Hnw _ _ _ _ _ E).
  - intros j Hj Hl. exfalso. rewrite Elv in Hl. pose proof (in_removeN _ _ _ Hl) as Hl0.
    destruct (Rcx j Hj Hl0) as (p & t & k & b & A & _). rewrite (Hij _ _ _ _ _ A) in Hl. now apply not_in_removeN in Hl.
Qed.

Lemma find_inst_single i x : fst x = i -> find_inst i [x] = Some x.
Proof. intros E. unfold find_inst. cbn [find]. rewrite E, N.eqb_refl. reflexivity. Qed.

Lemma sim_stopret d m g i s' :
  Rel d m g -> step true (g_s g) (LStopRet i) = Some s' ->
  exists m', mstep m (GE (EStopRet i)) = inl m' /\ Rel d m' (gafter g (LStopRet i) s').
Proof.
  intros R Hs. pose proof (gre_base d g (LStopRet i) s' (r_reach _ _ _ R) eq_refl Hs) as Hre'.
  pose proof (step_live _ _ _ _ Hs) as Elive. pose proof (step_stopping _ _ _ _ Hs) as Estop.
  pose proof (step_cancel _ _ _ _ Hs) as Ecn. pose proof (step_stopreq _ _ _ _ Hs) as Esr.
  pose proof (step_closed _ _ _ _ Hs) as Ecl. pose proof (step_offer _ _ _ _ Hs) as Eof.
  pose proof (step_failed _ _ _ _ Hs) as Efl. pose proof (step_next _ _ _ _ Hs) as Enx.
  pose proof (step_lv _ _ _ _ Hs) as Elv.
  assert (Esh : s_shut s' = s_shut (g_s g)) by (apply (step_shut_eq _ _ _ _ Hs); discriminate).
  assert (Ede : s_des s' = s_des (g_s g)) by (apply (step_des _ _ _ _ Hs); discriminate).
  destruct (GInv_reachable d g (r_reach _ _ _ R)) as (Hacct & (Kb & Kd & _)).
  destruct (greachable_base d g (r_reach _ _ _ R)) as [ls Hr].
  pose proof (WInv_reachable d ls _ Hr) as HW.
  assert (Hpc : wk s' = None /\ s_pc (g_s g) <> PRet /\ (forall p t k j b, s_pc (g_s g) <> PWait p t k j b) /\
                In i (sp (g_s g)) /\
                (forall p t k j, s_pc (g_s g) = PFailStop p t k j -> j = i /\ sp (g_s g) = [i])).
  { destruct Hacct as (_ & _ & Hpc). unfold acct_pc in Hpc.
    unfold step in Hs. destruct (s_pc (g_s g)) eqn:Epc; try discriminate Hs.
    - destruct (memN i called) eqn:Em; [|discriminate Hs]. destruct Hpc as (_ & _ & Hp & _).
      assert (Hin : In i (sp (g_s g))) by (eapply Permutation_in; [apply Permutation_sym; exact Hp|now apply memN_in]).
      destruct tocall, (removeN i called); injection Hs as <-; rewrite ?wk_after; repeat split; try discriminate; try exact Hin.
    - destruct (i =? i0) eqn:Ei; [|discriminate Hs]. apply N.eqb_eq in Ei. subst i0. injection Hs as <-.
      destruct Hpc as (_ & _ & Hp & _). rewrite wk_next. repeat split; try discriminate.
      + rewrite Hp. now left.
      + now injection H.
      + exact Hp. }
  destruct Hpc as (Hwk & Hnr & Hnw & Hisp & Hfs).
  destruct R as [Rre Rl Rs Rc Rq Rcl Rret Roff Rdes Rfail Rfresh Rbeh Rcx Rcxlt Rrc Ridle].
  cbn [mstep]. eexists. split; [reflexivity|].
  constructor; cbn [gafter g_s g_cx g_rc g_ack m_live m_stopping m_beh m_cancel m_stopreq m_closed m_ret m_last
                    m_acked m_failed m_fresh m_idle];
    rewrite ?Elive, ?Estop, ?Ecn, ?Esr, ?Ecl, ?Eof, ?Enx, ?Esh, ?Ede; try assumption; try discriminate.
  - now rewrite Rs.
  - intros Hr0. specialize (Rret Hr0). contradiction.
  - (* failed starts *)
    intros Eo. rewrite Efl. rewrite Rs.
    destruct (s_pc (g_s g)) eqn:Epc;
      try (destruct (find_inst i (s_stopping (g_s g))); [destruct (memN i (m_fresh m))|]; try (apply incl_tl); now apply Rfail).
    destruct (Hfs _ _ _ _ eq_refl) as [-> Hsp].
    assert (Hw : wk (g_s g) = Some (k, i)) by (unfold wk; now rewrite Epc).
    destruct (HW k i Hw) as [c0 Hin]. unfold insts_of in Hin. apply in_app_or in Hin as [Hin|Hin].
    { exfalso. apply (Kd i Hisp). unfold lv. change i with (fst (i, (k, c0))). now apply in_map. }
    unfold sp in Hsp. destruct (s_stopping (g_s g)) as [|x [|y l]] eqn:Est; try discriminate Hsp.
    cbn [map] in Hsp. injection Hsp as Hx. destruct Hin as [->|[]].
    unfold find_inst. cbn [find fst]. rewrite N.eqb_refl.
    assert (Hfr : memN i (m_fresh m) = true) by (apply memN_in; now apply (Rfresh Eo k i)).
    rewrite Hfr. unfold inst_id. cbn [fst snd]. apply incl_cons_both. now apply Rfail.
  - intros _ k0 i0 Hw. rewrite Hwk in Hw. discriminate.
  - intros p t k j b E. unfold wk in Hwk. rewrite E in Hwk. discriminate.
  - intros j Hj Hl. exfalso. rewrite Elv in Hl. apply in_addN in Hj as [->|Hj].
    + exact (Kd i Hisp Hl).
    + destruct (Rcx j Hj Hl) as (p & t & k & b & A & _). exact (Hnw _ _ _ _ _ A).
  - intros j Hj. apply in_addN in Hj as [->|Hj]; [now apply Kb|now apply Rcxlt].
Qed.

Lemma sim_vis d m g l g' e :
  Rel d m g -> gstep true g l = Some g' -> gobs l = Some e ->
  exists m', mstep m e = inl m' /\ Rel d m' g'.
Proof.
  intros R Hs Ho. destruct l as [bl| |i|i|i|i| |mm h r]; try (now apply (sim_vis_wrapper d m g _ g' e R Hs Ho)).
  cbn [gobs] in Ho. destruct (obs bl) as [e0|] eqn:Eo; [|discriminate]. injection Ho as <-.
  unfold gstep in Hs. destruct (gguard g bl) eqn:Eg; [|discriminate].
  destruct (step true (g_s g) bl) as [s'|] eqn:Es; [|discriminate]. injection Hs as <-.
  destruct bl; try discriminate Eo; injection Eo as <-.
  - exact (sim_flags d m g _ s' _ R Eg Es eq_refl I).
  - exact (sim_flags d m g LStopApi s' _ R Eg Es eq_refl I).
  - exact (sim_plain d m g LStopApiRet s' _ R Es eq_refl I).
  - exact (sim_flags d m g LCancel s' _ R Eg Es eq_refl I).
  - exact (sim_flags d m g LClose s' _ R Eg Es eq_refl I).
  - exact (sim_stopcall d m g i s' R Eg Es).
  - exact (sim_stopret d m g i s' R Es).
  - exact (sim_factory d m g k c i b s' R Es).
  - exact (sim_factoryerr d m g k c s' R Es).
  - exact (sim_plain d m g (LRunCall i) s' _ R Es eq_refl I).
  - exact (sim_count d m g n s' R Es).
  - exact (sim_state d m g c s' R Es).
  - exact (sim_runreturn d m g s' R Es).
Qed.

(* ---------------------------------------------------------------- the theorem *)
Lemma mon_sim d : forall ls m g g' n,
  Rel d m g -> run (gstep true) g ls = Some g' ->
  exists m', mrun m n (obs_trace gobs ls) = inl m' /\ Rel d m' g'.
Proof.
  induction ls as [|l ls IH]; intros m g g' n R Hr.
  - injection Hr as <-. exists m. split; [reflexivity|exact R].
  - cbn [run] in Hr. destruct (gstep true g l) as [g1|] eqn:Es; [|discriminate].
    cbn [obs_trace]. destruct (gobs l) as [e|] eqn:Eo.
    + destruct (sim_vis d m g l g1 e R Es Eo) as (m1 & Hm & R1). cbn [mrun]. rewrite Hm. exact (IH m1 g1 g' (S n) R1 Hr).
    + exact (IH m g1 g' n (sim_tau d m g l g1 R Es Eo) Hr).
Qed.

(* every schedule of the liveness model (hence, by C16_acceptor_sound, every accepted trace of the real
   Runner) passes the monitor *)
Theorem mon_sound d ls g :
  run (gstep true) (ginit d) ls = Some g -> c16_holdsb (obs_trace gobs ls) = true.
Proof.
  intros Hr. destruct (mon_sim d ls m0 (ginit d) g 0%nat (Rel_init d) Hr) as (m' & Hm & _).
  unfold c16_holdsb, c16_monitor. now rewrite Hm.
Qed.

(* history-level readings of the ghost fields (audit2 M3), through the monitor state [mon t] that is
   computed from the observable trace alone *)
Theorem ghost_fields_from_trace d ls g :
  run (gstep true) (ginit d) ls = Some g ->
  exists m, mrun m0 0 (obs_trace gobs ls) = inl m /\
    m_live m = s_live (g_s g) /\ m_stopping m = s_stopping (g_s g) /\
    (s_offer (g_s g) = None -> s_shut (g_s g) = false -> s_des (g_s g) = new_entries (m_last m)) /\
    (s_offer (g_s g) = None -> incl (s_failed (g_s g)) (m_failed m)).
Proof.
  intros Hr. destruct (mon_sim d ls m0 (ginit d) g 0%nat (Rel_init d) Hr) as (m' & Hm & R).
  exists m'. split; [exact Hm|]. destruct R. auto.
Qed.
