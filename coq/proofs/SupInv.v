(* Basic facts about the supervisor model: the history is the observable trace. *)
From Coq Require Import List NArith Bool Arith Lia.
From GS Require Import LTS Supervisor SupAccept SupProps.
Import ListNotations.

(* case analysis on a successful step: destructs every match/if scrutinee in the hypothesis *)
Ltac step_cases H :=
  repeat match type of H with
         | context [match ?x with _ => _ end] =>
           match x with
           | context [match _ with _ => _ end] => fail 1
           | _ => destruct x eqn:?; try discriminate H
           end
         end.

(* unfold only the record projections and setters of the model *)
Ltac simp_st :=
  cbn [main rn stop_called errq sigq own_cancel parent_cancel sd sd_timed_out sd_trig rm rls sls
       sdm_done stm_done mon mq cur smap hup callers subs passes aux hist rtrig strig sub_ok polling finals
       run_entered sd_all su_fired
       set_main set_rn set_errq set_sigq set_sd set_stop_called set_cancel set_sd_trig set_rm
       set_listeners set_mon set_cur set_smap set_hup set_callers set_aux set_rtrig set_strig
       set_sub_ok set_polling set_finals set_run_entered set_sd_all set_su_fired start_managers
       restore_finals with_hist] in *.

Lemma step_hist c s l s' :
  step c s l = Some s' ->
  hist s' = match obs l with Some e => e :: hist s | None => hist s end.
Proof.
  intros H. unfold step in H.
  destruct l; cbn [obs]; cbn [step0] in H; unfold start_shutdown, store_state in H;
    step_cases H; inversion H; subst; try reflexivity.
Qed.

Lemma run_hist c ls : forall s s',
  run (step c) s ls = Some s' -> rev (hist s') = rev (hist s) ++ obs_trace obs ls.
Proof.
  induction ls as [|l ls IH]; intros s s' H.
  - injection H as <-. now rewrite app_nil_r.
  - cbn [run] in H. destruct (step c s l) as [s1|] eqn:E; [|discriminate].
    rewrite (IH _ _ H), (step_hist _ _ _ _ E). cbn [obs_trace].
    destruct (obs l); cbn [rev]; [now rewrite <- app_assoc|reflexivity].
Qed.

(* the observable trace of a schedule is the (reversed) history of the state it reaches *)
Theorem trace_is_history c ls s :
  run (step c) (init c) ls = Some s -> obs_trace obs ls = rev (hist s).
Proof. intros H. now rewrite (run_hist _ _ _ _ H). Qed.

(* an invariant of all reachable states, lifted by LTS.run_inv *)
Definition reachable_sup (c : config) (s : state) : Prop :=
  exists ls, run (step c) (init c) ls = Some s.

Lemma sup_inv (c : config) (Inv : state -> Prop) :
  Inv (init c) ->
  (forall s l s', Inv s -> step c s l = Some s' -> Inv s') ->
  forall s, reachable_sup c s -> Inv s.
Proof.
  intros H0 Hs s [ls Hr]. eapply (run_inv state label (step c) Inv Hs); eassumption.
Qed.

(* ---- small list facts used by all invariant proofs ---- *)

Lemma upd_length {A} (l : list A) i x : length (upd l i x) = length l.
Proof. revert i; induction l as [|h t IH]; intros [|i]; cbn; auto. Qed.

Lemma get_upd_same {A} (d : A) l i x : i < length l -> get d (upd l i x) i = x.
Proof.
  unfold get. revert i; induction l as [|h t IH]; intros [|i] H; cbn in *; try lia; auto.
  apply IH. lia.
Qed.

Lemma get_upd_other {A} (d : A) l i j x : i <> j -> get d (upd l i x) j = get d l j.
Proof.
  unfold get. revert i j; induction l as [|h t IH]; intros [|i] [|j] H; cbn; auto; try congruence.
Qed.

Lemma get_upd_cases {A} (d : A) l i j x : get d (upd l i x) j = x \/ get d (upd l i x) j = get d l j.
Proof.
  destruct (Nat.eq_dec i j) as [->|N]; [|right; now apply get_upd_other].
  destruct (Nat.lt_ge_cases j (length l)) as [L|L]; [left; now apply get_upd_same|].
  right. unfold get. rewrite !nth_overflow; auto. now rewrite upd_length.
Qed.

Lemma event_eqb_refl e : event_eqb e e = true.
Proof.
  assert (N : forall n, Nat.eqb n n = true) by (intros; apply Nat.eqb_refl).
  assert (B : forall b, Bool.eqb b b = true) by (intros []; reflexivity).
  assert (O : forall o, op_eqb o o = true) by (intros [| |[]]; reflexivity).
  assert (OS : forall o, opt_st_eqb o o = true) by (intros [x|]; cbn; auto).
  assert (SM : forall m, smap_eqb m m = true)
    by (induction m as [|x m IH]; cbn; [reflexivity|now rewrite OS, IH]).
  assert (NL : forall m, natlist_eqb m m = true)
    by (induction m as [|x m IH]; cbn; [reflexivity|now rewrite N, IH]).
  destruct e; cbn; rewrite ?N, ?B, ?O, ?SM; try reflexivity.
  - destruct e as [[x b]|]; cbn; rewrite ?N, ?B; reflexivity.
  - destruct r; cbn; rewrite ?N; reflexivity.
  - unfold snapshot_eqb. now rewrite NL, SM, B, N.
Qed.

