(* C10, second part (repaired code): after a child failure Run() always advances until it returns
   (no stuck state), and before it returns it has called Stop() on - and waited for - every
   runnable of the configuration, which is stable from the moment Run() holds reloadMu. *)
From Coq Require Import List NArith Bool Arith Lia.
From GS Require Import Errs LTS Composite CompositeMon CompositeBase CompositeC10 CompositeC11
     CompositeLocks CompositeLive CompositeC09 CompositeProgress CompositeProto.
Import ListNotations.

(* ---- liveness: once Run() has taken a failure it is never stuck before returning ---- *)

Lemma late_busy p : late p = true -> (forall r, p <> TDone r) -> busy p = true.
Proof. destruct p; cbn; try discriminate; auto. intros _ H. now elim (H r). Qed.

Lemma run_returns_after_failure P s e :
  fix_c09 P = true -> good_pool P -> good_children P ->
  greach P s -> ~ overtaken P s -> took s = Some e -> (forall r, runt s <> TDone r) ->
  exists l s', env_label l = false /\ step P s l = Some s'.
Proof.
  intros Hf Hp Hg Hr Hno Ht Hnd.
  pose proof (Gall_greach P s Hf Hp Hr) as G.
  destruct (g_c10 P s G) as (_ & _ & _ & H3 & _).
  destruct (H3 _ Ht) as (_ & _ & Hl).
  apply prog_env. eapply runt_prog; eauto. now apply late_busy.
Qed.

Lemma run_returns_after_failure_lc P s e :
  fix_c09 P = true -> fix_lc P = true -> good_pool P -> good_children P ->
  greach P s -> took s = Some e -> (forall r, runt s <> TDone r) ->
  exists l s', env_label l = false /\ step P s l = Some s'.
Proof.
  intros Hf Hlc Hp Hg Hr. apply run_returns_after_failure; auto.
  apply not_overtaken; auto using greach_reach.
Qed.

(* ---- after Run() holds reloadMu on the failure path no Reload() is, or ever gets, inside ---- *)

Definition after_lock (p : tpc) : bool :=
  match p with TStopBegin | TStopWait | TStopDrain | TRet _ | TOut _ | TDone _ => true | _ => false end.

Definition T_quiet (P : params) (s : state) : Prop :=
  fix_c09 P = true -> took s <> None -> after_lock (runt s) = true -> count_r inside (reloaders s) = 0.

Lemma T_quiet_step P s l s' :
  I3 s -> L_mu P s -> T_quiet P s -> step P s l = Some s' -> T_quiet P s'.
Proof.
  intros H3 (Hmu & _) H Hst. unfold T_quiet in *.
  open_step Hst; cbn; goal_cases; intros Hf Ht Ha; try discriminate Ha; try (now elim Ht);
    try (unfold tear_pc in Ha; rewrite Hf in Ha; discriminate Ha).
  all: count_facts inside.
  all: repeat match goal with Hq : r_pc ?x = _ |- _ => rewrite Hq in * end; cbn in *.
  all: try (specialize (H Hf Ht Ha)); try exact H; try lia.
  all: destruct (took s) as [e0|] eqn:Et; [|now elim Ht].
  all: destruct (H3 _ Et) as (_ & Hfsm & Hl); cbn in Hl.
  all: try (rewrite ?E, ?En in Hl; discriminate Hl).
  all: try (match goal with Ha' : allowed (fsm ?s) _ = true |- _ => rewrite Hfsm in Ha'; discriminate Ha' end).
  all: try (rewrite ?Hf in Hmu; repeat match goal with H : mu_free ?m = true |- _ => rewrite H in Hmu end;
            cbn in Hmu; lia).
  all: try (apply H; auto; discriminate).
  destruct (membership_changed P (entries_of s) c); cbn in Hc; lia.
Qed.

(* ---- Run's own Stop workers ---- *)

Definition t_spawned (p : tpc) : bool :=
  match p with TStopWait | TStopDrain | TToStopped | TRet _ | TOut _ | TDone _ => true | _ => false end.
Definition t_joined (p : tpc) : bool :=
  match p with TStopDrain | TToStopped | TRet _ | TOut _ | TDone _ => true | _ => false end.

(* before Run's stopAllRunnables there is no worker of Run; after its wg.Wait() all are done *)
Definition T_done (s : state) : Prop :=
  (t_spawned (runt s) = false -> wof ORun s = [])
  /\ (t_joined (runt s) = true -> forallb wdone (wof ORun s) = true).

Lemma T_done_step P s l s' : T_done s -> step P s l = Some s' -> T_done s'.
Proof.
  intros (A & B) Hst. unfold T_done, wof in *.
  open_step Hst; cbn; goal_cases; unfold tear_pc; try (destruct (fix_c09 P)); cbn.
  all: try (match goal with E : runt ?s = _ |- _ => rewrite E in A, B; cbn in A, B end).
  all: try (split; [intros Hs; try discriminate Hs; auto|intros Hj; try discriminate Hj; auto]; fail).
  all: try (split; intros; try discriminate; rewrite (A eq_refl); reflexivity).
  all: try (rewrite !filter_app, !filter_spawn_workers_other, !app_nil_r by reflexivity; split; assumption).
  all: try (split;
            [intros Hs; apply (filter_upd_wpc_nil (fun o => owner_eqb o ORun)); auto
            |intros Hj; eapply (wdone_upd (fun o => owner_eqb o ORun)); [eassumption| |auto];
             match goal with Hp : w_pc ?w = _ |- _ => unfold wdone; rewrite Hp; reflexivity end]; fail).
  all: try (split; [intros Hs; discriminate Hs|intros _];
            match goal with Hd : all_done ORun ?s = true |- _ => exact (all_done_wof _ _ Hd) end).
  all: try (split; [intros Hs; discriminate Hs|intros _; apply B; reflexivity]).
  all: try (rewrite (filter_release (fun o => owner_eqb o ORun)); split;
            [intros Hs; rewrite (A Hs); reflexivity|intros Hj; rewrite forallb_wdone_release; auto]).
Qed.

Lemma c10b_reach P s : reach P s -> T_quiet P s /\ T_done s.
Proof.
  intros Hr. assert (H : (InvC10 s /\ L_mu P s) /\ T_quiet P s /\ T_done s); [|apply H].
  revert s Hr. apply reach_inv.
  - split; [split; [apply InvC10_init|unfold L_mu; cbn; split; [now rewrite andb_false_r|discriminate]]|].
    split; [intros _ Ht; now elim Ht|]. split; [reflexivity|discriminate].
  - intros s l s' ((Hc & Hmu) & Hq & Hd) Hst.
    split; [split; [eapply InvC10_step; eassumption|eapply L_mu_step; eassumption]|].
    destruct Hc as (_ & _ & _ & H3 & _).
    split; [eapply T_quiet_step; eassumption|eapply T_done_step; eassumption].
Qed.

(* Run's stopAllRunnables addresses exactly the entries of the configuration it reads, last first *)
Lemma teardown_spawn P s s' :
  step P s (LStopBegin ORun) = Some s' -> wof ORun s = [] ->
  map w_child (wof ORun s') = map fst (rev (entries_of s)).
Proof.
  intros Hst Hw. cbn [step] in Hst.
  destruct (at_stop_begin ORun s && mu_free (run_mu s)); [|discriminate].
  injection Hst as <-. unfold wof in *. destruct (cfg s); cbn;
    rewrite filter_app, Hw, filter_spawn_workers_same; cbn; apply map_child_spawn_workers.
Qed.

(* every Stop() that Run issued has returned before Run leaves stopAllRunnables *)
Lemma others_stopped P s :
  reach P s -> t_joined (runt s) = true -> forallb wdone (wof ORun s) = true.
Proof. intros Hr. apply (proj2 (c10b_reach P s Hr)). Qed.

Lemma no_worker_before_teardown P s :
  reach P s -> t_spawned (runt s) = false -> wof ORun s = [].
Proof. intros Hr. apply (proj1 (proj2 (c10b_reach P s Hr))). Qed.

(* on the failure path, from the moment Run holds reloadMu no Reload() is - or ever gets - inside
   its critical section: the configuration Run stops is the final one *)
Lemma quiet_after_failure P s :
  reach P s -> fix_c09 P = true -> took s <> None -> after_lock (runt s) = true ->
  count_r inside (reloaders s) = 0.
Proof. intros Hr. apply (proj1 (c10b_reach P s Hr)). Qed.
