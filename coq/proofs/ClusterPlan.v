(* Planner lemmas for C16: association-list basics, the structure of buildPendingEntries'
   result when no two written keys collide, id hygiene implies no collision, consequences
   (order independence, conservation of runtimes), and the refutation witnesses. *)
From Coq Require Import List NArith Bool Lia Permutation.
From GS Require Import Cluster.
Import ListNotations.
Open Scope N_scope.

(* ---------------------------------------------------------------- ids *)
Lemma id_eqb_refl a : id_eqb a a = true.
Proof. induction a as [|x a IH]; [reflexivity|]. cbn [id_eqb]. now rewrite N.eqb_refl, IH. Qed.

Lemma id_eqb_eq a b : id_eqb a b = true <-> a = b.
Proof.
  split; [|intros ->; apply id_eqb_refl].
  revert b; induction a as [|x a IH]; intros [|y b] H; try discriminate; [reflexivity|].
  cbn [id_eqb] in H. apply andb_prop in H as [H1 H2].
  apply N.eqb_eq in H1. apply IH in H2. now subst.
Qed.

Lemma id_eqb_neq a b : id_eqb a b = false <-> a <> b.
Proof.
  split.
  - intros H E. apply id_eqb_eq in E. congruence.
  - intros H. destruct (id_eqb a b) eqn:E; [|reflexivity]. apply id_eqb_eq in E. contradiction.
Qed.

Lemma sfx_neq k : k ++ sfx <> k.
Proof. intros E. apply (f_equal (@length N)) in E. rewrite app_length in E. cbn in E. lia. Qed.

(* ---------------------------------------------------------------- maps *)
Section Maps.
  Context {A : Type}.
  Implicit Types m : list (id * A).

  Lemma lookup_none m k : lookup k m = None <-> ~ In k (keys m).
  Proof.
    induction m as [|[k' v] m IH]; cbn [lookup keys map fst]; [split; [intros _ []|reflexivity]|].
    destruct (id_eqb k' k) eqn:E.
    - apply id_eqb_eq in E. subst. split; [discriminate|]. intros H. exfalso. apply H. now left.
    - apply id_eqb_neq in E. fold (keys m). rewrite IH. cbn [In]. tauto.
  Qed.

  Lemma lookup_some_in m k v : lookup k m = Some v -> In (k, v) m.
  Proof.
    induction m as [|[k' v'] m IH]; cbn [lookup]; [discriminate|].
    destruct (id_eqb k' k) eqn:E.
    - apply id_eqb_eq in E. intros [= ->]. subst. now left.
    - intros H. right. now apply IH.
  Qed.

  Lemma in_lookup m k v : NoDup (keys m) -> In (k, v) m -> lookup k m = Some v.
  Proof.
    induction m as [|[k' v'] m IH]; intros Hnd Hin; [contradiction|].
    cbn [keys map fst] in Hnd. inversion Hnd as [|? ? Hn Hnd']; subst. cbn [lookup].
    destruct Hin as [[= -> ->]|Hin].
    - now rewrite id_eqb_refl.
    - destruct (id_eqb k' k) eqn:E; [|now apply IH].
      apply id_eqb_eq in E. subst. exfalso. apply Hn. change (In (fst (k, v)) (map fst m)). now apply in_map.
  Qed.

  Lemma mem_true m k : mem k m = true <-> In k (keys m).
  Proof.
    unfold mem. destruct (lookup k m) eqn:E.
    - split; [intros _|reflexivity]. apply lookup_some_in in E.
      change (In (fst (k, a)) (map fst m)). now apply in_map.
    - apply lookup_none in E. split; [discriminate|contradiction].
  Qed.

  Lemma mem_false m k : mem k m = false <-> ~ In k (keys m).
  Proof. rewrite <- mem_true. destruct (mem k m); split; congruence. Qed.

  Lemma insert_fresh m k v : ~ In k (keys m) -> insert k v m = m ++ [(k, v)].
  Proof.
    induction m as [|[k' v'] m IH]; intros H; [reflexivity|]. cbn [insert app].
    cbn [keys map fst] in H.
    destruct (id_eqb k' k) eqn:E.
    - apply id_eqb_eq in E. subst. exfalso. apply H. now left.
    - rewrite IH; [reflexivity|]. intros Hin. apply H. now right.
  Qed.

  Definition ins (a : list (id * A)) (p : id * A) := insert (fst p) (snd p) a.

  Lemma keys_app m1 m2 : keys (m1 ++ m2) = keys m1 ++ keys m2.
  Proof. apply map_app. Qed.

  (* inserting pairs none of whose keys is present: they are appended *)
  Lemma fold_ins_fresh L : forall acc, NoDup (keys (acc ++ L)) -> fold_left ins L acc = acc ++ L.
  Proof.
    induction L as [|[k v] L IH]; intros acc H; cbn [fold_left]; [now rewrite app_nil_r|].
    unfold ins at 2. cbn [fst snd].
    rewrite insert_fresh.
    - rewrite IH; rewrite <- app_assoc; [reflexivity|exact H].
    - rewrite keys_app in H. cbn [keys map fst] in H. apply NoDup_remove_2 in H.
      intros Hin. apply H. apply in_or_app. now left.
  Qed.
End Maps.

Lemma nodup_app {A} (a b : list A) :
  NoDup a -> NoDup b -> (forall x, In x a -> ~ In x b) -> NoDup (a ++ b).
Proof.
  induction a as [|x a IH]; intros Ha Hb Hd; [exact Hb|].
  inversion Ha as [|? ? Hn Ha']; subst. cbn [app]. constructor.
  - intros Hin. apply in_app_or in Hin as [Hin|Hin]; [contradiction|]. apply (Hd x); [now left|exact Hin].
  - apply IH; [exact Ha'|exact Hb|]. intros y Hy. apply Hd. now right.
Qed.

Lemma nodup_app_inv {A} (a b : list A) :
  NoDup (a ++ b) -> NoDup a /\ NoDup b /\ (forall x, In x a -> ~ In x b).
Proof.
  induction a as [|x a IH]; intros H.
  - repeat split; [constructor|exact H|intros ? []].
  - cbn [app] in H. inversion H as [|? ? Hn H']; subst. destruct (IH H') as (Ha & Hb & Hd).
    repeat split; [|exact Hb|].
    + constructor; [|exact Ha]. intros Hin. apply Hn. apply in_or_app. now left.
    + intros y [<-|Hy]; [|now apply Hd]. intros Hin. apply Hn. apply in_or_app. now right.
Qed.

(* ---------------------------------------------------------------- the plan, flattened *)

(* what the first loop writes for the current server k *)
Definition yields (cur des : emap) (k : id) : list (id * entry) :=
  match lookup k cur with
  | Some old => process_existing k old (dcfg des k)
  | None => []
  end.

(* what the second loop writes *)
Definition news (cur des : emap) : list (id * entry) :=
  flat_map (fun p => if mem (fst p) cur then []
                     else [(fst p, start_entry (fst p) (e_cfg (snd p)))]) des.

Definition plan_list (ord : list id) (cur des : emap) : list (id * entry) :=
  flat_map (yields cur des) ord ++ news cur des.

Lemma build_existing_fold ord cur des : forall acc,
  fold_left (fun acc k =>
               match lookup k cur with
               | None => acc
               | Some old =>
                 fold_left (insert_yield false cur des k)
                           (process_existing k old (option_map e_cfg (lookup k des))) acc
               end) ord acc
  = fold_left ins (flat_map (yields cur des) ord) acc.
Proof.
  induction ord as [|k ord IH]; intros acc; [reflexivity|].
  cbn [fold_left flat_map]. rewrite fold_left_app, IH. f_equal.
  unfold yields, dcfg. destruct (lookup k cur); reflexivity.
Qed.

Lemma build_new_fold cur des : forall acc, build_new cur des acc = fold_left ins (news cur des) acc.
Proof.
  unfold build_new, news. induction des as [|p des IH]; intros acc; [reflexivity|].
  cbn [fold_left flat_map]. rewrite fold_left_app, IH. f_equal.
  destruct (mem (fst p) cur); reflexivity.
Qed.

(* if no two written keys coincide, the result is literally the list of writes *)
Lemma build_pending_flat ord cur des :
  NoDup (keys (plan_list ord cur des)) ->
  build_pending false ord cur des = plan_list ord cur des.
Proof.
  intros H. unfold build_pending, build_existing, plan_list in *.
  rewrite build_existing_fold, build_new_fold, <- fold_left_app.
  now rewrite fold_ins_fresh.
Qed.

(* ---------------------------------------------------------------- hygiene => no collision *)
Definition hygienic (ids : list id) : Prop := forall x y, In x ids -> In y ids -> y <> x ++ sfx.

Lemma existsb_id x l : existsb (id_eqb x) l = true <-> In x l.
Proof.
  rewrite existsb_exists. split.
  - intros (y & Hy & E). apply id_eqb_eq in E. now subst.
  - intros H. exists x. split; [exact H|apply id_eqb_refl].
Qed.

Lemma hygienicb_spec ids : hygienicb ids = true <-> hygienic ids.
Proof.
  unfold hygienicb, hygienic. rewrite forallb_forall. split.
  - intros H x y Hx Hy E. specialize (H x Hx). apply negb_true_iff in H.
    subst y. apply existsb_id in Hy. congruence.
  - intros H x Hx. apply negb_true_iff. destruct (existsb (id_eqb (x ++ sfx)) ids) eqn:E; [|reflexivity].
    apply existsb_id in E. exfalso. exact (H x _ Hx E eq_refl).
Qed.

Lemma in_ids_of cur des x : In x (ids_of cur des) <-> In x (keys cur) \/ In x (keys des).
Proof.
  unfold ids_of. rewrite in_app_iff, filter_In. split.
  - intros [H|[H _]]; auto.
  - intros [H|H]; [now left|]. destruct (mem x cur) eqn:E.
    + left. now apply mem_true.
    + right. split; [exact H|reflexivity].
Qed.

Lemma yields_keys cur des k q :
  In q (keys (yields cur des k)) ->
  In k (keys cur) /\ (q = k \/ (q = k ++ sfx /\ In k (keys des))).
Proof.
  unfold yields. destruct (lookup k cur) as [old|] eqn:E; [|intros []].
  intros H. split.
  { apply mem_true. unfold mem. now rewrite E. }
  unfold process_existing, dcfg in H.
  destruct (lookup k des) as [d|] eqn:Ed; cbn [option_map] in H.
  - assert (Hd : In k (keys des)) by (apply mem_true; unfold mem; now rewrite Ed).
    destruct (e_cfg old =? e_cfg d); [destruct H as [<-|[]]; now left|].
    destruct (e_rt old).
    + destruct H as [<-|[<-|[]]]; [right; now split|now left].
    + destruct H as [<-|[]]. now left.
  - destruct (e_rt old); [destruct H as [<-|[]]; now left|destruct H].
Qed.

Lemma yields_nodup cur des k : NoDup (keys (yields cur des k)).
Proof.
  unfold yields. destruct (lookup k cur) as [old|]; [|constructor].
  unfold process_existing. destruct (dcfg des k) as [c|].
  - destruct (e_cfg old =? c); [repeat constructor; intros []|].
    destruct (e_rt old); cbn [keys map fst].
    + constructor; [|repeat constructor; intros []]. intros [E|[]]. symmetry in E. exact (sfx_neq k E).
    + repeat constructor. intros [].
  - destruct (e_rt old); repeat constructor. intros [].
Qed.

Lemma news_keys cur des q :
  In q (keys (news cur des)) -> In q (keys des) /\ ~ In q (keys cur).
Proof.
  unfold news, keys. rewrite in_map_iff. intros ((q', e) & <- & H). cbn [fst].
  apply in_flat_map in H as (p & Hp & H).
  destruct (mem (fst p) cur) eqn:E; [destruct H|]. destruct H as [[= <- <-]|[]].
  split; [now apply in_map|now apply mem_false].
Qed.

Lemma news_nodup cur des : NoDup (keys des) -> NoDup (keys (news cur des)).
Proof.
  unfold news. induction des as [|p des IH]; intros H; [constructor|].
  cbn [keys map fst] in H. inversion H as [|? ? Hn H']; subst.
  cbn [flat_map]. rewrite keys_app. apply nodup_app; [|now apply IH|].
  - destruct (mem (fst p) cur); repeat constructor. intros [].
  - intros x Hx Hin. apply (news_keys cur des) in Hin as [Hin _].
    destruct (mem (fst p) cur); [destruct Hx|]. destruct Hx as [<-|[]]. contradiction.
Qed.

(* what is really needed: the derived key of a server that is in both maps is nobody's id *)
Definition hyg2 (cur des : emap) : Prop :=
  forall x y, In x (keys cur) -> In x (keys des) -> In y (keys cur) \/ In y (keys des) -> y <> x ++ sfx.

Lemma hygienic_hyg2 cur des : hygienic (ids_of cur des) -> hyg2 cur des.
Proof.
  intros H x y Hx _ Hy. apply H; apply in_ids_of; [now left|exact Hy].
Qed.

Lemma hyg2_nil cur : hyg2 cur [].
Proof. intros x y _ []. Qed.

Lemma plan_list_nodup ord cur des :
  NoDup ord -> (forall k, In k ord -> In k (keys cur)) -> NoDup (keys des) ->
  hyg2 cur des ->
  NoDup (keys (plan_list ord cur des)).
Proof.
  intros Hord Hsub Hdes Hh. unfold plan_list. rewrite keys_app.
  apply nodup_app.
  - clear Hdes. induction ord as [|k ord IH]; [constructor|].
    inversion Hord as [|? ? Hn Hord']; subst. cbn [flat_map]. rewrite keys_app.
    apply nodup_app; [apply yields_nodup|apply IH; [exact Hord'|intros; apply Hsub; now right]|].
    intros q Hq Hin. apply yields_keys in Hq as (Hk & Hq).
    unfold keys in Hin. rewrite in_map_iff in Hin. destruct Hin as ((q', e) & <- & Hin).
    apply in_flat_map in Hin as (k' & Hk' & Hin).
    assert (Hq' : In q' (keys (yields cur des k'))) by (change (In (fst (q', e)) (map fst (yields cur des k'))); now apply in_map).
    apply yields_keys in Hq' as (Hk'c & Hq'). cbn [fst] in Hq.
    assert (k <> k') by (intros ->; contradiction).
    destruct Hq as [->|[-> Hkd]], Hq' as [E|[E Hkd']].
    + congruence.
    + exact (Hh k' k Hk'c Hkd' (or_introl Hk) E).
    + symmetry in E. exact (Hh k k' Hk Hkd (or_introl Hk'c) E).
    + apply app_inv_tail in E. congruence.
  - now apply news_nodup.
  - intros q Hq Hin. apply news_keys in Hin as (Hd & Hnc).
    unfold keys in Hq. rewrite in_map_iff in Hq. destruct Hq as ((q', e) & <- & Hq).
    apply in_flat_map in Hq as (k & Hk & Hq).
    assert (Hq' : In q' (keys (yields cur des k))) by (change (In (fst (q', e)) (map fst (yields cur des k))); now apply in_map).
    apply yields_keys in Hq' as (Hkc & Hq'). cbn [fst] in *.
    destruct Hq' as [->|[-> Hkd]]; [contradiction|].
    exact (Hh k _ Hkc Hkd (or_intror Hd) eq_refl).
Qed.

(* the structure theorem: under hygiene the plan is the list of writes, in iteration order *)
Lemma build_pending_hygienic ord cur des :
  NoDup ord -> (forall k, In k ord -> In k (keys cur)) -> NoDup (keys des) ->
  hyg2 cur des ->
  build_pending false ord cur des = plan_list ord cur des /\ NoDup (keys (plan_list ord cur des)).
Proof.
  intros. assert (Hn := plan_list_nodup ord cur des H H0 H1 H2). split; [now apply build_pending_flat|exact Hn].
Qed.

(* ---------------------------------------------------------------- order independence *)
Definition map_equiv (a b : emap) : Prop := forall q, lookup q a = lookup q b.

Lemma lookup_perm (a b : emap) q : NoDup (keys a) -> Permutation a b -> lookup q a = lookup q b.
Proof.
  intros Hnd Hp.
  assert (Hnb : NoDup (keys b)) by (eapply Permutation_NoDup; [apply Permutation_map; exact Hp|exact Hnd]).
  destruct (lookup q a) as [e|] eqn:Ea.
  - symmetry. apply in_lookup; [exact Hnb|]. eapply Permutation_in; [exact Hp|]. now apply lookup_some_in.
  - destruct (lookup q b) as [e|] eqn:Eb; [|reflexivity].
    apply lookup_some_in in Eb. apply Permutation_sym in Hp. eapply Permutation_in in Eb; [|exact Hp].
    apply in_lookup in Eb; [congruence|exact Hnd].
Qed.

Lemma plan_order_free ord1 ord2 cur des :
  NoDup (keys cur) -> NoDup (keys des) -> hygienic (ids_of cur des) ->
  Permutation ord1 (keys cur) -> Permutation ord2 (keys cur) ->
  map_equiv (build_pending false ord1 cur des) (build_pending false ord2 cur des) /\
  Permutation (build_pending false ord1 cur des) (build_pending false ord2 cur des).
Proof.
  intros Hc Hd Hh P1 P2.
  assert (N1 : NoDup ord1) by (eapply Permutation_NoDup; [apply Permutation_sym; exact P1|exact Hc]).
  assert (N2 : NoDup ord2) by (eapply Permutation_NoDup; [apply Permutation_sym; exact P2|exact Hc]).
  assert (S1 : forall k, In k ord1 -> In k (keys cur)) by (intros k; apply Permutation_in; exact P1).
  assert (S2 : forall k, In k ord2 -> In k (keys cur)) by (intros k; apply Permutation_in; exact P2).
  apply hygienic_hyg2 in Hh.
  destruct (build_pending_hygienic ord1 cur des N1 S1 Hd Hh) as (E1 & D1).
  destruct (build_pending_hygienic ord2 cur des N2 S2 Hd Hh) as (E2 & D2).
  rewrite E1, E2.
  assert (Hp : Permutation (plan_list ord1 cur des) (plan_list ord2 cur des)).
  { unfold plan_list. apply Permutation_app_tail. apply Permutation_flat_map.
    eapply Permutation_trans; [exact P1|apply Permutation_sym; exact P2]. }
  split; [|exact Hp]. intros q. now apply lookup_perm.
Qed.

(* ---------------------------------------------------------------- runtimes are conserved *)
Definition rts (m : emap) : list N :=
  flat_map (fun p => match e_rt (snd p) with Some i => [i] | None => [] end) m.

Lemma rts_app a b : rts (a ++ b) = rts a ++ rts b.
Proof. apply flat_map_app. Qed.

Lemma rts_yields cur des k :
  rts (yields cur des k) = match lookup k cur with
                           | Some old => match e_rt old with Some i => [i] | None => [] end
                           | None => []
                           end.
Proof.
  unfold yields. destruct (lookup k cur) as [old|]; [|reflexivity].
  unfold process_existing. destruct (dcfg des k) as [c|].
  - destruct (e_cfg old =? c); [cbn; now rewrite app_nil_r|].
    destruct (e_rt old) eqn:E; cbn; rewrite ?E; reflexivity.
  - destruct (e_rt old) eqn:E; cbn; rewrite ?E; reflexivity.
Qed.

Lemma rts_news cur des : rts (news cur des) = [].
Proof.
  unfold news. induction des as [|p des IH]; [reflexivity|].
  cbn [flat_map]. rewrite rts_app, IH. destruct (mem (fst p) cur); reflexivity.
Qed.

Lemma rts_by_keys cur : NoDup (keys cur) ->
  rts cur = flat_map (fun k => match lookup k cur with
                               | Some old => match e_rt old with Some i => [i] | None => [] end
                               | None => []
                               end) (keys cur).
Proof.
  intros Hnd. unfold rts, keys. rewrite flat_map_concat_map, flat_map_concat_map, map_map. f_equal.
  apply map_ext_in. intros (k, e) Hin. cbn [fst snd]. now rewrite (in_lookup cur k e Hnd Hin).
Qed.

Lemma plan_conserves_runtimes ord cur des :
  NoDup (keys cur) -> Permutation ord (keys cur) ->
  Permutation (rts (plan_list ord cur des)) (rts cur).
Proof.
  intros Hnd Hp. unfold plan_list. rewrite rts_app, rts_news, app_nil_r.
  rewrite (rts_by_keys cur Hnd).
  eapply Permutation_trans; [|apply Permutation_flat_map; exact Hp].
  clear Hp. induction ord as [|k ord IH]; [constructor|].
  cbn [flat_map]. rewrite rts_app, rts_yields. now apply Permutation_app_head.
Qed.

(* ---------------------------------------------------------------- what the plan contains *)
Lemma in_plan_lookup ord cur des q e :
  NoDup (keys (plan_list ord cur des)) -> In (q, e) (plan_list ord cur des) ->
  lookup q (plan_list ord cur des) = Some e.
Proof. intros. now apply in_lookup. Qed.

Lemma in_yields_plan ord cur des k q e :
  In k ord -> In (q, e) (yields cur des k) -> In (q, e) (plan_list ord cur des).
Proof.
  intros Hk Hin. unfold plan_list. apply in_or_app. left. apply in_flat_map. now exists k.
Qed.

Section PlanContents.
  Variables (ord : list id) (cur des : emap).
  Hypothesis Hnd : NoDup (keys (plan_list ord cur des)).
  Let pend := plan_list ord cur des.

  (* unchanged entries are kept as they are: same instance, no action *)
  Lemma plan_unchanged k old :
    In k ord -> lookup k cur = Some old -> dcfg des k = Some (e_cfg old) ->
    lookup k pend = Some (set_act ANone old).
  Proof.
    intros Hk Hl Hd. apply in_plan_lookup; [exact Hnd|]. apply (in_yields_plan ord cur des k); [exact Hk|].
    unfold yields. rewrite Hl. unfold process_existing. rewrite Hd, N.eqb_refl. now left.
  Qed.

  (* a changed running entry: its old instance is in a stop entry, a start entry has the new config *)
  Lemma plan_changed_running k old c i :
    In k ord -> lookup k cur = Some old -> dcfg des k = Some c -> e_cfg old <> c -> e_rt old = Some i ->
    lookup (k ++ sfx) pend = Some (set_act AStop old) /\ lookup k pend = Some (start_entry k c).
  Proof.
    intros Hk Hl Hd Hc Hr.
    assert (Hy : yields cur des k = [(k ++ sfx, set_act AStop old); (k, start_entry k c)]).
    { unfold yields. rewrite Hl. unfold process_existing. rewrite Hd.
      apply N.eqb_neq in Hc. now rewrite Hc, Hr. }
    split; (apply in_plan_lookup; [exact Hnd|]; apply (in_yields_plan ord cur des k); [exact Hk|]; rewrite Hy).
    - now left.
    - right. now left.
  Qed.

  Lemma plan_changed_idle k old c :
    In k ord -> lookup k cur = Some old -> dcfg des k = Some c -> e_cfg old <> c -> e_rt old = None ->
    lookup k pend = Some (start_entry k c).
  Proof.
    intros Hk Hl Hd Hc Hr. apply in_plan_lookup; [exact Hnd|]. apply (in_yields_plan ord cur des k); [exact Hk|].
    unfold yields. rewrite Hl. unfold process_existing. rewrite Hd.
    apply N.eqb_neq in Hc. rewrite Hc, Hr. now left.
  Qed.

  (* a removed running entry is stopped *)
  Lemma plan_removed k old i :
    In k ord -> lookup k cur = Some old -> dcfg des k = None -> e_rt old = Some i ->
    lookup k pend = Some (set_act AStop old).
  Proof.
    intros Hk Hl Hd Hr. apply in_plan_lookup; [exact Hnd|]. apply (in_yields_plan ord cur des k); [exact Hk|].
    unfold yields. rewrite Hl. unfold process_existing. rewrite Hd, Hr. now left.
  Qed.

  (* a new id gets a start entry *)
  Lemma plan_new k d :
    lookup k des = Some d -> lookup k cur = None ->
    lookup k pend = Some (start_entry k (e_cfg d)).
  Proof.
    intros Hl Hc. apply in_plan_lookup; [exact Hnd|]. unfold plan_list. apply in_or_app. right.
    unfold news. apply in_flat_map. exists (k, d). split; [now apply lookup_some_in|].
    cbn [fst snd]. unfold mem. rewrite Hc. now left.
  Qed.

  (* nothing else: every entry of the plan is one of the above *)
  Lemma plan_only q e :
    In (q, e) pend ->
    (exists k old, In k ord /\ lookup k cur = Some old /\ In (q, e) (process_existing k old (dcfg des k))) \/
    (exists d, In (q, d) des /\ mem q cur = false /\ e = start_entry q (e_cfg d)).
  Proof.
    unfold pend, plan_list. intros H. apply in_app_or in H as [H|H].
    - left. apply in_flat_map in H as (k & Hk & H). unfold yields in H.
      destruct (lookup k cur) as [old|] eqn:E; [|destruct H]. now exists k, old.
    - right. unfold news in H. apply in_flat_map in H as ((k, d) & Hp & H). cbn [fst snd] in H.
      destruct (mem k cur) eqn:E; [destruct H|]. destruct H as [[= <- <-]|[]]. now exists d.
  Qed.
End PlanContents.

(* ---------------------------------------------------------------- refutation witnesses (F9) *)
Definition id_a : id := [97].
Definition id_a_stop : id := id_a ++ sfx.
(* both running with configuration 0, instances 0 and 1 *)
Definition w_cur : emap := [(id_a, mkE id_a 0 (Some 0) ANone); (id_a_stop, mkE id_a_stop 0 (Some 1) ANone)].
(* a's configuration changes, a:stop's does not *)
Definition w_des : emap := new_entries [(id_a, Some 1); (id_a_stop, Some 0)].

Lemma witness_not_hygienic : hygienicb (ids_of w_cur w_des) = false.
Proof. vm_compute. reflexivity. Qed.

(* iteration order a, a:stop: the old instance 0 of a is in no stop entry (never stopped) *)
Lemma witness_order1 :
  stops (build_pending false [id_a; id_a_stop] w_cur w_des) 0 = false /\
  plan_okb w_cur w_des (build_pending false [id_a; id_a_stop] w_cur w_des) = false.
Proof. vm_compute. split; reflexivity. Qed.

(* iteration order a:stop, a: a:stop's own entry is replaced by a's stop entry *)
Lemma witness_order2 :
  lookup id_a_stop (build_pending false [id_a_stop; id_a] w_cur w_des) = Some (mkE id_a 0 (Some 0) AStop) /\
  plan_okb w_cur w_des (build_pending false [id_a_stop; id_a] w_cur w_des) = false.
Proof. vm_compute. split; reflexivity. Qed.

Lemma witness_order_dependent :
  emap_eqb (build_pending false [id_a; id_a_stop] w_cur w_des)
           (build_pending false [id_a_stop; id_a] w_cur w_des) = false.
Proof. vm_compute. reflexivity. Qed.

(* the repaired planner on the same witness: one result, and it is a correct plan *)
Lemma witness_repaired :
  forallb (plan_okb w_cur w_des) (build_pending_all true w_cur w_des) = true.
Proof. vm_compute. reflexivity. Qed.
