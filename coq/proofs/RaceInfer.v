(* C17 - inferred policies (model/Race.v section 3b): what the inference contributes and why it needs no trust.

   [effective pol tbl] = the declared policy followed by one inferred entry for every table field the declared policy
   does not name and for which some candidate discipline passes.  The lock-discipline theorem is generic in the policy,
   so it applies to the effective policy as it is; this file adds
     - [declared_authoritative] / [effective_origin]: where an entry of the effective policy comes from;
     - [inferred_checked]: an inferred entry passes the category check and the per-site check on every site of its
       field (the inference only proposes; these are the very checks a declared entry undergoes);
     - [inferred_never_hbvia] / [excused_effective]: an inferred entry excuses nothing - a conflict excused under the
       effective policy is excused under the DECLARED one (an excepted field, or a listed pair of a declared HBVia);
     - [discipline_sound_inferred](_static): the race-freedom conclusion for a table accepted under the effective
       policy, stated with the declared policy's excuses only;
     - [every_field_classified]: in an accepted table every non-excepted field of a tracked struct is either
       declared-and-checked or inferred-and-checked. *)
From Coq Require Import String List Bool.
From GS Require Import Race RaceSound.
Import ListNotations.

Lemma lookup_app : forall a b k,
  lookup (a ++ b) k = match lookup a k with Some p => Some p | None => lookup b k end.
Proof.
  induction a as [|[k' v] r IH]; intros b k; cbn [app lookup]; [reflexivity|].
  destruct (fkey_eqb k' k); auto.
Qed.

Theorem declared_authoritative : forall pol tbl k p,
  lookup pol k = Some p -> lookup (effective pol tbl) k = Some p.
Proof. intros pol tbl k p H. unfold effective. rewrite lookup_app, H. reflexivity. Qed.

Lemma inferred_in : forall pol tbl k p, In (k, p) (inferred pol tbl) ->
  exists f, In f (t_fields tbl) /\ k = (fd_struct f, fd_field f) /\ lookup pol k = None /\ infer_field tbl f = Some p.
Proof.
  intros pol tbl k p H. unfold inferred in H. apply in_flat_map in H. destruct H as (f & Hf & H).
  cbn zeta in H. destruct (lookup pol (fd_struct f, fd_field f)) eqn:L; [contradiction|].
  destruct (infer_field tbl f) as [q|] eqn:I; [|contradiction].
  destruct H as [H|[]]. inversion H; subst. exists f. auto.
Qed.

Theorem effective_origin : forall pol tbl k p, lookup (effective pol tbl) k = Some p ->
  lookup pol k = Some p \/
  (lookup pol k = None /\ exists f, In f (t_fields tbl) /\ k = (fd_struct f, fd_field f) /\ infer_field tbl f = Some p).
Proof.
  intros pol tbl k p H. unfold effective in H. rewrite lookup_app in H.
  destruct (lookup pol k) as [q|] eqn:L; [left; exact H|].
  right. split; [reflexivity|]. apply lookup_in in H. destruct (inferred_in _ _ _ _ H) as (f & Hf & Hk & _ & Hi).
  exists f. auto.
Qed.

Lemma candidates_not_hbvia : forall tbl ss p, In p (candidates tbl ss) -> forall n ps, p <> HBVia n ps.
Proof.
  intros tbl ss p H n ps. unfold candidates in H. apply in_app_or in H. destruct H as [H|H].
  - cbn in H. destruct H as [<-|[<-|[<-|[]]]]; discriminate.
  - apply in_map_iff in H. destruct H as (l & <- & _). discriminate.
Qed.

Lemma infer_field_spec : forall tbl f p, infer_field tbl f = Some p ->
  In p (candidates tbl (sites_of tbl (fd_struct f, fd_field f))) /\
  passes tbl (fd_cat f) (sites_of tbl (fd_struct f, fd_field f)) p = true.
Proof. intros tbl f p H. unfold infer_field in H. cbn zeta in H. apply find_some in H. exact H. Qed.

Theorem inferred_never_hbvia : forall tbl f p, infer_field tbl f = Some p -> forall n ps, p <> HBVia n ps.
Proof. intros tbl f p H. eapply candidates_not_hbvia. apply (proj1 (infer_field_spec _ _ _ H)). Qed.

Lemma fkey_eqb_refl : forall k, fkey_eqb k k = true.
Proof. intros [a b]. unfold fkey_eqb. cbn. rewrite !String.eqb_refl. reflexivity. Qed.

Theorem inferred_checked : forall tbl f p, infer_field tbl f = Some p ->
  cat_check p (fd_cat f) = None /\
  forall s, In s (t_sites tbl) -> site_key s = (fd_struct f, fd_field f) -> site_check tbl p s = None.
Proof.
  intros tbl f p H. destruct (infer_field_spec _ _ _ H) as [_ Hp]. unfold passes in Hp.
  destruct (cat_check p (fd_cat f)) eqn:Hc; [discriminate|]. split; [reflexivity|].
  intros s Hs Hk. rewrite forallb_forall in Hp.
  assert (Hin : In s (sites_of tbl (fd_struct f, fd_field f))).
  { unfold sites_of. apply filter_In. split; [exact Hs|]. rewrite Hk. apply fkey_eqb_refl. }
  specialize (Hp _ Hin). destruct (site_check tbl p s); [discriminate|reflexivity].
Qed.

(* an inferred entry excuses nothing *)
Theorem excused_effective : forall pol exc tbl a b,
  excused (effective pol tbl) exc tbl a b = true -> excused pol exc tbl a b = true.
Proof.
  intros pol exc tbl a b H. unfold excused in *. apply orb_prop in H. destruct H as [H|H]; [rewrite H; reflexivity|].
  apply orb_true_iff. right.
  destruct (lookup (effective pol tbl) (site_key a)) as [p|] eqn:L; [|discriminate].
  destruct (effective_origin _ _ _ _ L) as [D|(_ & f & _ & _ & I)].
  - rewrite D. exact H.
  - destruct p; try discriminate. exfalso. exact (inferred_never_hbvia _ _ _ I _ _ eq_refl).
Qed.

Theorem discipline_sound_inferred : forall pol exc tbl init sched st,
  table_ok (effective pol tbl) exc tbl = true ->
  initial init -> progs_in tbl init -> run init sched = Some st -> truthful (eff_locks tbl) st ->
  forall i j ti tj s1 s2,
    i <> j -> nth_error st i = Some ti -> nth_error st j = Some tj ->
    next_acc ti = Some s1 -> next_acc tj = Some s2 -> conflict s1 s2 = true ->
    excused pol exc tbl s1 s2 = true.
Proof.
  intros pol exc tbl init sched st Hok Hi Hp Hr Ht i j ti tj s1 s2 Hij Hni Hnj H1 H2 Hc.
  apply excused_effective.
  exact (discipline_sound _ _ _ _ _ _ Hok Hi Hp Hr Ht i j ti tj s1 s2 Hij Hni Hnj H1 H2 Hc).
Qed.

Theorem discipline_sound_inferred_static : forall pol exc tbl init sched st,
  table_ok (effective pol tbl) exc tbl = true ->
  initial init -> progs_in tbl init ->
  (forall t, In t init -> check_prog (eff_locks tbl) [] (prog t) = true) ->
  run init sched = Some st ->
  forall i j ti tj s1 s2,
    i <> j -> nth_error st i = Some ti -> nth_error st j = Some tj ->
    next_acc ti = Some s1 -> next_acc tj = Some s2 -> conflict s1 s2 = true ->
    excused pol exc tbl s1 s2 = true.
Proof.
  intros pol exc tbl init sched st Hok Hi Hp Hc Hr i j ti tj s1 s2 Hij Hni Hnj H1 H2 Hcf.
  apply excused_effective.
  exact (discipline_sound_static _ _ _ _ _ _ Hok Hi Hp Hc Hr i j ti tj s1 s2 Hij Hni Hnj H1 H2 Hcf).
Qed.

(* every field of a tracked struct is declared-and-checked or inferred-and-checked *)
Theorem every_field_classified : forall pol exc tbl f,
  table_ok (effective pol tbl) exc tbl = true -> In f (t_fields tbl) ->
  in_keys exc (fd_struct f, fd_field f) = false ->
  exists p,
    lookup (effective pol tbl) (fd_struct f, fd_field f) = Some p /\
    (lookup pol (fd_struct f, fd_field f) = Some p \/
     (lookup pol (fd_struct f, fd_field f) = None /\ exists f', In f' (t_fields tbl) /\
        (fd_struct f, fd_field f) = (fd_struct f', fd_field f') /\ infer_field tbl f' = Some p)) /\
    cat_check p (fd_cat f) = None /\
    forall s, In s (t_sites tbl) -> site_key s = (fd_struct f, fd_field f) -> site_check tbl p s = None.
Proof.
  intros pol exc tbl f Hok Hf Hex.
  destruct (failures_parts _ _ _ Hok) as (Hfield & Hsite & _).
  pose proof (flat_map_nil _ _ _ _ _ Hfield Hf) as H. cbn beta zeta in H. rewrite Hex in H.
  destruct (lookup (effective pol tbl) (fd_struct f, fd_field f)) as [p|] eqn:L; [|discriminate].
  exists p. split; [reflexivity|]. split; [exact (effective_origin _ _ _ _ L)|].
  split; [destruct (cat_check p (fd_cat f)); [discriminate|reflexivity]|].
  intros s Hs Hk.
  assert (Hexs : in_keys exc (site_key s) = false) by (rewrite Hk; exact Hex).
  destruct (site_accepted _ _ _ _ Hsite Hs Hexs) as (q & Lq & Hq). rewrite Hk, L in Lq. inversion Lq; subst. exact Hq.
Qed.
