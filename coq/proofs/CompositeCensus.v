(* C18, composite leg: the goroutines the composite creates (one per child per boot, one per child
   per stopAllRunnables round) do not outlive a clean termination and do not accumulate. *)
From Coq Require Import List NArith Bool Arith Lia.
From GS Require Import Errs LTS Composite CompositeMon CompositeBase CompositeC10 CompositeC11
     CompositeLocks CompositeLive CompositeC09 CompositeProgress CompositeProto CompositeExact
     CompositeC10b.
Import ListNotations.

(* ------------------------------------------------------------------ outside a drain, cancelled generations are gone *)

Definition W_inv (s : state) : Prop :=
  gen_cancelled s <= gen s
  /\ (count_r is_drain (reloaders s) = 0 -> runt s <> TStopDrain -> drained s = true).

Lemma drained_upd i p l g k :
  nth_error l i = Some k -> kdone k = false ->
  forallb (fun k => negb (Nat.leb (k_gen k) g) || kdone k) l = true ->
  forallb (fun k => negb (Nat.leb (k_gen k) g) || kdone k) (upd i (set_kpc p) l) = true.
Proof.
  revert i; induction l as [|y l IH]; intros [|i] Hn Hd H; cbn in *; try discriminate.
  - injection Hn as ->. apply andb_true_iff in H as [H1 H2]. rewrite H2, andb_true_r.
    rewrite Hd, orb_false_r in H1. now rewrite H1.
  - apply andb_true_iff in H as [H1 H2]. rewrite H1. cbn. eapply IH; eauto.
Qed.

Lemma drained_spawn o g c es : c <= g ->
  forallb (fun k => negb (Nat.leb (k_gen k) c) || kdone k) (spawn_kids o (S g) es) = true.
Proof.
  intros Hle. unfold spawn_kids. induction es as [|e l IH]; cbn [map forallb k_gen]; [reflexivity|].
  rewrite IH, andb_true_r. destruct (Nat.leb (S g) c) eqn:E; [apply Nat.leb_le in E; lia|reflexivity].
Qed.

Lemma W_inv_step P s l s' : W_inv s -> step P s l = Some s' -> W_inv s'.
Proof.
  intros (G & W) Hst. unfold W_inv, drained in *.
  open_step Hst; cbn; goal_cases; count_facts is_drain;
    repeat match goal with Hq : r_pc ?x = _ |- _ => rewrite Hq in * end; cbn in *;
    rewrite ?Nat.add_0_r in *; unfold tear_pc; try (destruct (fix_c09 P)).
  all: try (split; [lia|intros Hz Hr; try (now elim Hr); try (exfalso; lia); apply W; try lia; congruence]; fail).
  all: try (split; [lia|intros Hz Hr; rewrite forallb_app, drained_spawn by lia; rewrite andb_true_r;
                             apply W; try lia; try congruence; discriminate]; fail).
  all: try (match goal with
            | Ek : nth_error (kids ?s0) ?i = Some ?k, Epc : k_pc ?k = _ |- _ =>
              split; [lia|intros Hz Hr; eapply drained_upd;
                           [exact Ek|unfold kdone; rewrite Epc; reflexivity|apply W; assumption]]; fail
            end).
  all: try (match goal with Hd : drained _ = true |- _ => split; [lia|intros _ _; exact Hd] end).
Qed.

Lemma W_reach P s : reach P s -> W_inv s.
Proof.
  apply reach_inv; [split; [cbn; lia|intros _ _; reflexivity]|]. intros; eapply W_inv_step; eassumption.
Qed.

(* ------------------------------------------------------------------ zero after a clean termination *)

Lemma filter_alive_nil_kids l : forallb kdone l = true -> filter kid_alive l = [].
Proof.
  induction l as [|y l IH]; cbn; [reflexivity|]. intros H. apply andb_true_iff in H as [H1 H2].
  unfold kdone in H1. unfold kid_alive. destruct (k_pc y); try discriminate H1. now apply IH.
Qed.

Lemma all_kids_done_when_drained s :
  K_gen s -> drained s = true -> gen_cancelled s = gen s -> forallb kdone (kids s) = true.
Proof.
  intros Kg Hd He. apply forallb_forall. intros k Hin. unfold drained in Hd.
  rewrite forallb_forall in Hd. specialize (Hd k Hin). rewrite He in Hd.
  apply orb_true_iff in Hd as [Hd|Hd]; [|exact Hd].
  apply negb_true_iff, Nat.leb_gt in Hd. specialize (Kg k Hin). lia.
Qed.

(* every Stop worker that is still alive belongs to a stopAllRunnables round in progress *)
Lemma live_worker_scoped P s w :
  reach P s -> In w (workers s) -> wdone w = false ->
  match w_owner w with
  | ORun => runt s = TStopWait
  | ORel k => rel_pc k s = Some RStopWait
  end.
Proof.
  intros Hr Hin Hd. destruct (w_owner w) as [|k] eqn:Eo.
  - destruct (c10b_reach P s Hr) as (_ & A & B).
    assert (Hw : In w (wof ORun s)) by (unfold wof; apply filter_In; split; [exact Hin|rewrite Eo; reflexivity]).
    destruct (t_spawned (runt s)) eqn:Es.
    + destruct (t_joined (runt s)) eqn:Ej.
      * specialize (B eq_refl). rewrite forallb_forall in B. specialize (B w Hw). congruence.
      * destruct (runt s); try discriminate Es; try discriminate Ej. reflexivity.
    + rewrite (A eq_refl) in Hw. destruct Hw.
  - destruct (proto_reach P s Hr) as (Hq & Hidx & Hown).
    assert (Hw : In w (wof (ORel k) s))
      by (unfold wof; apply filter_In; split; [exact Hin|rewrite Eo; cbn; apply Nat.eqb_refl]).
    unfold rel_pc. destruct (nth_error (reloaders s) k) as [r|] eqn:En.
    + destruct (Hown _ _ En) as (A & B & _). cbn.
      unfold Q_calls in Hq. rewrite Forall_forall in Hq.
      pose proof (Hq r (nth_error_In _ _ En)) as Hrec. unfold Q_rec in Hrec.
      destruct (is_restart (r_path r)) eqn:Er; cbn in A, B.
      * destruct (stopped (r_pc r)) eqn:Est.
        -- specialize (B eq_refl). rewrite forallb_forall in B. specialize (B w Hw). congruence.
        -- destruct (spawned (r_pc r)) eqn:Esp.
           ++ destruct (r_pc r); try discriminate Esp; try discriminate Est. reflexivity.
           ++ rewrite A in Hw. destruct Hw.
      * rewrite A in Hw. destruct Hw.
    + apply nth_error_None in En. destruct (Hidx k En) as [Hw0 _]. rewrite Hw0 in Hw. destruct Hw.
Qed.

Lemma no_live_worker_outside_rounds P s :
  reach P s -> runt s <> TStopWait -> count_r (fun p => rpc_is p RStopWait) (reloaders s) = 0 ->
  worker_census s = 0.
Proof.
  intros Hr Ht Hc. unfold worker_census.
  destruct (filter worker_alive (workers s)) as [|w l] eqn:E; [reflexivity|exfalso].
  assert (Hw : In w (filter worker_alive (workers s))) by (rewrite E; now left).
  apply filter_In in Hw as [Hin Ha].
  assert (Hd : wdone w = false) by (unfold wdone, worker_alive in *; destruct (w_pc w); auto; discriminate).
  pose proof (live_worker_scoped P s w Hr Hin Hd) as Hs.
  destruct (w_owner w) as [|k]; [contradiction|].
  destruct (rel_pc_nth _ _ _ Hs) as (x & Hx & Hp).
  assert (1 <= count_r (fun p => rpc_is p RStopWait) (reloaders s))
    by (eapply count_nth_le; [exact Hx|rewrite Hp; reflexivity]).
  lia.
Qed.

(* C18, composite: after Run() has returned, no Reload() is inside its critical section and no boot
   happened after the last completed stopAllRunnables (gen_cancelled = gen: the clean termination,
   also after failed boots / failed reloads followed by a stop), the census is zero *)
Theorem census_zero_after_clean_termination P s :
  fix_c09 P = true -> fix_stale P = true -> reach P s ->
  returned (runt s) = true -> reload_mu s = None -> gen_cancelled s = gen s ->
  census s = 0.
Proof.
  intros Hf Hfs Hr Hret Hmu Hg.
  destruct (W_reach P s Hr) as [_ W].
  destruct (Y_reach P s Hf Hfs Hr) as (Kg & _).
  destruct (base_reach_locks P s Hr) as (_ & [Hm _] & _).
  rewrite Hmu in Hm. cbn in Hm.
  assert (Hin : count_r inside (reloaders s) = 0) by lia.
  assert (Hdr : count_r is_drain (reloaders s) = 0)
    by (pose proof (count_le is_drain inside (reloaders s) is_drain_inside); lia).
  assert (Hsw : count_r (fun p => rpc_is p RStopWait) (reloaders s) = 0).
  { pose proof (count_le (fun p => rpc_is p RStopWait) inside (reloaders s)) as Hle.
    assert (forall p, rpc_is p RStopWait = true -> inside p = true) by (intros p; destruct p; cbn; auto; discriminate).
    specialize (Hle H). lia. }
  assert (Hnd : runt s <> TStopDrain) by (intros E; rewrite E in Hret; discriminate Hret).
  assert (Hnw : runt s <> TStopWait) by (intros E; rewrite E in Hret; discriminate Hret).
  unfold census, kid_census.
  rewrite (filter_alive_nil_kids _ (all_kids_done_when_drained s Kg (W Hdr Hnd) Hg)).
  rewrite (no_live_worker_outside_rounds P s Hr Hnw Hsw). reflexivity.
Qed.

(* whatever happened (also a Run() that returned without stopAllRunnables, or a Reload() racing with
   Stop()): once Run() has returned, every child goroutine that is still alive has an enabled step
   of its own, so none is left behind blocked *)
Theorem live_child_goroutine_can_step P s i k :
  good_children P -> reach P s -> returned (runt s) = true ->
  nth_error (kids s) i = Some k -> kid_alive k = true ->
  exists l s', step P s l = Some s' /\
    (l = LKRun i (k_child k) \/ l = LKExit i (k_child k) None \/ l = LKSend i).
Proof.
  intros Hg Hr Hret Hk Ha. destruct (none_survive P s Hr Hret) as [Hctx _].
  unfold kid_alive in Ha. destruct (k_pc k) eqn:Ep; try discriminate Ha.
  - destruct (launched_child_can_run P s i k Hk Ep) as (s' & Hs). eauto 6.
  - destruct (cancelled_good_child_can_exit P s i k Hctx Hk Ep (good_children_spec P _ Hg)) as (s' & Hs). eauto 7.
  - exists (LKSend i). cbn [step]. rewrite Hk, Ep.
    destruct e as [x|]; [destruct (is_cancel x); [eauto 6|]|eauto 6].
    destruct (Nat.ltb (length (errq s)) (errcap s)); eauto 6.
Qed.

(* ------------------------------------------------------------------ no accumulation while running *)

Lemma length_filter_le {A} (f g : A -> bool) l :
  (forall x, In x l -> f x = true -> g x = true) -> length (filter f l) <= length (filter g l).
Proof.
  induction l as [|y l IH]; cbn; [lia|]. intros H.
  assert (IH' : length (filter f l) <= length (filter g l)) by (apply IH; intros x Hx; apply H; now right).
  destruct (f y) eqn:Ef; cbn.
  - rewrite (H y (or_introl eq_refl) Ef). cbn. lia.
  - destruct (g y); cbn; lia.
Qed.

(* the live child goroutines all belong to the current boot generation: their number is bounded by
   the size of the configuration launched by the last boot, however many reloads and restarts
   happened before *)
Theorem kid_census_bounded P s :
  fix_c09 P = true -> fix_stale P = true -> reach P s ->
  kid_census s <= length (cur_kids s).
Proof.
  intros Hf Hfs Hr. destruct (Y_reach P s Hf Hfs Hr) as (Kg & _ & _ & Y).
  unfold kid_census, cur_kids. apply length_filter_le. intros k Hin Ha.
  apply Nat.eqb_eq. specialize (Kg k Hin).
  destruct (Nat.lt_ge_cases (k_gen k) (gen s)) as [Hlt|Hge]; [|lia].
  specialize (Y k Hin Hlt). unfold kdone, kid_alive in *. destruct (k_pc k); discriminate.
Qed.
