(* C09_exact as MULTISETS (code with hooks/fix-c09-membership-multiset.patch: hasMembershipChanged
   compares name multisets): outside the window between "configuration stored" and "children
   launched", the children of the current boot generation are - with their multiplicities - the
   runnables of the current configuration: a configuration that lists a runnable twice has two
   goroutines of it, never three, never one.  With the name-SET test of /repo 5b52fc2 this is false
   ([a;a;b] -> [a;b;b] is reloaded in place): [exact_multiset_refuted_legacy]. *)
From Coq Require Import List NArith Bool Arith Lia Permutation.
From GS Require Import Errs LTS Composite CompositeMon CompositeBase CompositeC10 CompositeC11
     CompositeLocks CompositeLive CompositeExact.
Import ListNotations.

(* a permutation of the names of two valid configurations is a permutation of their members
   (String() identifies a pool member: good_pool) *)
Lemma perm_map_inj {A B} (f : A -> B) (l1 : list A) : forall l2,
  (forall x y, In x l1 -> In y l2 -> f x = f y -> x = y) ->
  Permutation (map f l1) (map f l2) -> Permutation l1 l2.
Proof.
  induction l1 as [|a l1 IH]; intros l2 Hinj Hp.
  - apply Permutation_nil in Hp. destruct l2; [constructor|discriminate Hp].
  - assert (Hin : In (f a) (map f l2)) by (eapply Permutation_in; [exact Hp|now left]).
    apply in_map_iff in Hin as (b & Hb & Hbin).
    assert (b = a) by (symmetry; apply Hinj; [now left|exact Hbin|now rewrite Hb]). subst b.
    apply in_split in Hbin as (u & v & ->).
    eapply perm_trans; [|apply Permutation_middle]. apply perm_skip. apply IH.
    + intros x y Hx Hy. apply Hinj; [now right|].
      apply in_or_app. apply in_app_or in Hy as [Hy|Hy]; [now left|right; now right].
    + rewrite map_app in Hp. cbn in Hp.
      apply (Permutation_cons_inv (a := f a)).
      eapply perm_trans; [exact Hp|]. rewrite map_app. apply Permutation_sym, Permutation_middle.
Qed.

Lemma names_map_ids P c : names P c = map (name_of P) (ids c).
Proof. unfold names, ids. now rewrite map_map. Qed.

Lemma perm_names_ids P a b :
  good_pool P -> valid_cfg P a = true -> valid_cfg P b = true ->
  Permutation (names P a) (names P b) -> Permutation (ids a) (ids b).
Proof.
  intros Hp Ha Hb H. rewrite !names_map_ids in H. eapply perm_map_inj; [|exact H].
  intros x y Hx Hy. apply name_inj; eauto using valid_cfg_in.
Qed.

Lemma membership_false_perm_ids P old new :
  fix_ms P = true -> good_pool P -> valid_cfg P old = true -> valid_cfg P new = true ->
  membership_changed P old new = false -> Permutation (ids old) (ids new).
Proof.
  intros Hms Hp Ho Hn Hm. apply (membership_multiset P old new Hms) in Hm.
  now apply (perm_names_ids P old new).
Qed.

Definition X_multi (s : state) : Prop :=
  runt s <> TBootLaunch -> count_r booting (reloaders s) = 0 ->
  Permutation (ids (entries_of s)) (map k_child (cur_kids s)).

Lemma X_multi_step P s l s' :
  fix_c09 P = true -> fix_ms P = true -> good_pool P ->
  I1 s -> L_mu P s -> G_valid P s -> G_old P s -> K_gen s -> X_multi s ->
  step P s l = Some s' -> X_multi s'.
Proof.
  intros Hfix Hfixms Hpool H1 Hmu (V1 & V2) Hold Hgen K1 Hst.
  assert (K1' := K1). assert (Hmu' := Hmu). assert (Hold' := Hold).
  unfold X_multi, cur_kids, entries_of in *.
  open_step Hst; cbn; goal_cases; cbn in K1;
    unfold tear_pc, entries_of; rewrite ?Hfix; cbn; count_facts booting;
    repeat match goal with Hq : r_pc ?x = _ |- _ => rewrite Hq in * end; cbn in *.
  all: try (match goal with E : Some _ = None |- _ => discriminate E | E : None = Some _ |- _ => discriminate E end).
  all: repeat match goal with
              | Ea : cfg ?s = Some ?a, Eb : cfg ?s = Some ?b |- _ => rewrite Ea in Eb; injection Eb as <-
              | Ea : cfg ?s = Some ?a, Eb : cfg ?s = None |- _ => rewrite Ea in Eb; discriminate Eb
              | Ea : cfg ?s = None, Eb : cfg ?s = Some _ |- _ => rewrite Ea in Eb; discriminate Eb
              end.
  all: try (match goal with Ec : cfg ?s = _ |- _ => rewrite Ec in K1; cbn in K1 end).
  all: repeat match goal with E : Some _ = Some _ |- _ => injection E as <- end.
  all: try (match goal with Ec : cfg ?s = _ |- _ => rewrite ?Ec end).
  all: intros.
  all: try (match goal with Hne : ?a <> ?a |- _ => now elim Hne end).
  all: rewrite ?filter_gen_upd_kpc.
  all: try (apply K1; try assumption; try congruence; try lia; fail).
  all: try (rewrite filter_app, (filter_gen_old (gen s) (kids s) Hgen), filter_gen_spawn; cbn;
            unfold spawn_kids, ids; rewrite map_map; cbn; apply Permutation_refl).
  all: try (rewrite filter_app, (filter_gen_old (gen s) (kids s) Hgen); cbn; apply Permutation_refl).
  - (* in-place reload: the same members with the same multiplicities *)
    destruct (reloader_not_window P s k r H1 Hmu' E) as [Hw1 Hw2]; [rewrite E0; reflexivity|rewrite E0; reflexivity|].
    destruct (Hold' k r E) as [Ho Hm]; [rewrite E0; reflexivity|].
    rewrite E0 in Hm. cbn in Hm.
    assert (Hv : valid_cfg P (r_new r) = true).
    { rewrite Forall_forall in V2. apply V2. eapply nth_error_In; eassumption. }
    unfold entries_of in Ho.
    pose proof (membership_false_perm_ids P (r_old r) (r_new r) Hfixms Hpool) as Hs.
    rewrite Ho in Hs. specialize (Hs V1 Hv). rewrite <- Ho in Hs. specialize (Hs Hm).
    rewrite Ho in Hs. eapply perm_trans; [apply Permutation_sym; exact Hs|]. apply K1'; auto.
  - exfalso. lia.
Qed.

Lemma multi_greach P s :
  fix_c09 P = true -> fix_ms P = true -> good_pool P -> greach P s -> K_gen s /\ X_multi s.
Proof.
  intros Hf Hms Hp Hr.
  assert (H : Gall P s /\ K_gen s /\ X_multi s); [|apply H].
  revert s Hr. apply greach_inv.
  - split; [apply Gall_init|]. split; [intros k []|].
    intros _ _. cbn. constructor.
  - intros s l s' _ (G & Kg & X) Hl Hst.
    split; [eapply Gall_step; eassumption|]. split; [eapply K_gen_step; eassumption|].
    destruct (g_c10 P s G) as (_ & H1 & _).
    eapply (X_multi_step P s l s'); eauto using g_mu, g_valid, g_old.
Qed.

(* C09_exact, multiset form: while the composite is Running and no Reload() is inside its critical
   section, the children started by the current boot generation are, with their multiplicities, the
   runnables of the current configuration - "each once" per entry *)
Theorem exact_running_multiset P s :
  fix_c09 P = true -> fix_ms P = true -> good_pool P -> greach P s ->
  fsm s = FRunning -> reload_mu s = None ->
  Permutation (ids (entries_of s)) (map k_child (cur_kids s)).
Proof.
  intros Hf Hms Hp Hr Hfsm Hmu.
  destruct (multi_greach P s Hf Hms Hp Hr) as [_ X].
  pose proof (Gall_greach P s Hf Hp Hr) as G.
  destruct (g_c10 P s G) as (_ & H1 & _).
  apply X.
  - intros E. assert (Hpre : pre_launch (runt s) = true) by (rewrite E; reflexivity).
    destruct (H1 Hpre) as (_ & _ & _ & _ & _ & Hn & _). contradiction.
  - destruct (g_mu P s G) as [Hm _]. rewrite Hmu in Hm. cbn in Hm.
    pose proof (count_le booting inside (reloaders s) booting_inside). lia.
Qed.

(* ------------------------------------------------------------------ the legacy witness (H3 of the second audit)
   name-SET test (fix_ms = false, /repo 5b52fc2): configuration [a;a;b], Reload with [a;b;b] - same
   length, same name set - takes the in-place path; afterwards a has two goroutines and b one while the
   configuration lists a once and b twice.  With the multiset test the same callback value leads to a
   restart ([LRlSetInPlace] is not enabled). *)
Definition ms_sched : list label :=
  [LRunCall; LRunBegin; LBootLock ORun; LCb ORun (CbSome ms_old); LBootLaunch ORun; LToRunning;
   LKRun 0 0%N; LKRun 1 0%N; LKRun 2 1%N;
   LReloadCall 0; LRlLock 0; LCb (ORel 0) (CbSome ms_new); LRlSetInPlace 0;
   LRlCfg 0 0%N 1%N; LRlCfg 0 1%N 1%N; LRlCfg 0 1%N 1%N; LRlFinish 0; LRlRet 0].

Lemma exact_multiset_refuted_legacy :
  exists s, run (step (ms_pool false)) init ms_sched = Some s /\
            fsm s = FRunning /\ reload_mu s = None /\ good_pool (ms_pool false) /\
            Forall (good_label (ms_pool false)) ms_sched /\
            ids (entries_of s) = [0; 1; 1]%N /\ map k_child (cur_kids s) = [0; 0; 1]%N /\
            ~ Permutation (ids (entries_of s)) (map k_child (cur_kids s)) /\
            (forall c, In c (ids (entries_of s)) <-> In c (map k_child (cur_kids s))) /\
            run (step (ms_pool true)) init (firstn 13 ms_sched) = None /\
            (exists s1, run (step (ms_pool true)) init (firstn 12 ms_sched) = Some s1 /\
                        rel_pc 0 s1 = Some RStopBegin).
Proof.
  eexists. split; [vm_compute; reflexivity|].
  split; [reflexivity|]. split; [reflexivity|].
  split; [repeat constructor; cbn; intuition discriminate|].
  split; [repeat constructor|].
  split; [reflexivity|]. split; [reflexivity|].
  split.
  { cbn. intros H. apply (Permutation_count_occ N.eq_dec) with (x := 0%N) in H. cbn in H. discriminate H. }
  split.
  { cbn. intros c. split; intros [H|[H|[H|[]]]]; subst; auto. }
  split; [vm_compute; reflexivity|].
  eexists. split; [vm_compute; reflexivity|reflexivity].
Qed.

(* ------------------------------------------------------------------ without good_pool (H4 of the second audit)
   Two DISTINCT runnables with the same String(): x (pool member 0, running) and x' (member 1, never
   started, blocking Stop).  Reload([x']) has the same names as [x], so it is taken in place:
   ReloadWithConfig goes to x', the configuration becomes [x'], x keeps running outside it.  Stop() then
   makes Run() call Stop() on x', which blocks until a Run of x' has started and finished - never.
   This is the code's behaviour (finding same-name-different-object:inplace-reload); [good_pool] - the
   README's "each runnable's String() returns a unique identifier" - excludes it from the theorems. *)
Definition h4_pool : params :=
  mkParams [mkSpec 0 NonBlocking OnSignal RWC; mkSpec 0 UntilRunDone OnSignal RWC] true true true true true.
Definition h4_sched : list label :=
  [LRunCall; LRunBegin; LBootLock ORun; LCb ORun (CbSome [(0, 0)]%N); LBootLaunch ORun; LToRunning; LKRun 0 0%N;
   LReloadCall 0; LRlLock 0; LCb (ORel 0) (CbSome [(1, 1)]%N); LRlSetInPlace 0; LRlCfg 0 1%N 1%N; LRlFinish 0; LRlRet 0;
   LStopApi 0; LSSignal 0; LSelStop; LTransIf; LTearLock; LStopBegin ORun; LWCall 0 1%N;
   LKExit 0 0%N (Some Canceled)].

Definition none_enabled (P : params) (s : state) (ls : list label) : bool :=
  forallb (fun l => match step P s l with None => true | Some _ => false end) ls.

Lemma exact_refuted_without_good_pool :
  ~ good_pool h4_pool /\ Forall (good_label h4_pool) h4_sched /\
  membership_changed h4_pool [(0, 0)]%N [(1, 1)]%N = false /\
  (exists s, run (step h4_pool) init (firstn 14 h4_sched) = Some s /\
             fsm s = FRunning /\ reload_mu s = None /\
             ids (entries_of s) = [1%N] /\ map k_child (cur_kids s) = [0%N] /\
             ~ (forall c, In c (ids (entries_of s)) <-> In c (map k_child (cur_kids s))) /\
             option_map r_calls (nth_error (reloaders s) 0) = Some [(1%N, Some 1%N)]) /\
  (exists s, run (step h4_pool) init h4_sched = Some s /\
             runt s = TStopWait /\ nth_error (stoppers s) 0 = Some SWaiting /\
             option_map w_pc (nth_error (workers s) 0) = Some WCalled /\ ever 1%N s = false /\
             forallb kdone (kids s) = true /\
             none_enabled h4_pool s (taus s ++ [LWRet 0 1%N; LSRet 0; LRunRet None]) = true).
Proof.
  split.
  { unfold good_pool, h4_pool. cbn. intros H. inversion H as [|? ? Hn _]. apply Hn. now left. }
  split; [repeat constructor|]. split; [reflexivity|]. split.
  - eexists. split; [vm_compute; reflexivity|]. do 4 (split; [reflexivity|]). split; [|reflexivity].
    cbn. intros H. destruct (proj1 (H 1%N) (or_introl eq_refl)) as [E|[]]. discriminate E.
  - eexists. split; [vm_compute; reflexivity|]. repeat split; vm_compute; reflexivity.
Qed.
