(* Lifecycle-graph lemmas, re-checked on every run against the regenerated gen/FsmTable.v
   (every proof is a finite case analysis closed by vm_compute).  If the linked go-fsm's table
   changes so that one of them fails, ./check C08 names the lemma. *)
From Coq Require Import List NArith Bool.
From GS Require Import Fsm FsmTable.
Import ListNotations.

Lemma table_is_documented : forall a b, allowedb fsm_cfg a b = documented a b.
Proof. intros a b; destruct a, b; vm_compute; reflexivity. Qed.

(* only Error is entered "out of turn": an allowed step that is not a lifecycle edge targets Error,
   or leaves Error/Stopped/Unknown *)
Lemma only_error_out_of_turn : forall a b,
  allowedb fsm_cfg a b = true -> lifecycle_edge a b = false ->
  b = Error \/ a = Error \/ (a = Stopped /\ b = New) \/ (a = Unknown /\ b = Unknown).
Proof. intros a b; destruct a, b; vm_compute; intros; try discriminate; tauto. Qed.

Lemma lifecycle_in_table : forall a b, lifecycle_edge a b = true -> allowedb fsm_cfg a b = true.
Proof. intros a b; destruct a, b; vm_compute; intros; congruence. Qed.

Lemma error_from_everywhere : forall a, a <> Unknown -> allowedb fsm_cfg a Error = true.
Proof. intros a; destruct a; vm_compute; intros; congruence. Qed.

Lemma error_is_state : has_state fsm_cfg Error = true.
Proof. vm_compute; reflexivity. Qed.

Lemma all_states_defined : forall a, has_state fsm_cfg a = true.
Proof. intros a; destruct a; vm_compute; reflexivity. Qed.

(* New has a single incoming edge: the restart of a stopped runner *)
Lemma new_incoming : forall a, allowedb fsm_cfg a New = true -> a = Stopped.
Proof. intros a; destruct a; vm_compute; intros; congruence. Qed.

(* Running is entered only from Booting and Reloading *)
Lemma running_incoming : forall a, allowedb fsm_cfg a Running = true -> a = Booting \/ a = Reloading.
Proof. intros a; destruct a; vm_compute; intros; try discriminate; tauto. Qed.

(* Stopped is entered only from Stopping and Error *)
Lemma stopped_incoming : forall a, allowedb fsm_cfg a Stopped = true -> a = Stopping \/ a = Error.
Proof. intros a; destruct a; vm_compute; intros; try discriminate; tauto. Qed.

Fixpoint reachb (fuel : nat) (a b : st) : bool :=
  st_eqb a b ||
  match fuel with
  | O => false
  | S f => existsb (fun c => allowedb fsm_cfg a c && reachb f c b) all_st
  end.

Lemma stopped_reachable : forall a, a <> Unknown -> reachb 4 a Stopped = true.
Proof. intros a; destruct a; vm_compute; intros; congruence. Qed.

Lemma unknown_isolated : forall a, allowedb fsm_cfg Unknown a = true -> a = Unknown.
Proof. intros a; destruct a; vm_compute; intros; congruence. Qed.

(* the machine the runners use behaves like transitions.Typical *)
Lemma typical_agrees : fsm_typical_disagreements = 0.
Proof. vm_compute; reflexivity. Qed.
