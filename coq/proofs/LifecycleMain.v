(* The C07 statements about the StartStop model, for ALL schedules (any number of Stop callers
   and Run cycles), derived from the invariant of LifecycleInv/LifecycleStep. *)
From Coq Require Import List Arith Bool Lia.
From GS Require Import Lifecycle LifecycleInv LifecycleStep.
Import ListNotations.

(* ---------- safety: after_run, signalled ---------- *)
Lemma after_run_inv : forall fx s k c,
  Inv fx s -> nth_error (callers s) k = Some c -> c_pc c = Returned -> c_span c = false ->
  exists cy, cyc_at (cycles s) (c_tgt c) = Some cy /\ cy_pc cy = Finished.
Proof.
  intros fx s k c (_ & _ & _ & _ & HC) Hn Hp Hsp.
  pose proof (Forall_nth _ _ _ _ _ HC Hn) as Hk. unfold caller_ok in Hk. rewrite Hp, Hsp in Hk. exact Hk.
Qed.

Lemma signalled_inv : forall fx s k c d,
  Inv fx s -> nth_error (callers s) k = Some c -> c_pc c = AfterSec2 d -> c_span c = false ->
  exists cy, cyc_at (cycles s) (c_tgt c) = Some cy /\ cy_done cy = d /\ is_closed s (cy_stop cy) = true.
Proof.
  intros fx s k c d (_ & _ & _ & _ & HC) Hn Hp Hsp.
  pose proof (Forall_nth _ _ _ _ _ HC Hn) as Hk. unfold caller_ok in Hk. rewrite Hp, Hsp in Hk.
  destruct Hk as (cy & H1 & H2 & H3). exists cy. repeat split; auto. apply is_closed_Cl. exact H3.
Qed.

Lemma nospan_inv : forall s c, Inv true s -> In c (callers s) -> c_span c = false.
Proof.
  intros s c (_ & _ & _ & _ & HC) Hin. rewrite Forall_forall in HC. specialize (HC _ Hin).
  unfold caller_ok in HC. destruct (c_pc c).
  - exact HC.
  - destruct HC as [H _]; exact H.
  - destruct HC as [H _]; exact H.
  - destruct (c_span c); [destruct HC; discriminate | reflexivity].
  - destruct (c_span c); [discriminate | reflexivity].
Qed.

Theorem after_run : forall fx ls s k c,
  run fx init ls = Some s -> nth_error (callers s) k = Some c -> c_pc c = Returned -> c_span c = false ->
  exists cy, cyc_at (cycles s) (c_tgt c) = Some cy /\ cy_pc cy = Finished.
Proof. intros fx ls s k c Hr. eapply after_run_inv. eapply reachable_inv; eauto. Qed.

Theorem after_run_fixed : forall ls s k c,
  run true init ls = Some s -> nth_error (callers s) k = Some c -> c_pc c = Returned ->
  exists cy, cyc_at (cycles s) (c_tgt c) = Some cy /\ cy_pc cy = Finished.
Proof.
  intros ls s k c Hr Hn Hp. pose proof (reachable_inv _ _ _ Hr) as HI.
  eapply after_run_inv; eauto. eapply nospan_inv; eauto. eapply nth_error_In; eauto.
Qed.

Theorem signalled : forall fx ls s k c d,
  run fx init ls = Some s -> nth_error (callers s) k = Some c -> c_pc c = AfterSec2 d -> c_span c = false ->
  exists cy, cyc_at (cycles s) (c_tgt c) = Some cy /\ cy_done cy = d /\ is_closed s (cy_stop cy) = true.
Proof. intros fx ls s k c d Hr. eapply signalled_inv. eapply reachable_inv; eauto. Qed.

Theorem signalled_fixed : forall ls s k c d,
  run true init ls = Some s -> nth_error (callers s) k = Some c -> c_pc c = AfterSec2 d ->
  exists cy, cyc_at (cycles s) (c_tgt c) = Some cy /\ cy_done cy = d /\ is_closed s (cy_stop cy) = true.
Proof.
  intros ls s k c d Hr Hn Hp. pose proof (reachable_inv _ _ _ Hr) as HI.
  eapply signalled_inv; eauto. eapply nospan_inv; eauto. eapply nth_error_In; eauto.
Qed.

Theorem nospan_fixed : forall ls s c, run true init ls = Some s -> In c (callers s) -> c_span c = false.
Proof. intros ls s c Hr. apply nospan_inv. eapply reachable_inv; eauto. Qed.

(* the ghost [c_span] says what it is meant to say: it is set only by a second critical
   section executed (code as it is) in a generation other than the caller's target *)
Lemma span_only_sec2 : forall fx s l s' k c',
  step fx s l = Some s' -> nth_error (callers s') k = Some c' -> c_span c' = true ->
  (exists c, nth_error (callers s) k = Some c /\ c_span c = true) \/
  (fx = false /\ l = LSec2 k /\ exists c, nth_error (callers s) k = Some c /\ c_pc c = PastStarted /\
                                   c_tgt c <> gen s /\ c_tgt c' = c_tgt c).
Proof.
  intros fx s l s' k c' Hs Hn Hsp.
  assert (Hupd : forall j x cs, nth_error (upd cs j x) k = Some c' -> c_span x = false ->
                                nth_error cs k = Some c').
  { intros j x cs H Hx. destruct (Nat.eq_dec k j) as [E|NE].
    - subst j. destruct (nth_error cs k) eqn:E2.
      + rewrite (upd_nth_same _ _ _ _ _ E2) in H. inversion H; subst. congruence.
      + exfalso. apply nth_error_None in E2.
        assert (nth_error (upd cs k x) k = None) by (apply nth_error_None; rewrite upd_length; exact E2).
        congruence.
    - rewrite upd_nth_other in H by exact NE. exact H. }
  destruct l as [|j|j|j|j| | | |]; cbn [step] in Hs.
  - inversion Hs; subst. cbn in Hn. left.
    destruct (Nat.lt_ge_cases k (length (callers s))) as [Hlt|Hge].
    + rewrite nth_error_app1 in Hn by exact Hlt. eauto.
    + rewrite nth_error_app2 in Hn by exact Hge.
      destruct (k - length (callers s)) as [|m]; cbn in Hn.
      * inversion Hn; subst. discriminate.
      * destruct m; discriminate.
  - destruct (nth_error (callers s) j) as [[pc g sp]|] eqn:En; [|discriminate].
    destruct pc; try discriminate. inversion Hs; subst. cbn in Hn. left.
    exists c'. split; [|exact Hsp]. eapply Hupd; eauto.
  - destruct (nth_error (callers s) j) as [[pc g sp]|] eqn:En; [|discriminate].
    destruct pc as [|ch| | |]; try discriminate. destruct (is_closed s ch); [|discriminate].
    inversion Hs; subst. cbn in Hn. left.
    destruct (Nat.eq_dec k j) as [E|NE].
    + subst j. rewrite (upd_nth_same _ _ _ _ _ En) in Hn. inversion Hn; subst. cbn in Hsp. subst sp.
      eexists; split; [exact En | reflexivity].
    + rewrite upd_nth_other in Hn by exact NE. eauto.
  - destruct (nth_error (callers s) j) as [[pc g sp]|] eqn:En; [|discriminate].
    destruct pc; try discriminate.
    destruct (gen s =? g) eqn:Eg.
    + inversion Hs; subst. cbn in Hn. left. exists c'. split; [|exact Hsp]. eapply Hupd; eauto.
    + apply Nat.eqb_neq in Eg. destruct fx; inversion Hs; subst; cbn in Hn.
      * left. exists c'. split; [|exact Hsp]. eapply Hupd; eauto.
      * destruct (Nat.eq_dec k j) as [E|NE].
        -- subst j. right. rewrite (upd_nth_same _ _ _ _ _ En) in Hn. inversion Hn; subst.
           repeat split; auto. eexists. split; [exact En|]. cbn. auto.
        -- rewrite upd_nth_other in Hn by exact NE. left. eauto.
  - destruct (nth_error (callers s) j) as [[pc g sp]|] eqn:En; [|discriminate].
    destruct pc as [| | |d|]; try discriminate. destruct (is_closed s d); [|discriminate].
    inversion Hs; subst. cbn in Hn. left.
    destruct (Nat.eq_dec k j) as [E|NE].
    + subst j. rewrite (upd_nth_same _ _ _ _ _ En) in Hn. inversion Hn; subst. cbn in Hsp. subst sp.
      eexists; split; [exact En | reflexivity].
    + rewrite upd_nth_other in Hn by exact NE. eauto.
  - destruct (run_idle (cycles s)); [|discriminate]. inversion Hs; subst. left. eauto.
  - destruct (cycles s) as [|[d st p] t]; [discriminate|]. destruct p; try discriminate.
    destruct (is_closed s st); [|discriminate]. inversion Hs; subst. left. eauto.
  - destruct (cycles s) as [|[d st p] t]; [discriminate|]. destruct p; try discriminate.
    inversion Hs; subst. left. eauto.
  - destruct (cycles s) as [|[d st p] t]; [discriminate|]. destruct p; try discriminate.
    inversion Hs; subst. left. eauto.
Qed.

(* ---------- progress ---------- *)
Lemma cyc_rem_le : forall s g, cyc_rem s g <= 3.
Proof. intros. unfold cyc_rem. destruct (cyc_at (cycles s) g) as [cy|]; [destruct (cy_pc cy)|]; lia. Qed.

Lemma In_helpful : forall k l,
  l = LSec1 k \/ l = LWaitStarted k \/ l = LSec2 k \/ l = LWaitDone k \/ l = LRunStart \/
  l = LRunSeeStop \/ l = LDone -> In l (helpful k).
Proof. intros k l H. unfold helpful. cbn. intuition. Qed.

Theorem progress_inv : forall fx s k c,
  Inv fx s -> nth_error (callers s) k = Some c -> c_pc c <> Returned -> c_span c = false ->
  exists l s' c',
    In l (helpful k) /\ step fx s l = Some s' /\ nth_error (callers s') k = Some c' /\
    measure s' c' < measure s c /\
    (l = LRunStart -> cyc_at (cycles s) (c_tgt c) = None).
Proof.
  intros fx s k [pc g sp] HI Hn Hp Hsp. pose proof HI as (HB & HH & HS & HST & HC).
  pose proof (Forall_nth _ _ _ _ _ HC Hn) as Hk. unfold caller_ok in Hk. cbn in *. subst sp.
  destruct pc as [|ch| |d|].
  - (* Enter *)
    exists (LSec1 k). eexists. eexists.
    split; [apply In_helpful; auto|]. cbn [step]. rewrite Hn.
    split; [reflexivity|]. cbn [callers with_callers].
    split; [eapply upd_nth_same; eauto|]. split; [|discriminate].
    unfold measure; cbn. pose proof (cyc_rem_le (with_callers (signal s)
      (upd (callers s) k (mkCaller (AfterSec1 (startedCh s)) (gen s) false))) (gen s)). lia.
  - (* AfterSec1 *)
    destruct Hk as (_ & (Hle & Hst & Hlt) & Ha & Hb).
    destruct (is_closed s ch) eqn:Ecl.
    + exists (LWaitStarted k). eexists. eexists.
      split; [apply In_helpful; auto|]. cbn [step]. rewrite Hn, Ecl.
      split; [reflexivity|]. cbn [callers with_callers].
      split; [eapply upd_nth_same; eauto|]. split; [|discriminate].
      unfold measure, cyc_rem; cbn. lia.
    + apply is_closed_nCl in Ecl.
      assert (Eg : g = gen s).
      { destruct (Nat.eq_dec g (gen s)); [assumption|]. exfalso. apply Ecl. apply Hb. lia. }
      assert (Hc : cycles s = []).
      { destruct (cycles s) eqn:E; [reflexivity|]. exfalso. apply Ecl. rewrite (Ha Eg).
        apply HST. discriminate. }
      pose proof HH as HH'. unfold head_ok in HH'. rewrite Hc in HH'. destruct HH' as [Hg0 Hd0].
      assert (Hns : ~ Cl s (startedCh s)) by (rewrite <- (Ha Eg); exact Ecl).
      exists LRunStart. exists (started s). exists (mkCaller (AfterSec1 ch) g false).
      split; [apply In_helpful; auto 10|]. cbn [step]. rewrite Hc. cbn [run_idle].
      split; [reflexivity|]. rewrite (started_first s Hc Hd0 Hns). cbn [callers].
      split; [exact Hn|]. split; [|intros _; rewrite ?Hc; reflexivity].
      unfold measure, cyc_rem; cbn. rewrite ?Hc. rewrite Eg, Hg0. cbn. lia.
  - (* PastStarted *)
    exists (LSec2 k). cbn [step]. rewrite Hn.
    destruct (gen s =? g); [|destruct fx]; eexists; eexists;
      (split; [apply In_helpful; auto|]); (split; [reflexivity|]); cbn [callers with_callers];
      (split; [eapply upd_nth_same; eauto|]); (split; [|discriminate]);
      unfold measure, cyc_rem; cbn; lia.
  - (* AfterSec2, not spanned *)
    destruct Hk as (cy & Hat & Hd & Hcl).
    destruct (is_closed s d) eqn:Ecl.
    + exists (LWaitDone k). eexists. eexists.
      split; [apply In_helpful; auto 10|]. cbn [step]. rewrite Hn, Ecl.
      split; [reflexivity|]. cbn [callers with_callers].
      split; [eapply upd_nth_same; eauto|]. split; [|discriminate].
      unfold measure; cbn. lia.
    + apply is_closed_nCl in Ecl.
      unfold head_ok in HH. destruct (cycles s) as [|c0 t] eqn:Ec; [discriminate|].
      destruct HH as (H1 & H2 & H3 & H4 & H5 & H6).
      destruct (cyc_at_cons_inv _ _ _ _ Hat) as [[Eg E]|[_ Hat']].
      2:{ exfalso. apply Ecl. apply cyc_at_In in Hat'. rewrite Forall_forall in H6.
          rewrite <- Hd. apply H6. exact Hat'. }
      subst cy. destruct c0 as [d0 st p]. cbn in *. subst d0.
      destruct p.
      * (* Body: its stopCh is closed, the select takes the StopCh case *)
        exists LRunSeeStop. eexists. exists (mkCaller (AfterSec2 d) g false).
        split; [apply In_helpful; auto 10|]. cbn [step]. rewrite Ec.
        apply is_closed_Cl in Hcl. rewrite Hcl.
        split; [reflexivity|]. cbn [callers with_cycles].
        split; [exact Hn|]. split; [|discriminate].
        unfold measure, cyc_rem; cbn. rewrite Ec. cbn. rewrite Eg, Nat.eqb_refl. cbn. lia.
      * exists LDone. eexists. exists (mkCaller (AfterSec2 d) g false).
        split; [apply In_helpful; auto 10|]. cbn [step]. rewrite Ec.
        split; [reflexivity|]. cbn [callers with_cycles with_closed].
        split; [exact Hn|]. split; [|discriminate].
        unfold measure, cyc_rem; cbn. rewrite Ec. cbn. rewrite Eg, Nat.eqb_refl. cbn. lia.
      * exfalso. apply Ecl. rewrite <- Hd. apply H5. reflexivity.
  - exfalso. apply Hp. reflexivity.
Qed.

Theorem progress : forall fx ls s k c,
  run fx init ls = Some s -> nth_error (callers s) k = Some c -> c_pc c <> Returned -> c_span c = false ->
  exists l s' c',
    In l (helpful k) /\ step fx s l = Some s' /\ nth_error (callers s') k = Some c' /\
    measure s' c' < measure s c /\
    (l = LRunStart -> cyc_at (cycles s) (c_tgt c) = None).
Proof. intros fx ls s k c Hr. apply progress_inv. eapply reachable_inv; eauto. Qed.

Theorem progress_fixed : forall ls s k c,
  run true init ls = Some s -> nth_error (callers s) k = Some c -> c_pc c <> Returned ->
  exists l s' c',
    In l (helpful k) /\ step true s l = Some s' /\ nth_error (callers s') k = Some c' /\
    measure s' c' < measure s c /\
    (l = LRunStart -> cyc_at (cycles s) (c_tgt c) = None).
Proof.
  intros ls s k c Hr Hn Hp. pose proof (reachable_inv _ _ _ Hr) as HI.
  apply progress_inv; auto. eapply nospan_inv; eauto. eapply nth_error_In; eauto.
Qed.

(* ---------- immediate return once the last Run has finished ---------- *)
Lemma done_closed_all : forall s c0 t d,
  head_ok s -> cycles s = c0 :: t -> cy_pc c0 = Finished -> In d (map cy_done (cycles s)) -> Cl s d.
Proof.
  intros s c0 t d HH Hc Hf Hin. unfold head_ok in HH. rewrite Hc in *.
  destruct HH as (H1 & H2 & H3 & H4 & H5 & H6). cbn in Hin. destruct Hin as [E|Hin].
  - subst d. apply H5. exact Hf.
  - apply in_map_iff in Hin. destruct Hin as (cy & E & Hin). subst d.
    rewrite Forall_forall in H6. apply H6. exact Hin.
Qed.

Lemma own_step : forall fx s k c c0 t,
  Inv fx s -> cycles s = c0 :: t -> cy_pc c0 = Finished ->
  nth_error (callers s) k = Some c -> c_pc c <> Returned ->
  exists l s' c', In l (own_labels k) /\ step fx s l = Some s' /\ nth_error (callers s') k = Some c' /\
                  own_rem (c_pc c') < own_rem (c_pc c) /\ cycles s' = cycles s.
Proof.
  intros fx s k [pc g sp] c0 t HI Hc Hf Hn Hp. pose proof HI as (HB & HH & HS & HST & HC).
  pose proof (Forall_nth _ _ _ _ _ HC Hn) as Hk. unfold caller_ok in Hk. cbn in *.
  destruct pc as [|ch| |d|].
  - exists (LSec1 k). eexists. eexists. split; [cbn; auto|]. cbn [step]. rewrite Hn.
    split; [reflexivity|]. cbn [callers with_callers cycles].
    split; [eapply upd_nth_same; eauto|]. split; [cbn; lia|].
    destruct (signal_inv fx s HI) as (_ & _ & _ & _ & _ & _ & E). exact E.
  - destruct Hk as (_ & (Hle & Hst & Hlt) & Ha & Hb).
    assert (Hcl : Cl s ch).
    { destruct (Nat.eq_dec g (gen s)) as [E|NE].
      - rewrite (Ha E). apply HST. rewrite Hc. discriminate.
      - apply Hb. lia. }
    apply is_closed_Cl in Hcl.
    exists (LWaitStarted k). eexists. eexists. split; [cbn; auto|]. cbn [step]. rewrite Hn, Hcl.
    split; [reflexivity|]. cbn [callers with_callers cycles].
    split; [eapply upd_nth_same; eauto|]. split; [cbn; lia | reflexivity].
  - exists (LSec2 k). cbn [step]. rewrite Hn.
    destruct (gen s =? g); [|destruct fx]; eexists; eexists;
      (split; [cbn; auto|]); (split; [reflexivity|]); cbn [callers with_callers cycles];
      (split; [eapply upd_nth_same; eauto|]); (split; [cbn; lia | reflexivity]).
  - assert (Hcl : Cl s d).
    { destruct sp.
      - destruct Hk as [_ Hin]. eapply done_closed_all; eauto.
      - destruct Hk as (cy & Hat & Hd & _). eapply done_closed_all; eauto.
        rewrite <- Hd. apply in_map. eapply cyc_at_In; eauto. }
    apply is_closed_Cl in Hcl.
    exists (LWaitDone k). eexists. eexists. split; [cbn; auto|]. cbn [step]. rewrite Hn, Hcl.
    split; [reflexivity|]. cbn [callers with_callers cycles].
    split; [eapply upd_nth_same; eauto|]. split; [cbn; lia | reflexivity].
  - exfalso. apply Hp. reflexivity.
Qed.

Lemma immediate_n : forall fx n s k c c0 t,
  own_rem (c_pc c) <= n ->
  Inv fx s -> cycles s = c0 :: t -> cy_pc c0 = Finished -> nth_error (callers s) k = Some c ->
  exists ls s' c', Forall (fun l => In l (own_labels k)) ls /\ length ls <= n /\
                   run fx s ls = Some s' /\ nth_error (callers s') k = Some c' /\ c_pc c' = Returned.
Proof.
  intros fx n. induction n as [|n IH]; intros s k c c0 t Hle HI Hc Hf Hn.
  - exists [], s, c. repeat split; auto. destruct (c_pc c); cbn in Hle; try lia. reflexivity.
  - destruct (c_pc c) eqn:Ep.
    5:{ exists [], s, c. split; [constructor|]. split; [cbn; lia|]. split; [reflexivity|]. split; assumption. }
    all: destruct (own_step fx s k c c0 t HI Hc Hf Hn) as (l & sN & cN & Hl & Hs & Hn1 & Hlt & Hc1);
      [rewrite Ep; discriminate|];
      rewrite Ep in Hlt; cbn in Hlt, Hle;
      destruct (IH sN k cN c0 t) as (ls & s' & c' & HF & Hlen & Hr & Hn' & Hp');
      [lia | eapply step_inv; eauto | rewrite Hc1; exact Hc | exact Hf | exact Hn1 |];
      exists (l :: ls), s', c';
      (split; [constructor; assumption|]); (split; [cbn; lia|]);
      (split; [cbn [run]; rewrite Hs; exact Hr|]); split; assumption.
Qed.

Theorem immediate : forall fx ls s k c c0 t,
  run fx init ls = Some s -> cycles s = c0 :: t -> cy_pc c0 = Finished ->
  nth_error (callers s) k = Some c ->
  exists own s' c', Forall (fun l => In l (own_labels k)) own /\ length own <= 4 /\
                    run fx s own = Some s' /\ nth_error (callers s') k = Some c' /\ c_pc c' = Returned.
Proof.
  intros fx ls s k c c0 t Hr Hc Hf Hn.
  eapply immediate_n; eauto.
  - destruct (c_pc c); cbn; lia.
  - eapply reachable_inv; eauto.
Qed.

(* ---------- F14: the code as it is violates signalled and progress ---------- *)
Definition f14_bad (s : state) : Prop :=
  exists c d cy,
    nth_error (callers s) 0 = Some c /\ c_pc c = AfterSec2 d /\ c_tgt c = 0 /\
    (* it is parked on the doneCh of cycle 1, whose stopCh is open and whose Run is in its select *)
    cyc_at (cycles s) 1 = Some cy /\ cy_done cy = d /\ cy_pc cy = Body /\
    is_closed s d = false /\ is_closed s (cy_stop cy) = false /\
    (* while the Run it targeted (cycle 0) has returned *)
    (exists cy0, cyc_at (cycles s) 0 = Some cy0 /\ cy_pc cy0 = Finished) /\
    (* and nothing it may rely on is enabled *)
    forall l, In l (helpful 0) -> step false s l = None.

Theorem refuted : exists s, run false init f14_schedule = Some s /\ f14_bad s.
Proof.
  eexists. split; [vm_compute; reflexivity|].
  unfold f14_bad. eexists. eexists. eexists.
  split; [vm_compute; reflexivity|]. split; [reflexivity|]. split; [reflexivity|].
  split; [vm_compute; reflexivity|]. split; [reflexivity|]. split; [reflexivity|].
  split; [vm_compute; reflexivity|]. split; [vm_compute; reflexivity|].
  split; [eexists; split; [vm_compute; reflexivity | reflexivity]|].
  intros l Hl. cbn in Hl.
  repeat (destruct Hl as [Hl|Hl]; [subst l; vm_compute; reflexivity|]). destruct Hl.
Qed.

(* the same schedule on the repaired code: the caller has returned *)
Theorem repaired_on_witness : exists s c,
  run true init f14_schedule = Some s /\ nth_error (callers s) 0 = Some c /\ c_pc c = Returned.
Proof. eexists. eexists. split; [vm_compute; reflexivity|]. split; [vm_compute; reflexivity | reflexivity]. Qed.
