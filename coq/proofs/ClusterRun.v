(* Run-loop protocol lemmas for C16: the accounting invariant of ClusterLTS.step (as written,
   fx = false) under id hygiene -- the servers started and not yet stopped are exactly the
   runtimes recorded in the working collection -- lifted to every schedule with LTS.run_inv;
   and the refutation schedule for the colliding ids. *)
From Coq Require Import List Arith NArith Bool Lia Permutation.
From GS Require Import LTS Cluster ClusterLTS ClusterPlan.
Import ListNotations.
Open Scope N_scope.

(* ---------------------------------------------------------------- more map lemmas *)
Definition nonstop (p : id * entry) : bool := negb (action_eqb (e_act (snd p)) AStop).
Definition isstop (p : id * entry) : bool := action_eqb (e_act (snd p)) AStop.
Definition keep (m : emap) : list N := rts (filter nonstop m).

Lemma keep_app a b : keep (a ++ b) = keep a ++ keep b.
Proof. unfold keep. now rewrite filter_app, rts_app. Qed.

Lemma lookup_split (m : emap) k e :
  lookup k m = Some e -> exists m1 m2, m = m1 ++ (k, e) :: m2 /\ ~ In k (keys m1).
Proof.
  induction m as [|[k' e'] m IH]; cbn [lookup]; [discriminate|].
  destruct (id_eqb k' k) eqn:E.
  - apply id_eqb_eq in E. intros [= ->]. subst. exists [], m. split; [reflexivity|intros []].
  - intros H. destruct (IH H) as (m1 & m2 & -> & Hn). exists ((k', e') :: m1), m2. split; [reflexivity|].
    cbn [keys map fst]. intros [->|Hin]; [|contradiction]. now rewrite id_eqb_refl in E.
Qed.

Lemma split_nodup (m1 m2 : emap) k e :
  NoDup (keys (m1 ++ (k, e) :: m2)) -> ~ In k (keys m1) /\ ~ In k (keys m2).
Proof.
  rewrite keys_app. cbn [keys map fst]. intros H. apply NoDup_remove_2 in H.
  split; intros Hin; apply H; apply in_or_app; [now left|now right].
Qed.

Lemma update_rt_notin k r (m : emap) : ~ In k (keys m) -> update_rt k r m = m.
Proof.
  induction m as [|[k' e'] m IH]; intros H; [reflexivity|]. cbn [update_rt map fst].
  cbn [keys map fst] in H. destruct (id_eqb k' k) eqn:E.
  - apply id_eqb_eq in E. subst. exfalso. apply H. now left.
  - f_equal. apply IH. intros Hin. apply H. now right.
Qed.

Lemma update_rt_split k r (m1 m2 : emap) e :
  ~ In k (keys m1) -> ~ In k (keys m2) ->
  update_rt k r (m1 ++ (k, e) :: m2) = m1 ++ (k, set_rt r e) :: m2.
Proof.
  intros H1 H2. unfold update_rt at 1. rewrite map_app. cbn [map fst snd]. rewrite id_eqb_refl.
  fold (update_rt k r m1). fold (update_rt k r m2). now rewrite !update_rt_notin.
Qed.

Lemma remove_notin k (m : emap) : ~ In k (keys m) -> remove_entry k m = m.
Proof.
  induction m as [|[k' e'] m IH]; intros H; [reflexivity|]. cbn [remove_entry filter fst].
  cbn [keys map fst] in H. destruct (id_eqb k' k) eqn:E.
  - apply id_eqb_eq in E. subst. exfalso. apply H. now left.
  - cbn [negb]. f_equal. apply IH. intros Hin. apply H. now right.
Qed.

Lemma remove_split k (m1 m2 : emap) e :
  ~ In k (keys m1) -> ~ In k (keys m2) -> remove_entry k (m1 ++ (k, e) :: m2) = m1 ++ m2.
Proof.
  intros H1 H2. unfold remove_entry at 1. rewrite filter_app. cbn [filter fst]. rewrite id_eqb_refl. cbn [negb].
  fold (remove_entry k m1). fold (remove_entry k m2). now rewrite !remove_notin.
Qed.

Lemma keys_update_rt k r (m : emap) : keys (update_rt k r m) = keys m.
Proof.
  unfold keys, update_rt. rewrite map_map. apply map_ext. intros [k' e]. cbn [fst].
  now destruct (id_eqb k' k).
Qed.

Lemma lookup_update_rt k r (m : emap) q :
  lookup q (update_rt k r m) =
  match lookup q m with Some e => Some (if id_eqb q k then set_rt r e else e) | None => None end.
Proof.
  induction m as [|[k' e'] m IH]; [reflexivity|]. cbn [update_rt map fst snd].
  destruct (id_eqb k' k) eqn:E; cbn [lookup fst]; destruct (id_eqb k' q) eqn:E2.
  - apply id_eqb_eq in E, E2. subst. now rewrite id_eqb_refl.
  - exact IH.
  - apply id_eqb_eq in E2. subst. now rewrite E.
  - exact IH.
Qed.

Lemma nodup_keys_filter (f : id * entry -> bool) (m : emap) : NoDup (keys m) -> NoDup (keys (filter f m)).
Proof.
  induction m as [|p m IH]; intros H; [constructor|]. cbn [keys map] in H. inversion H as [|? ? Hn H']; subst.
  cbn [filter]. destruct (f p); [|now apply IH]. cbn [keys map]. constructor; [|now apply IH].
  intros Hin. apply Hn. unfold keys in Hin. rewrite in_map_iff in Hin. destruct Hin as (x & <- & Hx).
  apply filter_In in Hx as [Hx _]. now apply in_map.
Qed.

Lemma keys_commit m : keys (commit m) = keys (filter nonstop m).
Proof. unfold commit, keys. rewrite map_map. reflexivity. Qed.

Lemma rts_commit m : rts (commit m) = keep m.
Proof.
  unfold commit, keep, rts. rewrite flat_map_concat_map, flat_map_concat_map, map_map. reflexivity.
Qed.

Lemma lookup_remove_other k (m : emap) q : q <> k -> lookup q (remove_entry k m) = lookup q m.
Proof.
  intros Hq. induction m as [|[k' e'] m IH]; [reflexivity|]. cbn [remove_entry filter fst].
  destruct (id_eqb k' k) eqn:E; cbn [negb lookup].
  - apply id_eqb_eq in E. subst. destruct (id_eqb k q) eqn:E2; [apply id_eqb_eq in E2; congruence|exact IH].
  - destruct (id_eqb k' q); [reflexivity|exact IH].
Qed.

Lemma flat_map_ext_in {A B} (f g : A -> list B) l :
  (forall x, In x l -> f x = g x) -> flat_map f l = flat_map g l.
Proof.
  induction l as [|x l IH]; intros H; [reflexivity|]. cbn [flat_map].
  rewrite (H x (or_introl eq_refl)), IH; [reflexivity|]. intros y Hy. apply H. now right.
Qed.

Definition rt1 (p : id * entry) : list N := match e_rt (snd p) with Some i => [i] | None => [] end.
Lemma rts_cons p m : rts (p :: m) = rt1 p ++ rts m.
Proof. reflexivity. Qed.

Lemma rts_partition m : Permutation (rts m) (keep m ++ rts (filter isstop m)).
Proof.
  unfold keep. induction m as [|p m IH]; [constructor|].
  rewrite rts_cons. cbn [filter]. unfold nonstop at 1, isstop at 1.
  destruct (action_eqb (e_act (snd p)) AStop); cbn [negb]; rewrite rts_cons.
  - eapply Permutation_trans; [apply Permutation_app_head; exact IH|].
    rewrite app_assoc. eapply Permutation_trans; [apply Permutation_app_tail; apply Permutation_app_comm|].
    now rewrite <- app_assoc.
  - rewrite <- app_assoc. now apply Permutation_app_head.
Qed.

Lemma stop_insts_eq m : NoDup (keys m) -> stop_insts m (snd (pending_actions m)) = rts (filter isstop m).
Proof.
  intros Hnd. unfold stop_insts, pending_actions. cbn [snd]. unfold keys. rewrite flat_map_concat_map, map_map.
  rewrite <- flat_map_concat_map. unfold rts. apply flat_map_ext_in. intros (k, e) Hin.
  apply filter_In in Hin as [Hin _]. cbn [fst snd]. now rewrite (in_lookup m k e Hnd Hin).
Qed.

Lemma filter_all {A} (f : A -> bool) l : (forall x, In x l -> f x = true) -> filter f l = l.
Proof.
  induction l as [|x l IH]; intros H; [reflexivity|]. cbn [filter]. rewrite (H x (or_introl eq_refl)).
  f_equal. apply IH. intros y Hy. apply H. now right.
Qed.

Lemma filter_none {A} (f : A -> bool) l : (forall x, In x l -> f x = false) -> filter f l = [].
Proof.
  induction l as [|x l IH]; intros H; [reflexivity|]. cbn [filter]. rewrite (H x (or_introl eq_refl)).
  apply IH. intros y Hy. apply H. now right.
Qed.

(* keep under the three updates *)
Lemma keep_update_stop k r m :
  NoDup (keys m) -> (forall e, lookup k m = Some e -> e_act e = AStop) -> keep (update_rt k r m) = keep m.
Proof.
  intros Hnd Hs. destruct (lookup k m) as [e|] eqn:E.
  - destruct (lookup_split m k e E) as (m1 & m2 & -> & H1). destruct (split_nodup m1 m2 k e Hnd) as [_ H2].
    rewrite update_rt_split by assumption. rewrite !keep_app. f_equal.
    change ((k, e) :: m2) with ([(k, e)] ++ m2). change ((k, set_rt r e) :: m2) with ([(k, set_rt r e)] ++ m2).
    rewrite !keep_app. f_equal. unfold keep. cbn [filter]. unfold nonstop. cbn [snd set_rt e_act].
    now rewrite (Hs e eq_refl).
  - apply lookup_none in E. now rewrite update_rt_notin.
Qed.

Lemma keep_update_start k i m e :
  NoDup (keys m) -> lookup k m = Some e -> e_rt e = None -> e_act e <> AStop ->
  Permutation (keep (update_rt k (Some i) m)) (i :: keep m).
Proof.
  intros Hnd E Hr Ha. destruct (lookup_split m k e E) as (m1 & m2 & -> & H1).
  destruct (split_nodup m1 m2 k e Hnd) as [_ H2]. rewrite update_rt_split by assumption.
  rewrite !keep_app.
  change ((k, e) :: m2) with ([(k, e)] ++ m2). change ((k, set_rt (Some i) e) :: m2) with ([(k, set_rt (Some i) e)] ++ m2).
  rewrite !keep_app.
  assert (Hn : nonstop (k, e) = true) by (unfold nonstop; cbn [snd]; destruct (e_act e); try reflexivity; congruence).
  assert (K1 : keep [(k, set_rt (Some i) e)] = [i]).
  { unfold keep. cbn [filter]. unfold nonstop in *. cbn [snd set_rt e_act] in *. rewrite Hn. reflexivity. }
  assert (K2 : keep [(k, e)] = []).
  { unfold keep. cbn [filter]. rewrite Hn. cbn. now rewrite Hr. }
  rewrite K1, K2. cbn [app]. apply Permutation_sym, Permutation_middle.
Qed.

Lemma keep_remove k m e :
  NoDup (keys m) -> lookup k m = Some e -> e_act e <> AStop ->
  Permutation (keep m) (match e_rt e with Some i => [i] | None => [] end ++ keep (remove_entry k m)).
Proof.
  intros Hnd E Ha. destruct (lookup_split m k e E) as (m1 & m2 & -> & H1).
  destruct (split_nodup m1 m2 k e Hnd) as [_ H2]. rewrite remove_split by assumption.
  rewrite !keep_app. change ((k, e) :: m2) with ([(k, e)] ++ m2). rewrite keep_app.
  assert (Hn : nonstop (k, e) = true) by (unfold nonstop; cbn [snd]; destruct (e_act e); try reflexivity; congruence).
  assert (K : keep [(k, e)] = match e_rt e with Some i => [i] | None => [] end).
  { unfold keep. cbn [filter]. rewrite Hn. cbn. now rewrite app_nil_r. }
  rewrite K. apply Permutation_app_swap_app.
Qed.

Lemma nodup_keys_remove k (m : emap) : NoDup (keys m) -> NoDup (keys (remove_entry k m)).
Proof. apply nodup_keys_filter. Qed.

Lemma insert_keys_mem {A} k (v : A) m : In k (keys m) -> keys (insert k v m) = keys m.
Proof.
  induction m as [|[k' v'] m IH]; intros H; [destruct H|].
  cbn [insert]. destruct (id_eqb k' k) eqn:E; [reflexivity|]. cbn [keys map fst]. f_equal. apply IH.
  cbn [keys map fst] in H. destruct H as [->|H]; [now rewrite id_eqb_refl in E|exact H].
Qed.

Lemma insert_keys_nodup {A} k (v : A) m : NoDup (keys m) -> NoDup (keys (insert k v m)).
Proof.
  intros H. destruct (mem k m) eqn:E.
  - apply mem_true in E. now rewrite insert_keys_mem.
  - apply mem_false in E. rewrite insert_fresh by exact E. rewrite keys_app. apply nodup_app; [exact H|repeat constructor; intros []|].
    intros x Hx [<-|[]]. contradiction.
Qed.

Lemma new_entries_nodup m : NoDup (keys (new_entries m)).
Proof.
  unfold new_entries. assert (G : forall acc : emap, NoDup (keys acc) ->
    NoDup (keys (fold_left (fun acc p => match snd p with
                                        | Some c => insert (fst p) (start_entry (fst p) c) acc
                                        | None => acc end) m acc))).
  { induction m as [|p m IH]; intros acc H; [exact H|]. cbn [fold_left]. apply IH.
    destruct (snd p); [now apply insert_keys_nodup|exact H]. }
  apply G. constructor.
Qed.

(* ---------------------------------------------------------------- small list lemmas *)
Lemma map_fst_remove_inst i l : map fst (remove_inst i l) = removeN i (map fst l).
Proof.
  induction l as [|[j x] l IH]; [reflexivity|]. cbn [remove_inst removeN filter map fst].
  rewrite (N.eqb_sym j i). destruct (i =? j); cbn [negb map fst]; [exact IH|f_equal; exact IH].
Qed.

Lemma removeN_notin i l : ~ In i l -> removeN i l = l.
Proof.
  intros H. apply filter_all. intros x Hx. apply negb_true_iff, N.eqb_neq. intros ->. contradiction.
Qed.

Lemma removeN_app i a b : removeN i (a ++ b) = removeN i a ++ removeN i b.
Proof. apply filter_app. Qed.

Lemma removeN_perm i a b : Permutation a b -> Permutation (removeN i a) (removeN i b).
Proof.
  induction 1 as [|x a b H IH|x y a|a b c H1 IH1 H2 IH2]; cbn [removeN filter].
  - constructor.
  - destruct (negb (i =? x)); [now constructor|exact IH].
  - destruct (negb (i =? y)), (negb (i =? x)); try apply Permutation_refl. apply perm_swap.
  - eapply Permutation_trans; eassumption.
Qed.

Lemma removeN_nodup_cons i l : NoDup l -> In i l -> Permutation l (i :: removeN i l).
Proof.
  induction l as [|x l IH]; intros Hnd Hin; [destruct Hin|].
  inversion Hnd as [|? ? Hn Hnd']; subst. cbn [removeN filter]. destruct (N.eqb_spec i x) as [->|Hne]; cbn [negb].
  - fold (removeN x l). now rewrite removeN_notin.
  - destruct Hin as [->|Hin]; [congruence|]. fold (removeN i l).
    eapply Permutation_trans; [apply perm_skip, IH; assumption|apply perm_swap].
Qed.

Lemma memN_in x l : memN x l = true <-> In x l.
Proof.
  induction l as [|y l IH]; cbn [memN In]; [split; [discriminate|tauto]|].
  rewrite orb_true_iff, N.eqb_eq, IH. split; intros [H|H]; auto.
Qed.

Lemma find_inst_some i l x : find_inst i l = Some x -> fst x = i /\ In i (map fst l).
Proof.
  unfold find_inst. intros H. apply find_some in H as [Hin E]. apply N.eqb_eq in E. split; [exact E|].
  rewrite <- E. now apply in_map.
Qed.

Lemma find_inst_none i l : find_inst i l = None -> ~ In i (map fst l).
Proof.
  unfold find_inst. intros H Hin. apply in_map_iff in Hin as (x & <- & Hx).
  apply (find_none _ _ H) in Hx. now rewrite N.eqb_refl in Hx.
Qed.

Lemma mem_id_in x l : mem_id x l = true <-> In x l.
Proof.
  induction l as [|y l IH]; cbn [mem_id In]; [split; [discriminate|tauto]|].
  rewrite orb_true_iff, id_eqb_eq, IH. tauto.
Qed.

Lemma in_remove_id x k l : In x (remove_id k l) <-> In x l /\ x <> k.
Proof.
  unfold remove_id. rewrite filter_In. rewrite negb_true_iff, id_eqb_neq. tauto.
Qed.

Lemma is_perm_spec ord ks : NoDup ks -> is_perm ord ks = true -> Permutation ord ks.
Proof.
  intros Hnd H. unfold is_perm in H. apply andb_prop in H as [H H3]. apply andb_prop in H as [H1 H2].
  apply Nat.eqb_eq in H1. apply Permutation_sym. apply NoDup_Permutation_bis; [exact Hnd|lia|].
  intros x Hx. rewrite forallb_forall in H3. apply mem_id_in. now apply H3.
Qed.

(* lookups through commit / clearRuntime-of-all / removeEntry *)
Lemma lookup_commit m q :
  NoDup (keys m) ->
  lookup q (commit m) = match lookup q m with
                        | Some e => if action_eqb (e_act e) AStop then None else Some (set_act ANone e)
                        | None => None
                        end.
Proof.
  induction m as [|[k e] m IH]; intros Hnd; [reflexivity|].
  cbn [keys map fst] in Hnd. inversion Hnd as [|? ? Hn Hnd']; subst. specialize (IH Hnd').
  unfold commit in *. cbn [filter snd fst lookup]. destruct (id_eqb k q) eqn:E.
  - apply id_eqb_eq in E. subst q. destruct (action_eqb (e_act e) AStop); cbn [negb map fst snd lookup].
    + rewrite IH. apply lookup_none in Hn. now rewrite Hn.
    + now rewrite id_eqb_refl.
  - destruct (action_eqb (e_act e) AStop); cbn [negb map fst snd lookup]; [exact IH|]. now rewrite E.
Qed.

Lemma lookup_clear_all tp : forall pend q,
  lookup q (clear_all tp pend) = match lookup q pend with
                                 | Some e => Some (if mem_id q tp then set_rt None e else e)
                                 | None => None
                                 end.
Proof.
  induction tp as [|k tp IH]; intros pend q.
  - cbn [clear_all fold_left mem_id]. now destruct (lookup q pend).
  - cbn [clear_all fold_left].
    assert (E : match clear_runtime k pend with Some m' => m' | None => pend end = update_rt k None pend).
    { unfold clear_runtime. destruct (mem k pend) eqn:Em; [reflexivity|]. apply mem_false in Em. now rewrite update_rt_notin. }
    rewrite E. fold (clear_all tp (update_rt k None pend)). rewrite IH, lookup_update_rt.
    destruct (lookup q pend) as [e|]; [|reflexivity]. cbn [mem_id].
    destruct (id_eqb q k) eqn:E1.
    + apply id_eqb_eq in E1. subst. rewrite id_eqb_refl. cbn [orb]. now destruct (mem_id k tp).
    + assert (E2 : id_eqb k q = false) by (apply id_eqb_neq; apply id_eqb_neq in E1; congruence).
      now rewrite E2.
Qed.

Lemma lookup_remove_same k (m : emap) : lookup k (remove_entry k m) = None.
Proof.
  apply lookup_none. unfold remove_entry, keys. intros Hin. apply in_map_iff in Hin as ((k', e) & <- & Hin).
  apply filter_In in Hin as [_ Hin]. cbn [fst] in Hin. now rewrite id_eqb_refl in Hin.
Qed.
