(* C07 -- the fairness-free part of "Stop() never blocks forever once Run has been invoked" (audit M11).
   The per-caller statements of LifecycleMain/LifecycleMono say that a helpful label is ENABLED and that the
   caller's measure never grows; whether the label is ever TAKEN is a fairness matter.  What needs no fairness:

   - [stuck_returned]: in every reachable state in which none of the labels the lifecycle helper and a Run that
     honours the stop signal OWE (the critical sections and satisfied waits of Stop, Run's select taking the
     StopCh case, the deferred done()) is enabled, every Stop() that has not returned targets a Run that was
     never invoked.  So a maximal execution of the owed labels ends with every Stop() returned, except those
     still waiting for somebody to call Run at all.
   - [gmeasure_decreases] / [gmeasure_env] / [owed_run_bounded]: a natural-number measure of the WHOLE state
     strictly decreases on every owed label (for both step functions) and grows by at most 4 on an environment
     label (a new Stop caller, a Run being invoked, Run leaving its select for another reason): with finitely
     many environment steps every execution is finite, and a run made of owed labels only is no longer than the
     measure of its first state. *)
From Coq Require Import List Arith Bool Lia.
From GS Require Import Lifecycle LifecycleInv LifecycleStep LifecycleMain LifecycleMono.
Import ListNotations.

(* labels owed by the code under verification and by a Run that reacts to the stop signal; the others are the
   environment's: LSpawn (somebody calls Stop), LRunStart (somebody calls Run), LRunExitOther (Run ends for a
   reason of its own) *)
Definition owed (l : label) : bool :=
  match l with LSpawn | LRunStart | LRunExitOther => false | _ => true end.

Definition owed_stuck (fx : bool) (s : state) : Prop := forall l, owed l = true -> step fx s l = None.

Theorem stuck_returned : forall sched s k c,
  run true init sched = Some s -> owed_stuck true s ->
  nth_error (callers s) k = Some c -> c_pc c <> Returned ->
  cyc_at (cycles s) (c_tgt c) = None.
Proof.
  intros sched s k c Hr Hst Hn Hp.
  destruct (progress_fixed _ _ _ _ Hr Hn Hp) as (l & s' & c' & Hin & Hstep & _ & _ & Hrs).
  unfold helpful in Hin. cbn [In] in Hin.
  destruct Hin as [<-|[<-|[<-|[<-|[<-|[<-|[<-|[]]]]]]]];
    try (match type of Hstep with step true s ?l = _ => rewrite (Hst l eq_refl) in Hstep end; discriminate).
  apply Hrs. reflexivity.
Qed.

(* ---------- a measure of the whole state ---------- *)
Definition run_rem (p : rpc) : nat := match p with Body => 2 | Exiting => 1 | Finished => 0 end.

Fixpoint sum_callers (l : list caller) : nat :=
  match l with [] => 0 | c :: t => own_rem (c_pc c) + sum_callers t end.
Fixpoint sum_cycles (l : list cyc) : nat :=
  match l with [] => 0 | c :: t => run_rem (cy_pc c) + sum_cycles t end.

Definition gmeasure (s : state) : nat := sum_callers (callers s) + sum_cycles (cycles s).

Lemma sum_callers_app : forall a b, sum_callers (a ++ b) = sum_callers a + sum_callers b.
Proof. induction a as [|x a IH]; intros b; cbn [app sum_callers]; [reflexivity | rewrite IH; lia]. Qed.

Lemma sum_callers_upd : forall l k c x, nth_error l k = Some c ->
  sum_callers (upd l k x) + own_rem (c_pc c) = sum_callers l + own_rem (c_pc x).
Proof.
  induction l as [|a l IH]; intros k c x Hn.
  - destruct k; discriminate.
  - destruct k as [|k]; cbn [nth_error] in Hn; cbn [upd sum_callers].
    + injection Hn as ->. lia.
    + specialize (IH _ _ x Hn). lia.
Qed.

Lemma callers_signal : forall s, callers (signal s) = callers s.
Proof. intros s. unfold signal. destruct (stopped s); reflexivity. Qed.
Lemma cycles_signal : forall s, cycles (signal s) = cycles s.
Proof. intros s. unfold signal. destruct (stopped s); reflexivity. Qed.

Theorem gmeasure_decreases : forall fx s l s',
  owed l = true -> step fx s l = Some s' -> gmeasure s' < gmeasure s.
Proof.
  intros fx s l s' Ho Hs. unfold gmeasure.
  destruct l; try discriminate Ho; cbn [step] in Hs.
  - (* LSec1 *)
    destruct (nth_error (callers s) k) as [[p g sp]|] eqn:Hn; [|discriminate].
    destruct p; try discriminate. injection Hs as <-.
    cbn [callers cycles with_callers]. rewrite cycles_signal.
    pose proof (sum_callers_upd _ _ _ (mkCaller (AfterSec1 (startedCh s)) (gen s) false) Hn) as H.
    cbn [c_pc own_rem] in H. lia.
  - (* LWaitStarted *)
    destruct (nth_error (callers s) k) as [[p g sp]|] eqn:Hn; [|discriminate].
    destruct p; try discriminate. destruct (is_closed s c); [|discriminate]. injection Hs as <-.
    cbn [callers cycles with_callers].
    pose proof (sum_callers_upd _ _ _ (mkCaller PastStarted g sp) Hn) as H. cbn [c_pc own_rem] in H. lia.
  - (* LSec2 *)
    destruct (nth_error (callers s) k) as [[p g sp]|] eqn:Hn; [|discriminate].
    destruct p; try discriminate.
    destruct (gen s =? g); [|destruct fx]; injection Hs as <-; cbn [callers cycles with_callers];
      match goal with |- context [upd _ _ ?x] => pose proof (sum_callers_upd _ _ _ x Hn) as H end;
      cbn [c_pc own_rem] in H; lia.
  - (* LWaitDone *)
    destruct (nth_error (callers s) k) as [[p g sp]|] eqn:Hn; [|discriminate].
    destruct p; try discriminate. destruct (is_closed s d); [|discriminate]. injection Hs as <-.
    cbn [callers cycles with_callers].
    pose proof (sum_callers_upd _ _ _ (mkCaller Returned g sp) Hn) as H. cbn [c_pc own_rem] in H. lia.
  - (* LRunSeeStop *)
    destruct (cycles s) as [|[d st p] t] eqn:Hc; [discriminate|]. destruct p; try discriminate.
    destruct (is_closed s st); [|discriminate]. injection Hs as <-.
    cbn [callers cycles with_cycles sum_cycles cy_pc run_rem]. lia.
  - (* LDone *)
    destruct (cycles s) as [|[d st p] t] eqn:Hc; [discriminate|]. destruct p; try discriminate.
    injection Hs as <-.
    cbn [callers cycles with_cycles with_closed sum_cycles cy_pc run_rem]. lia.
Qed.

(* an environment label adds at most 4 (a new caller: its four own steps; a new Run: its two) *)
Theorem gmeasure_env : forall fx s l s', step fx s l = Some s' -> gmeasure s' <= gmeasure s + 4.
Proof.
  intros fx s l s' Hs. destruct (owed l) eqn:Ho.
  - pose proof (gmeasure_decreases _ _ _ _ Ho Hs). lia.
  - unfold gmeasure. destruct l; try discriminate Ho; cbn [step] in Hs.
    + injection Hs as <-. cbn [callers cycles with_callers]. rewrite sum_callers_app.
      cbn [sum_callers c_pc own_rem]. lia.
    + destruct (run_idle (cycles s)); [|discriminate]. injection Hs as <-.
      unfold started. cbn [callers cycles sum_cycles cy_pc run_rem]. lia.
    + destruct (cycles s) as [|[d st p] t] eqn:Hc; [discriminate|]. destruct p; try discriminate.
      injection Hs as <-. cbn [callers cycles with_cycles sum_cycles cy_pc run_rem]. lia.
Qed.

(* a run made of owed labels only is no longer than the measure of the state it starts from *)
Theorem owed_run_bounded : forall fx ls s s',
  Forall (fun l => owed l = true) ls -> run fx s ls = Some s' -> length ls + gmeasure s' <= gmeasure s.
Proof.
  intros fx ls. induction ls as [|l ls IH]; intros s s' Hall Hr.
  - injection Hr as <-. cbn [length]. lia.
  - inversion Hall as [|? ? Hl Hrest]; subst. cbn [run] in Hr.
    destruct (step fx s l) as [s1|] eqn:Hs; [|discriminate].
    specialize (IH _ _ Hrest Hr). pose proof (gmeasure_decreases _ _ _ _ Hl Hs). cbn [length]. lia.
Qed.

(* ... hence every such run from a reachable state can be extended to an owed-stuck state in at most
   gmeasure further owed steps: there is no infinite execution of owed labels *)
