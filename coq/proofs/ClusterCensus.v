(* C18, cluster leg: the goroutine census of the httpcluster model (ClusterGo.v) after a clean stop
   consists only of server goroutines the Runnable contract obliges to end, and is bounded by the
   servers currently started-and-not-stopped while running, for every schedule (any sequence of
   config maps over any ids, restarts of the same id, factory errors, servers that never become
   ready, servers that give up by themselves, slow stops, Stop()/cancel/close at any point). *)
From Coq Require Import List Arith NArith Bool Lia Permutation.
From GS Require Import LTS Cluster ClusterLTS ClusterPlan ClusterFix ClusterRun ClusterInv ClusterStep
     ClusterMain ClusterRound ClusterRoundB ClusterRoundC ClusterHist ClusterGo ClusterLive.
Import ListNotations.
Open Scope N_scope.

(* ---------------------------------------------------------------- server goroutines are distinct instances *)
Definition J (g : gstate) : Prop :=
  NoDup (g_run g) /\ forall i, In i (g_run g) -> i < s_next (g_s g).

Lemma J_step fx g l g' : J g -> gstep fx g l = Some g' -> J g'.
Proof.
  intros [Hnd Hlt] H. pose proof (gstep_base fx g l g' H) as Hb.
  destruct l as [bl| |i|i|i|i| |m h r]; unfold gstep in H.
  - destruct (gguard g bl); [|discriminate].
    destruct (step fx (g_s g) bl) as [s'|] eqn:Es; [|discriminate]. injection H as <-.
    pose proof (step_next fx _ _ _ Es) as Hn. unfold J.
    destruct bl; cbn [gafter g_s g_run]; try (rewrite Hn; split; assumption).
    apply step_factory_fresh in Es. subst i. rewrite Hn. split.
    + constructor; [|exact Hnd]. intros Hi. apply Hlt in Hi. lia.
    + intros j [<-|Hj]; [lia|]. apply Hlt in Hj. lia.
  - destruct (s_stopreq (g_s g)); [|discriminate].
    destruct (step fx (g_s g) LShut) as [s'|] eqn:Es; [|discriminate]. injection H as <-.
    pose proof (step_next fx _ _ _ Es) as Hn. unfold J. cbn [g_s g_run]. rewrite Hn. now split.
  - brk H. injection H as <-. now split.
  - brk H. injection H as <-. now split.
  - brk H. injection H as <-.
    split; cbn [g_s g_run]; [now apply nodup_removeN|]. intros j Hj. apply Hlt. now apply in_removeN in Hj.
  - brk H. injection H as <-.
    split; cbn [g_s g_run]; [now apply nodup_removeN|]. intros j Hj. apply Hlt. now apply in_removeN in Hj.
  - brk H. injection H as <-. now split.
  - brk H. injection H as <-. now split.
Qed.

Lemma J_reachable d g : greachable d g -> J g.
Proof.
  intros [ls H]. eapply (run_inv _ _ (gstep true) J); [apply J_step| |exact H].
  split; [constructor|intros i []].
Qed.

(* ---------------------------------------------------------------- counting *)
Lemma settled_spec g :
  settledb g = true ->
  forall i, In i (g_run g) ->
    (In i (lv (g_s g)) \/ In i (sp (g_s g))) /\ cxb g i = false /\ ~ In i (s_unrun (g_s g)).
Proof.
  unfold settledb. intros H i Hi. rewrite forallb_forall in H. specialize (H i Hi).
  apply andb_prop in H as [Ho Hu]. apply negb_true_iff in Ho, Hu. unfold obliged in Ho.
  apply orb_false_iff in Ho as [Ho Hc]. split; [|split; [exact Hc|]].
  - unfold lvb, spb in Ho. destruct (memN i (map fst (s_live (g_s g)))) eqn:E1.
    + left. now apply memN_in.
    + destruct (memN i (map fst (s_stopping (g_s g)))) eqn:E2; [|discriminate]. right. now apply memN_in.
  - intros Hin. apply memN_in in Hin. congruence.
Qed.

Lemma len_lv s : length (lv s) = length (s_live s).
Proof. apply map_length. Qed.
Lemma len_sp s : length (sp s) = length (s_stopping s).
Proof. apply map_length. Qed.

(* goroutines of instances that are still started-and-not-stopped: at most one each *)
Lemma kept_le g l :
  NoDup l -> (forall i, In i l -> In i (lv (g_s g)) \/ In i (sp (g_s g))) ->
  (length l <= started_not_stopped (g_s g))%nat.
Proof.
  intros Hnd Hin. unfold started_not_stopped. rewrite <- len_lv, <- len_sp, <- app_length.
  apply NoDup_incl_length; [exact Hnd|]. intros i Hi. apply in_or_app. now apply Hin.
Qed.

(* stop helpers serve distinct started-and-not-stopped instances *)
Lemma helpers_le s : acct s -> (helpers s <= started_not_stopped s)%nat.
Proof.
  intros (_ & _ & Hpc). unfold helpers, started_not_stopped, acct_pc in *.
  destruct (s_pc s); try lia. destruct Hpc as (_ & Hp & Hs & _).
  apply Permutation_length in Hp, Hs. rewrite app_length in Hp. rewrite len_lv in Hp. rewrite len_sp in Hs. lia.
Qed.

Lemma main_le s : (main_alive s <= 1)%nat.
Proof. unfold main_alive. destruct (s_pc s); lia. Qed.

(* ---------------------------------------------------------------- histories *)
Lemma grun_hist fx : forall ls g0 g,
  run (gstep fx) g0 ls = Some g -> forall i, In i (g_run g) ->
  In i (g_run g0) \/ exists k c b, In (GB (LFactory k c i b)) ls.
Proof.
  induction ls as [|l ls IH]; intros g0 g H i Hi.
  - injection H as <-. now left.
  - cbn [run] in H. destruct (gstep fx g0 l) as [g1|] eqn:E; [|discriminate].
    destruct (IH g1 g H i Hi) as [H1|(k & c & b & H1)]; [|right; exists k, c, b; now right].
    destruct l as [bl| |j|j|j|j| |m h r]; unfold gstep in E; brk E; injection E as <-; cbn [g_run] in H1;
      try (left; exact H1); try (left; now apply in_removeN in H1).
    destruct bl; cbn [gafter g_run] in H1; try (left; exact H1).
    destruct H1 as [<-|H1]; [right; exists k, c, b; now left|now left].
Qed.

Lemma in_erase l : forall ls, In (GB l) ls -> In l (erase ls).
Proof.
  induction ls as [|x ls IH]; intros H; [destruct H|]. destruct H as [->|H].
  - now left.
  - destruct x; cbn [erase]; try (right; now apply IH); now apply IH.
Qed.

Lemma erase_in l : forall ls, In l (erase ls) -> l <> LShut -> In (GB l) ls.
Proof.
  induction ls as [|x ls IH]; intros H Hn; [destruct H|].
  destruct x; cbn [erase] in H; try (right; now apply IH).
  - destruct H as [->|H]; [now left|right; now apply IH].
  - destruct H as [<-|H]; [congruence|right; now apply IH].
Qed.

(* ---------------------------------------------------------------- the theorems *)

(* (i) Run() has returned: the only goroutines left are server goroutines, every one of them belongs
   to an instance whose Stop() HAS RETURNED earlier in the history (so the Runnable contract obliges
   it to end, and its context is cancelled as well) - and once they have ended nothing is left *)
Theorem cluster_clean_hist d ls g :
  run (gstep true) (ginit d) ls = Some g -> s_pc (g_s g) = PRet ->
  census g = length (g_run g) /\
  forall i, In i (g_run g) -> In (GB (LStopRet i)) ls /\ obliged g i = true.
Proof.
  intros Hr Hpc. assert (Hre : greachable d g) by now exists ls.
  pose proof (greachable_acct d g Hre) as Hacct. pose proof Hacct as (_ & _ & Ha).
  unfold acct_pc in Ha. rewrite Hpc in Ha. destruct Ha as (Hl & Hp & _).
  split; [unfold census, main_alive, helpers; now rewrite Hpc|].
  intros i Hi. split.
  - destruct (grun_hist true ls (ginit d) g Hr i Hi) as [[]|(k & c & b & Hf)].
    apply in_erase in Hf. pose proof (grun_erase true ls (ginit d) g Hr) as Hb. cbn [ginit g_s] in Hb.
    destruct (hist_insts (erase ls) (init d) (g_s g) k c i b (acct_init d) Hb Hf) as [H|H].
    + apply erase_in; [exact H|discriminate].
    + exfalso. unfold insts_of in H. unfold lv in Hl. unfold sp in Hp.
      apply map_eq_nil in Hl, Hp. rewrite Hl, Hp in H. destruct H.
  - unfold obliged, lvb, spb. unfold lv in Hl. unfold sp in Hp. now rewrite Hl, Hp.
Qed.

Theorem cluster_census_clean d g :
  greachable d g -> s_pc (g_s g) = PRet -> settledb g = true -> census g = 0%nat.
Proof.
  intros [ls Hr] Hpc Hs. destruct (cluster_clean_hist d ls g Hr Hpc) as [Hc Ho]. rewrite Hc.
  destruct (g_run g) as [|i r] eqn:Er; [reflexivity|]. exfalso.
  destruct (Ho i (or_introl eq_refl)) as [_ Hob].
  unfold settledb in Hs. rewrite Er in Hs. cbn [forallb] in Hs. apply andb_prop in Hs as [Hs _].
  apply andb_prop in Hs as [Hs _]. rewrite Hob in Hs. discriminate.
Qed.

(* every owed server goroutine can take its next step, whatever the cluster is doing (this one is
   definitional: it restates the guards of LRunCall / GRunRet) *)
Theorem cluster_owed_can_end fx g i :
  In i (g_run g) -> obliged g i = true ->
  if memN i (s_unrun (g_s g))
  then exists g', gstep fx g (GB (LRunCall i)) = Some g' /\ g_run g' = g_run g
  else exists g', gstep fx g (GRunRet i) = Some g' /\ g_run g' = removeN i (g_run g).
Proof.
  intros Hi Ho. destruct (memN i (s_unrun (g_s g))) eqn:E.
  - unfold gstep, gguard, step. rewrite E. eexists. split; reflexivity.
  - unfold gstep. apply memN_in in Hi. rewrite Hi, E. cbn [negb andb].
    assert (Hg : negb (lvb (g_s g) i) || cxb g i = true).
    { unfold obliged in Ho. apply orb_prop in Ho as [Ho|Ho]; [apply andb_prop in Ho as [Ho _]; now rewrite Ho|].
      rewrite Ho. apply orb_true_r. }
    rewrite Hg. eexists. split; reflexivity.
Qed.

(* ... and NOT definitional: from any state in which every remaining server goroutine is owed, the
   environment alone (servers calling and leaving Run) reaches a state without server goroutines,
   the cluster's own state untouched but for the not-yet-run list *)
Definition env_label (l : glabel) : Prop :=
  match l with GB (LRunCall _) | GRunRet _ => True | _ => False end.

Lemma obliged_frame g g' i :
  s_live (g_s g') = s_live (g_s g) -> s_stopping (g_s g') = s_stopping (g_s g) ->
  s_cancel (g_s g') = s_cancel (g_s g) -> g_cx g' = g_cx g -> g_rc g' = g_rc g ->
  obliged g' i = obliged g i.
Proof. intros H1 H2 H3 H4 H5. unfold obliged, cxb, lvb, spb. now rewrite H1, H2, H3, H4, H5. Qed.

Lemma removeN_length i l : (length (removeN i l) <= length l)%nat.
Proof. induction l as [|x l IH]; [constructor|]. unfold removeN in *. cbn [filter]. destruct (negb (i =? x)); cbn [length]; lia. Qed.

Lemma cluster_drain fx : forall n g,
  (length (g_run g) <= n)%nat -> (forall i, In i (g_run g) -> obliged g i = true) ->
  exists ls g', run (gstep fx) g ls = Some g' /\ g_run g' = [] /\ Forall env_label ls /\
                s_pc (g_s g') = s_pc (g_s g) /\ s_live (g_s g') = s_live (g_s g) /\
                s_stopping (g_s g') = s_stopping (g_s g) /\ s_entries (g_s g') = s_entries (g_s g).
Proof.
  induction n as [|n IH]; intros g Hn Ho.
  - destruct (g_run g) eqn:E; [|cbn in Hn; lia]. exists [], g. repeat split; auto.
  - destruct (g_run g) as [|i r] eqn:Er.
    { exists [], g. repeat split; auto. }
    assert (Hi : In i (g_run g)) by (rewrite Er; now left).
    (* first let the goroutine call Run if it has not yet *)
    assert (H1 : exists l1 g1, run (gstep fx) g l1 = Some g1 /\ Forall env_label l1 /\
                 g_run g1 = g_run g /\ memN i (s_unrun (g_s g1)) = false /\
                 s_pc (g_s g1) = s_pc (g_s g) /\ s_live (g_s g1) = s_live (g_s g) /\
                 s_stopping (g_s g1) = s_stopping (g_s g) /\ s_entries (g_s g1) = s_entries (g_s g) /\
                 s_cancel (g_s g1) = s_cancel (g_s g) /\ g_cx g1 = g_cx g /\ g_rc g1 = g_rc g).
    { destruct (memN i (s_unrun (g_s g))) eqn:Eu.
      - eexists [GB (LRunCall i)], _. cbn [run]. unfold gstep, gguard, step. rewrite Eu. cbn [gafter g_s g_run g_cx g_rc].
        psimpl. split; [reflexivity|]. split; [repeat constructor|]. split; [reflexivity|].
        split; [|repeat split]. cbn [g_s]. psimpl.
        destruct (memN i (removeN i (s_unrun (g_s g)))) eqn:E2; [|reflexivity].
        apply memN_in in E2. now apply not_in_removeN in E2.
      - exists [], g. cbn [run]. repeat split; auto. }
    destruct H1 as (l1 & g1 & R1 & F1 & Er1 & Eu1 & P1 & L1 & S1 & En1 & C1 & X1 & Rc1).
    assert (Ho1 : forall j, obliged g1 j = obliged g j) by (intros j; now apply obliged_frame).
    (* then it leaves *)
    set (g2 := mkG (g_s g1) (removeN i (g_run g1)) (g_cx g1) (g_rc g1) (g_self g1) (g_ack g1)).
    assert (R2 : gstep fx g1 (GRunRet i) = Some g2).
    { unfold gstep. rewrite Er1. apply memN_in in Hi. rewrite Hi, Eu1. cbn [negb andb].
      assert (Hg : negb (lvb (g_s g1) i) || cxb g1 i = true).
      { pose proof (Ho i (or_introl eq_refl)) as Hob. rewrite <- Ho1 in Hob. unfold obliged in Hob.
        apply orb_prop in Hob as [Hob|Hob]; [apply andb_prop in Hob as [Hob _]; now rewrite Hob|].
        rewrite Hob. apply orb_true_r. }
      rewrite Hg. unfold g2. now rewrite Er1. }
    destruct (IH g2) as (l3 & g3 & R3 & E3 & F3 & P3 & L3 & S3 & En3).
    + unfold g2. cbn [g_run]. rewrite Er1, Er. cbn [removeN filter]. rewrite N.eqb_refl. cbn [negb].
      cbn [length] in Hn. pose proof (removeN_length i r). unfold removeN in H. lia.
    + intros j Hj. unfold g2 in Hj. cbn [g_run] in Hj. apply in_removeN in Hj. rewrite Er1, Er in Hj.
      rewrite <- (Ho j Hj), <- Ho1. now apply obliged_frame.
    + exists (l1 ++ GRunRet i :: l3), g3. rewrite run_app, R1. cbn [run]. rewrite R2.
      split; [exact R3|]. split; [exact E3|]. split; [apply Forall_app; split; [exact F1|constructor; [exact I|exact F3]]|].
      unfold g2 in *. cbn [g_s] in *. repeat split; congruence.
Qed.

Theorem cluster_returned_drains d ls g :
  run (gstep true) (ginit d) ls = Some g -> s_pc (g_s g) = PRet ->
  exists ls' g', run (gstep true) g ls' = Some g' /\ Forall env_label ls' /\ census g' = 0%nat.
Proof.
  intros Hr Hpc. destruct (cluster_clean_hist d ls g Hr Hpc) as [_ Ho].
  destruct (cluster_drain true (length (g_run g)) g (le_n _) (fun i Hi => proj2 (Ho i Hi)))
    as (ls' & g' & R & E & F & P & _).
  exists ls', g'. split; [exact R|]. split; [exact F|].
  unfold census, main_alive, helpers. rewrite P, Hpc, E. reflexivity.
Qed.

(* (ii) while running, at every settled point: one goroutine in Run, one per server started and not
   stopped, one helper per pending Stop() - nothing that depends on the history *)
Theorem cluster_census_bounded d g :
  greachable d g -> settledb g = true ->
  (census g <= 1 + started_not_stopped (g_s g) + helpers (g_s g))%nat /\
  (helpers (g_s g) <= started_not_stopped (g_s g))%nat.
Proof.
  intros Hre Hs. pose proof (greachable_acct d g Hre) as Ha. destruct (J_reachable d g Hre) as [Hnd _].
  split; [|now apply helpers_le].
  unfold census. pose proof (main_le (g_s g)).
  assert (length (g_run g) <= started_not_stopped (g_s g))%nat; [|lia].
  apply kept_le; [exact Hnd|]. intros i Hi. now destruct (settled_spec g Hs i Hi).
Qed.

(* ... in particular with the loop idle: at most 1 + GetServerCount() goroutines *)
Theorem cluster_census_idle d g :
  greachable d g -> settledb g = true -> s_pc (g_s g) = PIdle ->
  (census g <= 1 + count (s_entries (g_s g)))%nat.
Proof.
  intros Hre Hs Hpc. destruct (cluster_census_bounded d g Hre Hs) as [Hb _].
  destruct (greachable_base d g Hre) as [ls Hr].
  destruct (count_ok d ls _ Hr) as [Hsp Hc]; [now rewrite Hpc|].
  unfold helpers, started_not_stopped in *. rewrite Hpc, Hsp in Hb. rewrite Hc. cbn [length] in Hb. lia.
Qed.

Lemma filter_split {A} (f : A -> bool) l :
  length l = (length (filter f l) + length (filter (fun x => negb (f x)) l))%nat.
Proof. induction l as [|x l IH]; [reflexivity|]. cbn [filter]. destruct (f x); cbn [negb length]; lia. Qed.

(* (iii) every reachable state, settled or not: the excess over the bound consists of server
   goroutines whose Stop() has already returned (the Runnable contract obliges them to end) *)
Theorem cluster_census_all_states d g :
  greachable d g ->
  (census g <= 1 + 2 * started_not_stopped (g_s g) + length (zombies g))%nat.
Proof.
  intros Hre. pose proof (greachable_acct d g Hre) as Ha. destruct (J_reachable d g Hre) as [Hnd _].
  pose proof (helpers_le _ Ha). pose proof (main_le (g_s g)).
  unfold census, zombies.
  rewrite (filter_split (fun i => negb (lvb (g_s g) i) && negb (spb (g_s g) i)) (g_run g)).
  assert (length (filter (fun i => negb (negb (lvb (g_s g) i) && negb (spb (g_s g) i))) (g_run g))
          <= started_not_stopped (g_s g))%nat; [|lia].
  apply kept_le; [now apply NoDup_filter|]. intros i Hi. apply filter_In in Hi as [_ Hi].
  apply negb_true_iff, andb_false_iff in Hi. unfold lvb, spb in Hi.
  destruct Hi as [Hi|Hi]; apply negb_false_iff, memN_in in Hi; auto.
Qed.

(* the census observation is only ever accepted with the model's own numbers, in a settled state *)
Theorem gcensus_label_sound fx g m h r g' :
  gstep fx g (GCensus m h r) = Some g' ->
  g' = g /\ settledb g = true /\ (N.to_nat m + N.to_nat h + N.to_nat r = census g)%nat.
Proof.
  unfold gstep. intros H.
  match type of H with (if ?c then _ else _) = _ => destruct c eqn:E end; [|discriminate].
  injection H as <-. repeat (apply andb_prop in E as [E ?]).
  repeat match goal with X : N.eqb _ _ = true |- _ => apply N.eqb_eq in X end. subst.
  rewrite !Nat2N.id. unfold census. auto.
Qed.

(* ---------------------------------------------------------------- non-vacuity *)
(* three rounds on the same id: started, restarted with a never-ready replacement and a factory
   error next to it, restarted again, a slow stop, then cancel and shutdown *)
Definition cid : id := [97].
Definition census_schedule : list glabel :=
  [GB (LOffer [(cid, Some 0)]); GB (LRecv []); GSent; GB (LFactory cid 0 0 BReady); GB (LRunCall 0); GB LReady;
   GCensus 1 0 1;
   GB (LOffer [(cid, Some 1); ([98], Some 5)]); GB (LRecv [cid]); GSent; GB (LStopCall 0);
   GCensus 1 1 1;
   GB (LStopRet 0); GRunRet 0;
   GB (LFactoryErr [98] 5); GB (LFactory cid 1 1 BNever); GFailCancel 1; GB (LRunCall 1); GCtxSeen 1;
   GB (LStopCall 1); GB (LStopRet 1); GRunRet 1;
   GCensus 1 0 0;
   GB (LOffer [(cid, Some 2)]); GB (LRecv []); GSent; GB (LFactory cid 2 2 BReady); GB (LRunCall 2); GB LReady;
   GCensus 1 0 1;
   GB LCancel; GCtxSeen 2; GB LShut; GB (LStopCall 2); GB (LStopRet 2); GB LRunReturn; GRunRet 2;
   GCensus 0 0 0].

Lemma census_schedule_runs :
  exists g, run (gstep true) (ginit false) census_schedule = Some g /\
            s_pc (g_s g) = PRet /\ settledb g = true /\ census g = 0%nat /\ s_next (g_s g) = 3.
Proof. eexists. split; [vm_compute; reflexivity|]. repeat split. Qed.

(* the bound is attained: two servers, both being stopped by slow helpers (shutdown through the closed
   siphon: the servers' contexts stay live until their Stop() returns) *)
Definition census_schedule_peak : list glabel :=
  [GB (LOffer [(cid, Some 0); ([98], Some 0)]); GB (LRecv []);
   GB (LFactory cid 0 0 BReady); GB (LRunCall 0); GB LReady;
   GB (LFactory [98] 0 1 BReady); GB (LRunCall 1); GB LReady;
   GB LClose; GB LShut; GB (LStopCall 0); GB (LStopCall 1)].

Lemma census_schedule_peak_runs :
  exists g, run (gstep true) (ginit false) census_schedule_peak = Some g /\
            settledb g = true /\ census g = 5%nat /\ started_not_stopped (g_s g) = 2%nat /\
            helpers (g_s g) = 2%nat.
Proof. eexists. split; [vm_compute; reflexivity|]. repeat split. Qed.

(* the Stop() path: runCancel() fires before the shutdown round, every server is owed at once; and a
   server that gave up by itself stays in the collection and in GetServerCount *)
Definition census_schedule_stop : list glabel :=
  [GB (LOffer [(cid, Some 0); ([98], Some 0)]); GB (LRecv []); GSent;
   GB (LFactory cid 0 0 BReady); GB (LRunCall 0); GB LReady;
   GB (LFactory [98] 0 1 BReady); GB (LRunCall 1); GB LReady;
   GSelfExit 1; GCensus 1 0 1; GB (LCount 2);
   GB (LOffer [(cid, Some 0); ([98], Some 0)]); GB (LRecv [cid; [98]]); GSent; GB (LCount 2);
   GB LStopApi; GShutStop; GCtxSeen 0; GB (LStopCall 0); GB (LStopCall 1)].

Lemma census_schedule_stop_runs :
  exists g, run (gstep true) (ginit false) census_schedule_stop = Some g /\
            settledb g = false /\ g_rc g = true /\ obliged g 0 = true /\ g_self g = [1] /\ g_run g = [0] /\
            census g = 4%nat.
Proof. eexists. split; [vm_compute; reflexivity|]. repeat split. Qed.
