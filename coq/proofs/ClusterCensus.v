(* C18, cluster leg: the goroutine census of the httpcluster model (ClusterGo.v) is 0 after a clean
   stop and bounded by the servers currently started-and-not-stopped while running, for every
   schedule (any sequence of config maps over any ids, restarts of the same id, factory errors,
   servers that never become ready, slow stops, Stop()/cancel/close at any point). *)
From Coq Require Import List Arith NArith Bool Lia Permutation.
From GS Require Import LTS Cluster ClusterLTS ClusterPlan ClusterFix ClusterRun ClusterInv ClusterStep
     ClusterMain ClusterGo.
Import ListNotations.
Open Scope N_scope.

Definition greachable (d : bool) (g : gstate) : Prop := reachable (gstep true) (ginit d) g.

(* ---------------------------------------------------------------- projection onto the protocol model *)
Lemma grun_erase fx : forall ls g g',
  run (gstep fx) g ls = Some g' -> run (step fx) (g_s g) (erase ls) = Some (g_s g').
Proof.
  induction ls as [|l ls IH]; intros g g' H.
  - injection H as <-. reflexivity.
  - cbn [run] in H. destruct (gstep fx g l) as [g1|] eqn:E; [|discriminate].
    destruct l as [bl|i|m h r]; cbn [erase run]; unfold gstep in E.
    + destruct (step fx (g_s g) bl) as [s'|] eqn:Es; [|discriminate]. injection E as <-.
      exact (IH _ _ H).
    + destruct (memN i (g_run g) && negb (memN i (s_unrun (g_s g)))); [|discriminate].
      injection E as <-. exact (IH _ _ H).
    + match type of E with (if ?c then _ else _) = _ => destruct c end; [|discriminate].
      injection E as <-. exact (IH _ _ H).
Qed.

Lemma greachable_base d g : greachable d g -> exists ls, run (step true) (init d) ls = Some (g_s g).
Proof. intros [ls H]. exists (erase ls). exact (grun_erase true ls (ginit d) g H). Qed.

Lemma greachable_acct d g : greachable d g -> acct (g_s g).
Proof. intros H. destruct (greachable_base d g H) as [ls Hr]. exact (acct_reachable d ls _ Hr). Qed.

(* ---------------------------------------------------------------- the instance counter *)
Lemma next_finish s p : s_next (finish_round s p) = s_next s.
Proof. reflexivity. Qed.
Lemma next_next_start s p ts : s_next (next_start s p ts) = s_next s.
Proof. destruct ts; reflexivity. Qed.
Lemma next_after_stops s p ts tp : s_next (after_stops s p ts tp) = s_next s.
Proof. unfold after_stops. destruct ts; [reflexivity|]. destruct (s_delay s); reflexivity. Qed.
Lemma next_begin s p : s_next (begin_round s p) = s_next s.
Proof.
  unfold begin_round. destruct (pending_actions p) as [ts tp].
  destruct (stop_insts p tp); [|reflexivity].
  destruct tp; [apply next_next_start|apply next_after_stops].
Qed.
Lemma next_move i s : s_next (move_to_stopping i s) = s_next s.
Proof. unfold move_to_stopping. destruct (find_inst i (s_live s)); reflexivity. Qed.

Ltac brk H :=
  repeat match type of H with
         | (match ?x with _ => _ end) = Some _ => destruct x eqn:?; try discriminate H
         | (if ?x then _ else _) = Some _ => destruct x eqn:?; try discriminate H
         end.

Lemma step_next fx s l s' :
  step fx s l = Some s' ->
  s_next s' = match l with LFactory _ _ _ _ => N.succ (s_next s) | _ => s_next s end.
Proof.
  intros H. destruct l; unfold step in H; cbv zeta in H; brk H; injection H as <-;
    rewrite ?next_begin, ?next_after_stops, ?next_next_start, ?next_move, ?next_finish; reflexivity.
Qed.

Lemma step_factory_fresh fx s k c i b s' : step fx s (LFactory k c i b) = Some s' -> i = s_next s.
Proof.
  intros H. unfold step in H. brk H.
  repeat match goal with E : _ && _ = true |- _ => apply andb_prop in E as [E ?] end.
  now apply N.eqb_eq.
Qed.

(* ---------------------------------------------------------------- server goroutines are distinct instances *)
Definition J (g : gstate) : Prop :=
  NoDup (g_run g) /\ forall i, In i (g_run g) -> i < s_next (g_s g).

Lemma J_step fx g l g' : J g -> gstep fx g l = Some g' -> J g'.
Proof.
  intros [Hnd Hlt] H. destruct l as [bl|i|m h r]; unfold gstep in H.
  - destruct (step fx (g_s g) bl) as [s'|] eqn:Es; [|discriminate]. injection H as <-.
    pose proof (step_next fx _ _ _ Es) as Hn. unfold J. cbn [g_s g_run].
    destruct bl; try (rewrite Hn; split; assumption).
    apply step_factory_fresh in Es. subst i. rewrite Hn. split.
    + constructor; [|exact Hnd]. intros Hi. apply Hlt in Hi. lia.
    + intros j [<-|Hj]; [lia|]. apply Hlt in Hj. lia.
  - destruct (memN i (g_run g) && negb (memN i (s_unrun (g_s g)))); [|discriminate]. injection H as <-.
    split; cbn [g_s g_run]; [now apply nodup_removeN|]. intros j Hj. apply Hlt. now apply in_removeN in Hj.
  - match type of H with (if ?c then _ else _) = _ => destruct c end; [|discriminate].
    injection H as <-. now split.
Qed.

Lemma J_reachable d g : greachable d g -> J g.
Proof.
  intros [ls H]. eapply (run_inv _ _ (gstep true) J); [apply J_step| |exact H].
  split; [constructor|intros i []].
Qed.

(* ---------------------------------------------------------------- counting *)
Lemma settled_spec g :
  settledb g = true ->
  forall i, In i (g_run g) ->
    (In i (lv (g_s g)) \/ In i (sp (g_s g))) /\ s_cancel (g_s g) = false /\ ~ In i (s_unrun (g_s g)).
Proof.
  unfold settledb. intros H i Hi. rewrite forallb_forall in H. specialize (H i Hi).
  apply andb_prop in H as [Ho Hu]. apply negb_true_iff in Ho, Hu. unfold obliged in Ho.
  apply orb_false_iff in Ho as [Ho Hc]. split; [|split; [exact Hc|]].
  - unfold lvb, spb in Ho. destruct (memN i (map fst (s_live (g_s g)))) eqn:E1.
    + left. now apply memN_in.
    + destruct (memN i (map fst (s_stopping (g_s g)))) eqn:E2; [|discriminate]. right. now apply memN_in.
  - intros Hin. apply memN_in in Hin. congruence.
Qed.

Lemma len_lv s : length (lv s) = length (s_live s).
Proof. apply map_length. Qed.
Lemma len_sp s : length (sp s) = length (s_stopping s).
Proof. apply map_length. Qed.

(* goroutines of instances that are still started-and-not-stopped: at most one each *)
Lemma kept_le g l :
  NoDup l -> (forall i, In i l -> In i (lv (g_s g)) \/ In i (sp (g_s g))) ->
  (length l <= started_not_stopped (g_s g))%nat.
Proof.
  intros Hnd Hin. unfold started_not_stopped. rewrite <- len_lv, <- len_sp, <- app_length.
  apply NoDup_incl_length; [exact Hnd|]. intros i Hi. apply in_or_app. now apply Hin.
Qed.

(* stop helpers serve distinct started-and-not-stopped instances *)
Lemma helpers_le s : acct s -> (helpers s <= started_not_stopped s)%nat.
Proof.
  intros (_ & _ & Hpc). unfold helpers, started_not_stopped, acct_pc in *.
  destruct (s_pc s); try lia. destruct Hpc as (_ & Hp & Hs & _).
  apply Permutation_length in Hp, Hs. rewrite app_length in Hp. rewrite len_lv in Hp. rewrite len_sp in Hs. lia.
Qed.

Lemma main_le s : (main_alive s <= 1)%nat.
Proof. unfold main_alive. destruct (s_pc s); lia. Qed.

(* ---------------------------------------------------------------- the theorems *)

(* (i) Run() has returned and no server goroutine is still owed by the environment: nothing is left *)
Theorem cluster_census_clean d g :
  greachable d g -> s_pc (g_s g) = PRet -> settledb g = true -> census g = 0%nat.
Proof.
  intros Hre Hpc Hs. pose proof (greachable_acct d g Hre) as (_ & _ & Ha).
  unfold acct_pc in Ha. rewrite Hpc in Ha. destruct Ha as (Hl & Hp & _).
  unfold census, main_alive, helpers. rewrite Hpc. cbn [plus].
  destruct (g_run g) as [|i r] eqn:Er; [reflexivity|]. exfalso.
  destruct (settled_spec g Hs i) as ([Hi|Hi] & _); [rewrite Er; now left| |].
  - rewrite Hl in Hi. destruct Hi.
  - rewrite Hp in Hi. destruct Hi.
Qed.

(* (ii) while running, at every settled point: one goroutine in Run, one per server started and not
   stopped, one helper per pending Stop() - nothing that depends on the history *)
Theorem cluster_census_bounded d g :
  greachable d g -> settledb g = true ->
  (census g <= 1 + started_not_stopped (g_s g) + helpers (g_s g))%nat /\
  (helpers (g_s g) <= started_not_stopped (g_s g))%nat.
Proof.
  intros Hre Hs. pose proof (greachable_acct d g Hre) as Ha. destruct (J_reachable d g Hre) as [Hnd _].
  split; [|now apply helpers_le].
  unfold census. pose proof (main_le (g_s g)).
  assert (length (g_run g) <= started_not_stopped (g_s g))%nat; [|lia].
  apply kept_le; [exact Hnd|]. intros i Hi. now destruct (settled_spec g Hs i Hi).
Qed.

(* ... in particular with the loop idle: at most 1 + GetServerCount() goroutines *)
Theorem cluster_census_idle d g :
  greachable d g -> settledb g = true -> s_pc (g_s g) = PIdle ->
  (census g <= 1 + count (s_entries (g_s g)))%nat.
Proof.
  intros Hre Hs Hpc. destruct (cluster_census_bounded d g Hre Hs) as [Hb _].
  destruct (greachable_base d g Hre) as [ls Hr].
  destruct (count_ok d ls _ Hr) as [Hsp Hc]; [now rewrite Hpc|].
  unfold helpers, started_not_stopped in *. rewrite Hpc, Hsp in Hb. rewrite Hc. cbn [length] in Hb. lia.
Qed.

Lemma filter_split {A} (f : A -> bool) l :
  length l = (length (filter f l) + length (filter (fun x => negb (f x)) l))%nat.
Proof. induction l as [|x l IH]; [reflexivity|]. cbn [filter]. destruct (f x); cbn [negb length]; lia. Qed.

(* (iii) every reachable state, settled or not: the excess over the bound consists of server
   goroutines whose Stop() has already returned (the Runnable contract obliges them to end) *)
Theorem cluster_census_all_states d g :
  greachable d g ->
  (census g <= 1 + 2 * started_not_stopped (g_s g) + length (zombies g))%nat.
Proof.
  intros Hre. pose proof (greachable_acct d g Hre) as Ha. destruct (J_reachable d g Hre) as [Hnd _].
  pose proof (helpers_le _ Ha). pose proof (main_le (g_s g)).
  unfold census, zombies.
  rewrite (filter_split (fun i => negb (lvb (g_s g) i) && negb (spb (g_s g) i)) (g_run g)).
  assert (length (filter (fun i => negb (negb (lvb (g_s g) i) && negb (spb (g_s g) i))) (g_run g))
          <= started_not_stopped (g_s g))%nat; [|lia].
  apply kept_le; [now apply NoDup_filter|]. intros i Hi. apply filter_In in Hi as [_ Hi].
  apply negb_true_iff, andb_false_iff in Hi. unfold lvb, spb in Hi.
  destruct Hi as [Hi|Hi]; apply negb_false_iff, memN_in in Hi; auto.
Qed.

(* every server goroutine that is owed has an enabled step of its own: it is never blocked by the cluster *)
Theorem cluster_owed_can_end fx g i :
  In i (g_run g) ->
  if memN i (s_unrun (g_s g))
  then exists s', step fx (g_s g) (LRunCall i) = Some s'
  else exists g', gstep fx g (GRunRet i) = Some g' /\ g_run g' = removeN i (g_run g).
Proof.
  intros Hi. destruct (memN i (s_unrun (g_s g))) eqn:E.
  - unfold step. rewrite E. eexists. reflexivity.
  - unfold gstep. apply memN_in in Hi. rewrite Hi, E. eexists. split; reflexivity.
Qed.

(* the census observation is only ever accepted with the model's own numbers, in a settled state *)
Theorem gcensus_label_sound fx g m h r g' :
  gstep fx g (GCensus m h r) = Some g' ->
  g' = g /\ settledb g = true /\ (N.to_nat m + N.to_nat h + N.to_nat r = census g)%nat.
Proof.
  unfold gstep. intros H.
  match type of H with (if ?c then _ else _) = _ => destruct c eqn:E end; [|discriminate].
  injection H as <-. repeat (apply andb_prop in E as [E ?]).
  repeat match goal with X : N.eqb _ _ = true |- _ => apply N.eqb_eq in X end. subst.
  rewrite !Nat2N.id. unfold census. auto.
Qed.

(* ---------------------------------------------------------------- non-vacuity *)
(* three rounds on the same id: started, restarted with a never-ready replacement and a factory
   error next to it, restarted again, a slow stop, then cancel and shutdown *)
Definition cid : id := [97].
Definition census_schedule : list glabel :=
  [GB (LOffer [(cid, Some 0)]); GB (LRecv []); GB (LFactory cid 0 0 BReady); GB (LRunCall 0); GB LReady;
   GCensus 1 0 1;
   GB (LOffer [(cid, Some 1); ([98], Some 5)]); GB (LRecv [cid]); GB (LStopCall 0);
   GCensus 1 1 1;
   GB (LStopRet 0); GRunRet 0;
   GB (LFactoryErr [98] 5); GB (LFactory cid 1 1 BNever); GB (LStopCall 1); GB (LStopRet 1);
   GB (LRunCall 1); GRunRet 1;
   GCensus 1 0 0;
   GB (LOffer [(cid, Some 2)]); GB (LRecv []); GB (LFactory cid 2 2 BReady); GB (LRunCall 2); GB LReady;
   GCensus 1 0 1;
   GB LCancel; GB LShut; GB (LStopCall 2); GB (LStopRet 2); GB LRunReturn; GRunRet 2;
   GCensus 0 0 0].

Lemma census_schedule_runs :
  exists g, run (gstep true) (ginit false) census_schedule = Some g /\
            s_pc (g_s g) = PRet /\ settledb g = true /\ census g = 0%nat /\ s_next (g_s g) = 3.
Proof. eexists. split; [vm_compute; reflexivity|]. repeat split. Qed.

(* the bound is attained: two servers, both being stopped by slow helpers *)
Definition census_schedule_peak : list glabel :=
  [GB (LOffer [(cid, Some 0); ([98], Some 0)]); GB (LRecv []);
   GB (LFactory cid 0 0 BReady); GB (LRunCall 0); GB LReady;
   GB (LFactory [98] 0 1 BReady); GB (LRunCall 1); GB LReady;
   GB LStopApi; GB LShut; GB (LStopCall 0); GB (LStopCall 1)].

Lemma census_schedule_peak_runs :
  exists g, run (gstep true) (ginit false) census_schedule_peak = Some g /\
            settledb g = true /\ census g = 5%nat /\ started_not_stopped (g_s g) = 2%nat /\
            helpers (g_s g) = 2%nat.
Proof. eexists. split; [vm_compute; reflexivity|]. repeat split. Qed.
