(* C06 (a subscriber learns new entries): monitor [c06_sub_entry].  A subscriber that had taken a
   snapshot and was not cancelled when a Stateable runnable j was started is sent the map with j's
   entry by startRunnable (unless its channel was full); since a channel is seen closed only after
   it has been drained, the snapshot was taken before. *)
From Coq Require Import List NArith Bool Arith Lia.
From GS Require Import LTS Supervisor SupAccept SupProps SupInv SupStop SupTrig SupGate SupOnce SupReload
                       SupState SupSubs.
Import ListNotations.

(* ---------------------------------------------------------------- list facts *)

Lemma split_at_snoc f e : forall t,
  split_at f (t ++ [e]) =
  match split_at f t with
  | Some (p, q) => Some (p, q ++ [e])
  | None => if f e then Some (t, []) else None
  end.
Proof.
  induction t as [|a t IH]; cbn [app split_at].
  - destruct (f e); reflexivity.
  - destruct (f a); [reflexivity|]. rewrite IH.
    destruct (split_at f t) as [[p q]|]; [reflexivity|]. destruct (f e); reflexivity.
Qed.

Lemma existsb_snoc {A} (f : A -> bool) l x : existsb f (l ++ [x]) = existsb f l || f x.
Proof. rewrite existsb_app. cbn [existsb]. now rewrite orb_false_r. Qed.

Lemma count_if_snoc {A} (f : A -> bool) l x :
  count_if f (l ++ [x]) = count_if f l + (if f x then 1 else 0).
Proof. unfold count_if. rewrite filter_app, app_length. cbn [filter]. destruct (f x); reflexivity. Qed.

Lemma existsb_rev' {A} (f : A -> bool) l : existsb f (rev l) = existsb f l.
Proof.
  induction l as [|a l IH]; [reflexivity|]. cbn [rev existsb].
  rewrite existsb_snoc, IH. apply orb_comm.
Qed.

(* ---------------------------------------------------------------- what is known about one subscriber *)

Record SubK (c0 : nat) (s : state) : Prop := {
  k_buf : forall b, find_sub c0 (subs s) = Some b -> sub_started b = false -> sub_buf b = [];
  k_reg : forall b, find_sub c0 (subs s) = Some b -> sub_started b = true ->
                    sub_registered b = true \/ sub_cancelled b = true;
  k_can : forall b, find_sub c0 (subs s) = Some b -> sub_cancelled b = true ->
                    existsb (is_cancel c0) (hist s) = true;
  k_rcv : existsb (is_recv c0) (hist s) = true ->
          exists b, find_sub c0 (subs s) = Some b /\ sub_started b = true;
}.

Definition hist_grows (P : event -> Prop) (s s' : state) : Prop :=
  hist s' = hist s \/ exists e, hist s' = e :: hist s /\ P e.

Lemma SubK_frame c0 s s' :
  find_sub c0 (subs s') = find_sub c0 (subs s) ->
  hist_grows (fun e => is_recv c0 e = false) s s' -> SubK c0 s -> SubK c0 s'.
Proof.
  intros Es Eh [K1 K2 K3 K4]. constructor; rewrite ?Es; auto.
  - intros b Hb Hc. specialize (K3 b Hb Hc). destruct Eh as [->|(e & -> & _)]; [exact K3|].
    cbn [existsb]. rewrite K3. apply orb_true_r.
  - intros H. apply K4. destruct Eh as [Eh|(e & Eh & He)]; rewrite Eh in H; [exact H|].
    cbn [existsb] in H. now rewrite He in H.
Qed.

(* the subscriber's record is replaced by one that respects the four facts *)
Lemma SubK_set c0 s s' b b' :
  find_sub c0 (subs s) = Some b -> find_sub c0 (subs s') = Some b' ->
  (hist s' = hist s \/ exists e, hist s' = e :: hist s) ->
  (sub_started b' = false -> sub_buf b' = []) ->
  (sub_started b' = true -> sub_registered b' = true \/ sub_cancelled b' = true) ->
  (sub_cancelled b' = true -> sub_cancelled b = true \/ hist s' = ESubCancel c0 :: hist s) ->
  (existsb (is_recv c0) (hist s') = true -> sub_started b' = true) ->
  SubK c0 s -> SubK c0 s'.
Proof.
  intros Hb Hb' Eh A B C D [K1 K2 K3 K4]. constructor; rewrite Hb'.
  - intros x Hx. injection Hx as <-. exact A.
  - intros x Hx. injection Hx as <-. exact B.
  - intros x Hx Hc. injection Hx as <-. destruct (C Hc) as [X|X].
    + specialize (K3 b Hb X). destruct Eh as [->|(e & ->)]; [exact K3|].
      cbn [existsb]. rewrite K3. apply orb_true_r.
    + rewrite X. cbn [existsb is_cancel]. now rewrite Nat.eqb_refl.
  - intros H. exists b'. split; [reflexivity|exact (D H)].
Qed.

Lemma bc1_flags m b :
  sub_id (bc1 m b) = sub_id b /\ sub_cancelled (bc1 m b) = sub_cancelled b /\
  sub_closed (bc1 m b) = sub_closed b /\
  sub_registered (bc1 m b) = sub_registered b /\
  (sub_registered b = false -> bc1 m b = b) /\
  (sub_started b = true -> sub_started (bc1 m b) = true) /\
  (sub_buf (bc1 m b) = sub_buf b \/ sub_buf (bc1 m b) = sub_buf b ++ [m]).
Proof.
  unfold bc1. destruct (sub_registered b) eqn:R; cbn [andb].
  - destruct (_ && _); cbn; repeat split; auto; try discriminate.
  - repeat split; auto; try discriminate.
Qed.

Lemma SubK_started c0 s b : SubK c0 s -> find_sub c0 (subs s) = Some b -> sub_buf b <> [] -> sub_started b = true.
Proof.
  intros K Hb Hn. destruct (sub_started b) eqn:E; [reflexivity|]. exfalso. apply Hn. exact (k_buf _ _ K b Hb E).
Qed.

Lemma recv_grows c0 s s' :
  hist_grows (fun e => is_recv c0 e = false) s s' ->
  existsb (is_recv c0) (hist s') = true -> existsb (is_recv c0) (hist s) = true.
Proof.
  intros [Eh|(e & Eh & He)] H; rewrite Eh in H; [exact H|]. cbn [existsb] in H. now rewrite He in H.
Qed.

(* a broadcast (a monitor's or startRunnable's) *)
Lemma SubK_bcast c0 s s' m :
  subs s' = broadcast m (subs s) -> hist_grows (fun e => is_recv c0 e = false) s s' ->
  SubK c0 s -> SubK c0 s'.
Proof.
  intros Es Eh K.
  assert (Hf : find_sub c0 (subs s') = option_map (bc1 m) (find_sub c0 (subs s)))
    by (rewrite Es; apply find_sub_broadcast).
  destruct (find_sub c0 (subs s)) as [b|] eqn:Hb; cbn [option_map] in Hf.
  - destruct (bc1_flags m b) as (_ & Fc & _ & Fr & Fn & Fs & Fb).
    apply (SubK_set c0 s s' b (bc1 m b) Hb Hf).
    + destruct Eh as [->|(e & -> & _)]; [now left|right; now eexists].
    + intros Hs. destruct (sub_registered b) eqn:R.
      * revert Hs. unfold bc1. rewrite R. cbn [andb]. destruct (_ && _); cbn; [discriminate|].
        intros Hs. exact (k_buf _ _ K b Hb Hs).
      * rewrite (Fn eq_refl) in *. exact (k_buf _ _ K b Hb Hs).
    + intros Hs. rewrite Fr, Fc. destruct (sub_registered b) eqn:R; [now left|].
      rewrite (Fn eq_refl) in Hs. destruct (k_reg _ _ K b Hb Hs) as [X|X]; [congruence|now right].
    + intros Hc. left. now rewrite <- Fc.
    + intros H. apply Fs. destruct (k_rcv _ _ K (recv_grows _ _ _ Eh H)) as (b2 & Hb2 & S2).
      rewrite Hb in Hb2. now injection Hb2 as <-.
    + exact K.
  - apply (SubK_frame c0 s); [now rewrite Hf, Hb|exact Eh|exact K].
Qed.

Ltac set_same :=
  simp_st; match goal with |- find_sub ?c (set_sub ?b' ?l) = _ =>
             exact (find_sub_set_same b' l _ ltac:(eassumption)) end.

Ltac hg_other := first [left; reflexivity | right; eexists; split; [reflexivity|reflexivity]].

Lemma SubK_step c c0 s l s' : SubK c0 s -> step c s l = Some s' -> SubK c0 s'.
Proof.
  intros K H. unfold step in H.
  destruct l; cbn [step0] in H; unfold start_shutdown, store_state, restore_finals in H;
    step_cases H; inversion H; subst; clear H.
  all: try (apply (SubK_frame c0 s); [reflexivity|hg_other|exact K]; fail).
  all: try (eapply (SubK_bcast c0 s); [reflexivity|hg_other|exact K]; fail).
  - (* Subscribe c1 *)
    pose proof (find_sub_snoc c0 {| sub_id := c1; sub_buf := []; sub_started := false; sub_registered := false;
                                    sub_cancelled := false; sub_closed := false |} (subs s)) as Hf.
    destruct (find_sub c0 (subs s)) as [b|] eqn:Hb.
    + apply (SubK_frame c0 s); [simp_st; now rewrite Hf, Hb|hg_other|exact K].
    + cbn [sub_id] in Hf. destruct (Nat.eqb c0 c1) eqn:E.
      * constructor; simp_st; rewrite Hf.
        -- intros b Hx _. now injection Hx as <-.
        -- intros b Hx X. injection Hx as <-. discriminate X.
        -- intros b Hx X. injection Hx as <-. discriminate X.
        -- intros X. cbn [existsb is_recv orb] in X.
           destruct (k_rcv _ _ K X) as (b2 & Hb2 & _). congruence.
      * apply (SubK_frame c0 s); [simp_st; now rewrite Hf, Hb|hg_other|exact K].
  - (* SubDo c1 *)
    destruct (Nat.eq_dec c1 c0) as [->|N].
    + eapply (SubK_set c0 s _ s0); [eassumption|set_same
                                   |left; reflexivity| | | | |exact K]; cbn; auto; try discriminate.
    + apply (SubK_frame c0 s); [simp_st; now apply find_sub_set_other|hg_other|exact K].
  - (* SubRecv c1 m *)
    destruct (Nat.eq_dec c1 c0) as [->|N].
    + assert (St : sub_started s0 = true)
        by (eapply SubK_started; [exact K|eassumption|]; match goal with E : sub_buf s0 = _ |- _ => rewrite E end; discriminate).
      eapply (SubK_set c0 s _ s0); [eassumption|set_same
                                   |right; eexists; reflexivity| | | | |exact K]; cbn [sub_started sub_buf sub_registered sub_cancelled].
      * rewrite St. discriminate.
      * intros _. eapply (k_reg _ _ K); eassumption.
      * intros X. now left.
      * intros _. exact St.
    + apply (SubK_frame c0 s); [simp_st; now apply find_sub_set_other| |exact K].
      right. eexists. split; [reflexivity|]. cbn [is_recv]. now apply Nat.eqb_neq.
  - (* SubCancel c1 *)
    destruct (Nat.eq_dec c1 c0) as [->|N].
    + eapply (SubK_set c0 s _ s0); [eassumption|set_same
                                   |right; eexists; reflexivity| | | | |exact K]; cbn [sub_started sub_buf sub_registered sub_cancelled].
      * intros X. eapply (k_buf _ _ K); eassumption.
      * intros _. now right.
      * intros _. right. reflexivity.
      * intros X. cbn [hist with_hist existsb is_recv orb] in X. simp_st. cbn [existsb is_recv orb] in X.
        destruct (k_rcv _ _ K X) as (b2 & Hb2 & S2).
        match goal with E : find_sub c0 (subs s) = Some s0 |- _ => rewrite E in Hb2 end. now injection Hb2 as <-.
    + apply (SubK_frame c0 s); [simp_st; now apply find_sub_set_other|hg_other|exact K].
  - (* SubUnreg c1 *)
    destruct (Nat.eq_dec c1 c0) as [->|N].
    + repeat match goal with E : _ && _ = true |- _ => apply andb_true_iff in E as [? ?] end.
      eapply (SubK_set c0 s _ s0); [eassumption|set_same
                                   |left; reflexivity| | | | |exact K]; cbn; auto; try discriminate.
    + apply (SubK_frame c0 s); [simp_st; now apply find_sub_set_other|hg_other|exact K].
Qed.

Lemma SubK_init c c0 : SubK c0 (init c).
Proof. constructor; cbn; try discriminate. Qed.

(* a closed channel belongs to a subscription that was started *)
Definition InvCl (s : state) : Prop :=
  forall b, In b (subs s) -> sub_closed b = true \/ sub_registered b = true -> sub_started b = true.

Lemma In_bc m l b :
  In b (broadcast m l) ->
  exists b0, In b0 l /\ sub_closed b = sub_closed b0 /\ sub_registered b = sub_registered b0 /\
             (sub_started b0 = true -> sub_started b = true).
Proof.
  change (broadcast m l) with (map (bc1 m) l). intros H. apply in_map_iff in H as (b0 & <- & Hin).
  exists b0. destruct (bc1_flags m b0) as (_ & _ & Fcl & Fr & _ & Fs & _). auto.
Qed.

Lemma InvCl_step c s l s' : InvCl s -> step c s l = Some s' -> InvCl s'.
Proof.
  intros IS H. unfold step in H.
  destruct l; cbn [step0] in H; unfold start_shutdown, store_state, restore_finals in H;
    step_cases H; inversion H; subst; clear H; unfold InvCl in *; simp_st.
  all: try exact IS.
  all: try (intros b Hb Hc; apply In_bc in Hb as (b0 & Hin & E1 & E2 & E3); apply E3, (IS b0 Hin);
            rewrite <- E1, <- E2; exact Hc).
  all: try (intros b Hb Hc; apply in_app_or in Hb as [Hb|[<-|[]]]; [now apply IS|destruct Hc as [Hc|Hc]; discriminate Hc]).
  all: try (intros b Hb Hc; apply In_set_sub in Hb as [->|Hb]; [|now apply IS]; cbn in *;
            first [reflexivity
                  | match goal with E : find_sub _ _ = Some ?b1 |- _ => apply (IS b1 (find_sub_In _ _ _ E) Hc) end]).
Qed.

Lemma InvCl_reachable c s : reachable_sup c s -> InvCl s.
Proof. apply sup_inv; [intros b []|apply InvCl_step]. Qed.

(* ---------------------------------------------------------------- the entry of a newly started runnable *)

Lemma split_at_parts f : forall t p q, split_at f t = Some (p, q) -> exists x, t = p ++ x :: q /\ f x = true.
Proof.
  induction t as [|a t IH]; intros p q H; cbn [split_at] in H; [discriminate|].
  destruct (f a) eqn:Fa.
  - injection H as <- <-. now exists a.
  - destruct (split_at f t) as [[p0 q0]|]; [|discriminate]. injection H as <- <-.
    destruct (IH _ _ eq_refl) as (x & -> & Fx). now exists x.
Qed.

Lemma split_at_none f : forall t, existsb f t = false -> split_at f t = None.
Proof.
  induction t as [|a t IH]; intros H; cbn [split_at existsb] in *; [reflexivity|].
  apply orb_false_iff in H as [-> H]. now rewrite (IH H).
Qed.

Lemma is_call_mem j h : existsb (is_call j) h = mem_ev (ERunCall j) h.
Proof.
  unfold mem_ev. induction h as [|e h IH]; [reflexivity|]. cbn [existsb]. rewrite IH. f_equal.
  destruct e; try reflexivity. cbn. apply Nat.eqb_sym.
Qed.

(* a snapshot with j's entry is in c0's channel or was taken by it, or the channel may have overflowed *)
Definition Good (c0 j : nat) (b : subscriber) (h : list event) : Prop :=
  existsb (has_entry j) (sub_buf b) = true \/ existsb (is_recv_entry c0 j) h = true \/
  10 <= count_if (is_recv c0) h + length (sub_buf b).

(* c0's context ended before j's Run was invoked *)
Definition Bad (c0 j : nat) (b : subscriber) (h : list event) : Prop :=
  match split_at (is_call j) (rev h) with
  | Some (p, _) => existsb (is_cancel c0) p = true
  | None => sub_cancelled b = true
  end.

Definition Nprop (c0 j : nat) (s : state) : Prop :=
  forall b, find_sub c0 (subs s) = Some b -> sub_started b = true -> stored (rn_at s j) ->
            Good c0 j b (hist s) \/ Bad c0 j b (hist s).

Lemma count_if_cons {A} (f : A -> bool) x l : count_if f (x :: l) = (if f x then 1 else 0) + count_if f l.
Proof. unfold count_if. cbn [filter]. destruct (f x); reflexivity. Qed.

Lemma Good_ext c0 j b b' h h' ext :
  sub_buf b' = sub_buf b ++ ext ->
  (h' = h \/ exists e, h' = e :: h /\ is_recv c0 e = false) ->
  Good c0 j b h -> Good c0 j b' h'.
Proof.
  intros Hb Hh [G|[G|G]]; unfold Good; rewrite Hb, existsb_app, app_length.
  - left. now rewrite G.
  - right; left. destruct Hh as [->|(e & -> & _)]; [exact G|]. cbn [existsb]. rewrite G. apply orb_true_r.
  - right; right. destruct Hh as [->|(e & -> & He)]; [lia|]. rewrite count_if_cons, He. lia.
Qed.

Lemma Bad_ext c0 j b b' h h' :
  (sub_cancelled b = true -> sub_cancelled b' = true) ->
  (h' = h \/ exists e, h' = e :: h /\ (is_call j e = false \/ split_at (is_call j) (rev h) <> None)) ->
  Bad c0 j b h -> Bad c0 j b' h'.
Proof.
  intros Hc Hh. unfold Bad. destruct Hh as [->|(e & -> & He)].
  - destruct (split_at (is_call j) (rev h)) as [[p q]|]; auto.
  - cbn [rev]. rewrite split_at_snoc. destruct (split_at (is_call j) (rev h)) as [[p q]|]; [auto|].
    destruct He as [->|X]; [auto|congruence].
Qed.

(* nothing happens to c0's channel beyond an extension, no new store for j, the new event is harmless *)
Lemma N_ext c0 j s s' :
  (forall b', find_sub c0 (subs s') = Some b' -> sub_started b' = true ->
              exists b ext, find_sub c0 (subs s) = Some b /\ sub_started b = true /\
                            sub_buf b' = sub_buf b ++ ext /\ (sub_cancelled b = true -> sub_cancelled b' = true)) ->
  (stored (rn_at s' j) -> stored (rn_at s j)) ->
  (hist s' = hist s \/
   exists e, hist s' = e :: hist s /\ is_recv c0 e = false /\
             (is_call j e = false \/ split_at (is_call j) (rev (hist s)) <> None)) ->
  Nprop c0 j s -> Nprop c0 j s'.
Proof.
  intros Hb Hs Hh N b' Hf' Hst' Hsto. destruct (Hb b' Hf' Hst') as (b & ext & Hf & Hst & Hbuf & Hc).
  destruct (N b Hf Hst (Hs Hsto)) as [G|B].
  - left. eapply Good_ext; [exact Hbuf| |exact G].
    destruct Hh as [->|(e & -> & He & _)]; [now left|right; now exists e].
  - right. eapply Bad_ext; [exact Hc| |exact B].
    destruct Hh as [->|(e & -> & _ & He)]; [now left|right; now exists e].
Qed.

Lemma same_sub_N c0 s s' :
  find_sub c0 (subs s') = find_sub c0 (subs s) ->
  forall b', find_sub c0 (subs s') = Some b' -> sub_started b' = true ->
             exists b ext, find_sub c0 (subs s) = Some b /\ sub_started b = true /\
                           sub_buf b' = sub_buf b ++ ext /\ (sub_cancelled b = true -> sub_cancelled b' = true).
Proof. intros E b' H Hs. exists b', []. rewrite <- E, app_nil_r. auto. Qed.

(* startRunnable of Stateable j: store and broadcast *)
Lemma N_store c c0 j s s' m :
  reachable_sup c s -> rn_at s j = RnLaunched ->
  hist s' = hist s -> subs s' = broadcast m (subs s) ->
  has_entry j m = true -> existsb (fun o => match o with Some _ => true | None => false end) m = true ->
  SubK c0 s -> Nprop c0 j s'.
Proof.
  intros Hre Ern Eh Es Hm Hex K b' Hf' Hst' _.
  rewrite Es, find_sub_broadcast in Hf'. destruct (find_sub c0 (subs s)) as [b|] eqn:Hb; [|discriminate Hf'].
  cbn [option_map] in Hf'. injection Hf' as <-. rewrite Eh.
  destruct (sub_registered b) eqn:Hreg.
  - left. unfold Good, bc1. rewrite Hreg, Hex. cbn [andb]. rewrite andb_true_r.
    destruct (Nat.ltb (length (sub_buf b)) 10) eqn:L; cbn [sub_buf].
    + left. now rewrite existsb_snoc, Hm, orb_true_r.
    + right; right. apply Nat.ltb_ge in L. lia.
  - right. destruct (bc1_flags m b) as (_ & Fc & _ & _ & Fn & _ & _). rewrite (Fn Hreg) in *.
    unfold Bad. rewrite split_at_none.
    + destruct (k_reg _ _ K b Hb Hst') as [X|X]; [congruence|exact X].
    + rewrite existsb_rev', is_call_mem. destruct (mem_ev (ERunCall j) (hist s)) eqn:M; [|reflexivity].
      pose proof (ig_called _ _ (InvGate_reachable _ _ Hre) j M) as R. rewrite Ern in R. contradiction.
Qed.

(* the subscriber takes the oldest snapshot from its channel *)
Lemma N_recv c0 j s s' b b' m q' :
  find_sub c0 (subs s) = Some b -> sub_buf b = m :: q' ->
  find_sub c0 (subs s') = Some b' -> sub_buf b' = q' -> sub_started b' = sub_started b ->
  sub_cancelled b' = sub_cancelled b -> rn s' = rn s ->
  hist s' = ESubRecv c0 m :: hist s -> Nprop c0 j s -> Nprop c0 j s'.
Proof.
  intros Hb Hbuf Hb' Hbuf' Est Ec Er Eh N x Hf Hst Hsto. rewrite Hb' in Hf. injection Hf as <-.
  rewrite Est in Hst. unfold rn_at in Hsto. rewrite Er in Hsto.
  destruct (N b Hb Hst Hsto) as [[G|[G|G]]|B].
  - left. unfold Good. rewrite Hbuf in G. cbn [existsb] in G. apply orb_true_iff in G as [G|G].
    + right; left. rewrite Eh. cbn [existsb is_recv_entry]. now rewrite Nat.eqb_refl, G.
    + left. now rewrite Hbuf'.
  - left. right; left. rewrite Eh. cbn [existsb]. rewrite G. apply orb_true_r.
  - left. right; right. rewrite Eh, count_if_cons, Hbuf'. cbn [is_recv]. rewrite Nat.eqb_refl.
    rewrite Hbuf in G. cbn [length] in G. lia.
  - right. rewrite Eh. eapply (Bad_ext c0 j b b'); [now rewrite Ec| |exact B]. right. eexists. split; [reflexivity|now left].
Qed.

Lemma count_if_rev {A} (f : A -> bool) l : count_if f (rev l) = count_if f l.
Proof.
  induction l as [|a l IH]; [reflexivity|]. cbn [rev]. rewrite count_if_snoc, count_if_cons, IH. lia.
Qed.

(* j's Run is invoked *)
Lemma N_call c0 j s s' :
  find_sub c0 (subs s') = find_sub c0 (subs s) -> hist s' = ERunCall j :: hist s ->
  (stored (rn_at s' j) -> stored (rn_at s j)) -> SubK c0 s -> Nprop c0 j s -> Nprop c0 j s'.
Proof.
  intros Ef Eh Hs K N b Hf Hst Hsto. rewrite Ef in Hf. destruct (N b Hf Hst (Hs Hsto)) as [G|B].
  - left. rewrite Eh. eapply Good_ext; [symmetry; apply app_nil_r| |exact G]. right. now eexists.
  - right. unfold Bad in *. rewrite Eh. cbn [rev]. rewrite split_at_snoc.
    destruct (split_at (is_call j) (rev (hist s))) as [[p q]|]; [exact B|].
    cbn [is_call]. rewrite Nat.eqb_refl, existsb_rev'. exact (k_can _ _ K b Hf B).
Qed.

Lemma bcast_sub_N c c0 s s' m :
  reachable_sup c s -> subs s' = broadcast m (subs s) ->
  forall b', find_sub c0 (subs s') = Some b' -> sub_started b' = true ->
             exists b ext, find_sub c0 (subs s) = Some b /\ sub_started b = true /\
                           sub_buf b' = sub_buf b ++ ext /\ (sub_cancelled b = true -> sub_cancelled b' = true).
Proof.
  intros Hre Es b' H Hst. rewrite Es, find_sub_broadcast in H.
  destruct (find_sub c0 (subs s)) as [b|] eqn:Hb; [|discriminate H]. cbn [option_map] in H. injection H as <-.
  destruct (bc1_flags m b) as (_ & Fc & _ & Fr & Fn & _ & Fb).
  assert (Sb : sub_started b = true).
  { destruct (sub_registered b) eqn:R.
    - apply (InvCl_reachable _ _ Hre b (find_sub_In _ _ _ Hb)). now right.
    - now rewrite (Fn eq_refl) in Hst. }
  destruct Fb as [X|X].
  - exists b, []. rewrite X, app_nil_r, Fc. auto.
  - exists b, [m]. rewrite Fc. auto.
Qed.

Ltac stored_tac i j :=
  unfold rn_at; simp_st; intros X; destruct (Nat.eq_dec i j) as [->|?];
  [ first [ match goal with E : rn_at _ _ = _ |- _ => unfold rn_at in E; rewrite E; exact Logic.I end
          | match type of X with stored (get RnDone (upd ?l ?i0 ?p) _) =>
              destruct (get_upd_cases RnDone l i0 i0 p) as [E|E]; rewrite E in X; [contradiction|exact X] end ]
  | now rewrite get_upd_other in X ].

Ltac hn_other :=
  first [ left; reflexivity
        | right; eexists; split; [reflexivity|split; [reflexivity|left; reflexivity]] ].

Lemma stored_upd_other (s : state) i p j : i <> j -> stored (get RnDone (upd (rn s) i p) j) -> stored (rn_at s j).
Proof. intros N H. unfold rn_at. now rewrite get_upd_other in H. Qed.

Lemma N_step c c0 j s l s' :
  stateable (spec c j) = true -> reachable_sup c s -> SubK c0 s -> Nprop c0 j s ->
  step c s l = Some s' -> Nprop c0 j s'.
Proof.
  intros Hst Hre K N H. pose proof (InvMon_reachable _ _ Hre) as IM.
  destruct (im_len _ _ IM) as (_ & _ & Lsmap & _). unfold step in H.
  destruct l; cbn [step0] in H; unfold start_shutdown, store_state, restore_finals in H;
    step_cases H; inversion H; subst; clear H.
  all: try (apply (N_ext c0 j s); [apply same_sub_N; reflexivity|exact (fun H => H)|hn_other|exact N]; fail).
  (* the runnable goroutines move: no new store for j *)
  all: try (apply (N_ext c0 j s); [apply same_sub_N; reflexivity|stored_tac i j|hn_other|exact N]; fail).
  - (* startRunnable of a Stateable runnable: store and broadcast *)
    apply andb_true_iff in Heqb as [Li Sti]. apply Nat.ltb_lt in Li.
    destruct (Nat.eq_dec i j) as [->|Nij].
    + eapply (N_store c c0 j s); [exact Hre|assumption|reflexivity|reflexivity| | |exact K].
      * unfold has_entry. change (nth j (upd (smap s) j (Some (cur_at s j))) None)
          with (get None (upd (smap s) j (Some (cur_at s j))) j).
        rewrite get_upd_same; [reflexivity|lia].
      * apply (some_entry _ j). rewrite get_upd_same; [discriminate|lia].
    + apply (N_ext c0 j s); [eapply bcast_sub_N; [exact Hre|reflexivity]|stored_tac i j|left; reflexivity|exact N].
  - (* RunCall of a runnable that is not Stateable *)
    apply andb_true_iff in Heqb as [_ Sti]. apply negb_true_iff in Sti.
    destruct (Nat.eq_dec i j) as [->|Nij]; [congruence|].
    apply (N_ext c0 j s); [apply same_sub_N; reflexivity|stored_tac i j| |exact N].
    right. eexists. split; [reflexivity|]. split; [reflexivity|]. left. cbn [is_call]. now apply Nat.eqb_neq.
  - (* RunCall after the store *)
    destruct (Nat.eq_dec i j) as [->|Nij].
    + apply (N_call c0 j s); [reflexivity|reflexivity| |exact K|exact N].
      intros _. rewrite Heqr. exact Logic.I.
    + apply (N_ext c0 j s); [apply same_sub_N; reflexivity|stored_tac i j| |exact N].
      right. eexists. split; [reflexivity|]. split; [reflexivity|]. left. cbn [is_call]. now apply Nat.eqb_neq.
  - (* a monitor's broadcast *)
    apply (N_ext c0 j s); [eapply bcast_sub_N; [exact Hre|reflexivity]|exact (fun H => H)|left; reflexivity|exact N].
  - (* Subscribe c1 *)
    apply (N_ext c0 j s); [|exact (fun H => H)|hn_other|exact N].
    intros b' Hf' Hst'. simp_st. rewrite find_sub_snoc in Hf'.
    destruct (find_sub c0 (subs s)) as [b|] eqn:Hb.
    + injection Hf' as <-. exists b, []. rewrite app_nil_r. auto.
    + cbn [sub_id] in Hf'. destruct (Nat.eqb c0 c1); [|discriminate Hf'].
      injection Hf' as <-. discriminate Hst'.
  - (* SubDo c1 *)
    destruct (Nat.eq_dec c1 c0) as [->|Nc].
    + intros b' Hf' _ Hsto.
      assert (X : find_sub c0 (subs (set_smap s (smap s)
                   (set_sub {| sub_id := c0; sub_buf := [smap s]; sub_started := true; sub_registered := true;
                               sub_cancelled := sub_cancelled s0; sub_closed := false |} (subs s)))) = Some _) by set_same.
      rewrite X in Hf'. injection Hf' as <-. left. left. cbn [sub_buf existsb]. apply orb_true_iff. left.
      unfold rn_at in Hsto. simp_st.
      pose proof (im_entry _ _ IM j (stateable_lt _ _ Hst) Hst Hsto) as Hent.
      unfold has_entry. unfold smap_at, get in Hent. destruct (nth j (smap s) None); [reflexivity|congruence].
    + apply (N_ext c0 j s); [apply same_sub_N; simp_st; now apply find_sub_set_other|exact (fun H => H)|hn_other|exact N].
  - (* SubRecv c1 m *)
    destruct (Nat.eq_dec c1 c0) as [->|Nc].
    + match goal with E : smap_eqb _ _ = true |- _ => apply smap_eqb_eq in E; subst end.
      eapply (N_recv c0 j s); [eassumption|eassumption|set_same|reflexivity|reflexivity|reflexivity|reflexivity|reflexivity|exact N].
    + apply (N_ext c0 j s); [apply same_sub_N; simp_st; now apply find_sub_set_other|exact (fun H => H)| |exact N].
      right. eexists. split; [reflexivity|]. split; [cbn [is_recv]; now apply Nat.eqb_neq|left; reflexivity].
  - (* SubCancel c1 *)
    destruct (Nat.eq_dec c1 c0) as [->|Nc].
    + apply (N_ext c0 j s); [|exact (fun H => H)|hn_other|exact N].
      intros b' Hb' Hst'. exists s0, [].
      assert (X : find_sub c0 (subs (with_hist (set_smap s (smap s)
                   (set_sub {| sub_id := c0; sub_buf := sub_buf s0; sub_started := sub_started s0;
                               sub_registered := sub_registered s0; sub_cancelled := true;
                               sub_closed := sub_closed s0 |} (subs s))) (ESubCancel c0))) = Some _) by set_same.
      rewrite X in Hb'. injection Hb' as <-. cbn in *. rewrite app_nil_r. auto.
    + apply (N_ext c0 j s); [apply same_sub_N; simp_st; now apply find_sub_set_other|exact (fun H => H)|hn_other|exact N].
  - (* SubUnreg c1 *)
    destruct (Nat.eq_dec c1 c0) as [->|Nc].
    + repeat match goal with E : _ && _ = true |- _ => apply andb_true_iff in E as [? ?] end.
      apply (N_ext c0 j s); [|exact (fun H => H)|hn_other|exact N].
      intros b' Hb' Hst'. exists s0, [].
      assert (X : find_sub c0 (subs (set_smap s (smap s)
                   (set_sub {| sub_id := c0; sub_buf := sub_buf s0; sub_started := true;
                               sub_registered := false; sub_cancelled := true;
                               sub_closed := true |} (subs s)))) = Some _) by set_same.
      rewrite X in Hb'. injection Hb' as <-. cbn in *. rewrite app_nil_r. auto.
    + apply (N_ext c0 j s); [apply same_sub_N; simp_st; now apply find_sub_set_other|exact (fun H => H)|hn_other|exact N].
Qed.

Lemma Entry_reachable c c0 j s :
  stateable (spec c j) = true -> reachable_sup c s -> SubK c0 s /\ Nprop c0 j s.
Proof.
  intros Hst Hre.
  assert (G : forall s, reachable_sup c s -> reachable_sup c s /\ SubK c0 s /\ Nprop c0 j s).
  { apply sup_inv.
    - split; [exists []; reflexivity|]. split; [apply SubK_init|]. intros b H. discriminate H.
    - intros s0 l s1 (Hr & K & N) Hs. split; [eapply reachable_step; eassumption|].
      split; [eapply SubK_step; eassumption|eapply N_step; eassumption]. }
  apply G. exact Hre.
Qed.

(* C06: if subscriber c was not cancelled before Stateable runnable j's Run was invoked, then by the
   time c sees its channel closed it has taken a snapshot with j's entry - unless it took ten or more
   snapshots (its channel may have been full when startRunnable broadcast) *)
Theorem sup_c06_sub_entry c ls s :
  run (step c) (init c) ls = Some s -> c06_sub_entry c (obs_trace obs ls) = true.
Proof.
  intros H. eapply all_check_reachable; [|exact H].
  intros s0 l s1 e Hre Hs Ho. destruct e; try reflexivity. cbn [chk_sub_entry].
  destruct l; try discriminate Ho. injection Ho as ->.
  unfold step in Hs. cbn [step0] in Hs.
  destruct (find_sub c0 (subs s0)) as [b|] eqn:Hb; [|discriminate Hs].
  destruct (sub_buf b) eqn:Hbuf; [|discriminate Hs].
  destruct (sub_closed b) eqn:Hcl; [|discriminate Hs].
  apply forallb_forall. intros j _. destruct (stateable (spec c j)) eqn:Hst; [|reflexivity]. cbn [negb orb].
  destruct (Entry_reachable c c0 j s0 Hst Hre) as [_ N].
  unfold sub_entry_ok. destruct (split_at (is_call j) (rev (hist s0))) as [[p q]|] eqn:E0; [|reflexivity].
  assert (Hsto : stored (rn_at s0 j)).
  { apply ran_stored, (ig_called _ _ (InvGate_reachable _ _ Hre)).
    rewrite <- is_call_mem, <- existsb_rev'.
    destruct (split_at_parts _ _ _ _ E0) as (x & -> & Fx). rewrite existsb_app. cbn [existsb]. rewrite Fx.
    apply orb_true_iff. right. reflexivity. }
  assert (Hsta : sub_started b = true)
    by (apply (InvCl_reachable _ _ Hre b (find_sub_In _ _ _ Hb)); now left).
  destruct (N b Hb Hsta Hsto) as [[G|[G|G]]|B].
  - rewrite Hbuf in G. discriminate G.
  - rewrite existsb_rev', G. apply orb_true_iff. left. apply orb_true_r.
  - rewrite Hbuf in G. cbn [length] in G. apply orb_true_iff. right. apply Nat.leb_le.
    rewrite count_if_rev. lia.
  - unfold Bad in B. rewrite E0 in B. now rewrite B.
Qed.
