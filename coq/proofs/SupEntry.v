(* C06 (a subscriber learns new entries): monitor [c06_sub_entry].  A subscriber that had taken a
   snapshot and was not cancelled when a Stateable runnable j was started is sent the map with j's
   entry by startRunnable (unless its channel was full); since a channel is seen closed only after
   it has been drained, the snapshot was taken before. *)
From Coq Require Import List NArith Bool Arith Lia.
From GS Require Import LTS Supervisor SupAccept SupProps SupInv SupStop SupTrig SupGate SupOnce SupReload
                       SupState SupSubs.
Import ListNotations.

(* ---------------------------------------------------------------- list facts *)

Lemma split_at_snoc f e : forall t,
  split_at f (t ++ [e]) =
  match split_at f t with
  | Some (p, q) => Some (p, q ++ [e])
  | None => if f e then Some (t, []) else None
  end.
Proof.
  induction t as [|a t IH]; cbn [app split_at].
  - destruct (f e); reflexivity.
  - destruct (f a); [reflexivity|]. rewrite IH.
    destruct (split_at f t) as [[p q]|]; [reflexivity|]. destruct (f e); reflexivity.
Qed.

Lemma existsb_snoc {A} (f : A -> bool) l x : existsb f (l ++ [x]) = existsb f l || f x.
Proof. rewrite existsb_app. cbn [existsb]. now rewrite orb_false_r. Qed.

Lemma count_if_snoc {A} (f : A -> bool) l x :
  count_if f (l ++ [x]) = count_if f l + (if f x then 1 else 0).
Proof. unfold count_if. rewrite filter_app, app_length. cbn [filter]. destruct (f x); reflexivity. Qed.

Lemma existsb_rev' {A} (f : A -> bool) l : existsb f (rev l) = existsb f l.
Proof.
  induction l as [|a l IH]; [reflexivity|]. cbn [rev existsb].
  rewrite existsb_snoc, IH. apply orb_comm.
Qed.

(* ---------------------------------------------------------------- what is known about one subscriber *)

Record SubK (c0 : nat) (s : state) : Prop := {
  k_buf : forall b, find_sub c0 (subs s) = Some b -> sub_started b = false -> sub_buf b = [];
  k_reg : forall b, find_sub c0 (subs s) = Some b -> sub_started b = true ->
                    sub_registered b = true \/ sub_cancelled b = true;
  k_can : forall b, find_sub c0 (subs s) = Some b -> sub_cancelled b = true ->
                    existsb (is_cancel c0) (hist s) = true;
  k_rcv : existsb (is_recv c0) (hist s) = true ->
          exists b, find_sub c0 (subs s) = Some b /\ sub_started b = true;
}.

Definition hist_grows (P : event -> Prop) (s s' : state) : Prop :=
  hist s' = hist s \/ exists e, hist s' = e :: hist s /\ P e.

Lemma SubK_frame c0 s s' :
  find_sub c0 (subs s') = find_sub c0 (subs s) ->
  hist_grows (fun e => is_recv c0 e = false) s s' -> SubK c0 s -> SubK c0 s'.
Proof.
  intros Es Eh [K1 K2 K3 K4]. constructor; rewrite ?Es; auto.
  - intros b Hb Hc. specialize (K3 b Hb Hc). destruct Eh as [->|(e & -> & _)]; [exact K3|].
    cbn [existsb]. rewrite K3. apply orb_true_r.
  - intros H. apply K4. destruct Eh as [Eh|(e & Eh & He)]; rewrite Eh in H; [exact H|].
    cbn [existsb] in H. now rewrite He in H.
Qed.

(* the subscriber's record is replaced by one that respects the four facts *)
Lemma SubK_set c0 s s' b b' :
  find_sub c0 (subs s) = Some b -> find_sub c0 (subs s') = Some b' ->
  (hist s' = hist s \/ exists e, hist s' = e :: hist s) ->
  (sub_started b' = false -> sub_buf b' = []) ->
  (sub_started b' = true -> sub_registered b' = true \/ sub_cancelled b' = true) ->
  (sub_cancelled b' = true -> sub_cancelled b = true \/ hist s' = ESubCancel c0 :: hist s) ->
  (existsb (is_recv c0) (hist s') = true -> sub_started b' = true) ->
  SubK c0 s -> SubK c0 s'.
Proof.
  intros Hb Hb' Eh A B C D [K1 K2 K3 K4]. constructor; rewrite Hb'.
  - intros x Hx. injection Hx as <-. exact A.
  - intros x Hx. injection Hx as <-. exact B.
  - intros x Hx Hc. injection Hx as <-. destruct (C Hc) as [X|X].
    + specialize (K3 b Hb X). destruct Eh as [->|(e & ->)]; [exact K3|].
      cbn [existsb]. rewrite K3. apply orb_true_r.
    + rewrite X. cbn [existsb is_cancel]. now rewrite Nat.eqb_refl.
  - intros H. exists b'. split; [reflexivity|exact (D H)].
Qed.

Lemma bc1_flags m b :
  sub_id (bc1 m b) = sub_id b /\ sub_cancelled (bc1 m b) = sub_cancelled b /\
  sub_closed (bc1 m b) = sub_closed b /\
  sub_registered (bc1 m b) = sub_registered b /\
  (sub_registered b = false -> bc1 m b = b) /\
  (sub_started b = true -> sub_started (bc1 m b) = true) /\
  (sub_buf (bc1 m b) = sub_buf b \/ sub_buf (bc1 m b) = sub_buf b ++ [m]).
Proof.
  unfold bc1. destruct (sub_registered b) eqn:R; cbn [andb].
  - destruct (_ && _); cbn; repeat split; auto; try discriminate.
  - repeat split; auto; try discriminate.
Qed.

Lemma SubK_started c0 s b : SubK c0 s -> find_sub c0 (subs s) = Some b -> sub_buf b <> [] -> sub_started b = true.
Proof.
  intros K Hb Hn. destruct (sub_started b) eqn:E; [reflexivity|]. exfalso. apply Hn. exact (k_buf _ _ K b Hb E).
Qed.

Lemma recv_grows c0 s s' :
  hist_grows (fun e => is_recv c0 e = false) s s' ->
  existsb (is_recv c0) (hist s') = true -> existsb (is_recv c0) (hist s) = true.
Proof.
  intros [Eh|(e & Eh & He)] H; rewrite Eh in H; [exact H|]. cbn [existsb] in H. now rewrite He in H.
Qed.

(* a broadcast (a monitor's or startRunnable's) *)
Lemma SubK_bcast c0 s s' m :
  subs s' = broadcast m (subs s) -> hist_grows (fun e => is_recv c0 e = false) s s' ->
  SubK c0 s -> SubK c0 s'.
Proof.
  intros Es Eh K.
  assert (Hf : find_sub c0 (subs s') = option_map (bc1 m) (find_sub c0 (subs s)))
    by (rewrite Es; apply find_sub_broadcast).
  destruct (find_sub c0 (subs s)) as [b|] eqn:Hb; cbn [option_map] in Hf.
  - destruct (bc1_flags m b) as (_ & Fc & _ & Fr & Fn & Fs & Fb).
    apply (SubK_set c0 s s' b (bc1 m b) Hb Hf).
    + destruct Eh as [->|(e & -> & _)]; [now left|right; now eexists].
    + intros Hs. destruct (sub_registered b) eqn:R.
      * revert Hs. unfold bc1. rewrite R. cbn [andb]. destruct (_ && _); cbn; [discriminate|].
        intros Hs. exact (k_buf _ _ K b Hb Hs).
      * rewrite (Fn eq_refl) in *. exact (k_buf _ _ K b Hb Hs).
    + intros Hs. rewrite Fr, Fc. destruct (sub_registered b) eqn:R; [now left|].
      rewrite (Fn eq_refl) in Hs. destruct (k_reg _ _ K b Hb Hs) as [X|X]; [congruence|now right].
    + intros Hc. left. now rewrite <- Fc.
    + intros H. apply Fs. destruct (k_rcv _ _ K (recv_grows _ _ _ Eh H)) as (b2 & Hb2 & S2).
      rewrite Hb in Hb2. now injection Hb2 as <-.
    + exact K.
  - apply (SubK_frame c0 s); [now rewrite Hf, Hb|exact Eh|exact K].
Qed.

Ltac set_same :=
  simp_st; match goal with |- find_sub ?c (set_sub ?b' ?l) = _ =>
             exact (find_sub_set_same b' l _ ltac:(eassumption)) end.

Ltac hg_other := first [left; reflexivity | right; eexists; split; [reflexivity|reflexivity]].

Lemma SubK_step c c0 s l s' : SubK c0 s -> step c s l = Some s' -> SubK c0 s'.
Proof.
  intros K H. unfold step in H.
  destruct l; cbn [step0] in H; unfold start_shutdown, store_state, restore_finals in H;
    step_cases H; inversion H; subst; clear H.
  all: try (apply (SubK_frame c0 s); [reflexivity|hg_other|exact K]; fail).
  all: try (eapply (SubK_bcast c0 s); [reflexivity|hg_other|exact K]; fail).
  - (* Subscribe c1 *)
    pose proof (find_sub_snoc c0 {| sub_id := c1; sub_buf := []; sub_started := false; sub_registered := false;
                                    sub_cancelled := false; sub_closed := false |} (subs s)) as Hf.
    destruct (find_sub c0 (subs s)) as [b|] eqn:Hb.
    + apply (SubK_frame c0 s); [simp_st; now rewrite Hf, Hb|hg_other|exact K].
    + cbn [sub_id] in Hf. destruct (Nat.eqb c0 c1) eqn:E.
      * constructor; simp_st; rewrite Hf.
        -- intros b Hx _. now injection Hx as <-.
        -- intros b Hx X. injection Hx as <-. discriminate X.
        -- intros b Hx X. injection Hx as <-. discriminate X.
        -- intros X. cbn [existsb is_recv orb] in X.
           destruct (k_rcv _ _ K X) as (b2 & Hb2 & _). congruence.
      * apply (SubK_frame c0 s); [simp_st; now rewrite Hf, Hb|hg_other|exact K].
  - (* SubDo c1 *)
    destruct (Nat.eq_dec c1 c0) as [->|N].
    + eapply (SubK_set c0 s _ s0); [eassumption|set_same
                                   |left; reflexivity| | | | |exact K]; cbn; auto; try discriminate.
    + apply (SubK_frame c0 s); [simp_st; now apply find_sub_set_other|hg_other|exact K].
  - (* SubRecv c1 m *)
    destruct (Nat.eq_dec c1 c0) as [->|N].
    + assert (St : sub_started s0 = true)
        by (eapply SubK_started; [exact K|eassumption|]; match goal with E : sub_buf s0 = _ |- _ => rewrite E end; discriminate).
      eapply (SubK_set c0 s _ s0); [eassumption|set_same
                                   |right; eexists; reflexivity| | | | |exact K]; cbn [sub_started sub_buf sub_registered sub_cancelled].
      * rewrite St. discriminate.
      * intros _. eapply (k_reg _ _ K); eassumption.
      * intros X. now left.
      * intros _. exact St.
    + apply (SubK_frame c0 s); [simp_st; now apply find_sub_set_other| |exact K].
      right. eexists. split; [reflexivity|]. cbn [is_recv]. now apply Nat.eqb_neq.
  - (* SubCancel c1 *)
    destruct (Nat.eq_dec c1 c0) as [->|N].
    + eapply (SubK_set c0 s _ s0); [eassumption|set_same
                                   |right; eexists; reflexivity| | | | |exact K]; cbn [sub_started sub_buf sub_registered sub_cancelled].
      * intros X. eapply (k_buf _ _ K); eassumption.
      * intros _. now right.
      * intros _. right. reflexivity.
      * intros X. cbn [hist with_hist existsb is_recv orb] in X. simp_st. cbn [existsb is_recv orb] in X.
        destruct (k_rcv _ _ K X) as (b2 & Hb2 & S2).
        match goal with E : find_sub c0 (subs s) = Some s0 |- _ => rewrite E in Hb2 end. now injection Hb2 as <-.
    + apply (SubK_frame c0 s); [simp_st; now apply find_sub_set_other|hg_other|exact K].
  - (* SubUnreg c1 *)
    destruct (Nat.eq_dec c1 c0) as [->|N].
    + repeat match goal with E : _ && _ = true |- _ => apply andb_true_iff in E as [? ?] end.
      eapply (SubK_set c0 s _ s0); [eassumption|set_same
                                   |left; reflexivity| | | | |exact K]; cbn; auto; try discriminate.
    + apply (SubK_frame c0 s); [simp_st; now apply find_sub_set_other|hg_other|exact K].
Qed.

Lemma SubK_init c c0 : SubK c0 (init c).
Proof. constructor; cbn; try discriminate. Qed.

(* ---------------------------------------------------------------- the entry of a newly started runnable *)

Definition Mprop (c0 j : nat) (s : state) : Prop :=
  forall p q b, split_at (is_call j) (rev (hist s)) = Some (p, q) ->
    existsb (is_recv c0) p = true -> existsb (is_cancel c0) p = false ->
    find_sub c0 (subs s) = Some b ->
    existsb (has_entry j) (sub_buf b) = true \/ existsb (is_recv_entry c0 j) q = true \/
    10 <= count_if (is_recv c0) q + length (sub_buf b).

Lemma split_at_parts f : forall t p q, split_at f t = Some (p, q) -> exists x, t = p ++ x :: q.
Proof.
  induction t as [|a t IH]; intros p q H; cbn [split_at] in H; [discriminate|].
  destruct (f a).
  - injection H as <- <-. now exists a.
  - destruct (split_at f t) as [[p0 q0]|]; [|discriminate]. injection H as <- <-.
    destruct (IH _ _ eq_refl) as (x & ->). now exists x.
Qed.

Lemma split_prefix_in f g t p q :
  split_at f t = Some (p, q) -> existsb g p = true -> existsb g t = true.
Proof.
  intros H Hp. destruct (split_at_parts _ _ _ _ H) as (x & ->). rewrite existsb_app, Hp. reflexivity.
Qed.

(* the subscriber's channel keeps or extends its content; the new event is not one of its receives *)
Lemma M_ext c0 j s s' :
  (forall b', find_sub c0 (subs s') = Some b' ->
              exists b ext, find_sub c0 (subs s) = Some b /\ sub_buf b' = sub_buf b ++ ext) ->
  (hist s' = hist s \/
   exists e, hist s' = e :: hist s /\ is_recv c0 e = false /\
             (is_call j e = false \/ split_at (is_call j) (rev (hist s)) <> None)) ->
  Mprop c0 j s -> Mprop c0 j s'.
Proof.
  intros Hb Eh M p q b' Hsp Hr Hc Hf. destruct (Hb b' Hf) as (b & ext & Hfb & Hbuf). rewrite Hbuf.
  rewrite existsb_app, app_length.
  destruct Eh as [Eh|(e & Eh & He & Hcall)]; rewrite Eh in Hsp.
  - destruct (M p q b Hsp Hr Hc Hfb) as [X|[X|X]]; [left; now rewrite X|right; now left|right; right; lia].
  - cbn [rev] in Hsp. rewrite split_at_snoc in Hsp.
    destruct (split_at (is_call j) (rev (hist s))) as [[p0 q0]|] eqn:E0.
    + injection Hsp as <- <-. rewrite existsb_snoc, count_if_snoc.
      destruct (M p0 q0 b E0 Hr Hc Hfb) as [X|[X|X]];
        [left; now rewrite X|right; left; now rewrite X|right; right; lia].
    + destruct Hcall as [X|X]; [rewrite X in Hsp; discriminate Hsp|congruence].
Qed.

(* startRunnable of Stateable j broadcasts a map that has j's entry *)
Lemma M_arm c0 j s s' m :
  split_at (is_call j) (rev (hist s)) = None ->
  hist s' = ERunCall j :: hist s -> subs s' = broadcast m (subs s) ->
  has_entry j m = true -> existsb (fun o => match o with Some _ => true | None => false end) m = true ->
  SubK c0 s -> Mprop c0 j s'.
Proof.
  intros E0 Eh Es Hm Hex K p q b' Hsp Hr Hc Hf.
  rewrite Eh in Hsp. cbn [rev] in Hsp. rewrite split_at_snoc, E0 in Hsp. cbn [is_call] in Hsp.
  rewrite Nat.eqb_refl in Hsp. injection Hsp as <- <-.
  rewrite existsb_rev' in Hr, Hc.
  destruct (k_rcv _ _ K Hr) as (b & Hb & Hst).
  assert (Hreg : sub_registered b = true).
  { destruct (k_reg _ _ K b Hb Hst) as [X|X]; [exact X|]. pose proof (k_can _ _ K b Hb X). congruence. }
  rewrite Es, find_sub_broadcast, Hb in Hf. cbn [option_map] in Hf. injection Hf as <-.
  unfold bc1. rewrite Hreg, Hex. cbn [andb]. rewrite andb_true_r.
  destruct (Nat.ltb (length (sub_buf b)) 10) eqn:L; cbn [sub_buf].
  - left. now rewrite existsb_snoc, Hm, orb_true_r.
  - right; right. apply Nat.ltb_ge in L. cbn. lia.
Qed.

(* the subscriber takes the oldest snapshot from its channel *)
Lemma M_recv c0 j s s' b b' m q' :
  find_sub c0 (subs s) = Some b -> sub_buf b = m :: q' ->
  find_sub c0 (subs s') = Some b' -> sub_buf b' = q' -> hist s' = ESubRecv c0 m :: hist s ->
  Mprop c0 j s -> Mprop c0 j s'.
Proof.
  intros Hb Hbuf Hb' Hbuf' Eh M p q x Hsp Hr Hc Hf. rewrite Hb' in Hf. injection Hf as <-. rewrite Hbuf'.
  rewrite Eh in Hsp. cbn [rev] in Hsp. rewrite split_at_snoc in Hsp.
  destruct (split_at (is_call j) (rev (hist s))) as [[p0 q0]|] eqn:E0; [|discriminate Hsp].
  injection Hsp as <- <-. rewrite existsb_snoc, count_if_snoc. cbn [is_recv_entry is_recv]. rewrite Nat.eqb_refl.
  cbn [andb]. destruct (M p0 q0 b E0 Hr Hc Hb) as [X|[X|X]].
  - rewrite Hbuf in X. cbn [existsb] in X. apply orb_true_iff in X as [X|X].
    + right; left. rewrite X. apply orb_true_r.
    + now left.
  - right; left. now rewrite X.
  - right; right. rewrite Hbuf in X. cbn [length] in X. lia.
Qed.

Lemma same_sub_ext c0 s s' :
  find_sub c0 (subs s') = find_sub c0 (subs s) ->
  forall b', find_sub c0 (subs s') = Some b' ->
             exists b ext, find_sub c0 (subs s) = Some b /\ sub_buf b' = sub_buf b ++ ext.
Proof. intros E b' H. exists b', []. rewrite <- E, app_nil_r. now split. Qed.

Lemma bcast_sub_ext c0 s s' m :
  subs s' = broadcast m (subs s) ->
  forall b', find_sub c0 (subs s') = Some b' ->
             exists b ext, find_sub c0 (subs s) = Some b /\ sub_buf b' = sub_buf b ++ ext.
Proof.
  intros Es b' H. rewrite Es, find_sub_broadcast in H.
  destruct (find_sub c0 (subs s)) as [b|]; [|discriminate H]. cbn [option_map] in H. injection H as <-.
  destruct (bc1_flags m b) as (_ & _ & _ & _ & _ & _ & [X|X]).
  - exists b, []. rewrite X, app_nil_r. now split.
  - exists b, [m]. now split.
Qed.

Ltac he_other :=
  first [ left; reflexivity
        | right; eexists; split; [reflexivity|split; [reflexivity|left; reflexivity]] ].

Lemma M_step c c0 j s l s' :
  stateable (spec c j) = true -> reachable_sup c s -> SubK c0 s -> Mprop c0 j s ->
  step c s l = Some s' -> Mprop c0 j s'.
Proof.
  intros Hst Hre K M H. pose proof (InvMon_reachable _ _ Hre) as IM.
  destruct (im_len _ _ IM) as (_ & _ & Lsmap & _). unfold step in H.
  destruct l; cbn [step0] in H; unfold start_shutdown, store_state, restore_finals in H;
    step_cases H; inversion H; subst; clear H.
  all: try (apply (M_ext c0 j s); [apply same_sub_ext; reflexivity|he_other|exact M]; fail).
  - (* RunCall of a Stateable runnable: store and broadcast *)
    apply Nat.ltb_lt in Heqb.
    destruct (split_at (is_call j) (rev (hist s))) as [pq|] eqn:E0.
    + apply (M_ext c0 j s); [eapply bcast_sub_ext; reflexivity| |exact M].
      right. eexists. split; [reflexivity|]. split; [reflexivity|]. right. rewrite E0. discriminate.
    + destruct (Nat.eq_dec i j) as [->|N].
      * eapply (M_arm c0 j s); [exact E0|reflexivity|reflexivity| | |exact K].
        -- unfold has_entry. change (nth j (upd (smap s) j (Some (cur_at s j))) None)
             with (get None (upd (smap s) j (Some (cur_at s j))) j).
           rewrite get_upd_same; [reflexivity|lia].
        -- apply (some_entry _ j). rewrite get_upd_same; [discriminate|lia].
      * apply (M_ext c0 j s); [eapply bcast_sub_ext; reflexivity| |exact M].
        right. eexists. split; [reflexivity|]. split; [reflexivity|]. left. cbn [is_call]. now apply Nat.eqb_neq.
  - (* RunCall of another runnable *)
    destruct (Nat.eq_dec i j) as [->|N]; [congruence|].
    apply (M_ext c0 j s); [apply same_sub_ext; reflexivity| |exact M].
    right. eexists. split; [reflexivity|]. split; [reflexivity|]. left. cbn [is_call]. now apply Nat.eqb_neq.
  - (* a monitor's broadcast *)
    apply (M_ext c0 j s); [eapply bcast_sub_ext; reflexivity|left; reflexivity|exact M].
  - (* Subscribe c1 *)
    pose proof (find_sub_snoc c0 {| sub_id := c1; sub_buf := []; sub_started := false; sub_registered := false;
                                    sub_cancelled := false; sub_closed := false |} (subs s)) as Hf.
    destruct (find_sub c0 (subs s)) as [b|] eqn:Hb.
    + apply (M_ext c0 j s); [apply same_sub_ext; simp_st; now rewrite Hf, Hb|he_other|exact M].
    + intros p q b Hsp Hr _ _. exfalso.
      pose proof (split_prefix_in _ (is_recv c0) _ _ _ Hsp Hr) as X. rewrite existsb_rev' in X. simp_st.
      cbn [existsb is_recv orb] in X. destruct (k_rcv _ _ K X) as (b2 & Hb2 & _). congruence.
  - (* SubDo c1 *)
    destruct (Nat.eq_dec c1 c0) as [->|N].
    + intros p q b Hsp Hr _ _. exfalso.
      pose proof (split_prefix_in _ (is_recv c0) _ _ _ Hsp Hr) as X. rewrite existsb_rev' in X. simp_st.
      destruct (k_rcv _ _ K X) as (b2 & Hb2 & S2). congruence.
    + apply (M_ext c0 j s); [apply same_sub_ext; simp_st; now apply find_sub_set_other|he_other|exact M].
  - (* SubRecv c1 m *)
    destruct (Nat.eq_dec c1 c0) as [->|N].
    + match goal with E : smap_eqb _ _ = true |- _ => apply smap_eqb_eq in E; subst end.
      eapply (M_recv c0 j s); [eassumption|eassumption|set_same|reflexivity|reflexivity|exact M].
    + apply (M_ext c0 j s); [apply same_sub_ext; simp_st; now apply find_sub_set_other| |exact M].
      right. eexists. split; [reflexivity|]. split; [cbn [is_recv]; now apply Nat.eqb_neq|left; reflexivity].
  - (* SubCancel c1 *)
    destruct (Nat.eq_dec c1 c0) as [->|N].
    + apply (M_ext c0 j s); [|he_other|exact M].
      intros b' Hb'. exists s0, []. split; [assumption|].
      assert (X : find_sub c0 (subs (with_hist (set_smap s (smap s)
                   (set_sub {| sub_id := c0; sub_buf := sub_buf s0; sub_started := sub_started s0;
                               sub_registered := sub_registered s0; sub_cancelled := true;
                               sub_closed := sub_closed s0 |} (subs s))) (ESubCancel c0))) = Some _) by set_same.
      rewrite X in Hb'. injection Hb' as <-. cbn [sub_buf]. now rewrite app_nil_r.
    + apply (M_ext c0 j s); [apply same_sub_ext; simp_st; now apply find_sub_set_other|he_other|exact M].
  - (* SubUnreg c1 *)
    destruct (Nat.eq_dec c1 c0) as [->|N].
    + apply (M_ext c0 j s); [|he_other|exact M].
      intros b' Hb'. exists s0, []. split; [assumption|].
      assert (X : find_sub c0 (subs (set_smap s (smap s)
                   (set_sub {| sub_id := c0; sub_buf := sub_buf s0; sub_started := true;
                               sub_registered := false; sub_cancelled := true;
                               sub_closed := true |} (subs s)))) = Some _) by set_same.
      rewrite X in Hb'. injection Hb' as <-. cbn [sub_buf]. now rewrite app_nil_r.
    + apply (M_ext c0 j s); [apply same_sub_ext; simp_st; now apply find_sub_set_other|he_other|exact M].
Qed.

Lemma Entry_reachable c c0 j s :
  stateable (spec c j) = true -> reachable_sup c s -> SubK c0 s /\ Mprop c0 j s.
Proof.
  intros Hst Hre.
  assert (G : forall s, reachable_sup c s -> reachable_sup c s /\ SubK c0 s /\ Mprop c0 j s).
  { apply sup_inv.
    - split; [exists []; reflexivity|]. split; [apply SubK_init|]. intros p q b H. discriminate H.
    - intros s0 l s1 (Hr & K & M) Hs. split; [eapply reachable_step; eassumption|].
      split; [eapply SubK_step; eassumption|eapply M_step; eassumption]. }
  apply G. exact Hre.
Qed.

(* C06: a subscriber that had taken a snapshot and was not cancelled when Stateable runnable j was
   started has, by the time it sees its channel closed, taken a snapshot with j's entry - unless it
   took ten or more snapshots after the start (its channel may have been full) *)
Theorem sup_c06_sub_entry c ls s :
  run (step c) (init c) ls = Some s -> c06_sub_entry c (obs_trace obs ls) = true.
Proof.
  intros H. eapply all_check_reachable; [|exact H].
  intros s0 l s1 e Hre Hs Ho. destruct e; try reflexivity. cbn [chk_sub_entry].
  destruct l; try discriminate Ho. injection Ho as ->.
  unfold step in Hs. cbn [step0] in Hs.
  destruct (find_sub c0 (subs s0)) as [b|] eqn:Hb; [|discriminate Hs].
  destruct (sub_buf b) eqn:Hbuf; [|discriminate Hs].
  apply forallb_forall. intros j _. destruct (stateable (spec c j)) eqn:Hst; [|reflexivity]. cbn [negb orb].
  destruct (Entry_reachable c c0 j s0 Hst Hre) as [_ M].
  unfold sub_entry_ok. destruct (split_at (is_call j) (rev (hist s0))) as [[p q]|] eqn:E0; [|reflexivity].
  destruct (existsb (is_recv c0) p) eqn:Hr; [|reflexivity].
  destruct (existsb (is_cancel c0) p) eqn:Hc; [reflexivity|]. cbn [negb orb].
  destruct (M p q b E0 Hr Hc Hb) as [X|[X|X]].
  - rewrite Hbuf in X. discriminate X.
  - now rewrite X.
  - rewrite Hbuf in X. cbn [length] in X. apply orb_true_iff. right. apply Nat.leb_le. lia.
Qed.
