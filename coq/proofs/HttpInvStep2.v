(* Preservation of the invariant, part 2: the mutex-protected sections (reloadConfig, stopServer,
   boot and its readiness probe) and the serve goroutines; the step lemma and its lift to schedules. *)
From Coq Require Import List NArith ZArith Bool Lia.
From GS Require Import LTS HttpCfg HttpServer HttpCfgProofs HttpInv HttpInvStep.
Import ListNotations.

Definition keep (P : Prop) : Prop := P.

Ltac fin_upd :=
  constructor; unfold unshut, is_reload; cbn; intros; brk; subst; cbn in *;
  repeat match goal with
         | H : nth_error (upd_srv _ _ set_shut) _ = Some _ |- _ =>
           apply upd_shut_cases in H; destruct H as (? & ? & ? & ? & [[? ?]|[? ?]]); subst
         | H : nth_error (upd_srv _ _ (set_pc _)) _ = Some _ |- _ =>
           apply upd_pc_cases in H; destruct H as (? & ? & ? & ? & [[? ?]|[? ?]]); subst
         | H : In _ (net_unbind _ _) |- _ => apply in_unbind in H; destruct H
         end;
  repeat match goal with
         | H : s_pc ?a = s_pc ?b |- _ => rewrite H in *; clear H
         | H : s_cfg ?a = s_cfg ?b |- _ => rewrite H in *; clear H
         | H : s_shut ?a = s_shut ?b |- _ => rewrite H in *; clear H
         end;
  try discriminate; try contradiction; try tauto; try congruence;
  try (split; intros; discriminate); eauto; try use_hyps; try use_has;
  try (match goal with
       | H : forall a j, In (a, Own j) _ -> _, H' : In (_, Own ?k) _ |- _ =>
         destruct (H _ _ H') as (? & ? & ? & ? & ?); eexists; rewrite nth_upd_other by congruence; eauto
       end; fail);
  try (match goal with
       | H : forall j sv, nth_error _ j = Some sv -> s_pc sv = SvStart \/ _, H' : nth_error _ _ = Some ?x
         |- s_pc ?x = SvStart \/ _ => destruct (H _ _ H') as [?|[?|[? ?]]]; auto
       end; fail);
  try (unfold keep in *; brk; subst; eauto; fail);
  try (fwd; brk; subst; try discriminate; try congruence; eauto).

Section Step2.
  Variable stop_locked : bool.
  Variable validated : bool.
  Variable mux_ok : list str -> bool.
  Notation Inv := (Inv stop_locked mux_ok).
  Notation step_core := (step_core stop_locked validated mux_ok).

  Lemma reload_rpc s i : Inv s -> holder s = Some (ByReload i) ->
    fsm_st s = FReloading /\ (rpc s = RSelect \/ rpc s = RWantStop).
  Proof.
    intros I Hh. pose proof (i_rel _ _ _ I i Hh) as Hf. split; [exact Hf|].
    destruct (rpc s) eqn:Er; auto; exfalso.
    - destruct (i_early _ _ _ I) as (_ & _ & H); [auto|]. congruence.
    - destruct (i_early _ _ _ I) as (_ & _ & H); [auto|]. congruence.
    - destruct (i_early _ _ _ I) as (_ & _ & H); [auto|]. congruence.
    - assert (holder s = Some ByRun) by (apply (i_rpc _ _ _ I); auto). congruence.
    - assert (fsm_st s = FBooting) by (apply (i_boot _ _ _ I); auto). congruence.
    - assert (holder s = Some ByRun) by (apply (i_rpc _ _ _ I); auto). congruence.
    - destruct (i_stopdone _ _ _ I _ Er) as (_ & H & _). congruence.
    - destruct (i_ret _ _ _ I) as ([H|H] & _); [left; eauto| |]; congruence.
    - destruct (i_ret _ _ _ I) as ([H|H] & _); [auto| |]; congruence.
  Qed.

  Lemma step_Fetch s s' r : Inv s -> step_core s (LFetch r) = Some s' -> Inv s'.
  Proof.
    intros I H. unfold step_core in H. destruct (crashed s); [discriminate|].
    destruct (kpc s) eqn:Ek; try discriminate. destruct (holder s) as [[|i]|] eqn:Eh; try discriminate.
    destruct (reload_rpc s i I Eh) as (Ef & Er).
    destruct r as [| | |c'].
    - injection H as <-. start I s. subst. destruct Er; subst rp; fin.
    - injection H as <-. start I s. subst. destruct Er; subst rp; fin.
    - injection H as <-. start I s. subst. destruct Er; subst rp; fin.
    - destruct (go_config_equal c' (cur s)); injection H as <-; start I s; subst; destruct Er; subst rp; fin.
  Qed.

  Lemma step_reload_finish s s' : Inv s -> kpc s = KUnchanged \/ kpc s = KFinish ->
    reload_finish s = Some s' -> Inv s'.
  Proof.
    intros I Hk H. unfold reload_finish in H.
    destruct (holder s) as [[|i]|] eqn:Eh; try discriminate.
    destruct (reload_rpc s i I Eh) as (Ef & Er). injection H as <-.
    unfold transition_or_error. rewrite Ef. cbn [fsm_allowed].
    start I s. subst. destruct Hk; subst kp; destruct Er; subst rp; fin.
  Qed.

  Lemma step_Unchanged s s' : Inv s -> step_core s LUnchanged = Some s' -> Inv s'.
  Proof.
    intros I H. unfold step_core in H. destruct (crashed s); [discriminate|].
    destruct (kpc s) eqn:Ek; try discriminate. eapply step_reload_finish; eauto.
  Qed.

  Lemma step_Finish s s' : Inv s -> step_core s LFinish = Some s' -> Inv s'.
  Proof.
    intros I H. unfold step_core in H. destruct (crashed s); [discriminate|].
    destruct (kpc s) eqn:Ek; try discriminate. eapply step_reload_finish; eauto.
  Qed.

  (* stopServer returned with r.server reset: all servers are shut *)
  Lemma step_stop_done s s' r od0 :
    Inv s -> stop_kpc (kpc s) ->
    (forall j sv, nth_error (servers s) j = Some sv -> s_shut sv = true) ->
    stop_done stop_locked (with_server s None od0) r = Some s' -> Inv s'.
  Proof.
    intros I Hk Hall H. unfold stop_done in H. cbn [holder with_server] in H.
    assert (Hno : forall j sv, nth_error (servers s) j = Some sv -> s_shut sv = false -> False)
      by (intros j sv0 H1 H2; rewrite (Hall j sv0 H1) in H2; discriminate).
    destruct (holder s) as [[|i]|] eqn:Eh; try discriminate.
    - (* Run *)
      destruct (i_run _ _ _ I Eh) as [[_ Hb]|[Er _]]; [destruct (kpc s); contradiction|].
      assert (Hnr : fsm_st s <> FReloading).
      { intros E. destruct (i_reloading _ _ _ I E) as [i Hi]. congruence. }
      assert (Hnrun : stop_locked = true -> fsm_st s <> FRunning) by (intros E; exact (i_locked _ _ _ I E Er)).
      destruct stop_locked eqn:Esl.
      { specialize (Hnrun eq_refl). injection H as <-. start I s; subst; fin; try (exfalso; eauto). }
      unfold finish_stop in H. destruct r.
      + destruct (fsm_allowed (fsm_st (with_crit (with_server s None od0) None KFree)) FStopped) eqn:Ea; injection H as <-;
          start I s; subst; fin; try (exfalso; eauto).
      + injection H as <-. start I s; subst; fin; try (exfalso; eauto).
      + injection H as <-. start I s; subst; fin; try (exfalso; eauto).
      + injection H as <-. start I s; subst; fin; try (exfalso; eauto).
    - destruct (reload_rpc s i I Eh) as (Ef & Er).
      destruct r; injection H as <-; start I s; subst; destruct Er; subst rp; fin; try (exfalso; eauto).
  Qed.

  Lemma step_StopSkip s s' : Inv s -> step_core s LStopSkip = Some s' -> Inv s'.
  Proof.
    intros I H. unfold step_core in H. destruct (crashed s); [discriminate|].
    destruct (kpc s) eqn:Ek; try discriminate.
    destruct (once_done s) eqn:Eo.
    - eapply step_stop_done; [exact I|rewrite Ek; exact Logic.I| |exact H].
      intros j sv0 Hn. destruct (s_shut sv0) eqn:Es; [reflexivity|].
      destruct (i_live _ _ _ I j) as [_ Ho]; [exists sv0; auto|]. congruence.
    - destruct (server s) eqn:Esv; [discriminate|].
      eapply step_stop_done; [exact I|rewrite Ek; exact Logic.I| |exact H].
      intros j sv0 Hn. destruct (s_shut sv0) eqn:Es; [reflexivity|].
      destruct (i_live _ _ _ I j) as [Ho _]; [exists sv0; auto|]. congruence.
  Qed.

  Lemma step_ShutdownRet_stop s s' sid r :
    Inv s -> kpc s = KStopWait sid -> r <> SNotRunning ->
    stop_done stop_locked (with_server s None (once_done s)) r = Some s' -> Inv s'.
  Proof.
    intros I Ek Hr H.
    eapply step_stop_done; [exact I|rewrite Ek; exact Logic.I| |exact H].
    intros j sv0 Hn. destruct (s_shut sv0) eqn:Es; [reflexivity|].
    destruct (i_live _ _ _ I j) as [Ho _]; [exists sv0; auto|].
    destruct (i_wait _ _ _ I sid) as (Hs & sv1 & Hn1 & Hsh); [auto|].
    rewrite Ho in Hs. injection Hs as ->. congruence.
  Qed.

  (* boot() returned an error: no server is left un-shut *)
  Lemma step_fail_boot s s' od0 :
    Inv s -> boot_kpc (kpc s) ->
    (forall j sv, nth_error (servers s) j = Some sv -> s_shut sv = true) ->
    fail_boot (with_server s None od0) = Some s' -> Inv s'.
  Proof.
    intros I Hk Hall H. unfold fail_boot in H. cbn [holder with_server] in H.
    assert (Hno : forall j sv, nth_error (servers s) j = Some sv -> s_shut sv = false -> False)
      by (intros j sv0 H1 H2; rewrite (Hall j sv0 H1) in H2; discriminate).
    destruct (holder s) as [[|i]|] eqn:Eh; try discriminate.
    - destruct (i_run _ _ _ I Eh) as [[Er _]|[_ Hb]]; [|destruct (kpc s); contradiction].
      injection H as <-. start I s; subst; fin; try (exfalso; eauto).
    - destruct (reload_rpc s i I Eh) as (Ef & Er).
      injection H as <-; start I s; subst; destruct Er; subst rp; fin; try (exfalso; eauto).
  Qed.

  Lemma step_StopCallS s s' sid : Inv s -> step_core s (LStopCallS sid) = Some s' -> Inv s'.
  Proof.
    intros I H. unfold step_core in H. destruct (crashed s); [discriminate|].
    destruct (kpc s) eqn:Ek; try discriminate. destruct (server s) as [sid'|] eqn:Esv; [|discriminate].
    destruct (once_done s) eqn:Eo; [discriminate|].
    destruct (Nat.eqb sid sid') eqn:En; [|discriminate]. apply Nat.eqb_eq in En. subst sid'.
    injection H as <-.
    destruct (i_srv _ _ _ I sid Esv) as [sv0 Hsv0].
    assert (Hone : forall j sv, nth_error (servers s) j = Some sv -> s_shut sv = false -> j = sid).
    { intros j sv1 H1 H2. destruct (i_live _ _ _ I j) as [Hj _]; [exists sv1; auto|]. congruence. }
    assert (Hnew : keep (exists sv, nth_error (upd_srv (servers s) sid set_shut) sid = Some sv /\ s_shut sv = true))
      by (eexists; split; [apply (upd_exists _ _ _ _ Hsv0)|reflexivity]).
    destruct (holder s) as [[|i]|] eqn:Eh.
    - destruct (i_run _ _ _ I Eh) as [[_ Hb]|[Er _]]; [rewrite Ek in Hb; contradiction|].
      assert (Hnr : fsm_st s <> FReloading).
      { intros E. destruct (i_reloading _ _ _ I E) as [i Hi]. congruence. }
      start I s. subst. fin_upd.
      all: match goal with |- ?G => idtac "GOAL:" G end.
    - destruct (reload_rpc s i I Eh) as (Ef & Er).
      start I s. subst. destruct Er; subst rp; fin_upd.
      all: match goal with |- ?G => idtac "GOAL:" G end.
    - apply (i_free _ _ _ I) in Eh. congruence.
  Qed.

  Lemma step_ShutdownRet s s' sid r : Inv s -> step_core s (LShutdownRet sid r) = Some s' -> Inv s'.
  Proof.
    intros I H. unfold step_core in H. destruct (crashed s); [discriminate|].
    destruct (sres_allowed (drain (cur s)) r) eqn:Eal; [|discriminate].
    assert (Hnr : r <> SNotRunning) by (intros ->; discriminate).
    destruct (kpc s) eqn:Ek; try discriminate.
    - destruct (Nat.eqb sid sid0); [|discriminate].
      eapply step_ShutdownRet_stop; eauto.
    - destruct (Nat.eqb sid sid0); [|discriminate].
      assert (Hall : forall j sv, nth_error (servers s) j = Some sv -> s_shut sv = true).
      { intros j sv0 Hn. destruct (s_shut sv0) eqn:Es; [reflexivity|].
        destruct (i_live _ _ _ I j) as [Ho _]; [exists sv0; auto|].
        destruct (i_wait _ _ _ I sid0) as (Hs & sv1 & Hn1 & Hsh); [auto|].
        rewrite Ho in Hs. injection Hs as ->. congruence. }
      eapply step_fail_boot; [exact I|rewrite Ek; exact Logic.I|exact Hall|exact H].
  Qed.

  Lemma step_BootReject s s' : Inv s -> step_core s LBootReject = Some s' -> Inv s'.
  Proof.
    intros I H. unfold step_core in H. destruct (crashed s); [discriminate|].
    destruct (kpc s) eqn:Ek; try discriminate.
    destruct (new_config_ok _ _ _); [discriminate|].
    pose proof (i_wantboot _ _ _ I Ek) as Hs.
    assert (Hall : forall j sv, nth_error (servers s) j = Some sv -> s_shut sv = true).
    { intros j sv0 Hn. destruct (s_shut sv0) eqn:Es; [reflexivity|].
      destruct (i_live _ _ _ I j) as [Ho _]; [exists sv0; auto|]. congruence. }
    eapply (step_fail_boot s s' (once_done s)); [exact I|rewrite Ek; exact Logic.I|exact Hall|].
    rewrite <- H. unfold fail_boot. cbn [holder with_server].
    destruct s; cbn in *; subst; reflexivity.
  Qed.

  Lemma step_ProbeFail s sid :
    Inv s -> kpc s = KProbe sid -> Inv (with_crit s (holder s) (KBootFail sid)).
  Proof.
    intros I Ek. destruct (holder s) as [[|i]|] eqn:Eh.
    - destruct (i_run _ _ _ I Eh) as [[Er _]|[_ Hb]]; [|rewrite Ek in Hb; contradiction].
      start I s. subst. fin.
    - destruct (reload_rpc s i I Eh) as (Ef & Er). start I s. subst. destruct Er; subst rp; fin.
    - apply (i_free _ _ _ I) in Eh. congruence.
  Qed.

  Lemma step_ProbeOk s s' : Inv s -> step_core s LProbeOk = Some s' -> Inv s'.
  Proof.
    intros I H. unfold step_core in H. destruct (crashed s); [discriminate|].
    destruct (kpc s) eqn:Ek; try discriminate.
    destruct (srv_at s sid) as [sv0|] eqn:Es; [|discriminate]. unfold srv_at in Es.
    destruct (errs s); [|discriminate].
    destruct (_ && _) eqn:Eg; [|discriminate]. apply andb_true_iff in Eg as [Eg _].
    assert (Hl : s_pc sv0 = SvListening).
    { destruct (i_probe _ _ _ I sid) as (sv1 & Hn & Hsh); [auto|]. rewrite Es in Hn. injection Hn as <-.
      apply orb_true_iff in Eg as [Eg|Eg]; apply sv_pc_eqb_eq in Eg; [exact Eg|].
      destruct (i_pc _ _ _ I sid sv0 Es) as [?|[?|[_ ?]]]; congruence. }
    unfold boot_ok in H.
    assert (Hone : forall j sv, nth_error (servers s) j = Some sv -> s_shut sv = false -> j = sid).
    { intros j sv1 H1 H2. destruct (i_live _ _ _ I j) as [Hj _]; [exists sv1; auto|].
      destruct (i_probe _ _ _ I sid) as (sv2 & Hn & Hsh); [auto|].
      destruct (i_live _ _ _ I sid) as [Hj' _]; [exists sv2; auto|]. congruence. }
    assert (Hlive : keep (exists j, server s = Some j /\ exists sv, nth_error (servers s) j = Some sv /\ s_shut sv = false)).
    { destruct (i_probe _ _ _ I sid) as (sv2 & Hn & Hsh); [auto|].
      destruct (i_live _ _ _ I sid) as [Hj' _]; [exists sv2; auto|]. exists sid. split; [exact Hj'|eauto]. }
    destruct (holder s) as [[|i]|] eqn:Eh; try discriminate.
    - destruct (i_run _ _ _ I Eh) as [[Er _]|[_ Hb]]; [|rewrite Ek in Hb; contradiction].
      injection H as <-. start I s. subst. fin;
        try (match goal with H : nth_error _ ?j = Some ?x, H' : s_shut ?x = false |- _ =>
               assert (j = sid) by eauto; subst; congruence end);
        try (unfold keep in *; brk; subst; eauto; fail).
    - destruct (reload_rpc s i I Eh) as (Ef & Er).
      injection H as <-. start I s. subst. destruct Er; subst rp; fin;
        try (match goal with H : nth_error _ ?j = Some ?x, H' : s_shut ?x = false |- _ =>
               assert (j = sid) by eauto; subst; congruence end);
        try (unfold keep in *; brk; subst; eauto; fail).
  Qed.

  Lemma step_ProbeOther s s' l : l = LProbeErr \/ l = LProbeCancelled \/ l = LProbeTimeout ->
    Inv s -> step_core s l = Some s' -> Inv s'.
  Proof.
    intros Hl I H. unfold step_core in H. destruct (crashed s); [discriminate|].
    destruct Hl as [-> | [-> | ->]].
    - destruct (kpc s); try discriminate. rewrite (i_errs _ _ _ I) in H. discriminate.
    - destruct (kpc s) eqn:Ek; try discriminate. destruct (ctx_cancelled s); [|discriminate].
      injection H as <-. now apply step_ProbeFail.
    - destruct (kpc s) eqn:Ek; try discriminate. destruct (srv_at s sid); [|discriminate].
      destruct (bound_any _ _); [discriminate|]. injection H as <-. now apply step_ProbeFail.
  Qed.

  Lemma step_CleanupCall s s' sid : Inv s -> step_core s (LCleanupCall sid) = Some s' -> Inv s'.
  Proof.
    intros I H. unfold step_core in H. destruct (crashed s); [discriminate|].
    destruct (kpc s) eqn:Ek; try discriminate. destruct (server s) as [sid''|] eqn:Esv; [|discriminate].
    destruct (_ && _) eqn:Eg; [|discriminate].
    apply andb_true_iff in Eg as [Eg Eo]. apply andb_true_iff in Eg as [E1 E2].
    apply Nat.eqb_eq in E1, E2. subst sid0 sid''. apply negb_true_iff in Eo.
    injection H as <-.
    destruct (i_srv _ _ _ I sid Esv) as [sv0 Hsv0].
    assert (Hone : forall j sv, nth_error (servers s) j = Some sv -> s_shut sv = false -> j = sid).
    { intros j sv1 H1 H2. destruct (i_live _ _ _ I j) as [Hj _]; [exists sv1; auto|]. congruence. }
    assert (Hnew : keep (exists sv, nth_error (upd_srv (servers s) sid set_shut) sid = Some sv /\ s_shut sv = true))
      by (eexists; split; [apply (upd_exists _ _ _ _ Hsv0)|reflexivity]).
    destruct (holder s) as [[|i]|] eqn:Eh.
    - destruct (i_run _ _ _ I Eh) as [[Er _]|[_ Hb]]; [|rewrite Ek in Hb; contradiction].
      start I s. subst. fin_upd.
    - destruct (reload_rpc s i I Eh) as (Ef & Er).
      start I s. subst. destruct Er; subst rp; fin_upd.
    - apply (i_free _ _ _ I) in Eh. congruence.
  Qed.

  Lemma step_RunFinishStop s s' : Inv s -> step_core s LRunFinishStop = Some s' -> Inv s'.
  Proof.
    intros I H. unfold step_core in H. destruct (crashed s); [discriminate|].
    destruct (rpc s) eqn:Er; try discriminate. injection H as <-.
    destruct (i_stopdone _ _ _ I _ Er) as (Hf & Hh & Hall).
    assert (Hno : forall j sv, nth_error (servers s) j = Some sv -> s_shut sv = false -> False)
      by (intros j sv0 H1 H2; rewrite (Hall j sv0 H1) in H2; discriminate).
    assert (Hk : kpc s = KFree) by (now apply (i_free _ _ _ I)).
    assert (Hnr : fsm_st s <> FReloading).
    { intros E. destruct (i_reloading _ _ _ I E) as [i Hi]. congruence. }
    unfold finish_stop. destruct r.
    - destruct (fsm_allowed (fsm_st s) FStopped) eqn:Ea; start I s; subst; fin; try (exfalso; eauto).
    - start I s; subst; fin; try (exfalso; eauto).
    - start I s; subst; fin; try (exfalso; eauto).
    - start I s; subst; fin; try (exfalso; eauto).
  Qed.

  Lemma step_contra s s' l :
    (exists sid, l = LBindFail sid \/ l = LPushErr sid) \/ (exists a, l = LForeignFree a) ->
    Inv s -> step_core s l = Some s' -> Inv s'.
  Proof.
    intros Hl I H. exfalso. unfold step_core in H. destruct (crashed s); [discriminate|].
    destruct Hl as [[sid [-> | ->]] | [a ->]].
    - destruct (srv_at s sid) as [sv0|] eqn:Es; [|discriminate]. unfold srv_at in Es.
      destruct (_ && _) eqn:Eg; [|discriminate].
      apply andb_true_iff in Eg as [E1 Eb]. apply sv_pc_eqb_eq in E1.
      destruct (s_shut sv0) eqn:E2.
      { destruct (net_get (net s) (addr (s_cfg sv0))) as [[|j]|] eqn:En; try discriminate.
        apply get_in in En. destruct (i_own _ _ _ I _ _ En) as [j Hj]. discriminate. }
      unfold bound_any in Eb. destruct (net_get (net s) (addr (s_cfg sv0))) as [o|] eqn:En; [|discriminate].
      apply get_in in En. destruct (i_own _ _ _ I _ _ En) as [j ->].
      destruct (i_net _ _ _ I _ _ En) as (sv1 & Hn1 & Hs1 & Hp1 & _).
      destruct (i_live _ _ _ I j) as [Hj _]; [exists sv1; auto|].
      destruct (i_live _ _ _ I sid) as [Hj' _]; [exists sv0; auto|].
      assert (j = sid) by congruence. subst. congruence.
    - destruct (srv_at s sid) as [sv0|] eqn:Es; [|discriminate]. unfold srv_at in Es.
      destruct (errs s); [|discriminate]. destruct (sv_pc_eqb _ _) eqn:E1; [|discriminate].
      apply sv_pc_eqb_eq in E1. destruct (i_pc _ _ _ I sid sv0 Es) as [?|[?|[? _]]]; congruence.
    - destruct (net_get (net s) a) as [[|j]|] eqn:En; try discriminate.
      apply get_in in En. destruct (i_own _ _ _ I _ _ En) as [j Hj]. discriminate.
  Qed.

  Lemma upd_pc_fwd svs sid p j x :
    nth_error svs j = Some x ->
    exists x', nth_error (upd_srv svs sid (set_pc p)) j = Some x' /\ s_cfg x' = s_cfg x /\
               s_shut x' = s_shut x /\ ((j = sid /\ s_pc x' = p) \/ (j <> sid /\ x' = x)).
  Proof.
    intros H. destruct (Nat.eq_dec j sid) as [->|Hne].
    - exists (set_pc p x). rewrite nth_upd_same, H. cbn. repeat split; auto.
    - exists x. rewrite nth_upd_other by exact Hne. repeat split; auto.
  Qed.

  Lemma step_LasClosed s s' sid : Inv s -> step_core s (LLasClosed sid) = Some s' -> Inv s'.
  Proof.
    intros I H. unfold step_core in H. destruct (crashed s); [discriminate|].
    destruct (srv_at s sid) as [sv0|] eqn:Es; [|discriminate]. unfold srv_at in Es.
    destruct (_ && _) eqn:Eg; [|discriminate]. apply andb_true_iff in Eg as [Esh _].
    injection H as <-.
    destruct I. unfold unshut, is_reload in *. open_state s.
    pose proof (upd_pc_cases svs sid SvExited) as T2. pose proof (upd_pc_fwd svs sid SvExited) as T1.
    constructor; unfold unshut, is_reload; cbn; auto.
    - intros Hr. destruct (i_early Hr) as (-> & _). destruct sid; discriminate.
    - intros Hr. destruct (i_ret Hr) as (A & B & C). split; [exact A|]. split; [exact B|].
      intros j x' Hn. destruct (T2 _ _ Hn) as (x & Hx & _ & Hs & _). rewrite Hs. eauto.
    - intros r0 Hr. destruct (i_stopdone r0 Hr) as (A & B & C). split; [exact A|]. split; [exact B|].
      intros j x' Hn. destruct (T2 _ _ Hn) as (x & Hx & _ & Hs & _). rewrite Hs. eauto.
    - intros j (x' & Hn & Hs). destruct (T2 _ _ Hn) as (x & Hx & _ & Hs' & _).
      apply i_live. exists x. split; congruence.
    - intros j Hj. destruct (i_srv j Hj) as [x Hx]. destruct (T1 _ _ Hx) as (x' & Hx' & _). eauto.
    - intros j Hk. destruct (i_probe j Hk) as (x & Hx & Hs).
      destruct (T1 _ _ Hx) as (x' & Hx' & _ & Hs' & _). exists x'. split; congruence.
    - intros j Hk. destruct (i_wait j Hk) as (A & x & Hx & Hs).
      destruct (T1 _ _ Hx) as (x' & Hx' & _ & Hs' & _). split; [exact A|]. exists x'. split; congruence.
    - intros j x' Hn. destruct (T2 _ _ Hn) as (x & Hx & _ & Hs & [[-> Hp]|[Hne ->]]).
      + right. right. split; [exact Hp|]. rewrite Hs. congruence.
      + eapply i_pc; eauto.
    - intros a j Hin. destruct (i_net a j Hin) as (x & Hx & Hs & Hp & Ha).
      destruct (T1 _ _ Hx) as (x' & Hx' & Hc & Hs' & [[-> Hp']|[Hne ->]]).
      + congruence.
      + exists x. auto.
    - intros j x' Hn Hs Hp. destruct (T2 _ _ Hn) as (x & Hx & Hc & Hs' & [[-> Hp']|[Hne ->]]).
      + congruence.
      + eapply i_bound; eauto.
    - intros j x' Hn Hs Hk1 Hk2. destruct (T2 _ _ Hn) as (x & Hx & Hc & Hs' & [[-> Hp']|[Hne ->]]).
      + congruence.
      + eapply i_listen; eauto.
    - intros j x' Hn Hs Hk. destruct (T2 _ _ Hn) as (x & Hx & Hc & Hs' & _).
      rewrite Hc. eapply i_cfg; eauto; congruence.
    - intros Hp. destruct (i_has Hp) as (j & Hj & x & Hx & Hs).
      destruct (T1 _ _ Hx) as (x' & Hx' & _ & Hs' & _). exists j. split; [exact Hj|]. exists x'. split; congruence.
    - intros j x' Hn. destruct (T2 _ _ Hn) as (x & Hx & Hc & _). rewrite Hc. eapply i_mux; eauto.
  Qed.

  Lemma step_ServeSkip s s' sid : Inv s -> step_core s (LServeSkip sid) = Some s' -> Inv s'.
  Proof.
    intros I H. unfold step_core in H. destruct (crashed s); [discriminate|].
    destruct (srv_at s sid) as [sv0|] eqn:Es; [|discriminate]. unfold srv_at in Es.
    destruct (server s) eqn:Esrv0; [discriminate|]. clear Esrv0.
    destruct (_ && _) eqn:Eg; [|discriminate]. apply andb_true_iff in Eg as [Esh _].
    injection H as <-.
    destruct I. unfold unshut, is_reload in *. open_state s.
    pose proof (upd_pc_cases svs sid SvExited) as T2. pose proof (upd_pc_fwd svs sid SvExited) as T1.
    constructor; unfold unshut, is_reload; cbn; auto.
    - intros Hr. destruct (i_early Hr) as (-> & _). destruct sid; discriminate.
    - intros Hr. destruct (i_ret Hr) as (A & B & C). split; [exact A|]. split; [exact B|].
      intros j x' Hn. destruct (T2 _ _ Hn) as (x & Hx & _ & Hs & _). rewrite Hs. eauto.
    - intros r0 Hr. destruct (i_stopdone r0 Hr) as (A & B & C). split; [exact A|]. split; [exact B|].
      intros j x' Hn. destruct (T2 _ _ Hn) as (x & Hx & _ & Hs & _). rewrite Hs. eauto.
    - intros j (x' & Hn & Hs). destruct (T2 _ _ Hn) as (x & Hx & _ & Hs' & _).
      apply i_live. exists x. split; congruence.
    - intros j Hj. destruct (i_srv j Hj) as [x Hx]. destruct (T1 _ _ Hx) as (x' & Hx' & _). eauto.
    - intros j Hk. destruct (i_probe j Hk) as (x & Hx & Hs).
      destruct (T1 _ _ Hx) as (x' & Hx' & _ & Hs' & _). exists x'. split; congruence.
    - intros j Hk. destruct (i_wait j Hk) as (A & x & Hx & Hs).
      destruct (T1 _ _ Hx) as (x' & Hx' & _ & Hs' & _). split; [exact A|]. exists x'. split; congruence.
    - intros j x' Hn. destruct (T2 _ _ Hn) as (x & Hx & _ & Hs & [[-> Hp]|[Hne ->]]).
      + right. right. split; [exact Hp|]. rewrite Hs. congruence.
      + eapply i_pc; eauto.
    - intros a j Hin. destruct (i_net a j Hin) as (x & Hx & Hs & Hp & Ha).
      destruct (T1 _ _ Hx) as (x' & Hx' & Hc & Hs' & [[-> Hp']|[Hne ->]]).
      + congruence.
      + exists x. auto.
    - intros j x' Hn Hs Hp. destruct (T2 _ _ Hn) as (x & Hx & Hc & Hs' & [[-> Hp']|[Hne ->]]).
      + congruence.
      + eapply i_bound; eauto.
    - intros j x' Hn Hs Hk1 Hk2. destruct (T2 _ _ Hn) as (x & Hx & Hc & Hs' & [[-> Hp']|[Hne ->]]).
      + congruence.
      + eapply i_listen; eauto.
    - intros j x' Hn Hs Hk. destruct (T2 _ _ Hn) as (x & Hx & Hc & Hs' & _).
      rewrite Hc. eapply i_cfg; eauto; congruence.
    - intros Hp. destruct (i_has Hp) as (j & Hj & x & Hx & Hs).
      destruct (T1 _ _ Hx) as (x' & Hx' & _ & Hs' & _). exists j. split; [exact Hj|]. exists x'. split; congruence.
    - intros j x' Hn. destruct (T2 _ _ Hn) as (x & Hx & Hc & _). rewrite Hc. eapply i_mux; eauto.
  Qed.
  Lemma step_BindOk s s' sid : Inv s -> step_core s (LBindOk sid) = Some s' -> Inv s'.
  Proof.
    intros I H. unfold step_core in H. destruct (crashed s); [discriminate|].
    destruct (srv_at s sid) as [sv0|] eqn:Es; [|discriminate]. unfold srv_at in Es.
    destruct (_ && _) eqn:Eg; [|discriminate].
    apply andb_true_iff in Eg as [Eg Eb]. apply andb_true_iff in Eg as [E1 E2].
    apply sv_pc_eqb_eq in E1. apply negb_true_iff in E2, Eb.
    injection H as <-.
    destruct I. unfold unshut, is_reload in *. open_state s.
    pose proof (upd_pc_cases svs sid SvListening) as T2. pose proof (upd_pc_fwd svs sid SvListening) as T1.
    constructor; unfold unshut, is_reload; cbn; auto.
    - intros Hr. destruct (i_early Hr) as (-> & _). destruct sid; discriminate.
    - intros Hr. destruct (i_ret Hr) as (A & B & C). specialize (C sid sv0 Es). congruence.
    - intros r0 Hr. destruct (i_stopdone r0 Hr) as (A & B & C). specialize (C sid sv0 Es). congruence.
    - intros j (x' & Hn & Hs). destruct (T2 _ _ Hn) as (x & Hx & _ & Hs' & _).
      apply i_live. exists x. split; congruence.
    - intros j Hj. destruct (i_srv j Hj) as [x Hx]. destruct (T1 _ _ Hx) as (x' & Hx' & _). eauto.
    - intros j Hk. destruct (i_probe j Hk) as (x & Hx & Hs).
      destruct (T1 _ _ Hx) as (x' & Hx' & _ & Hs' & _). exists x'. split; congruence.
    - intros j Hk. destruct (i_wait j Hk) as (A & x & Hx & Hs).
      destruct (T1 _ _ Hx) as (x' & Hx' & _ & Hs' & _). split; [exact A|]. exists x'. split; congruence.
    - intros a o [Heq|Hin]; [injection Heq as <- <-; eauto|eapply i_own; eauto].
    - intros j x' Hn. destruct (T2 _ _ Hn) as (x & Hx & _ & Hs & [[-> Hp]|[Hne ->]]).
      + right. left. exact Hp.
      + eapply i_pc; eauto.
    - intros a j [Heq|Hin].
      + injection Heq as <- <-. destruct (T1 _ _ Es) as (x' & Hx' & Hc & Hs' & [[_ Hp']|[Hne _]]); [|congruence].
        exists x'. repeat split; congruence.
      + destruct (i_net a j Hin) as (x & Hx & Hs & Hp & Ha).
        destruct (T1 _ _ Hx) as (x' & Hx' & Hc & Hs' & [[-> Hp']|[Hne ->]]); [congruence|].
        exists x. auto.
    - intros j x' Hn Hs Hp. destruct (T2 _ _ Hn) as (x & Hx & Hc & Hs' & [[-> Hp']|[Hne ->]]).
      + assert (x = sv0) by congruence. subst x. rewrite Hc, str_eqb_refl. reflexivity.
      + pose proof (i_bound j x Hx Hs Hp) as Hb.
        destruct (str_eqb (addr (s_cfg sv0)) (addr (s_cfg x))) eqn:Ea; [|exact Hb].
        apply str_eqb_eq in Ea. unfold bound_any in Eb. rewrite Ea, Hb in Eb. discriminate.
    - intros j x' Hn Hs Hk1 Hk2. destruct (T2 _ _ Hn) as (x & Hx & Hc & Hs' & [[-> Hp']|[Hne ->]]).
      + exact Hp'.
      + eapply i_listen; eauto.
    - intros j x' Hn Hs Hk. destruct (T2 _ _ Hn) as (x & Hx & Hc & Hs' & _).
      rewrite Hc. eapply i_cfg; eauto; congruence.
    - intros Hp. destruct (i_has Hp) as (j & Hj & x & Hx & Hs).
      destruct (T1 _ _ Hx) as (x' & Hx' & _ & Hs' & _). exists j. split; [exact Hj|]. exists x'. split; congruence.
    - intros j x' Hn. destruct (T2 _ _ Hn) as (x & Hx & Hc & _). rewrite Hc. eapply i_mux; eauto.
  Qed.

  Lemma step_BootCreate s s' sid cc : Inv s -> step_core s (LBootCreate sid cc) = Some s' -> Inv s'.
  Proof.
    intros I H. unfold step_core in H. destruct (crashed s); [discriminate|].
    destruct (kpc s) eqn:Ek; try discriminate.
    destruct (_ && _) eqn:Eg; [|discriminate].
    apply andb_true_iff in Eg as [Eg _]. apply andb_true_iff in Eg as [Eg En].
    apply andb_true_iff in Eg as [_ Emux]. apply Nat.eqb_eq in En.
    injection H as <-.
    pose proof (i_wantboot _ _ _ I Ek) as Hnone.
    assert (Hall : forall j sv, nth_error (servers s) j = Some sv -> s_shut sv = true).
    { intros j sv0 Hn. destruct (s_shut sv0) eqn:Es; [reflexivity|].
      destruct (i_live _ _ _ I j) as [Ho _]; [exists sv0; auto|]. congruence. }
    assert (Hh : holder s <> None) by (intros E; apply (i_free _ _ _ I) in E; congruence).
    assert (Hcase : (holder s = Some ByRun /\ rpc s = RInBoot) \/
                    (exists i, holder s = Some (ByReload i) /\ fsm_st s = FReloading /\ (rpc s = RSelect \/ rpc s = RWantStop))).
    { destruct (holder s) as [[|i]|] eqn:Eh; [| |congruence].
      - left. destruct (i_run _ _ _ I Eh) as [[Er _]|[_ Hb]]; [auto|rewrite Ek in Hb; contradiction].
      - right. exists i. destruct (reload_rpc s i I Eh). auto. }
    destruct I. unfold unshut, is_reload in *. open_state s. subst.
    set (new := {| s_cfg := c; s_pc := SvStart; s_shut := false |}).
    assert (Hnew : nth_error (svs ++ [new]) (length svs) = Some new)
      by (rewrite nth_error_app2, Nat.sub_diag by lia; reflexivity).
    constructor; unfold unshut, is_reload; cbn; auto.
    - split; intros; [contradiction|discriminate].
    - intros Hr. destruct (i_early Hr) as (_ & _ & E). contradiction.
    - intros Hr. destruct (i_ret Hr) as (_ & E & _). contradiction.
    - intros r0 Hr. destruct (i_stopdone r0 Hr) as (_ & E & _). contradiction.
    - intros j (x & Hn & Hs). apply nth_snoc in Hn as [[_ Hn]|[-> ->]].
      + rewrite (Hall _ _ Hn) in Hs. discriminate.
      + auto.
    - intros j Hj. injection Hj as <-. eauto.
    - discriminate.
    - intros j [Hk|Hk]; [|discriminate]. injection Hk as <-. exists new. auto.
    - intros j [Hk|Hk]; discriminate.
    - intros j x Hn. apply nth_snoc in Hn as [[_ Hn]|[-> ->]]; [eapply i_pc; eauto|auto].
    - intros a j Hin. destruct (i_net a j Hin) as (x & Hx & Hs & Hp & Ha).
      exists x. rewrite nth_error_app1 by (eapply nth_lt; eauto). auto.
    - intros j x Hn Hs Hp. apply nth_snoc in Hn as [[_ Hn]|[-> ->]].
      + rewrite (Hall _ _ Hn) in Hs. discriminate.
      + discriminate.
    - intros j x Hn Hs Hk1 Hk2. apply nth_snoc in Hn as [[_ Hn]|[-> ->]].
      + rewrite (Hall _ _ Hn) in Hs. discriminate.
      + congruence.
    - intros j x Hn Hs Hk. apply nth_snoc in Hn as [[_ Hn]|[-> ->]].
      + rewrite (Hall _ _ Hn) in Hs. discriminate.
      + reflexivity.
    - intros [[Hf Hr]|[[Hf Hk]|Hr]].
      + destruct Hcase as [[_ Er]|(i & _ & Ef & _)]; [rewrite Er in Hr; destruct Hr as [?|[?|[? ?]]]; discriminate|congruence].
      + destruct Hk as [?|[?|[?|?]]]; discriminate.
      + destruct Hcase as [[_ Er]|(i & _ & _ & [Er|Er])]; congruence.
    - intros j x Hn. apply nth_snoc in Hn as [[_ Hn]|[-> ->]]; [eapply i_mux; eauto|exact Emux].
  Qed.
  (* the environment hypothesis of C12/C13's protocol theorems: no foreign process binds an address *)
  Definition no_foreign_label (l : label) : Prop :=
    match l with LForeignBind _ => False | _ => True end.

  Theorem inv_step s l s' :
    Inv s -> no_foreign_label l -> step stop_locked validated mux_ok s l = Some s' -> Inv s'.
  Proof.
    intros I Hl H. destruct l; cbn [step] in H; try contradiction.
    - eapply step_RunCall; eauto.
    - eapply step_RunStart; eauto.
    - eapply step_RunLock; eauto.
    - eapply step_RunFinishBoot; eauto.
    - eapply step_RunWake; eauto.
    - eapply step_RunServeErr; eauto.
    - eapply step_RunLockStop; eauto.
    - eapply step_RunFinishStop; eauto.
    - eapply step_RunRet; eauto.
    - eapply step_frame; eauto; exact Logic.I.
    - eapply step_frame; eauto; exact Logic.I.
    - eapply step_frame; eauto; exact Logic.I.
    - eapply step_frame; eauto; exact Logic.I.
    - eapply step_ReloadBegin; eauto.
    - eapply step_frame; eauto; exact Logic.I.
    - eapply step_Fetch; eauto.
    - eapply step_Unchanged; eauto.
    - eapply step_Finish; eauto.
    - eapply step_StopSkip; eauto.
    - eapply step_StopCallS; eauto.
    - eapply step_ShutdownRet; eauto.
    - eapply step_BootReject; eauto.
    - eapply step_frame; eauto; exact Logic.I.
    - eapply step_BootCreate; eauto.
    - eapply step_ProbeOk; eauto.
    - eapply (step_ProbeOther s s' LProbeErr); auto.
    - eapply (step_ProbeOther s s' LProbeCancelled); auto.
    - eapply (step_ProbeOther s s' LProbeTimeout); auto.
    - eapply step_CleanupCall; eauto.
    - eapply step_BindOk; eauto.
    - eapply (step_contra s s' (LBindFail sid)); eauto.
    - eapply (step_contra s s' (LPushErr sid)); eauto.
    - eapply step_LasClosed; eauto.
    - eapply step_ServeSkip; eauto.
    - eapply (step_contra s s' (LForeignFree a)); eauto.
    - eapply step_frame; eauto; exact Logic.I.
    - eapply step_frame; eauto; exact Logic.I.
    - eapply step_frame; eauto; exact Logic.I.
    - eapply step_frame; eauto; exact Logic.I.
    - destruct (crashed s); [discriminate|]. destruct (quiescent _ _ _ s); [|discriminate]. injection H as <-. exact I.
  Qed.

  Definition no_foreign (ls : list label) : Prop := Forall no_foreign_label ls.

  (* the lift to every schedule (the proof of LTS.run_inv, with the hypothesis on the labels) *)
  Theorem inv_run ls : forall s s',
    Inv s -> no_foreign ls -> run (step stop_locked validated mux_ok) s ls = Some s' -> Inv s'.
  Proof.
    induction ls as [|l ls IH]; intros s s' I Hn Hr.
    - injection Hr as <-. exact I.
    - cbn [run] in Hr. destruct (step stop_locked validated mux_ok s l) as [s1|] eqn:E; [|discriminate].
      inversion Hn; subst. eapply IH; [eapply inv_step; eassumption|assumption|exact Hr].
  Qed.

  Corollary inv_reachable c0 ls s :
    no_foreign ls -> run (step stop_locked validated mux_ok) (init c0) ls = Some s -> Inv s.
  Proof. intros Hn Hr. eapply inv_run; [apply inv_init|exact Hn|exact Hr]. Qed.
End Step2.
