(* C03: readiness-gated start-up order; each Run invoked at most once. *)
From Coq Require Import List NArith Bool Arith Lia.
From GS Require Import LTS Supervisor SupAccept SupProps SupInv SupTrig.
Import ListNotations.

Definition not_started (p : rn_pc) : Prop := p = RnNot.
Definition ran (p : rn_pc) : Prop := match p with RnRunning | RnSending _ | RnDone => True | _ => False end.

Definition gate_ok (c : config) (j : nat) (h : list event) : Prop :=
  cancel_evidence h = true \/
  forall i, i < j -> stateable (spec c i) = true -> mem_ev (EPoll i true) h = true.

Lemma mem_ev_cons e x h : mem_ev e h = true -> mem_ev e (x :: h) = true.
Proof. unfold mem_ev. cbn [existsb]. intros ->. apply orb_true_r. Qed.

Lemma cancel_evidence_cons x h : cancel_evidence h = true -> cancel_evidence (x :: h) = true.
Proof. unfold cancel_evidence. cbn [existsb]. intros ->. apply orb_true_r. Qed.

Lemma gate_ok_cons c j x h : gate_ok c j h -> gate_ok c j (x :: h).
Proof.
  intros [H|H]; [left; now apply cancel_evidence_cons|right].
  intros i Hi Hs. apply mem_ev_cons. auto.
Qed.

Lemma gate_ok_le c j k h : k <= j -> gate_ok c j h -> gate_ok c k h.
Proof. intros L [H|H]; [now left|right]. intros i Hi. apply H. lia. Qed.

Lemma gate_ok_S c j h :
  gate_ok c j h -> (stateable (spec c j) = true -> mem_ev (EPoll j true) h = true) -> gate_ok c (S j) h.
Proof.
  intros [H|H] Hj; [now left|right]. intros i Hi Hs.
  destruct (Nat.eq_dec i j) as [->|N]; [auto|apply H; [lia|exact Hs]].
Qed.

Record InvGate (c : config) (s : state) : Prop := {
  ig_len : length (rn s) = nrun c;
  (* the start-up loop's position *)
  ig_launch : forall i, main s = MLaunch i -> forall j, i <= j -> j < nrun c -> rn_at s j = RnNot;
  ig_gate : forall i, main s = MGate i \/ main s = MGateCheck i ->
                      rn_at s i <> RnNot /\ i < nrun c /\ forall j, i < j -> j < nrun c -> rn_at s j = RnNot;
  (* a RunCall has happened only on runnables that are past RnLaunched *)
  ig_called : forall i, mem_ev (ERunCall i) (hist s) = true -> ran (rn_at s i);
  (* gating *)
  ig_started : forall j, j < nrun c -> rn_at s j <> RnNot -> gate_ok c j (hist s);
  ig_pos_launch : forall i, main s = MLaunch i -> gate_ok c i (hist s);
  ig_pos_gate : forall i, main s = MGate i \/ main s = MGateCheck i -> gate_ok c i (hist s);
  ig_pos_check : forall i, main s = MGateCheck i -> mem_ev (EPoll i true) (hist s) = true;
  (* cancellation evidence *)
  ig_parent : parent_cancel s = true -> mem_ev EParentCancel (hist s) = true;
  ig_own : own_cancel s = true -> match sd s with SdWait | SdDone => True | _ => False end;
  ig_sd : match sd s with SdCancel | SdWait | SdDone => mem_ev (EStopRet 0) (hist s) = true \/ launched s = 0
          | _ => True end;
}.

Lemma launched_zero s i : launched s = 0 -> i < length (rn s) -> rn_at s i = RnNot.
Proof.
  unfold launched, rn_at, get. revert i. induction (rn s) as [|p l IH]; intros i H L; cbn in *; [lia|].
  destruct p; cbn in H; try discriminate H. destruct i; [reflexivity|]. apply IH; [exact H|lia].
Qed.

Lemma launched_upd_started l i p :
  get RnDone l i <> RnNot -> p <> RnNot ->
  length (filter (fun q => match q with RnNot => false | _ => true end) (upd l i p))
  = length (filter (fun q => match q with RnNot => false | _ => true end) l).
Proof.
  unfold get. revert i; induction l as [|q l IH]; intros [|i] Hq Hp; cbn in *; auto.
  - destruct q, p; cbn; congruence.
  - destruct q; cbn; auto.
Qed.

Lemma rn_at_upd s i p j : rn_at (set_rn s i p) j = p \/ rn_at (set_rn s i p) j = rn_at s j.
Proof. unfold rn_at. simp_st. apply get_upd_cases. Qed.

Lemma rn_at_upd_other s i p j : i <> j -> rn_at (set_rn s i p) j = rn_at s j.
Proof. unfold rn_at. simp_st. apply get_upd_other. Qed.

Lemma rn_at_upd_same s i p : i < length (rn s) -> rn_at (set_rn s i p) i = p.
Proof. unfold rn_at. simp_st. apply get_upd_same. Qed.

Lemma nth_repeat_lt' {A} (d x : A) n i : i < n -> nth i (repeat x n) d = x.
Proof. revert i; induction n as [|n IH]; intros [|i] H; cbn; auto; try lia. apply IH. lia. Qed.

Lemma InvGate_init c : InvGate c (init c).
Proof.
  assert (R : forall j, rn_at (init c) j = RnNot \/ rn_at (init c) j = RnDone).
  { intros j. unfold rn_at, get. cbn. apply nth_repeat'. }
  assert (R' : forall j, j < nrun c -> rn_at (init c) j = RnNot).
  { intros j L. unfold rn_at, get. cbn. rewrite nth_repeat_lt'; auto. }
  constructor; cbn; auto; try discriminate.
  - apply repeat_length.
  - intros i [H|H]; discriminate H.
  - intros j L H. now rewrite nth_repeat_lt' in H.
  - intros i [H|H]; discriminate H.
Qed.

Lemma ran_not_started p : ran p -> p <> RnNot.
Proof. destruct p; cbn; intros H; try contradiction; discriminate. Qed.

(* ---- how the history grows ---- *)
Definition hist_ext (s s' : state) : Prop :=
  hist s' = hist s \/ exists e, hist s' = e :: hist s /\ forall i, e <> ERunCall i.

Lemma hist_ext_mem s s' e : hist_ext s s' -> mem_ev e (hist s) = true -> mem_ev e (hist s') = true.
Proof. intros [->|[x [-> _]]] H; [exact H|now apply mem_ev_cons]. Qed.

Lemma hist_ext_gate c s s' j : hist_ext s s' -> gate_ok c j (hist s) -> gate_ok c j (hist s').
Proof. intros [->|[x [-> _]]] H; [exact H|now apply gate_ok_cons]. Qed.

(* launched is determined by rn *)
Lemma launched_rn s s' : rn s' = rn s -> launched s' = launched s.
Proof. unfold launched. now intros ->. Qed.

(* when Shutdown stops nothing, nothing was started *)
Lemma stop_count_zero c s : length (rn s) = nrun c -> stop_count c s = 0 -> launched s = 0.
Proof.
  unfold stop_count. intros L H. destruct (run_entered (aux s)); [exact H|].
  unfold launched. rewrite H in L. destruct (rn s); [reflexivity|discriminate L].
Qed.

Lemma ig_sd_start c s :
  length (rn s) = nrun c ->
  match sd_next (stop_count c s) with
  | SdCancel | SdWait | SdDone => mem_ev (EStopRet 0) (hist s) = true \/ launched s = 0
  | _ => True end.
Proof.
  intros L. destruct (stop_count c s) eqn:E; cbn [sd_next]; [|exact Logic.I].
  right. now apply (stop_count_zero c).
Qed.

(* shutdown progress that the gate invariant tolerates: unchanged, or started now *)
Definition sd_ok (c : config) (s s' : state) : Prop :=
  sd s' = sd s \/ (sd s = SdNot /\ sd s' = sd_next (stop_count c s)).

Lemma sd_field c s s' :
  InvGate c s -> rn s' = rn s -> sd_ok c s s' -> hist_ext s s' ->
  match sd s' with SdCancel | SdWait | SdDone => mem_ev (EStopRet 0) (hist s') = true \/ launched s' = 0
  | _ => True end.
Proof.
  intros I Hr [E|[E0 E]] Hh; rewrite E, (launched_rn _ _ Hr).
  - pose proof (ig_sd _ _ I) as H. destruct (sd s); auto;
      (destruct H as [H|H]; [left; eapply hist_ext_mem; eassumption|now right]).
  - pose proof (ig_sd_start c s (ig_len _ _ I)) as X.
    destruct (sd_next (stop_count c s)); auto;
      (destruct X as [X|X]; [left; eapply hist_ext_mem; eassumption|now right]).
Qed.

Lemma own_field c s s' :
  InvGate c s -> own_cancel s' = own_cancel s -> sd_ok c s s' ->
  own_cancel s' = true -> match sd s' with SdWait | SdDone => True | _ => False end.
Proof.
  intros I Ho [E|[E0 E]] H; rewrite Ho in H; pose proof (ig_own _ _ I H) as X.
  - now rewrite E.
  - now rewrite E0 in X.
Qed.

(* frame: neither the start-up loop, nor the runnable goroutines, nor cancellation moved *)
Lemma InvGate_frame c s s' :
  InvGate c s -> main s' = main s -> rn s' = rn s -> sd_ok c s s' ->
  own_cancel s' = own_cancel s -> parent_cancel s' = parent_cancel s -> hist_ext s s' ->
  InvGate c s'.
Proof.
  intros I Hm Hr Hs Ho Hp Hh.
  constructor; unfold rn_at in *; rewrite ?Hm, ?Hr, ?Hp.
  - exact (ig_len _ _ I).
  - exact (ig_launch _ _ I).
  - exact (ig_gate _ _ I).
  - intros i H. apply (ig_called _ _ I).
    destruct Hh as [E|[x [E Hx]]]; rewrite E in H; [exact H|].
    unfold mem_ev in *. cbn [existsb] in H. apply orb_true_iff in H as [H|H]; [|exact H].
    exfalso. destruct x; try discriminate H. cbn in H. apply Nat.eqb_eq in H. subst. now apply (Hx i0).
  - intros j L H. eapply hist_ext_gate; [exact Hh|]. exact (ig_started _ _ I j L H).
  - intros i H. eapply hist_ext_gate; [exact Hh|]. exact (ig_pos_launch _ _ I i H).
  - intros i H. eapply hist_ext_gate; [exact Hh|]. exact (ig_pos_gate _ _ I i H).
  - intros i H. eapply hist_ext_mem; [exact Hh|]. exact (ig_pos_check _ _ I i H).
  - intros H. eapply hist_ext_mem; [exact Hh|]. exact (ig_parent _ _ I H).
  - eapply own_field; eassumption.
  - eapply sd_field; eassumption.
Qed.

Definition hist_ext2 (s s' : state) : Prop :=
  hist s' = hist s \/ exists e, hist s' = e :: hist s /\ forall i, e = ERunCall i -> ran (rn_at s' i).

Lemma hist_ext2_mem s s' e : hist_ext2 s s' -> mem_ev e (hist s) = true -> mem_ev e (hist s') = true.
Proof. intros [->|[x [-> _]]] H; [exact H|now apply mem_ev_cons]. Qed.

Lemma hist_ext2_gate c s s' j : hist_ext2 s s' -> gate_ok c j (hist s) -> gate_ok c j (hist s').
Proof. intros [->|[x [-> _]]] H; [exact H|now apply gate_ok_cons]. Qed.

(* ---- a generic preservation lemma: the caller supplies the position-dependent fields ---- *)
Lemma InvGate_gen c s s' :
  InvGate c s ->
  length (rn s') = length (rn s) ->
  (* runnables never go back to RnNot, and only the start-up loop starts them *)
  (forall j, rn_at s j <> RnNot -> rn_at s' j <> RnNot) ->
  (forall j, ran (rn_at s j) -> ran (rn_at s' j)) ->
  hist_ext2 s s' ->
  (parent_cancel s' = true -> mem_ev EParentCancel (hist s') = true) ->
  (* supplied by the caller *)
  (forall i, main s' = MLaunch i -> (forall j, i <= j -> j < nrun c -> rn_at s' j = RnNot) /\ gate_ok c i (hist s')) ->
  (forall i, main s' = MGate i \/ main s' = MGateCheck i ->
             (rn_at s' i <> RnNot /\ i < nrun c /\ forall j, i < j -> j < nrun c -> rn_at s' j = RnNot)
             /\ gate_ok c i (hist s')) ->
  (forall i, main s' = MGateCheck i -> mem_ev (EPoll i true) (hist s') = true) ->
  (forall j, j < nrun c -> rn_at s j = RnNot -> rn_at s' j <> RnNot -> gate_ok c j (hist s')) ->
  (own_cancel s' = true -> match sd s' with SdWait | SdDone => True | _ => False end) ->
  (match sd s' with SdCancel | SdWait | SdDone => mem_ev (EStopRet 0) (hist s') = true \/ launched s' = 0
   | _ => True end) ->
  InvGate c s'.
Proof.
  intros I Hlen Hnot Hran Hh Hp HL HG HC HS HO HD.
  constructor; auto.
  - rewrite Hlen. exact (ig_len _ _ I).
  - intros i H. apply (HL i H).
  - intros i H. apply (HG i H).
  - intros i H. destruct Hh as [E|[x [E Hx]]]; rewrite E in H.
    + apply Hran, (ig_called _ _ I), H.
    + unfold mem_ev in *. cbn [existsb] in H. apply orb_true_iff in H as [H|H].
      * destruct x; try discriminate H. cbn in H. apply Nat.eqb_eq in H. subst. now apply Hx.
      * apply Hran, (ig_called _ _ I), H.
  - intros j L H. destruct (rn_at s j) eqn:E.
    1: { apply HS; auto. }
    all: eapply hist_ext2_gate; [exact Hh|]; apply (ig_started _ _ I j L); rewrite E; discriminate.
  - intros i H. apply (HL i H).
  - intros i H. apply (HG i H).
Qed.

Lemma upd_keeps (P : rn_pc -> Prop) l i p :
  P p -> forall j, P (get RnDone l j) -> P (get RnDone (upd l i p) j).
Proof. intros Hp j H. destruct (get_upd_cases RnDone l i j p) as [-> | ->]; auto. Qed.

Lemma launch_pos_upd c s i p i0 :
  InvGate c s -> get RnDone (rn s) i <> RnNot -> main s = MLaunch i0 ->
  forall j, i0 <= j -> j < nrun c -> get RnDone (upd (rn s) i p) j = RnNot.
Proof.
  intros I Hi Hm j L1 L2. pose proof (ig_launch _ _ I i0 Hm j L1 L2) as Hj. unfold rn_at in Hj.
  rewrite get_upd_other; [exact Hj|]. intros ->. contradiction.
Qed.

Lemma gate_pos_upd c s i p i0 :
  InvGate c s -> get RnDone (rn s) i <> RnNot -> p <> RnNot ->
  main s = MGate i0 \/ main s = MGateCheck i0 ->
  get RnDone (upd (rn s) i p) i0 <> RnNot /\ i0 < nrun c /\
  forall j, i0 < j -> j < nrun c -> get RnDone (upd (rn s) i p) j = RnNot.
Proof.
  intros I Hi Hp Hm. destruct (ig_gate _ _ I i0 Hm) as (H1 & H2 & H3). unfold rn_at in *.
  repeat split; auto.
  - apply (upd_keeps (fun q => q <> RnNot)); auto.
  - intros j L1 L2. rewrite get_upd_other; [auto|]. intros ->. specialize (H3 _ L1 L2). contradiction.
Qed.

Lemma started_upd (s : state) i p j :
  get RnDone (rn s) i <> RnNot -> get RnDone (rn s) j = RnNot ->
  get RnDone (upd (rn s) i p) j <> RnNot -> False.
Proof.
  intros Hi Hj H. rewrite get_upd_other in H; [contradiction|]. intros ->. contradiction.
Qed.

Lemma launched_set_rn_started s i p :
  get RnDone (rn s) i <> RnNot -> p <> RnNot -> launched (set_rn s i p) = launched s.
Proof. intros. unfold launched. simp_st. now apply launched_upd_started. Qed.

Lemma upd_keeps_ran_launch l i j :
  get RnDone l i = RnNot -> ran (get RnDone l j) -> ran (get RnDone (upd l i RnLaunched) j).
Proof.
  intros Hi H. destruct (Nat.eq_dec i j) as [->|N]; [rewrite Hi in H; contradiction|].
  now rewrite get_upd_other.
Qed.

Lemma after_launch_cases c i m :
  after_launch c i = m -> (m = MLaunch (S i) /\ S i < nrun c) \/ m = MReap.
Proof.
  unfold after_launch. destruct (Nat.ltb (S i) (nrun c)) eqn:E; intros <-; [left|now right].
  split; [reflexivity|now apply Nat.ltb_lt].
Qed.

(* the context is cancelled: the trace shows it (a launched runnable exists) *)
Lemma ctx_evidence c s i :
  InvGate c s -> ctx_done s = true -> rn_at s i <> RnNot -> i < nrun c -> cancel_evidence (hist s) = true.
Proof.
  intros I Hc Hi Li. unfold ctx_done in Hc. apply orb_true_iff in Hc as [Ho|Hp].
  - pose proof (ig_own _ _ I Ho) as Hs. pose proof (ig_sd _ _ I) as Hd.
    assert (Hd' : mem_ev (EStopRet 0) (hist s) = true \/ launched s = 0) by (destruct (sd s); tauto).
    destruct Hd' as [H|H].
    + unfold cancel_evidence, mem_ev in *. apply existsb_exists in H as (e & Hin & He).
      apply existsb_exists. exists e. split; [exact Hin|]. destruct e; try discriminate He.
      cbn in He. destruct i0; [reflexivity|discriminate He].
    + exfalso. apply Hi. apply launched_zero; [exact H|]. now rewrite (ig_len _ _ I).
  - pose proof (ig_parent _ _ I Hp) as H.
    unfold cancel_evidence, mem_ev in *. apply existsb_exists in H as (e & Hin & He).
    apply existsb_exists. exists e. split; [exact Hin|]. destruct e; try discriminate He. reflexivity.
Qed.

Lemma sd_keep c s s' :
  InvGate c s -> sd s' = sd s -> launched s' = launched s ->
  (hist s' = hist s \/ exists e, hist s' = e :: hist s) ->
  match sd s' with SdCancel | SdWait | SdDone => mem_ev (EStopRet 0) (hist s') = true \/ launched s' = 0
  | _ => True end.
Proof.
  intros I Es El Eh. rewrite Es, El. pose proof (ig_sd _ _ I) as H.
  destruct (sd s); auto; (destruct H as [H|H]; [left|now right]);
    (destruct Eh as [->|[x ->]]; [exact H|now apply mem_ev_cons]).
Qed.

(* ---- before Run() has set p.runEntered nothing is started ---- *)
Definition pre_run (s : state) : Prop := main s = MNew \/ main s = MEntering.

Lemma get_in_range {A} (d : A) l i : get d l i <> d -> i < length l.
Proof.
  unfold get. intros H. destruct (Nat.lt_ge_cases i (length l)) as [L|L]; [exact L|].
  rewrite nth_overflow in H by exact L. congruence.
Qed.

Definition InvNew (c : config) (s : state) : Prop :=
  (pre_run s -> forall j, j < length (rn s) -> rn_at s j = RnNot) /\
  (pre_run s -> run_entered (aux s) = false) /\
  (run_entered (aux s) = false -> pre_run s).

Lemma InvNew_init c : InvNew c (init c).
Proof.
  split; [|split; [reflexivity|intros _; now left]].
  intros _ j L. unfold rn_at, get. cbn in *. rewrite repeat_length in L. now apply nth_repeat_lt'.
Qed.

Lemma InvNew_step c s l s' : InvNew c s -> step c s l = Some s' -> InvNew c s'.
Proof.
  intros (I1 & I2 & I3) H. unfold step in H. unfold pre_run in *.
  destruct l; cbn [step0] in H; unfold start_shutdown, store_state in H;
    step_cases H; inversion H; subst; clear H; (split; [|split]); unfold pre_run, rn_at in *; simp_st.
  all: try match goal with E : main _ = _ |- _ => rewrite E in * end.
  all: try exact I1.
  all: try exact I2.
  all: try exact I3.
  all: try (intros [X|X]; discriminate X).
  all: try (intros X; discriminate X).
  all: try (intros _; now right).
  all: try (intros _; reflexivity).
  all: try (intros _; apply I2; auto; fail).
  all: try (intros _; apply I1; auto; fail).
  all: try (intros X; exfalso; destruct (I3 X) as [Y|Y]; congruence).
  all: try (intros X; exfalso; congruence).
  all: try (intros _; exfalso; destruct (I3 eq_refl) as [Y|Y]; discriminate Y).
  all: try (intros X; exfalso; specialize (I2 X); discriminate I2).
  all: try (intros [X|X]; apply after_launch_cases in X as [[X _]|X]; discriminate X).
  all: try (intros X; exfalso; apply after_launch_cases in X as [[X _]|X]; discriminate X).
  all: try (intros [X|X]; exfalso; congruence).
  (* a runnable goroutine moved: impossible before anything was started *)
  all: try (intros X j Lj; exfalso;
            match goal with E : get RnDone (rn ?s0) ?i = _ |- _ =>
              assert (Li : i < length (rn s0)) by (apply (get_in_range RnDone); rewrite E; discriminate);
              rewrite (I1 X i Li) in E; discriminate E end).
Qed.

Lemma InvNew_reachable c s : reachable_sup c s -> InvNew c s.
Proof. apply sup_inv; [apply InvNew_init|apply InvNew_step]. Qed.

(* ... and no runnable has reported an error *)
Definition InvNewQ (s : state) : Prop := pre_run s -> errq s = [].

Lemma InvNewQ_step c s l s' : InvNew c s -> InvNewQ s -> step c s l = Some s' -> InvNewQ s'.
Proof.
  intros (I1 & _) IQ H. unfold step in H. unfold InvNewQ, pre_run in *.
  destruct l; cbn [step0] in H; unfold start_shutdown, store_state in H;
    step_cases H; inversion H; subst; clear H; simp_st.
  all: try match goal with E : main _ = _ |- _ => rewrite E in * end.
  all: try exact IQ.
  all: try (intros [X|X]; discriminate X).
  all: try (intros [X|X]; apply after_launch_cases in X as [[X _]|X]; discriminate X).
  all: try (intros _; apply IQ; auto; fail).
  all: try (intros X; exfalso;
            match goal with E : rn_at ?s0 ?i = _ |- _ =>
              assert (Li : i < length (rn s0)) by (apply (get_in_range RnDone); unfold rn_at in E; rewrite E; discriminate);
              rewrite (I1 X i Li) in E; discriminate E end).
Qed.

Lemma InvNewQ_reachable c s : reachable_sup c s -> InvNewQ s.
Proof.
  intros Hr.
  assert (G : InvNew c s /\ InvNewQ s).
  { revert s Hr. apply sup_inv.
    - split; [apply InvNew_init|intros _; reflexivity].
    - intros s0 l s1 [A B] Hs. split; [eapply InvNew_step; eassumption|eapply InvNewQ_step; eassumption]. }
  apply G.
Qed.

(* ---- before Run() has been entered there is no manager, listener or monitor ---- *)
Definition mgrs_absent (s : state) : Prop :=
  rm s = RmAbsent /\ sdm_done s = true /\ stm_done s = true /\
  (forall i, get LsAbsent (rls s) i = LsAbsent) /\ (forall i, get LsAbsent (sls s) i = LsAbsent) /\
  (forall i, mon_at s i = MoAbsent).

Definition InvAbs (s : state) : Prop := pre_run s -> mgrs_absent s.

Lemma get_map_const {A B} (d y : B) (l : list A) i : y = d -> get d (map (fun _ => y) l) i = d.
Proof. intros ->. unfold get. revert i. induction l as [|x l IH]; intros [|i]; cbn; auto. Qed.

Lemma InvAbs_init c : InvAbs (init c).
Proof.
  intros _. unfold mgrs_absent, mon_at. cbn. repeat split; intros i; now apply get_map_const.
Qed.

Lemma InvAbs_step c s l s' : InvAbs s -> step c s l = Some s' -> InvAbs s'.
Proof.
  intros IA H. unfold step in H. unfold InvAbs, pre_run, mgrs_absent, mon_at in *.
  destruct l; cbn [step0] in H; unfold start_shutdown, store_state in H;
    step_cases H; inversion H; subst; clear H; simp_st.
  all: try match goal with E : main _ = _ |- _ => rewrite E in * end.
  all: try exact IA.
  all: try (intros [X|X]; discriminate X).
  all: try (intros [X|X]; apply after_launch_cases in X as [[X _]|X]; discriminate X).
  all: try (intros _; apply IA; auto; fail).
  (* a manager, listener or monitor moved: there is none *)
  all: try (intros X; exfalso; destruct (IA X) as (A1 & A2 & A3 & A4 & A5 & A6);
            first [ congruence
                  | match goal with E : get LsAbsent (rls _) ?i = _ |- _ => rewrite A4 in E; discriminate E end
                  | match goal with E : get LsAbsent (sls _) ?i = _ |- _ => rewrite A5 in E; discriminate E end
                  | match goal with E : get MoAbsent (mon _) ?i = _ |- _ => rewrite A6 in E; discriminate E end
                  | match goal with E : mon_at _ ?i = _ |- _ => unfold mon_at in E; rewrite A6 in E; discriminate E end
                  | match goal with E : negb (sdm_done _) && _ = true |- _ => rewrite A2 in E; discriminate E end
                  | match goal with E : negb (stm_done _) && _ = true |- _ => rewrite A3 in E; discriminate E end ]).
Qed.

Lemma InvAbs_reachable c s : reachable_sup c s -> InvAbs s.
Proof. apply sup_inv; [apply InvAbs_init|apply InvAbs_step]. Qed.

(* ---- a Shutdown that closed the launch gate before Run() was entered is marked sd_all ---- *)
Definition InvSdAll (s : state) : Prop :=
  sd s <> SdNot -> run_entered (aux s) = false -> sd_all (aux s) = true.

Lemma InvSdAll_step c s l s' : InvSdAll s -> step c s l = Some s' -> InvSdAll s'.
Proof.
  intros IA H. unfold step in H. unfold InvSdAll in *.
  destruct l; cbn [step0] in H; unfold start_shutdown, store_state in H;
    step_cases H; inversion H; subst; clear H; simp_st.
  all: try exact IA.
  all: try (intros _ X; discriminate X).
  all: try (intros _ _; reflexivity).
  all: try (intros _ X; congruence).
  all: try (intros X; contradiction).
  all: try (intros _; apply IA; congruence).
Qed.

Lemma InvSdAll_reachable c s : reachable_sup c s -> InvSdAll s.
Proof. apply sup_inv; [intros X; contradiction|apply InvSdAll_step]. Qed.

(* the managers exist iff Run() was entered while the launch gate was open *)
Definition mgrs_on (s : state) : Prop := run_entered (aux s) = true /\ sd_all (aux s) = false.

(* ---- the labels that move the start-up loop ---- *)

Lemma rn_same_obl (s : state) (P : nat -> Prop) :
  forall j, j < 0 + length (rn s) -> get RnDone (rn s) j = RnNot -> get RnDone (rn s) j <> RnNot -> P j.
Proof. intros j _ E N. congruence. Qed.

Lemma L_launch c s i m :
  InvGate c s -> main s = MLaunch i -> sd s = SdNot -> i < nrun c ->
  (m = MGate i \/ (m = after_launch c i /\ stateable (spec c i) = false)) ->
  InvGate c (set_main (set_rn s i RnLaunched) m).
Proof.
  intros I Em Es Li Hm.
  assert (Hi : get RnDone (rn s) i = RnNot) by (apply (ig_launch _ _ I i Em i); lia).
  assert (Hlen : i < length (rn s)) by (now rewrite (ig_len _ _ I)).
  assert (Hafter : forall j, i < j -> j < nrun c -> get RnDone (upd (rn s) i RnLaunched) j = RnNot).
  { intros j L1 L2. rewrite get_upd_other by lia. apply (ig_launch _ _ I i Em j); lia. }
  assert (Hsame : get RnDone (upd (rn s) i RnLaunched) i = RnLaunched) by (now apply get_upd_same).
  eapply InvGate_gen; [exact I|..]; unfold rn_at in *; simp_st.
  - apply upd_length.
  - apply (upd_keeps (fun q => q <> RnNot)). discriminate.
  - intros j. now apply upd_keeps_ran_launch.
  - now left.
  - exact (ig_parent _ _ I).
  - intros i0 E0. destruct Hm as [->|[-> Hst]]; [discriminate E0|].
    apply after_launch_cases in E0 as [[E0 L]|E0]; [injection E0 as ->|discriminate E0]. split.
    + intros j L1 L2. apply Hafter; lia.
    + apply gate_ok_S; [exact (ig_pos_launch _ _ I i Em)|]. rewrite Hst. discriminate.
  - intros i0 E0. destruct Hm as [->|[-> Hst]].
    + assert (i0 = i) by (destruct E0 as [E0|E0]; [now injection E0|discriminate E0]). subst i0.
      split; [|exact (ig_pos_launch _ _ I i Em)]. rewrite Hsame. repeat split; auto. discriminate.
    + destruct E0 as [E0|E0]; apply after_launch_cases in E0 as [[E0 _]|E0]; discriminate E0.
  - intros i0 E0. destruct Hm as [->|[-> Hst]]; [discriminate E0|].
    apply after_launch_cases in E0 as [[E0 _]|E0]; discriminate E0.
  - intros j L E N. destruct (Nat.eq_dec i j) as [<-|Nj].
    + exact (ig_pos_launch _ _ I i Em).
    + rewrite get_upd_other in N by exact Nj. contradiction.
  - intros Ho. pose proof (ig_own _ _ I Ho) as X. now rewrite Es in X.
  - now rewrite Es.
Qed.

Lemma L_poll c s i :
  InvGate c s -> main s = MGate i ->
  InvGate c (with_hist (set_polling (set_main s (MGateCheck i)) false) (EPoll i true)).
Proof.
  intros I Em.
  eapply InvGate_gen; [exact I|..]; unfold rn_at in *; simp_st; auto.
  - right. eexists. split; [reflexivity|]. intros ? Hx; discriminate Hx.
  - intros Hp. apply mem_ev_cons. exact (ig_parent _ _ I Hp).
  - intros i0 E0; discriminate E0.
  - intros i0 [E0|E0]; [discriminate E0|]. injection E0 as <-. split.
    + exact (ig_gate _ _ I i (or_introl Em)).
    + apply gate_ok_cons. exact (ig_pos_gate _ _ I i (or_introl Em)).
  - intros i0 E0. injection E0 as <-. unfold mem_ev. cbn [existsb]. now rewrite event_eqb_refl.
  - intros j L E N; congruence.
  - exact (ig_own _ _ I).
  - pose proof (sd_keep c s (with_hist (set_polling (set_main s (MGateCheck i)) false) (EPoll i true)) I eq_refl eq_refl) as X.
    apply X. right. eexists. reflexivity.
Qed.

Lemma L_open c s i :
  InvGate c s ->
  (main s = MGateCheck i \/ (main s = MGate i /\ ctx_done s = true)) ->
  InvGate c (set_main s (after_launch c i)).
Proof.
  intros I Hsrc.
  assert (Hpos : main s = MGate i \/ main s = MGateCheck i) by tauto.
  destruct (ig_gate _ _ I i Hpos) as (G1 & G2 & G3).
  assert (Hok : gate_ok c (S i) (hist s)).
  { destruct Hsrc as [Em|[Em Hc]].
    - apply gate_ok_S; [exact (ig_pos_gate _ _ I i Hpos)|]. intros _. exact (ig_pos_check _ _ I i Em).
    - left. eapply ctx_evidence; eauto. }
  eapply InvGate_gen; [exact I|..]; unfold rn_at in *; simp_st; auto.
  - now left.
  - exact (ig_parent _ _ I).
  - intros i0 E0. apply after_launch_cases in E0 as [[E0 L]|E0]; [injection E0 as ->|discriminate E0].
    split; [|exact Hok]. intros j L1 L2. apply G3; lia.
  - intros i0 [E0|E0]; apply after_launch_cases in E0 as [[E0 _]|E0]; discriminate E0.
  - intros i0 E0. apply after_launch_cases in E0 as [[E0 _]|E0]; discriminate E0.
  - intros j L E N; congruence.
  - exact (ig_own _ _ I).
  - exact (ig_sd _ _ I).
Qed.

Ltac hist2_tac := first [left; reflexivity | right; eexists; split; [reflexivity|intros ? Hx; discriminate Hx]].
Ltac hist_tac := first [left; reflexivity | right; eexists; split; [reflexivity|intros; discriminate]].

Lemma InvGate_step c s l s' : InvNew c s -> InvGate c s -> step c s l = Some s' -> InvGate c s'.
Proof.
  intros IN I H. unfold step in H.
  destruct l; cbn [step0] in H; unfold start_shutdown, store_state in H;
    step_cases H; inversion H; subst; clear H.
  all: repeat match goal with E : _ && _ = true |- _ => apply andb_true_iff in E as [? ?] end.
  all: repeat match goal with E : (_ =? _) = true |- _ => apply Nat.eqb_eq in E; subst end.
  all: repeat match goal with E : (_ <? _) = true |- _ => apply Nat.ltb_lt in E end.
  all: try (eapply L_launch; [exact I|eassumption|eassumption|eassumption|first [now left|right; split; [reflexivity|assumption]]]; fail).
  all: try (eapply L_poll; [exact I|eassumption]; fail).
  all: try (eapply L_open; [exact I|first [left; eassumption|right; split; eassumption]]; fail).
  all: try (eapply InvGate_frame; [exact I|reflexivity|reflexivity| |reflexivity|reflexivity|hist_tac];
            first [left; reflexivity|right; split; [assumption|reflexivity]]; fail).
  all: eapply InvGate_gen; [exact I|..]; unfold rn_at in *; simp_st.
  (* 1: length *)
  all: try (rewrite ?upd_length; reflexivity).
  (* frame-like obligations when nothing relevant changed *)
  all: try (intros; assumption).
  all: try (intros ? Hm; discriminate Hm).
  all: try (intros ? [Hm|Hm]; discriminate Hm).
  all: try hist2_tac.
  all: try exact (ig_parent _ _ I).
  all: try (intros Hp; apply mem_ev_cons; exact (ig_parent _ _ I Hp)).
  all: try exact (ig_own _ _ I).
  all: try exact (ig_sd _ _ I).
  (* runnables keep their status *)
  all: try (apply (upd_keeps (fun q => q <> RnNot)); discriminate).
  all: try (apply (upd_keeps ran); exact I).
  (* nothing newly started *)
  all: try (intros j L E N; congruence).
  all: try (intros j L E N; exfalso; eapply started_upd; [|exact E|exact N];
            match goal with H : get RnDone (rn _) _ = _ |- _ => rewrite H; discriminate end).
  (* positions: main unchanged *)
  all: try (intros ii Hmm; split; [exact (ig_launch _ _ I ii Hmm)|
            first [exact (ig_pos_launch _ _ I ii Hmm)|apply gate_ok_cons; exact (ig_pos_launch _ _ I ii Hmm)]]).
  all: try (intros ii Hmm; split; [exact (ig_gate _ _ I ii Hmm)|
            first [exact (ig_pos_gate _ _ I ii Hmm)|apply gate_ok_cons; exact (ig_pos_gate _ _ I ii Hmm)]]).
  all: try (intros ii Hmm; first [exact (ig_pos_check _ _ I ii Hmm)|apply mem_ev_cons; exact (ig_pos_check _ _ I ii Hmm)]).
  all: try (intros ii Hmm; split;
            [eapply launch_pos_upd; [exact I| |exact Hmm];
             match goal with H : get RnDone (rn _) _ = _ |- _ => rewrite H; discriminate end
            |first [exact (ig_pos_launch _ _ I ii Hmm)|apply gate_ok_cons; exact (ig_pos_launch _ _ I ii Hmm)]]).
  all: try (intros ii Hmm; split;
            [eapply gate_pos_upd; [exact I| |discriminate|exact Hmm];
             match goal with H : get RnDone (rn _) _ = _ |- _ => rewrite H; discriminate end
            |first [exact (ig_pos_gate _ _ I ii Hmm)|apply gate_ok_cons; exact (ig_pos_gate _ _ I ii Hmm)]]).
  (* a *)
  all: try (apply (upd_keeps ran); exact Logic.I).
  (* guards *)
  all: repeat match goal with E : _ && _ = true |- _ => apply andb_true_iff in E as [? ?] end.
  all: repeat match goal with E : (_ =? _) = true |- _ => apply Nat.eqb_eq in E; subst end.
  all: repeat match goal with E : (_ <? _) = true |- _ => apply Nat.ltb_lt in E end.
  (* shutdown body *)
  all: try (intros Ho; pose proof (ig_own _ _ I Ho) as X;
            match goal with E : sd _ = _ |- _ => rewrite E in X end; contradiction).
  all: try (match goal with |- context [launched ?s'] =>
              match goal with |- match sd _ with _ => _ end =>
                apply (sd_keep c s s' I eq_refl);
                [unfold launched; simp_st; apply launched_upd_started;
                 [match goal with H : get RnDone (rn _) _ = _ |- _ => rewrite H; discriminate end|discriminate]
                |first [left; reflexivity|right; eexists; reflexivity]] end end).
  all: try (match goal with |- match sd_next ?k with _ => _ end =>
              destruct k as [|k']; cbn [sd_next]; [|exact Logic.I]; left; unfold mem_ev; cbn [existsb];
              now rewrite event_eqb_refl end).
  all: try (destruct (launched s) eqn:EL; cbn [sd_next]; [right; exact EL|exact Logic.I]).
  all: try (pose proof (ig_sd _ _ I) as X; match goal with E : sd _ = _ |- _ => rewrite E in X end; exact X).
  all: try (right; eexists; split; [reflexivity|]; intros jj Hj; injection Hj as <-; unfold rn_at; simp_st;
            rewrite get_upd_same; [exact Logic.I|rewrite (ig_len _ _ I); assumption]).
  all: try (intros j Hj; destruct (Nat.eq_dec i j) as [->|N];
            [match goal with E : get RnDone (rn _) _ = RnLaunched |- _ => rewrite E in Hj; contradiction end
            |now rewrite get_upd_other]).
  (* Run() has just been entered: nothing is started yet *)
  all: try (intros ii Hmm; injection Hmm as <-; split;
            [intros j _ Lj; apply (proj1 IN); [right; assumption|rewrite (ig_len _ _ I); exact Lj]
            |right; intros ? Hk0; lia]).
  (* shutdown starts now *)
  all: try exact (ig_sd_start c s (ig_len _ _ I)).
Qed.

Lemma InvGate_reachable c s : reachable_sup c s -> InvGate c s.
Proof.
  intros Hr.
  assert (G : InvNew c s /\ InvGate c s).
  { revert s Hr. apply sup_inv.
    - split; [apply InvNew_init|apply InvGate_init].
    - intros s0 l s1 [IN I] Hs. split; [eapply InvNew_step; eassumption|eapply InvGate_step; eassumption]. }
  apply G.
Qed.

Lemma mem_ev_rev e h : mem_ev e (rev h) = mem_ev e h.
Proof.
  unfold mem_ev. destruct (existsb (event_eqb e) h) eqn:E.
  - apply existsb_exists in E as (x & Hin & Hx). apply existsb_exists. exists x. split; [now apply in_rev in Hin|exact Hx].
  - destruct (existsb (event_eqb e) (rev h)) eqn:E'; [|reflexivity].
    apply existsb_exists in E' as (x & Hin & Hx). apply in_rev in Hin.
    assert (existsb (event_eqb e) h = true) by (apply existsb_exists; now exists x). congruence.
Qed.

Lemma cancel_evidence_rev h : cancel_evidence h = true -> cancel_evidence (rev h) = true.
Proof.
  unfold cancel_evidence. intros H. apply existsb_exists in H as (x & Hin & Hx).
  apply existsb_exists. exists x. split; [now apply in_rev in Hin|exact Hx].
Qed.

(* C03: a runnable's Run is invoked only after every Stateable runnable registered before it
   reported ready, unless the supervisor's context was cancelled *)
Theorem sup_c03_gate c ls s :
  run (step c) (init c) ls = Some s -> c03_gate c (obs_trace obs ls) = true.
Proof.
  intros H. eapply all_check_reachable; [|exact H].
  intros s0 l s1 e Hre Hs Ho. destruct e; try reflexivity. cbn [chk_gate].
  destruct l; try discriminate Ho. injection Ho as ->.
  pose proof (InvGate_reachable _ _ Hre) as I.
  unfold step in Hs. cbn [step0] in Hs.
  assert (LN : i < nrun c /\ rn_at s0 i <> RnNot).
  { destruct (rn_at s0 i) eqn:Er; try discriminate Hs; (split; [|discriminate]);
      destruct (Nat.ltb i (nrun c)) eqn:L; try (apply Nat.ltb_lt in L; exact L);
      cbn [andb] in Hs; discriminate Hs. }
  destruct LN as [L N].
  destruct (ig_started _ _ I i L N) as [G|G].
  - rewrite (cancel_evidence_rev _ G). reflexivity.
  - apply orb_true_iff; right. apply forallb_forall. intros k Hk. apply in_seq in Hk.
    destruct (stateable (spec c k)) eqn:Sk; [|reflexivity]. cbn [negb orb].
    rewrite mem_ev_rev. apply G; [lia|exact Sk].
Qed.

(* C03: each runnable's Run is invoked at most once *)
Theorem sup_c03_once c ls s :
  run (step c) (init c) ls = Some s -> c03_once c (obs_trace obs ls) = true.
Proof.
  intros H. eapply all_check_reachable; [|exact H].
  intros s0 l s1 e Hre Hs Ho. destruct e; try reflexivity. cbn [chk_once].
  destruct l; try discriminate Ho. injection Ho as ->.
  pose proof (InvGate_reachable _ _ Hre) as I.
  unfold step in Hs. cbn [step0] in Hs.
  destruct (rn_at s0 i) eqn:Er; try discriminate Hs;
    (rewrite mem_ev_rev; destruct (mem_ev (ERunCall i) (hist s0)) eqn:M; [|reflexivity];
     pose proof (ig_called _ _ I i M) as R; rewrite Er in R; contradiction).
Qed.

(* C03 (abort): once Run() has left its start-up loop - after a start-up failure, a closed launch
   gate or normally - no further runnable is ever started *)
Definition past_startup (s : state) : Prop :=
  match main s with MNew | MEntering | MLaunch _ | MGate _ | MGateCheck _ => False | _ => True end.

Lemma past_startup_step c s l s' :
  past_startup s -> step c s l = Some s' -> past_startup s' /\ launched s' = launched s.
Proof.
  intros P H. unfold past_startup in *. pose proof (InvGate_frame) as _.
  unfold step in H.
  destruct l; cbn [step0] in H; unfold start_shutdown, store_state in H;
    step_cases H; inversion H; subst; clear H; try contradiction.
  all: split; [simp_st; try exact P; try exact Logic.I;
               try (match goal with E : main _ = _ |- _ => rewrite E in P; exact P end);
               try (match goal with E : main _ = _ |- _ => rewrite E; exact Logic.I end)|].
  all: unfold launched; simp_st; try reflexivity.
  all: apply launched_upd_started;
    first [discriminate | match goal with H : rn_at _ _ = _ |- _ => unfold rn_at in H; rewrite H; discriminate end].
Qed.

Theorem sup_c03_abort c s ls s' :
  past_startup s -> run (step c) s ls = Some s' -> launched s' = launched s.
Proof.
  revert s; induction ls as [|l ls IH]; intros s P H.
  - now injection H as <-.
  - cbn [run] in H. destruct (step c s l) as [s1|] eqn:E; [|discriminate].
    destruct (past_startup_step _ _ _ _ P E) as [P1 L1]. rewrite (IH _ P1 H). exact L1.
Qed.
