(* C05: reload passes are serialized, in registration order, exactly once per Reloadable. *)
From Coq Require Import List NArith Bool Arith Lia.
From GS Require Import LTS Supervisor SupAccept SupProps SupInv SupStop SupTrig SupGate.
Import ListNotations.

Definition ev2 (i : nat) : list event := [EReloadCall i; EReloadRet i].

(* the reload events of a pass that has dealt with all indices below k *)
Definition partial (c : config) (k : nat) : list event :=
  flat_map ev2 (filter (fun i => reloadable (spec c i)) (seq 0 k)).

Lemma partial_S c k :
  partial c (S k) = partial c k ++ (if reloadable (spec c k) then ev2 k else []).
Proof.
  unfold partial. rewrite seq_S, filter_app, flat_map_app. cbn [plus filter].
  destruct (reloadable (spec c k)); cbn; now rewrite ?app_nil_r.
Qed.

Lemma partial_skip c j k :
  j <= k -> (forall i, j <= i -> i < k -> reloadable (spec c i) = false) -> partial c k = partial c j.
Proof.
  induction 1 as [|k L IH]; intros H; [reflexivity|].
  rewrite partial_S, H by lia. rewrite app_nil_r. apply IH. intros i L1 L2. apply H; lia.
Qed.

Lemma one_pass_partial c : one_pass c = partial c (nrun c).
Proof. reflexivity. Qed.

(* specification of next_reloadable *)
Lemma next_reloadable_spec l j fuel :
  let k := next_reloadable l j fuel in
  j <= k /\ (forall i, j <= i -> i < k -> reloadable (nth i l dflt_spec) = false) /\
  (length l - j <= fuel -> k < length l -> reloadable (nth k l dflt_spec) = true) /\
  (length l - j <= fuel -> j <= length l -> k <= length l).
Proof.
  revert j; induction fuel as [|f IH]; intros j; cbn [next_reloadable].
  - split; [lia|]. split; [intros; lia|]. split; intros; lia.
  - destruct (reloadable (nth j l dflt_spec)) eqn:R.
    + split; [lia|]. split; [intros; lia|]. split; [intros; assumption|intros; lia].
    + destruct (Nat.leb (length l) j) eqn:L.
      * apply Nat.leb_le in L. split; [lia|]. split; [intros; lia|]. split; intros; lia.
      * apply Nat.leb_gt in L. destruct (IH (S j)) as (A & B & C & D).
        split; [lia|]. split; [|split].
        -- intros i L1 L2. destruct (Nat.eq_dec i j) as [->|N]; [exact R|apply B; lia].
        -- intros Hf Hk. apply C; lia.
        -- intros Hf Hj. apply D; lia.
Qed.

Lemma rm_after_next c j k :
  j <= nrun c -> rm_after c j = RmNext k ->
  j <= k /\ k < nrun c /\ reloadable (spec c k) = true /\ partial c k = partial c j.
Proof.
  unfold rm_after, nrun, spec. intros Hj H.
  destruct (next_reloadable_spec (specs c) j (length (specs c))) as (A & B & C & D).
  set (k0 := next_reloadable (specs c) j (length (specs c))) in *.
  destruct (Nat.ltb k0 (length (specs c))) eqn:L; [|discriminate H]. injection H as <-.
  apply Nat.ltb_lt in L. repeat split; auto.
  - apply C; [lia|exact L].
  - apply partial_skip; auto.
Qed.

Lemma rm_after_idle c j :
  j <= nrun c -> rm_after c j = RmIdle -> partial c (nrun c) = partial c j.
Proof.
  unfold rm_after, nrun, spec. intros Hj H.
  destruct (next_reloadable_spec (specs c) j (length (specs c))) as (A & B & C & D).
  set (k0 := next_reloadable (specs c) j (length (specs c))) in *.
  destruct (Nat.ltb k0 (length (specs c))) eqn:L; [discriminate H|].
  apply Nat.ltb_ge in L. assert (k0 = length (specs c)) by (specialize (D ltac:(lia) Hj); lia).
  apply partial_skip; [exact Hj|]. intros i L1 L2. apply B; lia.
Qed.

Lemma rm_after_cases c j : (exists k, rm_after c j = RmNext k) \/ rm_after c j = RmIdle.
Proof. unfold rm_after. destruct (Nat.ltb _ _); [left; eexists; reflexivity|now right]. Qed.

Definition revs (s : state) : list event := reload_evs (rev (hist s)).

Lemma revs_cons_other s e h :
  hist s = e :: h -> is_reload_ev e = false -> revs s = reload_evs (rev h).
Proof.
  intros E He. unfold revs, reload_evs. rewrite E. cbn [rev]. rewrite filter_app. cbn [filter].
  rewrite He. apply app_nil_r.
Qed.

Lemma revs_cons_reload s e h :
  hist s = e :: h -> is_reload_ev e = true -> revs s = reload_evs (rev h) ++ [e].
Proof.
  intros E He. unfold revs, reload_evs. rewrite E. cbn [rev]. rewrite filter_app. cbn [filter].
  now rewrite He.
Qed.

Definition InvReload (c : config) (s : state) : Prop :=
  exists k,
    match rm s with
    | RmNext j => j < nrun c /\ reloadable (spec c j) = true /\
                  revs s = repeat_pass (one_pass c) k ++ partial c j
    | RmIn j => j < nrun c /\ reloadable (spec c j) = true /\
                revs s = repeat_pass (one_pass c) k ++ partial c j ++ [EReloadCall j]
    | _ => revs s = repeat_pass (one_pass c) k
    end.

(* how one step changes the reload manager and the reload events *)
Inductive rm_effect (c : config) (s s' : state) : Prop :=
| re_accept : rm s = RmIdle -> rm s' = rm_after c 0 -> revs s' = revs s -> rm_effect c s s'
| re_call j : rm s = RmNext j -> rm s' = RmIn j -> hist s' = EReloadCall j :: hist s -> rm_effect c s s'
| re_ret j : rm s = RmIn j -> rm s' = rm_after c (S j) -> hist s' = EReloadRet j :: hist s -> rm_effect c s s'
| re_start : pre_run s -> (rm s' = RmIdle \/ rm s' = RmAbsent) -> revs s' = revs s -> rm_effect c s s'
| re_other : revs s' = revs s ->
             (rm s' = rm s \/ (rm s = RmIdle /\ rm s' = RmDrain) \/ (rm s = RmDrain /\ rm s' = RmDone)) ->
             rm_effect c s s'.

Ltac rm_other :=
  apply re_other;
  [ first [ reflexivity
          | (eapply eq_trans; [eapply revs_cons_other; [cbn; reflexivity|reflexivity]|]; reflexivity) ]
  | cbn; auto ].

Lemma step_rm_effect c s l s' : step c s l = Some s' -> rm_effect c s s'.
Proof.
  intros H. unfold step in H.
  destruct l; cbn [step0] in H; unfold start_shutdown, store_state in H;
    step_cases H; inversion H; subst; clear H.
  all: try (rm_other; fail).
  all: repeat match goal with E : _ && _ = true |- _ => apply andb_true_iff in E as [? ?] end.
  all: repeat match goal with E : (_ =? _) = true |- _ => apply Nat.eqb_eq in E; subst end.
  all: try (eapply re_accept; [eassumption|cbn; reflexivity|reflexivity]; fail).
  all: try (eapply re_call; [eassumption|cbn; reflexivity|cbn; reflexivity]; fail).
  all: try (eapply re_ret; [eassumption|cbn; reflexivity|cbn; reflexivity]; fail).
  all: try (apply re_start; [right; assumption|cbn; destruct (any_spec reloadable c); auto|reflexivity]; fail).
Qed.

Lemma InvReload_init c : InvReload c (init c).
Proof. exists 0. reflexivity. Qed.

Lemma repeat_pass_S p k : repeat_pass p k ++ p = repeat_pass p (S k).
Proof. induction k as [|k IH]; cbn [repeat_pass]; [now rewrite app_nil_r|]. now rewrite <- app_assoc, IH. Qed.

Lemma InvReload_step c s l s' : InvAbs s -> InvReload c s -> step c s l = Some s' -> InvReload c s'.
Proof.
  intros IA [k Hk] H. unfold InvReload.
  destruct (step_rm_effect _ _ _ _ H) as [Ei Ea Er | j En Ei Eh | j Ei Ea Eh | Ep Em Er | Er Em].
  - (* accept: a new pass begins *)
    rewrite Ei in Hk. rewrite Ea, Er, Hk. exists k.
    destruct (rm_after_cases c 0) as [[j Ej]|Ej]; rewrite Ej.
    + destruct (rm_after_next c 0 j ltac:(lia) Ej) as (_ & L & R & P). repeat split; auto.
      rewrite P. unfold partial. cbn. now rewrite app_nil_r.
    + reflexivity.
  - (* Reload(j) is called *)
    rewrite En in Hk. destruct Hk as (L & R & Hr). rewrite Ei. exists k. repeat split; auto.
    eapply eq_trans; [eapply revs_cons_reload; [exact Eh|reflexivity]|].
    fold (revs s). rewrite Hr. now rewrite <- app_assoc.
  - (* Reload(j) returns *)
    rewrite Ei in Hk. destruct Hk as (L & R & Hr).
    assert (Hr' : revs s' = repeat_pass (one_pass c) k ++ partial c (S j)).
    { eapply eq_trans; [eapply revs_cons_reload; [exact Eh|reflexivity]|].
      fold (revs s). rewrite Hr, partial_S, R. unfold ev2. now rewrite <- !app_assoc. }
    rewrite Ea. destruct (rm_after_cases c (S j)) as [[j' Ej]|Ej]; rewrite Ej.
    + destruct (rm_after_next c (S j) j' ltac:(lia) Ej) as (_ & L' & R' & P).
      exists k. repeat split; auto. now rewrite P.
    + exists (S k). rewrite Hr', <- (rm_after_idle c (S j) ltac:(lia) Ej), <- one_pass_partial.
      apply repeat_pass_S.
  - (* Run() entered: the manager is created (or not) *)
    destruct (IA Ep) as (Ea & _). rewrite Ea in Hk. rewrite Er. exists k.
    destruct Em as [E|E]; rewrite E; exact Hk.
  - (* nothing about reloads *)
    rewrite Er. exists k.
    destruct Em as [E|[[E E']|[E E']]]; [now rewrite E|rewrite E in Hk; now rewrite E'|rewrite E in Hk; now rewrite E'].
Qed.

Lemma InvReload_reachable c s : reachable_sup c s -> InvReload c s.
Proof.
  intros Hr.
  assert (G : InvAbs s /\ InvReload c s).
  { revert s Hr. apply sup_inv.
    - split; [apply InvAbs_init|apply InvReload_init].
    - intros s0 l s1 [IA I] Hs. split; [eapply InvAbs_step; eassumption|eapply InvReload_step; eassumption]. }
  apply G.
Qed.

Lemma prefixb_app_r a b c0 : prefixb a b = true -> prefixb a (b ++ c0) = true.
Proof.
  revert b; induction a as [|x a IH]; intros [|y b] H; cbn in *; try discriminate; auto.
  apply andb_true_iff in H as [-> H]. cbn. auto.
Qed.

Lemma repeat_pass_prefix p k m : k <= m -> exists q, repeat_pass p m = repeat_pass p k ++ q.
Proof.
  induction 1 as [|m L [q IH]]; [exists []; now rewrite app_nil_r|].
  exists (q ++ p). rewrite <- repeat_pass_S, IH. now rewrite app_assoc.
Qed.

Lemma partial_prefix_pass c j : j <= nrun c -> exists q, one_pass c = partial c j ++ q.
Proof.
  intros L. rewrite one_pass_partial. induction L as [|m L [q IH]]; [exists []; now rewrite app_nil_r|].
  rewrite partial_S, IH. eexists. now rewrite <- app_assoc.
Qed.

Lemma repeat_pass_length p k : length (repeat_pass p k) = k * length p.
Proof. induction k as [|k IH]; cbn [repeat_pass]; [reflexivity|]. rewrite app_length, IH. lia. Qed.

(* any such sequence is a prefix of sufficiently many full passes *)
Lemma shape_prefix_gen (P extra q : list event) k :
  P = extra ++ q -> P <> [] ->
  prefixb (repeat_pass P k ++ extra) (repeat_pass P (S (length (repeat_pass P k ++ extra)))) = true.
Proof.
  intros HP Hne.
  assert (Lk : k <= length (repeat_pass P k ++ extra)).
  { rewrite app_length, repeat_pass_length. destruct P; [congruence|]. cbn [length]. nia. }
  destruct (repeat_pass_prefix P (S k) (S (length (repeat_pass P k ++ extra))) ltac:(lia)) as [q' Hq'].
  rewrite Hq', <- repeat_pass_S.
  replace ((repeat_pass P k ++ P) ++ q') with ((repeat_pass P k ++ extra) ++ (q ++ q')).
  - apply prefixb_app.
  - rewrite HP at 3. now rewrite <- !app_assoc.
Qed.

Lemma shape_prefix c k (extra : list event) r :
  r = repeat_pass (one_pass c) k ++ extra ->
  (exists q, one_pass c = extra ++ q) ->
  one_pass c <> [] ->
  prefixb r (repeat_pass (one_pass c) (S (length r))) = true.
Proof. intros -> [q Hq] Hne. eapply shape_prefix_gen; eassumption. Qed.

Theorem sup_c05_shape c ls s :
  run (step c) (init c) ls = Some s -> c05_shape c (obs_trace obs ls) = true.
Proof.
  intros H. rewrite (trace_is_history _ _ _ H).
  destruct (InvReload_reachable c s (ex_intro _ ls H)) as [k Hk].
  unfold c05_shape. fold (revs s).
  destruct (one_pass c) as [|e0 p0] eqn:Ep.
  - (* no Reloadable runnable: no reload event at all *)
    assert (Hp : forall j, partial c j = [] \/ j > nrun c).
    { intros j. destruct (Nat.le_gt_cases j (nrun c)) as [L|L]; [left|now right].
      destruct (partial_prefix_pass c j L) as [q Hq]. rewrite Ep in Hq.
      destruct (partial c j); [reflexivity|discriminate]. }
    assert (Hz : forall k0, repeat_pass (@nil event) k0 = []) by (induction k0; cbn; auto).
    destruct (rm s) eqn:Er; try (rewrite Hk, Hz; reflexivity).
    + destruct Hk as (L & R & _). exfalso.
      assert (partial c (S j) <> []).
      { rewrite partial_S, R. unfold ev2. destruct (partial c j); discriminate. }
      destruct (Hp (S j)); [congruence|lia].
    + destruct Hk as (L & R & _). exfalso.
      assert (partial c (S j) <> []).
      { rewrite partial_S, R. unfold ev2. destruct (partial c j); discriminate. }
      destruct (Hp (S j)); [congruence|lia].
  - rewrite <- Ep in *. assert (Hne : one_pass c <> []) by (rewrite Ep; discriminate).
    destruct (rm s) eqn:Er.
    1,2,5,6: (eapply (shape_prefix c k []); [now rewrite app_nil_r|eexists; reflexivity|exact Hne]).
    + destruct Hk as (L & R & Hr). eapply (shape_prefix c k); [exact Hr| |exact Hne].
      apply partial_prefix_pass. lia.
    + destruct Hk as (L & R & Hr). eapply (shape_prefix c k); [exact Hr| |exact Hne].
      destruct (partial_prefix_pass c (S j) ltac:(lia)) as [q Hq].
      rewrite partial_S, R in Hq. unfold ev2 in Hq. exists (EReloadRet j :: q).
      rewrite Hq, <- !app_assoc. reflexivity.
Qed.

(* C05 (no loss): a quiescent state in which the reload manager is idle has no pending reload
   request - every ReloadAll() caller, every consumed SIGHUP and every received trigger has been
   served.  (Directly from the definition of quiescence: an accepting rendezvous would be enabled.) *)
Lemma quiescent_taus c s l :
  quiescent c s = true -> In l (taus_nt c s) -> step0 c s l = None.
Proof.
  unfold quiescent. intros H Hin. rewrite forallb_forall in H.
  specialize (H l (in_or_app _ _ _ (or_introl Hin))). destruct (step0 c s l); [discriminate|reflexivity].
Qed.

Ltac in_chain tac :=
  unfold taus_nt; rewrite !in_app_iff;
  first [ solve [tac]
        | solve [left; tac]
        | solve [right; left; tac]
        | solve [do 2 right; left; tac] | solve [do 3 right; left; tac] | solve [do 4 right; left; tac]
        | solve [do 5 right; left; tac] | solve [do 6 right; left; tac] | solve [do 7 right; left; tac]
        | solve [do 8 right; left; tac] | solve [do 9 right; left; tac] | solve [do 10 right; left; tac]
        | solve [do 11 right; left; tac] | solve [do 12 right; left; tac] | solve [do 13 right; left; tac]
        | solve [do 14 right; left; tac] | solve [do 15 right; left; tac] | solve [do 16 right; left; tac]
        | solve [do 17 right; left; tac] | solve [do 18 right; left; tac] | solve [do 19 right; left; tac]
        | solve [do 20 right; left; tac] | solve [do 21 right; left; tac] | solve [do 22 right; left; tac]
        | solve [do 23 right; left; tac] | solve [do 24 right; left; tac] | solve [do 25 right; left; tac]
        | solve [do 20 right; tac] | solve [do 21 right; tac] | solve [do 22 right; tac]
        | solve [do 23 right; tac] | solve [do 24 right; tac] | solve [do 25 right; tac] | solve [do 26 right; tac] ].

Theorem sup_c05_no_loss c s :
  quiescent c s = true -> rm s = RmIdle ->
  hup s = 0 /\
  (forall i, i < nrun c -> get LsAbsent (rls s) i <> LsFwd) /\
  (forall k cs, In (k, OpReloadAll, cs) (callers s) -> find_caller k (callers s) <> Some (OpReloadAll, CPending)).
Proof.
  intros Q Er. repeat split.
  - assert (Hin : In (LRmAccept SndHup) (taus_nt c s)) by (in_chain ltac:(cbn; auto)).
    pose proof (quiescent_taus _ _ _ Q Hin) as H. cbn [step0] in H. rewrite Er in H.
    destruct (hup s); [reflexivity|discriminate H].
  - intros i Li Hf.
    assert (Hin : In (LRmAccept (SndListener i)) (taus_nt c s))
      by (in_chain ltac:(apply in_map_iff; exists i; split; [reflexivity|apply in_seq; cbn; lia])).
    pose proof (quiescent_taus _ _ _ Q Hin) as H. cbn [step0] in H. rewrite Er, Hf in H. discriminate H.
  - intros k cs Hin Hf.
    assert (Hin' : In (LRmAccept (SndCaller k)) (taus_nt c s))
      by (in_chain ltac:(apply in_map_iff; eexists; split; [|exact Hin]; reflexivity)).
    pose proof (quiescent_taus _ _ _ Q Hin') as H. cbn [step0] in H. rewrite Er, Hf in H. discriminate H.
Qed.

(* C05 (frame): the steps of a reload pass touch neither the shutdown body nor Run()'s control
   state: a reload never stops a runnable and never makes Run() return *)
Definition is_reload_label (l : label) : bool :=
  match l with LRmAccept _ | LReloadCall _ | LReloadRet _ | LTrigRecvR _ | LTrigR _ => true | _ => false end.

Theorem sup_c05_frame c s l s' :
  is_reload_label l = true -> step c s l = Some s' ->
  sd s' = sd s /\ main s' = main s /\ rn s' = rn s /\ stop_called s' = stop_called s /\
  own_cancel s' = own_cancel s.
Proof.
  intros Hl H. unfold step in H.
  destruct l; try discriminate Hl; cbn [step0] in H; unfold store_state in H;
    step_cases H; inversion H; subst; clear H; cbn; auto.
Qed.
