(* C06, after-shutdown clause: once Shutdown's wait for the goroutines has completed, the state map
   reports for every Stateable runnable that was stopped the state it had when its Stop() returned
   (the value Shutdown recorded then) - whatever a monitor that was still catching up wrote in between.
   This is the behaviour of /repo after the repair of the finding monitor-overwrites-final-state. *)
From Coq Require Import List NArith Bool Arith Lia.
From GS Require Import LTS Supervisor SupAccept SupProps SupInv SupStop SupTrig SupGate SupOnce SupReload SupCensus SupState.
Import ListNotations.

Definition fin_at (s : state) (i : nat) : option st := get None (finals (aux s)) i.

Definition InvFin (c : config) (s : state) : Prop :=
  length (finals (aux s)) = nrun c /\
  (sd s = SdDone -> sd_timed_out s = false ->
   forall i v, fin_at s i = Some v -> smap_at s i = Some v).

Lemma InvFin_init c : InvFin c (init c).
Proof. split; [cbn; apply repeat_length|intros H; discriminate H]. Qed.

Lemma fin_lt c s i v : length (finals (aux s)) = nrun c -> fin_at s i = Some v -> i < nrun c.
Proof.
  intros L H. rewrite <- L. apply (get_nondefault_lt None). unfold fin_at in H. rewrite H. discriminate.
Qed.

Lemma InvFin_step c s l s' :
  InvWg s -> InvStm s -> InvMon c s -> InvFin c s -> step c s l = Some s' -> InvFin c s'.
Proof.
  intros IW IS IM [FL IF] H. pose proof (im_len _ _ IM) as (_ & _ & L3 & _).
  unfold step in H.
  destruct l; cbn [step0] in H; unfold start_shutdown, store_state in H;
    step_cases H; inversion H; subst; clear H; (split; [simp_st; rewrite ?upd_length; exact FL|]);
    unfold fin_at, smap_at in *; simp_st.
  all: try exact IF.
  all: try (intros X; discriminate X).
  all: try (intros _ X; discriminate X).
  all: try (intros X; exfalso; match type of X with sd_next ?k = _ => destruct k; discriminate X end).
  all: try (intros X; exfalso; match type of X with match launched ?k with _ => _ end = _ => destruct (launched k); discriminate X end).
  (* Shutdown's wait completed: the recorded finals are stored again *)
  all: try (intros _ _ i v Hf; rewrite overlay_get, Hf;
            assert (Li : i < length (smap s)) by (rewrite L3; eapply fin_lt; [exact FL|exact Hf]);
            apply Nat.ltb_lt in Li; rewrite Li; reflexivity).
  (* every other writer of the map is impossible once wg is zero *)
  all: try (intros Hd Ht; pose proof (proj2 IW Hd Ht) as W; unfold wg_zero in W;
            repeat (apply andb_true_iff in W as [W ?]);
            first [ exfalso; eapply forallb_upd_false; [exact W|];
                    match goal with E : rn_at _ _ = _ |- _ => unfold rn_at in E; rewrite E; exact Logic.I end
                  | exfalso; match goal with E : rm _ = _ |- _ => rewrite E in *; discriminate end
                  | exfalso; match goal with T : stm_done _ = true, E : mon_at _ ?i = _ |- _ =>
                               destruct (IS T i) as [D|D]; rewrite E in D; discriminate D end ]).
  all: try (intros X; congruence).
  all: try (intros _; exact (IF eq_refl)).
Qed.

Lemma InvFin_reachable c s : reachable_sup c s -> InvFin c s.
Proof.
  intros H. enough (X : (InvWg s /\ InvStm s /\ InvMon c s) /\ InvFin c s) by exact (proj2 X).
  revert s H. apply sup_inv.
  - split; [|apply InvFin_init]. split; [|split; [apply InvStm_init|apply InvMon_init]].
    split; [exact Logic.I|intros X; discriminate X].
  - intros s l s' [(A & B & C) D] St.
    split; [split; [eapply InvWg_step; eassumption|split; [eapply InvStm_step; eassumption|eapply InvMon_step; eassumption]]|].
    eapply InvFin_step; eassumption.
Qed.

(* what Shutdown records: the state the runnable has at the moment its Stop() returns; never changed later *)
Lemma stopret_records c s i s' :
  step c s (LStopRet i) = Some s' -> stateable (spec c i) = true -> i < length (finals (aux s)) ->
  fin_at s' i = Some (cur_at s i).
Proof.
  unfold step. cbn [step0]. intros H Hs Li. destruct (sd s); try discriminate H.
  destruct (_ && _); [|discriminate H]. rewrite Hs in H. unfold store_state in H. rewrite Hs in H.
  injection H as <-. unfold fin_at. simp_st. now apply get_upd_same.
Qed.

Lemma finals_stable c s l s' i v :
  step c s l = Some s' -> fin_at s i = Some v -> (forall j, l <> LStopRet j) -> fin_at s' i = Some v.
Proof.
  intros H Hf Hl. unfold step in H.
  destruct l; cbn [step0] in H; unfold start_shutdown, store_state in H;
    step_cases H; inversion H; subst; clear H; unfold fin_at in *; simp_st; try exact Hf.
  all: exfalso; eapply Hl; reflexivity.
Qed.

(* C06, after shutdown *)
Theorem sup_c06_after_shutdown c s i v :
  reachable_sup c s -> sd s = SdDone -> sd_timed_out s = false ->
  fin_at s i = Some v -> smap_at s i = Some v.
Proof. intros Hre Hd Ht Hf. exact (proj2 (InvFin_reachable _ _ Hre) Hd Ht i v Hf). Qed.

(* the store Shutdown does when a Stop() returns (definitional: it is the step): the map entry of a Stateable
   runnable becomes its state at that moment - whether or not the later wait for the goroutines completes *)
Lemma stopret_stores c s i s' :
  step c s (LStopRet i) = Some s' -> stateable (spec c i) = true -> i < length (smap s) ->
  smap_at s' i = Some (cur_at s i).
Proof.
  unfold step. cbn [step0]. intros H Hs Li. destruct (sd s); try discriminate H.
  destruct (_ && _); [|discriminate H]. rewrite Hs in H. unfold store_state in H. rewrite Hs in H.
  injection H as <-. unfold smap_at, cur_at. simp_st. now apply get_upd_same.
Qed.
