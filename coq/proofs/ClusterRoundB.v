(* Round convergence, part 2: opening a round from an idle state; the helper transitions keep the
   round invariant. *)
From Coq Require Import List Arith NArith Bool Lia Permutation.
From GS Require Import LTS Cluster ClusterLTS ClusterPlan ClusterFix ClusterFixPlan ClusterRun ClusterInv ClusterStep
     ClusterMain ClusterRound.
Import ListNotations.
Open Scope N_scope.

Lemma pe_nonstop k old d q e :
  In (q, e) (process_existing k old d) -> ns e ->
  q = k /\ ((d = Some (e_cfg old) /\ e = set_act ANone old) \/ (exists c, d = Some c /\ e = start_entry k c)).
Proof.
  unfold process_existing, ns. destruct d as [c|].
  - destruct (e_cfg old =? c) eqn:E.
    + apply N.eqb_eq in E. subst c. intros [[= <- <-]|[]] _. split; [reflexivity|now left].
    + destruct (e_rt old).
      * intros [[= <- <-]|[[= <- <-]|[]]] Hn; [exfalso; now apply Hn|]. split; [reflexivity|right; now exists c].
      * intros [[= <- <-]|[]] _. split; [reflexivity|right; now exists c].
  - destruct (e_rt old); [intros [[= <- <-]|[]] Hn; exfalso; now apply Hn|intros []].
Qed.

Lemma in_rts_filter (f : id * entry -> bool) m q e j :
  In (q, e) m -> f (q, e) = true -> e_rt e = Some j -> In j (rts (filter f m)).
Proof.
  intros Hin Hf Hr. unfold rts. apply in_flat_map. exists (q, e). split; [now apply filter_In|].
  cbn [snd]. rewrite Hr. now left.
Qed.

Lemma dcfg_of_in des q d : NoDup (keys des) -> In (q, d) des -> dcfg des q = Some (e_cfg d).
Proof. intros Hnd Hin. unfold dcfg. now rewrite (in_lookup des q d Hnd Hin). Qed.

Lemma mid_begin ord cur des cn live :
  NoDup (keys cur) -> NoDup (keys des) -> Permutation ord (keys cur) ->
  (forall q e, lookup q cur = Some e -> e_id e = q) ->
  (forall q e, lookup q cur = Some e -> e_rt e = None -> cn = true) ->
  (forall j k c, In (j, (k, c)) live -> exists q e, lookup q cur = Some e /\ e_rt e = Some j /\ e_id e = k /\ e_cfg e = c) ->
  let pend := build_pending true ord cur des in
  mid_ok des cur [] cn live pend (fst (pending_actions pend)) (stop_insts pend (snd (pending_actions pend))).
Proof.
  intros Hc Hd Hp C1 C4 C7 pend.
  assert (Nord : NoDup ord) by (eapply Permutation_NoDup; [apply Permutation_sym; exact Hp|exact Hc]).
  assert (Sord : forall k, In k ord -> In k (keys cur)) by (intros k; apply Permutation_in; exact Hp).
  assert (Hnd : NoDup (keys pend)) by now apply true_nodup.
  (* a non-stop entry of the plan is an unchanged entry or a start entry for a desired id *)
  assert (NS : forall q e, lookup q pend = Some e -> ns e ->
            (exists old, lookup q cur = Some old /\ dcfg des q = Some (e_cfg old) /\ e = set_act ANone old) \/
            (exists c, dcfg des q = Some c /\ e = start_entry q c)).
  { intros q e H Hn. apply lookup_some_in in H. apply (true_nonstop_iff ord cur des q e Nord Sord Hd Hn) in H.
    apply plan_only in H as [(k & old & _ & Hl & Hin)|(d & Hin & _ & ->)].
    - destruct (pe_nonstop k old _ q e Hin Hn) as (-> & [(Hdc & ->)|(c & Hdc & ->)]); [left; now exists old|right; now exists c].
    - right. exists (e_cfg d). split; [now apply dcfg_of_in|reflexivity]. }
  msplit.
  - intros q e H Hn. destruct (NS q e H Hn) as [(old & Hl & Hdc & ->)|(c & Hdc & ->)]; [|now split].
    split; [exact Hdc|]. cbn [set_act e_id]. now apply (C1 q old).
  - intros q c Hdc. left. destruct (lookup q cur) as [old|] eqn:El.
    + destruct (N.eqb_spec (e_cfg old) c) as [<-|Hne].
      * exists (set_act ANone old). split; [now apply true_unchanged|discriminate].
      * exists (start_entry q c). split; [|discriminate]. destruct (e_rt old) as [i|] eqn:Er.
        -- now apply (true_changed_running ord cur des Hc Hd Hp q old c i).
        -- now apply (true_changed_idle ord cur des Hc Hd Hp q old c).
    + unfold dcfg in Hdc. destruct (lookup q des) as [d|] eqn:Eld; [|discriminate]. injection Hdc as <-.
      exists (start_entry q (e_cfg d)). split; [now apply true_new|discriminate].
  - intros k old Hl Hdc. now apply true_unchanged.
  - intros q e H Hn Hr. destruct (NS q e H Hn) as [(old & Hl & Hdc & ->)|(c & Hdc & ->)].
    + right. now apply (C4 q old).
    + left. unfold pending_actions. cbn [fst]. unfold keys.
      change q with (fst (q, start_entry q c)). apply in_map. apply filter_In. split; [now apply lookup_some_in|reflexivity].
  - intros j k c Hin. destruct (C7 j k c Hin) as (q & e0 & Hl & Hr & Hi & Hcf).
    assert (ST : forall q', lookup q' pend = Some (set_act AStop e0) ->
                 In j (stop_insts pend (snd (pending_actions pend)))).
    { intros q' H. rewrite stop_insts_eq by exact Hnd. apply (in_rts_filter isstop pend q' (set_act AStop e0));
        [now apply lookup_some_in|reflexivity|exact Hr]. }
    destruct (dcfg des q) as [c'|] eqn:Edc.
    + destruct (N.eqb_spec (e_cfg e0) c') as [<-|Hne].
      * exists q, (set_act ANone e0). split; [now apply true_unchanged|]. repeat split; try assumption. left. discriminate.
      * destruct (true_changed_running ord cur des Hc Hd Hp q e0 c' j Hl Edc Hne Hr) as ((q' & Hq' & _) & _).
        exists q', (set_act AStop e0). split; [exact Hq'|]. repeat split; try assumption. right. now apply (ST q').
    + pose proof (true_removed ord cur des Hc Hd Hp q e0 j Hl Edc Hr) as Hq'.
      exists q, (set_act AStop e0). split; [exact Hq'|]. repeat split; try assumption. right. now apply (ST q).
Qed.

(* ---------------------------------------------------------------- helpers keep the round's fields *)
Lemma shut_next s p ts : s_shut (next_start s p ts) = s_shut s. Proof. destruct ts; reflexivity. Qed.
Lemma shut_after s p ts tp : s_shut (after_stops s p ts tp) = s_shut s.
Proof. unfold after_stops. destruct ts; [reflexivity|]. destruct (s_delay s); reflexivity. Qed.
Lemma shut_begin s p : s_shut (begin_round s p) = s_shut s.
Proof.
  unfold begin_round. destruct (pending_actions p) as [ts tp]. destruct (stop_insts p tp); [|reflexivity].
  destruct tp; [apply shut_next|apply shut_after].
Qed.

Lemma round_finish s pend ts :
  NoDup (keys pend) -> mid s pend ts [] -> ts = [] \/ s_cancel s = true -> round_inv (finish_round s pend).
Proof.
  intros Hnd Hm Hts Hsh. unfold finish_round in *. psimpl in Hsh. unfold round_pc. psimpl. rewrite Hsh. psimpl.
  unfold mid in *. psimpl. now apply (mid_commit _ _ _ _ _ pend ts).
Qed.

Lemma round_next_start s pend ts :
  NoDup (keys pend) -> mid s pend ts [] -> round_inv (next_start s pend ts).
Proof.
  intros Hnd Hm. unfold next_start. destruct ts as [|t ts].
  - apply (round_finish s pend []); auto.
  - intros _. unfold round_pc, set_pc, mid in *. psimpl. exact Hm.
Qed.

Lemma round_after_stops s pend ts :
  NoDup (keys pend) -> mid s pend ts [] -> round_inv (after_stops s pend ts (snd (pending_actions pend))).
Proof.
  intros Hnd Hm. unfold after_stops.
  assert (Hm' : mid s (clear_all (snd (pending_actions pend)) pend) ts []) by (now apply mid_clear).
  assert (Hnd' : NoDup (keys (clear_all (snd (pending_actions pend)) pend))).
  { destruct (clear_all_props (snd (pending_actions pend)) pend Hnd) as (K1 & _); [|now rewrite K1].
    intros k e Hin Hl. now apply (stop_keys_are_stop pend k e). }
  destruct ts as [|t ts].
  - apply (round_finish s _ []); auto.
  - destruct (s_delay s); intros _; unfold round_pc, set_pc, mid in *; psimpl; exact Hm'.
Qed.

Lemma round_begin s pend :
  NoDup (keys pend) ->
  mid s pend (fst (pending_actions pend)) (stop_insts pend (snd (pending_actions pend))) ->
  round_inv (begin_round s pend).
Proof.
  intros Hnd Hm. unfold begin_round. destruct (pending_actions pend) as [ts tp] eqn:Epa. cbn [fst snd] in Hm.
  assert (Htp : tp = snd (pending_actions pend)) by now rewrite Epa.
  destruct (stop_insts pend tp) as [|c tocall] eqn:Esi.
  - destruct tp as [|t tp]; [now apply round_next_start|]. rewrite Htp. now apply round_after_stops.
  - intros _. unfold round_pc, set_pc, mid in *. psimpl. exact Hm.
Qed.
