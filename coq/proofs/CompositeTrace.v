(* Relations between the observable trace of a schedule and the state it reaches (every schedule of
   every variant): how many API calls were made and have returned, whether Stop()/cancel/a failing
   exit occurred, the newest callback value.  They turn the trace-level monitor clauses of
   CompositeMon.v into statements about the final state, where the model theorems apply. *)
From Coq Require Import List NArith Bool Arith Lia.
From GS Require Import Errs LTS Composite CompositeMon CompositeBase CompositeC10 CompositeC11
     CompositeLocks CompositeLive CompositeC09 CompositeProgress CompositeProto CompositeMeasure.
Import ListNotations.

(* ------------------------------------------------------------------ traces grow at the end *)

Definition ext (tr : list event) (l : label) : list event :=
  match obs l with Some e => tr ++ [e] | None => tr end.

Lemma trace_inv P (R : list event -> state -> Prop) :
  (forall tr s l s', reach P s -> R tr s -> step P s l = Some s' -> R (ext tr l) s') ->
  forall ls tr s s', reach P s -> R tr s -> run (step P) s ls = Some s' -> R (tr ++ obs_trace obs ls) s'.
Proof.
  intros Hstep ls; induction ls as [|l ls IH]; intros tr s s' Hr H Hrun.
  - injection Hrun as <-. cbn. now rewrite app_nil_r.
  - cbn [run] in Hrun. destruct (step P s l) as [s1|] eqn:E; [|discriminate].
    pose proof (Hstep tr s l s1 Hr H E) as H1. unfold ext in H1. cbn [obs_trace].
    destruct (obs l) as [e|].
    + specialize (IH _ _ _ (reach_step _ _ _ _ Hr E) H1 Hrun). now rewrite <- app_assoc in IH.
    + exact (IH _ _ _ (reach_step _ _ _ _ Hr E) H1 Hrun).
Qed.

Lemma trace_inv_init P (R : list event -> state -> Prop) :
  R [] init ->
  (forall tr s l s', reach P s -> R tr s -> step P s l = Some s' -> R (ext tr l) s') ->
  forall ls s, run (step P) init ls = Some s -> R (obs_trace obs ls) s.
Proof.
  intros H0 Hstep ls s Hrun.
  apply (trace_inv P R Hstep ls [] init s); [now exists []|exact H0|exact Hrun].
Qed.

Lemma count_ev_snoc f tr e : count_ev f (tr ++ [e]) = count_ev f tr + b2n (f e).
Proof.
  unfold count_ev. rewrite filter_app, app_length. cbn. destruct (f e); reflexivity.
Qed.

Lemma existsb_snoc {A} (f : A -> bool) tr e : existsb f (tr ++ [e]) = existsb f tr || f e.
Proof. rewrite existsb_app. cbn. now rewrite orb_false_r. Qed.

Lemma existsb_count f tr : existsb f tr = true <-> 1 <= count_ev f tr.
Proof.
  unfold count_ev. induction tr as [|x t IH]; cbn; [split; [discriminate|lia]|].
  destruct (f x); cbn; [split; [lia|reflexivity]|exact IH].
Qed.

(* ------------------------------------------------------------------ API calls made / returned *)

Definition is_call (op : apiop) (e : event) : bool :=
  match e with EApiCall o _ => apiop_eqb o op | _ => false end.
Definition is_ret (op : apiop) (e : event) : bool :=
  match e with EApiRet o _ _ => apiop_eqb o op | _ => false end.

Definition rdone (p : rpc) : bool := match p with RDone => true | _ => false end.
Definition sdone (p : spc) : nat := match p with SDone => 1 | _ => 0 end.
Definition started (p : tpc) : nat := match p with TIdle => 0 | _ => 1 end.
Definition tdone (p : tpc) : nat := match p with TDone _ => 1 | _ => 0 end.

Definition T_reload (tr : list event) (s : state) : Prop :=
  count_ev (is_call OpReload) tr = length (reloaders s) /\
  count_ev (is_ret OpReload) tr = count_r rdone (reloaders s).

Definition T_stop (tr : list event) (s : state) : Prop :=
  count_ev (is_call OpStop) tr = length (stoppers s) /\
  count_ev (is_ret OpStop) tr = sum_by sdone (stoppers s).

Definition T_run (tr : list event) (s : state) : Prop :=
  count_ev (is_call OpRun) tr = started (runt s) /\
  count_ev (is_ret OpRun) tr = tdone (runt s).

Lemma T_reload_step P tr s l s' : T_reload tr s -> step P s l = Some s' -> T_reload (ext tr l) s'.
Proof.
  intros [H1 H2] Hst. unfold T_reload, ext.
  open_step Hst; cbn [obs]; rewrite ?count_ev_snoc; cbn; goal_cases; count_facts rdone.
  all: rewrite ?app_length, ?upd_length; cbn.
  all: repeat match goal with Hp : r_pc ?x = _ |- _ => rewrite Hp in *; clear Hp end; cbn in *.
  all: try (split; lia).
  all: destruct (membership_changed P (entries_of s) c); cbn in *; split; lia.
Qed.

Lemma T_stop_step P tr s l s' : T_stop tr s -> step P s l = Some s' -> T_stop (ext tr l) s'.
Proof.
  intros [H1 H2] Hst. unfold T_stop, ext.
  open_step Hst; cbn [obs]; rewrite ?count_ev_snoc; cbn; goal_cases; sum_facts.
  all: rewrite ?app_length, ?upd_length; cbn.
  all: try (split; lia).
  all: cbn in *; split; lia.
Qed.

Lemma T_run_step P tr s l s' : T_run tr s -> step P s l = Some s' -> T_run (ext tr l) s'.
Proof.
  intros [H1 H2] Hst. unfold T_run, ext.
  open_step Hst; cbn [obs]; rewrite ?count_ev_snoc; cbn; goal_cases; unfold tear_pc.
  all: repeat match goal with Hp : runt ?x = _ |- _ => rewrite Hp in *; clear Hp end; cbn in *.
  all: try (destruct (fix_c09 P); cbn).
  all: try (split; lia).
Qed.
