(* Round convergence on the protocol (repaired planner, arbitrary ids): an invariant relating the
   working collection to the collection at the start of the round, the desired entries and the failed
   starts; preserved by every step; consequences at idle points. *)
From Coq Require Import List Arith NArith Bool Lia Permutation.
From GS Require Import LTS Cluster ClusterLTS ClusterPlan ClusterFix ClusterFixPlan ClusterRun ClusterInv ClusterStep
     ClusterMain.
Import ListNotations.
Open Scope N_scope.

Definition ns (e : entry) : Prop := e_act e <> AStop.
Ltac msplit := split; [|split; [|split; [|split]]].

(* D desired entries, B collection at the start of the round, F failed ids, cn cancelled, live *)
Definition mid_ok (D B : emap) (F : list id) (cn : bool) (live : list inst)
           (pend : emap) (ts : list id) (tocall : list N) : Prop :=
  (forall q e, lookup q pend = Some e -> ns e -> dcfg D q = Some (e_cfg e) /\ e_id e = q) /\
  (forall q c, dcfg D q = Some c -> (exists e, lookup q pend = Some e /\ ns e) \/ In q F) /\
  (forall k old, lookup k B = Some old -> dcfg D k = Some (e_cfg old) -> lookup k pend = Some (set_act ANone old)) /\
  (forall q e, lookup q pend = Some e -> ns e -> e_rt e = None -> In q ts \/ cn = true) /\
  (forall j k c, In (j, (k, c)) live ->
     exists q e, lookup q pend = Some e /\ e_rt e = Some j /\ e_id e = k /\ e_cfg e = c /\ (ns e \/ In j tocall)).

Definition mid s := mid_ok (s_des s) (s_base s) (s_failed s) (s_cancel s) (s_live s).

Definition round_pc (s : state) : Prop :=
  match s_pc s with
  | PIdle => mid s (s_entries s) [] [] /\ (forall q e, lookup q (s_entries s) = Some e -> e_act e = ANone)
  | PFin | PRet => True
  | PStop pend ts tocall called tp => mid s pend ts tocall
  | PDelay pend ts | PStart pend ts => mid s pend ts []
  | PWait pend ts k i b => mid s pend ts []
  | PFailStop pend ts k i => mid s pend ts [] /\ ~ In i (map fst (s_live s))
  end.

Definition round_inv (s : state) : Prop := s_shut s = false -> round_pc s.

(* ---------------------------------------------------------------- closing a round *)
Lemma mid_commit D B F cn live pend ts :
  NoDup (keys pend) -> mid_ok D B F cn live pend ts [] -> ts = [] \/ cn = true ->
  mid_ok D B F cn live (commit pend) [] [] /\ (forall q e, lookup q (commit pend) = Some e -> e_act e = ANone).
Proof.
  intros Hnd (M1 & M2 & M3 & M4 & M7) Hts.
  assert (L : forall q e', lookup q (commit pend) = Some e' ->
              exists e, lookup q pend = Some e /\ ns e /\ e' = set_act ANone e).
  { intros q e' H. rewrite lookup_commit in H by exact Hnd. destruct (lookup q pend) as [e|]; [|discriminate].
    destruct (action_eqb (e_act e) AStop) eqn:A; [discriminate|]. injection H as <-. exists e.
    split; [reflexivity|]. split; [|reflexivity]. intros Ha. rewrite Ha in A. discriminate. }
  assert (R : forall q e, lookup q pend = Some e -> ns e -> lookup q (commit pend) = Some (set_act ANone e)).
  { intros q e H Hn. rewrite lookup_commit, H by exact Hnd.
    destruct (action_eqb (e_act e) AStop) eqn:A; [|reflexivity]. exfalso. apply Hn. now destruct (e_act e). }
  split; [msplit|].
  - intros q e H _. destruct (L q e H) as (e0 & H0 & Hn & ->). now apply (M1 q e0).
  - intros q c Hd. destruct (M2 q c Hd) as [(e & He & Hn)|Hf]; [left|now right].
    exists (set_act ANone e). split; [now apply R|discriminate].
  - intros k old Hb Hd. specialize (M3 k old Hb Hd). apply R in M3; [exact M3|discriminate].
  - intros q e H Hn Hr. destruct (L q e H) as (e0 & H0 & Hn0 & ->). cbn [set_act e_rt] in Hr.
    destruct (M4 q e0 H0 Hn0 Hr) as [Hin|Hc]; [|now right]. destruct Hts as [->|Hc]; [destruct Hin|now right].
  - intros j k c Hin. destruct (M7 j k c Hin) as (q & e & He & Hr & Hi & Hcf & [Hn|[]]).
    exists q, (set_act ANone e). split; [now apply R|]. repeat split; try assumption. left. discriminate.
  - intros q e H. destruct (L q e H) as (e0 & _ & _ & ->). reflexivity.
Qed.

Lemma mid_clear D B F cn live pend ts :
  NoDup (keys pend) -> mid_ok D B F cn live pend ts [] ->
  mid_ok D B F cn live (clear_all (snd (pending_actions pend)) pend) ts [].
Proof.
  intros Hnd (M1 & M2 & M3 & M4 & M7). set (tp := snd (pending_actions pend)).
  assert (K : forall q e, lookup q pend = Some e -> ns e -> lookup q (clear_all tp pend) = Some e).
  { intros q e H Hn. rewrite lookup_clear_all, H. destruct (mem_id q tp) eqn:Em; [|reflexivity].
    apply mem_id_in in Em. exfalso. apply Hn. now apply (stop_keys_are_stop pend q e). }
  assert (L : forall q e, lookup q (clear_all tp pend) = Some e -> ns e -> lookup q pend = Some e).
  { intros q e' H Hn. rewrite lookup_clear_all in H. destruct (lookup q pend) as [e|] eqn:E; [|discriminate].
    injection H as <-. destruct (mem_id q tp) eqn:Em; [|reflexivity].
    apply mem_id_in in Em. exfalso. apply Hn. cbn [set_rt e_act]. now apply (stop_keys_are_stop pend q e). }
  msplit.
  - intros q e H Hn. apply (M1 q e); [now apply L|assumption].
  - intros q c Hd. destruct (M2 q c Hd) as [(e & He & Hn)|Hf]; [left; exists e; split; [now apply K|exact Hn]|now right].
  - intros k old Hb Hd. apply K; [now apply M3|discriminate].
  - intros q e H Hn Hr. apply (M4 q e); [now apply L|assumption|assumption].
  - intros j k c Hin. destruct (M7 j k c Hin) as (q & e & He & Hr & Hi & Hcf & [Hn|[]]).
    exists q, e. split; [now apply K|]. repeat split; auto.
Qed.

(* removing the entry of a failed start *)
Lemma mid_remove D B F cn live pend ts k ek :
  mid_ok D B F cn live pend ts [] -> lookup k pend = Some ek -> e_act ek = AStart ->
  (forall j kc, In (j, kc) live -> e_rt ek <> Some j) ->
  mid_ok D B (k :: F) cn live (remove_entry k pend) (remove_id k ts) [].
Proof.
  intros (M1 & M2 & M3 & M4 & M7) Hk Ha Hj.
  assert (L : forall q e, lookup q (remove_entry k pend) = Some e -> q <> k /\ lookup q pend = Some e).
  { intros q e H. destruct (id_eqb q k) eqn:E.
    - apply id_eqb_eq in E. subst. rewrite lookup_remove_same in H. discriminate.
    - apply id_eqb_neq in E. split; [exact E|]. now rewrite lookup_remove_other in H. }
  msplit.
  - intros q e H Hn. destruct (L q e H) as (_ & H0). now apply (M1 q e).
  - intros q c Hd. destruct (id_eqb q k) eqn:E; [apply id_eqb_eq in E; subst; right; now left|].
    apply id_eqb_neq in E. destruct (M2 q c Hd) as [(e & He & Hn)|Hf]; [left|right; now right].
    exists e. split; [now rewrite lookup_remove_other|exact Hn].
  - intros k0 old Hb Hd. specialize (M3 k0 old Hb Hd). rewrite lookup_remove_other; [exact M3|].
    intros ->. rewrite Hk in M3. injection M3 as ->. discriminate.
  - intros q e H Hn Hr. destruct (L q e H) as (Hq & H0). destruct (M4 q e H0 Hn Hr) as [Hin|Hc]; [left|now right].
    now apply in_remove_id.
  - intros j k' c Hin. destruct (M7 j k' c Hin) as (q & e & He & Hr & Hi & Hcf & Hn). exists q, e.
    split; [|repeat split; assumption]. rewrite lookup_remove_other; [exact He|].
    intros ->. rewrite Hk in He. injection He as ->. exact (Hj j _ Hin Hr).
Qed.

(* a server was created for key k *)
Lemma mid_update D B F cn live pend ts k ek i c :
  mid_ok D B F cn live pend ts [] -> lookup k pend = Some ek -> e_rt ek = None -> e_act ek = AStart ->
  e_id ek = k -> e_cfg ek = c ->
  mid_ok D B F cn ((i, (k, c)) :: live) (update_rt k (Some i) pend) (remove_id k ts) [].
Proof.
  intros (M1 & M2 & M3 & M4 & M7) Hk Hr Ha Hi Hcf0.
  assert (L : forall q e', lookup q (update_rt k (Some i) pend) = Some e' ->
              exists e, lookup q pend = Some e /\ e' = (if id_eqb q k then set_rt (Some i) e else e)).
  { intros q e' H. rewrite lookup_update_rt in H. destruct (lookup q pend) as [e|]; [|discriminate].
    injection H as <-. now exists e. }
  assert (Same : forall q e, q <> k -> lookup q pend = Some e -> lookup q (update_rt k (Some i) pend) = Some e).
  { intros q e Hq H. rewrite lookup_update_rt, H. apply id_eqb_neq in Hq. now rewrite Hq. }
  msplit.
  - intros q e H Hn. destruct (L q e H) as (e0 & H0 & ->). destruct (M1 q e0 H0) as [A1 A2]; [now destruct (id_eqb q k)|].
    now destruct (id_eqb q k).
  - intros q c0 Hd. destruct (M2 q c0 Hd) as [(e & He & Hn)|Hf]; [left|now right].
    exists (if id_eqb q k then set_rt (Some i) e else e). split; [now rewrite lookup_update_rt, He|].
    now destruct (id_eqb q k).
  - intros k0 old Hb Hd. specialize (M3 k0 old Hb Hd). apply Same; [|exact M3].
    intros ->. rewrite Hk in M3. injection M3 as ->. discriminate.
  - intros q e H Hn Hr'. destruct (L q e H) as (e0 & H0 & ->). destruct (id_eqb q k) eqn:E; [discriminate|].
    apply id_eqb_neq in E. destruct (M4 q e0 H0 Hn Hr') as [Hin|Hc]; [left; now apply in_remove_id|now right].
  - intros j k' c' [[= <- <- <-]|Hin].
    + exists k, (set_rt (Some i) ek). split; [now rewrite lookup_update_rt, Hk, id_eqb_refl|].
      repeat split; [exact Hi|exact Hcf0|]. left. unfold ns. cbn [set_rt e_act]. rewrite Ha. discriminate.
    + destruct (M7 j k' c' Hin) as (q & e & He & Hr' & Hi' & Hcf & Hn). exists q, e.
      split; [|repeat split; assumption]. apply Same; [|exact He].
      intros ->. rewrite Hk in He. injection He as ->. congruence.
Qed.

(* fewer live instances / fewer pending Stop() calls *)
Lemma mid_live_sub D B F cn live live' pend ts tc tc' :
  mid_ok D B F cn live pend ts tc ->
  (forall j kc, In (j, kc) live' -> In (j, kc) live /\ (In j tc -> In j tc')) ->
  mid_ok D B F cn live' pend ts tc'.
Proof.
  intros (M1 & M2 & M3 & M4 & M7) Hs. msplit; try assumption.
  intros j k c Hin. destruct (Hs j _ Hin) as (Hl & Ht). destruct (M7 j k c Hl) as (q & e & He & Hr & Hi & Hcf & Hn).
    exists q, e. split; [exact He|]. split; [exact Hr|]. split; [exact Hi|]. split; [exact Hcf|].
    destruct Hn as [Hn|Hn]; [now left|right; now apply Ht].
Qed.

Lemma mid_cancel D B F cn live pend ts tc :
  mid_ok D B F cn live pend ts tc -> mid_ok D B F true live pend ts tc.
Proof.
  intros (M1 & M2 & M3 & M4 & M7). msplit; try assumption.
  intros q e _ _ _. now right.
Qed.
