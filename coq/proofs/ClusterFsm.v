(* The cluster's own state: whenever the Run loop is idle the FSM is Running (whatever happened in the
   round: factory errors, servers that never became ready, cancelled restart delays). *)
From Coq Require Import List Arith NArith Bool.
From GS Require Import LTS Cluster ClusterLTS.
Import ListNotations.
Open Scope N_scope.

Definition fsm_ok (s : state) : Prop :=
  match s_pc s with
  | PIdle => s_fsm s = CRunning
  | PFin | PRet => s_fsm s = CStopped
  | _ => True
  end.

Lemma fsm_finish s p : fsm_ok (finish_round s p).
Proof. unfold fsm_ok, finish_round. cbn [s_pc s_fsm]. destruct (s_shut s); reflexivity. Qed.

Lemma fsm_next s p ts : fsm_ok (next_start s p ts).
Proof. destruct ts; [apply fsm_finish|exact I]. Qed.

Lemma fsm_after s p ts tp : fsm_ok (after_stops s p ts tp).
Proof. unfold after_stops. destruct ts; [apply fsm_finish|]. destruct (s_delay s); exact I. Qed.

Lemma fsm_begin s p : fsm_ok (begin_round s p).
Proof.
  unfold begin_round. destruct (pending_actions p) as [ts tp]. destruct (stop_insts p tp); [|exact I].
  destruct tp; [apply fsm_next|apply fsm_after].
Qed.

Lemma fsm_move i s : s_pc s <> PIdle -> s_pc s <> PFin -> s_pc s <> PRet -> fsm_ok (move_to_stopping i s).
Proof.
  intros H1 H2 H3. unfold fsm_ok, move_to_stopping. destruct (find_inst i (s_live s)); cbn [s_pc s_fsm];
    destruct (s_pc s); try exact I; contradiction.
Qed.

Lemma fsm_step fx s l s' : fsm_ok s -> step fx s l = Some s' -> fsm_ok s'.
Proof.
  intros H Hs. destruct l; unfold step in Hs.
  - destruct (s_offer s); [discriminate|]. destruct (s_closed s); [discriminate|]. injection Hs as <-. exact H.
  - injection Hs as <-. exact H.
  - destruct (s_stopreq s); [|discriminate]. destruct (s_pc s) eqn:E; try discriminate; injection Hs as <-; exact H.
  - injection Hs as <-. exact H.
  - destruct (s_offer s); [discriminate|]. injection Hs as <-. exact H.
  - destruct (s_pc s); try discriminate. destruct (s_offer s); [|discriminate].
    destruct (is_perm ord (keys (s_entries s))); [|discriminate]. injection Hs as <-. apply fsm_begin.
  - destruct (s_pc s); try discriminate. destruct (s_cancel s || s_stopreq s || s_closed s); [|discriminate].
    injection Hs as <-. apply fsm_begin.
  - destruct (s_pc s); try discriminate.
    + destruct (memN i tocall); [|discriminate]. injection Hs as <-. apply fsm_move; discriminate.
    + destruct ((i =? i0) && (negb (beh_eqb b BReady) || s_cancel s)); [|discriminate]. injection Hs as <-.
      apply fsm_move; discriminate.
  - destruct (s_pc s); try discriminate.
    + destruct (memN i called); [|discriminate].
      destruct tocall, (removeN i called); injection Hs as <-; try apply fsm_after; exact I.
    + destruct (i =? i0); [|discriminate]. injection Hs as <-. apply fsm_next.
  - destruct (s_pc s); try discriminate. injection Hs as <-. exact I.
  - destruct (s_pc s); try discriminate. destruct (s_cancel s); [|discriminate]. injection Hs as <-. apply fsm_finish.
  - destruct (s_pc s); try discriminate. destruct (lookup k pend); [|discriminate].
    destruct (mem_id k ts && id_eqb (e_id e) k && (e_cfg e =? c) && (i =? s_next s)); [|discriminate].
    injection Hs as <-. exact I.
  - destruct (s_pc s); try discriminate. destruct (lookup k pend); [|discriminate].
    destruct (mem_id k ts && id_eqb (e_id e) k && (e_cfg e =? c)); [|discriminate].
    injection Hs as <-. apply fsm_next.
  - destruct (memN i (s_unrun s)); [|discriminate]. injection Hs as <-. exact H.
  - destruct (s_pc s); try discriminate. destruct (beh_eqb b BReady); [|discriminate]. injection Hs as <-.
    apply fsm_next.
  - destruct (s_pc s) eqn:E; try discriminate; destruct (n =? N.of_nat (count (s_entries s))); try discriminate;
      injection Hs as <-; exact H.
  - destruct (cstate_eqb c (s_fsm s)); [|discriminate]. injection Hs as <-. exact H.
  - destruct (s_pc s) eqn:E; try discriminate. injection Hs as <-. unfold fsm_ok in *. rewrite E in H. exact H.
Qed.

Theorem idle_is_running fx d ls s :
  run (step fx) (init d) ls = Some s ->
  (s_pc s = PIdle -> s_fsm s = CRunning) /\ (s_pc s = PFin \/ s_pc s = PRet -> s_fsm s = CStopped).
Proof.
  intros Hr.
  assert (H : fsm_ok s).
  { eapply (run_inv _ _ (step fx) fsm_ok); [apply fsm_step| |exact Hr]. reflexivity. }
  unfold fsm_ok in H. split.
  - intros E. now rewrite E in H.
  - intros [E|E]; now rewrite E in H.
Qed.
