(* The cluster's own FSM.  The model moves it through the transition table it is created with
   (ClusterLTS.fsm_allowed = go-fsm transitions.Typical) and contains the `!IsRunning()` gate of
   processConfigUpdate and the failure branches of its transitions (a refused map is dropped, a failed
   return to Running forces Error).  Proved here, for every schedule and both planner variants: those
   branches are never taken -- the FSM is Running whenever the loop is idle, Reloading inside a round,
   Stopping inside shutdown, Stopped once Run has finished; it is never Error; a received map is never
   dropped. *)
From Coq Require Import List Arith NArith Bool.
From GS Require Import LTS Cluster ClusterLTS.
Import ListNotations.
Open Scope N_scope.

Definition fsm_ok (s : state) : Prop :=
  match s_pc s with
  | PIdle => s_fsm s = CRunning /\ s_shut s = false
  | PFin | PRet => s_fsm s = CStopped
  | _ => s_fsm s = (if s_shut s then CStopping else CReloading)
  end.

(* a state in the middle of a round *)
Definition in_round (s : state) : Prop := s_fsm s = (if s_shut s then CStopping else CReloading).

Lemma fsm_finish_ok s p : in_round s -> fsm_ok (finish_round s p).
Proof.
  unfold in_round, fsm_ok, finish_round. cbn [s_pc s_fsm s_shut]. intros ->.
  destruct (s_shut s); [reflexivity|]. split; reflexivity.
Qed.

Lemma fsm_next s p ts : in_round s -> fsm_ok (next_start s p ts).
Proof. intros H. destruct ts; [now apply fsm_finish_ok|exact H]. Qed.

Lemma fsm_after s p ts tp : in_round s -> fsm_ok (after_stops s p ts tp).
Proof. intros H. unfold after_stops. destruct ts; [now apply fsm_finish_ok|]. destruct (s_delay s); exact H. Qed.

Lemma fsm_begin s p : in_round s -> fsm_ok (begin_round s p).
Proof.
  intros H. unfold begin_round. destruct (pending_actions p) as [ts tp]. destruct (stop_insts p tp); [|exact H].
  destruct tp; [now apply fsm_next|now apply fsm_after].
Qed.

Lemma in_round_of s : fsm_ok s -> s_pc s <> PIdle -> s_pc s <> PFin -> s_pc s <> PRet -> in_round s.
Proof. unfold fsm_ok, in_round. destruct (s_pc s); intros H H1 H2 H3; try exact H; contradiction. Qed.

Lemma fsm_move i s : in_round s -> s_pc s <> PIdle -> s_pc s <> PFin -> s_pc s <> PRet -> fsm_ok (move_to_stopping i s).
Proof.
  intros H H1 H2 H3. unfold fsm_ok, move_to_stopping. destruct (find_inst i (s_live s)); cbn [s_pc s_fsm s_shut];
    destruct (s_pc s); try exact H; contradiction.
Qed.

Lemma fsm_step fx s l s' : fsm_ok s -> step fx s l = Some s' -> fsm_ok s'.
Proof.
  intros H Hs. destruct l; unfold step in Hs.
  - destruct (s_offer s); [discriminate|]. destruct (s_closed s); [discriminate|]. injection Hs as <-. exact H.
  - injection Hs as <-. exact H.
  - destruct (s_stopreq s); [|discriminate]. destruct (s_pc s) eqn:E; try discriminate; injection Hs as <-; exact H.
  - injection Hs as <-. exact H.
  - destruct (s_offer s); [discriminate|]. injection Hs as <-. exact H.
  - destruct (s_pc s) eqn:E; try discriminate. destruct (s_offer s); [|discriminate].
    destruct (cstate_eqb (s_fsm s) CRunning && fsm_allowed (s_fsm s) CReloading).
    + destruct (is_perm ord (keys (s_entries s))); [|discriminate]. injection Hs as <-. apply fsm_begin. reflexivity.
    + injection Hs as <-. unfold fsm_ok, drop_offer in *. cbn [s_pc s_fsm s_shut]. exact H.
  - destruct (s_pc s) eqn:E; try discriminate. destruct (s_cancel s || s_stopreq s || s_closed s); [|discriminate].
    injection Hs as <-. apply fsm_begin. unfold in_round. cbn [s_fsm s_shut].
    unfold fsm_ok in H. rewrite E in H. destruct H as [-> _]. reflexivity.
  - destruct (s_pc s) eqn:E; try discriminate.
    + destruct (memN i tocall); [|discriminate]. injection Hs as <-.
      apply fsm_move; try discriminate. unfold in_round, fsm_ok in *. rewrite E in H. exact H.
    + destruct ((i =? i0) && (negb (beh_eqb b BReady) || s_cancel s)); [|discriminate]. injection Hs as <-.
      apply fsm_move; try discriminate. unfold in_round, fsm_ok in *. rewrite E in H. exact H.
  - destruct (s_pc s) eqn:E; try discriminate.
    + destruct (memN i called); [|discriminate].
      assert (R : in_round (drop_stopping i s)) by (unfold in_round, fsm_ok in *; rewrite E in H; exact H).
      destruct tocall, (removeN i called); injection Hs as <-; try (now apply fsm_after); exact R.
    + destruct (i =? i0); [|discriminate]. injection Hs as <-. apply fsm_next.
      unfold in_round, fsm_ok in *. rewrite E in H. exact H.
  - destruct (s_pc s) eqn:E; try discriminate. injection Hs as <-. unfold fsm_ok in *. rewrite E in H. exact H.
  - destruct (s_pc s) eqn:E; try discriminate. destruct (s_cancel s); [|discriminate]. injection Hs as <-.
    apply fsm_finish_ok. unfold in_round, fsm_ok in *. rewrite E in H. exact H.
  - destruct (s_pc s) eqn:E; try discriminate. destruct (lookup k pend); [|discriminate].
    destruct (mem_id k ts && id_eqb (e_id e) k && (e_cfg e =? c) && (i =? s_next s)); [|discriminate].
    injection Hs as <-. unfold fsm_ok in *. rewrite E in H. exact H.
  - destruct (s_pc s) eqn:E; try discriminate. destruct (lookup k pend); [|discriminate].
    destruct (mem_id k ts && id_eqb (e_id e) k && (e_cfg e =? c)); [|discriminate].
    injection Hs as <-. apply fsm_next. unfold in_round, fsm_ok in *. rewrite E in H. exact H.
  - destruct (memN i (s_unrun s)); [|discriminate]. injection Hs as <-. exact H.
  - destruct (s_pc s) eqn:E; try discriminate. destruct (beh_eqb b BReady); [|discriminate]. injection Hs as <-.
    apply fsm_next. unfold in_round, fsm_ok in *. rewrite E in H. exact H.
  - destruct (s_pc s) eqn:E; try discriminate; destruct (n =? N.of_nat (count (s_entries s))); try discriminate;
      injection Hs as <-; exact H.
  - destruct (cstate_eqb c (s_fsm s)); [|discriminate]. injection Hs as <-. exact H.
  - destruct (s_pc s) eqn:E; try discriminate. injection Hs as <-. unfold fsm_ok in *. rewrite E in H. exact H.
Qed.

Lemma fsm_reachable fx d ls s : run (step fx) (init d) ls = Some s -> fsm_ok s.
Proof.
  intros Hr. eapply (run_inv _ _ (step fx) fsm_ok); [apply fsm_step| |exact Hr]. split; reflexivity.
Qed.

Theorem idle_is_running fx d ls s :
  run (step fx) (init d) ls = Some s ->
  (s_pc s = PIdle -> s_fsm s = CRunning) /\ (s_pc s = PFin \/ s_pc s = PRet -> s_fsm s = CStopped) /\
  s_fsm s <> CError.
Proof.
  intros Hr. pose proof (fsm_reachable fx d ls s Hr) as H. unfold fsm_ok in H. split; [|split].
  - intros E. rewrite E in H. apply H.
  - intros [E|E]; now rewrite E in H.
  - destruct (s_pc s); try (destruct H as [-> _]; discriminate); try (rewrite H; destruct (s_shut s); discriminate);
      rewrite H; discriminate.
Qed.

(* the gate and the Reloading failure branch are dead: whenever the loop is idle the guard of the
   processing branch of LRecv holds, so a map offered on the siphon is taken into a round (it becomes
   the round's desired map), never dropped *)
Theorem update_never_ignored fx d ls s :
  run (step fx) (init d) ls = Some s -> s_pc s = PIdle ->
  cstate_eqb (s_fsm s) CRunning && fsm_allowed (s_fsm s) CReloading = true /\
  forall m ord s', s_offer s = Some m -> step fx s (LRecv ord) = Some s' ->
                   s_base s' = s_entries s /\ s_des s' = new_entries m /\ s_offer s' = None.
Proof.
  intros Hr E. pose proof (fsm_reachable fx d ls s Hr) as H. unfold fsm_ok in H. rewrite E in H. destruct H as [Hf Hsh].
  split; [now rewrite Hf|]. intros m ord s' Ho Hs. unfold step in Hs. rewrite E, Ho, Hf in Hs.
  cbn [cstate_eqb fsm_allowed andb] in Hs.
  destruct (is_perm ord (keys (s_entries s))); [|discriminate]. injection Hs as <-.
  assert (B : forall x p, s_base (begin_round x p) = s_base x /\ s_des (begin_round x p) = s_des x /\
                          s_offer (begin_round x p) = s_offer x).
  { intros x p. unfold begin_round. destruct (pending_actions p) as [ts tp]. destruct (stop_insts p tp); [|repeat split].
    destruct tp; [destruct ts; repeat split|]. unfold after_stops. destruct ts; [repeat split|]. destruct (s_delay x); repeat split. }
  apply B.
Qed.
