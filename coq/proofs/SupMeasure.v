(* C02 (termination): a nat-valued measure of supervisor states that strictly decreases on every
   step of the implementation (internal steps, steps it performs by itself, returns a runnable
   owes, timers) once shutdown has started, and grows by a bounded amount on an environment step.
   Hence, after shutdown start, every execution with finitely many environment steps is finite,
   and where it stops Run() has returned. *)
From Coq Require Import List NArith Bool Arith Lia.
From GS Require Import LTS Supervisor SupAccept SupProps SupInv SupStop SupTrig SupGate SupOnce SupReload
                       SupCensus SupProgress.
Import ListNotations.

(* steps of the environment: API calls, state emissions, trigger offers, parent cancellation,
   subscriber actions, the start of / a negative answer to an IsRunning() poll, observations *)
Definition is_system (l : label) : bool :=
  match l with
  | LCall _ _ | LEmit _ _ | LTrigR _ | LTrigS _ | LParentCancel | LSubscribe _ | LSubRecv _ _
  | LSubCancel _ | LSubClosed _ | LSubRel _ | LPollBegin _ | LQuiet | LSnap _ => false
  | LRunEnter => false                       (* the environment calls Run() *)
  | LSeenEntered => false                    (* an observation *)
  | LPoll _ b => b
  | _ => true
  end.

(* ---------------------------------------------------------------- the measure *)

(* weight of one accepted-or-pending reload request: more than a whole reload pass *)
Definition W (c : config) : nat := 2 * nrun c + 4.

Definition main_rank (m : main_pc) : nat :=
  match m with
  | MNew => 10 | MEntering => 9
  | MGate _ => 8 | MGateCheck _ => 7 | MLaunch _ => 6 | MReap => 5 | MExit _ => 4 | MWaitSd _ => 3
  | MReturned _ => 0
  end.

Definition sd_rank (p : sd_pc) : nat :=
  match p with
  | SdNot => 0 | SdNext k => 2 * k + 2 | SdIn i => 2 * i + 3 | SdCancel => 2 | SdWait => 1 | SdDone => 0
  end.

Definition rn_rank (p : rn_pc) : nat :=
  match p with RnLaunched => 4 | RnStored => 3 | RnRunning => 2 | RnSending _ => 1 | _ => 0 end.

Definition rm_rank (c : config) (p : rm_pc) : nat :=
  match p with
  | RmAbsent | RmDone => 0 | RmDrain => 1 | RmIdle => 2
  | RmNext j => 2 * (nrun c - j) + 4 | RmIn j => 2 * (nrun c - j) + 3
  end.

Definition caller_w (c : config) (kc : nat * op * cstate) : nat :=
  match kc with
  | (_, _, CReady) => 1
  | (_, OpShutdown, CNew) => 3
  | (_, OpShutdown, CPending) => 2
  | (_, OpReloadAll, _) => W c + 2
  | (_, OpSignal _, _) => W c + 3
  end.

Definition sig_w (c : config) (g : sig) : nat := match g with SigHup => W c + 1 | _ => 1 end.
(* every live helper goroutine (trigger listener, state monitor, pending SIGHUP sender, trigger-spawned Shutdown
   caller) weighs at least 1: its exit is a step of the implementation too *)
Definition lsr_w (c : config) (p : ls_pc) : nat := match p with LsFwd => W c | LsIdle => 1 | _ => 0 end.
Definition lss_w (p : ls_pc) : nat := match p with LsIdle | LsFwd => 1 | _ => 0 end.
Definition mon_rank (p : mon_pc) : nat :=
  match p with MoNot => 5 | MoBcast _ => 2 | MoFirst | MoLoop _ => 1 | _ => 0 end.
Definition sub_w (b : subscriber) : nat :=
  (if sub_started b then 0 else 2) + (if sub_closed b then 0 else 1).
Definition b2n (b : bool) : nat := if b then 1 else 0.
Definition rt_w (c : config) (t : nat) : nat := t * (W c + 1).

Definition mu (c : config) (s : state) : nat :=
  main_rank (main s) + sd_rank (sd s) + list_sum (map rn_rank (rn s)) + rm_rank c (rm s)
  + hup s * W c + list_sum (map (caller_w c) (callers s)) + list_sum (map (sig_w c) (sigq s))
  + list_sum (map (rt_w c) (rtrig (aux s))) + list_sum (map (lsr_w c) (rls s)) + 2 * list_sum (strig (aux s))
  + list_sum (map lss_w (sls s)) + sd_trig s
  + b2n (negb (sdm_done s)) + b2n (negb (stm_done s))
  + list_sum (map mon_rank (mon s)) + 2 * list_sum (map (@length st) (mq s))
  + list_sum (map sub_w (subs s)).

(* ---------------------------------------------------------------- list facts *)

Lemma sum_map_upd {A} (f : A -> nat) (d : A) : forall l i x,
  (i < length l /\ list_sum (map f (upd l i x)) + f (get d l i) = list_sum (map f l) + f x) \/
  (length l <= i /\ upd l i x = l /\ get d l i = d).
Proof.
  unfold get. induction l as [|a l IH]; intros [|i] x; cbn [length nth upd map list_sum fold_right].
  - right. repeat split; lia.
  - right. repeat split; lia.
  - left. split; lia.
  - destruct (IH i x) as [(L & E)|(L & E & G)].
    + left. split; [lia|]. unfold list_sum in E. lia.
    + right. repeat split; [lia|now rewrite E|exact G].
Qed.

Lemma sum_upd0 : forall l i x,
  (i < length l /\ list_sum (upd l i x) + get 0 l i = list_sum l + x) \/
  (length l <= i /\ upd l i x = l /\ get 0 l i = 0).
Proof.
  unfold get. induction l as [|a l IH]; intros [|i] x; cbn [length nth upd list_sum fold_right].
  - right. repeat split; lia.
  - right. repeat split; lia.
  - left. split; lia.
  - destruct (IH i x) as [(L & E)|(L & E & G)].
    + left. split; [lia|]. unfold list_sum in E. lia.
    + right. repeat split; [lia|now rewrite E|exact G].
Qed.

Lemma sum_cons {A} (f : A -> nat) x l : list_sum (map f (x :: l)) = f x + list_sum (map f l).
Proof. reflexivity. Qed.

Lemma sum_snoc {A} (f : A -> nat) l x : list_sum (map f (l ++ [x])) = list_sum (map f l) + f x.
Proof. rewrite map_app, list_sum_app. cbn. lia. Qed.

Lemma sum_set_caller (f : nat * op * cstate -> nat) k c' : forall l o cs,
  find_caller k l = Some (o, cs) ->
  list_sum (map f (set_caller k c' l)) + f (k, o, cs) = list_sum (map f l) + f (k, o, c').
Proof.
  induction l as [|[[k1 o1] c1] t IH]; intros o cs H; cbn [find_caller set_caller] in *; [discriminate|].
  destruct (Nat.eqb k k1) eqn:E.
  - apply Nat.eqb_eq in E; subst. injection H as -> ->. rewrite !sum_cons. lia.
  - rewrite !sum_cons. specialize (IH _ _ H). lia.
Qed.

Lemma sum_del_caller (f : nat * op * cstate -> nat) k : forall l o cs,
  find_caller k l = Some (o, cs) ->
  list_sum (map f (del_caller k l)) + f (k, o, cs) = list_sum (map f l).
Proof.
  induction l as [|[[k1 o1] c1] t IH]; intros o cs H; cbn [find_caller del_caller] in *; [discriminate|].
  destruct (Nat.eqb k k1) eqn:E.
  - apply Nat.eqb_eq in E; subst. injection H as -> ->. rewrite !sum_cons. lia.
  - rewrite !sum_cons. specialize (IH _ _ H). lia.
Qed.

Lemma sum_set_sub (f : subscriber -> nat) b' : forall l b,
  find_sub (sub_id b') l = Some b ->
  list_sum (map f (set_sub b' l)) + f b = list_sum (map f l) + f b'.
Proof.
  induction l as [|x l IH]; intros b H; cbn [find_sub set_sub] in *; [discriminate|].
  destruct (Nat.eqb (sub_id b') (sub_id x)) eqn:E.
  - injection H as ->. rewrite !sum_cons. lia.
  - rewrite !sum_cons. specialize (IH _ H). lia.
Qed.

Lemma sum_broadcast m l : list_sum (map sub_w (broadcast m l)) <= list_sum (map sub_w l).
Proof.
  unfold broadcast. induction l as [|x l IH]; [reflexivity|]. cbn [map list_sum fold_right]. unfold list_sum in IH.
  assert (sub_w (if sub_registered x && (length (sub_buf x) <? 10)
                    && existsb (fun o => match o with Some _ => true | None => false end) m
                 then {| sub_id := sub_id x; sub_buf := sub_buf x ++ [m]; sub_started := true;
                         sub_registered := true; sub_cancelled := sub_cancelled x; sub_closed := sub_closed x |}
                 else x) <= sub_w x).
  { destruct (_ && _); [|lia]. unfold sub_w. cbn. destruct (sub_started x); lia. }
  lia.
Qed.

Lemma sum_mark_ls c l : list_sum (map (lsr_w c) (mark_ls_done l)) = 0.
Proof.
  unfold mark_ls_done. induction l as [|a l IH]; [reflexivity|]. cbn [map list_sum fold_right].
  unfold list_sum in IH. rewrite IH. destruct a; reflexivity.
Qed.

Lemma sum_mark_lss l : list_sum (map lss_w (mark_ls_done l)) = 0.
Proof.
  unfold mark_ls_done. induction l as [|a l IH]; [reflexivity|]. cbn [map list_sum fold_right].
  unfold list_sum in IH. rewrite IH. destruct a; reflexivity.
Qed.

Lemma sum_mark_mon l : list_sum (map mon_rank (mark_mon_done l)) = 0.
Proof.
  unfold mark_mon_done. induction l as [|a l IH]; [reflexivity|]. cbn [map list_sum fold_right].
  unfold list_sum in IH. rewrite IH. destruct a; reflexivity.
Qed.

Lemma sum_clear_mq (l : list (list st)) : list_sum (map (@length st) (map (fun _ => []) l)) = 0.
Proof.
  induction l as [|a l IH]; [reflexivity|]. cbn [map list_sum fold_right length].
  unfold list_sum in IH. now rewrite IH.
Qed.

Lemma rm_after_shape c j :
  rm_after c j = RmIdle \/ exists k, rm_after c j = RmNext k /\ j <= k /\ k < nrun c.
Proof.
  unfold rm_after. destruct (next_reloadable_spec (specs c) j (nrun c)) as (A & _).
  destruct (Nat.ltb _ _) eqn:L; [right|now left].
  eexists. split; [reflexivity|]. apply Nat.ltb_lt in L. split; [exact A|exact L].
Qed.

(* ---------------------------------------------------------------- the measure decreases *)

Lemma caller_w_pos c kc : 1 <= caller_w c kc.
Proof. destruct kc as [[k o] cs]. unfold W. destruct o, cs; cbn; lia. Qed.

Lemma after_launch_rank c i : main_rank (after_launch c i) <= 6.
Proof. unfold after_launch. destruct (Nat.ltb _ _); cbn; lia. Qed.

Lemma sd_next_rank k : sd_rank (sd_next k) = 2 * k + 2.
Proof. destruct k; cbn [sd_next sd_rank]; lia. Qed.

Ltac upd_one f d :=
  match goal with
  | |- context [list_sum (map f (upd ?l ?i ?x))] =>
      let L := fresh "L" in let E := fresh "E" in let G := fresh "G" in
      destruct (sum_map_upd f d l i x) as [(L & E)|(L & E & G)];
      [ revert E; generalize (list_sum (map f (upd l i x))); intros ? E | rewrite E ]
  end.

Ltac upd0_one :=
  match goal with
  | |- context [list_sum (upd ?l ?i ?x)] =>
      let L := fresh "L" in let E := fresh "E" in let G := fresh "G" in
      destruct (sum_upd0 l i x) as [(L & E)|(L & E & G)];
      [ revert E; generalize (list_sum (upd l i x)); intros ? E | rewrite E ]
  end.

Ltac mu_facts c :=
  repeat upd_one rn_rank RnDone; repeat upd_one (rt_w c) 0; repeat upd_one (lsr_w c) LsAbsent;
  repeat upd_one lss_w LsAbsent;
  repeat upd0_one; repeat upd_one mon_rank MoAbsent; repeat upd_one (@length st) (@nil st);
  try match goal with E : find_caller ?k (callers ?s) = Some _ |- _ =>
        pose proof (sum_del_caller (caller_w c) k _ _ _ E) as Hdel;
        pose proof (sum_set_caller (caller_w c) k CReady _ _ _ E) as Hrdy;
        pose proof (sum_set_caller (caller_w c) k CPending _ _ _ E) as Hpnd end;
  try match goal with |- context [set_sub ?b' (subs ?s)] =>
        match goal with E : find_sub _ (subs s) = Some _ |- _ =>
          pose proof (sum_set_sub sub_w b' _ _ E) as Hsub; revert Hsub;
          generalize (list_sum (map sub_w (set_sub b' (subs s))));
          generalize (list_sum (map sub_w (subs s))); intros ? ? Hsub;
          unfold sub_w in Hsub; cbn [sub_started sub_closed] in Hsub end end;
  try match goal with |- context [broadcast ?m ?l] => pose proof (sum_broadcast m l) as Hbc end;
  repeat match goal with H : get ?d ?l ?i = _, E : context [get ?d ?l ?i] |- _ => rewrite H in E end.

Ltac mu_solve c :=
  unfold mu; simp_st; unfold rn_at, mon_at in *;
  mu_facts c;
  try congruence;
  repeat match goal with E : _ && _ = true |- _ => apply andb_true_iff in E as [? ?] end;
  repeat match goal with E : (_ =? _) = true |- _ => apply Nat.eqb_eq in E; subst end;
  repeat match goal with E : (_ <? _) = true |- _ => apply Nat.ltb_lt in E end;
  repeat match goal with E : main _ = _ |- _ => rewrite E in * end;
  repeat match goal with E : sd _ = _ |- _ => rewrite E in * end;
  repeat match goal with E : rm _ = _ |- _ => rewrite E in * end;
  repeat match goal with E : hup _ = _ |- _ => rewrite E in * end;
  repeat match goal with E : sigq _ = _ |- _ => rewrite E in * end;
  repeat match goal with E : sdm_done _ = _ |- _ => rewrite E in * end;
  repeat match goal with E : stm_done _ = _ |- _ => rewrite E in * end;
  repeat match goal with E : negb (sub_closed _) = true |- _ => apply negb_true_iff in E end;
  repeat match goal with E : sub_started ?b = _, H : context [sub_started ?b] |- _ => rewrite E in H end;
  repeat match goal with E : sub_closed ?b = _, H : context [sub_closed ?b] |- _ => rewrite E in H end;
  repeat match goal with E : negb _ = true |- _ => try rewrite E in *; clear E end;
  repeat match goal with o : op |- _ => destruct o end;
  repeat match goal with g : sig |- _ => destruct g end;
  try discriminate;
  rewrite ?sum_cons, ?sum_snoc, ?sum_mark_ls, ?sum_mark_lss, ?sum_mark_mon, ?sum_clear_mq, ?sd_next_rank;
  try match goal with |- context [after_launch ?c ?i] => pose proof (after_launch_rank c i) end;
  try match goal with |- context [rm_after ?c ?j] =>
        let E := fresh "E" in
        destruct (rm_after_shape c j) as [E|(? & E & ? & ?)]; rewrite E end;
  cbn [main_rank sd_rank rn_rank rm_rank caller_w sig_w lsr_w lss_w mon_rank sub_w b2n negb rt_w length
       sub_started sub_closed map list_sum fold_right] in *;
  repeat match goal with H : context [caller_w ?c (?k, ?o, ?cs)] |- _ =>
           pose proof (caller_w_pos c (k, o, cs)); generalize dependent (caller_w c (k, o, cs)); intros end;
  unfold rt_w in *; unfold W in *;
  try lia.

(* every step of the implementation strictly decreases the measure once shutdown has started *)
Lemma mu_system_step c s l s' :
  sd s <> SdNot -> is_system l = true -> step c s l = Some s' -> mu c s' < mu c s.
Proof.
  intros Hsd Hl H. unfold step in H.
  destruct l; try discriminate Hl; cbn [step0] in H; unfold start_shutdown, store_state in H;
    step_cases H; inversion H; subst; clear H.
  all: try congruence.
  all: try discriminate Hl.
  all: mu_solve c.
Qed.

(* a step of the environment adds at most one request's worth *)
Lemma mu_env_step c s l s' :
  is_system l = false -> step c s l = Some s' -> mu c s' <= mu c s + W c + 3.
Proof.
  intros Hl H. unfold step in H.
  destruct l; try discriminate Hl; cbn [step0] in H; unfold start_shutdown, store_state in H;
    step_cases H; inversion H; subst; clear H.
  all: try discriminate Hl.
  all: mu_solve c.
  all: try (rewrite app_length in *; cbn [length] in *; lia).
  all: try (unfold sub_w; cbn; lia).
Qed.

(* shutdown, once started, stays started *)
Lemma post_shutdown_step c s l s' : sd s <> SdNot -> step c s l = Some s' -> sd s' <> SdNot.
Proof.
  intros Hsd H. unfold step in H.
  destruct l; cbn [step0] in H; unfold start_shutdown, store_state in H;
    step_cases H; inversion H; subst; clear H; simp_st; try assumption; try discriminate; try congruence.
  all: try (match goal with |- sd_next ?k <> _ => destruct k; discriminate end).
Qed.

Lemma post_shutdown_run c ls : forall s s',
  sd s <> SdNot -> run (step c) s ls = Some s' -> sd s' <> SdNot.
Proof.
  induction ls as [|l ls IH]; intros s s' Hsd H.
  - now injection H as <-.
  - cbn [run] in H. destruct (step c s l) as [s1|] eqn:E; [|discriminate].
    eapply IH; [eapply post_shutdown_step; eassumption|exact H].
Qed.

(* ---------------------------------------------------------------- executions are finite *)

Definition count_sys (ls : list label) : nat := length (filter is_system ls).
Definition count_env (ls : list label) : nat := length (filter (fun l => negb (is_system l)) ls).

(* after shutdown start, along ANY execution: the number of implementation steps taken is bounded by
   the measure of the starting state plus a fixed amount per environment step *)
Theorem sup_c02_bounded c ls : forall s s',
  sd s <> SdNot -> run (step c) s ls = Some s' ->
  count_sys ls + mu c s' <= mu c s + (W c + 3) * count_env ls.
Proof.
  unfold count_sys, count_env.
  induction ls as [|l ls IH]; intros s s' Hsd H.
  - injection H as <-. cbn. lia.
  - cbn [run] in H. destruct (step c s l) as [s1|] eqn:E; [|discriminate].
    specialize (IH _ _ (post_shutdown_step _ _ _ _ Hsd E) H). cbn [filter].
    destruct (is_system l) eqn:Hl; cbn [negb length].
    + pose proof (mu_system_step _ _ _ _ Hsd Hl E). lia.
    + pose proof (mu_env_step _ _ _ _ Hl E). lia.
Qed.

(* in particular an execution of implementation steps only has at most mu steps *)
Corollary sup_c02_terminates c ls s s' :
  sd s <> SdNot -> run (step c) s ls = Some s' -> forallb is_system ls = true -> length ls <= mu c s.
Proof.
  intros Hsd H Hall. pose proof (sup_c02_bounded c ls s s' Hsd H) as B.
  unfold count_sys, count_env in B.
  assert (F1 : filter is_system ls = ls).
  { clear -Hall. induction ls as [|l ls IH]; [reflexivity|]. cbn in *.
    apply andb_true_iff in Hall as [-> H]. now rewrite IH. }
  assert (F2 : filter (fun l => negb (is_system l)) ls = []).
  { clear -Hall. induction ls as [|l ls IH]; [reflexivity|]. cbn in *.
    apply andb_true_iff in Hall as [-> H]. cbn. now apply IH. }
  rewrite F1, F2 in B. cbn [length] in B. lia.
Qed.

(* ---------------------------------------------------------------- where they stop *)

(* no step of the implementation is enabled *)
Definition system_stuck (c : config) (s : state) : Prop :=
  forall l, is_system l = true -> step c s l = None.

(* with measure 0 after shutdown start, nothing of the implementation is enabled *)
Lemma mu_zero_stuck c s : sd s <> SdNot -> mu c s = 0 -> system_stuck c s.
Proof.
  intros Hsd M l Hl. destruct (step c s l) as [s2|] eqn:E; [|reflexivity]. exfalso.
  pose proof (mu_system_step _ _ _ _ Hsd Hl E) as X. rewrite M in X. inversion X.
Qed.

Lemma body_step_system s l : body_step s l = true -> is_system l = true.
Proof. unfold body_step. destruct (sd s) as [|[|k]| | | |]; destruct l; cbn; try discriminate; auto; destruct e; auto; discriminate. Qed.

Lemma main_step_system s l : main_step s l = true -> is_system l = true.
Proof. destruct l; cbn; try discriminate; auto. destruct b; auto; discriminate. Qed.

Lemma caller_step_system k l : caller_step k l = true -> is_system l = true.
Proof. destruct l; cbn; try discriminate; auto. Qed.

(* a reachable post-shutdown state in which the implementation cannot move: the shutdown body is
   done, Run() has returned (or was never called), and no Shutdown() caller is left inside the library *)
Theorem sup_c02_stuck_returned c s :
  good c -> 0 < nrun c -> reachable_sup c s -> sd s <> SdNot -> sdfirst_ok c s -> system_stuck c s ->
  sd s = SdDone /\ (main s = MNew \/ exists r, main s = MReturned r) /\
  (forall k cs, find_caller k (callers s) <> Some (OpShutdown, cs)).
Proof.
  intros G Hn Hre Hsd Hok St.
  assert (Es : sd s = SdDone).
  { pose proof (sup_c02_body_progress c s Hre G Hok) as B.
    destruct (sd s); try congruence; exfalso; destruct B as (l & Hl & Hs); apply Hs, St;
      eapply body_step_system; exact Hl. }
  split; [exact Es|]. split.
  - destruct (sup_c02_main_progress c s Hn Hre Es) as [X|[X|(l & Hl & Hs)]]; [now left|now right|].
    exfalso. apply Hs, St. eapply main_step_system; exact Hl.
  - intros k cs Hf. destruct (sup_c02_caller_returns c s k cs Es Hf) as (l & Hl & Hs).
    apply Hs, St. eapply caller_step_system; exact Hl.
Qed.

(* sdfirst_ok is about a flag that no step clears and about the configuration: it is stable *)
Lemma sdfirst_ok_step c s l s' :
  sd s <> SdNot -> sdfirst_ok c s -> step c s l = Some s' -> sdfirst_ok c s'.
Proof.
  intros Hsd Hok H A. apply Hok.
  destruct (step_sd_all _ _ _ _ H) as [[E _]|(X & _)]; [congruence|contradiction].
Qed.

Lemma sdfirst_ok_run c ls : forall s s',
  sd s <> SdNot -> sdfirst_ok c s -> run (step c) s ls = Some s' -> sdfirst_ok c s'.
Proof.
  induction ls as [|l ls IH]; intros s s' Hsd Hok H.
  - now injection H as <-.
  - cbn [run] in H. destruct (step c s l) as [s1|] eqn:E; [|discriminate].
    eapply IH; [eapply post_shutdown_step; eassumption|eapply sdfirst_ok_step; eassumption|exact H].
Qed.

(* every maximal execution of the implementation after shutdown start is finite and ends with
   Run() returned *)
Theorem sup_c02_maximal c s ls s' :
  good c -> 0 < nrun c -> reachable_sup c s -> sd s <> SdNot -> sdfirst_ok c s ->
  run (step c) s ls = Some s' -> forallb is_system ls = true ->
  length ls <= mu c s /\
  (system_stuck c s' -> sd s' = SdDone /\ (main s' = MNew \/ exists r, main s' = MReturned r)).
Proof.
  intros G Hn Hre Hsd Hok H Hall. split; [eapply sup_c02_terminates; eassumption|].
  intros St.
  assert (Hre' : reachable_sup c s').
  { destruct Hre as [ls0 H0]. exists (ls0 ++ ls). now rewrite run_app, H0. }
  pose proof (post_shutdown_run _ _ _ _ Hsd H) as Hsd'.
  pose proof (sdfirst_ok_run _ _ _ _ Hsd Hok H) as Hok'.
  destruct (sup_c02_stuck_returned c s' G Hn Hre' Hsd' Hok' St) as (A & B & _). now split.
Qed.

(* ---------------------------------------------------------------- the timeout sentence of C02 *)

(* "If some runnable never returns, Run() and Shutdown() still return once the timeout has elapsed": with a
   shutdown timeout that can fire and NON-BLOCKING Stops - whatever the runnables' Run does, never returning
   included (no `good`) - the shutdown body always has a step of its own or its timer: *)
Lemma timeout_body_progress c s :
  shutdown_may_fire c = true -> (forall i, i < nrun c -> stop_style (spec c i) = StopNonBlocking) ->
  reachable_sup c s ->
  match sd s with
  | SdNot | SdDone => True
  | _ => exists l, (body_step s l = true \/ l = LSdTimeout) /\ step c s l <> None
  end.
Proof.
  intros Hf NB Hre.
  assert (Hblk : forall i, sd s = SdIn i -> stop_style (spec c i) = StopUntilRunDone ->
                           rn_at s i <> RnNot /\ run_exit (spec c i) <> ExitNever).
  { intros i Es St. rewrite (NB i (stopping_lt c s i Hre Es)) in St. discriminate St. }
  pose proof (stop_loop_progress c s Hre Hblk) as B.
  destruct (sd s) eqn:Es; try exact Logic.I;
    try (destruct B as (l & Hl & Hs); exists l; split; [left; exact Hl|exact Hs]).
  exists LSdTimeout. split; [now right|]. apply sup_c02_timeout_enabled; assumption.
Qed.

(* ... so a state in which the implementation (timers included) cannot move has the shutdown body done,
   Run() returned (or never called) and no Shutdown() caller inside *)
Theorem sup_c02_timeout_stuck_returned c s :
  shutdown_may_fire c = true -> (forall i, i < nrun c -> stop_style (spec c i) = StopNonBlocking) ->
  0 < nrun c -> reachable_sup c s -> sd s <> SdNot -> system_stuck c s ->
  sd s = SdDone /\ (main s = MNew \/ exists r, main s = MReturned r) /\
  (forall k cs, find_caller k (callers s) <> Some (OpShutdown, cs)).
Proof.
  intros Hf NB Hn Hre Hsd St.
  assert (Es : sd s = SdDone).
  { pose proof (timeout_body_progress c s Hf NB Hre) as B.
    destruct (sd s); try congruence; exfalso; destruct B as (l & [Hl| ->] & Hs); apply Hs, St;
      first [eapply body_step_system; exact Hl|reflexivity]. }
  split; [exact Es|]. split.
  - destruct (sup_c02_main_progress c s Hn Hre Es) as [X|[X|(l & Hl & Hs)]]; [now left|now right|].
    exfalso. apply Hs, St. eapply main_step_system; exact Hl.
  - intros k cs Hf' . destruct (sup_c02_caller_returns c s k cs Es Hf') as (l & Hl & Hs).
    apply Hs, St. eapply caller_step_system; exact Hl.
Qed.

(* every maximal execution of implementation steps (timers included) after shutdown start is finite and ends
   there *)
Theorem sup_c02_timeout_maximal c s ls s' :
  shutdown_may_fire c = true -> (forall i, i < nrun c -> stop_style (spec c i) = StopNonBlocking) ->
  0 < nrun c -> reachable_sup c s -> sd s <> SdNot ->
  run (step c) s ls = Some s' -> forallb is_system ls = true ->
  length ls <= mu c s /\
  (system_stuck c s' -> sd s' = SdDone /\ (main s' = MNew \/ exists r, main s' = MReturned r) /\
                        (forall k cs, find_caller k (callers s') <> Some (OpShutdown, cs))).
Proof.
  intros Hf NB Hn Hre Hsd H Hall. split; [eapply sup_c02_terminates; eassumption|].
  intros St.
  assert (Hre' : reachable_sup c s').
  { destruct Hre as [ls0 H0]. exists (ls0 ++ ls). now rewrite run_app, H0. }
  pose proof (post_shutdown_run _ _ _ _ Hsd H) as Hsd'.
  exact (sup_c02_timeout_stuck_returned c s' Hf NB Hn Hre' Hsd' St).
Qed.

(* for Examples: a concrete (closed) state in which no step of the implementation is enabled; case analysis on
   the label and its indices, each case decided by computation *)
Ltac concrete_stuck :=
  let l := fresh "l" in let Hl := fresh "Hl" in
  unfold system_stuck; intros l Hl; destruct l; try discriminate Hl; unfold step; cbn [step0];
  repeat match goal with
         | |- context [Nat.eqb ?i ?j] => is_var i; destruct i
         | |- context [Nat.ltb ?i ?j] => is_var i; destruct i
         | |- context [find_caller ?k _] => is_var k; destruct k as [|[|?]]
         | |- context [find_sub ?k _] => is_var k; destruct k
         | |- context [get _ _ ?k] => is_var k; destruct k
         | |- context [rn_at _ ?k] => is_var k; destruct k
         | |- context [mon_at _ ?k] => is_var k; destruct k
         | o : op |- _ => destruct o
         | g : sig |- _ => destruct g
         | w : sender |- _ => destruct w
         | r : result |- _ => destruct r
         | b : bool |- _ => destruct b
         end;
  try discriminate Hl; vm_compute;
  repeat (try reflexivity; match goal with |- context [match ?i with _ => _ end] => is_var i; destruct i; vm_compute end);
  try reflexivity.
