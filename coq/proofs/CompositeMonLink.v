(* Links between the executable trace monitors (CompositeMon.v) and the model: the monitor clause,
   evaluated on the observable trace of ANY schedule of the model, holds.  Together with
   accept_sound this makes the clause a theorem about every accepted implementation trace.

   Linked here: C10_holdsb clause 1 ("only nil / cancellation exits => Run() does not report
   ErrRunnableFailed").  The clauses that demand that something eventually happens (Run() returned,
   Reload() returned, ...) are liveness statements; they hold of complete implementation traces but
   not of every prefix-closed model trace, so they are not linked as universally quantified
   theorems (their model counterpart is the no-stuck-state theorem). *)
From Coq Require Import List NArith Bool Arith Lia.
From GS Require Import Errs LTS Composite CompositeMon CompositeBase CompositeC10.
Import ListNotations.

(* ------------------------------------------------------------------ no failure so far *)

Definition not_exited (k : kid) : bool := match k_pc k with KExited _ => false | _ => true end.

Definition clean (s : state) : Prop :=
  fail_sent s = false /\ errq s = [] /\ took s = None /\ forallb not_exited (kids s) = true.

Definition quiet_label (l : label) : Prop :=
  match obs l with Some e => is_fail_exit e = false | None => True end.

Lemma forallb_upd_kpc i p l :
  not_exited (mkKid 0 0%N p ORun) = true -> forallb not_exited l = true ->
  forallb not_exited (upd i (set_kpc p) l) = true.
Proof.
  intros Hp. revert i; induction l as [|y l IH]; intros [|i] H; cbn in *; auto.
  - apply andb_true_iff in H as [_ H]. unfold not_exited in *. cbn in *. now rewrite Hp.
  - apply andb_true_iff in H as [H1 H2]. rewrite H1. cbn. now apply IH.
Qed.

Lemma forallb_nth {A} (f : A -> bool) l i x : forallb f l = true -> nth_error l i = Some x -> f x = true.
Proof. intros H Hn. rewrite forallb_forall in H. apply H. eapply nth_error_In; eassumption. Qed.

Lemma spawn_not_exited o g es : forallb not_exited (spawn_kids o g es) = true.
Proof. unfold spawn_kids. induction es as [|e l IH]; cbn; auto. Qed.

Lemma clean_step P s l s' : clean s -> quiet_label l -> step P s l = Some s' -> clean s'.
Proof.
  intros (Hf & Hq & Ht & Hk) Hl Hst. unfold clean, quiet_label in *.
  open_step Hst; cbn in *; goal_cases; try (split_all; assumption).
  all: try (rewrite Hq in *; discriminate).
  all: try (split_all; try assumption; try reflexivity;
            rewrite forallb_app; rewrite Hk; cbn; apply spawn_not_exited).
  all: try (split_all; try assumption; apply forallb_upd_kpc; [reflexivity|assumption]).
  all: try (pose proof (forallb_nth _ _ _ _ Hk E) as Hx; unfold not_exited in Hx;
            match goal with Hp : k_pc ?k = KExited _ |- _ => rewrite Hp in Hx; discriminate Hx end).
  - (* a Run returns: by hypothesis with nil or a cancellation error, so the goroutine is done *)
    split_all; auto. apply forallb_upd_kpc; [|assumption].
    destruct e as [x|]; cbn in *; [|reflexivity].
    apply negb_false_iff in Hl. rewrite Hl. reflexivity.
Qed.

Lemma clean_run P ls : forall s s',
  clean s -> Forall quiet_label ls -> run (step P) s ls = Some s' -> clean s'.
Proof.
  induction ls as [|l ls IH]; intros s s' Hc Hq Hr.
  - injection Hr as <-. exact Hc.
  - cbn in Hr. destruct (step P s l) as [s1|] eqn:E; [|discriminate].
    inversion Hq as [|? ? Hl Hq']; subst. eapply IH; [eapply clean_step; eassumption|exact Hq'|exact Hr].
Qed.

Lemma quiet_of_trace ls :
  existsb is_fail_exit (obs_trace obs ls) = false -> Forall quiet_label ls.
Proof.
  induction ls as [|l ls IH]; cbn; [constructor|].
  unfold quiet_label at 1. destruct (obs l) as [e|] eqn:E; cbn.
  - intros H. apply orb_false_iff in H as [H1 H2]. constructor; [unfold quiet_label; now rewrite E|auto].
  - intros H. constructor; [unfold quiet_label; now rewrite E|auto].
Qed.

(* ------------------------------------------------------------------ Run's result in the trace *)

Definition res_rel (tr : list event) (s : state) : Prop :=
  match run_result tr with
  | Some r => exists r', runt s = TDone r' /\ classify r' = r
  | None => forall r', runt s <> TDone r'
  end.

Lemma run_result_app tr e :
  run_result (tr ++ [e]) =
  match run_result tr with
  | Some r => Some r
  | None => match e with EApiRet OpRun _ r => Some r | _ => None end
  end.
Proof.
  induction tr as [|x tr IH]; cbn.
  - destruct e as [|o ? ?| | | | | | | | |]; try reflexivity; try (destruct o; reflexivity).
  - destruct x as [|o ? ?| | | | | | | | |]; auto; try (destruct o; auto).
Qed.

Lemma res_rel_step P tr s l s' :
  res_rel tr s -> step P s l = Some s' ->
  res_rel (match obs l with Some e => tr ++ [e] | None => tr end) s'.
Proof.
  intros H Hst. unfold res_rel in *.
  open_step Hst; cbn [obs]; rewrite ?run_result_app; cbn;
    destruct (run_result tr) as [rres|] eqn:Er; cbn; goal_cases.
  all: try (destruct H as (rq & Hr & Hc); rewrite ?E, ?En in Hr; try discriminate Hr).
  all: try (exists rq; split; assumption).
  all: try (intros r'; try (unfold tear_pc; destruct (fix_c09 P)); discriminate).
  all: try (intros r'; apply H).
  apply oerr_eqb_eq in E0. subst. exists r0. auto.
Qed.

Lemma res_rel_run P ls : forall tr s s',
  res_rel tr s -> run (step P) s ls = Some s' -> res_rel (tr ++ obs_trace obs ls) s'.
Proof.
  induction ls as [|l ls IH]; intros tr s s' H Hr.
  - injection Hr as <-. cbn. now rewrite app_nil_r.
  - cbn in Hr. destruct (step P s l) as [s1|] eqn:E; [|discriminate].
    pose proof (res_rel_step P tr s l s1 H E) as H1. cbn [obs_trace].
    destruct (obs l) as [e|].
    + specialize (IH _ _ _ H1 Hr). now rewrite <- app_assoc in IH.
    + exact (IH _ _ _ H1 Hr).
Qed.

(* ------------------------------------------------------------------ the link *)

(* C10_holdsb, clause 1, on the observable trace of ANY schedule of the model: if every child exit
   in the trace is nil or a cancellation error, then Run()'s result (if it is in the trace) does not
   wrap ErrRunnableFailed.  In particular C10_holdsb never answers 1 on a model trace. *)
Theorem c10_clause1_link P ls s :
  run (step P) init ls = Some s ->
  existsb is_fail_exit (obs_trace obs ls) = false ->
  forall r, run_result (obs_trace obs ls) = Some r -> rc_failed r = false.
Proof.
  intros Hr Hq r Hres.
  assert (Hc : clean s).
  { eapply clean_run; [|apply quiet_of_trace; exact Hq|exact Hr]. repeat split; reflexivity. }
  pose proof (res_rel_run P ls [] init s) as Hrel. cbn in Hrel.
  specialize (Hrel ltac:(unfold res_rel; cbn; discriminate) Hr).
  unfold res_rel in Hrel. rewrite Hres in Hrel. destruct Hrel as (r' & Hrt & Hcl).
  destruct Hc as (_ & _ & Ht & _).
  assert (Hreach : reach P s) by (now exists ls).
  destruct (InvC10_reach P s Hreach) as (_ & _ & _ & _ & H4).
  assert (Hres' : result_of (runt s) = Some r') by (rewrite Hrt; reflexivity).
  specialize (H4 _ Hres'). rewrite Ht in H4. subst r.
  destruct H4 as [-> | ->]; reflexivity.
Qed.

Lemma split_first_none f tr pre : split_first f tr = (pre, None) -> existsb f tr = false.
Proof.
  revert pre; induction tr as [|x t IH]; intros pre H; [reflexivity|].
  cbn in H. destruct (f x) eqn:Ex; [discriminate H|].
  destruct (split_first f t) as [a b] eqn:Et. injection H as <- ->.
  cbn. rewrite Ex. cbn. eapply IH. reflexivity.
Qed.

Lemma c10_holdsb_base P tr v : v <> 0%N -> v <> 7%N -> C10_holdsb P tr = v -> C10_base P tr = v.
Proof.
  unfold C10_holdsb. intros H0 H7. destruct (C10_base P tr) eqn:E; [|auto].
  destruct (failed_state_ok tr); intros <-; congruence.
Qed.

Lemma c10_base_not_1 P ls s :
  run (step P) init ls = Some s -> C10_base P (obs_trace obs ls) <> 1%N.
Proof.
  intros Hr. unfold C10_base.
  destruct (split_first is_fail_exit (obs_trace obs ls)) as [pre hit] eqn:Es.
  destruct hit as [[e post]|].
  - destruct (existsb (is_state FRunning) pre && negb (existsb is_stop_or_cancel pre) && negb (existsb is_run_ret pre));
      cbn; [|discriminate].
    destruct (run_result post) as [r|]; [|discriminate].
    destruct (negb (rc_failed r)); [discriminate|].
    repeat match goal with |- (if ?b then _ else _) <> _ => destruct b; try discriminate end.
  - pose proof (split_first_none _ _ _ Es) as Hno.
    destruct (run_result (obs_trace obs ls)) as [r|] eqn:Er; [|discriminate].
    rewrite (c10_clause1_link P ls s Hr Hno r Er). discriminate.
Qed.

Corollary c10_holdsb_not_1 P ls s :
  run (step P) init ls = Some s -> C10_holdsb P (obs_trace obs ls) <> 1%N.
Proof.
  intros Hr H. apply (c10_base_not_1 P ls s Hr). apply c10_holdsb_base; [discriminate|discriminate|exact H].
Qed.
