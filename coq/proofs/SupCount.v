(* C05 (counting): every rendezvous on the reload channel consumes exactly one pending request and
   begins exactly one pass; hence the passes begun never exceed the requests made. *)
From Coq Require Import List NArith Bool Arith Lia.
From GS Require Import LTS Supervisor SupAccept SupProps SupInv SupStop SupTrig SupGate SupOnce SupReload SupCensus.
Import ListNotations.

Definition b2n (b : bool) : nat := if b then 1 else 0.

Definition req_ev (e : event) : bool :=
  match e with
  | ECall _ OpReloadAll | ECall _ (OpSignal SigHup) | ETrigR _ => true
  | _ => false
  end.

Lemma requests_upper_eq t : requests_upper t = length (filter req_ev t).
Proof. reflexivity. Qed.

(* ---------------------------------------------------------------- requests on their way *)

Definition pend_f (kc : nat * op * cstate) : bool :=
  match kc with
  | (_, OpReloadAll, CPending) | (_, OpSignal SigHup, CPending) => true
  | _ => false
  end.
Definition is_hup (g : sig) : bool := match g with SigHup => true | _ => false end.
Definition is_fwd (p : ls_pc) : bool := match p with LsFwd => true | _ => false end.

(* reload requests made but not yet accepted by the manager: callers inside ReloadAll() or
   SendSignal(SIGHUP), SIGHUPs queued on signalChan, `go p.ReloadAll()` goroutines, trigger offers
   not yet received, listeners about to forward *)
Definition pending_requests (s : state) : nat :=
  count_if pend_f (callers s) + count_if is_hup (sigq s) + hup s
  + list_sum (rtrig (aux s)) + count_if is_fwd (rls s).

Lemma cnt_cons {A} (f : A -> bool) x l : count_if f (x :: l) = b2n (f x) + count_if f l.
Proof. unfold count_if. cbn [filter]. destruct (f x); reflexivity. Qed.

Lemma cnt_snoc {A} (f : A -> bool) l x : count_if f (l ++ [x]) = count_if f l + b2n (f x).
Proof. unfold count_if. rewrite filter_app, app_length. cbn [filter]. destruct (f x); reflexivity. Qed.

Lemma npend_set k c' : forall l o cs,
  find_caller k l = Some (o, cs) ->
  count_if pend_f (set_caller k c' l) + b2n (pend_f (k, o, cs))
  = count_if pend_f l + b2n (pend_f (k, o, c')).
Proof.
  induction l as [|[[k1 o1] c1] t IH]; intros o cs H; cbn [find_caller set_caller] in *; [discriminate|].
  destruct (Nat.eqb k k1) eqn:E.
  - apply Nat.eqb_eq in E; subst. injection H as -> ->. rewrite !cnt_cons. cbn [pend_f]. lia.
  - rewrite !cnt_cons. specialize (IH _ _ H). lia.
Qed.

Lemma npend_del k : forall l o cs,
  find_caller k l = Some (o, cs) ->
  count_if pend_f (del_caller k l) + b2n (pend_f (k, o, cs)) = count_if pend_f l.
Proof.
  induction l as [|[[k1 o1] c1] t IH]; intros o cs H; cbn [find_caller del_caller] in *; [discriminate|].
  destruct (Nat.eqb k k1) eqn:E.
  - apply Nat.eqb_eq in E; subst. injection H as -> ->. rewrite !cnt_cons. cbn [pend_f]. lia.
  - rewrite !cnt_cons. specialize (IH _ _ H). lia.
Qed.

Lemma nfwd_upd : forall l i p,
  get LsAbsent l i <> LsAbsent ->
  count_if is_fwd (upd l i p) + b2n (is_fwd (get LsAbsent l i)) = count_if is_fwd l + b2n (is_fwd p).
Proof.
  unfold get. induction l as [|a l IH]; intros [|i] p H; cbn [nth upd] in *; try congruence.
  - rewrite !cnt_cons. lia.
  - rewrite !cnt_cons. specialize (IH i p H). lia.
Qed.

Lemma nfwd_mark l : count_if is_fwd (mark_ls_done l) = 0.
Proof.
  unfold mark_ls_done. induction l as [|a l IH]; [reflexivity|]. cbn [map]. rewrite cnt_cons, IH.
  destruct a; reflexivity.
Qed.

Lemma sum_upd : forall l i x, i < length l -> list_sum (upd l i x) + get 0 l i = list_sum l + x.
Proof.
  unfold get. induction l as [|a l IH]; intros [|i] x H; cbn [length nth upd list_sum fold_right] in *; try lia.
  specialize (IH i x ltac:(lia)). unfold list_sum in IH. lia.
Qed.

Lemma upd_over {A} : forall (l : list A) i x, length l <= i -> upd l i x = l.
Proof.
  induction l as [|a l IH]; intros [|i] x H; cbn [length upd] in *; try reflexivity; try lia.
  f_equal. apply IH. lia.
Qed.

Lemma get_pos_lt l i : get 0 l i <> 0 -> i < length l.
Proof.
  unfold get. intros H. destruct (Nat.lt_ge_cases i (length l)) as [L|L]; [exact L|].
  rewrite nth_overflow in H by exact L. congruence.
Qed.

Lemma sum_upd_le l i x : list_sum (upd l i x) + get 0 l i <= list_sum l + x.
Proof.
  destruct (Nat.lt_ge_cases i (length l)) as [L|L]; [rewrite sum_upd by exact L; lia|].
  rewrite upd_over by exact L. unfold get. rewrite nth_overflow by exact L. lia.
Qed.

(* ---------------------------------------------------------------- how one step moves the counters *)

Definition not_reload_call (x : event) : Prop := forall j, x <> EReloadCall j.

Inductive ce_effect (c : config) (s s' : state) : Prop :=
| ce_accept :
    rm s = RmIdle -> rm s' = rm_after c 0 -> passes s' = S (passes s) -> hist s' = hist s ->
    pending_requests s = S (pending_requests s') -> ce_effect c s s'
| ce_req x :
    req_ev x = true -> hist s' = x :: hist s -> rm s' = rm s -> passes s' = passes s ->
    pending_requests s' <= S (pending_requests s) -> ce_effect c s s'
| ce_call j :
    rm s = RmNext j -> rm s' = RmIn j -> hist s' = EReloadCall j :: hist s -> passes s' = passes s ->
    pending_requests s' = pending_requests s -> ce_effect c s s'
| ce_ret j :
    rm s = RmIn j -> rm s' = rm_after c (S j) -> hist s' = EReloadRet j :: hist s -> passes s' = passes s ->
    pending_requests s' = pending_requests s -> ce_effect c s s'
| ce_start :
    pre_run s -> rm s' = (if any_spec reloadable c then RmIdle else RmAbsent) ->
    passes s' = passes s -> pending_requests s' <= pending_requests s -> hist s' = hist s -> ce_effect c s s'
| ce_other :
    passes s' = passes s -> pending_requests s' <= pending_requests s ->
    (rm s' = rm s \/ (rm s = RmIdle /\ rm s' = RmDrain) \/ (rm s = RmDrain /\ rm s' = RmDone)) ->
    (hist s' = hist s \/ exists x, hist s' = x :: hist s /\ req_ev x = false /\ not_reload_call x) ->
    ce_effect c s s'.

Ltac hist_other :=
  first [ left; reflexivity
        | right; eexists; split; [reflexivity|split; [reflexivity|intros ? X; discriminate X]] ].

Lemma nfwd_fresh c (l : list rspec) :
  count_if is_fwd (map (fun r => if rsender r && any_spec reloadable c then LsIdle else LsAbsent) l) = 0.
Proof.
  induction l as [|a l IH]; [reflexivity|]. cbn [map]. rewrite cnt_cons, IH.
  destruct (rsender a && any_spec reloadable c); reflexivity.
Qed.

Lemma step_ce_effect c s l s' : step c s l = Some s' -> ce_effect c s s'.
Proof.
  intros H. unfold step in H.
  destruct l; cbn [step0] in H; unfold start_shutdown, store_state in H;
    step_cases H; inversion H; subst; clear H.
  all: try (apply ce_other; [reflexivity|unfold pending_requests; simp_st; lia|left; reflexivity|hist_other]; fail).
  all: repeat match goal with E : _ && _ = true |- _ => apply andb_true_iff in E as [? ?] end.
  all: repeat match goal with E : (_ =? _) = true |- _ => apply Nat.eqb_eq in E; subst end.
  all: try match goal with g : sig |- _ => destruct g end.
  (* the facts about the lists this step touches *)
  all: try match goal with E : find_caller ?k (callers ?s) = Some _ |- _ =>
         pose proof (npend_del k _ _ _ E) as Hdel; pose proof (npend_set k CReady _ _ _ E) as Hrdy;
         pose proof (npend_set k CPending _ _ _ E) as Hpnd; cbn [pend_f b2n] in Hdel, Hrdy, Hpnd end.
  all: try match goal with E : get LsAbsent (rls ?s) ?i = ?p |- _ =>
         assert (Hne : get LsAbsent (rls s) i <> LsAbsent) by (rewrite E; discriminate);
         pose proof (nfwd_upd (rls s) i LsIdle Hne) as Hfi; pose proof (nfwd_upd (rls s) i LsFwd Hne) as Hff;
         pose proof (nfwd_upd (rls s) i LsDone Hne) as Hfd;
         rewrite E in Hfi, Hff, Hfd; cbn [is_fwd b2n] in Hfi, Hff, Hfd end.
  all: try match goal with E : get 0 (rtrig (aux ?s)) ?i = S ?n |- _ =>
         assert (Hlt : i < length (rtrig (aux s))) by (apply get_pos_lt; rewrite E; discriminate);
         pose proof (sum_upd (rtrig (aux s)) i n Hlt) as Hsum; rewrite E in Hsum end.
  all: try match goal with |- context [upd (rtrig (aux ?s)) ?i (S ?g)] =>
         pose proof (sum_upd_le (rtrig (aux s)) i (S g)) as Hsle end.
  all: try (apply ce_other;
            [reflexivity
            |unfold pending_requests; simp_st;
             repeat match goal with E : sigq _ = _ |- _ => rewrite E end;
             repeat match goal with E : hup _ = _ |- _ => rewrite E end;
             rewrite ?cnt_snoc, ?cnt_cons, ?nfwd_mark; cbn [pend_f is_hup is_fwd b2n]; lia
            |first [left; reflexivity|right; left; split; [assumption|reflexivity]
                   |right; right; split; [assumption|reflexivity]]
            |hist_other]; fail).
  all: try (eapply ce_accept; [eassumption|reflexivity|reflexivity|reflexivity|];
            unfold pending_requests; simp_st;
            repeat match goal with E : hup _ = _ |- _ => rewrite E end; lia).
  all: try (eapply ce_req; [|reflexivity|reflexivity|reflexivity|]; [reflexivity|];
            unfold pending_requests; simp_st; rewrite ?cnt_snoc; cbn [pend_f b2n]; lia).
  all: try (eapply ce_call; [eassumption|reflexivity|reflexivity|reflexivity|reflexivity]; fail).
  all: try (eapply ce_ret; [eassumption|reflexivity|reflexivity|reflexivity|reflexivity]; fail).
  all: try (apply ce_start; [right; assumption|reflexivity|reflexivity| |reflexivity];
            unfold pending_requests; simp_st; rewrite nfwd_fresh; lia).
Qed.

(* ---------------------------------------------------------------- the first Reloadable *)

Lemma filter_seq_first (f : nat -> bool) : forall n a x r,
  filter f (seq a n) = x :: r ->
  a <= x < a + n /\ f x = true /\ forall i, a <= i -> i < x -> f i = false.
Proof.
  induction n as [|n IH]; intros a x r H; cbn [seq filter] in H; [discriminate|].
  destruct (f a) eqn:Fa.
  - injection H as <- _. repeat split; try lia; auto; intros; lia.
  - destruct (IH _ _ _ H) as (L & Fx & B). repeat split; try lia; auto.
    intros i L1 L2. destruct (Nat.eq_dec i a) as [->|N]; [exact Fa|apply B; lia].
Qed.

Lemma rm_after_first c i0 r : reloadables c = i0 :: r -> rm_after c 0 = RmNext i0.
Proof.
  unfold reloadables. intros H. apply filter_seq_first in H as (L & F & B). cbn [plus] in L.
  unfold rm_after, nrun, spec in *.
  destruct (next_reloadable_spec (specs c) 0 (length (specs c))) as (A & Bn & C & D).
  set (k0 := next_reloadable (specs c) 0 (length (specs c))) in *.
  assert (E : k0 = i0).
  { destruct (Nat.lt_trichotomy k0 i0) as [X|[X|X]]; [|exact X|].
    - specialize (C ltac:(lia) ltac:(lia)). specialize (B k0 ltac:(lia) X). congruence.
    - specialize (Bn i0 ltac:(lia) X). congruence. }
  rewrite E. destruct (Nat.ltb_spec i0 (length (specs c))); [reflexivity|lia].
Qed.

Lemma rm_after_gt c j k : rm_after c (S j) = RmNext k -> j < k.
Proof.
  unfold rm_after.
  destruct (next_reloadable_spec (specs c) (S j) (nrun c)) as (A & _).
  destruct (Nat.ltb _ _); intros H; [injection H as <-; lia|discriminate H].
Qed.

Lemma no_reloadables c : reloadables c = [] -> any_spec reloadable c = false.
Proof.
  intros H. unfold any_spec. destruct (existsb reloadable (specs c)) eqn:E; [|reflexivity].
  apply existsb_exists in E as (x & Hin & Hx). apply (In_nth _ _ dflt_spec) in Hin as (i & Li & Hi).
  exfalso. assert (X : In i (reloadables c)).
  { unfold reloadables. apply filter_In. split; [apply in_seq; unfold nrun; lia|].
    unfold spec. now rewrite Hi. }
  rewrite H in X. exact X.
Qed.

(* ---------------------------------------------------------------- the invariant *)

(* a rendezvous has happened whose pass has not made its first Reload() call yet *)
Definition due (c : config) (s : state) : nat :=
  match rm s, reloadables c with
  | RmNext j, i0 :: _ => b2n (Nat.eqb j i0)
  | _, _ => 0
  end.

Definition InvCnt (c : config) (s : state) : Prop :=
  passes s + pending_requests s <= length (filter req_ev (hist s)) /\
  (forall i0 r, reloadables c = i0 :: r ->
     passes s = count_ev (EReloadCall i0) (hist s) + due c s /\
     (forall j, rm s = RmNext j \/ rm s = RmIn j -> i0 <= j)) /\
  (reloadables c = [] -> rm s = RmAbsent /\ passes s = 0).

Lemma InvCnt_init c : InvCnt c (init c).
Proof.
  split; [unfold pending_requests, init; simp_st|split].
  - assert (Z : forall n, list_sum (repeat 0 n) = 0) by (induction n; cbn; auto).
    assert (F : forall l : list rspec, count_if is_fwd (map (fun _ => LsAbsent) l) = 0).
    { induction l as [|a l IH]; [reflexivity|]. cbn [map]. now rewrite cnt_cons, IH. }
    rewrite Z, F. reflexivity.
  - intros i0 r Hr. unfold due. rewrite Hr. cbn. split; [reflexivity|].
    intros j [H|H]; discriminate H.
  - intros Hr. cbn. now split.
Qed.

Lemma not_call_eqb i0 x : not_reload_call x -> event_eqb (EReloadCall i0) x = false.
Proof. intros H. destruct x; try reflexivity. exfalso. eapply H. reflexivity. Qed.

Lemma InvCnt_step c s l s' : InvAbs s -> InvCnt c s -> step c s l = Some s' -> InvCnt c s'.
Proof.
  intros IA (I1 & I2 & I3) H.
  destruct (step_ce_effect _ _ _ _ H)
    as [Ei Er Ep Eh Epr | x Hx Eh Er Ep Epr | j Ej Er Eh Ep Epr | j Ej Er Eh Ep Epr | Epre Er Ep Epr Eh | Ep Epr Er Eh].
  - (* rendezvous *)
    split; [rewrite Eh; lia|split].
    + intros i0 r Hr. destruct (I2 _ _ Hr) as (P & J). unfold due in *. rewrite Hr in *.
      rewrite Er, (rm_after_first _ _ _ Hr), Eh, Ep. rewrite Ei in P. rewrite Nat.eqb_refl. cbn [b2n]. split; [lia|].
      intros j [X|X]; [injection X as <-; lia|discriminate X].
    + intros Hr. destruct (I3 Hr) as (X & _). congruence.
  - (* a request is made *)
    split; [rewrite Eh; cbn [filter]; rewrite Hx; cbn [length]; lia|split].
    + intros i0 r Hr. destruct (I2 _ _ Hr) as (P & J). unfold due in *. rewrite Er, Ep, Eh.
      cbn [count_ev]. replace (event_eqb (EReloadCall i0) x) with false; [split; [exact P|exact J]|].
      destruct x; try discriminate Hx; reflexivity.
    + intros Hr. rewrite Er, Ep. exact (I3 Hr).
  - (* first/next Reload() call *)
    split; [rewrite Eh; cbn [filter req_ev]; lia|split].
    + intros i0 r Hr. destruct (I2 _ _ Hr) as (P & J). unfold due in *. rewrite Hr in *.
      rewrite Er, Ep, Eh. rewrite Ej in P. cbn [count_ev event_eqb]. rewrite (Nat.eqb_sym i0 j).
      split; [destruct (Nat.eqb j i0); cbn [b2n] in *; lia|].
      intros k [X|X]; [discriminate X|injection X as <-]. apply J. left. exact Ej.
    + intros Hr. destruct (I3 Hr) as (X & _). congruence.
  - (* Reload() returns *)
    split; [rewrite Eh; cbn [filter req_ev]; lia|split].
    + intros i0 r Hr. destruct (I2 _ _ Hr) as (P & J). unfold due in *. rewrite Hr in *.
      assert (Lj : i0 <= j) by (apply J; right; exact Ej).
      rewrite Er, Ep, Eh. rewrite Ej in P. cbn [count_ev event_eqb]. cbn [plus].
      destruct (rm_after_cases c (S j)) as [(k & Ek)|Ek]; rewrite Ek.
      * pose proof (rm_after_gt _ _ _ Ek) as Lk. replace (Nat.eqb k i0) with false
          by (symmetry; apply Nat.eqb_neq; lia). cbn [b2n]. split; [lia|].
        intros k' [X|X]; [injection X as <-; lia|discriminate X].
      * split; [lia|]. intros k' [X|X]; discriminate X.
    + intros Hr. destruct (I3 Hr) as (X & _). congruence.
  - (* Run() entered: the reload manager is created, or not *)
    destruct (IA Epre) as (Ea & _).
    split; [rewrite Eh; lia|split].
    + intros i0 r Hr. destruct (I2 _ _ Hr) as (P & J). unfold due in *. rewrite Hr in *.
      rewrite Ea in P. rewrite Er, Eh, Ep.
      split; [destruct (any_spec reloadable c); exact P|].
      intros j [X|X]; destruct (any_spec reloadable c); discriminate X.
    + intros Hr. destruct (I3 Hr) as (_ & Y). rewrite Er, Ep, (no_reloadables _ Hr). now split.
  - (* everything else *)
    assert (Hf : length (filter req_ev (hist s')) = length (filter req_ev (hist s))).
    { destruct Eh as [->|(x & -> & Hx & _)]; [reflexivity|]. cbn [filter]. now rewrite Hx. }
    split; [lia|split].
    + intros i0 r Hr. destruct (I2 _ _ Hr) as (P & J).
      assert (Hc : count_ev (EReloadCall i0) (hist s') = count_ev (EReloadCall i0) (hist s)).
      { destruct Eh as [->|(x & -> & _ & Hx)]; [reflexivity|]. cbn [count_ev]. now rewrite (not_call_eqb _ _ Hx). }
      rewrite Hc, Ep. unfold due in *. rewrite Hr in *.
      destruct Er as [Er|[(E1 & E2)|(E1 & E2)]].
      * rewrite Er. split; [exact P|exact J].
      * rewrite E2. rewrite E1 in P. split; [exact P|]. intros k [X|X]; discriminate X.
      * rewrite E2. rewrite E1 in P. split; [exact P|]. intros k [X|X]; discriminate X.
    + intros Hr. destruct (I3 Hr) as (X & Y). rewrite Ep.
      destruct Er as [Er|[(E1 & E2)|(E1 & E2)]]; [rewrite Er; now split|congruence|congruence].
Qed.

Lemma InvCnt_reachable c s : reachable_sup c s -> InvCnt c s.
Proof.
  intros Hr.
  assert (G : InvAbs s /\ InvCnt c s).
  { revert s Hr. apply sup_inv.
    - split; [apply InvAbs_init|apply InvCnt_init].
    - intros s0 l s1 [IA I] Hs. split; [eapply InvAbs_step; eassumption|eapply InvCnt_step; eassumption]. }
  apply G.
Qed.

(* ---------------------------------------------------------------- theorems *)

Lemma count_ev_rev e h : count_ev e (rev h) = count_ev e h.
Proof.
  induction h as [|x h IH]; [reflexivity|]. cbn [rev]. rewrite count_ev_app, IH. cbn [count_ev]. lia.
Qed.

Lemma filter_rev_length {A} (f : A -> bool) h : length (filter f (rev h)) = length (filter f h).
Proof.
  induction h as [|x h IH]; [reflexivity|]. cbn [rev filter]. rewrite filter_app, app_length, IH.
  cbn [filter]. destruct (f x); cbn [length]; lia.
Qed.

(* C05 (count): the rendezvous on the reload channel are exactly the passes begun plus the one
   about to begin; rendezvous plus requests still on their way never exceed the requests made *)
Theorem sup_c05_count c s :
  reachable_sup c s ->
  passes s = passes_begun c (rev (hist s)) + due c s /\
  passes s + pending_requests s <= requests_upper (rev (hist s)).
Proof.
  intros Hre. destruct (InvCnt_reachable _ _ Hre) as (I1 & I2 & I3).
  rewrite requests_upper_eq, filter_rev_length. split; [|exact I1].
  unfold passes_begun, due. destruct (reloadables c) as [|i0 r] eqn:Hr.
  - destruct (I3 eq_refl) as (_ & ->). now destruct (rm s).
  - rewrite count_ev_rev. destruct (I2 _ _ eq_refl) as (P & _). unfold due in P. now rewrite Hr in P.
Qed.

(* C05 (no duplicate): never more passes begun than requests made *)
Theorem sup_c05_no_dup c ls s :
  run (step c) (init c) ls = Some s -> c05_no_dup c (obs_trace obs ls) = true.
Proof.
  intros H. rewrite (trace_is_history _ _ _ H).
  destruct (sup_c05_count c s) as (P & Q); [now exists ls|].
  unfold c05_no_dup. apply Nat.leb_le. lia.
Qed.

(* each rendezvous consumes exactly one request on its way and begins exactly one pass *)
Theorem sup_c05_accept_one c s w s' :
  step c s (LRmAccept w) = Some s' ->
  rm s = RmIdle /\ rm s' = rm_after c 0 /\ passes s' = S (passes s) /\
  pending_requests s = S (pending_requests s') /\ hist s' = hist s.
Proof.
  intros H. unfold step in H. cbn [step0] in H. step_cases H; inversion H; subst; clear H.
  all: try match goal with E : find_caller ?k (callers ?s) = Some _ |- _ =>
         pose proof (npend_set k CReady _ _ _ E) as Hrdy; cbn [pend_f b2n] in Hrdy end.
  all: try match goal with E : get LsAbsent (rls ?s) ?i = ?p |- _ =>
         assert (Hne : get LsAbsent (rls s) i <> LsAbsent) by (rewrite E; discriminate);
         pose proof (nfwd_upd (rls s) i LsIdle Hne) as Hfi; rewrite E in Hfi; cbn [is_fwd b2n] in Hfi end.
  all: repeat split; try reflexivity; try assumption; unfold pending_requests; simp_st;
    repeat match goal with E : hup _ = _ |- _ => rewrite E end; lia.
Qed.

(* ---------------------------------------------------------------- no request is lost (lower bound) *)

(* While the supervisor's context is not cancelled and some runnable is Reloadable, the accounting is EXACT: every
   request made so far (ReloadAll() call, SIGHUP SendSignal call, trigger offered on a reload-trigger channel) is
   either still on its way - counted in pending_requests - or was handed to the reload manager in a rendezvous of
   its own (passes).  The only ways a request leaves the system without a pass need a cancelled context (a caller
   or a listener gives up on ctx.Done) or a configuration without any Reloadable (SIGHUP is then ignored). *)

Lemma ctx_done_mono c s l s' : step c s l = Some s' -> ctx_done s = true -> ctx_done s' = true.
Proof.
  intros H. unfold step in H. unfold ctx_done.
  destruct l; cbn [step0] in H; unfold start_shutdown, store_state in H;
    step_cases H; inversion H; subst; clear H; simp_st; auto.
  all: try (intros X; rewrite ?X, ?orb_true_r; reflexivity).
Qed.

Lemma rtrig_len_step c s l s' :
  step c s l = Some s' -> length (rtrig (aux s)) = nrun c -> length (rtrig (aux s')) = nrun c.
Proof.
  intros H L. unfold step in H.
  destruct l; cbn [step0] in H; unfold start_shutdown, store_state in H;
    step_cases H; inversion H; subst; clear H; simp_st; rewrite ?upd_length; exact L.
Qed.

(* the reload manager starts to drain only after the context was cancelled *)
Definition InvDrain (s : state) : Prop := rm s = RmDrain -> ctx_done s = true.

Lemma rm_after_not_drain c j : rm_after c j <> RmDrain.
Proof. destruct (rm_after_cases c j) as [[k E]|E]; rewrite E; discriminate. Qed.

Lemma InvDrain_step c s l s' : InvDrain s -> step c s l = Some s' -> InvDrain s'.
Proof.
  intros ID H. unfold step in H. unfold InvDrain, ctx_done in *.
  destruct l; cbn [step0] in H; unfold start_shutdown, store_state in H;
    step_cases H; inversion H; subst; clear H; simp_st.
  all: try exact ID.
  all: try (intros E; discriminate E).
  all: try (intros E; exfalso; exact (rm_after_not_drain _ _ E)).
  all: try (intros E; rewrite ?orb_true_r; reflexivity).
  all: try (intros E; rewrite (ID E); reflexivity).
  all: try (intros _; assumption).
  all: try (intros E; destruct (any_spec reloadable c); discriminate E).
  all: try (intros E; specialize (ID E); apply orb_true_iff in ID as [X|X]; rewrite X, ?orb_true_r; reflexivity).
Qed.

Definition req_of (l : label) : nat :=
  match obs l with Some e => b2n (req_ev e) | None => 0 end.

Lemma nfwd_absent (l : list ls_pc) : (forall i, get LsAbsent l i = LsAbsent) -> count_if is_fwd l = 0.
Proof.
  induction l as [|p l IH]; intros H; [reflexivity|]. rewrite cnt_cons.
  pose proof (H 0) as H0. unfold get in H0. cbn in H0. subst p. cbn [is_fwd b2n].
  apply IH. intros i. exact (H (S i)).
Qed.

Lemma step_pending_exact c s l s' :
  step c s l = Some s' -> ctx_done s = false -> any_spec reloadable c = true ->
  length (rtrig (aux s)) = nrun c -> InvAbs s -> InvDrain s ->
  passes s' + pending_requests s' = passes s + pending_requests s + req_of l.
Proof.
  intros H Hc Hr Hlen IA ID. unfold step in H. unfold req_of. unfold InvDrain in ID.
  destruct l; cbn [step0 obs] in H |- *; unfold start_shutdown, store_state in H;
    rewrite ?Hc, ?Hr, ?andb_false_r in H; cbn [andb negb] in H; try discriminate H;
    step_cases H; inversion H; subst; clear H.
  all: repeat match goal with E : _ && _ = true |- _ => apply andb_true_iff in E as [? ?] end.
  all: repeat match goal with E : (_ =? _) = true |- _ => apply Nat.eqb_eq in E; subst end.
  all: repeat match goal with E : (_ <? _) = true |- _ => apply Nat.ltb_lt in E end.
  all: repeat match goal with g : sig |- _ => destruct g end.
  all: repeat match goal with o : op |- _ => destruct o end.
  all: repeat match goal with g : sig |- _ => destruct g end.
  all: repeat match goal with x : cstate |- _ => destruct x end.
  all: try discriminate.
  all: try congruence.
  all: try (exfalso; match goal with E : rm _ = RmDrain |- _ => rewrite (ID E) in Hc; discriminate Hc end).
  all: try (exfalso; rewrite (ID eq_refl) in Hc; discriminate Hc).
  all: try match goal with E : find_caller ?k (callers ?s) = Some _ |- _ =>
         pose proof (npend_del k _ _ _ E) as Hdel; pose proof (npend_set k CReady _ _ _ E) as Hrdy;
         pose proof (npend_set k CPending _ _ _ E) as Hpnd; cbn [pend_f b2n] in Hdel, Hrdy, Hpnd end.
  all: try match goal with E : get LsAbsent (rls ?s) ?i = ?p |- _ =>
         assert (Hne : get LsAbsent (rls s) i <> LsAbsent) by (rewrite E; discriminate);
         pose proof (nfwd_upd (rls s) i LsIdle Hne) as Hfi; pose proof (nfwd_upd (rls s) i LsFwd Hne) as Hff;
         rewrite E in Hfi, Hff; cbn [is_fwd b2n] in Hfi, Hff end.
  all: try match goal with E : get 0 (rtrig (aux ?s)) ?i = S ?n |- _ =>
         assert (Hlt : i < length (rtrig (aux s))) by (apply get_pos_lt; rewrite E; discriminate);
         pose proof (sum_upd (rtrig (aux s)) i n Hlt) as Hsum; rewrite E in Hsum end.
  all: try match goal with |- context [upd (rtrig (aux ?s)) ?i (S ?g)] =>
         pose proof (sum_upd (rtrig (aux s)) i (S g) ltac:(rewrite Hlen; assumption)) as Hsum end.
  all: try (match goal with E : main _ = MEntering |- _ =>
              pose proof (nfwd_absent _ (proj1 (proj2 (proj2 (proj2 (IA (or_intror E))))))) as Hnf end).
  all: unfold pending_requests; simp_st; cbn [req_ev b2n];
    repeat match goal with E : sigq _ = _ |- _ => rewrite E end;
    repeat match goal with E : hup _ = _ |- _ => rewrite E end;
    rewrite ?cnt_snoc, ?cnt_cons, ?nfwd_mark, ?nfwd_fresh; cbn [pend_f is_hup is_fwd b2n]; try lia.
Qed.

Definition InvExact (c : config) (s : state) : Prop :=
  length (rtrig (aux s)) = nrun c /\
  (ctx_done s = false -> any_spec reloadable c = true ->
   passes s + pending_requests s = length (filter req_ev (hist s))).

Lemma InvExact_step c s l s' : InvAbs s -> InvDrain s -> InvExact c s -> step c s l = Some s' -> InvExact c s'.
Proof.
  intros IA ID [L E] H. split; [eapply rtrig_len_step; eassumption|].
  intros Hc' Hr.
  assert (Hc : ctx_done s = false).
  { destruct (ctx_done s) eqn:X; [|reflexivity]. rewrite (ctx_done_mono _ _ _ _ H X) in Hc'. discriminate Hc'. }
  rewrite (step_pending_exact _ _ _ _ H Hc Hr L IA ID), (E Hc Hr), (step_hist _ _ _ _ H). unfold req_of.
  destruct (obs l) as [e|]; cbn [filter]; [|lia]. destruct (req_ev e); cbn [length b2n]; lia.
Qed.

Lemma InvExact_reachable c s : reachable_sup c s -> InvExact c s.
Proof.
  intros Hr.
  assert (G : InvAbs s /\ InvDrain s /\ InvExact c s).
  { revert s Hr. apply sup_inv.
    - split; [apply InvAbs_init|]. split; [intros X; discriminate X|]. split; [cbn; apply repeat_length|]. intros _ _.
      destruct (InvCnt_init c) as (I1 & _). cbn [hist init filter length] in *.
      assert (pending_requests (init c) = 0).
      { unfold pending_requests, init; simp_st.
        assert (Z : forall n, list_sum (repeat 0 n) = 0) by (induction n; cbn; auto).
        assert (F : forall l : list rspec, count_if is_fwd (map (fun _ => LsAbsent) l) = 0).
        { induction l as [|a l IH]; [reflexivity|]. cbn [map]. now rewrite cnt_cons, IH. }
        rewrite Z, F. reflexivity. }
      cbn [passes init]. lia.
    - intros s0 l s1 (IA & ID & I) Hs. split; [eapply InvAbs_step; eassumption|].
      split; [eapply InvDrain_step; eassumption|eapply InvExact_step; eassumption]. }
  apply G.
Qed.

(* C05 (no request lost): exact accounting while the context is live and something is Reloadable *)
Theorem sup_c05_no_request_lost c s :
  reachable_sup c s -> ctx_done s = false -> any_spec reloadable c = true ->
  passes s + pending_requests s = requests_upper (rev (hist s)).
Proof.
  intros Hre Hc Hr. rewrite requests_upper_eq, filter_rev_length.
  exact (proj2 (InvExact_reachable _ _ Hre) Hc Hr).
Qed.

(* ... hence at a quiescent point with an idle manager and Run() in reap() - where nothing is pending any more
   (C05_no_loss) apart from trigger offers no listener exists for - every request has had its rendezvous *)
Lemma nfwd_none c (l : list ls_pc) :
  length l <= nrun c -> (forall i, i < nrun c -> get LsAbsent l i <> LsFwd) -> count_if is_fwd l = 0.
Proof.
  intros L H. assert (G : forall i, get LsAbsent l i <> LsFwd).
  { intros i. destruct (Nat.lt_ge_cases i (nrun c)) as [X|X]; [now apply H|].
    unfold get. rewrite nth_overflow by lia. discriminate. }
  clear H L. induction l as [|p l IH]; [reflexivity|]. rewrite cnt_cons.
  pose proof (G 0) as G0. unfold get in G0. cbn in G0.
  rewrite IH; [destruct p; try reflexivity; congruence|]. intros i. exact (G (S i)).
Qed.

Lemma npend_none (l : list (nat * op * cstate)) :
  (forall k o, In (k, o, CPending) l -> o <> OpReloadAll /\ o <> OpSignal SigHup) -> count_if pend_f l = 0.
Proof.
  induction l as [|[[k o] cs] l IH]; intros H; [reflexivity|]. rewrite cnt_cons.
  assert (R : count_if pend_f l = 0) by (apply IH; intros k' o' X; apply (H k' o'); now right).
  rewrite R. destruct cs; try (destruct o as [| |[]]; reflexivity).
  destruct (H k o (or_introl eq_refl)) as [A B]. destruct o as [| |[]]; try reflexivity; congruence.
Qed.

(* caller ids are unique: find_caller returns THE entry of k *)
Definition InvUniq (s : state) : Prop := NoDup (map (fun kc => fst (fst kc)) (callers s)).

Lemma In_keys_set k cs l x : In x (map (fun kc : nat * op * cstate => fst (fst kc)) (set_caller k cs l)) <->
                             In x (map (fun kc : nat * op * cstate => fst (fst kc)) l).
Proof.
  induction l as [|[[k1 o1] c1] t IH]; [tauto|]. cbn [set_caller]. destruct (Nat.eqb k k1); cbn [map fst In]; tauto.
Qed.

Lemma keys_set k cs l : map (fun kc : nat * op * cstate => fst (fst kc)) (set_caller k cs l) =
                        map (fun kc : nat * op * cstate => fst (fst kc)) l.
Proof.
  induction l as [|[[k1 o1] c1] t IH]; [reflexivity|]. cbn [set_caller]. destruct (Nat.eqb k k1); cbn [map fst]; [reflexivity|now rewrite IH].
Qed.

Lemma find_none_notin k l : find_caller k l = None -> ~ In k (map (fun kc : nat * op * cstate => fst (fst kc)) l).
Proof.
  induction l as [|[[k1 o1] c1] t IH]; intros H; [tauto|]. cbn [find_caller] in H. cbn [map fst In].
  destruct (Nat.eqb k k1) eqn:E; [discriminate H|]. apply Nat.eqb_neq in E. intros [X|X]; [congruence|exact (IH H X)].
Qed.

Lemma nodup_del k l : NoDup (map (fun kc : nat * op * cstate => fst (fst kc)) l) ->
                      NoDup (map (fun kc : nat * op * cstate => fst (fst kc)) (del_caller k l)).
Proof.
  induction l as [|[[k1 o1] c1] t IH]; intros H; [constructor|]. cbn [del_caller]. inversion H; subst.
  destruct (Nat.eqb k k1); [assumption|]. cbn [map fst]. constructor; [|auto].
  intros X. apply H2. clear -X. induction t as [|[[k2 o2] c2] t IH]; [destruct X|]. cbn [del_caller] in X.
  destruct (Nat.eqb k k2); cbn [map fst In] in *; [now right|]. destruct X as [X|X]; [now left|right; auto].
Qed.

Lemma NoDup_app_snoc {A} (l : list A) x : NoDup l -> ~ In x l -> NoDup (l ++ [x]).
Proof.
  induction l as [|y l IH]; intros H N; [constructor; [tauto|constructor]|].
  inversion H; subst. cbn [app]. constructor.
  - intros X. apply in_app_or in X as [X|[X|[]]]; [contradiction|]. subst. apply N. now left.
  - apply IH; [assumption|]. intros X. apply N. now right.
Qed.

Lemma InvUniq_step c s l s' : InvUniq s -> step c s l = Some s' -> InvUniq s'.
Proof.
  intros IU H. unfold step in H. unfold InvUniq in *.
  destruct l; cbn [step0] in H; unfold start_shutdown, store_state in H;
    step_cases H; inversion H; subst; clear H; simp_st; rewrite ?keys_set.
  all: try exact IU.
  all: try (now apply nodup_del).
  all: try (rewrite map_app; cbn [map fst]; apply NoDup_app_snoc; [exact IU|]; now apply find_none_notin).
Qed.

Lemma InvUniq_reachable c s : reachable_sup c s -> InvUniq s.
Proof. apply sup_inv; [constructor|apply InvUniq_step]. Qed.

Lemma find_caller_uniq k o cs (l : list (nat * op * cstate)) :
  NoDup (map (fun kc => fst (fst kc)) l) -> In (k, o, cs) l -> find_caller k l = Some (o, cs).
Proof.
  induction l as [|[[k1 o1] c1] t IH]; intros N H; [destruct H|]. cbn [find_caller]. cbn [map fst] in N. inversion N; subst.
  destruct H as [H|H].
  - injection H as -> -> ->. now rewrite Nat.eqb_refl.
  - destruct (Nat.eqb k k1) eqn:E; [|auto]. apply Nat.eqb_eq in E. subst. exfalso. apply H2.
    apply in_map_iff. exists (k1, o, cs). split; [reflexivity|exact H].
Qed.

(* C05 (no request lost, at quiescence): the supervisor running (context live, Run() in reap()), something
   Reloadable, the system quiescent with an idle reload manager: every request made so far has had a rendezvous
   of its own with the manager - except trigger offers nobody has received (list_sum rtrig: offers on the channel
   of a runnable that has no listener) *)
Theorem sup_c05_all_served c s :
  reachable_sup c s -> quiescent c s = true -> ctx_done s = false -> any_spec reloadable c = true ->
  rm s = RmIdle -> main s = MReap ->
  passes s + list_sum (rtrig (aux s)) = requests_upper (rev (hist s)).
Proof.
  intros Hre Q Hc Hr Er Em.
  pose proof (sup_c05_no_request_lost c s Hre Hc Hr) as E.
  destruct (sup_c05_no_loss c s Q Er) as (Hh & Hf & Hp).
  assert (Sq : sigq s = []).
  { assert (Hin : In LReapSig (taus_nt c s)) by (in_chain ltac:(cbn; auto)).
    pose proof (quiescent_taus _ _ _ Q Hin) as H. cbn [step0] in H. rewrite Em in H.
    destruct (sigq s) as [|g q]; [reflexivity|]. destruct g; try discriminate H. }
  assert (Pc : count_if pend_f (callers s) = 0).
  { apply npend_none. intros k o Hin. split; intros ->.
    - apply (Hp k CPending Hin). now apply find_caller_uniq; [apply (InvUniq_reachable c)|].
    - assert (Hin' : In (LSigPut k) (taus_nt c s))
        by (in_chain ltac:(apply in_map_iff; eexists; split; [|exact Hin]; reflexivity)).
      pose proof (quiescent_taus _ _ _ Q Hin') as H. cbn [step0] in H.
      rewrite (find_caller_uniq k _ _ _ (InvUniq_reachable c s Hre) Hin), Sq in H. discriminate H. }
  assert (Fw : count_if is_fwd (rls s) = 0).
  { apply (nfwd_none c); [exact (proj1 (InvLen_reachable _ _ Hre))|exact Hf]. }
  unfold pending_requests in E. rewrite Pc, Sq, Hh, Fw in E. cbn in E. lia.
Qed.

(* C05 (a begun pass completes): a pass the manager has accepted is never stuck before a Reload() call - that call
   is the manager's own next step - and inside a Reload() call the only thing it waits for is that call's return *)
Theorem sup_c05_pass_completes c s j :
  (rm s = RmNext j -> step c s (LReloadCall j) <> None) /\
  (rm s = RmIn j -> step c s (LReloadRet j) <> None) /\
  (quiescent c s = true -> j < nrun c -> rm s <> RmNext j).
Proof.
  split; [|split].
  - intros E. unfold step. cbn [step0]. rewrite E, Nat.eqb_refl. discriminate.
  - intros E. unfold step. cbn [step0]. rewrite E, Nat.eqb_refl. discriminate.
  - intros Q Lj E.
    assert (Hin : In (LReloadCall j) (autos c s)).
    { unfold autos. rewrite !in_app_iff. right. right. left. apply in_map_iff. exists j. split; [reflexivity|]. apply in_seq. cbn. lia. }
    assert (H : step0 c s (LReloadCall j) = None).
    { unfold quiescent in Q. rewrite forallb_forall in Q.
      specialize (Q _ (in_or_app _ _ _ (or_intror Hin))). destruct (step0 c s (LReloadCall j)); [discriminate|reflexivity]. }
    cbn [step0] in H. rewrite E, Nat.eqb_refl in H. discriminate H.
Qed.
