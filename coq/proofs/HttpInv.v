(* The structural invariant of the HTTP runner protocol model (model/HttpServer.v), proved
   preserved by every label except the arrival of a foreign binder, and lifted to every schedule
   with LTS.run_inv-style induction.  Environment hypothesis of this file: no foreign process binds
   an address (C12's stated hypothesis); everything else - Stop/cancel/Reload callers at any time,
   any callback results, any Shutdown results, any interleaving - is covered. *)
From Coq Require Import List NArith ZArith Bool Lia.
From GS Require Import LTS HttpCfg HttpServer HttpCfgProofs.
Import ListNotations.

(* ---- list helpers ---- *)

Lemma nth_upd_same l i f : nth_error (upd_srv l i f) i = option_map f (nth_error l i).
Proof.
  revert i; induction l as [|x l IH]; intros [|i]; cbn [upd_srv nth_error option_map]; auto.
Qed.

Lemma nth_upd_other l i f j : j <> i -> nth_error (upd_srv l i f) j = nth_error l j.
Proof.
  revert i j; induction l as [|x l IH]; intros [|i] [|j] H; cbn [upd_srv nth_error]; auto; try congruence.
Qed.

Lemma nth_upd l i f j sv' :
  nth_error (upd_srv l i f) j = Some sv' ->
  (j = i /\ exists sv, nth_error l i = Some sv /\ sv' = f sv) \/ (j <> i /\ nth_error l j = Some sv').
Proof.
  intros H. destruct (Nat.eq_dec j i) as [->|Hne].
  - left. split; [reflexivity|]. rewrite nth_upd_same in H. destruct (nth_error l i); [|discriminate].
    injection H as <-. eauto.
  - right. split; [exact Hne|]. now rewrite nth_upd_other in H.
Qed.

Lemma upd_length l i f : length (upd_srv l i f) = length l.
Proof. revert i; induction l as [|x l IH]; intros [|i]; cbn [upd_srv length]; auto. Qed.

Lemma nth_snoc {A} (l : list A) x j y :
  nth_error (l ++ [x]) j = Some y -> (j < length l /\ nth_error l j = Some y) \/ (j = length l /\ y = x).
Proof.
  intros H. destruct (Nat.lt_ge_cases j (length l)) as [Hlt|Hge].
  - left. split; [exact Hlt|]. now rewrite nth_error_app1 in H.
  - right. rewrite nth_error_app2 in H by exact Hge.
    destruct (j - length l) as [|k] eqn:E; cbn in H.
    + injection H as <-. split; [lia|reflexivity].
    + destruct k; discriminate.
Qed.

Lemma nth_lt {A} (l : list A) j y : nth_error l j = Some y -> j < length l.
Proof. intros H. apply nth_error_Some. congruence. Qed.

Lemma sv_pc_eqb_eq a b : sv_pc_eqb a b = true <-> a = b.
Proof. destruct a, b; cbn; split; congruence. Qed.

Lemma owner_eqb_eq a b : owner_eqb a b = true <-> a = b.
Proof.
  destruct a as [|i], b as [|j]; cbn; split; try congruence.
  - intros H. apply Nat.eqb_eq in H. now subst.
  - intros H. injection H as ->. apply Nat.eqb_refl.
Qed.

Lemma upd_shut_cases svs sid j sv' :
  nth_error (upd_srv svs sid set_shut) j = Some sv' ->
  exists sv, nth_error svs j = Some sv /\ s_cfg sv' = s_cfg sv /\ s_pc sv' = s_pc sv /\
             ((j = sid /\ s_shut sv' = true) \/ (j <> sid /\ sv' = sv)).
Proof.
  intros H. apply nth_upd in H as [(-> & sv & Hn & ->)|(Hne & Hn)].
  - exists sv. cbn. repeat split; auto.
  - exists sv'. repeat split; auto.
Qed.

Lemma upd_pc_cases svs sid p j sv' :
  nth_error (upd_srv svs sid (set_pc p)) j = Some sv' ->
  exists sv, nth_error svs j = Some sv /\ s_cfg sv' = s_cfg sv /\ s_shut sv' = s_shut sv /\
             ((j = sid /\ s_pc sv' = p) \/ (j <> sid /\ sv' = sv)).
Proof.
  intros H. apply nth_upd in H as [(-> & sv & Hn & ->)|(Hne & Hn)].
  - exists sv. cbn. repeat split; auto.
  - exists sv'. repeat split; auto.
Qed.

Lemma upd_exists svs sid f sv : nth_error svs sid = Some sv -> nth_error (upd_srv svs sid f) sid = Some (f sv).
Proof. intros H. now rewrite nth_upd_same, H. Qed.

(* ---- the socket table ---- *)

Lemma in_unbind n sid a o : In (a, o) (net_unbind n sid) <-> In (a, o) n /\ o <> Own sid.
Proof.
  induction n as [|[k o'] n IH]; cbn [net_unbind In]; [tauto|].
  destruct (owner_eqb o' (Own sid)) eqn:E.
  - apply owner_eqb_eq in E. subst o'. rewrite IH. split.
    + intros [H1 H2]. auto.
    + intros [[H|H] H2]; [injection H as <- <-; congruence|auto].
  - cbn [In]. rewrite IH. split.
    + intros [H|[H1 H2]]; [injection H as <- <-|]; split; auto.
      intros ->. rewrite (proj2 (owner_eqb_eq _ _) eq_refl) in E. discriminate.
    + intros [[H|H] H2]; auto.
Qed.

Lemma get_unbind n sid a o : net_get n a = Some o -> o <> Own sid -> net_get (net_unbind n sid) a = Some o.
Proof.
  induction n as [|[k o'] n IH]; cbn [net_unbind net_get]; [discriminate|].
  intros H Hne. destruct (str_eqb k a) eqn:Ek.
  - injection H as ->. destruct (owner_eqb o (Own sid)) eqn:E; [apply owner_eqb_eq in E; contradiction|].
    cbn [net_get]. now rewrite Ek.
  - destruct (owner_eqb o' (Own sid)); [now apply IH|]. cbn [net_get]. rewrite Ek. now apply IH.
Qed.

Lemma in_del n a b o : In (b, o) (net_del n a) -> In (b, o) n.
Proof.
  induction n as [|[k o'] n IH]; cbn [net_del In]; [tauto|].
  destruct (str_eqb k a && owner_eqb o' Foreign); cbn [In]; intuition.
Qed.

Lemma get_in n a o : net_get n a = Some o -> In (a, o) n.
Proof.
  induction n as [|[k o'] n IH]; cbn [net_get In]; [discriminate|].
  destruct (str_eqb k a) eqn:E.
  - intros H; injection H as ->. apply str_eqb_eq in E. subst. now left.
  - intros H. right. now apply IH.
Qed.

Lemma bound_any_false n a : bound_any n a = false -> forall o, ~ In (a, o) n.
Proof.
  unfold bound_any. induction n as [|[k o'] n IH]; cbn [net_get In]; [tauto|].
  destruct (str_eqb k a) eqn:E; [discriminate|].
  intros H o [Heq|Hin]; [injection Heq as -> _; rewrite str_eqb_refl in E; discriminate|].
  eapply IH; eauto.
Qed.

(* ---- the invariant ---- *)

Definition unshut (s : state) (j : nat) : Prop :=
  exists sv, nth_error (servers s) j = Some sv /\ s_shut sv = false.

Definition is_reload (h : option who) : Prop := exists i, h = Some (ByReload i).

Definition boot_kpc (k : crit) : Prop :=
  match k with KWantBoot | KProbe _ | KBootFail _ | KCleanup _ => True | _ => False end.
Definition stop_kpc (k : crit) : Prop :=
  match k with KStopPending | KStopWait _ => True | _ => False end.

Section Inv.
  Variable stop_locked : bool.
  Variable validated : bool.
  Variable mux_ok : list str -> bool.

  Record Inv (s : state) : Prop := {
    i_free : holder s = None <-> kpc s = KFree;
    i_run : holder s = Some ByRun ->
            (rpc s = RInBoot /\ boot_kpc (kpc s)) \/ (rpc s = RInStop /\ stop_kpc (kpc s));
    i_rpc : rpc s = RInBoot \/ rpc s = RInStop -> holder s = Some ByRun;
    i_rel : forall i, holder s = Some (ByReload i) -> fsm_st s = FReloading;
    i_new : rpc s = RNew \/ rpc s = RCalled -> fsm_st s = FNew;
    i_early : rpc s = RNew \/ rpc s = RCalled \/ rpc s = RWantBoot ->
              servers s = [] /\ server s = None /\ holder s = None;
    i_boot : rpc s = RWantBoot \/ rpc s = RInBoot \/ rpc s = RBooted -> fsm_st s = FBooting;
    i_running : fsm_st s = FRunning -> rpc s = RSelect \/ rpc s = RWantStop \/ rpc s = RInStop;
    i_reloading : fsm_st s = FReloading -> is_reload (holder s);
    (* with the repaired shutdown Run never holds the mutex for stopServer under the state Running *)
    i_locked : stop_locked = true -> rpc s = RInStop -> fsm_st s <> FRunning;
    i_ret : (exists r, rpc s = RRet r) \/ rpc s = RDone ->
            (fsm_st s = FError \/ fsm_st s = FStopped) /\ holder s = None /\
            forall j sv, nth_error (servers s) j = Some sv -> s_shut sv = true;
    (* Run between r.mutex.Unlock() and Transition(Stopped): nothing is left to stop, nobody can start a Reload *)
    i_stopdone : forall r, rpc s = RStopDone r ->
                 fsm_st s <> FRunning /\ holder s = None /\
                 forall j sv, nth_error (servers s) j = Some sv -> s_shut sv = true;
    i_live : forall j, unshut s j -> server s = Some j /\ once_done s = false;
    i_srv : forall j, server s = Some j -> exists sv, nth_error (servers s) j = Some sv;
    i_wantboot : kpc s = KWantBoot -> server s = None;
    i_probe : forall j, kpc s = KProbe j \/ kpc s = KBootFail j -> unshut s j;
    i_wait : forall j, kpc s = KStopWait j \/ kpc s = KCleanup j ->
             server s = Some j /\ exists sv, nth_error (servers s) j = Some sv /\ s_shut sv = true;
    i_errs : errs s = [];
    i_own : forall a o, In (a, o) (net s) -> exists j, o = Own j;
    i_pc : forall j sv, nth_error (servers s) j = Some sv ->
           s_pc sv = SvStart \/ s_pc sv = SvListening \/ (s_pc sv = SvExited /\ s_shut sv = true);
    i_net : forall a j, In (a, Own j) (net s) ->
            exists sv, nth_error (servers s) j = Some sv /\ s_shut sv = false /\
                       s_pc sv = SvListening /\ addr (s_cfg sv) = a;
    i_bound : forall j sv, nth_error (servers s) j = Some sv -> s_shut sv = false ->
              s_pc sv = SvListening -> net_get (net s) (addr (s_cfg sv)) = Some (Own j);
    i_listen : forall j sv, nth_error (servers s) j = Some sv -> s_shut sv = false ->
               kpc s <> KProbe j -> kpc s <> KBootFail j -> s_pc sv = SvListening;
    i_cfg : forall j sv, nth_error (servers s) j = Some sv -> s_shut sv = false ->
            ~ (kpc s = KStopPending /\ is_reload (holder s)) -> s_cfg sv = cur s;
    i_has : (fsm_st s = FRunning /\
             (rpc s = RSelect \/ rpc s = RWantStop \/ (rpc s = RInStop /\ kpc s = KStopPending)))
            \/ (fsm_st s = FReloading /\
                (kpc s = KFetch \/ kpc s = KUnchanged \/ kpc s = KStopPending \/ kpc s = KFinish))
            \/ rpc s = RBooted ->
            exists j, server s = Some j /\ unshut s j;
    i_mux : forall j sv, nth_error (servers s) j = Some sv ->
            mux_ok (map rpath (routes (s_cfg sv))) = true
  }.

  Lemma inv_init c : Inv (init c).
  Proof.
    constructor; cbn; intros; unfold unshut in *; cbn in *;
      repeat match goal with
             | H : _ \/ _ |- _ => destruct H
             | H : _ /\ _ |- _ => destruct H
             | H : exists _, _ |- _ => destruct H
             end; try discriminate; try contradiction;
      try (match goal with H : nth_error [] ?j = Some _ |- _ => destruct j; discriminate end);
      try tauto; auto.
  Qed.
End Inv.
