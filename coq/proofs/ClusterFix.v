(* The repaired planner (fx = true, /repo dec72e6): the key-extension loop always finds an unused
   key within its fuel; structure of buildPendingEntries' result for ARBITRARY ids (no hygiene):
   it is the list of writes of the legacy planner with the derived keys renamed to unused ones. *)
From Coq Require Import List Arith NArith Bool Lia Permutation.
From GS Require Import Cluster ClusterPlan.
Import ListNotations.
Open Scope N_scope.

(* ---------------------------------------------------------------- the key-extension loop *)
Lemma maxlen_in x l : In x l -> (length x <= maxlen l)%nat.
Proof.
  induction l as [|y l IH]; intros H; [destruct H|]. cbn [maxlen fold_right]. fold (maxlen l).
  destruct H as [->|H]; [lia|]. specialize (IH H). lia.
Qed.

Lemma fresh_key_unused (taken : id -> bool) (M : nat) :
  (forall x, taken x = true -> (length x <= M)%nat) ->
  forall fuel k, (length k + 5 * fuel > M)%nat -> taken (fresh_key fuel taken k) = false.
Proof.
  intros HM fuel. induction fuel as [|f IH]; intros k Hk; cbn [fresh_key].
  - destruct (taken k) eqn:E; [|exact E]. apply HM in E. lia.
  - destruct (taken k) eqn:E; [|exact E]. apply IH. rewrite app_length. cbn [sfx length]. lia.
Qed.

Definition taken_in (cur des acc : emap) (x : id) : bool := mem x cur || mem x des || mem x acc.

(* the fuel of the model, S (longest key), always suffices: the chosen key is used nowhere *)
Lemma fresh_key_ok cur des acc k :
  let q := fresh_key (S (maxlen (keys cur ++ keys des ++ keys acc))) (taken_in cur des acc) k in
  ~ In q (keys cur) /\ ~ In q (keys des) /\ ~ In q (keys acc).
Proof.
  intros q.
  assert (H : taken_in cur des acc q = false).
  { apply (fresh_key_unused _ (maxlen (keys cur ++ keys des ++ keys acc))); [|lia].
    intros x Hx. apply maxlen_in. unfold taken_in in Hx.
    apply orb_prop in Hx as [Hx|Hx]; [apply orb_prop in Hx as [Hx|Hx]|]; apply mem_true in Hx;
      rewrite !in_app_iff; auto. }
  unfold taken_in in H. apply orb_false_elim in H as [H H3]. apply orb_false_elim in H as [H1 H2].
  repeat split; now apply mem_false.
Qed.

(* ---------------------------------------------------------------- shapes of processExistingServer *)
Lemma pe_shape k old d :
  process_existing k old d = [] \/
  (exists e, process_existing k old d = [(k, e)]) \/
  (exists c, process_existing k old d = [(k ++ sfx, set_act AStop old); (k, start_entry k c)]).
Proof.
  unfold process_existing. destruct d as [c|].
  - destruct (e_cfg old =? c); [right; left; eauto|]. destruct (e_rt old); [right; right; eauto|right; left; eauto].
  - destruct (e_rt old); [right; left; eauto|now left].
Qed.

(* writes tagged with "this key is derived (differs from the server id)" -- the repair renames those *)
Definition yields_t (cur des : emap) (k : id) : list (bool * (id * entry)) :=
  map (fun p => (negb (id_eqb (fst p) k), p)) (yields cur des k).

Definition Rk (cur des : emap) (t : bool * (id * entry)) (p : id * entry) : Prop :=
  snd p = snd (snd t) /\
  if fst t then ~ In (fst p) (keys cur) /\ ~ In (fst p) (keys des) /\ e_act (snd p) = AStop
  else fst p = fst (snd t).

(* accumulator invariant of the first loop: keys are distinct; each is a processed current id or a
   derived key that is nobody's id *)
Definition acc_ok (cur des : emap) (P : list id) (acc : emap) : Prop :=
  NoDup (keys acc) /\
  forall q, In q (keys acc) -> (In q P /\ In q (keys cur)) \/ (~ In q (keys cur) /\ ~ In q (keys des)).

Definition fstep (cur des : emap) (acc : emap) (k : id) : emap :=
  match lookup k cur with
  | None => acc
  | Some old => fold_left (insert_yield true cur des k)
                          (process_existing k old (option_map e_cfg (lookup k des))) acc
  end.

Lemma insert_yield_plain cur des k acc e : insert_yield true cur des k acc (k, e) = insert k e acc.
Proof. unfold insert_yield. cbn [fst snd]. now rewrite id_eqb_refl. Qed.

Lemma insert_yield_derived cur des k acc e :
  insert_yield true cur des k acc (k ++ sfx, e) =
  insert (fresh_key (S (maxlen (keys cur ++ keys des ++ keys acc))) (taken_in cur des acc) (k ++ sfx)) e acc.
Proof.
  unfold insert_yield. cbn [fst snd].
  assert (E : id_eqb (k ++ sfx) k = false) by (apply id_eqb_neq, sfx_neq). now rewrite E.
Qed.

Lemma fstep_spec cur des P acc k :
  acc_ok cur des P acc -> ~ In k P ->
  exists Lk, fstep cur des acc k = acc ++ Lk /\ Forall2 (Rk cur des) (yields_t cur des k) Lk /\
             acc_ok cur des (k :: P) (acc ++ Lk).
Proof.
  intros (Hnd & Hk) HP. unfold fstep, yields_t, yields, dcfg.
  assert (Hmono : forall q, In q (keys acc) ->
            (In q (k :: P) /\ In q (keys cur)) \/ (~ In q (keys cur) /\ ~ In q (keys des))).
  { intros q Hq. destruct (Hk q Hq) as [[H1 H2]|H]; [left; split; [now right|exact H2]|now right]. }
  destruct (lookup k cur) as [old|] eqn:El.
  2:{ exists []. rewrite app_nil_r. repeat split; [constructor|exact Hnd|exact Hmono]. }
  assert (Hkc : In k (keys cur)) by (apply mem_true; unfold mem; now rewrite El).
  assert (Hka : ~ In k (keys acc)).
  { intros Hin. destruct (Hk k Hin) as [[H1 _]|[H1 _]]; contradiction. }
  destruct (pe_shape k old (option_map e_cfg (lookup k des))) as [E|[(e & E)|(c & E)]]; rewrite E.
  - exists []. rewrite app_nil_r. repeat split; [constructor|exact Hnd|exact Hmono].
  - exists [(k, e)]. cbn [fold_left map fst snd]. rewrite insert_yield_plain, insert_fresh by exact Hka.
    split; [reflexivity|]. split.
    + constructor; [|constructor]. unfold Rk. cbn [fst snd]. now rewrite id_eqb_refl.
    + split.
      * rewrite keys_app. apply nodup_app; [exact Hnd|repeat constructor; intros []|].
        intros x Hx [<-|[]]. contradiction.
      * intros q Hq. rewrite keys_app in Hq. apply in_app_or in Hq as [Hq|[<-|[]]]; [now apply Hmono|].
        left. split; [now left|exact Hkc].
  - set (qf := fresh_key (S (maxlen (keys cur ++ keys des ++ keys acc))) (taken_in cur des acc) (k ++ sfx)).
    pose proof (fresh_key_ok cur des acc (k ++ sfx)) as HQ. cbv zeta in HQ. destruct HQ as (Q1 & Q2 & Q3).
    fold qf in Q1, Q2, Q3.
    exists [(qf, set_act AStop old); (k, start_entry k c)]. cbn [fold_left map fst snd].
    rewrite insert_yield_derived. fold qf. rewrite insert_fresh by exact Q3.
    rewrite insert_yield_plain.
    assert (Hkq : k <> qf) by (intros E'; rewrite E' in Hkc; contradiction).
    rewrite insert_fresh.
    2:{ rewrite keys_app. intros Hin. apply in_app_or in Hin as [Hin|[Hin|[]]]; [contradiction|]. cbn [fst] in Hin. apply Hkq. now symmetry. }
    rewrite <- app_assoc. split; [reflexivity|]. split.
    + assert (E1 : id_eqb (k ++ sfx) k = false) by (apply id_eqb_neq, sfx_neq).
      constructor; [|constructor; [|constructor]]; unfold Rk; cbn [fst snd]; rewrite ?E1, ?id_eqb_refl; cbn [negb];
        auto.
    + split.
      * rewrite keys_app. apply nodup_app; [exact Hnd| |].
        -- cbn [keys map fst]. constructor; [intros [H|[]]; congruence|repeat constructor; intros []].
        -- intros x Hx [<-|[<-|[]]]; contradiction.
      * intros x Hx. rewrite keys_app in Hx. apply in_app_or in Hx as [Hx|[<-|[<-|[]]]]; [now apply Hmono| |].
        -- now right.
        -- left. split; [now left|exact Hkc].
Qed.

Lemma build_existing_true_spec cur des ord : forall P acc,
  NoDup ord -> (forall k, In k ord -> ~ In k P) -> acc_ok cur des P acc ->
  exists L, fold_left (fstep cur des) ord acc = acc ++ L /\
            Forall2 (Rk cur des) (flat_map (yields_t cur des) ord) L /\
            acc_ok cur des (rev ord ++ P) (acc ++ L).
Proof.
  induction ord as [|k ord IH]; intros P acc Hnd HP Hok.
  - exists []. rewrite app_nil_r. repeat split; [constructor|apply Hok|apply Hok].
  - inversion Hnd as [|? ? Hn Hnd']; subst. cbn [fold_left flat_map].
    destruct (fstep_spec cur des P acc k Hok (HP k (or_introl eq_refl))) as (Lk & E & HR & Hok').
    rewrite E. destruct (IH (k :: P) (acc ++ Lk) Hnd') as (L & E2 & HR2 & Hok2).
    + intros x Hx [<-|Hin]; [contradiction|]. apply (HP x); [now right|exact Hin].
    + exact Hok'.
    + exists (Lk ++ L). rewrite E2, <- app_assoc. split; [reflexivity|]. split.
      * now apply Forall2_app.
      * cbn [rev]. rewrite <- app_assoc. cbn [app]. rewrite app_assoc. rewrite <- app_assoc in Hok2.
        now rewrite <- app_assoc.
Qed.

(* the tagged list of all writes *)
Definition plan_tagged (ord : list id) (cur des : emap) : list (bool * (id * entry)) :=
  flat_map (yields_t cur des) ord ++ map (fun p => (false, p)) (news cur des).

Lemma map_snd_tagged ord cur des : map snd (plan_tagged ord cur des) = plan_list ord cur des.
Proof.
  unfold plan_tagged, plan_list. rewrite map_app, map_map. cbn [snd]. rewrite map_id. f_equal.
  induction ord as [|k ord IH]; [reflexivity|]. cbn [flat_map]. rewrite map_app, IH. f_equal.
  unfold yields_t. rewrite map_map. cbn [snd]. apply map_id.
Qed.

(* THE STRUCTURE THEOREM for the repaired planner, arbitrary ids *)
Theorem build_pending_true_spec ord cur des :
  NoDup ord -> (forall k, In k ord -> In k (keys cur)) -> NoDup (keys des) ->
  let pend := build_pending true ord cur des in
  NoDup (keys pend) /\ Forall2 (Rk cur des) (plan_tagged ord cur des) pend.
Proof.
  intros Hord Hsub Hdes pend. unfold pend, build_pending, build_existing.
  change (fold_left _ ord []) with (fold_left (fstep cur des) ord []).
  destruct (build_existing_true_spec cur des ord [] [] Hord) as (L & E & HR & (Hnd & Hk)).
  - intros k _ [].
  - split; [constructor|intros q []].
  - rewrite E. cbn [app] in *. rewrite build_new_fold.
    assert (Hn : NoDup (keys (L ++ news cur des))).
    { rewrite keys_app. apply nodup_app; [exact Hnd|now apply news_nodup|].
      intros q Hq Hin. apply news_keys in Hin as (Hd & Hnc).
      destruct (Hk q Hq) as [[_ H]|[_ H]]; contradiction. }
    rewrite fold_ins_fresh by exact Hn. split; [exact Hn|]. unfold plan_tagged.
    apply Forall2_app; [exact HR|]. clear Hn.
    induction (news cur des) as [|p l IHl]; [constructor|]. cbn [map]. constructor; [|exact IHl].
    unfold Rk. cbn [fst snd]. now split.
Qed.

(* ---------------------------------------------------------------- consequences *)
Lemma Rk_entries cur des T L : Forall2 (Rk cur des) T L -> map snd L = map snd (map snd T).
Proof. induction 1 as [|t p T L (H & _) _ IH]; [reflexivity|]. cbn [map]. now rewrite H, IH. Qed.

Definition rts_e (l : list entry) : list N :=
  flat_map (fun e => match e_rt e with Some i => [i] | None => [] end) l.
Lemma rts_map_snd m : rts m = rts_e (map snd m).
Proof. unfold rts, rts_e. now rewrite flat_map_concat_map, flat_map_concat_map, map_map. Qed.

Lemma true_entries ord cur des :
  NoDup ord -> (forall k, In k ord -> In k (keys cur)) -> NoDup (keys des) ->
  map snd (build_pending true ord cur des) = map snd (plan_list ord cur des).
Proof.
  intros H1 H2 H3. destruct (build_pending_true_spec ord cur des H1 H2 H3) as (_ & HR).
  rewrite (Rk_entries _ _ _ _ HR). now rewrite map_snd_tagged.
Qed.

(* membership transfers *)
Lemma Forall2_in_r {A B} (R : A -> B -> Prop) l1 l2 y :
  Forall2 R l1 l2 -> In y l2 -> exists x, In x l1 /\ R x y.
Proof.
  induction 1 as [|a b l1 l2 Hab _ IH]; intros Hin; [destruct Hin|].
  destruct Hin as [<-|Hin]; [exists a; split; [now left|exact Hab]|].
  destruct (IH Hin) as (x & Hx & HR). exists x. split; [now right|exact HR].
Qed.

Lemma Forall2_in_l {A B} (R : A -> B -> Prop) l1 l2 x :
  Forall2 R l1 l2 -> In x l1 -> exists y, In y l2 /\ R x y.
Proof.
  induction 1 as [|a b l1 l2 Hab _ IH]; intros Hin; [destruct Hin|].
  destruct Hin as [<-|Hin]; [exists b; split; [now left|exact Hab]|].
  destruct (IH Hin) as (y & Hy & HR). exists y. split; [now right|exact HR].
Qed.

Lemma in_tagged ord cur des b p :
  In (b, p) (plan_tagged ord cur des) -> In p (plan_list ord cur des).
Proof. intros H. rewrite <- map_snd_tagged. change p with (snd (b, p)). now apply in_map. Qed.

Lemma in_tagged_false ord cur des q e :
  In (q, e) (plan_list ord cur des) -> e_act e <> AStop -> In (false, (q, e)) (plan_tagged ord cur des).
Proof.
  unfold plan_list, plan_tagged. intros H Ha. apply in_app_or in H as [H|H]; apply in_or_app; [left|right].
  - apply in_flat_map in H as (k & Hk & H). apply in_flat_map. exists k. split; [exact Hk|].
    unfold yields_t. apply in_map_iff. exists (q, e). split; [|exact H]. cbn [fst]. f_equal.
    apply negb_false_iff, id_eqb_eq.
    assert (Hq : In q (keys (yields cur des k))) by (change (In (fst (q, e)) (map fst (yields cur des k))); now apply in_map).
    unfold yields in H. destruct (lookup k cur) as [old|]; [|destruct H].
    destruct (pe_shape k old (dcfg des k)) as [E|[(e' & E)|(c & E)]]; rewrite E in H.
    + destruct H.
    + destruct H as [[= <- _]|[]]. reflexivity.
    + destruct H as [[= _ <-]|[[= <- _]|[]]]; [|reflexivity]. exfalso. apply Ha. reflexivity.
  - now apply in_map.
Qed.

(* a non-stop entry is in the repaired plan iff it is among the legacy writes, under the same key *)
Lemma true_nonstop_iff ord cur des q e :
  NoDup ord -> (forall k, In k ord -> In k (keys cur)) -> NoDup (keys des) -> e_act e <> AStop ->
  (In (q, e) (build_pending true ord cur des) <-> In (q, e) (plan_list ord cur des)).
Proof.
  intros H1 H2 H3 Ha. destruct (build_pending_true_spec ord cur des H1 H2 H3) as (_ & HR). split; intros Hin.
  - destruct (Forall2_in_r _ _ _ _ HR Hin) as ((b, (q0, e0)) & Ht & (He & Hk)). cbn [fst snd] in *. subst e0.
    destruct b.
    + destruct Hk as (_ & _ & Hs). contradiction.
    + subst q0. now apply in_tagged in Ht.
  - apply (in_tagged_false ord cur des q e Hin) in Ha.
    destruct (Forall2_in_l _ _ _ _ HR Ha) as ((q', e') & Hy & (He & Hk)). cbn [fst snd] in *. now subst.
Qed.

(* every entry of the repaired plan is a legacy write, possibly under another key *)
Lemma true_entry_source ord cur des q e :
  NoDup ord -> (forall k, In k ord -> In k (keys cur)) -> NoDup (keys des) ->
  In (q, e) (build_pending true ord cur des) -> exists q0, In (q0, e) (plan_list ord cur des).
Proof.
  intros H1 H2 H3 Hin. destruct (build_pending_true_spec ord cur des H1 H2 H3) as (_ & HR).
  destruct (Forall2_in_r _ _ _ _ HR Hin) as ((b, (q0, e0)) & Ht & (He & _)). cbn [fst snd] in *. subst e0.
  exists q0. now apply in_tagged in Ht.
Qed.

(* every legacy write has its entry in the repaired plan *)
Lemma true_entry_target ord cur des q0 e :
  NoDup ord -> (forall k, In k ord -> In k (keys cur)) -> NoDup (keys des) ->
  In (q0, e) (plan_list ord cur des) -> exists q, In (q, e) (build_pending true ord cur des).
Proof.
  intros H1 H2 H3 Hin. destruct (build_pending_true_spec ord cur des H1 H2 H3) as (_ & HR).
  rewrite <- map_snd_tagged in Hin. apply in_map_iff in Hin as ((b, p) & Hp & Ht). cbn [snd] in Hp. subst p.
  destruct (Forall2_in_l _ _ _ _ HR Ht) as ((q, e') & Hy & (He & _)). cbn [fst snd] in *. subst. now exists q.
Qed.
