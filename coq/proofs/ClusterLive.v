(* C16, "the servers it runs": child-server liveness on top of the protocol model (ClusterGo.v).
   Frame facts of the base step function (what each label does to the live list, the not-yet-run
   list, the cancel / shutdown flags, the "waiting for readiness" program counter), the liveness
   invariant of the wrapper, and the statement: whenever the loop is idle and the context given to
   Run is not cancelled, every server started and not stopped has a live context, has had its Run
   called, and its Run has not returned unless the server gave up by itself. *)
From Coq Require Import List Arith NArith Bool Lia Permutation.
From GS Require Import LTS Cluster ClusterLTS ClusterPlan ClusterFix ClusterRun ClusterInv ClusterStep
     ClusterMain ClusterRound ClusterRoundB ClusterRoundC ClusterGo.
Import ListNotations.
Open Scope N_scope.

Ltac brk H :=
  repeat match type of H with
         | (match ?x with _ => _ end) = Some _ => destruct x eqn:?; try discriminate H
         | (if ?x then _ else _) = Some _ => destruct x eqn:?; try discriminate H
         end.

(* ---------------------------------------------------------------- the helper transitions *)
Section Helpers.
  Variable A : Type.
  Variable f : state -> A.
  Hypothesis f_pc : forall s p, f (set_pc s p) = f s.
  Hypothesis f_fin : forall s p, f (finish_round s p) = f s.

  Lemma h_next s p ts : f (next_start s p ts) = f s.
  Proof. destruct ts; [apply f_fin|apply f_pc]. Qed.
  Lemma h_after s p ts tp : f (after_stops s p ts tp) = f s.
  Proof. unfold after_stops. destruct ts; [apply f_fin|]. destruct (s_delay s); apply f_pc. Qed.
  Lemma h_begin s p : f (begin_round s p) = f s.
  Proof.
    unfold begin_round. destruct (pending_actions p) as [ts tp]. destruct (stop_insts p tp); [|apply f_pc].
    destruct tp; [apply h_next|apply h_after].
  Qed.
End Helpers.

Lemma lv_move i s : lv (move_to_stopping i s) = removeN i (lv s).
Proof.
  unfold move_to_stopping, lv. destruct (find_inst i (s_live s)) eqn:E; psimpl.
  - apply map_fst_remove_inst.
  - symmetry. apply removeN_notin. now apply find_inst_none.
Qed.

(* ---------------------------------------------------------------- frame facts of [step] *)
Lemma step_unrun fx s l s' :
  step fx s l = Some s' ->
  s_unrun s' = match l with
               | LFactory _ _ i _ => i :: s_unrun s
               | LRunCall i => removeN i (s_unrun s)
               | _ => s_unrun s
               end.
Proof.
  intros H. destruct l; unfold step in H; cbv zeta in H; brk H; injection H as <-;
    rewrite ?(h_begin _ s_unrun), ?(h_after _ s_unrun), ?(h_next _ s_unrun); try reflexivity;
    unfold move_to_stopping; try (destruct (find_inst _ _)); reflexivity.
Qed.

Lemma step_cancel fx s l s' :
  step fx s l = Some s' -> s_cancel s' = match l with LCancel => true | _ => s_cancel s end.
Proof.
  intros H. destruct l; unfold step in H; cbv zeta in H; brk H; injection H as <-;
    rewrite ?(h_begin _ s_cancel), ?(h_after _ s_cancel), ?(h_next _ s_cancel); try reflexivity;
    try (unfold finish_round; psimpl; congruence);
    unfold move_to_stopping; try (destruct (find_inst _ _)); reflexivity.
Qed.

Lemma step_lv fx s l s' :
  step fx s l = Some s' ->
  lv s' = match l with
          | LFactory _ _ i _ => i :: lv s
          | LStopCall i => removeN i (lv s)
          | _ => lv s
          end.
Proof.
  intros H. destruct l; unfold step in H; cbv zeta in H; brk H; injection H as <-;
    rewrite ?(h_begin _ lv), ?(h_after _ lv), ?(h_next _ lv), ?lv_move; reflexivity.
Qed.

(* the shutdown flag: set by LShut, reset only by a received map *)
Lemma step_shut fx s l s' :
  step fx s l = Some s' -> s_shut s = true -> (forall o, l <> LRecv o) -> s_shut s' = true.
Proof.
  intros H Hs Hl. destruct l; try (exfalso; now apply (Hl ord));
    unfold step in H; cbv zeta in H; brk H; injection H as <-;
    rewrite ?(h_begin _ s_shut), ?(h_after _ s_shut), ?(h_next _ s_shut); try exact Hs; try reflexivity;
    unfold move_to_stopping; try (destruct (find_inst _ _)); exact Hs.
Qed.

Lemma step_shut_true fx s s' : step fx s LShut = Some s' -> s_shut s' = true.
Proof.
  intros H. unfold step in H. brk H. injection H as <-. now rewrite (h_begin _ s_shut).
Qed.

(* the readiness wait: entered by the factory call for that instance, left by LReady or by the
   Stop() call of the failed-readiness cleanup *)
Lemma pc_move i s : s_pc (move_to_stopping i s) = s_pc s.
Proof. unfold move_to_stopping. destruct (find_inst i (s_live s)); reflexivity. Qed.

Lemma step_waiting_keep fx s l s' i :
  step fx s l = Some s' -> waitingb s i = true ->
  waitingb s' i = true \/ l = LReady \/ l = LStopCall i.
Proof.
  intros H Hw. unfold waitingb in Hw. destruct (s_pc s) eqn:Epc; try discriminate Hw.
  apply N.eqb_eq in Hw. subst i0.
  destruct l; unfold step in H; cbv zeta in H; rewrite ?Epc in H; try discriminate H;
    try (right; left; reflexivity);
    try (left; brk H; injection H as <-; unfold waitingb; psimpl; rewrite ?Epc; now apply N.eqb_eq).
  - (* LStopCall *) right. right. brk H. match goal with E : _ && _ = true |- _ => apply andb_prop in E as [E _]; apply N.eqb_eq in E; now subst end.
Qed.

Lemma pc_finish_not_wait s p i : waitingb (finish_round s p) i = false.
Proof. unfold waitingb, finish_round. psimpl. now destruct (s_shut s). Qed.
Lemma pc_next_not_wait s p ts i : waitingb (next_start s p ts) i = false.
Proof. destruct ts; [apply pc_finish_not_wait|reflexivity]. Qed.
Lemma pc_after_not_wait s p ts tp i : waitingb (after_stops s p ts tp) i = false.
Proof. unfold after_stops. destruct ts; [apply pc_finish_not_wait|]. now destruct (s_delay s). Qed.
Lemma pc_begin_not_wait s p i : waitingb (begin_round s p) i = false.
Proof.
  unfold begin_round. destruct (pending_actions p) as [ts tp]. destruct (stop_insts p tp); [|reflexivity].
  destruct tp; [apply pc_next_not_wait|apply pc_after_not_wait].
Qed.

Lemma step_waiting_new fx s l s' i :
  step fx s l = Some s' -> waitingb s' i = true ->
  waitingb s i = true \/ exists k c b, l = LFactory k c i b.
Proof.
  intros H Hw. destruct l; unfold step in H; cbv zeta in H; brk H; injection H as <-;
    rewrite ?pc_begin_not_wait, ?pc_after_not_wait, ?pc_next_not_wait, ?pc_finish_not_wait in Hw; try discriminate Hw;
    unfold waitingb in Hw |- *; rewrite ?pc_move in Hw; unfold set_pc, drop_offer in Hw; psimpl in Hw;
    try discriminate Hw;
    try (left; exact Hw);
    try (left; match goal with E : s_pc s = _ |- _ => rewrite E in * end; exact Hw).
  (* LFactory *) right. apply N.eqb_eq in Hw. subst. eauto.
Qed.

Lemma sp_move i s : sp (move_to_stopping i s) = if memN i (lv s) then i :: sp s else sp s.
Proof.
  unfold move_to_stopping, sp, lv. destruct (find_inst i (s_live s)) as [x|] eqn:E; psimpl.
  - pose proof E as E'. apply find_some in E' as [Hin Hx]. apply N.eqb_eq in Hx.
    assert (Hm : memN i (map fst (s_live s)) = true) by (apply memN_in; rewrite <- Hx; now apply in_map).
    rewrite Hm. cbn [map]. now rewrite Hx.
  - apply find_inst_none in E. destruct (memN i (map fst (s_live s))) eqn:Em; [|reflexivity].
    apply memN_in in Em. contradiction.
Qed.

Lemma step_sp fx s l s' :
  step fx s l = Some s' ->
  sp s' = match l with
          | LStopCall i => if memN i (lv s) then i :: sp s else sp s
          | LStopRet i => removeN i (sp s)
          | _ => sp s
          end.
Proof.
  intros H. destruct l; unfold step in H; cbv zeta in H; brk H; injection H as <-;
    rewrite ?(h_begin _ sp), ?(h_after _ sp), ?(h_next _ sp), ?sp_move; try reflexivity;
    unfold sp, drop_stopping, add_failed; psimpl; apply map_fst_remove_inst.
Qed.

Lemma step_next fx s l s' :
  step fx s l = Some s' ->
  s_next s' = match l with LFactory _ _ _ _ => N.succ (s_next s) | _ => s_next s end.
Proof.
  intros H. destruct l; unfold step in H; cbv zeta in H; brk H; injection H as <-;
    rewrite ?(h_begin _ s_next), ?(h_after _ s_next), ?(h_next _ s_next); try reflexivity;
    unfold move_to_stopping; try (destruct (find_inst _ _)); reflexivity.
Qed.

Lemma step_factory_fresh fx s k c i b s' : step fx s (LFactory k c i b) = Some s' -> i = s_next s.
Proof.
  intros H. unfold step in H. brk H.
  repeat match goal with E : _ && _ = true |- _ => apply andb_prop in E as [E ?] end.
  now apply N.eqb_eq.
Qed.

Lemma step_factory_pc fx s k c i b s' :
  step fx s (LFactory k c i b) = Some s' -> waitingb s' i = true /\ forall j, waitingb s j = false.
Proof.
  intros H. unfold step in H. brk H. injection H as <-. unfold waitingb. psimpl.
  split; [apply N.eqb_refl|]. intros j. match goal with E : s_pc s = _ |- _ => now rewrite E end.
Qed.

Lemma step_recv_pc fx s o s' : step fx s (LRecv o) = Some s' -> s_pc s = PIdle.
Proof. intros H. unfold step in H. destruct (s_pc s); try discriminate H. reflexivity. Qed.

Lemma step_shut_pc fx s s' : step fx s LShut = Some s' -> s_pc s = PIdle.
Proof. intros H. unfold step in H. destruct (s_pc s); try discriminate H. reflexivity. Qed.

(* ---------------------------------------------------------------- projection onto the protocol model *)
Definition greachable (d : bool) (g : gstate) : Prop := reachable (gstep true) (ginit d) g.

Lemma gstep_base fx g l g' :
  gstep fx g l = Some g' ->
  match l with
  | GB bl => step fx (g_s g) bl = Some (g_s g')
  | GShutStop => step fx (g_s g) LShut = Some (g_s g')
  | _ => g_s g' = g_s g
  end.
Proof.
  intros H. destruct l; unfold gstep in H; brk H; injection H as <-; try reflexivity.
  destruct l; reflexivity.
Qed.

Lemma grun_erase fx : forall ls g g',
  run (gstep fx) g ls = Some g' -> run (step fx) (g_s g) (erase ls) = Some (g_s g').
Proof.
  induction ls as [|l ls IH]; intros g g' H.
  - injection H as <-. reflexivity.
  - cbn [run] in H. destruct (gstep fx g l) as [g1|] eqn:E; [|discriminate].
    pose proof (gstep_base fx g l g1 E) as Hb. specialize (IH g1 g' H).
    destruct l; cbn [erase run]; try (rewrite <- Hb; exact IH); rewrite Hb; exact IH.
Qed.

Lemma greachable_base d g : greachable d g -> exists ls, run (step true) (init d) ls = Some (g_s g).
Proof. intros [ls H]. exists (erase ls). exact (grun_erase true ls (ginit d) g H). Qed.

Lemma greachable_acct d g : greachable d g -> acct (g_s g).
Proof. intros H. destruct (greachable_base d g H) as [ls Hr]. exact (acct_reachable d ls _ Hr). Qed.

(* ---------------------------------------------------------------- the liveness invariant *)
Definition KInv (g : gstate) : Prop :=
  let s := g_s g in
  (forall i, In i (sp s) -> i < s_next s) /\
  (forall i, In i (sp s) -> ~ In i (lv s)) /\
  (g_rc g = true -> s_shut s = true) /\
  (forall i, In i (g_cx g) -> In i (lv s) -> waitingb s i = true) /\
  (s_cancel s = false -> g_rc g = false -> forall i, In i (lv s) ->
     waitingb s i = true \/ (~ In i (s_unrun s) /\ (In i (g_run g) \/ In i (g_self g)))).

Definition GInv (g : gstate) : Prop := acct (g_s g) /\ KInv g.

Lemma in_addN j i l : In j (addN i l) -> j = i \/ In j l.
Proof. unfold addN. destruct (memN i l); [now right|]. intros [<-|H]; auto. Qed.

Lemma acct_idle_shut s : acct s -> s_pc s = PIdle -> s_shut s = false.
Proof. intros (_ & _ & H) E. unfold acct_pc in H. rewrite E in H. now destruct H as (_ & _ & _ & H). Qed.

(* what a base step does to the K part, given the wrapper's guard *)
Lemma KInv_base g bl s' rc :
  GInv g -> step true (g_s g) bl = Some s' -> (gguard g bl = true \/ bl = LShut) ->
  (rc = g_rc g \/ (rc = true /\ bl = LShut)) ->
  KInv (mkG s' (g_run (gafter g bl s')) (g_cx (gafter g bl s')) rc (g_self g) (g_ack (gafter g bl s'))).
Proof.
  intros ((Hnd & Hlt & Hpc) & (Kb & Kd & K1 & K2 & K3)) Hs Hg Hrc.
  pose proof (step_lv _ _ _ _ Hs) as Elv. pose proof (step_sp _ _ _ _ Hs) as Esp.
  pose proof (step_next _ _ _ _ Hs) as Enx. pose proof (step_unrun _ _ _ _ Hs) as Eun.
  pose proof (step_cancel _ _ _ _ Hs) as Ecn.
  assert (Hnx : s_next (g_s g) <= s_next s') by (rewrite Enx; destruct bl; lia).
  unfold KInv. cbn [g_s g_run g_cx g_rc g_self].
  assert (Hrun : forall i, In i (g_run g) -> In i (g_run (gafter g bl s'))).
  { intros i Hi. destruct bl; cbn [gafter g_run]; auto. now right. }
  assert (Hcx : forall i, In i (g_cx (gafter g bl s')) -> In i (g_cx g) \/ bl = LStopRet i).
  { intros i Hi. destruct bl; cbn [gafter g_cx] in Hi; auto. apply in_addN in Hi as [->|Hi]; auto. }
  split; [|split; [|split; [|split]]].
  - (* stopping instances are old *)
    intros i Hi. rewrite Esp in Hi. destruct bl; try (apply Kb in Hi; lia).
    + destruct (memN i0 (lv (g_s g))) eqn:Em; [|apply Kb in Hi; lia].
      destruct Hi as [<-|Hi]; [apply memN_in in Em; apply Hlt in Em; lia|apply Kb in Hi; lia].
    + apply in_removeN in Hi. apply Kb in Hi. lia.
  - (* stopping and live are disjoint *)
    intros i Hi Hl. rewrite Esp in Hi. rewrite Elv in Hl.
    destruct bl; try (exact (Kd i Hi Hl)).
    + destruct (memN i0 (lv (g_s g))) eqn:Em.
      * destruct Hi as [<-|Hi]; [now apply not_in_removeN in Hl|]. apply in_removeN in Hl. exact (Kd i Hi Hl).
      * apply in_removeN in Hl. exact (Kd i Hi Hl).
    + apply in_removeN in Hi. exact (Kd i Hi Hl).
    + destruct Hl as [<-|Hl]; [|exact (Kd i Hi Hl)].
      apply step_factory_fresh in Hs. subst i0. apply Kb in Hi. lia.
  - (* runCancel only in a shutdown *)
    intros Hr. destruct Hrc as [->|[_ ->]]; [|now apply (step_shut_true true (g_s g))].
    apply (step_shut true (g_s g) bl); [exact Hs|now apply K1|].
    intros o ->. apply step_recv_pc in Hs.
    rewrite (acct_idle_shut _ (conj Hnd (conj Hlt Hpc)) Hs) in K1. specialize (K1 Hr). discriminate.
  - (* a cancelled own context belongs to a stopped instance or to the one being waited for *)
    intros i Hi Hl. apply Hcx in Hi. destruct Hi as [Hi| ->].
    + rewrite Elv in Hl.
      assert (Hl0 : In i (lv (g_s g)) \/ waitingb s' i = true).
      { destruct bl; auto. - apply in_removeN in Hl. auto.
        - destruct Hl as [<-|Hl]; [right; now apply (step_factory_pc true (g_s g) k c i0 b)|auto]. }
      destruct Hl0 as [Hl0|Hw]; [|exact Hw]. pose proof (K2 i Hi Hl0) as Hw.
      destruct (step_waiting_keep _ _ _ _ i Hs Hw) as [H|[->| ->]]; [exact H| |].
      * (* LReady: the guard says the waited instance is not cancelled *)
        exfalso. destruct Hg as [Hg|Hg]; [|discriminate]. unfold gguard in Hg. unfold waitingb in Hw.
        destruct (s_pc (g_s g)); try discriminate. apply N.eqb_eq in Hw. subst i0.
        apply andb_prop in Hg as [_ Hg]. apply negb_true_iff in Hg. apply memN_in in Hi. congruence.
      * exfalso. now apply not_in_removeN in Hl.
    + (* LStopRet i: i was stopping, hence not live *)
      exfalso. rewrite Elv in Hl. apply (Kd i); [|exact Hl].
      unfold step in Hs. unfold acct_pc in Hpc. destruct (s_pc (g_s g)) eqn:Epc; try discriminate Hs.
      * destruct (memN i called) eqn:Em; [|discriminate Hs].
        destruct Hpc as (_ & _ & Hp & _). eapply Permutation_in; [apply Permutation_sym; exact Hp|]. now apply memN_in.
      * destruct (i =? i0) eqn:Ei; [|discriminate Hs]. apply N.eqb_eq in Ei. subst i0.
        destruct Hpc as (_ & _ & Hp & _). rewrite Hp. now left.
  - (* every other live instance is up *)
    intros Hc Hr i Hl.
    assert (Hc0 : s_cancel (g_s g) = false) by (rewrite Ecn in Hc; destruct bl; try exact Hc; discriminate).
    assert (Hr0 : g_rc g = false) by (destruct Hrc as [->|[-> _]]; [exact Hr|discriminate]).
    rewrite Elv in Hl.
    assert (Hl0 : In i (lv (g_s g)) \/ waitingb s' i = true).
    { destruct bl; auto. - apply in_removeN in Hl. auto.
      - destruct Hl as [<-|Hl]; [right; now apply (step_factory_pc true (g_s g) k c i0 b)|auto]. }
    destruct Hl0 as [Hl0|Hw]; [|now left].
    destruct (K3 Hc0 Hr0 i Hl0) as [Hw|(Hu & Ha)].
    + destruct (step_waiting_keep _ _ _ _ i Hs Hw) as [H|[->| ->]]; [now left| |].
      * right. destruct Hg as [Hg|Hg]; [|discriminate]. unfold gguard in Hg. unfold waitingb in Hw.
        destruct (s_pc (g_s g)); try discriminate. apply N.eqb_eq in Hw. subst i0.
        apply andb_prop in Hg as [Hg _]. apply andb_prop in Hg as [Hu Hrn].
        apply negb_true_iff in Hu. rewrite Eun. split; [intros X; apply memN_in in X; congruence|].
        left. cbn [gafter g_run]. now apply memN_in.
      * exfalso. now apply not_in_removeN in Hl.
    + right. split.
      * rewrite Eun. destruct bl; try exact Hu.
        -- intros [<-|X]; [|now apply Hu]. apply step_factory_fresh in Hs. apply Hlt in Hl0. lia.
        -- intros X. apply in_removeN in X. now apply Hu.
      * destruct Ha as [Ha|Ha]; [left; now apply Hrun|now right].
Qed.

Lemma GInv_step g l g' : GInv g -> gstep true g l = Some g' -> GInv g'.
Proof.
  intros HG H. pose proof HG as (Ha & (Kb & Kd & K1 & K2 & K3)).
  destruct l; unfold gstep in H.
  - (* GB *)
    destruct (gguard g l) eqn:Eg; [|discriminate]. destruct (step true (g_s g) l) as [s'|] eqn:Es; [|discriminate].
    injection H as <-. split; [destruct l; exact (acct_step _ _ _ Ha Es)|].
    pose proof (KInv_base g l s' (g_rc g) HG Es (or_introl Eg) (or_introl eq_refl)) as HK.
    destruct l; exact HK.
  - (* GShutStop *)
    destruct (s_stopreq (g_s g)); [|discriminate]. destruct (step true (g_s g) LShut) as [s'|] eqn:Es; [|discriminate].
    injection H as <-. split; [exact (acct_step _ _ _ Ha Es)|].
    exact (KInv_base g LShut s' true HG Es (or_intror eq_refl) (or_intror (conj eq_refl eq_refl))).
  - (* GFailCancel *)
    destruct (s_pc (g_s g)) eqn:Epc; try discriminate.
    destruct ((i =? i0) && (negb (beh_eqb b BReady) || s_cancel (g_s g)) && negb (memN i (g_cx g))) eqn:Ec; [|discriminate].
    injection H as <-. split; [exact Ha|]. unfold KInv. cbn [g_s g_run g_cx g_rc g_self].
    repeat split; try assumption.
    intros j [<-|Hj] Hl; [|now apply K2]. apply andb_prop in Ec as [Ec _]. apply andb_prop in Ec as [Ec _].
    unfold waitingb. now rewrite Epc.
  - (* GCtxSeen *)
    match type of H with (if ?c then _ else _) = _ => destruct c end; [|discriminate]. now injection H as <-.
  - (* GRunRet *)
    destruct (memN i (g_run g) && negb (memN i (s_unrun (g_s g))) && (negb (lvb (g_s g) i) || cxb g i)) eqn:Ec;
      [|discriminate]. injection H as <-. split; [exact Ha|]. unfold KInv. cbn [g_s g_run g_cx g_rc g_self].
    repeat split; try assumption.
    intros Hc Hr j Hl. destruct (K3 Hc Hr j Hl) as [Hw|(Hu & Hrn)]; [now left|].
    destruct (N.eq_dec j i) as [->|Hne].
    + left. apply K2; [|exact Hl]. apply andb_prop in Ec as [_ Ec]. apply orb_prop in Ec as [Ec|Ec].
      * apply negb_true_iff in Ec. unfold lvb in Ec. apply memN_in in Hl. unfold lv in Hl. congruence.
      * unfold cxb in Ec. rewrite Hc, Hr, !orb_false_r in Ec. now apply memN_in.
    + right. split; [exact Hu|]. destruct Hrn as [Hrn|Hrn]; [left; now apply in_removeN_other|now right].
  - (* GSelfExit *)
    match type of H with (if ?c then _ else _) = _ => destruct c end; [|discriminate].
    injection H as <-. split; [exact Ha|]. unfold KInv. cbn [g_s g_run g_cx g_rc g_self].
    repeat split; try assumption.
    intros Hc Hr j Hl. destruct (K3 Hc Hr j Hl) as [Hw|(Hu & Hrn)]; [now left|].
    right. split; [exact Hu|]. destruct (N.eq_dec j i) as [->|Hne]; [right; now left|].
    destruct Hrn as [Hrn|Hrn]; [left; now apply in_removeN_other|right; now right].
  - (* GSent *)
    destruct (g_ack g); [|discriminate]. now injection H as <-.
  - (* GCensus *)
    match type of H with (if ?c then _ else _) = _ => destruct c end; [|discriminate]. now injection H as <-.
Qed.

Lemma GInv_init d : GInv (ginit d).
Proof.
  split; [apply acct_init|]. unfold KInv, ginit, init, lv, sp. cbn.
  repeat split; try (intros; contradiction); try discriminate.
Qed.

Theorem GInv_reachable d g : greachable d g -> GInv g.
Proof. intros [ls H]. eapply (run_inv _ _ (gstep true) GInv); [apply GInv_step|apply GInv_init|exact H]. Qed.

(* ---------------------------------------------------------------- the statement *)
(* Whenever the loop is idle and the context given to Run is not cancelled, every server started and
   not stopped RUNS: its own context is live (neither its cancel function, nor the context given to
   Run, nor runCancel() fired), its Run was called, and its goroutine is inside Run - unless the
   server gave up by itself ([g_self]; the cluster does nothing about that). *)
Theorem live_servers_run d g :
  greachable d g -> s_pc (g_s g) = PIdle -> s_cancel (g_s g) = false ->
  g_rc g = false /\
  forall j k c, In (j, (k, c)) (s_live (g_s g)) ->
    cxb g j = false /\ ~ In j (s_unrun (g_s g)) /\ (In j (g_run g) \/ In j (g_self g)).
Proof.
  intros Hre Epc Hc. destruct (GInv_reachable d g Hre) as (Ha & (_ & _ & K1 & K2 & K3)).
  assert (Hr : g_rc g = false).
  { destruct (g_rc g); [|reflexivity]. rewrite (acct_idle_shut _ Ha Epc) in K1. now specialize (K1 eq_refl). }
  split; [exact Hr|]. intros j k c Hin.
  assert (Hl : In j (lv (g_s g))) by (unfold lv; change j with (fst (j, (k, c))); now apply in_map).
  assert (Hw : waitingb (g_s g) j = false) by (unfold waitingb; now rewrite Epc).
  split.
  - unfold cxb. rewrite Hc, Hr, !orb_false_r. destruct (memN j (g_cx g)) eqn:Em; [|reflexivity].
    apply memN_in in Em. rewrite (K2 j Em Hl) in Hw. discriminate.
  - destruct (K3 Hc Hr j Hl) as [Hw'|H]; [congruence|exact H].
Qed.

(* as a boolean ([ClusterGo.live_okb]), for the driver: every state the acceptor returns is checked *)
Theorem live_okb_reachable d g : greachable d g -> live_okb g = true.
Proof.
  intros Hre. unfold live_okb. destruct (s_pc (g_s g)) eqn:Epc; try reflexivity.
  destruct (s_cancel (g_s g)) eqn:Ec; [reflexivity|]. cbn [orb].
  destruct (live_servers_run d g Hre Epc Ec) as [_ H]. apply forallb_forall. intros j Hj.
  apply in_map_iff in Hj as ((j' & k & c) & <- & Hin). cbn [fst].
  destruct (H j' k c Hin) as (H1 & H2 & H3). unfold aliveb. rewrite H1. cbn [negb andb].
  assert (E : memN j' (s_unrun (g_s g)) = false).
  { destruct (memN j' (s_unrun (g_s g))) eqn:E; [|reflexivity]. apply memN_in in E. contradiction. }
  rewrite E. cbn [negb andb]. apply orb_true_iff. destruct H3 as [H3|H3]; [left|right]; now apply memN_in.
Qed.

(* ---------------------------------------------------------------- "the servers it runs are exactly ..." *)
Lemma rts_in m j : In j (rts m) <-> exists q e, In (q, e) m /\ e_rt e = Some j.
Proof.
  induction m as [|(q0, e0) m IH].
  - split; [intros []|intros (q & e & [] & _)].
  - rewrite rts_cons. unfold rt1. cbn [snd]. split.
    + intros H. apply in_app_or in H as [H|H].
      * destruct (e_rt e0) eqn:E; [|destruct H]. destruct H as [<-|[]]. exists q0, e0. split; [now left|exact E].
      * apply IH in H as (q & e & Hin & Hr). exists q, e. split; [now right|exact Hr].
    + intros (q & e & [Heq|Hin] & Hr); apply in_or_app.
      * injection Heq as <- <-. left. rewrite Hr. now left.
      * right. apply IH. now exists q, e.
Qed.

Lemma rts_nodup_inj m : forall q q' e e' j,
  NoDup (rts m) -> In (q, e) m -> In (q', e') m -> e_rt e = Some j -> e_rt e' = Some j -> q = q' /\ e = e'.
Proof.
  induction m as [|(q0, e0) m IH]; intros q q' e e' j Hnd H1 H2 R1 R2; [destruct H1|].
  rewrite rts_cons in Hnd. unfold rt1 in Hnd. cbn [snd] in Hnd.
  assert (Hm : forall q1 e1, In (q1, e1) m -> e_rt e1 = Some j -> e_rt e0 = Some j -> False).
  { intros q1 e1 Hin Hr Hr0. rewrite Hr0 in Hnd. cbn [app] in Hnd. inversion Hnd as [|? ? Hn _]; subst.
    apply Hn. apply rts_in. now exists q1, e1. }
  assert (Hnd' : NoDup (rts m)).
  { destruct (e_rt e0); [cbn [app] in Hnd; now inversion Hnd|exact Hnd]. }
  destruct H1 as [E1|H1], H2 as [E2|H2].
  - injection E1 as <- <-. injection E2 as <- <-. now split.
  - injection E1 as <- <-. exfalso. exact (Hm q' e' H2 R2 R1).
  - injection E2 as <- <-. exfalso. exact (Hm q e H1 R1 R2).
  - exact (IH q q' e e' j Hnd' H1 H2 R1 R2).
Qed.

(* At every idle point, context not cancelled: the servers that RUN (alive: context live, Run called,
   inside Run unless the server gave up by itself) are exactly the entries of the last received map
   whose start did not fail in that round, each created from the configuration the map gives its id. *)
Theorem runs_exactly d g :
  greachable d g -> s_pc (g_s g) = PIdle -> s_cancel (g_s g) = false ->
  let s := g_s g in
  (forall q c, dcfg (s_des s) q = Some c ->
     In q (s_failed s) \/ exists j, In (j, (q, c)) (s_live s) /\ aliveb g j = true) /\
  (forall j k c, In (j, (k, c)) (s_live s) -> dcfg (s_des s) k = Some c /\ aliveb g j = true).
Proof.
  intros Hre Epc Hc s. destruct (greachable_base d g Hre) as [ls Hr].
  destruct (round_converges d ls _ Hr Epc) as (R1 & R2 & _ & R4 & R5).
  destruct (acct_reachable d ls _ Hr) as (Hnd & _ & Hpc). unfold acct_pc in Hpc. rewrite Epc in Hpc.
  destruct Hpc as (Hk & Hp & _).
  pose proof (live_okb_reachable d g Hre) as Hok. unfold live_okb in Hok. rewrite Epc, Hc in Hok. cbn [orb] in Hok.
  rewrite forallb_forall in Hok.
  assert (Hal : forall j k c, In (j, (k, c)) (s_live s) -> aliveb g j = true).
  { intros j k c Hin. apply Hok. change j with (fst (j, (k, c))). now apply in_map. }
  split.
  - intros q c Hd. destruct (R2 q c Hd) as [(e & He)|Hf]; [|now left]. right.
    destruct (R1 q e He) as (Hd' & _ & _). fold s in Hd'. rewrite Hd in Hd'. injection Hd' as Hce.
    destruct (e_rt e) as [j|] eqn:Er; [|rewrite (R4 q e He Er) in Hc; discriminate].
    assert (Hj : In j (lv s)).
    { eapply Permutation_in; [apply Permutation_sym; exact Hp|]. apply rts_in. exists q, e.
      split; [now apply lookup_some_in|exact Er]. }
    unfold lv in Hj. apply in_map_iff in Hj as ((j' & k' & c') & Hfst & Hin). cbn [fst] in Hfst. subst j'.
    destruct (R5 j k' c' Hin) as (e' & He' & Er' & Hc' & _).
    assert (Hnr : NoDup (rts (s_entries s))) by (eapply Permutation_NoDup; [exact Hp|exact Hnd]).
    destruct (rts_nodup_inj (s_entries s) q k' e e' j Hnr (lookup_some_in _ _ _ He) (lookup_some_in _ _ _ He') Er Er')
      as [<- <-].
    exists j. split; [|now apply (Hal j q c')]. replace c with c' by congruence. exact Hin.
  - intros j k c Hin. destruct (R5 j k c Hin) as (e & _ & _ & _ & Hd). split; [exact Hd|now apply (Hal j k c)].
Qed.
