(* C10: a child's failure always propagates.  Inductive invariants about the error channel,
   Run's program counter and the machine state, lifted to every schedule with LTS.run_inv. *)
From Coq Require Import List NArith Bool Arith Lia.
From GS Require Import Errs LTS Composite CompositeMon CompositeBase.
Import ListNotations.

(* ------------------------------------------------------------------ step inversion tactic *)

Ltac step_inv H :=
  repeat (match type of H with
          | match ?x with _ => _ end = Some _ => let E := fresh "E" in destruct x eqn:E; try discriminate H
          | (if ?x then _ else _) = Some _ => let E := fresh "E" in destruct x eqn:E; try discriminate H
          end);
  try (injection H as H; subst).

(* ------------------------------------------------------------------ definitions *)

Definition pre_launch (p : tpc) : bool :=
  match p with TIdle | TCalled | TBootLock | TBootCb | TBootLaunch => true | _ => false end.

Definition outside (p : rpc) : bool :=
  match p with RCalled | RRet | RDone => true | _ => false end.

(* Run is past its select on the failure branch *)
Definition late (p : tpc) : bool :=
  match p with
  | TTearLock | TStopBegin | TStopWait | TStopDrain | TRet _ | TOut _ | TDone _ => true
  | _ => false
  end.

Definition result_of (p : tpc) : option oerr :=
  match p with TRet r | TOut r | TDone r => Some r | _ => None end.

Definition reported (e : err) : Prop := exists x, e = Wrap x /\ is_cancel x = false.

Definition all_outside (s : state) : Prop := forall r, In r (reloaders s) -> outside (r_pc r) = true.

(* before the first launch nothing has happened yet and no reload can be in progress *)
Definition I1 (s : state) : Prop :=
  pre_launch (runt s) = true ->
  kids s = [] /\ errq s = [] /\ fail_sent s = false /\ took s = None
  /\ all_outside s /\ fsm s <> FRunning /\ fsm s <> FReloading.

(* the error channel *)
Definition I2 (s : state) : Prop :=
  1 <= errcap s /\ (forall e, In e (errq s) -> reported e)
  /\ (fail_sent s = true -> errq s <> [] \/ took s <> None).

(* once Run has read an error *)
Definition I3 (s : state) : Prop :=
  forall e, took s = Some e -> reported e /\ fsm s = FError /\ late (runt s) = true.

(* Run's result *)
Definition I4 (s : state) : Prop :=
  forall r, result_of (runt s) = Some r ->
    match took s with
    | Some e => r = Some (fail_result e)
    | None => r = None \/ r = internal_err
    end.

Definition InvA (s : state) : Prop := I1 s /\ I2 s /\ I3 s /\ I4 s.

(* ------------------------------------------------------------------ helpers *)

Lemma rel_pc_in k s p : rel_pc k s = Some p -> exists r, In r (reloaders s) /\ r_pc r = p.
Proof.
  unfold rel_pc. destruct (nth_error (reloaders s) k) as [r|] eqn:E; cbn; [|discriminate].
  intros H; injection H as <-. exists r. split; [eapply nth_error_In; eassumption|reflexivity].
Qed.

Lemma outside_rel k s p : all_outside s -> rel_pc k s = Some p -> outside p = true.
Proof. intros H Hr. destruct (rel_pc_in _ _ _ Hr) as (r & Hin & <-). now apply H. Qed.

Lemma outside_nth k s x : all_outside s -> nth_error (reloaders s) k = Some x -> outside (r_pc x) = true.
Proof. intros H Hr. apply H. eapply nth_error_In; eassumption. Qed.

Lemma all_outside_upd k f s :
  all_outside s -> (forall x, outside (r_pc x) = true -> outside (r_pc (f x)) = true) ->
  forall r, In r (upd k f (reloaders s)) -> outside (r_pc r) = true.
Proof.
  intros H Hf r Hin. apply in_upd in Hin as [Hin|(x & Hx & ->)]; [now apply H|].
  apply Hf, H. eapply nth_error_In; eassumption.
Qed.

Lemma all_outside_app s r :
  all_outside s -> outside (r_pc r) = true -> forall x, In x (reloaders s ++ [r]) -> outside (r_pc x) = true.
Proof. intros H Hr x Hin. apply in_app_or in Hin as [Hin|[<-|[]]]; auto. Qed.

Lemma transition_fsm to s s' : transition to s = Some s' -> allowed (fsm s) to = true /\ s' = set_fsm to s.
Proof. unfold transition. destruct (allowed (fsm s) to); [|discriminate]. intros H; injection H as <-. auto. Qed.

Lemma tear_late P : late (tear_pc P) = true.
Proof. unfold tear_pc. destruct (fix_c09 P); reflexivity. Qed.

Lemma tear_not_pre P : pre_launch (tear_pc P) = false.
Proof. unfold tear_pc. destruct (fix_c09 P); reflexivity. Qed.

Lemma tear_result P : result_of (tear_pc P) = None.
Proof. unfold tear_pc. destruct (fix_c09 P); reflexivity. Qed.

(* a reloader at an inside pc contradicts all_outside *)
Ltac outside_contra :=
  match goal with
  | Ho : all_outside ?s, Hr : rel_pc ?k ?s = Some ?p |- _ =>
    let X := fresh in pose proof (outside_rel _ _ _ Ho Hr) as X; discriminate X
  | Ho : all_outside ?s, Hr : nth_error (reloaders ?s) ?k = Some ?x, Hp : r_pc ?x = _ |- _ =>
    let X := fresh in pose proof (outside_nth _ _ _ Ho Hr) as X; rewrite Hp in X; discriminate X
  end.

Ltac use_transition :=
  repeat match goal with
         | H : transition _ _ = Some _ |- _ => apply transition_fsm in H as [? ->]
         end.

Arguments realloc : simpl never.

Lemma realloc_cases s :
  realloc s = s \/
  (fsm s = FBooting /\ errcap s < length (entries_of s) /\
   realloc s = set_errq [] (set_errcap (length (entries_of s)) s)).
Proof.
  unfold realloc. destruct (fsm s); auto.
  destruct (Nat.ltb (errcap s) (length (entries_of s))) eqn:E; auto.
  right. apply Nat.ltb_lt in E. auto.
Qed.

(* case analysis on the matches that remain inside a post-state *)
Ltac goal_cases :=
  repeat match goal with
         | |- context [match transition ?t ?s with _ => _ end] =>
           let E := fresh "Et" in destruct (transition t s) eqn:E; [apply transition_fsm in E as [? ->]|]
         | |- context [match cfg ?s with _ => _ end] => let E := fresh "Ec" in destruct (cfg s) eqn:E
         | |- context [match fsm ?s with _ => _ end] => let E := fresh "Ef" in destruct (fsm s) eqn:E
         | |- context [if fix_c09 ?P then _ else _] => let E := fresh "Efx" in destruct (fix_c09 P) eqn:E
         | |- context [if fix_stale ?P then _ else _] => let E := fresh "Efs" in destruct (fix_stale P) eqn:E
         | |- context [if ever ?c ?s && negb (active ?c ?s) && fix_lc ?P then _ else _] =>
           let E := fresh "Erl" in destruct (ever c s && negb (active c s) && fix_lc P) eqn:E
         end; cbn.

Lemma release_child c w : w_child (release_worker c w) = w_child w.
Proof. unfold release_worker. destruct (w_pc w); auto. destruct (N.eqb (w_child w) c); auto. Qed.

Lemma release_owner c w : w_owner (release_worker c w) = w_owner w.
Proof. unfold release_worker. destruct (w_pc w); auto. destruct (N.eqb (w_child w) c); auto. Qed.

Lemma release_wdone c w : wdone (release_worker c w) = wdone w.
Proof.
  unfold release_worker, wdone. destruct (w_pc w) eqn:E; rewrite ?E; auto.
  destruct (N.eqb (w_child w) c); cbn; rewrite ?E; auto.
Qed.

Ltac split_all := repeat match goal with |- _ /\ _ => split end.

Ltac norm_hyps :=
  unfold at_boot_lock, at_boot_launch, at_stop_begin, at_stop_wait, at_stop_drain in *;
  repeat match goal with
         | H : _ && _ = true |- _ => apply andb_true_iff in H as [? ?]
         | H : match ?x with _ => _ end = true |- _ =>
           let E := fresh "En" in destruct x eqn:E; try discriminate H
         end.

(* the generic opening of a one-step invariant proof *)
Ltac open_step Hst :=
  match type of Hst with
  | step _ _ ?l = Some _ => destruct l
  end;
  try match goal with o : owner |- _ => destruct o end;
  cbn [step] in Hst; step_inv Hst; use_transition; norm_hyps;
  try match goal with
      | |- context [realloc ?x] => destruct (realloc_cases x) as [->|(Hb & Hlt & ->)]
      end.

Ltac kids_empty_contra :=
  match goal with
  | Hk : kids ?s = [], E : nth_error (kids ?s) ?i = Some _ |- _ =>
    rewrite Hk in E; destruct i; discriminate E
  end.

(* discharge the premise [pre_launch (runt s) = true] of the pre-state invariant H *)
Ltac use_pre H Hp :=
  first [ specialize (H Hp)
        | specialize (H eq_refl)
        | match type of H with
          | pre_launch (runt ?s) = true -> _ =>
            match goal with E : runt s = _ |- _ => rewrite E in H; specialize (H eq_refl) end
          end ].

Lemma I1_step P s l s' : I1 s -> step P s l = Some s' -> I1 s'.
Proof.
  intros H Hst. unfold I1 in *.
  open_step Hst; cbn; goal_cases; intros Hp; try discriminate Hp;
    try (rewrite ?tear_not_pre in Hp; discriminate Hp).
  all: use_pre H Hp; destruct H as (Hk & Hq & Hf & Ht & Ho & Hr1 & Hr2).
  all: try outside_contra; try kids_empty_contra; try congruence.
  all: try (match goal with
            | H0 : allowed (fsm ?s) FReloading = true |- _ =>
              exfalso; destruct (fsm s); cbn in H0; try discriminate H0; congruence
            end).
  all: split_all; auto; try discriminate; try congruence.
  all: unfold all_outside; cbn.
  all: try (apply all_outside_upd; [exact Ho|]; intros x Hx; cbn; auto).
  all: try (apply all_outside_app; [exact Ho|reflexivity]).
Qed.

(* while the machine is New or Booting no reload is in progress *)
Definition I0 (s : state) : Prop := fsm s = FNew \/ fsm s = FBooting -> all_outside s.

Ltac allowed_contra :=
  match goal with
  | H0 : allowed (fsm ?s) _ = true |- _ =>
    exfalso; destruct (fsm s); cbn in H0; try discriminate H0; intuition congruence
  end.

Lemma I0_step P s l s' : I0 s -> step P s l = Some s' -> I0 s'.
Proof.
  intros H Hst. unfold I0 in *.
  open_step Hst; cbn; goal_cases; intros Hp.
  all: try (specialize (H Hp)); try exact H.
  all: try (apply H; auto; fail).
  all: try outside_contra.
  all: try (destruct Hp; discriminate).
  all: try (destruct Hp; congruence).
  all: try allowed_contra.
  all: unfold all_outside; cbn.
  all: try (apply all_outside_upd; [auto|]; intros x Hx; cbn; auto).
  all: try (apply all_outside_app; [auto|reflexivity]).
  cbn in H0. apply H. destruct (fsm s); try discriminate H0; auto.
Qed.

Lemma reported_wrap x : is_cancel x = false -> reported (Wrap x).
Proof. intros H. exists x. auto. Qed.

Lemma I2_step P s l s' : I0 s -> I1 s -> I2 s -> step P s l = Some s' -> I2 s'.
Proof.
  intros H0 H1 H Hst. unfold I2 in *. destruct H as (Hc & Hq & Hl).
  open_step Hst; cbn; goal_cases.
  all: try (split_all; auto; fail).
  all: try (split_all; intuition; fail).
  all: try (split_all; auto; intros Hfs; specialize (Hl Hfs); destruct Hl;
            [left; assumption | right; congruence]; fail).
  - (* Run's select receives the error *)
    split_all; auto.
    + intros e0 He0. apply Hq. now right.
    + intros _. right. discriminate.
  - (* initial boot re-allocates the (still unused) channel *)
    split_all; [lia|intros e []|].
    intros Hf.
    assert (Hpre : pre_launch (runt s) = true)
      by (match goal with E : runt s = _ |- _ => rewrite E; reflexivity end).
    destruct (H1 Hpre) as (_ & _ & Hfs & _). congruence.
  - (* a reload never boots while the machine is Booting *)
    exfalso. assert (Ho : all_outside s) by (apply H0; now right). outside_contra.
  - (* a failure is queued *)
    split_all; auto.
    + intros e' Hin. apply in_app_or in Hin as [Hin|[<-|[]]]; [now apply Hq|]. now apply reported_wrap.
    + intros _. left. intros Hnil. apply app_eq_nil in Hnil as [_ Hnil]. discriminate Hnil.
  - (* the channel is full: a failure is already queued *)
    split_all; auto. intros _. left. intros Hnil. rewrite Hnil in *. cbn in *.
    destruct (errcap s); [lia|discriminate].
Qed.

Ltac late_contra :=
  match goal with
  | Hl : late (runt ?s) = true, E : runt ?s = _ |- _ => rewrite E in Hl; discriminate Hl
  end.

Lemma I3_step P s l s' : I1 s -> I2 s -> I3 s -> step P s l = Some s' -> I3 s'.
Proof.
  intros H1 H2 H Hst. unfold I3 in *.
  open_step Hst; cbn; goal_cases; intros e' He'.
  all: try (destruct (H _ He') as (Hr & Hf & Hl); try late_contra;
            try (rewrite Hf in *; cbn in *; try discriminate);
            split_all; auto; try (apply tear_late); fail).
  1:{ injection He' as <-. split_all; auto; [|apply tear_late].
      destruct H2 as (_ & Hq & _). apply Hq. rewrite E0. now left. }
  all: rewrite ?E0 in He'; try congruence; destruct (H _ He') as (Hr & Hf & Hl); split_all; auto.
Qed.

Lemma I4_step P s l s' : I1 s -> I3 s -> I4 s -> step P s l = Some s' -> I4 s'.
Proof.
  intros H1 H3 H Hst. unfold I4 in *.
  open_step Hst; cbn; goal_cases; intros r' Hr'; try discriminate Hr';
    try (rewrite tear_result in Hr'; discriminate Hr').
  all: try (apply H; exact Hr').
  all: injection Hr' as <-.
  all: destruct (took s) as [e1|] eqn:Et; auto.
  all: try (destruct (H3 _ Et) as (_ & _ & Hl); late_contra).
  all: try congruence.
Qed.

(* ------------------------------------------------------------------ all schedules *)

Definition InvC10 (s : state) : Prop := I0 s /\ I1 s /\ I2 s /\ I3 s /\ I4 s.

Lemma InvC10_init : InvC10 init.
Proof.
  unfold InvC10, I0, I1, I2, I3, I4, all_outside; cbn. split_all; auto; try discriminate.
  all: try (intros; contradiction); try (intros; discriminate).
  all: try (intros _; split_all; auto; try discriminate; intros r []).
Qed.

Lemma InvC10_step P s l s' : InvC10 s -> step P s l = Some s' -> InvC10 s'.
Proof.
  intros (H0 & H1 & H2 & H3 & H4) Hst. unfold InvC10. split_all.
  - eapply I0_step; eassumption.
  - eapply I1_step; eassumption.
  - eapply I2_step; eassumption.
  - eapply I3_step; eassumption.
  - eapply I4_step; eassumption.
Qed.

Lemma InvC10_reach P s : reach P s -> InvC10 s.
Proof. apply reach_inv; [apply InvC10_init|apply InvC10_step]. Qed.

(* ---- what the property says ---- *)

(* nil and cancellation exits never reach the error channel: everything in it (and everything Run
   takes from it) is "child runnable failed: %w" around a non-cancellation error *)
Lemma benign_never_queued P s : reach P s -> forall e, In e (errq s) -> reported e.
Proof. intros Hr. apply (InvC10_reach P s Hr). Qed.

(* a reported failure is never lost: it is in the channel Run selects on until Run takes one *)
Lemma failure_never_lost P s :
  reach P s -> fail_sent s = true -> errq s <> [] \/ took s <> None.
Proof. intros Hr. apply (InvC10_reach P s Hr). Qed.

(* Run's select can always take a queued failure *)
Lemma select_takes_failure P s e q :
  runt s = TSelect -> errq s = e :: q ->
  exists s', step P s LSelErr = Some s' /\ took s' = Some e /\ fsm s' = FError.
Proof. intros Hr Hq. cbn [step]. rewrite Hr, Hq. eexists. split; [reflexivity|]. cbn. auto. Qed.

Lemma fail_result_wraps e :
  wraps (fail_result e) id_runnable_failed = true /\
  (forall id, wraps e id = true -> wraps (fail_result e) id = true) /\
  is_cancel (fail_result e) = is_cancel e.
Proof.
  unfold fail_result. cbn. split_all; auto.
  - intros id H. rewrite H. now rewrite !orb_true_r.
  - now rewrite !orb_false_r.
Qed.

(* once Run has taken a failure e: e is a child's non-cancellation error, the state is Error and
   stays Error, Run is on its teardown path, and whatever Run returns is
   ErrRunnableFailed joined with e *)
Lemma propagates P s e :
  reach P s -> took s = Some e ->
  reported e /\ fsm s = FError /\ late (runt s) = true /\
  (forall r, result_of (runt s) = Some r ->
     r = Some (fail_result e) /\ wraps (fail_result e) id_runnable_failed = true /\
     (forall id, wraps e id = true -> wraps (fail_result e) id = true)).
Proof.
  intros Hr Ht. destruct (InvC10_reach P s Hr) as (_ & _ & _ & H3 & H4).
  destruct (H3 _ Ht) as (Ha & Hb & Hc). split_all; auto.
  intros r Hres. specialize (H4 _ Hres). rewrite Ht in H4.
  destruct (fail_result_wraps e) as (Hw1 & Hw2 & _). split_all; auto.
Qed.

(* Run reports ErrRunnableFailed only if it took a child's failure *)
Lemma failed_only_if_took P s r x :
  reach P s -> result_of (runt s) = Some r -> r = Some x -> wraps x id_runnable_failed = true ->
  exists e, took s = Some e /\ reported e.
Proof.
  intros Hr Hres -> Hw. destruct (InvC10_reach P s Hr) as (_ & _ & _ & H3 & H4).
  specialize (H4 _ Hres). destruct (took s) as [e|] eqn:Et.
  - exists e. split; [reflexivity|]. now apply H3.
  - destruct H4 as [H4|H4]; [discriminate H4|]. injection H4 as ->. discriminate Hw.
Qed.

(* the kid goroutine's filter, step by step *)
Lemma ksend_benign P s i k e :
  nth_error (kids s) i = Some k -> k_pc k = KExited e -> benign e = true ->
  exists s', step P s (LKSend i) = Some s' /\ errq s' = errq s /\ fail_sent s' = fail_sent s.
Proof.
  intros Hk Hp Hb. cbn [step]. rewrite Hk, Hp. destruct e as [x|]; cbn in Hb.
  - rewrite Hb. eexists; split; [reflexivity|]. cbn. auto.
  - eexists; split; [reflexivity|]. cbn. auto.
Qed.

Lemma ksend_failure P s i k x :
  nth_error (kids s) i = Some k -> k_pc k = KExited (Some x) -> is_cancel x = false ->
  exists s', step P s (LKSend i) = Some s' /\ fail_sent s' = true /\
             (errq s' = errq s ++ [Wrap x] \/ (errq s' = errq s /\ errcap s <= length (errq s))).
Proof.
  intros Hk Hp Hb. cbn [step]. rewrite Hk, Hp, Hb.
  destruct (Nat.ltb (length (errq s)) (errcap s)) eqn:E; eexists; (split; [reflexivity|]); cbn; split; auto.
  right. split; auto. now apply Nat.ltb_ge in E.
Qed.
