(* C19, composite part: no entry list - empty, nil or of any length - makes the list handling of the
   composite runner panic (index out of range, negative WaitGroup counter). *)
From Coq Require Import List NArith ZArith Bool Lia.
From GS Require Import CompositeCfg.
Import ListNotations.

Lemma start_all_ok es : forall wg acc,
  (Z.of_nat (length es) <= wg)%Z ->
  start_all es wg acc = Done (rev acc ++ es, (wg - Z.of_nat (length es))%Z).
Proof.
  induction es as [|e t IH]; intros wg acc Hle; cbn [start_all length].
  - rewrite app_nil_r. f_equal. f_equal. cbn. lia.
  - cbn [length] in Hle. unfold wg_done. destruct (wg - 1 <? 0)%Z eqn:E; [apply Z.ltb_lt in E; lia|].
    rewrite IH by lia. cbn [rev]. rewrite <- app_assoc. cbn [app]. f_equal. f_equal. lia.
Qed.

Theorem boot_ok es : boot es = Done es.
Proof.
  destruct es as [|e t]; [reflexivity|]. unfold boot, wg_add.
  destruct (0 + Z.of_nat (length (e :: t)) <? 0)%Z eqn:E; [apply Z.ltb_lt in E; lia|].
  rewrite start_all_ok by lia. rewrite Z.sub_diag. cbn. reflexivity.
Qed.

Lemma stop_from_ok es : forall k wg acc,
  k <= length es -> (Z.of_nat k <= wg)%Z ->
  exists l, stop_from es k wg acc = Done (l, (wg - Z.of_nat k)%Z) /\ length l = length acc + k.
Proof.
  induction k as [|k IH]; intros wg acc Hk Hle; cbn [stop_from].
  - exists (rev acc). split; [f_equal; f_equal; cbn; lia|rewrite rev_length; lia].
  - destruct (nth_error es k) as [e|] eqn:En.
    2:{ apply nth_error_None in En. lia. }
    unfold wg_done. destruct (wg - 1 <? 0)%Z eqn:E; [apply Z.ltb_lt in E; lia|].
    destruct (IH (wg - 1)%Z (e :: acc)) as (l & Hl & Hlen); [lia|lia|].
    exists l. split; [rewrite Hl; f_equal; f_equal; lia|cbn [length] in Hlen; lia].
Qed.

Theorem stop_all_ok es : exists l, stop_all es = Done l /\ length l = length es.
Proof.
  unfold stop_all, wg_add. destruct (0 + Z.of_nat (length es) <? 0)%Z eqn:E; [apply Z.ltb_lt in E; lia|].
  destruct (stop_from_ok es (length es) (0 + Z.of_nat (length es)) []) as (l & Hl & Hlen); [lia|lia|].
  rewrite Hl. replace (0 + Z.of_nat (length es) - Z.of_nat (length es))%Z with 0%Z by lia.
  cbn. exists l. split; [reflexivity|exact Hlen].
Qed.

Lemma equal_from_ok es : forall other i,
  i + length es = length other -> exists b, equal_from es other i = Done b.
Proof.
  induction es as [|e t IH]; intros other i Hl; cbn [equal_from]; [eauto|].
  cbn [length] in Hl. destruct (nth_error other i) as [o|] eqn:En.
  2:{ apply nth_error_None in En. lia. }
  destruct (_ && _); [apply IH; lia|eauto].
Qed.

Theorem config_equal_comp_ok es other : exists b, config_equal_comp es other = Done b.
Proof.
  unfold config_equal_comp. destruct (Nat.eqb (length es) (length other)) eqn:E; cbn [negb]; [|eauto].
  apply Nat.eqb_eq in E. apply equal_from_ok. lia.
Qed.

Theorem reload_ok old new : exists r, reload old new = Done r.
Proof.
  unfold reload. destruct (membership_changed old new); [|eauto].
  destruct (stop_all_ok old) as (l & -> & _). rewrite boot_ok. eauto.
Qed.

Theorem run_stop_ok es : exists stopped, run_stop es = Done (es, stopped) /\ length stopped = length es.
Proof.
  unfold run_stop. rewrite boot_ok. destruct (stop_all_ok es) as (l & -> & Hl). eauto.
Qed.
