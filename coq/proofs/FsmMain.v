(* C08: the statements of props/C08.v assembled from FsmGraph / FsmWalk / FsmStream / FsmResult. *)
From Coq Require Import List Arith NArith Bool Lia.
From GS Require Import LTS Fsm FsmTable FsmRunners FsmBase FsmGraph FsmWalk FsmStream FsmResult.
Import ListNotations.

Definition mreach (s : state) : Prop := exists ls, run (step fsm_cfg) init ls = Some s.

Definition creach (s : cstate) : Prop := exists ls, run composite_rstep (rinit cctl composite_init) ls = Some s.
Definition hreach (s : hstate) : Prop := exists ls, run http_rstep (rinit hctl http_init) ls = Some s.
Definition kreach (s : kstate) : Prop := exists ls, run cluster_rstep (rinit kctl cluster_init) ls = Some s.

(* the machine inside a reachable runner state is a reachable machine state *)
Lemma creach_machine s : creach s -> mreach (rm s).
Proof. intros [ls H]. exact (product_projects fsm_cfg cctl ccl composite_step composite_tok composite_ops_fine _ ls s H). Qed.
Lemma hreach_machine s : hreach s -> mreach (rm s).
Proof. intros [ls H]. exact (product_projects fsm_cfg hctl hcl http_step http_tok http_ops_fine _ ls s H). Qed.
Lemma kreach_machine s : kreach s -> mreach (rm s).
Proof. intros [ls H]. exact (product_projects fsm_cfg kctl kcl cluster_step cluster_tok cluster_ops_fine _ ls s H). Qed.

(* ---- walk ---- *)
Definition is_walk (m : state) : Prop :=
  walk_okb fsm_cfg New (hist m) = true /\ cur m = last (hist m) New.

Lemma walk_composite s : creach s -> is_walk (rm s).
Proof. intros [ls H]. exact (product_walk fsm_cfg cctl ccl composite_step composite_tok composite_ops_fine _ ls s H). Qed.
Lemma walk_http s : hreach s -> is_walk (rm s).
Proof. intros [ls H]. exact (product_walk fsm_cfg hctl hcl http_step http_tok http_ops_fine _ ls s H). Qed.
Lemma walk_cluster s : kreach s -> is_walk (rm s).
Proof. intros [ls H]. exact (product_walk fsm_cfg kctl kcl cluster_step cluster_tok cluster_ops_fine _ ls s H). Qed.

(* what a walk is, spelled out: every step is in the table or targets Error *)
Inductive walk (c : tcfg) : st -> list st -> Prop :=
| walk_nil a : walk c a []
| walk_cons a b t : (allowedb c a b = true \/ b = Error) -> walk c b t -> walk c a (b :: t).

Lemma walk_okb_iff c a l : walk_okb c a l = true <-> walk c a l.
Proof.
  revert a; induction l as [|b t IH]; intros a.
  - split; [constructor|reflexivity].
  - cbn [walk_okb]. rewrite andb_true_iff, orb_true_iff, st_eqb_eq, IH. split.
    + intros [H0 Ht]. now constructor.
    + intros H. inversion H; subst. auto.
Qed.

Lemma is_walk_spec m : is_walk m -> walk fsm_cfg New (hist m) /\ cur m = last (hist m) New.
Proof. intros [A B]. split; [now apply walk_okb_iff|exact B]. Qed.

Lemma walk_composite_spec s : creach s -> walk fsm_cfg New (hist (rm s)) /\ cur (rm s) = last (hist (rm s)) New.
Proof. intros H. apply is_walk_spec, walk_composite, H. Qed.
Lemma walk_http_spec s : hreach s -> walk fsm_cfg New (hist (rm s)) /\ cur (rm s) = last (hist (rm s)) New.
Proof. intros H. apply is_walk_spec, walk_http, H. Qed.
Lemma walk_cluster_spec s : kreach s -> walk fsm_cfg New (hist (rm s)) /\ cur (rm s) = last (hist (rm s)) New.
Proof. intros H. apply is_walk_spec, walk_cluster, H. Qed.

Lemma machines_reachable :
  (forall s, creach s -> mreach (rm s)) /\ (forall s, hreach s -> mreach (rm s)) /\
  (forall s, kreach s -> mreach (rm s)).
Proof. exact (conj creach_machine (conj hreach_machine kreach_machine)). Qed.

(* ---- stream ---- *)
Lemma stream_machine s i x :
  mreach s -> nth_error (subs s) i = Some x -> dropped x = false -> sg x = SLive ->
  reg_at x <= read_at x /\ read_at x <= length (hist s) /\
  exists rest, expected_stream (hist s) (reg_at x) (read_at x) (endp (length (hist s)) x) = got x ++ rest.
Proof. intros [ls H]. exact (stream_prefix fsm_cfg ls s i x H). Qed.

Lemma stream_closed_machine s i x :
  mreach s -> nth_error (subs s) i = Some x -> gotclosed x = true ->
  cancelled x = true /\ unsub x = true /\
  (dropped x = false -> got x = expected_stream (hist s) (reg_at x) (read_at x) (unsub_at x)).
Proof. intros [ls H]. exact (stream_closed fsm_cfg ls s i x H). Qed.

(* while nothing was dropped for this subscriber, nothing is lost: everything it is owed has been
   received or is in flight, in order *)
Lemma stream_in_flight_machine s i x :
  mreach s -> nth_error (subs s) i = Some x -> dropped x = false -> sg x = SLive ->
  got x ++ wch x ++ olist (hand x) ++ bch x ++ (if memn i (pend s) then [cur s] else []) =
  expected_stream (hist s) (reg_at x) (read_at x) (endp (length (hist s)) x).
Proof.
  intros [ls H] Hx Hd Hl. apply inv_reach in H as [_ Hs]. specialize (Hs i x Hx).
  unfold sub_ok, flow, head_part in Hs. rewrite Hl in Hs.
  destruct Hs as (_ & _ & _ & _ & _ & _ & _ & _ & _ & Hf). exact (Hf Hd).
Qed.

Lemma closed_after_cancel_machine s i x :
  mreach s -> nth_error (subs s) i = Some x -> wclosed x = true -> cancelled x = true.
Proof. intros [ls H]. exact (closed_only_after_cancel fsm_cfg ls s i x H). Qed.

Lemma close_progress_machine s i x :
  mreach s -> nth_error (subs s) i = Some x ->
  cancelled x = true -> sg x = SLive -> gotclosed x = false ->
  (unsub x = false -> pend s = []) ->
  exists l, In l (pipeline_labels i) /\ step fsm_cfg s l <> None.
Proof. intros [ls H]. exact (close_progress fsm_cfg ls s i x H). Qed.

(* the property's own reading: at most one state change between registration and read *)
Lemma stream_partial s i x :
  mreach s -> nth_error (subs s) i = Some x -> dropped x = false -> sg x = SLive ->
  read_at x <= S (reg_at x) ->
  let s0 := state_at (hist s) (read_at x) in
  let later := segment (hist s) (read_at x) (endp (length (hist s)) x) in
  exists rest, got x ++ rest = s0 :: later \/ got x ++ rest = s0 :: s0 :: later.
Proof.
  intros Hm Hx Hd Hl Hle. destruct (stream_machine s i x Hm Hx Hd Hl) as (A & B & rest & E).
  exists rest. cbn zeta.
  assert (Hend : endp (length (hist s)) x <= length (hist s)).
  { destruct Hm as [ls Hr]. apply inv_reach in Hr as [_ Hs]. specialize (Hs i x Hx).
    unfold sub_ok in Hs. tauto. }
  assert (read_at x = reg_at x \/ read_at x = S (reg_at x)) as [Eq|Eq] by lia.
  - left. rewrite <- E, Eq. reflexivity.
  - rewrite <- E, Eq. destruct (expected_one_dup (hist s) (reg_at x) _ Hend) as [F|F]; rewrite F; auto.
Qed.

(* refutation of the property as stated: a subscriber that keeps up can receive the current state and
   then an OLDER change again (two changes between its registration and its read of the state) *)
Definition stream_witness : list label :=
  [LSub; LOp (OTrans Booting) true; LDeliver 0; LOp (OTrans Running) true; LRead 0;
   LFwdTake 0; LDeliver 0; LRecv 0 Running; LFwdPut 0; LRecv 0 Booting; LFwdTake 0; LFwdPut 0;
   LRecv 0 Running].

Definition stream_witness_state : option state :=
  Eval vm_compute in run (step fsm_cfg) init stream_witness.
Lemma stream_witness_runs : run (step fsm_cfg) init stream_witness = stream_witness_state.
Proof. vm_compute. reflexivity. Qed.

Lemma stream_refuted :
  exists s x, run (step fsm_cfg) init stream_witness = Some s /\ nth_error (subs s) 0 = Some x /\
              dropped x = false /\ hist s = [Booting; Running] /\
              got x = [Running; Booting; Running] /\
              walk_okb fsm_cfg Running [Booting; Running] = false.
Proof.
  pose proof stream_witness_runs as E. unfold stream_witness_state in E.
  eexists. eexists. split; [exact E|]. split; [reflexivity|].
  split; [reflexivity|]. split; [reflexivity|]. split; [reflexivity|]. vm_compute. reflexivity.
Qed.

(* outside the hypothesis (consumer slower than the broadcast timeout) a change is lost *)
Definition drop_witness : list label :=
  [LSub; LOp (OTrans Booting) true; LDeliver 0; LOp (OTrans Running) true; LDrop 0].
Definition drop_witness_state : option state :=
  Eval vm_compute in run (step fsm_cfg) init drop_witness.
Lemma drop_witness_runs : run (step fsm_cfg) init drop_witness = drop_witness_state.
Proof. vm_compute. reflexivity. Qed.

Lemma slow_may_drop :
  exists s x, run (step fsm_cfg) init drop_witness = Some s /\
              nth_error (subs s) 0 = Some x /\ dropped x = true /\ pend s = [] /\
              bch x = [Booting] /\ cur s = Running.
Proof.
  pose proof drop_witness_runs as E. unfold drop_witness_state in E.
  eexists. eexists. split; [exact E|]. repeat (split; [reflexivity|]). reflexivity.
Qed.

(* ---- IsRunning ---- *)
Lemma isrunning_machine s b s' :
  step fsm_cfg s (LIsRun b) = Some s' <-> (b = is_running (cur s) /\ s' = s).
Proof.
  split; [apply isrunning_spec|]. intros [-> ->]. apply isrunning_enabled.
Qed.

(* ---- result ---- *)
Lemma result_http s b a :
  hreach s -> h_run (rc s) = HPDone b a -> (a = Stopped <-> b = true) /\ (b = false -> a = Error).
Proof. intros [ls H]. exact (http_result ls s b a H). Qed.

Lemma result_cluster s b a :
  kreach s -> k_run (rc s) = KPDone b a -> (a = Stopped <-> b = true) /\ (b = false -> a = Error).
Proof. intros [ls H]. exact (cluster_result ls s b a H). Qed.

Lemma result_composite_partial s b a :
  creach s -> c_run (rc s) = CPDone b a ->
  (b = false -> a = Error) /\ (c_late (rc s) = false -> (a = Stopped <-> b = true)).
Proof. intros [ls H]. exact (composite_result_partial ls s b a H). Qed.

Lemma result_composite_refuted :
  exists s, creach s /\ c_run (rc s) = CPDone true Error.
Proof.
  destruct composite_result_refuted as (s & H & E). exists s. split; [exists composite_witness; exact H|exact E].
Qed.

(* the record at [CPDone]/[HPDone]/[KPDone] is the machine's state at the return label *)
Lemma done_records_return_state_http (s s' : hstate) b :
  http_rstep s (RC (HRunRet b)) = Some s' -> h_run (rc s') = HPDone b (cur (rm s)) /\ rm s' = rm s.
Proof.
  unfold http_rstep, http_step. cbn [rstep http_stepx http_tok tok_apply].
  destruct (h_run (rc s)) eqn:E; try discriminate.
  destruct (Bool.eqb b nil) eqn:Eb; [|discriminate]. cbn. intros H. inversion H; subst. cbn. auto.
Qed.
