(* C15 — order properties of the reference interpreter's trace, for chains of any length:
   handlers are entered in registration order 0,1,..,m-1 without gaps or repeats; returns from Next
   come in non-increasing handler index; nothing is entered after an Abort, a returned Next or a
   recovered panic.  Proved through a trace monitor whose acceptance is an invariant of `ref`. *)
From Coq Require Import List NArith ZArith Bool Lia Sorted.
From GS Require Import Chain.
Import ListNotations.
Open Scope Z_scope.

(* ------------------------------------------------------------------ the monitor *)
Record mon := mkMon { nx : Z; dead : bool; lastret : option Z; okk : bool }.

Definition stops (e : event) : bool :=
  match e with ENextRet _ | EAbort _ | ERecovered _ _ _ => true | _ => false end.

Definition mstep (m : mon) (e : event) : mon :=
  match e with
  | EEnter j => mkMon (j + 1) (dead m) (lastret m) (okk m && Z.eqb j (nx m) && negb (dead m))
  | ENextRet j =>
      mkMon (nx m) true (Some j)
            (okk m && match lastret m with None => true | Some l => Z.leb j l end)
  | EAbort _ => mkMon (nx m) true (lastret m) (okk m)
  | ERecovered _ _ _ => mkMon (nx m) true (lastret m) (okk m)
  | _ => m
  end.

Definition mrun (t : list event) (m : mon) : mon := fold_left mstep t m.
Definition mon0 : mon := mkMon 0 false None true.
Definition mon_ok (t : list event) : bool := okk (mrun t mon0).
Definition mon_of (c : core) : mon := mrun (c_tr c) mon0.

Lemma mon_logc : forall e c, mon_of (logc e c) = mstep (mon_of c) e.
Proof. intros. unfold mon_of, mrun, logc. cbn [c_tr]. rewrite fold_left_app. reflexivity. Qed.

Lemma mon_obsc : forall i b c, mon_of (obsc i b c) = mon_of c.
Proof. intros. unfold obsc. rewrite mon_logc. reflexivity. Qed.

Lemma tr_set_w : forall w c, c_tr (set_w w c) = c_tr c.
Proof. reflexivity. Qed.

Lemma tr_step_simple : forall a c, c_tr (fst (step_simple a c)) = c_tr c.
Proof.
  intros a c. destruct a; cbn; try reflexivity.
  - destruct (w_write_header c0 (c_w c)); reflexivity.
  - destruct (w_write b (c_w c)); reflexivity.
Qed.

Lemma tr_http_error : forall code msg c, c_tr (fst (http_error code msg c)) = c_tr c.
Proof. intros. unfold http_error. destruct (w_http_error code msg (c_w c)); reflexivity. Qed.

Lemma mon_same_tr : forall c c', c_tr c' = c_tr c -> mon_of c' = mon_of c.
Proof. intros c c' H. unfold mon_of. rewrite H. reflexivity. Qed.

(* ------------------------------------------------------------------ invariant of ref *)
Definition lb (i : Z) (o : option Z) : Prop := match o with None => True | Some l => i <= l end.
Definition LiveAt (i : Z) (m : mon) : Prop := m = mkMon i false None true.
(* after the cursor died inside handler i (or a panic is travelling): only returns >= i were seen *)
Definition P (i : Z) (m : mon) : Prop := okk m = true /\ lb i (lastret m) /\ i < nx m.
Definition Q (i : Z) (m : mon) : Prop := okk m = true /\ lb i (lastret m) /\ i <= nx m.

Lemma Live_P : forall i m, LiveAt (i + 1) m -> P i m.
Proof. intros i m H. rewrite H. repeat split; cbn; auto. lia. Qed.
Lemma Q_P : forall i m, Q (i + 1) m -> P i m.
Proof.
  intros i m (H1 & H2 & H3). repeat split; auto; try lia.
  destruct (lastret m); cbn in *; auto. lia.
Qed.
Lemma P_Q : forall i m, P i m -> Q i m.
Proof. intros i m (H1 & H2 & H3). repeat split; auto. lia. Qed.

Lemma P_ret : forall i m, P i m -> P i (mstep m (ENextRet i)).
Proof.
  intros i m (H1 & H2 & H3). repeat split; cbn; auto; try lia.
  rewrite H1. destruct (lastret m); cbn in *; auto. apply Z.leb_le. lia.
Qed.
Lemma P_abort : forall i m, P i m -> P i (mstep m (EAbort i)).
Proof. intros i m (H1 & H2 & H3). repeat split; cbn; auto. Qed.
Lemma P_rec : forall i m b st, P i m -> P i (mstep m (ERecovered i b st)).
Proof. intros i m b st (H1 & H2 & H3). repeat split; cbn; auto. Qed.

Definition post_k (i : Z) (o : outcome core) : Prop :=
  match o with Done c' | Panicked c' => Q i (mon_of c') | _ => True end.

Section Acts.
  Variables (k : core -> outcome core) (i : Z).
  Hypothesis Hk : forall c, LiveAt (i + 1) (mon_of c) -> post_k (i + 1) (k c).

  Definition pre_a (live : bool) (c : core) : Prop :=
    if live then LiveAt (i + 1) (mon_of c) else P i (mon_of c).

  Definition post_a (o : outcome (bool * core)) : Prop :=
    match o with
    | Done (true, c') => LiveAt (i + 1) (mon_of c')
    | Done (false, c') => P i (mon_of c')
    | Panicked (_, c') => P i (mon_of c')
    | _ => True
    end.

  Lemma pre_P : forall live c, pre_a live c -> P i (mon_of c).
  Proof. intros [] c H; cbn in H; auto. apply Live_P; auto. Qed.

  Lemma pre_same : forall live c c', c_tr c' = c_tr c -> pre_a live c -> pre_a live c'.
  Proof. intros live c c' E H. unfold pre_a in *. rewrite (mon_same_tr c c' E). exact H. Qed.

  Lemma acts_mon : forall acts live c, pre_a live c -> post_a (ref_acts k i acts live c).
  Proof.
    induction acts as [|a rest IH]; intros live c Hpre.
    - cbn. destruct live; cbn in *; auto.
    - destruct a; cbn [ref_acts].
      + (* Next *)
        destruct live; cbn in Hpre.
        * assert (HL : LiveAt (i + 1) (mon_of (logc (ENextCall i) c)))
            by (rewrite mon_logc; cbn; exact Hpre).
          pose proof (Hk _ HL) as H.
          destruct (k (logc (ENextCall i) c)) as [c2|c2| |]; cbn in H; cbn; auto.
          -- apply IH. cbn [pre_a]. rewrite mon_obsc, mon_logc. apply P_ret. apply Q_P; auto.
          -- apply Q_P; auto.
        * apply IH. cbn [pre_a]. rewrite mon_obsc, mon_logc. apply P_ret. rewrite mon_logc. cbn. exact Hpre.
      + (* Abort *)
        apply IH. cbn [pre_a]. rewrite mon_obsc, mon_logc. apply P_abort. eapply pre_P; eauto.
      + (* Return *) cbn. destruct live; cbn in *; auto.
      + (* Panic *) cbn. eapply pre_P; eauto.
      + pose proof (tr_step_simple (AWriteHeader c0) c) as E.
        destruct (step_simple (AWriteHeader c0) c) as [c' p]. cbn [fst] in E. destruct p.
        * cbn. apply (pre_P live). eapply pre_same; eauto.
        * apply IH. unfold pre_a. rewrite mon_obsc. eapply (pre_same live c c'); eauto.
      + pose proof (tr_step_simple (AWrite b) c) as E.
        destruct (step_simple (AWrite b) c) as [c' p]. cbn [fst] in E. destruct p.
        * cbn. apply (pre_P live). eapply pre_same; eauto.
        * apply IH. unfold pre_a. rewrite mon_obsc. eapply (pre_same live c c'); eauto.
      + pose proof (tr_step_simple (ASetH k0 v) c) as E.
        destruct (step_simple (ASetH k0 v) c) as [c' p]. cbn [fst] in E. destruct p.
        * cbn. apply (pre_P live). eapply pre_same; eauto.
        * apply IH. unfold pre_a. rewrite mon_obsc. eapply (pre_same live c c'); eauto.
      + pose proof (tr_step_simple (AAddH k0 v) c) as E.
        destruct (step_simple (AAddH k0 v) c) as [c' p]. cbn [fst] in E. destruct p.
        * cbn. apply (pre_P live). eapply pre_same; eauto.
        * apply IH. unfold pre_a. rewrite mon_obsc. eapply (pre_same live c c'); eauto.
      + pose proof (tr_step_simple (ADelH k0) c) as E.
        destruct (step_simple (ADelH k0) c) as [c' p]. cbn [fst] in E. destruct p.
        * cbn. apply (pre_P live). eapply pre_same; eauto.
        * apply IH. unfold pre_a. rewrite mon_obsc. eapply (pre_same live c c'); eauto.
      + (* Wild *)
        destruct (strip_prefix pfx (c_path c)) as [p'|].
        * apply IH. eapply pre_same; eauto.
        * pose proof (tr_http_error 404%N msg404 c) as E.
          destruct (http_error 404 msg404 c) as [c' p]. cbn [fst] in E. destruct p; cbn [post_a].
          -- apply (pre_P live). eapply pre_same; eauto.
          -- rewrite mon_logc. apply P_abort. apply (pre_P live). eapply pre_same; eauto.
  Qed.

  Lemma handler_mon : forall h c,
    LiveAt i (mon_of c) -> post_a (ref_handler k i h c).
  Proof.
    intros h c HL. unfold ref_handler.
    assert (Hpre : pre_a true (logc (EEnter i) c)).
    { cbn [pre_a]. rewrite mon_logc. rewrite HL. cbn. rewrite Z.eqb_refl. reflexivity. }
    pose proof (acts_mon (body_of h) true _ Hpre) as H.
    destruct (ref_acts k i (body_of h) true (logc (EEnter i) c)) as [[l' c']|[l' c']| |]; cbn in H; auto.
    - destruct l'; cbn [post_a]; rewrite mon_logc; cbn [mstep]; exact H.
    - destruct (recovers h).
      + pose proof (tr_http_error 500%N msg500
                      (logc (ERecovered i (r_wrote (rc (c_w c'))) (r_code (rc (c_w c')))) c')) as E.
        destruct (http_error 500 msg500 (logc (ERecovered i (r_wrote (rc (c_w c'))) (r_code (rc (c_w c')))) c'))
          as [c2 p].
        cbn [fst] in E.
        assert (HP : P i (mon_of c2)).
        { rewrite (mon_same_tr _ _ E). rewrite mon_logc. apply P_rec. exact H. }
        destruct p; cbn [post_a].
        * rewrite mon_logc. cbn [mstep]. exact HP.
        * rewrite mon_logc. cbn [mstep]. rewrite mon_logc. apply P_abort. exact HP.
      + cbn [post_a]. rewrite mon_logc. cbn [mstep]. exact H.
  Qed.
End Acts.

Lemma seq_mon : forall hs i c, LiveAt i (mon_of c) -> post_k i (ref_seq i hs c).
Proof.
  induction hs as [|h rest IH]; intros i c HL.
  - cbn. rewrite HL. repeat split; cbn; auto. lia.
  - cbn [ref_seq].
    pose proof (handler_mon (ref_seq (i + 1) rest) i (fun c0 H0 => IH (i + 1) c0 H0) h c HL) as H.
    destruct (ref_handler (ref_seq (i + 1) rest) i h c) as [[l' c']|[l' c']| |]; cbn in H; cbn; auto.
    + destruct l'.
      * pose proof (IH (i + 1) c' H) as H2.
        destruct (ref_seq (i + 1) rest c'); cbn in *; auto; apply P_Q; apply Q_P; auto.
      * apply P_Q; auto.
    + apply P_Q; auto.
Qed.

Definition trace_of (o : outcome core) : list event :=
  match o with Done c | Panicked c => c_tr c | _ => [] end.

Theorem ref_mon_ok : forall hs path, mon_ok (trace_of (ref hs path)) = true.
Proof.
  intros hs path. unfold ref.
  assert (HL : LiveAt 0 (mon_of (init_core path))) by reflexivity.
  pose proof (seq_mon hs 0 (init_core path) HL) as H.
  destruct (ref_seq 0 hs (init_core path)); cbn in *; try reflexivity; destruct H as [H _]; exact H.
Qed.

(* ------------------------------------------------------------------ what acceptance means *)
Fixpoint zseq (a : Z) (k : nat) : list Z :=
  match k with O => [] | S k' => a :: zseq (a + 1) k' end.

Lemma ok_sticky : forall t m, okk m = false -> okk (mrun t m) = false.
Proof.
  induction t as [|e t IH]; intros m H; cbn; auto.
  apply IH. destruct e; cbn; auto; rewrite H; reflexivity.
Qed.

Lemma mrun_cons : forall e t m, mrun (e :: t) m = mrun t (mstep m e).
Proof. reflexivity. Qed.

Lemma ok_head : forall e t m, okk (mrun (e :: t) m) = true -> okk (mstep m e) = true.
Proof.
  intros e t m H. destruct (okk (mstep m e)) eqn:E; auto.
  rewrite mrun_cons in H. rewrite (ok_sticky t _ E) in H. discriminate.
Qed.

Lemma dead_sticky : forall t m, dead m = true -> dead (mrun t m) = true.
Proof.
  induction t as [|e t IH]; intros m H; cbn; auto.
  apply IH. destruct e; cbn; auto.
Qed.

Lemma mrun_app : forall t1 t2 m, mrun (t1 ++ t2) m = mrun t2 (mrun t1 m).
Proof. intros. unfold mrun. apply fold_left_app. Qed.

Lemma enters_zseq : forall t m,
  okk (mrun t m) = true -> enters t = zseq (nx m) (length (enters t)).
Proof.
  induction t as [|e t IH]; intros m H; [reflexivity|].
  pose proof (ok_head e t m H) as Hh. rewrite mrun_cons in H.
  pose proof (IH _ H) as IH'.
  destruct e; cbn [enters]; try (cbn in IH'; exact IH').
  cbn [length zseq]. cbn in Hh.
  apply andb_prop in Hh. destruct Hh as [Hh _]. apply andb_prop in Hh. destruct Hh as [_ Hh].
  apply Z.eqb_eq in Hh. subst i. f_equal. cbn in IH'. exact IH'.
Qed.

Lemma dead_no_enter : forall t m,
  dead m = true -> okk (mrun t m) = true -> enters t = [].
Proof.
  induction t as [|e t IH]; intros m Hd H; [reflexivity|].
  pose proof (ok_head e t m H) as Hh. rewrite mrun_cons in H.
  assert (Hd' : dead (mstep m e) = true) by (destruct e; cbn; auto).
  destruct e; cbn [enters]; try (apply (IH _ Hd' H)).
  cbn in Hh. rewrite Hd in Hh. rewrite andb_false_r in Hh. discriminate.
Qed.

Definition ge_rel (a b : Z) : Prop := b <= a.

Lemma rets_sorted : forall t m,
  okk (mrun t m) = true ->
  Sorted ge_rel (match lastret m with Some l => l :: nextrets t | None => nextrets t end).
Proof.
  induction t as [|e t IH]; intros m H.
  - cbn. destruct (lastret m); repeat constructor.
  - pose proof (ok_head e t m H) as Hh. rewrite mrun_cons in H.
    pose proof (IH _ H) as IH'.
    destruct e; cbn [nextrets]; try (cbn in IH'; exact IH').
    cbn in IH'. cbn in Hh. destruct (lastret m) as [l|].
    + apply andb_prop in Hh. destruct Hh as [_ Hh]. apply Z.leb_le in Hh.
      constructor; [exact IH'|constructor; exact Hh].
    + exact IH'.
Qed.

(* the three list-level consequences *)
Theorem mon_enters : forall t, mon_ok t = true -> enters t = zseq 0 (length (enters t)).
Proof. intros t H. apply (enters_zseq t mon0 H). Qed.

Theorem mon_no_enter_after_stop : forall t t1 e t2,
  mon_ok t = true -> t = t1 ++ e :: t2 -> stops e = true -> enters t2 = [].
Proof.
  intros t t1 e t2 H E Hs. subst t. unfold mon_ok in H. rewrite mrun_app in H.
  rewrite mrun_cons in H.
  apply (dead_no_enter t2 (mstep (mrun t1 mon0) e)); auto.
  destruct e; cbn in Hs; try discriminate; reflexivity.
Qed.

Theorem mon_rets_sorted : forall t, mon_ok t = true -> StronglySorted ge_rel (nextrets t).
Proof.
  intros t H. apply Sorted_StronglySorted.
  - intros a b c Hab Hbc. unfold ge_rel in *. lia.
  - apply (rets_sorted t mon0 H).
Qed.

Lemma zseq_lt : forall k a x, In x (zseq a k) -> a <= x < a + Z.of_nat k.
Proof.
  induction k as [|k IH]; intros a x H; cbn in H; [contradiction|].
  destruct H as [H|H]; [subst; lia|]. apply IH in H. lia.
Qed.

Lemma zseq_sorted : forall k a, StronglySorted Z.lt (zseq a k).
Proof.
  induction k as [|k IH]; intros a; cbn; constructor; auto.
  apply Forall_forall. intros x H. apply zseq_lt in H. lia.
Qed.
