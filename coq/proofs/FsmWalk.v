(* C08_walk and C08_isrunning: the history of machine states is a walk in the table in which
   every step outside the table targets Error; plus the projection of runner runs onto machine
   runs (so that the machine-level stream theorems apply to every runner). *)
From Coq Require Import List NArith Bool Lia.
From GS Require Import LTS Fsm FsmTable FsmRunners FsmBase.
Import ListNotations.

Definition op_fine (o : op) : bool := match o with OSet to => st_eqb to Error | _ => true end.

Lemma last_cons {A} (x : A) l a : last (x :: l) a = last l x.
Proof.
  revert x a; induction l as [|y t IH]; intros x a; [reflexivity|].
  change (last (y :: t) a = last (y :: t) x). now rewrite !IH.
Qed.

Lemma walk_app c a l b :
  walk_okb c a (l ++ [b]) = walk_okb c a l && (allowedb c (last l a) b || st_eqb b Error).
Proof.
  revert a; induction l as [|x t IH]; intros a.
  - cbn. now rewrite andb_true_r.
  - cbn [app walk_okb]. rewrite IH, last_cons, andb_assoc. reflexivity.
Qed.

Lemma op_result_fine cfg c o to :
  op_fine o = true -> op_result cfg c o = Some to -> allowedb cfg c to || st_eqb to Error = true.
Proof.
  intros Hf H. destruct o as [t|f t|t]; cbn in H.
  - destruct (allowedb cfg c t) eqn:E; inversion H; subst. now rewrite E.
  - destruct (st_eqb c f); cbn in H; [|discriminate].
    destruct (allowedb cfg c t) eqn:E; inversion H; subst. now rewrite E.
  - destruct (has_state cfg t); inversion H; subst. cbn in Hf. rewrite Hf. apply orb_true_r.
Qed.

Definition walk_inv (cfg : tcfg) (s : state) : Prop :=
  walk_okb cfg New (hist s) = true /\ cur s = last (hist s) New.

Lemma walk_init cfg : walk_inv cfg init.
Proof. split; reflexivity. Qed.

Lemma walk_step cfg s l s' :
  walk_inv cfg s -> (forall o ok, l = LOp o ok -> op_fine o = true) ->
  step cfg s l = Some s' -> walk_inv cfg s'.
Proof.
  intros [Hw Hc] Hf H. destruct l as [o ok| | | | | | | | | | | | | |];
    try (apply step_nonop_cur in H; [|intros; discriminate]; destruct H as [E1 E2];
         unfold walk_inv; rewrite E1, E2; now split).
  unfold step in H. cbn [stepx] in H. destruct (is_nil (pend s)); [|discriminate].
  destruct (op_result cfg (cur s) o) as [to|] eqn:E.
  - destruct ok; [|discriminate]. inversion H; subst; clear H. unfold walk_inv; cbn [hist cur].
    split.
    + rewrite walk_app, Hw, <- Hc. cbn [andb].
      eapply op_result_fine; [eapply Hf; reflexivity|exact E].
    + symmetry. apply last_last.
  - destruct ok; [discriminate|]. inversion H; subst. now split.
Qed.

(* every machine run whose SetState calls all target Error *)
Lemma machine_walk cfg ls s :
  (forall o ok, In (LOp o ok) ls -> op_fine o = true) ->
  run (step cfg) init ls = Some s -> walk_inv cfg s.
Proof.
  revert s. induction ls as [|l ls IH] using rev_ind; intros s Hf Hr.
  - inversion Hr; subst. apply walk_init.
  - rewrite run_app in Hr. destruct (run (step cfg) init ls) as [s1|] eqn:E; [|discriminate].
    cbn [run] in Hr. revert Hr. destruct (step cfg s1 l) as [s2|] eqn:E2; intros Hr; [|discriminate].
    inversion Hr; subst.
    apply (walk_step cfg s1 l s); [apply IH; [|reflexivity]| |exact E2].
    + intros o ok Hin. apply (Hf o ok). apply in_or_app. now left.
    + intros o ok ->. apply (Hf o ok). apply in_or_app. right. now left.
Qed.

(* IsRunning() is a single load compared with Running *)
Lemma isrunning_spec cfg s b s' :
  step cfg s (LIsRun b) = Some s' -> b = is_running (cur s) /\ s' = s.
Proof.
  unfold step. cbn [stepx]. unfold is_running. destruct (st_eqb (cur s) Running), b; cbn; intros H; inversion H; auto.
Qed.

Lemma isrunning_enabled cfg s : step cfg s (LIsRun (is_running (cur s))) = Some s.
Proof. unfold step. cbn [stepx]. unfold is_running. now destruct (st_eqb (cur s) Running). Qed.

Lemma getstate_spec cfg s v s' : step cfg s (LGet v) = Some s' -> v = cur s /\ s' = s.
Proof.
  unfold step. cbn [stepx]. destruct (st_eqb (cur s) v) eqn:E; intros H; inversion H; subst.
  apply st_eqb_eq in E. auto.
Qed.

(* ------------------------------------------------------------------ *)
(* runner products                                                      *)
Section Prod.
  Variable cfg : tcfg.
  Variables ctl cl : Type.
  Variable cstep : ctl -> cl -> st -> option (option op * (bool -> ctl)).
  Variable ctok : cl -> tokact.
  Hypothesis cops_fine : forall c l cu o k, cstep c l cu = Some (Some o, k) -> op_fine o = true.

  Notation rstep := (rstep cfg ctl cl cstep ctok).

  (* a product step is a machine step (with a fine op) or leaves the machine alone *)
  Lemma rstep_machine (s s' : rstate ctl) (l : rlabel cl) :
    rstep s l = Some s' ->
    rm s' = rm s \/
    exists ml, step cfg (rm s) ml = Some (rm s') /\ (forall o ok, ml = LOp o ok -> op_fine o = true).
  Proof.
    intros H. destruct l as [ml|c]; cbn [FsmRunners.rstep] in H.
    - right. exists ml. destruct ml; try discriminate;
        match type of H with
        | context [step cfg (rm s) ?lab] =>
          destruct (step cfg (rm s) lab) as [m'|] eqn:E; [|discriminate];
          inversion H; subst; cbn; split; [reflexivity|intros; discriminate]
        end.
    - destruct (cstep (rc s) c (cur (rm s))) as [[oo k]|] eqn:Ec; [|discriminate].
      destruct (tok_apply (ctok c) (rtokA s) (rtokB s)) as [[ta tb]|]; [|discriminate].
      destruct oo as [o|].
      + right. exists (LOp o (op_okb cfg (cur (rm s)) o)).
        destruct (step cfg (rm s) (LOp o (op_okb cfg (cur (rm s)) o))) as [m'|] eqn:E; [|discriminate].
        inversion H; subst; cbn. split; [reflexivity|].
        intros o' ok' E'. inversion E'; subst. eapply cops_fine; exact Ec.
      + left. inversion H; subst; reflexivity.
  Qed.

  Lemma product_walk c0 ls s :
    run rstep (rinit ctl c0) ls = Some s -> walk_inv cfg (rm s).
  Proof.
    intros Hr.
    apply (run_inv _ _ rstep (fun s => walk_inv cfg (rm s))) with (ls := ls) (s := rinit ctl c0);
      [|apply walk_init|exact Hr].
    intros a l b Ha Hs. destruct (rstep_machine a b l Hs) as [E|(ml & Hm & Hf)].
    - now rewrite E.
    - eapply walk_step; eauto.
  Qed.

  (* the machine component of a reachable product state is a reachable machine state *)
  Lemma product_projects c0 ls s :
    run rstep (rinit ctl c0) ls = Some s ->
    exists ls', run (step cfg) init ls' = Some (rm s).
  Proof.
    intros Hr.
    apply (run_inv _ _ rstep (fun s => exists ls', run (step cfg) init ls' = Some (rm s)))
      with (ls := ls) (s := rinit ctl c0); [|exists []; reflexivity|exact Hr].
    intros a l b (la & Ha) Hs. destruct (rstep_machine a b l Hs) as [E|(ml & Hm & _)].
    - exists la. now rewrite E.
    - exists (la ++ [ml]). rewrite run_app, Ha. cbn [run]. now rewrite Hm.
  Qed.
End Prod.

Ltac solve_ops :=
  intros c l cu o k H; destruct l; cbn in H;
  repeat match type of H with
         | context [match ?x with _ => _ end] => destruct x; try discriminate
         end;
  unfold ret in H; inversion H; reflexivity.

Lemma composite_ops_fine : forall c l cu o k, composite_step c l cu = Some (Some o, k) -> op_fine o = true.
Proof. unfold composite_step. solve_ops. Qed.
Lemma http_ops_fine : forall c l cu o k, http_step c l cu = Some (Some o, k) -> op_fine o = true.
Proof. solve_ops. Qed.
Lemma cluster_ops_fine : forall c l cu o k, cluster_step c l cu = Some (Some o, k) -> op_fine o = true.
Proof. solve_ops. Qed.
