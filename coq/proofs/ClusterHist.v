(* A statement over the history of a schedule: when the factory is called for an id, every instance
   created earlier for the same id has already returned from Stop(). *)
From Coq Require Import List Arith NArith Bool Lia Permutation.
From GS Require Import LTS Cluster ClusterLTS ClusterPlan ClusterFix ClusterFixPlan ClusterRun ClusterInv ClusterStep
     ClusterMain ClusterRound ClusterRoundB ClusterRoundC.
Import ListNotations.
Open Scope N_scope.

Definition insts_of (s : state) : list inst := s_live s ++ s_stopping s.

(* the helper transitions do not touch the instance bookkeeping *)
Lemma insts_finish s p : insts_of (finish_round s p) = insts_of s. Proof. reflexivity. Qed.
Lemma insts_next s p ts : insts_of (next_start s p ts) = insts_of s. Proof. destruct ts; reflexivity. Qed.
Lemma insts_after s p ts tp : insts_of (after_stops s p ts tp) = insts_of s.
Proof. unfold after_stops. destruct ts; [reflexivity|]. destruct (s_delay s); reflexivity. Qed.
Lemma insts_begin s p : insts_of (begin_round s p) = insts_of s.
Proof.
  unfold begin_round. destruct (pending_actions p) as [ts tp]. destruct (stop_insts p tp); [|reflexivity].
  destruct tp; [apply insts_next|apply insts_after].
Qed.

Lemma nodup_fst_inj {A B} (l : list (A * B)) x y :
  NoDup (map fst l) -> In x l -> In y l -> fst x = fst y -> x = y.
Proof.
  induction l as [|z l IH]; intros Hnd Hx Hy E; [destruct Hx|].
  cbn [map] in Hnd. inversion Hnd as [|? ? Hn Hnd']; subst.
  destruct Hx as [->|Hx], Hy as [->|Hy]; [reflexivity| | |now apply IH].
  - exfalso. apply Hn. rewrite E. now apply in_map.
  - exfalso. apply Hn. rewrite <- E. now apply in_map.
Qed.

Lemma move_keeps i s x :
  NoDup (map fst (s_live s)) -> In x (insts_of s) -> In x (insts_of (move_to_stopping i s)).
Proof.
  intros Hnd Hin. unfold move_to_stopping. destruct (find_inst i (s_live s)) as [x0|] eqn:Ef; [|exact Hin].
  unfold insts_of in *. psimpl. apply find_some in Ef as [H0 E0]. apply N.eqb_eq in E0.
  apply in_app_or in Hin as [Hin|Hin]; apply in_or_app.
  - destruct (N.eq_dec (fst x) i) as [E|E].
    + right. left. apply (nodup_fst_inj (s_live s)); try assumption. congruence.
    + left. unfold remove_inst. apply filter_In. split; [exact Hin|]. now apply negb_true_iff, N.eqb_neq.
  - right. now right.
Qed.

Lemma drop_keeps i s x :
  In x (insts_of s) -> fst x <> i -> In x (insts_of (drop_stopping i s)).
Proof.
  intros Hin Hne. unfold insts_of, drop_stopping in *. psimpl. apply in_app_or in Hin as [Hin|Hin]; apply in_or_app;
    [now left|right]. unfold remove_inst. apply filter_In. split; [exact Hin|]. now apply negb_true_iff, N.eqb_neq.
Qed.

(* one step: an instance stays in the bookkeeping unless this very step is its StopRet *)
Lemma insts_step s l s' x :
  acct s -> step true s l = Some s' -> In x (insts_of s) -> l = LStopRet (fst x) \/ In x (insts_of s').
Proof.
  intros (Hnd & _ & _) Hs Hin. unfold lv in Hnd. destruct l; unfold step in Hs.
  - right. destruct (s_offer s); [discriminate|]. destruct (s_closed s); [discriminate|]. injection Hs as <-. exact Hin.
  - right. injection Hs as <-. exact Hin.
  - right. destruct (s_stopreq s); [|discriminate]. destruct (s_pc s); try discriminate; injection Hs as <-; exact Hin.
  - right. injection Hs as <-. exact Hin.
  - right. destruct (s_offer s); [discriminate|]. injection Hs as <-. exact Hin.
  - right. destruct (s_pc s); try discriminate. destruct (s_offer s); [|discriminate].
    destruct (cstate_eqb (s_fsm s) CRunning && fsm_allowed (s_fsm s) CReloading); [|injection Hs as <-; exact Hin].
    destruct (is_perm ord (keys (s_entries s))); [|discriminate]. injection Hs as <-. rewrite insts_begin. exact Hin.
  - right. destruct (s_pc s); try discriminate. destruct (s_cancel s || s_stopreq s || s_closed s); [|discriminate].
    injection Hs as <-. rewrite insts_begin. exact Hin.
  - right. destruct (s_pc s); try discriminate.
    + destruct (memN i tocall); [|discriminate]. injection Hs as <-. now apply move_keeps.
    + destruct ((i =? i0) && (negb (beh_eqb b BReady) || s_cancel s)); [|discriminate]. injection Hs as <-.
      now apply move_keeps.
  - destruct (N.eq_dec (fst x) i) as [E|E]; [left; now rewrite E|right].
    destruct (s_pc s); try discriminate.
    + destruct (memN i called); [|discriminate].
      destruct tocall, (removeN i called); injection Hs as <-; rewrite ?insts_after; now apply drop_keeps.
    + destruct (i =? i0); [|discriminate]. injection Hs as <-. rewrite insts_next.
      change (insts_of (add_failed k (drop_stopping i s))) with (insts_of (drop_stopping i s)). now apply drop_keeps.
  - right. destruct (s_pc s); try discriminate. injection Hs as <-. exact Hin.
  - right. destruct (s_pc s); try discriminate. destruct (s_cancel s); [|discriminate]. injection Hs as <-. exact Hin.
  - right. destruct (s_pc s); try discriminate. destruct (lookup k pend); [|discriminate].
    destruct (mem_id k ts && id_eqb (e_id e) k && (e_cfg e =? c) && (i =? s_next s)); [|discriminate].
    injection Hs as <-. unfold insts_of in *. psimpl. now right.
  - right. destruct (s_pc s); try discriminate. destruct (lookup k pend); [|discriminate].
    destruct (mem_id k ts && id_eqb (e_id e) k && (e_cfg e =? c)); [|discriminate].
    injection Hs as <-. rewrite insts_next. exact Hin.
  - right. destruct (memN i (s_unrun s)); [|discriminate]. injection Hs as <-. exact Hin.
  - right. destruct (s_pc s); try discriminate. destruct (beh_eqb b BReady); [|discriminate]. injection Hs as <-.
    rewrite insts_next. exact Hin.
  - right. destruct (s_pc s); try discriminate; destruct (n =? N.of_nat (count (s_entries s))); try discriminate;
      injection Hs as <-; exact Hin.
  - right. destruct (cstate_eqb c (s_fsm s)); [|discriminate]. injection Hs as <-. exact Hin.
  - right. destruct (s_pc s); try discriminate. injection Hs as <-. exact Hin.
Qed.

Lemma insts_persist t : forall s0 s1 x,
  acct s0 -> run (step true) s0 t = Some s1 -> In x (insts_of s0) ->
  In (LStopRet (fst x)) t \/ In x (insts_of s1).
Proof.
  induction t as [|l t IH]; intros s0 s1 x Ha Hr Hin.
  - injection Hr as <-. now right.
  - cbn [run] in Hr. destruct (step true s0 l) as [s0'|] eqn:Es; [|discriminate].
    destruct (insts_step s0 l s0' x Ha Es Hin) as [->|Hin']; [left; now left|].
    destruct (IH s0' s1 x (acct_step _ _ _ Ha Es) Hr Hin') as [H|H]; [left; now right|now right].
Qed.

Lemma factory_adds s k c i b s' : step true s (LFactory k c i b) = Some s' -> In (i, (k, c)) (insts_of s').
Proof.
  unfold step. destruct (s_pc s); try discriminate. destruct (lookup k pend); [|discriminate].
  destruct (mem_id k ts && id_eqb (e_id e) k && (e_cfg e =? c) && (i =? s_next s)); [|discriminate].
  intros [= <-]. unfold insts_of. psimpl. now left.
Qed.

Lemma hist_insts ls : forall s0 s1 k c j b,
  acct s0 -> run (step true) s0 ls = Some s1 -> In (LFactory k c j b) ls ->
  In (LStopRet j) ls \/ In (j, (k, c)) (insts_of s1).
Proof.
  induction ls as [|l t IH]; intros s0 s1 k c j b Ha Hr Hin; [destruct Hin|].
  cbn [run] in Hr. destruct (step true s0 l) as [s0'|] eqn:Es; [|discriminate].
  pose proof (acct_step _ _ _ Ha Es) as Ha'.
  destruct Hin as [->|Hin].
  - pose proof (factory_adds _ _ _ _ _ _ Es) as Hadd.
    destruct (insts_persist t s0' s1 _ Ha' Hr Hadd) as [H|H]; [left; now right|now right].
  - destruct (IH s0' s1 k c j b Ha' Hr Hin) as [H|H]; [left; now right|now right].
Qed.

(* when the factory is called for id k nothing with id k is running or stopping *)
Lemma factory_no_same_id s k c i b s' :
  RInv s -> step true s (LFactory k c i b) = Some s' ->
  forall j c', ~ In (j, (k, c')) (insts_of s).
Proof.
  intros ((_ & _ & Hpc) & HR) Hs j c' Hin. unfold step in Hs.
  destruct (s_pc s) eqn:Epc; try discriminate. destruct (lookup k pend) as [e|] eqn:El; [|discriminate].
  destruct (mem_id k ts && id_eqb (e_id e) k && (e_cfg e =? c) && (i =? s_next s)) eqn:Ec; [|discriminate].
  apply andb_prop in Ec as [Ec _]. apply andb_prop in Ec as [Ec _]. apply andb_prop in Ec as [Ek _]. apply mem_id_in in Ek.
  unfold acct_pc in Hpc. rewrite Epc in Hpc. destruct Hpc as (Hk & Hp & Hsp & Hok & Hsh).
  specialize (HR Hsh). unfold round_pc, mid in HR. rewrite Epc in HR. destruct HR as (M1 & _ & _ & _ & M7).
  unfold sp in Hsp. apply map_eq_nil in Hsp. unfold insts_of in Hin. rewrite Hsp, app_nil_r in Hin.
  destruct (M7 j k c' Hin) as (q & e1 & He1 & Hr1 & Hi1 & _ & [Hn|[]]).
  destruct (M1 q e1 He1 Hn) as [_ Hq]. rewrite Hi1 in Hq. subst q.
  destruct (Hok k Ek) as (e2 & He2 & Hr2 & _). rewrite He1 in He2. injection He2 as <-. congruence.
Qed.

Theorem old_stopped_before_replacement d ls1 k c i b ls2 s :
  run (step true) (init d) (ls1 ++ LFactory k c i b :: ls2) = Some s ->
  forall c' j b', In (LFactory k c' j b') ls1 -> In (LStopRet j) ls1.
Proof.
  intros Hr c' j b' Hin. rewrite run_app in Hr.
  destruct (run (step true) (init d) ls1) as [s1|] eqn:E1; [|discriminate].
  cbn [run] in Hr. destruct (step true s1 (LFactory k c i b)) as [s1'|] eqn:Es; [|discriminate].
  destruct (hist_insts ls1 (init d) s1 k c' j b' (acct_init d) E1 Hin) as [H|H]; [exact H|].
  exfalso. exact (factory_no_same_id s1 k c i b s1' (RInv_reachable d ls1 s1 E1) Es j c' H).
Qed.
