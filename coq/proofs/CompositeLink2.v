(* Links between the liveness-flavoured monitor clauses (CompositeMon.v) and the model.

   c09-clause21 ("an API call is still blocked at final quiescence") and c10-clause2 ("a child failed
   while Running and Run() never returned") are FALSE of arbitrary model traces: the model's traces are
   prefix closed, so every call is "blocked" in the prefix that ends right after it (witnesses
   below).  They are statements about COMPLETE runs.  With the termination measure they become
   theorems about every MAXIMAL schedule - one whose final state allows no system step and no callback
   return, which is what the harness' final quiescence is: proved here for the repaired composite and
   lifecycle and children whose Run returns when asked to (good_children).

   c11-clause30 ("at an observation with no Reload() in flight the Runner holds the newest
   configuration its callback returned") is proved of every schedule of every variant. *)
From Coq Require Import List NArith Bool Arith Lia.
From GS Require Import Errs LTS Composite CompositeMon CompositeBase CompositeC10 CompositeC11
     CompositeLocks CompositeLive CompositeC09 CompositeProgress CompositeProto CompositeMeasure
     CompositeMonLink CompositeTrace CompositeC10c.
Import ListNotations.

(* ------------------------------------------------------------------ evidence of a failing exit *)

Definition kfail (k : kid) : nat :=
  match k_pc k with KExited (Some x) => if is_cancel x then 0 else 1 | _ => 0 end.
Arguments kfail : simpl never.

Definition F_rel (tr : list event) (s : state) : Prop :=
  existsb is_fail_exit tr = true -> fail_sent s = true \/ 1 <= sum_by kfail (kids s).

Lemma sum_spawn_kfail o g es : sum_by kfail (spawn_kids o g es) = 0.
Proof. unfold spawn_kids. induction es as [|e l IH]; cbn; auto. Qed.

Lemma F_rel_step P tr s l s' : F_rel tr s -> step P s l = Some s' -> F_rel (ext tr l) s'.
Proof.
  intros H Hst. unfold F_rel, ext in *.
  open_step Hst; cbn [obs]; rewrite ?existsb_snoc; cbn; goal_cases; sum_facts;
    rewrite ?orb_false_r; try exact H.
  all: rewrite ?sum_spawn_kfail, ?Nat.add_0_r; try exact H.
  all: try (left; reflexivity).
  all: unfold kfail at 1 3 in Hc; cbn in Hc;
    repeat match goal with Hp : k_pc ?x = _ |- _ => rewrite Hp in Hc end; cbn in Hc.
  all: try (rewrite orb_false_r in *).
  all: try (destruct (H ltac:(assumption)) as [Hx|Hx]; [left; exact Hx|right; lia]).
  - destruct e as [x|]; cbn in *; [destruct (is_cancel x) eqn:Ei; rewrite ?Ei in *; cbn in *|].
    + rewrite orb_false_r in *. destruct (H ltac:(assumption)) as [Hx|Hx]; [left; exact Hx|right; lia].
    + right. lia.
    + rewrite orb_false_r in *. destruct (H ltac:(assumption)) as [Hx|Hx]; [left; exact Hx|right; lia].
  - rewrite E2 in Hc. destruct (H ltac:(assumption)) as [Hx|Hx]; [left; exact Hx|right; lia].
Qed.

Lemma sum_pos_nth {A} (f : A -> nat) l : 1 <= sum_by f l -> exists i x, nth_error l i = Some x /\ 1 <= f x.
Proof.
  induction l as [|y l IH]; cbn; [lia|]. intros H.
  destruct (f y) eqn:E.
  - destruct (IH ltac:(lia)) as (i & x & Hi & Hx). exists (S i), x. auto.
  - exists 0, y. split; [reflexivity|lia].
Qed.

(* in a state that cannot move, a failing exit in the trace has been reported *)
Lemma stuck_fail_sent P tr s : F_rel tr s -> existsb is_fail_exit tr = true -> ~ prog P s -> fail_sent s = true.
Proof.
  intros HF Hex Hstuck. destruct (HF Hex) as [H|H]; [exact H|exfalso].
  apply sum_pos_nth in H as (i & k & Hk & Hf). unfold kfail in Hf.
  destruct (k_pc k) as [| |e|] eqn:Ep; try lia.
  apply Hstuck. eapply kid_exited_prog; eassumption.
Qed.

(* ------------------------------------------------------------------ evidence of a cancellation *)

Definition is_cancel_ev (e : event) : bool := match e with ECancel => true | _ => false end.

Definition C_rel (tr : list event) (s : state) : Prop := existsb is_cancel_ev tr = true -> pctx s = true.

Lemma C_rel_step P tr s l s' : C_rel tr s -> step P s l = Some s' -> C_rel (ext tr l) s'.
Proof.
  intros H Hst. unfold C_rel, ext in *.
  open_step Hst; cbn [obs]; rewrite ?existsb_snoc; cbn; goal_cases; rewrite ?orb_false_r; try exact H.
  all: try (intros _; reflexivity).
Qed.

(* ------------------------------------------------------------------ the newest callback value *)

Definition cur_of (tr : list event) : option config :=
  fold_left (fun a e => match e with ECallback (CbSome c) => Some c | _ => a end) tr None.

Definition L_rel (tr : list event) (s : state) : Prop := cur_of tr = last_cb s.

Lemma cur_of_snoc tr e :
  cur_of (tr ++ [e]) = match e with ECallback (CbSome c) => Some c | _ => cur_of tr end.
Proof. unfold cur_of. rewrite fold_left_app. reflexivity. Qed.

Lemma L_rel_step P tr s l s' : L_rel tr s -> step P s l = Some s' -> L_rel (ext tr l) s'.
Proof.
  intros H Hst. unfold L_rel, ext in *.
  open_step Hst; cbn [obs]; rewrite ?cur_of_snoc; cbn; goal_cases; try exact H; try reflexivity.
Qed.

(* ------------------------------------------------------------------ all relations, every schedule *)

Record T_all (tr : list event) (s : state) : Prop := {
  t_reload : T_reload tr s; t_stop : T_stop tr s; t_run : T_run tr s;
  t_fail : F_rel tr s; t_cancel : C_rel tr s; t_cur : L_rel tr s }.

Theorem trace_state P ls s : run (step P) init ls = Some s -> T_all (obs_trace obs ls) s.
Proof.
  apply (trace_inv_init P T_all).
  - constructor; try (split; reflexivity); try (intros H; discriminate H).
  - intros tr s0 l s1 _ [H1 H2 H3 H4 H5 H6] Hst. constructor.
    + eapply T_reload_step; eassumption.
    + eapply T_stop_step; eassumption.
    + eapply T_run_step; eassumption.
    + eapply F_rel_step; eassumption.
    + eapply C_rel_step; eassumption.
    + eapply L_rel_step; eassumption.
Qed.

(* ------------------------------------------------------------------ c09-clause21 *)

(* API calls in the trace that have not returned in it *)
Definition open_calls (op : apiop) (tr : list event) : nat :=
  count_ev (is_call op) tr - count_ev (is_ret op) tr.
Definition blocked_of (tr : list event) : nat :=
  open_calls OpRun tr + open_calls OpStop tr + open_calls OpReload tr.

Lemma count_full f l : (forall k r, nth_error l k = Some r -> f (r_pc r) = true) -> count_r f l = length l.
Proof.
  induction l as [|y l IH]; intros H; cbn; [reflexivity|].
  rewrite (H 0 y eq_refl). cbn. f_equal. apply IH. intros k r Hk. exact (H (S k) r Hk).
Qed.

Lemma count_full_inv f l : count_r f l = length l -> forall k r, nth_error l k = Some r -> f (r_pc r) = true.
Proof.
  induction l as [|y l IH]; intros H k r Hk; [destruct k; discriminate Hk|].
  cbn in H. assert (Hle : count_r f l <= length l).
  { clear. induction l as [|z l IH]; cbn; [lia|]. destruct (f (r_pc z)); cbn; lia. }
  destruct (f (r_pc y)) eqn:Ey; cbn in H; [|lia].
  destruct k as [|k]; [injection Hk as <-; exact Ey|]. eapply IH; [lia|exact Hk].
Qed.

Lemma sum_sdone_full l : (forall k p, nth_error l k = Some p -> p = SDone) -> sum_by sdone l = length l.
Proof.
  induction l as [|y l IH]; intros H; cbn; [reflexivity|].
  rewrite (H 0 y eq_refl). cbn. f_equal. apply IH. intros k r Hk. exact (H (S k) r Hk).
Qed.

(* the final state of a maximal schedule in which Run() was called *)
Lemma maximal_final P s :
  fix_c09 P = true -> fix_lc P = true -> good_pool P -> good_children P ->
  greach P s -> runt s <> TIdle -> ~ prog P s ->
  (forall k p, nth_error (stoppers s) k = Some p -> p = SDone) /\
  (forall k r, nth_error (reloaders s) k = Some r -> r_pc r = RDone) /\
  (runt s = TSelect \/ exists r, runt s = TDone r).
Proof.
  intros Hf Hlc Hp Hg Hr Hidle Hstuck.
  assert (Hnp : ~ pending s) by (intros Hpe; apply Hstuck; apply no_stuck_state_lc; auto).
  split; [|split].
  - intros k p Hn. destruct p; [| |reflexivity]; exfalso; apply Hnp; right; left.
    + exists k, SCalled. split; [exact Hn|discriminate].
    + exists k, SWaiting. split; [exact Hn|discriminate].
  - intros k r Hn. destruct (r_pc r) eqn:E; try reflexivity; exfalso; apply Hnp; right; right;
      exists k, r; (split; [exact Hn|rewrite E; discriminate]).
  - destruct (busy (runt s)) eqn:Eb; [exfalso; apply Hnp; now left|].
    destruct (runt s) eqn:Et; try discriminate Eb; [now elim Hidle|now left|right; eauto].
Qed.

(* ... and if the teardown was requested in the trace (Stop(), cancel, or a failing child), Run()
   has returned *)
Lemma maximal_final_returned P ls s :
  fix_c09 P = true -> fix_lc P = true -> good_pool P -> good_children P ->
  Forall (good_label P) ls -> run (step P) init ls = Some s -> ~ prog P s ->
  existsb (is_call OpRun) (obs_trace obs ls) = true ->
  existsb is_stop_or_cancel (obs_trace obs ls) || existsb is_fail_exit (obs_trace obs ls) = true ->
  all_returned s.
Proof.
  intros Hf Hlc Hp Hg Hl Hrun Hstuck Hcall Htd.
  assert (Hr : greach P s) by (exists ls; auto).
  pose proof (trace_state P ls s Hrun) as [[R1 R2] [S1 S2] [U1 U2] HF HC HL].
  set (tr := obs_trace obs ls) in *.
  assert (Hidle : runt s <> TIdle).
  { apply existsb_count in Hcall. rewrite U1 in Hcall. intros E. rewrite E in Hcall. cbn in Hcall. lia. }
  destruct (maximal_final P s Hf Hlc Hp Hg Hr Hidle Hstuck) as (Hs & Hrl & Ht).
  split; [|split; assumption].
  destruct Ht as [Ht|Ht]; [exfalso|exact Ht].
  pose proof (Gall_greach P s Hf Hp Hr) as G.
  apply orb_true_iff in Htd as [Htd|Htd].
  - (* Stop() or cancel in the trace *)
    assert (Hsc : existsb (is_call OpStop) tr = true \/ existsb is_cancel_ev tr = true).
    { clear - Htd. induction tr as [|e t IH]; cbn in *; [discriminate|].
      apply orb_true_iff in Htd as [Hd|Hd].
      - destruct e as [o k| | | | | | | | | |]; try discriminate Hd; [destruct o; try discriminate Hd; left; reflexivity|right; reflexivity].
      - destruct (IH Hd) as [H|H]; [left|right]; rewrite H; apply orb_true_r. }
    destruct Hsc as [Hsc|Hsc].
    + apply existsb_count in Hsc. rewrite S1 in Hsc.
      destruct (stoppers s) as [|p t] eqn:Es; [cbn in Hsc; lia|].
      pose proof (Hs 0 p eq_refl) as ->.
      assert (Hn : nth_error (stoppers s) 0 = Some SDone) by (rewrite Es; reflexivity).
      assert (Hst : lc_stopped s = true) by (eapply (g_sig P s G 0 SDone); [exact Hn|discriminate]).
      apply Hstuck. exists LSelStop. cbn [step]. rewrite Ht, Hst. eauto.
    + pose proof (J_ctx_reach P s (greach_reach _ _ Hr)) as HJ. unfold J_ctx in HJ. rewrite Ht in HJ.
      apply Hstuck. exists LSelCtx. cbn [step]. rewrite Ht, (HJ (HC Hsc)). eauto.
  - (* a failing exit in the trace *)
    pose proof (stuck_fail_sent P tr s HF Htd Hstuck) as Hfs.
    destruct (g_c10 P s G) as (_ & _ & (_ & _ & H2) & H3 & _).
    destruct (H2 Hfs) as [Hq|Hk].
    + destruct (errq s) as [|e q] eqn:Eq; [now elim Hq|].
      destruct (select_takes_failure P s e q Ht Eq) as (s' & Hs' & _).
      apply Hstuck. exists LSelErr, s'. auto.
    + destruct (took s) as [e|] eqn:Ek; [|now elim Hk].
      destruct (H3 _ Ek) as (_ & _ & Hlate). rewrite Ht in Hlate. discriminate Hlate.
Qed.

(* c09-clause21 on every MAXIMAL schedule: if Run() was called and the teardown was requested in the
   trace, no API call of the trace is left without its return *)
Theorem c09_clause21_link P ls s :
  fix_c09 P = true -> fix_lc P = true -> good_pool P -> good_children P ->
  Forall (good_label P) ls -> run (step P) init ls = Some s -> ~ prog P s ->
  existsb (is_call OpRun) (obs_trace obs ls) = true ->
  existsb is_stop_or_cancel (obs_trace obs ls) || existsb is_fail_exit (obs_trace obs ls) = true ->
  blocked_of (obs_trace obs ls) = 0.
Proof.
  intros Hf Hlc Hp Hg Hl Hrun Hstuck Hcall Htd.
  destruct (maximal_final_returned P ls s Hf Hlc Hp Hg Hl Hrun Hstuck Hcall Htd) as ((r & Hd) & Hs & Hrl).
  pose proof (trace_state P ls s Hrun) as [[R1 R2] [S1 S2] [U1 U2] _ _ _].
  unfold blocked_of, open_calls. rewrite R1, R2, S1, S2, U1, U2, Hd.
  rewrite (sum_sdone_full _ Hs).
  rewrite (count_full rdone (reloaders s)); [cbn; lia|].
  intros k x Hk. now rewrite (Hrl k x Hk).
Qed.


(* ------------------------------------------------------------------ c10-clause2 *)

Lemma split_first_some f tr : forall pre e post,
  split_first f tr = (pre, Some (e, post)) -> tr = pre ++ e :: post /\ f e = true.
Proof.
  induction tr as [|x t IH]; intros pre e post H; cbn in H; [discriminate H|].
  destruct (f x) eqn:Ex.
  - injection H as <- <- <-. auto.
  - destruct (split_first f t) as [a b] eqn:Et. injection H as <- ->.
    destruct (IH _ _ _ eq_refl) as [-> Hf]. auto.
Qed.

Lemma run_result_none tr : run_result tr = None -> existsb is_run_ret tr = false.
Proof.
  induction tr as [|x t IH]; cbn; [reflexivity|].
  destruct x as [|o ? ?| | | | | | | | |]; cbn; auto. destruct o; cbn; auto; discriminate.
Qed.

Lemma is_run_ret_count tr : existsb is_run_ret tr = true <-> 1 <= count_ev (is_ret OpRun) tr.
Proof.
  rewrite <- existsb_count.
  assert (H : existsb is_run_ret tr = existsb (is_ret OpRun) tr); [|rewrite H; tauto].
  induction tr as [|x t IH]; cbn; [reflexivity|]. rewrite IH. f_equal.
Qed.

(* a maximal schedule in which a child failed: Run() has returned in the trace *)
Lemma maximal_failed_run_ret P ls s :
  fix_c09 P = true -> fix_lc P = true -> good_pool P -> good_children P ->
  Forall (good_label P) ls -> run (step P) init ls = Some s -> ~ prog P s ->
  existsb is_fail_exit (obs_trace obs ls) = true ->
  existsb is_run_ret (obs_trace obs ls) = true.
Proof.
  intros Hf Hlc Hp Hg Hl Hrun Hstuck Hfail.
  assert (Hr : greach P s) by (exists ls; auto).
  pose proof (trace_state P ls s Hrun) as [_ _ [U1 U2] HF _ _].
  pose proof (stuck_fail_sent P _ s HF Hfail Hstuck) as Hfs.
  destruct (failed_child_run_returns P s Hf Hlc Hp Hg Hr (or_introl Hfs) Hstuck) as (_ & (r & Hd) & _).
  apply is_run_ret_count. rewrite U2, Hd. cbn. lia.
Qed.

(* c10-clause2 on every MAXIMAL schedule: the monitor never answers "a child failed while Running
   and Run() never returned" *)
Lemma c10_base_not_2 P ls s :
  fix_c09 P = true -> fix_lc P = true -> good_pool P -> good_children P ->
  Forall (good_label P) ls -> run (step P) init ls = Some s -> ~ prog P s ->
  C10_base P (obs_trace obs ls) <> 2%N.
Proof.
  intros Hf Hlc Hp Hg Hl Hrun Hstuck. unfold C10_base.
  destruct (split_first is_fail_exit (obs_trace obs ls)) as [pre hit] eqn:Es.
  destruct hit as [[e post]|].
  - destruct (split_first_some _ _ _ _ _ Es) as [Htr He].
    destruct (existsb (is_state FRunning) pre && negb (existsb is_stop_or_cancel pre) && negb (existsb is_run_ret pre)) eqn:Ea;
      cbn; [|discriminate].
    apply andb_true_iff in Ea as [_ Hnr]. apply negb_true_iff in Hnr.
    destruct (run_result post) as [r|] eqn:Er.
    + repeat match goal with |- (if ?b then _ else _) <> _ => destruct b; try discriminate end.
    + exfalso. apply run_result_none in Er.
      assert (Hfail : existsb is_fail_exit (obs_trace obs ls) = true).
      { rewrite Htr, existsb_app. cbn. rewrite He. cbn. apply orb_true_r. }
      pose proof (maximal_failed_run_ret P ls s Hf Hlc Hp Hg Hl Hrun Hstuck Hfail) as Hret.
      rewrite Htr, existsb_app in Hret. cbn in Hret. rewrite Hnr, Er in Hret.
      destruct e; cbn in He; try discriminate He. cbn in Hret. discriminate Hret.
  - destruct (run_result (obs_trace obs ls)) as [r|]; [|discriminate].
    destruct (rc_failed r); discriminate.
Qed.

Theorem c10_clause2_link P ls s :
  fix_c09 P = true -> fix_lc P = true -> good_pool P -> good_children P ->
  Forall (good_label P) ls -> run (step P) init ls = Some s -> ~ prog P s ->
  C10_holdsb P (obs_trace obs ls) <> 2%N.
Proof.
  intros Hf Hlc Hp Hg Hl Hrun Hstuck Hv.
  apply (c10_base_not_2 P ls s Hf Hlc Hp Hg Hl Hrun Hstuck).
  apply c10_holdsb_base; [discriminate|discriminate|exact Hv].
Qed.

(* ------------------------------------------------------------------ c11-clause30 *)

Lemma count_none f l : (forall k r, nth_error l k = Some r -> f (r_pc r) = false) -> count_r f l = 0.
Proof.
  induction l as [|y l IH]; intros H; cbn; [reflexivity|].
  rewrite (H 0 y eq_refl). cbn. apply IH. intros k r Hk. exact (H (S k) r Hk).
Qed.

(* c11-clause30 (the driver's check on the Held observable), every schedule of every variant: at any
   point of a trace at which every Reload() call has returned, the configuration the Runner holds is
   the newest value its callback returned (none if it never returned one) *)
Theorem c11_clause30_link P ls s :
  run (step P) init ls = Some s ->
  count_ev (is_call OpReload) (obs_trace obs ls) = count_ev (is_ret OpReload) (obs_trace obs ls) ->
  cfg s = cur_of (obs_trace obs ls).
Proof.
  intros Hrun Heq.
  pose proof (trace_state P ls s Hrun) as [[R1 R2] _ _ _ _ HL].
  assert (Hr : reach P s) by (now exists ls).
  destruct (base_reach P s Hr) as (_ & _ & (_ & N2) & _).
  unfold L_rel in HL. rewrite HL. apply N2.
  rewrite R1, R2 in Heq. symmetry in Heq.
  apply count_none. intros k r Hk.
  pose proof (count_full_inv rdone _ Heq k r Hk) as Hd.
  destruct (r_pc r); try discriminate Hd. reflexivity.
Qed.

(* ------------------------------------------------------------------ the monitor C09_holdsb never answers 21 *)

Lemma c09_walk_values P tr : forall pre cur calm,
  c09_walk P pre tr cur calm = 0%N \/ c09_walk P pre tr cur calm = 20%N.
Proof.
  induction tr as [|e t IH]; intros pre cur calm; [now left|].
  cbn [c09_walk].
  match goal with |- context [if ?b then _ else _] => destruct b end; [now right|apply IH].
Qed.

(* with the number of blocked calls the trace itself shows ([blocked_of]: calls without their
   return; the harness reports exactly these at final quiescence) *)
Corollary c09_holdsb_not_21 P ls s lives :
  fix_c09 P = true -> fix_lc P = true -> good_pool P -> good_children P ->
  Forall (good_label P) ls -> run (step P) init ls = Some s -> ~ prog P s ->
  existsb (is_call OpRun) (obs_trace obs ls) = true ->
  existsb is_stop_or_cancel (obs_trace obs ls) || existsb is_fail_exit (obs_trace obs ls) = true ->
  C09_holdsb P (obs_trace obs ls) (blocked_of (obs_trace obs ls)) lives <> 21%N.
Proof.
  intros Hf Hlc Hp Hg Hl Hrun Hstuck Hcall Htd. unfold C09_holdsb.
  rewrite (c09_clause21_link P ls s Hf Hlc Hp Hg Hl Hrun Hstuck Hcall Htd).
  destruct (c09_walk_values P (obs_trace obs ls) [] [] true) as [-> | ->]; [|cbn; discriminate].
  cbn. match goal with |- (if ?b then _ else _) <> _ => destruct b end; discriminate.
Qed.
