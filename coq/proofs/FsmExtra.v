(* C08, second round (audit 2026-09-29, items M10/M11): sharper statements.
   - the exact list of out-of-turn edges of the dumped table, and a strict walk theorem for the
     runners (they never use Stopped -> New or Unknown);
   - the exact shape of a kept-up subscriber's stream when at most one change falls between its
     registration and its read (when the single leading duplicate occurs and what it is), and that
     the stream after the duplicate is a walk;
   - IsRunning() against what a kept-up subscriber has received. *)
From Coq Require Import List Arith NArith Bool Lia.
From GS Require Import LTS Fsm FsmTable FsmRunners FsmBase FsmGraph FsmWalk FsmStream FsmResult FsmMain.
Import ListNotations.

(* ------------------------------------------------------------------ *)
(* 1. the graph                                                         *)

(* every edge of the dumped table that is not an edge of the documented lifecycle *)
Definition out_of_turn_edges : list (st * st) :=
  [(New, Error); (Booting, Error); (Running, Error); (Reloading, Error); (Stopping, Error);
   (Stopped, Error); (Error, Error);            (* entering Error, from every state but Unknown *)
   (Error, Stopping); (Error, Stopped);         (* shutting down a failed runner *)
   (Stopped, New);                              (* restarting a stopped runner *)
   (Unknown, Unknown)].                         (* the isolated fallback state *)

Definition in_edges (a b : st) (l : list (st * st)) : bool :=
  existsb (fun p => st_eqb (fst p) a && st_eqb (snd p) b) l.

Lemma out_of_turn_exact : forall a b,
  allowedb fsm_cfg a b && negb (lifecycle_edge a b) = in_edges a b out_of_turn_edges.
Proof. intros a b; destruct a, b; vm_compute; reflexivity. Qed.

(* the edges the runners can take: the lifecycle, entering Error, leaving Error to Stopping/Stopped *)
Definition runner_edge (a b : st) : bool :=
  lifecycle_edge a b || st_eqb b Error || (st_eqb a Error && (st_eqb b Stopping || st_eqb b Stopped)).

Fixpoint walkb (R : st -> st -> bool) (a : st) (l : list st) : bool :=
  match l with [] => true | b :: t => R a b && walkb R b t end.

Definition target_ok (b : st) : bool := negb (st_eqb b New) && negb (st_eqb b Unknown).

Definition op_target (o : op) : st := match o with OTrans t | OTransIf _ t | OSet t => t end.
Definition op_tgt_ok (o : op) : bool := target_ok (op_target o).

Lemma op_result_target cfg c o to : op_result cfg c o = Some to -> to = op_target o.
Proof.
  destruct o as [t|f t|t]; cbn.
  - destruct (allowedb cfg c t); intros H; inversion H; reflexivity.
  - destruct (st_eqb c f && allowedb cfg c t); intros H; inversion H; reflexivity.
  - destruct (has_state cfg t); intros H; inversion H; reflexivity.
Qed.

Lemma table_step_strict : forall a b,
  (allowedb fsm_cfg a b || st_eqb b Error) = true -> target_ok b = true -> runner_edge a b = true.
Proof. intros a b; destruct a, b; vm_compute; intros; congruence. Qed.

Lemma walk_strict a l :
  walk_okb fsm_cfg a l = true -> forallb target_ok l = true -> walkb runner_edge a l = true.
Proof.
  revert a; induction l as [|b t IH]; intros a; [reflexivity|].
  cbn [walk_okb forallb walkb]. rewrite !andb_true_iff. intros [H1 H2] [H3 H4].
  split; [now apply table_step_strict|now apply IH].
Qed.

(* the history only contains targets of the calls made *)
Definition tgt_inv (s : state) : Prop := forallb target_ok (hist s) = true.

Lemma tgt_step cfg s l s' :
  tgt_inv s -> (forall o ok, l = LOp o ok -> op_tgt_ok o = true) -> step cfg s l = Some s' -> tgt_inv s'.
Proof.
  intros Hi Hf H. destruct l as [o ok| | | | | | | | | | | | | |];
    try (apply step_nonop_cur in H; [|intros; discriminate]; destruct H as [_ E2];
         unfold tgt_inv; rewrite E2; exact Hi).
  unfold step in H. cbn [stepx] in H. destruct (is_nil (pend s)); [|discriminate].
  destruct (op_result cfg (cur s) o) as [to|] eqn:E.
  - destruct ok; [|discriminate]. inversion H; subst; clear H. unfold tgt_inv; cbn [hist].
    rewrite forallb_app, Hi. cbn. rewrite andb_true_r.
    apply op_result_target in E. subst. exact (Hf o true eq_refl).
  - destruct ok; [discriminate|]. inversion H; subst. exact Hi.
Qed.

Section Prod2.
  Variable cfg : tcfg.
  Variables ctl cl : Type.
  Variable cstep : ctl -> cl -> st -> option (option op * (bool -> ctl)).
  Variable ctok : cl -> tokact.
  Hypothesis cops_tgt : forall c l cu o k, cstep c l cu = Some (Some o, k) -> op_tgt_ok o = true.

  Notation rstep := (rstep cfg ctl cl cstep ctok).

  Lemma rstep_tgt (s s' : rstate ctl) (l : rlabel cl) :
    rstep s l = Some s' -> tgt_inv (rm s) -> tgt_inv (rm s').
  Proof.
    intros H Hi. destruct l as [ml|c]; cbn [FsmRunners.rstep] in H.
    - destruct ml; try discriminate;
        match type of H with
        | context [step cfg (rm s) ?lab] =>
          destruct (step cfg (rm s) lab) as [m'|] eqn:E; [|discriminate];
          inversion H; subst; cbn;
          apply (tgt_step cfg (rm s) lab m' Hi); [intros; discriminate|exact E]
        end.
    - destruct (cstep (rc s) c (cur (rm s))) as [[oo k]|] eqn:Ec; [|discriminate].
      destruct (tok_apply (ctok c) (rtokA s) (rtokB s)) as [[ta tb]|]; [|discriminate].
      destruct oo as [o|].
      + destruct (step cfg (rm s) (LOp o (op_okb cfg (cur (rm s)) o))) as [m'|] eqn:E; [|discriminate].
        inversion H; subst; cbn.
        apply (tgt_step cfg (rm s) (LOp o (op_okb cfg (cur (rm s)) o)) m' Hi); [|exact E].
        intros o' ok' E'. inversion E'; subst. eapply cops_tgt; exact Ec.
      + inversion H; subst; exact Hi.
  Qed.

  Lemma product_tgt c0 ls s : run rstep (rinit ctl c0) ls = Some s -> tgt_inv (rm s).
  Proof.
    intros Hr.
    apply (run_inv _ _ rstep (fun s => tgt_inv (rm s))) with (ls := ls) (s := rinit ctl c0);
      [|reflexivity|exact Hr].
    intros a l b Ha Hs. eapply rstep_tgt; eauto.
  Qed.
End Prod2.

Lemma composite_ops_tgt : forall c l cu o k, composite_step c l cu = Some (Some o, k) -> op_tgt_ok o = true.
Proof. unfold composite_step. solve_ops. Qed.
Lemma http_ops_tgt : forall c l cu o k, http_step c l cu = Some (Some o, k) -> op_tgt_ok o = true.
Proof. unfold http_step. solve_ops. Qed.
Lemma cluster_ops_tgt : forall c l cu o k, cluster_step c l cu = Some (Some o, k) -> op_tgt_ok o = true.
Proof. solve_ops. Qed.

Definition strict_walk (m : state) : Prop := walkb runner_edge New (hist m) = true.

Lemma strict_composite s : creach s -> strict_walk (rm s).
Proof.
  intros H. apply walk_strict; [exact (proj1 (walk_composite s H))|].
  destruct H as [ls H]. exact (product_tgt fsm_cfg cctl ccl composite_step composite_tok composite_ops_tgt _ ls s H).
Qed.
Lemma strict_http s : hreach s -> strict_walk (rm s).
Proof.
  intros H. apply walk_strict; [exact (proj1 (walk_http s H))|].
  destruct H as [ls H]. exact (product_tgt fsm_cfg hctl hcl http_step http_tok http_ops_tgt _ ls s H).
Qed.
Lemma strict_cluster s : kreach s -> strict_walk (rm s).
Proof.
  intros H. apply walk_strict; [exact (proj1 (walk_cluster s H))|].
  destruct H as [ls H]. exact (product_tgt fsm_cfg kctl kcl cluster_step cluster_tok cluster_ops_tgt _ ls s H).
Qed.

Lemma strict_walks :
  (forall s, creach s -> strict_walk (rm s)) /\ (forall s, hreach s -> strict_walk (rm s)) /\
  (forall s, kreach s -> strict_walk (rm s)).
Proof. exact (conj strict_composite (conj strict_http strict_cluster)). Qed.

(* ------------------------------------------------------------------ *)
(* 2. the stream, at most one change inside the GetStateChan call       *)

Lemma walk_okb_app c a l1 l2 :
  walk_okb c a (l1 ++ l2) = walk_okb c a l1 && walk_okb c (last l1 a) l2.
Proof.
  revert a; induction l1 as [|x t IH]; intros a; [reflexivity|].
  cbn [app walk_okb]. rewrite IH, last_cons, andb_assoc. reflexivity.
Qed.

Lemma firstn_snoc (h : list st) j : j < length h -> firstn (S j) h = firstn j h ++ [nth j h New].
Proof.
  revert j; induction h as [|a t IH]; intros j Hj; [cbn in Hj; lia|].
  destruct j; [reflexivity|]. cbn [firstn nth app length] in *. rewrite <- IH by lia. reflexivity.
Qed.

Lemma last_firstn h r : r <= length h -> last (firstn r h) New = state_at h r.
Proof.
  intros Hr. destruct r; [reflexivity|]. rewrite firstn_snoc by lia. now rewrite last_last.
Qed.

Lemma segment_walk c h r u :
  walk_okb c New h = true -> r <= length h -> walk_okb c (state_at h r) (segment h r u) = true.
Proof.
  intros Hw Hr. rewrite <- (firstn_skipn r h) in Hw. rewrite walk_okb_app, last_firstn in Hw by exact Hr.
  apply andb_true_iff in Hw as [_ Hw]. unfold segment.
  rewrite <- (firstn_skipn (u - r) (skipn r h)) in Hw. rewrite walk_okb_app in Hw.
  now apply andb_true_iff in Hw as [Hw _].
Qed.

(* the exact shape: no change in the window -> s0 :: later; one change in the window -> that change's
   value twice (once read, once broadcast), unless the subscriber was un-registered before it *)
Lemma stream_one_window s i x :
  mreach s -> nth_error (subs s) i = Some x -> dropped x = false -> sg x = SLive ->
  read_at x <= S (reg_at x) ->
  let u := endp (length (hist s)) x in
  let s0 := state_at (hist s) (read_at x) in
  let later := segment (hist s) (read_at x) u in
  exists rest,
    (read_at x = reg_at x -> got x ++ rest = s0 :: later) /\
    (read_at x = S (reg_at x) -> reg_at x < u -> got x ++ rest = s0 :: s0 :: later) /\
    (read_at x = S (reg_at x) -> u <= reg_at x -> got x ++ rest = [s0]).
Proof.
  intros Hm Hx Hd Hl Hle. destruct (stream_machine s i x Hm Hx Hd Hl) as (A & B & rest & E).
  exists rest. cbn zeta.
  assert (Hend : endp (length (hist s)) x <= length (hist s)).
  { destruct Hm as [ls Hr]. apply inv_reach in Hr as [_ Hs]. specialize (Hs i x Hx).
    unfold sub_ok in Hs. tauto. }
  repeat split.
  - intros Eq. rewrite <- E, Eq. reflexivity.
  - intros Eq Hlt. rewrite <- E, Eq. unfold expected_stream.
    now rewrite (segment_cons (hist s) (reg_at x) _ Hlt Hend).
  - intros Eq Hge. rewrite <- E, Eq. unfold expected_stream, segment.
    replace (endp (length (hist s)) x - reg_at x) with 0 by lia. reflexivity.
Qed.

(* whatever the shape, what follows the (possibly duplicated) first value is a walk from it *)
Lemma stream_later_walk s i x :
  mreach s -> is_walk s -> nth_error (subs s) i = Some x -> dropped x = false -> sg x = SLive ->
  walk fsm_cfg (state_at (hist s) (read_at x))
       (segment (hist s) (read_at x) (endp (length (hist s)) x)).
Proof.
  intros Hm [Hw _] Hx Hd Hl. destruct (stream_machine s i x Hm Hx Hd Hl) as (_ & B & _).
  apply walk_okb_iff. now apply segment_walk.
Qed.

(* the duplicate exists: one change between registration and read *)
Definition dup_witness : list label :=
  [LSub; LOp (OTrans Booting) true; LRead 0; LRecv 0 Booting; LDeliver 0; LFwdTake 0; LFwdPut 0;
   LRecv 0 Booting; LOp (OTrans Running) true; LDeliver 0; LFwdTake 0; LFwdPut 0; LRecv 0 Running].
Definition dup_witness_state : option state := Eval vm_compute in run (step fsm_cfg) init dup_witness.
Lemma dup_witness_runs : run (step fsm_cfg) init dup_witness = dup_witness_state.
Proof. vm_compute. reflexivity. Qed.

Lemma one_duplicate_exists :
  exists s x, run (step fsm_cfg) init dup_witness = Some s /\ nth_error (subs s) 0 = Some x /\
              dropped x = false /\ sg x = SLive /\ reg_at x = 0 /\ read_at x = 1 /\
              hist s = [Booting; Running] /\ got x = [Booting; Booting; Running].
Proof.
  pose proof dup_witness_runs as E. unfold dup_witness_state in E.
  eexists. eexists. split; [exact E|]. repeat (split; [reflexivity|]). reflexivity.
Qed.

(* ------------------------------------------------------------------ *)
(* 3. IsRunning() against the stream                                    *)

Lemma state_at_length_last h : state_at h (length h) = last h New.
Proof.
  destruct (rev_ind (fun h => state_at h (length h) = last h New)) with (l := h); auto.
  intros z h' _. rewrite app_length. cbn [length]. rewrite Nat.add_1_r, state_at_last, last_last. reflexivity.
Qed.

Lemma last_expected h g r :
  g <= r -> r <= length h -> last (expected_stream h g r (length h)) New = state_at h (length h).
Proof.
  intros Hg Hr. unfold expected_stream, segment. rewrite firstn_all2 by (rewrite skipn_length; lia).
  destruct (rev_ind (fun h => g <= r -> r <= length h ->
                              last (state_at h r :: skipn g h) New = state_at h (length h))) with (l := h); auto.
  - cbn. intros. assert (r = 0) by lia. subst. destruct g; reflexivity.
  - intros z h' _ Hg' Hr'. rewrite app_length in *. cbn [length] in *. rewrite Nat.add_1_r in *.
    rewrite state_at_last. destruct (Nat.eq_dec g (S (length h'))) as [->|Hne].
    + assert (r = S (length h')) by lia. subst. rewrite skipn_all2 by (rewrite app_length; cbn; lia).
      cbn [last]. apply state_at_last.
    + rewrite skipn_app. replace (g - length h') with 0 by lia. cbn [skipn].
      rewrite app_comm_cons. apply last_last.
Qed.

(* a registered subscriber that keeps up and whose pipeline is drained has received, last, the
   machine's current state; so IsRunning() answers whether THAT is Running *)
Lemma drained_last s i x :
  mreach s -> nth_error (subs s) i = Some x -> dropped x = false -> sg x = SLive -> unsub x = false ->
  wch x = [] -> hand x = None -> bch x = [] -> memn i (pend s) = false ->
  last (got x) New = cur s.
Proof.
  intros Hm Hx Hd Hl Hu Hw Hh Hb Hp.
  pose proof (stream_in_flight_machine s i x Hm Hx Hd Hl) as E.
  destruct (stream_machine s i x Hm Hx Hd Hl) as (A & B & _).
  rewrite Hw, Hh, Hb, Hp in E. cbn [olist app] in E. rewrite app_nil_r in E.
  unfold endp in E. rewrite Hu in E. rewrite E, last_expected by assumption.
  destruct Hm as [ls Hr]. apply inv_reach in Hr as [Hc _]. now rewrite Hc.
Qed.

Lemma isrunning_stream s i x b s' :
  mreach s -> nth_error (subs s) i = Some x -> dropped x = false -> sg x = SLive -> unsub x = false ->
  wch x = [] -> hand x = None -> bch x = [] -> memn i (pend s) = false ->
  (step fsm_cfg s (LIsRun b) = Some s' <-> (b = is_running (last (got x) New) /\ s' = s)).
Proof.
  intros. rewrite (drained_last s i x) by assumption. apply isrunning_machine.
Qed.
