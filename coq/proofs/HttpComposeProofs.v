(* C14 - the composition of the protocol model with the drain model (model/HttpCompose.v):
   every composite schedule projects to a schedule of the protocol model and, per server generation, to a schedule of
   the drain model; the drain theorems (HttpDrainProofs.v) therefore speak about what stopServer reports to Run and to
   Reload. *)
From Coq Require Import List NArith ZArith Bool Lia.
From GS Require Import LTS HttpCompose HttpCfgProofs HttpInv HttpInvStep HttpInvStep2 HttpProps HttpProgress HttpDrainProofs.
Import ListNotations.

(* before Shutdown is called no step of the drain model depends on the timeout *)
Lemma dstep_pre_start D1 D2 gap d l : sd_start d = None -> dstep D1 gap d l = dstep D2 gap d l.
Proof. intros E. destruct l; cbn; rewrite ?E; reflexivity. Qed.

Lemma dstep_start_pres D gap d l d' :
  dstep D gap d l = Some d' -> l <> DShutStart -> sd_start d' = sd_start d.
Proof.
  intros H Hl. destruct l; cbn in H; try contradiction;
    repeat match type of H with context[match ?x with _ => _ end] => destruct x; try discriminate end;
    injection H as <-; reflexivity.
Qed.

Section Compose.
  Variable stop_locked : bool.
  Variable validated : bool.
  Variable mux_ok : list str -> bool.
  Variable gap : N.
  Notation cstep := (cstep stop_locked validated mux_ok gap).
  Notation pstep := (step stop_locked validated mux_ok).

  Definition creach (c0 : config) (s : cstate) : Prop := exists ls, run cstep (cinit c0) ls = Some s.

  (* ---- projection to the protocol model ---- *)

  Definition cno_foreign_label (l : clabel) : Prop :=
    match l with CP (LForeignBind _) => False | _ => True end.

  Lemma cstep_proj s l s' :
    cstep s l = Some s' ->
    cp s' = cp s \/ exists pl, pstep (cp s) pl = Some (cp s') /\ (cno_foreign_label l -> no_foreign_label pl).
  Proof.
    intros H. destruct l as [pl|dl|sid c|sid|sid r]; cbn [HttpCompose.cstep] in H.
    - destruct (sync_label pl); [discriminate|]. unfold HttpCompose.pstep in H.
      destruct (pstep (cp s) pl) as [p'|] eqn:E; [|discriminate]. injection H as <-. right. exists pl. split; [exact E|].
      destruct pl; cbn; auto.
    - left. destruct dl; try discriminate;
        repeat match type of H with context[match ?x with _ => _ end] => destruct x; try discriminate end;
        injection H as <-; reflexivity.
    - unfold HttpCompose.pstep in H. destruct (pstep (cp s) (LBootCreate sid c)) as [p'|] eqn:E; [|discriminate].
      injection H as <-. right. exists (LBootCreate sid c). split; [exact E|]. intros _. exact I.
    - unfold HttpCompose.pstep in H.
      destruct (pstep (cp s) (LStopCallS sid)) as [p'|] eqn:E.
      + destruct (dstep _ gap (cd s) DShutStart); [|discriminate]. injection H as <-.
        right. exists (LStopCallS sid). split; [exact E|]. intros _. exact I.
      + destruct (pstep (cp s) (LCleanupCall sid)) as [p'|] eqn:E'; [|discriminate].
        destruct (dstep _ gap (cd s) DShutStart); [|discriminate]. injection H as <-.
        right. exists (LCleanupCall sid). split; [exact E'|]. intros _. exact I.
    - unfold HttpCompose.pstep in H. destruct (pstep (cp s) (LShutdownRet sid r)) as [p'|] eqn:E; [|discriminate].
      right. exists (LShutdownRet sid r). split; [|intros _; exact I].
      destruct r;
        repeat match type of H with context[match ?x with _ => _ end] => destruct x; try discriminate end;
        injection H as <-; exact E.
  Qed.

  Theorem crun_proj cls : forall s s',
    run cstep s cls = Some s' ->
    exists ls, run pstep (cp s) ls = Some (cp s') /\ (Forall cno_foreign_label cls -> no_foreign ls).
  Proof.
    induction cls as [|l cls IH]; intros s s' H.
    - injection H as <-. exists []. split; [reflexivity|]. intros _. constructor.
    - cbn [run] in H. destruct (cstep s l) as [s1|] eqn:E; [|discriminate].
      destruct (IH _ _ H) as (ls & Hr & Hn).
      destruct (cstep_proj _ _ _ E) as [Eq|(pl & Hp & Hl)].
      + exists ls. rewrite <- Eq. split; [exact Hr|]. intros Hf. inversion Hf; subst. auto.
      + exists (pl :: ls). split; [cbn [run]; rewrite Hp; exact Hr|].
        intros Hf. inversion Hf; subst. constructor; [auto|]. apply Hn. assumption.
  Qed.

  Corollary creach_proj c0 s :
    creach c0 s -> exists ls, run pstep (init c0) ls = Some (cp s).
  Proof. intros [cls H]. destruct (crun_proj cls _ _ H) as (ls & Hr & _). eauto. Qed.

  (* ---- projection to the drain model, per server generation ---- *)

  Definition dreach (D : N) (d : dstate) : Prop := exists ls, run (dstep D gap) dinit ls = Some d.

  (* the drain component is a reachable state of the drain model under the timeout of the Shutdown in flight - and,
     as long as no Shutdown has been called, under ANY timeout *)
  Definition DProj (s : cstate) : Prop :=
    forall D, (sd_start (cd s) <> None -> D = cpar s) -> dreach D (cd s).

  Lemma dreach_step D d l d' : dreach D d -> dstep D gap d l = Some d' -> dreach D d'.
  Proof.
    intros [ls H] Hs. exists (ls ++ [l]). rewrite run_app, H. cbn [run]. now rewrite Hs.
  Qed.

  Lemma dproj_init c0 : DProj (cinit c0).
  Proof. intros D _. exists []. reflexivity. Qed.

  Lemma dproj_step s l s' : DProj s -> cstep s l = Some s' -> DProj s'.
  Proof.
    intros P H. destruct l as [pl|dl|sid c|sid|sid r]; cbn [HttpCompose.cstep] in H.
    - destruct (sync_label pl); [discriminate|]. destruct (HttpCompose.pstep _ _ _ (cp s) pl); [|discriminate].
      injection H as <-. exact P.
    - assert (Hl : dl <> DShutStart) by (intros ->; discriminate).
      assert (G : exists d', dstep (cpar s) gap (cd s) dl = Some d' /\ s' = {| cp := cp s; cd := d'; cpar := cpar s |}).
      { destruct dl; try discriminate;
          repeat match type of H with context[if ?x then _ else _] => destruct x; try discriminate end;
          match type of H with context[dstep ?a ?b ?c ?d] => destruct (dstep a b c d) as [d'|] eqn:E; [|discriminate] end;
          injection H as <-; eauto. }
      destruct G as (d' & E & ->). intros D HD. cbn [cd cpar] in *.
      rewrite (dstep_start_pres _ _ _ _ _ E Hl) in HD.
      apply (dreach_step D (cd s) dl); [apply P; exact HD|].
      destruct (sd_start (cd s)) eqn:Es.
      + rewrite (HD ltac:(discriminate)). exact E.
      + rewrite (dstep_pre_start D (cpar s)); [exact E|exact Es].
    - destruct (HttpCompose.pstep _ _ _ (cp s) (LBootCreate sid c)); [|discriminate]. injection H as <-.
      intros D _. exists []. reflexivity.
    - destruct (match HttpCompose.pstep _ _ _ (cp s) (LStopCallS sid) with Some p' => Some p' | None => _ end) as [p'|]; [|discriminate].
      destruct (dstep (dparam (cur (cp s))) gap (cd s) DShutStart) as [d'|] eqn:E; [|discriminate].
      injection H as <-. intros D HD. cbn [cd cpar] in *.
      assert (Es : sd_start (cd s) = None).
      { cbn in E. destruct (sd_start (cd s)); [discriminate|reflexivity]. }
      assert (Es' : sd_start d' <> None).
      { cbn in E. rewrite Es in E. injection E as <-. discriminate. }
      rewrite (HD Es'). apply (dreach_step _ (cd s) DShutStart); [apply P; rewrite Es; congruence|exact E].
    - destruct (HttpCompose.pstep _ _ _ (cp s) (LShutdownRet sid r)) as [p'|]; [|discriminate].
      assert (G : exists dl d', (dl = DShutRetOk \/ dl = DShutRetTimeout) /\ dstep (cpar s) gap (cd s) dl = Some d' /\
                                s' = {| cp := p'; cd := d'; cpar := cpar s |}).
      { destruct r;
          repeat match type of H with
                 | context[dstep ?a ?b ?c ?d] => destruct (dstep a b c d) as [d'|] eqn:E; try discriminate
                 | context[match ?x with _ => _ end] => destruct x; try discriminate
                 end;
          injection H as <-; eauto 6. }
      destruct G as (dl & d' & Hdl & E & ->). intros D HD. cbn [cd cpar] in *.
      assert (Es : sd_start (cd s) <> None).
      { destruct Hdl as [-> | ->]; cbn in E; destruct (sd_start (cd s)); try discriminate. }
      assert (Hl : dl <> DShutStart) by (destruct Hdl as [-> | ->]; discriminate).
      rewrite (dstep_start_pres _ _ _ _ _ E Hl) in HD. rewrite (HD Es).
      apply (dreach_step _ (cd s) dl); [apply P; intros _; reflexivity|exact E].
  Qed.

  Theorem dproj_reach c0 s : creach c0 s -> DProj s.
  Proof.
    intros [ls H]. eapply (run_inv cstate clabel cstep DProj); [|apply dproj_init|exact H].
    intros; eapply dproj_step; eauto.
  Qed.

  (* ---- what stopServer reports, in every reachable composite state ---- *)

  (* the synchronised return: its protocol half and its drain half *)
  Lemma cshutret_inv s sid r s' :
    cstep s (CShutRet sid r) = Some s' ->
    pstep (cp s) (LShutdownRet sid r) = Some (cp s') /\ cpar s' = cpar s /\
    exists t0 ok, sd_start (cd s) = Some t0 /\ sd_start (cd s') = Some t0 /\ sd_ret (cd s') = Some (now (cd s), ok) /\
                  reqs (cd s') = reqs (cd s) /\
                  (ok = false <-> r = STimeout) /\ (ok = true -> (now (cd s) < t0 + cpar s)%N).
  Proof.
    intros H. cbn [HttpCompose.cstep] in H. unfold HttpCompose.pstep in H.
    destruct (pstep (cp s) (LShutdownRet sid r)) as [p'|] eqn:E; [|discriminate].
    destruct r.
    - (* SOk *)
      destruct (sd_start (cd s)) as [t0|] eqn:Es; [|discriminate].
      destruct (dstep (cpar s) gap (cd s) DShutRetOk) as [d'|] eqn:Ed; [|discriminate].
      destruct (now (cd s) <? t0 + cpar s)%N eqn:El; [|discriminate]. injection H as <-. cbn [cp cd cpar].
      split; [reflexivity|]. split; [reflexivity|]. exists t0, true.
      cbn in Ed. rewrite Es in Ed. destruct (sd_ret (cd s)); [discriminate|]. destruct (_ && _); [|discriminate].
      injection Ed as <-. cbn. repeat split; auto; try discriminate. intros _. now apply N.ltb_lt.
    - (* STimeout *)
      destruct (dstep (cpar s) gap (cd s) DShutRetTimeout) as [d'|] eqn:Ed; [|discriminate]. injection H as <-. cbn [cp cd cpar].
      split; [reflexivity|]. split; [reflexivity|].
      cbn in Ed. destruct (sd_start (cd s)) as [t0|] eqn:Es; [|discriminate]. destruct (sd_ret (cd s)); [discriminate|].
      destruct (N.eqb _ _); [|discriminate]. injection Ed as <-. exists t0, false. cbn. repeat split; auto; discriminate.
    - (* SFail: like SOk on the drain side *)
      destruct (sd_start (cd s)) as [t0|] eqn:Es; [|discriminate].
      destruct (dstep (cpar s) gap (cd s) DShutRetOk) as [d'|] eqn:Ed; [|discriminate].
      destruct (now (cd s) <? t0 + cpar s)%N eqn:El; [|discriminate]. injection H as <-. cbn [cp cd cpar].
      split; [reflexivity|]. split; [reflexivity|]. exists t0, true.
      cbn in Ed. rewrite Es in Ed. destruct (sd_ret (cd s)); [discriminate|]. destruct (_ && _); [|discriminate].
      injection Ed as <-. cbn. repeat split; auto; try discriminate. intros _. now apply N.ltb_lt.
    - (* SNotRunning: never a result of Shutdown *)
      exfalso. unfold step, step_core in E. destruct (crashed (cp s)); [discriminate|]. cbn [sres_allowed] in E. discriminate.
  Qed.

  (* C14, for the runner: when stopServer's Shutdown returns in ANY reachable state of the composition *)
  Theorem runner_drain c0 s sid r s' :
    creach c0 s -> cstep s (CShutRet sid r) = Some s' ->
    exists t0, sd_start (cd s) = Some t0 /\
      (* bounded: it returns no later than the timeout after the call *)
      (t0 <= now (cd s) /\ now (cd s) <= t0 + cpar s)%N /\
      (* complete: a request that needed less than the timeout has completed *)
      (forall q, In q (reqs (cd s')) -> (q_stop q < cpar s)%N -> q_done q = true) /\
      (* prompt: if all requests finish early enough, no timeout is reported and the return is early *)
      ((maxstop (reqs (cd s')) + gap < cpar s)%N -> r <> STimeout /\ (now (cd s) <= t0 + maxstop (reqs (cd s')) + gap)%N) /\
      (* reported: a request that outlasts the timeout makes stopServer report the timeout *)
      ((cpar s < maxstop (reqs (cd s')))%N -> r = STimeout).
  Proof.
    intros Hr H.
    assert (Hr' : creach c0 s').
    { destruct Hr as [ls Hls]. exists (ls ++ [CShutRet sid r]). rewrite run_app, Hls. cbn [run]. now rewrite H. }
    destruct (cshutret_inv _ _ _ _ H) as (_ & Ep & t0 & ok & Es & Es' & Eret & _ & Hok & _).
    pose proof (dproj_reach c0 s' Hr' (cpar s')) as [ls Hd]; [intros _; reflexivity|]. rewrite Ep in Hd.
    exists t0. split; [exact Es|].
    destruct (bounded (cpar s) gap ls (cd s') t0 (now (cd s)) ok Hd Es' Eret) as (A & B & C).
    split; [split; assumption|]. split.
    - intros q Hq Hlt. exact (complete (cpar s) gap ls (cd s') t0 (now (cd s)) ok q Hd Es' Eret Hq Hlt).
    - split.
      + intros Hlt. destruct (prompt (cpar s) gap ls (cd s') t0 (now (cd s)) ok Hd Es' Eret Hlt) as [-> Hle].
        split; [|exact Hle]. intros ->. destruct Hok as [_ X]. specialize (X eq_refl). discriminate.
      + intros Hgt. apply Hok. exact (C Hgt).
  Qed.
End Compose.

(* ---- what becomes of a timeout (protocol model; no reachability or environment hypothesis needed) ---- *)

(* Run's stopServer reports the timeout: shutdown() releases the mutex with that result pending ... *)
Lemma run_timeout_pending validated mux_ok s sid s' :
  holder s = Some ByRun -> kpc s = KStopWait sid ->
  step true validated mux_ok s (LShutdownRet sid STimeout) = Some s' ->
  rpc s' = RStopDone STimeout /\ holder s' = None.
Proof.
  intros Eh Ek H. unfold step, step_core in H. destruct (crashed s); [discriminate|]. cbn [sres_allowed] in H.
  rewrite Ek, Nat.eqb_refl in H. unfold stop_done in H. cbn [holder with_server] in H. rewrite Eh in H.
  injection H as <-. auto.
Qed.

(* ... nothing but Run's own next step changes that, and that step sets the state Error and makes Run return the
   graceful-shutdown-timeout error ... *)
Lemma run_timeout_kept sl validated mux_ok c0 ls s l s' :
  run (step sl validated mux_ok) (init c0) ls = Some s ->
  rpc s = RStopDone STimeout -> step sl validated mux_ok s l = Some s' ->
  rpc s' = RStopDone STimeout \/
  (l = LRunFinishStop /\ rpc s' = RRet (RStop STimeout) /\ fsm_st s' = FError).
Proof.
  intros Hr Er H. pose proof (inv0_reachable sl validated mux_ok c0 ls s Hr) as I.
  assert (Hh : holder s <> Some ByRun).
  { intros E. destruct (z_run _ I E) as [[X _]|[X _]]; congruence. }
  destruct l; open_step H; rewrite ?Er in H; crush_step H; cbn; auto.
  all: try (rewrite Er; auto; fail).
  all: try (cbn in *; congruence).
Qed.

Lemma run_timeout_finish s : rpc (finish_stop s STimeout) = RRet (RStop STimeout) /\ fsm_st (finish_stop s STimeout) = FError.
Proof. split; reflexivity. Qed.

Lemma run_finish_enabled sl validated mux_ok s r :
  crashed s = false -> rpc s = RStopDone r -> step sl validated mux_ok s LRunFinishStop = Some (finish_stop s r).
Proof. intros Hc Er. unfold step, step_core. now rewrite Hc, Er. Qed.

(* ... and the only value Run() can then return is that error *)
Lemma run_ret_kept sl validated mux_ok c0 ls s l s' x :
  run (step sl validated mux_ok) (init c0) ls = Some s ->
  rpc s = RRet x -> step sl validated mux_ok s l = Some s' ->
  rpc s' = RRet x \/ (exists y, l = LRunRet y /\ rres_code y = rres_code x /\ rpc s' = RDone).
Proof.
  intros Hr Er H. pose proof (inv0_reachable sl validated mux_ok c0 ls s Hr) as I.
  assert (Hh : holder s <> Some ByRun).
  { intros E. destruct (z_run _ I E) as [[X _]|[X _]]; congruence. }
  destruct l; open_step H; rewrite ?Er in H; crush_step H; cbn; auto.
  all: try (rewrite Er; auto; fail).
  all: try (cbn in *; congruence).
  right. eexists. split; [reflexivity|]. split; [|reflexivity]. now apply N.eqb_eq.
Qed.

(* a Reload whose stopServer reports anything but success ends in the Error state and gives up the mutex *)
Lemma reload_stop_failure sl validated mux_ok s i sid r s' :
  holder s = Some (ByReload i) -> kpc s = KStopWait sid -> r <> SOk ->
  step sl validated mux_ok s (LShutdownRet sid r) = Some s' ->
  fsm_st s' = FError /\ holder s' = None /\ In i (rl_ret s').
Proof.
  intros Eh Ek Hr H. unfold step, step_core in H. destruct (crashed s); [discriminate|].
  destruct (sres_allowed _ r); [|discriminate]. rewrite Ek, Nat.eqb_refl in H.
  unfold stop_done in H. cbn [holder with_server] in H. rewrite Eh in H.
  destruct r; try contradiction; injection H as <-; cbn; auto.
Qed.

(* DrainTimeout <= 0 (accepted by NewConfig): stopServer's context is expired when it is created, and stopServer
   tests it before looking at Shutdown's result - EVERY stop reports the timeout, an idle server included *)
Lemma zero_drain_always_times_out sl validated mux_ok s sid r s' :
  (drain (cur s) <= 0)%Z -> step sl validated mux_ok s (LShutdownRet sid r) = Some s' -> r = STimeout.
Proof.
  intros Hd H. unfold step, step_core in H. destruct (crashed s); [discriminate|].
  destruct (sres_allowed (drain (cur s)) r) eqn:E; [|discriminate].
  destruct r; cbn in E; try reflexivity; try discriminate; apply Z.ltb_lt in E; lia.
Qed.
