(* C09_exact in the form that is true of the code: outside the window between "configuration
   stored" and "children launched", the children of the current boot generation are exactly the
   runnables of the current configuration (as sets of pool members; as lists, in order, right after a
   boot). *)
From Coq Require Import List NArith Bool Arith Lia.
From GS Require Import Errs LTS Composite CompositeMon CompositeBase CompositeC10 CompositeC11
     CompositeLocks CompositeLive.
Import ListNotations.

Definition cur_kids (s : state) : list kid := filter (fun k => Nat.eqb (k_gen k) (gen s)) (kids s).

(* generations never exceed the boot counter *)
Definition K_gen (s : state) : Prop := forall k, In k (kids s) -> k_gen k <= gen s.

Lemma K_gen_step P s l s' : K_gen s -> step P s l = Some s' -> K_gen s'.
Proof.
  intros H Hst. unfold K_gen in *.
  open_step Hst; cbn; goal_cases; intros kd Hin; try (apply H; exact Hin).
  all: try (apply in_app_or in Hin as [Hin|Hin];
            [specialize (H _ Hin); lia
            |unfold spawn_kids in Hin; apply in_map_iff in Hin as (e & <- & _); cbn; lia]).
  all: try (apply in_upd in Hin as [Hin|(x & Hx & ->)];
            [apply H; exact Hin|cbn; apply H; eapply nth_error_In; eassumption]).
Qed.

Lemma filter_gen_upd_kpc g i p l :
  map k_child (filter (fun k => Nat.eqb (k_gen k) g) (upd i (set_kpc p) l))
  = map k_child (filter (fun k => Nat.eqb (k_gen k) g) l).
Proof.
  revert i; induction l as [|y l IH]; intros [|i]; cbn; auto.
  - destruct (Nat.eqb (k_gen y) g); cbn; reflexivity.
  - destruct (Nat.eqb (k_gen y) g); cbn; now rewrite IH.
Qed.

Lemma filter_gen_old g l : (forall k, In k l -> k_gen k <= g) -> filter (fun k => Nat.eqb (k_gen k) (S g)) l = [].
Proof.
  induction l as [|y l IH]; cbn; [reflexivity|]. intros H.
  assert (k_gen y <= g) by (apply H; now left).
  destruct (Nat.eqb (k_gen y) (S g)) eqn:E; [apply Nat.eqb_eq in E; lia|].
  apply IH. intros k Hk. apply H. now right.
Qed.

Lemma filter_gen_spawn o g es : filter (fun k => Nat.eqb (k_gen k) g) (spawn_kids o g es) = spawn_kids o g es.
Proof.
  unfold spawn_kids. induction es as [|e l IH]; cbn; [reflexivity|]. rewrite Nat.eqb_refl. now rewrite IH.
Qed.

Definition X_exact (s : state) : Prop :=
  runt s <> TBootLaunch -> count_r booting (reloaders s) = 0 ->
  forall c, In c (ids (entries_of s)) <-> In c (map k_child (cur_kids s)).

(* the repaired membership test: "unchanged" means the same set of pool members *)
Lemma membership_false_same_ids P old new :
  fix_c11 P = true -> good_pool P -> valid_cfg P old = true -> valid_cfg P new = true ->
  membership_changed P old new = false -> forall c, In c (ids new) <-> In c (ids old).
Proof.
  intros Hf Hp Ho Hn Hm. apply (membership_fixed P old new Hf) in Hm as [_ Hs].
  intros c. split; intros Hc.
  - eapply (same_names_same_ids P old new); eauto. intros n Hin. now apply Hs.
  - eapply (same_names_same_ids P new old); eauto. intros n Hin. now apply Hs.
Qed.

Lemma X_exact_step P s l s' :
  fix_c09 P = true -> fix_c11 P = true -> good_pool P ->
  I1 s -> L_mu P s -> G_valid P s -> G_old P s -> K_gen s -> X_exact s ->
  step P s l = Some s' -> X_exact s'.
Proof.
  intros Hfix Hfix11 Hpool H1 Hmu (V1 & V2) Hold Hgen K1 Hst.
  assert (K1' := K1). assert (Hmu' := Hmu). assert (Hold' := Hold).
  unfold X_exact, cur_kids, entries_of in *.
  open_step Hst; cbn; goal_cases; cbn in K1;
    unfold tear_pc, entries_of; rewrite ?Hfix; cbn; count_facts booting;
    repeat match goal with Hq : r_pc ?x = _ |- _ => rewrite Hq in * end; cbn in *.
  all: try (match goal with E : Some _ = None |- _ => discriminate E | E : None = Some _ |- _ => discriminate E end).
  all: repeat match goal with
              | Ea : cfg ?s = Some ?a, Eb : cfg ?s = Some ?b |- _ => rewrite Ea in Eb; injection Eb as <-
              | Ea : cfg ?s = Some ?a, Eb : cfg ?s = None |- _ => rewrite Ea in Eb; discriminate Eb
              | Ea : cfg ?s = None, Eb : cfg ?s = Some _ |- _ => rewrite Ea in Eb; discriminate Eb
              end.
  all: try (match goal with Ec : cfg ?s = _ |- _ => rewrite Ec in K1; cbn in K1 end).
  all: repeat match goal with E : Some _ = Some _ |- _ => injection E as <- end.
  all: try (match goal with Ec : cfg ?s = _ |- _ => rewrite ?Ec end).
  all: intros.
  all: try (match goal with Hne : ?a <> ?a |- _ => now elim Hne end).
  all: rewrite ?filter_gen_upd_kpc.
  all: try (apply K1; try assumption; try congruence; try lia; fail).
  all: try (rewrite filter_app, (filter_gen_old (gen s) (kids s) Hgen), filter_gen_spawn; cbn;
            unfold spawn_kids; rewrite map_map; cbn; tauto).
  all: try (rewrite filter_app, (filter_gen_old (gen s) (kids s) Hgen); cbn; tauto).
  - (* in-place reload: same set of pool members *)
    destruct (reloader_not_window P s k r H1 Hmu' E) as [Hw1 Hw2]; [rewrite E0; reflexivity|rewrite E0; reflexivity|].
    destruct (Hold' k r E) as [Ho Hm]; [rewrite E0; reflexivity|].
    rewrite E0 in Hm. cbn in Hm.
    assert (Hv : valid_cfg P (r_new r) = true).
    { rewrite Forall_forall in V2. apply V2. eapply nth_error_In; eassumption. }
    unfold entries_of in Ho.
    pose proof (membership_false_same_ids P (r_old r) (r_new r) Hfix11 Hpool) as Hs.
    rewrite Ho in Hs. specialize (Hs V1 Hv). rewrite <- Ho in Hs. specialize (Hs Hm c).
    rewrite Ho in Hs. unfold ids in *. rewrite Hs. apply K1'; auto.
  - exfalso. lia.
Qed.

Lemma exact_greach P s :
  fix_c09 P = true -> fix_c11 P = true -> good_pool P -> greach P s -> K_gen s /\ X_exact s.
Proof.
  intros Hf Hf11 Hp Hr.
  assert (H : Gall P s /\ K_gen s /\ X_exact s); [|apply H].
  revert s Hr. apply greach_inv.
  - split; [apply Gall_init|]. split; [intros k []|].
    intros _ _ c. cbn. tauto.
  - intros s l s' _ (G & Kg & X) Hl Hst.
    split; [eapply Gall_step; eassumption|]. split; [eapply K_gen_step; eassumption|].
    destruct (g_c10 P s G) as (_ & H1 & _).
    eapply (X_exact_step P s l s'); eauto using g_mu, g_valid, g_old.
Qed.

(* C09_exact: while the composite is Running and no Reload() is inside its critical section, the
   children started by the current boot generation are exactly the runnables of the current
   configuration *)
Theorem exact_running P s :
  fix_c09 P = true -> fix_c11 P = true -> good_pool P -> greach P s ->
  fsm s = FRunning -> reload_mu s = None ->
  forall c, In c (ids (entries_of s)) <-> In c (map k_child (cur_kids s)).
Proof.
  intros Hf Hf11 Hp Hr Hfsm Hmu.
  destruct (exact_greach P s Hf Hf11 Hp Hr) as [_ X].
  pose proof (Gall_greach P s Hf Hp Hr) as G.
  destruct (g_c10 P s G) as (_ & H1 & _).
  apply X.
  - intros E. assert (Hpre : pre_launch (runt s) = true) by (rewrite E; reflexivity).
    destruct (H1 Hpre) as (_ & _ & _ & _ & _ & Hn & _). contradiction.
  - destruct (g_mu P s G) as [Hm _]. rewrite Hmu in Hm. cbn in Hm.
    pose proof (count_le booting inside (reloaders s) booting_inside). lia.
Qed.

(* right after a boot the correspondence is exact as lists: one goroutine per entry, in order *)
Lemma boot_launch_exact P s o s' :
  K_gen s -> step P s (LBootLaunch o) = Some s' ->
  map k_child (cur_kids s') = ids (entries_of s) /\ entries_of s' = entries_of s.
Proof.
  intros Hg Hst. cbn [step] in Hst. destruct (at_boot_launch o s); [|discriminate].
  injection Hst as <-. unfold cur_kids, entries_of.
  destruct o; cbn; destruct (realloc_cases s) as [->|(_ & _ & ->)]; cbn;
    rewrite filter_app, (filter_gen_old (gen s) (kids s) Hg), filter_gen_spawn; cbn;
    unfold spawn_kids, ids; rewrite map_map; auto.
Qed.
