(* C09_exact in the form that is true of the code: outside the window between "configuration
   stored" and "children launched", the children of the current boot generation are exactly the
   runnables of the current configuration (as sets of pool members; as lists, in order, right after a
   boot). *)
From Coq Require Import List NArith Bool Arith Lia.
From GS Require Import Errs LTS Composite CompositeMon CompositeBase CompositeC10 CompositeC11
     CompositeLocks CompositeLive.
Import ListNotations.

Definition cur_kids (s : state) : list kid := filter (fun k => Nat.eqb (k_gen k) (gen s)) (kids s).

(* generations never exceed the boot counter *)
Definition K_gen (s : state) : Prop := forall k, In k (kids s) -> k_gen k <= gen s.

Lemma K_gen_step P s l s' : K_gen s -> step P s l = Some s' -> K_gen s'.
Proof.
  intros H Hst. unfold K_gen in *.
  open_step Hst; cbn; goal_cases; intros kd Hin; try (apply H; exact Hin).
  all: try (apply in_app_or in Hin as [Hin|Hin];
            [specialize (H _ Hin); lia
            |unfold spawn_kids in Hin; apply in_map_iff in Hin as (e & <- & _); cbn; lia]).
  all: try (apply in_upd in Hin as [Hin|(x & Hx & ->)];
            [apply H; exact Hin|cbn; apply H; eapply nth_error_In; eassumption]).
Qed.

Lemma filter_gen_upd_kpc g i p l :
  map k_child (filter (fun k => Nat.eqb (k_gen k) g) (upd i (set_kpc p) l))
  = map k_child (filter (fun k => Nat.eqb (k_gen k) g) l).
Proof.
  revert i; induction l as [|y l IH]; intros [|i]; cbn; auto.
  - destruct (Nat.eqb (k_gen y) g); cbn; reflexivity.
  - destruct (Nat.eqb (k_gen y) g); cbn; now rewrite IH.
Qed.

Lemma filter_gen_old g l : (forall k, In k l -> k_gen k <= g) -> filter (fun k => Nat.eqb (k_gen k) (S g)) l = [].
Proof.
  induction l as [|y l IH]; cbn; [reflexivity|]. intros H.
  assert (k_gen y <= g) by (apply H; now left).
  destruct (Nat.eqb (k_gen y) (S g)) eqn:E; [apply Nat.eqb_eq in E; lia|].
  apply IH. intros k Hk. apply H. now right.
Qed.

Lemma filter_gen_spawn o g es : filter (fun k => Nat.eqb (k_gen k) g) (spawn_kids o g es) = spawn_kids o g es.
Proof.
  unfold spawn_kids. induction es as [|e l IH]; cbn; [reflexivity|]. rewrite Nat.eqb_refl. now rewrite IH.
Qed.

Definition X_exact (s : state) : Prop :=
  runt s <> TBootLaunch -> count_r booting (reloaders s) = 0 ->
  forall c, In c (ids (entries_of s)) <-> In c (map k_child (cur_kids s)).

(* the repaired membership test: "unchanged" means the same set of pool members *)
Lemma membership_false_same_ids P old new :
  fix_c11 P = true -> good_pool P -> valid_cfg P old = true -> valid_cfg P new = true ->
  membership_changed P old new = false -> forall c, In c (ids new) <-> In c (ids old).
Proof.
  intros Hf Hp Ho Hn Hm. apply (membership_false_len_set P old new (or_intror Hf)) in Hm as [_ Hs].
  intros c. split; intros Hc.
  - eapply (same_names_same_ids P old new); eauto. intros n Hin. now apply Hs.
  - eapply (same_names_same_ids P new old); eauto. intros n Hin. now apply Hs.
Qed.

Lemma X_exact_step P s l s' :
  fix_c09 P = true -> fix_c11 P = true -> good_pool P ->
  I1 s -> L_mu P s -> G_valid P s -> G_old P s -> K_gen s -> X_exact s ->
  step P s l = Some s' -> X_exact s'.
Proof.
  intros Hfix Hfix11 Hpool H1 Hmu (V1 & V2) Hold Hgen K1 Hst.
  assert (K1' := K1). assert (Hmu' := Hmu). assert (Hold' := Hold).
  unfold X_exact, cur_kids, entries_of in *.
  open_step Hst; cbn; goal_cases; cbn in K1;
    unfold tear_pc, entries_of; rewrite ?Hfix; cbn; count_facts booting;
    repeat match goal with Hq : r_pc ?x = _ |- _ => rewrite Hq in * end; cbn in *.
  all: try (match goal with E : Some _ = None |- _ => discriminate E | E : None = Some _ |- _ => discriminate E end).
  all: repeat match goal with
              | Ea : cfg ?s = Some ?a, Eb : cfg ?s = Some ?b |- _ => rewrite Ea in Eb; injection Eb as <-
              | Ea : cfg ?s = Some ?a, Eb : cfg ?s = None |- _ => rewrite Ea in Eb; discriminate Eb
              | Ea : cfg ?s = None, Eb : cfg ?s = Some _ |- _ => rewrite Ea in Eb; discriminate Eb
              end.
  all: try (match goal with Ec : cfg ?s = _ |- _ => rewrite Ec in K1; cbn in K1 end).
  all: repeat match goal with E : Some _ = Some _ |- _ => injection E as <- end.
  all: try (match goal with Ec : cfg ?s = _ |- _ => rewrite ?Ec end).
  all: intros.
  all: try (match goal with Hne : ?a <> ?a |- _ => now elim Hne end).
  all: rewrite ?filter_gen_upd_kpc.
  all: try (apply K1; try assumption; try congruence; try lia; fail).
  all: try (rewrite filter_app, (filter_gen_old (gen s) (kids s) Hgen), filter_gen_spawn; cbn;
            unfold spawn_kids; rewrite map_map; cbn; tauto).
  all: try (rewrite filter_app, (filter_gen_old (gen s) (kids s) Hgen); cbn; tauto).
  - (* in-place reload: same set of pool members *)
    destruct (reloader_not_window P s k r H1 Hmu' E) as [Hw1 Hw2]; [rewrite E0; reflexivity|rewrite E0; reflexivity|].
    destruct (Hold' k r E) as [Ho Hm]; [rewrite E0; reflexivity|].
    rewrite E0 in Hm. cbn in Hm.
    assert (Hv : valid_cfg P (r_new r) = true).
    { rewrite Forall_forall in V2. apply V2. eapply nth_error_In; eassumption. }
    unfold entries_of in Ho.
    pose proof (membership_false_same_ids P (r_old r) (r_new r) Hfix11 Hpool) as Hs.
    rewrite Ho in Hs. specialize (Hs V1 Hv). rewrite <- Ho in Hs. specialize (Hs Hm c).
    rewrite Ho in Hs. unfold ids in *. rewrite Hs. apply K1'; auto.
  - exfalso. lia.
Qed.

Lemma exact_greach P s :
  fix_c09 P = true -> fix_c11 P = true -> good_pool P -> greach P s -> K_gen s /\ X_exact s.
Proof.
  intros Hf Hf11 Hp Hr.
  assert (H : Gall P s /\ K_gen s /\ X_exact s); [|apply H].
  revert s Hr. apply greach_inv.
  - split; [apply Gall_init|]. split; [intros k []|].
    intros _ _ c. cbn. tauto.
  - intros s l s' _ (G & Kg & X) Hl Hst.
    split; [eapply Gall_step; eassumption|]. split; [eapply K_gen_step; eassumption|].
    destruct (g_c10 P s G) as (_ & H1 & _).
    eapply (X_exact_step P s l s'); eauto using g_mu, g_valid, g_old.
Qed.

(* C09_exact: while the composite is Running and no Reload() is inside its critical section, the
   children started by the current boot generation are exactly the runnables of the current
   configuration *)
Theorem exact_running P s :
  fix_c09 P = true -> fix_c11 P = true -> good_pool P -> greach P s ->
  fsm s = FRunning -> reload_mu s = None ->
  forall c, In c (ids (entries_of s)) <-> In c (map k_child (cur_kids s)).
Proof.
  intros Hf Hf11 Hp Hr Hfsm Hmu.
  destruct (exact_greach P s Hf Hf11 Hp Hr) as [_ X].
  pose proof (Gall_greach P s Hf Hp Hr) as G.
  destruct (g_c10 P s G) as (_ & H1 & _).
  apply X.
  - intros E. assert (Hpre : pre_launch (runt s) = true) by (rewrite E; reflexivity).
    destruct (H1 Hpre) as (_ & _ & _ & _ & _ & Hn & _). contradiction.
  - destruct (g_mu P s G) as [Hm _]. rewrite Hmu in Hm. cbn in Hm.
    pose proof (count_le booting inside (reloaders s) booting_inside). lia.
Qed.

(* right after a boot the correspondence is exact as lists: one goroutine per entry, in order *)
Lemma boot_launch_exact P s o s' :
  K_gen s -> step P s (LBootLaunch o) = Some s' ->
  map k_child (cur_kids s') = ids (entries_of s) /\ entries_of s' = entries_of s.
Proof.
  intros Hg Hst. cbn [step] in Hst. destruct (at_boot_launch o s); [|discriminate].
  injection Hst as <-. unfold cur_kids, entries_of.
  destruct o; cbn; destruct (realloc_cases s) as [->|(_ & _ & ->)]; cbn;
    rewrite filter_app, (filter_gen_old (gen s) (kids s) Hg), filter_gen_spawn; cbn;
    unfold spawn_kids, ids; rewrite map_map; auto.
Qed.

(* ------------------------------------------------------------------ no child of an older generation is running
   (the code with /repo f0fcb2b: fix_stale) *)

Lemma K_gen_reach P s : reach P s -> K_gen s.
Proof. apply reach_inv; [intros k []|]. intros; eapply K_gen_step; eassumption. Qed.

Lemma boot_launch_exact_reach P s o s' :
  reach P s -> step P s (LBootLaunch o) = Some s' ->
  map k_child (cur_kids s') = ids (entries_of s) /\ entries_of s' = entries_of s.
Proof. intros Hr. apply boot_launch_exact. eapply K_gen_reach; eassumption. Qed.

Definition post_join (p : rpc) : bool :=
  match p with RSetCfg | RBootLock | RBootLaunch => true | _ => false end.

Lemma post_join_inside p : post_join p = true -> inside p = true.
Proof. destruct p; cbn; auto; discriminate. Qed.

Lemma is_drain_inside p : is_drain p = true -> inside p = true.
Proof. destruct p; cbn; auto; discriminate. Qed.

(* D: while a stopAllRunnables drains, the cancelled generation is the current one
   Z: between a reloader's stopAllRunnables and its boot every child goroutine has finished
   Y: every goroutine of an older generation has finished *)
Lemma outside_count0 f s :
  all_outside s -> (forall p, f p = true -> inside p = true) -> count_r f (reloaders s) = 0.
Proof.
  intros Ho Hf. destruct (count_r f (reloaders s)) eqn:E; [reflexivity|exfalso].
  destruct (count_pos_nth f (reloaders s) ltac:(lia)) as (k & r & Hk & Hr).
  pose proof (outside_nth _ _ _ Ho Hk) as Hout. apply Hf in Hr. unfold inside in Hr.
  rewrite Hout in Hr. discriminate Hr.
Qed.

Definition Y_inv (s : state) : Prop :=
  ((0 < count_r is_drain (reloaders s) \/ runt s = TStopDrain) -> gen_cancelled s = gen s)
  /\ (0 < count_r post_join (reloaders s) -> forallb kdone (kids s) = true)
  /\ (forall k, In k (kids s) -> k_gen k < gen s -> kdone k = true).

Lemma kdone_nth_contra l i k :
  forallb kdone l = true -> nth_error l i = Some k -> kdone k = false -> False.
Proof.
  intros H Hn Hk. rewrite forallb_forall in H. specialize (H k (nth_error_In _ _ Hn)). congruence.
Qed.

Lemma Y_inv_step P s l s' :
  fix_c09 P = true -> fix_stale P = true ->
  I1 s -> L_mu P s -> K_gen s -> Y_inv s -> step P s l = Some s' -> Y_inv s'.
Proof.
  intros Hf Hfs H1 Hmu Hgen (D & Z & Y) Hst.
  pose proof (L_mu_inside_le P s Hmu) as Hle.
  unfold Y_inv.
  open_step Hst; cbn; goal_cases; try congruence;
    count_facts is_drain; count_facts post_join;
    repeat match goal with Hq : r_pc ?x = _ |- _ => rewrite Hq in * end; cbn in *;
    rewrite ?Nat.add_0_r in *; unfold tear_pc; rewrite ?Hf.
  all: try (split_all;
            [ intros Hd; apply D; destruct Hd as [Hd|Hd];
              [left; lia | first [right; exact Hd | right; congruence | discriminate Hd]]
            | intros Hz; apply Z; lia
            | exact Y ]; fail).
  all: try (match goal with E : fix_stale _ = false |- _ => rewrite Hfs in E; discriminate E end).
  (* kid goroutine steps *)
  all: try (match goal with
            | Ek : nth_error (kids ?s0) ?i = Some ?k, Epc : k_pc ?k = _ |- _ =>
              split_all;
              [ intros Hd; apply D; destruct Hd as [Hd|Hd]; [left; lia|right; exact Hd]
              | intros Hz; exfalso; eapply (kdone_nth_contra (kids s0) i k);
                [apply Z; exact Hz|exact Ek|unfold kdone; rewrite Epc; reflexivity]
              | intros k' Hin Hlt; apply in_upd in Hin as [Hin|(x' & Hx' & ->)];
                [apply Y; assumption|];
                assert (x' = k) by congruence; subst x'; cbn in Hlt;
                pose proof (Y k (nth_error_In _ _ Ek) Hlt) as Hdone;
                unfold kdone in Hdone; rewrite Epc in Hdone; discriminate Hdone ]; fail
            end).
  - (* initial boot: nothing was running *)
    assert (Hpre : pre_launch (runt s) = true) by (rewrite En; reflexivity).
    destruct (H1 Hpre) as (Hk & _ & _ & _ & Ho & _).
    pose proof (outside_count0 is_drain s Ho is_drain_inside) as C1.
    pose proof (outside_count0 post_join s Ho post_join_inside) as C2.
    split_all; [intros [Hd|Hd]; [lia|discriminate Hd]|intros Hz; lia|].
    intros k Hin Hl2. rewrite Hk in Hin. cbn in Hin.
    unfold spawn_kids in Hin. apply in_map_iff in Hin as (e0 & <- & _). cbn in *. lia.
  - assert (Hpre : pre_launch (runt s) = true) by (rewrite En; reflexivity).
    destruct (H1 Hpre) as (Hk & _ & _ & _ & Ho & _).
    pose proof (outside_count0 is_drain s Ho is_drain_inside) as C1.
    pose proof (outside_count0 post_join s Ho post_join_inside) as C2.
    split_all; [intros [Hd|Hd]; [lia|discriminate Hd]|intros Hz; lia|].
    intros k Hin Hl2. rewrite Hk in Hin. cbn in Hin.
    unfold spawn_kids in Hin. apply in_map_iff in Hin as (e0 & <- & _). cbn in *. lia.
  - (* a reloader's boot: every earlier goroutine has finished *)
    assert (Hi : inside (r_pc x) = true) by (rewrite Hp; reflexivity).
    assert (Cd : count_r is_drain (reloaders s) = 0)
      by (eapply (count_one_other inside is_drain); eauto using is_drain_inside; rewrite Hp; reflexivity).
    pose proof (count_le post_join inside (reloaders s) post_join_inside) as Cle.
    assert (Hall : forallb kdone (kids s) = true) by (apply Z; lia).
    split_all.
    + intros [Hd|Hd]; [lia|exfalso].
      destruct Hmu as [Hm _]. rewrite Hf, Hd in Hm. cbn in Hm.
      pose proof (count_nth_le inside _ _ _ Hx Hi). destruct (negb (mu_free (reload_mu s))); cbn in Hm; lia.
    + intros Hz. lia.
    + intros k0 Hin Hl2. apply in_app_or in Hin as [Hin|Hin].
      * rewrite forallb_forall in Hall. now apply Hall.
      * unfold spawn_kids in Hin. apply in_map_iff in Hin as (e0 & <- & _). cbn in *. lia.
  - assert (Hi : inside (r_pc x) = true) by (rewrite Hp; reflexivity).
    assert (Cd : count_r is_drain (reloaders s) = 0)
      by (eapply (count_one_other inside is_drain); eauto using is_drain_inside; rewrite Hp; reflexivity).
    pose proof (count_le post_join inside (reloaders s) post_join_inside) as Cle.
    assert (Hall : forallb kdone (kids s) = true) by (apply Z; lia).
    split_all.
    + intros [Hd|Hd]; [lia|exfalso].
      destruct Hmu as [Hm _]. rewrite Hf, Hd in Hm. cbn in Hm.
      pose proof (count_nth_le inside _ _ _ Hx Hi). destruct (negb (mu_free (reload_mu s))); cbn in Hm; lia.
    + intros Hz. lia.
    + intros k0 Hin Hl2. apply in_app_or in Hin as [Hin|Hin].
      * rewrite forallb_forall in Hall. now apply Hall.
      * unfold spawn_kids in Hin. apply in_map_iff in Hin as (e0 & <- & _). cbn in *. lia.
  - split_all; [reflexivity|exact Z|exact Y].
  - split_all; [reflexivity|intros Hz; apply Z; lia|exact Y].
  - (* the drain is over: every goroutine launched so far has finished *)
    assert (Hg : gen_cancelled s = gen s) by (apply D; left; lia).
    split_all; [intros _; exact Hg| |exact Y].
    intros _. apply forallb_forall. intros kd Hin.
    unfold drained in H0. rewrite forallb_forall in H0. specialize (H0 kd Hin).
    rewrite Hg in H0. pose proof (Hgen kd Hin) as Hle2.
    apply orb_true_iff in H0 as [H0|H0]; [|exact H0].
    apply negb_true_iff, Nat.leb_gt in H0. lia.
  - destruct (membership_changed P (entries_of s) c); cbn in Hc, Hc0; rewrite Nat.add_0_r in Hc, Hc0; subst n n0;
      (split_all; [intros [Hd|Hd]; apply D; [left; exact Hd|right; exact Hd]|exact Z|exact Y]).
Qed.

Lemma Y_reach P s :
  fix_c09 P = true -> fix_stale P = true -> reach P s -> K_gen s /\ Y_inv s.
Proof.
  intros Hf Hfs Hr.
  assert (H : (InvC10 s /\ L_mu P s) /\ K_gen s /\ Y_inv s); [|apply H].
  revert s Hr. apply reach_inv.
  - split; [split; [apply InvC10_init|unfold L_mu; cbn; split; [now rewrite andb_false_r|discriminate]]|].
    split; [intros k []|]. unfold Y_inv. cbn. split_all.
    + intros [H|H]; [inversion H|discriminate H].
    + intros H. inversion H.
    + intros k [].
  - intros s l s' ((Hc & Hmu) & Kg & Yi) Hst.
    split; [split; [eapply InvC10_step; eassumption|eapply L_mu_step; eassumption]|].
    split; [eapply K_gen_step; eassumption|].
    destruct Hc as (_ & H1 & _). eapply (Y_inv_step P s l s'); eassumption.
Qed.

(* C09_exact, second half (code with /repo f0fcb2b and 82de565): at every moment, every child
   goroutine of an older boot generation has finished - no child outside the current generation is
   running *)
Theorem older_generations_finished P s :
  fix_c09 P = true -> fix_stale P = true -> reach P s ->
  forall k, In k (kids s) -> k_gen k < gen s -> k_pc k = KDone.
Proof.
  intros Hf Hfs Hr k Hin Hlt.
  destruct (Y_reach P s Hf Hfs Hr) as (_ & _ & _ & Y).
  specialize (Y k Hin Hlt). unfold kdone in Y. destruct (k_pc k); try discriminate Y. reflexivity.
Qed.

(* between a reload's stopAllRunnables and its boot no child goroutine at all is alive *)
Theorem all_finished_before_reboot P s k r :
  fix_c09 P = true -> fix_stale P = true -> reach P s ->
  nth_error (reloaders s) k = Some r -> post_join (r_pc r) = true ->
  forallb kdone (kids s) = true.
Proof.
  intros Hf Hfs Hr Hn Hp.
  destruct (Y_reach P s Hf Hfs Hr) as (_ & _ & Z & _).
  apply Z. pose proof (count_nth_le post_join _ _ _ Hn Hp). lia.
Qed.
