(* proofs about model/RWriter.v: the getters equal what the underlying writer received, for every
   operation sequence and every behaviour of the underlying writer *)
From Coq Require Import List ZArith Bool Lia.
Import ListNotations.
From GS Require Import RWriter.
Open Scope Z_scope.

Definition Inv (s : st) : Prop :=
  g_size s = body_bytes (sent s) /\
  g_written s = anything_sent (sent s) /\
  (g_written s = true -> first_status (sent s) = Some (w_status (wr s))) /\
  (g_written s = false -> sent s = [] /\ w_status (wr s) = 0) /\
  (count_wh (sent s) <= 1)%nat /\
  (g_written s = true -> count_wh (sent s) = 1%nat) /\
  (match sent s with UW _ :: _ => False | _ => True end).

Lemma body_bytes_app a b : body_bytes (a ++ b) = body_bytes a + body_bytes b.
Proof. induction a as [|[c|n] a IH]; cbn [app body_bytes]; lia. Qed.
Lemma count_wh_app a b : count_wh (a ++ b) = (count_wh a + count_wh b)%nat.
Proof. induction a as [|[c|n] a IH]; cbn [app count_wh]; lia. Qed.
Lemma first_status_app_some a b c : first_status a = Some c -> first_status (a ++ b) = Some c.
Proof. induction a as [|[k|n] a IH]; cbn [app first_status]; intros H; auto; discriminate. Qed.
Lemma anything_app a x : anything_sent (a ++ [x]) = true.
Proof. destruct a; reflexivity. Qed.

Lemma inv_init : Inv init.
Proof. unfold Inv, init, g_size, g_written; cbn. repeat split; auto; intros; discriminate. Qed.

Lemma wh_inv c p s : Inv s -> Inv (fst (write_header c p s)).
Proof.
  intros I. unfold write_header.
  destruct (w_written (wr s)) eqn:W; [exact I|].
  destruct p; [exact I|]. cbn [fst].
  destruct I as (I1 & I2 & I3 & I4 & I5 & I6 & I7).
  unfold g_written in *. rewrite W in *. destruct (I4 eq_refl) as [I4a I4b].
  unfold Inv, g_size, g_written in *; cbn [wr sent w_size w_written w_status] in *.
  rewrite I4a in *. cbn. repeat split; auto; intros; discriminate.
Qed.

Lemma wh_written_after c s s' : write_header c false s = (s', false) -> w_written (wr s') = true.
Proof. unfold write_header. destruct (w_written (wr s)) eqn:W; intros H; inversion H; subst; auto. Qed.

Lemma step_inv s o : Inv s -> Inv (fst (step s o)).
Proof.
  intros I. destruct o as [c p|len p n e]; cbn [step].
  - pose proof (wh_inv c p s I) as H. destruct (write_header c p s) as [s' pk]. exact H.
  - pose proof (wh_inv 200 p s I) as H. destruct (write_header 200 p s) as [s1 pk] eqn:E. cbn [fst] in H.
    destruct pk; [exact H|]. cbn [fst].
    assert (W : w_written (wr s1) = true).
    { unfold write_header in E. destruct (w_written (wr s)) eqn:W0.
      - inversion E; subst; auto.
      - destruct p; inversion E; subst; reflexivity. }
    destruct H as (I1 & I2 & I3 & I4 & I5 & I6 & I7).
    unfold Inv, g_size, g_written in *; cbn [wr sent w_size w_written w_status] in *.
    rewrite W in *. specialize (I3 eq_refl). specialize (I6 eq_refl).
    rewrite body_bytes_app, count_wh_app, anything_app. cbn [body_bytes count_wh].
    split; [lia|]. split; [reflexivity|]. split; [intros _; apply first_status_app_some; exact I3|].
    split; [intros X; discriminate X|]. split; [lia|]. split; [intros _; lia|].
    destruct (sent s1) as [|[k|m] r]; cbn; auto. cbn in I6. discriminate I6.
Qed.

Lemma run_inv ops : forall s, Inv s -> Inv (run s ops).
Proof. induction ops as [|o r IH]; intros s I; cbn [run]; auto. apply IH, step_inv, I. Qed.


(* the underlying writer is assumed to refuse (panic on) status code 0, as net/http's
   checkWriteHeaderCode does for every code outside 100..999; the getter Status() maps a stored 0 to 200 *)
Definition op_ok (o : op) : bool :=
  match o with OWH c p => negb (Z.eqb c 0) || p | OW _ _ _ _ => true end.

Definition NoZero (s : st) : Prop := g_written s = true -> w_status (wr s) <> 0.

Lemma step_nozero s o : op_ok o = true -> NoZero s -> NoZero (fst (step s o)).
Proof.
  unfold NoZero, g_written. intros K H. destruct o as [c p|len p n e]; cbn [step].
  - unfold write_header. destruct (w_written (wr s)) eqn:W; cbn [fst]; [rewrite W; auto|].
    destruct p; cbn [fst]; [rewrite W; discriminate|]. cbn. intros _.
    cbn [op_ok] in K. rewrite orb_false_r in K. apply negb_true_iff in K. apply Z.eqb_neq in K. exact K.
  - unfold write_header. destruct (w_written (wr s)) eqn:W; cbn [fst].
    + cbn. intros _. auto.
    + destruct p; cbn [fst]; [rewrite W; discriminate|]. cbn. intros _. discriminate.
Qed.

Lemma run_nozero ops : forall s, forallb op_ok ops = true -> NoZero s -> NoZero (run s ops).
Proof.
  induction ops as [|o r IH]; intros s K H; cbn [run]; auto.
  cbn [forallb] in K. apply andb_true_iff in K as [K1 K2]. apply IH; auto. apply step_nozero; auto.
Qed.

Theorem getters_equal_sent ops :
  let s := run init ops in
  g_size s = body_bytes (sent s) /\
  g_written s = anything_sent (sent s) /\
  (count_wh (sent s) <= 1)%nat /\
  (g_written s = false -> g_status s = 0 /\ g_size s = 0 /\ sent s = []) /\
  (forallb op_ok ops = true -> g_written s = true -> first_status (sent s) = Some (g_status s)).
Proof.
  cbn zeta. pose proof (run_inv ops init inv_init) as (I1 & I2 & I3 & I4 & I5 & I6 & I7).
  repeat split; auto.
  - unfold g_status. destruct (I4 H) as [_ E]. rewrite E. unfold g_written in H. rewrite H. reflexivity.
  - destruct (I4 H) as [E _]. rewrite I1, E. reflexivity.
  - apply I4, H.
  - intros K W. rewrite (I3 W). f_equal. unfold g_status.
    assert (NZ : NoZero (run init ops)) by (apply run_nozero; auto; intros X; discriminate X).
    specialize (NZ W). apply Z.eqb_neq in NZ. rewrite NZ. reflexivity.
Qed.

(* Status() never changes once written; Size() changes by exactly what the underlying accepted *)
Theorem status_stable s o : Inv s -> g_written s = true -> g_status (fst (step s o)) = g_status s /\ g_written (fst (step s o)) = true.
Proof.
  unfold g_written, g_status. intros _ W. destruct o as [c p|len p n e]; cbn [step]; unfold write_header; rewrite W; cbn; rewrite W; auto.
Qed.

Theorem size_step s len p n e s' :
  step s (OW len p n e) = (s', OutWrite n e) -> g_size s' = g_size s + n.
Proof.
  cbn [step]. unfold write_header. destruct (w_written (wr s)); [|destruct p]; intros H; inversion H; subst; reflexivity.
Qed.

(* a Write whose implicit WriteHeader panicked sends nothing and changes nothing *)
Theorem write_panic_noop s len n e : g_written s = false -> step s (OW len true n e) = (s, OutPanic).
Proof. unfold g_written. intros W. cbn [step]. unfold write_header. rewrite W. reflexivity. Qed.

(* the guard of getters_equal_sent is needed: an underlying writer that accepts code 0 makes Status() report 200 *)
Example status_zero_reports_200 :
  let s := run init [OWH 0 false] in first_status (sent s) = Some 0 /\ g_status s = 200.
Proof. vm_compute. split; reflexivity. Qed.
