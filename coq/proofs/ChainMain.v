(* C15 — the statements used by props/C15.v, assembled from ChainRef / ChainTrace / ChainWriter. *)
From Coq Require Import List NArith ZArith Bool Lia Sorted.
From GS Require Import Chain ChainRef ChainTrace ChainWriter.
Import ListNotations.
Open Scope Z_scope.

(* the trace of a finished run of the reference interpreter *)
Definition rtrace (hs : list handler) (path : list N) : list event := trace_of (ref hs path).
(* and of the index machine *)
Definition etrace (fuel : nat) (hs : list handler) (path : list N) : list event :=
  trace_of (forget (exec fuel hs path)).

Lemma etrace_rtrace : forall fuel hs path, (length hs < fuel)%nat -> etrace fuel hs path = rtrace hs path.
Proof. intros. unfold etrace, rtrace. rewrite exec_ref; auto. Qed.

(* the three order properties as one predicate on a trace *)
Definition order_props (t : list event) : Prop :=
  (* registration order, no gaps, each at most once *)
  enters t = zseq 0 (length (enters t)) /\ StronglySorted Z.lt (enters t) /\
  (* returns from Next in non-increasing handler index = post-Next code in reverse order *)
  StronglySorted ge_rel (nextrets t) /\
  (* nothing is entered after an Abort, after any Next has returned, or after a recovered panic *)
  (forall t1 e t2, t = t1 ++ e :: t2 -> stops e = true -> enters t2 = []).

Lemma mon_order_props : forall t, mon_ok t = true -> order_props t.
Proof.
  intros t H. unfold order_props. pose proof (mon_enters t H) as E. repeat split.
  - exact E.
  - rewrite E. apply zseq_sorted.
  - apply mon_rets_sorted; auto.
  - intros t1 e t2 Et Hs. eapply mon_no_enter_after_stop; eauto.
Qed.

Theorem ref_order : forall hs path, order_props (rtrace hs path).
Proof. intros. apply mon_order_props. apply ref_mon_ok. Qed.

Theorem exec_order : forall fuel hs path, (length hs < fuel)%nat -> order_props (etrace fuel hs path).
Proof. intros. rewrite etrace_rtrace by auto. apply ref_order. Qed.

Theorem ref_enters_order : forall hs path,
  enters (rtrace hs path) = zseq 0 (length (enters (rtrace hs path))) /\
  StronglySorted Z.lt (enters (rtrace hs path)).
Proof. intros hs path. destruct (ref_order hs path) as (H1 & H2 & _). split; assumption. Qed.

Theorem ref_nesting : forall hs path, StronglySorted (fun a b => b <= a) (nextrets (rtrace hs path)).
Proof. intros hs path. destruct (ref_order hs path) as (_ & _ & H & _). exact H. Qed.

(* an effective Next (one that entered a handler) happens at most once per handler:
   after handler i's first return from Next, nobody is entered any more *)
Theorem ref_next_once : forall hs path t1 i t2,
  rtrace hs path = t1 ++ ENextRet i :: t2 -> enters t2 = [].
Proof.
  intros hs path t1 i t2 E. destruct (ref_order hs path) as (_ & _ & _ & H).
  apply (H t1 (ENextRet i) t2 E). reflexivity.
Qed.

Theorem ref_abort_stops : forall hs path t1 i t2,
  rtrace hs path = t1 ++ EAbort i :: t2 -> enters t2 = [].
Proof.
  intros hs path t1 i t2 E. destruct (ref_order hs path) as (_ & _ & _ & H).
  apply (H t1 (EAbort i) t2 E). reflexivity.
Qed.

Theorem ref_recovered_stops : forall hs path t1 i sent code t2,
  rtrace hs path = t1 ++ ERecovered i sent code :: t2 -> enters t2 = [].
Proof.
  intros hs path t1 i sent code t2 E. destruct (ref_order hs path) as (_ & _ & _ & H).
  apply (H t1 (ERecovered i sent code) t2 E). reflexivity.
Qed.

(* final writer state of a finished run *)
Definition final_w (o : outcome core) : option wstate :=
  match o with Done c | Panicked c => Some (c_w c) | _ => None end.

Lemma ref_cases : forall hs path,
  exists c, ref hs path = Done c \/ ref hs path = Panicked c.
Proof.
  intros hs path. destruct (ref_total hs path) as [H1 H2].
  destruct (ref hs path) as [c|c| |]; try contradiction; eauto.
Qed.

Theorem ref_getters : forall hs path,
  exists w, final_w (ref hs path) = Some w /\ getters_spec w.
Proof.
  intros hs path. destruct (ref_cases hs path) as [c Hc].
  exists (c_w c). split.
  - destruct Hc as [E|E]; rewrite E; reflexivity.
  - eapply getters_ok; eauto.
Qed.

Theorem exec_getters : forall fuel hs path,
  (length hs < fuel)%nat ->
  exists w, final_w (forget (exec fuel hs path)) = Some w /\ getters_spec w.
Proof. intros. rewrite exec_ref by auto. apply ref_getters; auto. Qed.

Theorem ref_recovered_status : forall hs path j sent code,
  In (ERecovered j sent code) (rtrace hs path) ->
  exists w, final_w (ref hs path) = Some w /\
    r_wrote (rc w) = true /\ r_code (rc w) = (if sent then code else 500%N) /\
    g_written w = true /\ g_status w = (if sent then code else 500%N).
Proof.
  intros hs path j sent code Hin. destruct (ref_cases hs path) as [c Hc].
  exists (c_w c). split.
  - destruct Hc as [E|E]; rewrite E; reflexivity.
  - apply (recovered_status hs path c Hc j sent code).
    unfold rtrace in Hin. destruct Hc as [E|E]; rewrite E in Hin; exact Hin.
Qed.

Theorem ref_status_stands : forall hs path j st sz ab,
  In (EObs j st true sz ab) (rtrace hs path) ->
  exists w, final_w (ref hs path) = Some w /\ g_written w = true /\ g_status w = st.
Proof.
  intros hs path j st sz ab Hin. destruct (ref_cases hs path) as [c Hc].
  exists (c_w c). split.
  - destruct Hc as [E|E]; rewrite E; reflexivity.
  - apply (status_stands hs path c Hc j st sz ab).
    unfold rtrace in Hin. destruct Hc as [E|E]; rewrite E in Hin; exact Hin.
Qed.
