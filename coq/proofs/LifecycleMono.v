(* No label whatsoever increases a Stop caller's measure (both step functions): together with
   C07_progress (a helpful label is enabled and strictly decreases it) this bounds the number of
   helpful steps a caller needs by its initial measure (<= 8), whatever else is scheduled. *)
From Coq Require Import List Arith Bool Lia.
From GS Require Import Lifecycle LifecycleInv LifecycleMain LifecycleRunner LifecycleRunnerProofs.
Import ListNotations.

Lemma cyc_at_none_len : forall l, cyc_at l (length l) = None.
Proof.
  intro l. destruct (cyc_at l (length l)) eqn:E; [|reflexivity].
  apply cyc_at_lt in E. lia.
Qed.

Lemma cyc_rem_same : forall s s' g, cycles s' = cycles s -> cyc_rem s' g = cyc_rem s g.
Proof. intros s s' g H. unfold cyc_rem. rewrite H. reflexivity. Qed.

Lemma cyc_rem_headpc : forall s s' d st p p' t g,
  cycles s = mkCyc d st p :: t -> cycles s' = mkCyc d st p' :: t ->
  (match p' with Body => 2 | Exiting => 1 | Finished => 0 end) <=
  (match p with Body => 2 | Exiting => 1 | Finished => 0 end) ->
  cyc_rem s' g <= cyc_rem s g.
Proof.
  intros s s' d st p p' t g H H' Hle. unfold cyc_rem. rewrite H, H'. cbn.
  destruct (g =? length t); cbn; [exact Hle | lia].
Qed.

Lemma cyc_rem_mono : forall fx s l s' g, step fx s l = Some s' -> cyc_rem s' g <= cyc_rem s g.
Proof.
  intros fx s l s' g Hs.
  destruct (is_caller_label l) eqn:Ec.
  - rewrite (cyc_rem_same s s' g (caller_step_cycles _ _ _ _ Ec Hs)). lia.
  - destruct l as [|k|k|k|k| | | |]; try discriminate; cbn [step] in Hs.
    + destruct (run_idle (cycles s)); [|discriminate]. inversion Hs; subst.
      unfold cyc_rem. cbn [cycles started cyc_at].
      destruct (g =? length (cycles s)) eqn:E.
      * apply Nat.eqb_eq in E. subst g. rewrite cyc_at_none_len. cbn. lia.
      * lia.
    + destruct (cycles s) as [|[d st p] t] eqn:Ecy; [discriminate|]. destruct p; try discriminate.
      destruct (is_closed s st); [|discriminate]. inversion Hs; subst.
      eapply cyc_rem_headpc; [exact Ecy | reflexivity | cbn; lia].
    + destruct (cycles s) as [|[d st p] t] eqn:Ecy; [discriminate|]. destruct p; try discriminate.
      inversion Hs; subst. eapply cyc_rem_headpc; [exact Ecy | reflexivity | cbn; lia].
    + destruct (cycles s) as [|[d st p] t] eqn:Ecy; [discriminate|]. destruct p; try discriminate.
      inversion Hs; subst. eapply cyc_rem_headpc; [exact Ecy | reflexivity | cbn; lia].
Qed.

Lemma measure_same_caller : forall s s' c,
  (forall g, cyc_rem s' g <= cyc_rem s g) -> measure s' c <= measure s c.
Proof.
  intros s s' c H. unfold measure. specialize (H (c_tgt c)). destruct (c_pc c); cbn; lia.
Qed.

Lemma upd_cases : forall A (l : list A) j k x c c',
  nth_error l k = Some c -> nth_error (upd l j x) k = Some c' ->
  (k = j /\ c' = x) \/ (k <> j /\ c' = c).
Proof.
  intros A l j k x c c' Hn Hn'. destruct (Nat.eq_dec k j) as [E|NE].
  - subst j. rewrite (upd_nth_same _ _ _ _ _ Hn) in Hn'. inversion Hn'. auto.
  - rewrite upd_nth_other in Hn' by exact NE. right. split; [exact NE | congruence].
Qed.

Theorem measure_mono : forall fx s l s' k c c',
  step fx s l = Some s' -> nth_error (callers s) k = Some c -> nth_error (callers s') k = Some c' ->
  measure s' c' <= measure s c.
Proof.
  intros fx s l s' k c c' Hs Hn Hn'.
  assert (Hcr : forall g, cyc_rem s' g <= cyc_rem s g) by (intro g; eapply cyc_rem_mono; eauto).
  assert (Hsame : c' = c -> measure s' c' <= measure s c).
  { intros ->. apply measure_same_caller. exact Hcr. }
  pose proof (cyc_rem_le s') as Hle3.
  destruct l as [|j|j|j|j| | | |]; cbn [step] in Hs.
  - inversion Hs; subst. cbn in Hn'. apply Hsame.
    rewrite nth_error_app1 in Hn' by (apply nth_error_Some; congruence). congruence.
  - destruct (nth_error (callers s) j) as [[pc g sp]|] eqn:En; [|discriminate].
    destruct pc; try discriminate. inversion Hs; subst. cbn [callers with_callers] in Hn'.
    destruct (upd_cases _ _ _ _ _ _ _ Hn Hn') as [[E ->]|[_ E]]; [|apply Hsame; exact E].
    subst j. rewrite Hn in En. inversion En; subst. unfold measure. cbn.
    match goal with |- context [cyc_rem ?x ?y] => pose proof (cyc_rem_le x y) end. lia.
  - destruct (nth_error (callers s) j) as [[pc g sp]|] eqn:En; [|discriminate].
    destruct pc as [|ch| | |]; try discriminate. destruct (is_closed s ch); [|discriminate].
    inversion Hs; subst. cbn [callers with_callers] in Hn'.
    destruct (upd_cases _ _ _ _ _ _ _ Hn Hn') as [[E ->]|[_ E]]; [|apply Hsame; exact E].
    subst j. rewrite Hn in En. inversion En; subst. unfold measure. cbn.
    specialize (Hcr g). unfold cyc_rem in *. cbn [cycles with_callers] in *. lia.
  - destruct (nth_error (callers s) j) as [[pc g sp]|] eqn:En; [|discriminate].
    destruct pc; try discriminate.
    destruct (gen s =? g); [|destruct fx]; inversion Hs; subst; cbn [callers with_callers] in Hn';
      (destruct (upd_cases _ _ _ _ _ _ _ Hn Hn') as [[E ->]|[_ E]]; [|apply Hsame; exact E]);
      subst j; rewrite Hn in En; inversion En; subst; unfold measure; cbn;
      specialize (Hcr g); unfold cyc_rem in *; cbn [cycles with_callers] in *; lia.
  - destruct (nth_error (callers s) j) as [[pc g sp]|] eqn:En; [|discriminate].
    destruct pc as [| | |d|]; try discriminate. destruct (is_closed s d); [|discriminate].
    inversion Hs; subst. cbn [callers with_callers] in Hn'.
    destruct (upd_cases _ _ _ _ _ _ _ Hn Hn') as [[E ->]|[_ E]]; [|apply Hsame; exact E].
    subst j. rewrite Hn in En. inversion En; subst. unfold measure. cbn. lia.
  - destruct (run_idle (cycles s)); [|discriminate]. inversion Hs; subst.
    apply Hsame. cbn [callers started] in Hn'. congruence.
  - destruct (cycles s) as [|[d st p] t]; [discriminate|]. destruct p; try discriminate.
    destruct (is_closed s st); [|discriminate]. inversion Hs; subst.
    apply Hsame. cbn in Hn'. congruence.
  - destruct (cycles s) as [|[d st p] t]; [discriminate|]. destruct p; try discriminate.
    inversion Hs; subst. apply Hsame. cbn in Hn'. congruence.
  - destruct (cycles s) as [|[d st p] t]; [discriminate|]. destruct p; try discriminate.
    inversion Hs; subst. apply Hsame. cbn in Hn'. congruence.
Qed.
