(* C10 / C08: Run()'s result and the machine state, in the full composite model, for every schedule -
   in particular whatever Reload() is in progress when Run() handles a child's failure.

   [error_result_state_error]   whenever Run() has computed a non-nil result the state is Error
   [failure_state_error]        once Run() has taken a child's failure - or reports one - the state is Error
   [c10_clause7_link]           the monitor clause 7 of C10_holdsb ("Run() reports a failed child =>
                                every state observed after its return is Error") holds on the observable
                                trace of every schedule of the model. *)
From Coq Require Import List NArith Bool Arith Lia.
From GS Require Import Errs LTS Composite CompositeMon CompositeBase CompositeC10 CompositeMonLink.
Import ListNotations.

(* ------------------------------------------------------------------ invariants *)

Definition not_started (p : tpc) : bool := match p with TIdle | TCalled => true | _ => false end.

(* before Run() has performed its first transition the machine is New, or Error (a Reload() on a
   runner that is not running forces Error) *)
Definition J (s : state) : Prop := not_started (runt s) = true -> fsm s = FNew \/ fsm s = FError.

(* a non-nil result of Run() always comes with Error *)
Definition K (s : state) : Prop := forall x, result_of (runt s) = Some (Some x) -> fsm s = FError.

Ltac fsm_contra :=
  match goal with
  | Ha : allowed (fsm ?s) _ = true, Hf : fsm ?s = _ \/ fsm ?s = _ |- _ =>
    exfalso; destruct Hf as [Hf|Hf]; rewrite Hf in Ha; discriminate Ha
  | Ha : allowed (fsm ?s) _ = true, Hf : fsm ?s = _ |- _ =>
    exfalso; rewrite Hf in Ha; discriminate Ha
  end.

Lemma J_step P s l s' : J s -> step P s l = Some s' -> J s'.
Proof.
  intros H Hst. unfold J in *.
  open_step Hst; cbn; goal_cases; intros Hp; try discriminate Hp;
    try (rewrite ?tear_not_pre in Hp; discriminate Hp);
    try (unfold tear_pc in Hp; destruct (fix_c09 P); discriminate Hp).
  all: try (apply H; exact Hp).
  all: try (right; reflexivity).
  all: try (match goal with E : runt ?z = _, H0 : not_started (runt ?z) = true -> _ |- _ => rewrite E in H0; specialize (H0 eq_refl) end;
            try fsm_contra).
  all: try (specialize (H Hp); try fsm_contra; exact H).
  all: try (match goal with E0 : fsm ?z = _ |- _ => rewrite E0; apply H; exact Hp end).
Qed.

Lemma K_step P s l s' : J s -> I3 s -> K s -> step P s l = Some s' -> K s'.
Proof.
  intros HJ H3 H Hst. unfold K in *.
  open_step Hst; cbn; goal_cases; intros x' Hx'; try discriminate Hx';
    try (rewrite tear_result in Hx'; discriminate Hx').
  all: try reflexivity.
  all: try (apply (H x'); exact Hx'; fail).
  all: try (match goal with E : runt ?z = _, H0 : forall x, result_of (runt ?z) = Some (Some x) -> _ |- _ => rewrite E in H0; cbn in H0 end).
  all: try (specialize (H _ Hx'); try fsm_contra; try (rewrite H in *; discriminate); exact H).
  all: try (match goal with Et : took ?z = Some ?e |- _ => destruct (H3 _ Et) as (_ & Hf & _); exact Hf end).
  all: try (unfold J in HJ; match goal with E : runt ?z = _ |- _ => rewrite E in HJ end; specialize (HJ eq_refl);
            destruct HJ as [HJ|HJ]; [|exact HJ];
            match goal with Et : transition FBooting _ = None |- _ => unfold transition in Et; cbn in Et; rewrite HJ in Et; discriminate Et end).
  all: try assumption.
Qed.

Definition InvD (s : state) : Prop := InvC10 s /\ J s /\ K s.

Lemma InvD_init : InvD init.
Proof.
  split; [apply InvC10_init|]. split.
  - intros _. left. reflexivity.
  - intros x Hx. discriminate Hx.
Qed.

Lemma InvD_step P s l s' : InvD s -> step P s l = Some s' -> InvD s'.
Proof.
  intros (HA & HJ & HK) Hst. split; [eapply InvC10_step; eassumption|]. split.
  - eapply J_step; eassumption.
  - destruct HA as (_ & _ & _ & H3 & _). eapply K_step; eassumption.
Qed.

Lemma InvD_reach P s : reach P s -> InvD s.
Proof. apply reach_inv; [apply InvD_init|apply InvD_step]. Qed.

(* ------------------------------------------------------------------ statements *)

(* "the state is ... Error otherwise": whenever Run() has computed (TRet), published (TOut) or
   returned (TDone) a non-nil result, the machine is in Error - and it stays there, since the statement
   is about every later reachable state as well *)
Theorem error_result_state_error P s x :
  reach P s -> result_of (runt s) = Some (Some x) -> fsm s = FError.
Proof. intros Hr. apply (InvD_reach P s Hr). Qed.

(* C10's "its state becomes Error", whatever was in progress when Run() handled the failure: in every
   reachable state in which Run() has taken a child's failure from the channel, and in every reachable
   state in which its result wraps ErrRunnableFailed, the state is Error *)
Theorem failure_state_error P s :
  reach P s ->
  (took s <> None \/
   exists x, result_of (runt s) = Some (Some x) /\ wraps x id_runnable_failed = true) ->
  fsm s = FError.
Proof.
  intros Hr [Ht|(x & Hx & _)].
  - destruct (took s) as [e|] eqn:E; [|congruence]. now destruct (propagates P s e Hr E) as (_ & Hf & _).
  - eapply error_result_state_error; eassumption.
Qed.

(* ------------------------------------------------------------------ the monitor clause 7 *)

Definition res_after (res : option rescls) (tr : list event) : option rescls :=
  match res with Some r => Some r | None => run_result tr end.

Definition ev_ok (res : option rescls) (e : event) : bool :=
  match e with
  | EState st => match res with Some r => negb (rc_failed r) || fstate_eqb st FError | None => true end
  | _ => true
  end.

Lemma fs_scan_snoc tr : forall res e,
  fs_scan res (tr ++ [e]) = fs_scan res tr && ev_ok (res_after res tr) e.
Proof.
  induction tr as [|x tr IH]; intros res e.
  - destruct e as [|o ? ?| | | | | | | | |]; try destruct o; destruct res; cbn; rewrite ?andb_true_r; reflexivity.
  - destruct x as [|o k r| | | | | | | | |]; try destruct o; cbn [app fs_scan]; rewrite IH;
      destruct res; cbn; rewrite ?andb_assoc; reflexivity.
Qed.

(* invariant along a schedule: the monitor holds of the trace so far, and Run()'s result in the trace
   is the model's *)
Lemma clause7_step P tr s l s' :
  reach P s -> res_rel tr s -> failed_state_ok tr = true -> step P s l = Some s' ->
  failed_state_ok (match obs l with Some e => tr ++ [e] | None => tr end) = true.
Proof.
  intros Hreach Hrel Hok Hst. destruct (obs l) as [e|] eqn:Eo; [|exact Hok].
  unfold failed_state_ok in *. rewrite fs_scan_snoc, Hok. cbn [andb res_after].
  destruct e as [| | | | | | | | | |st]; try reflexivity. cbn [ev_ok].
  destruct (run_result tr) as [r|] eqn:Er; [|reflexivity].
  destruct (rc_failed r) eqn:Ef; [|reflexivity]. cbn.
  (* the label is LState st: st is the model's state, which is Error *)
  destruct l; cbn in Eo; try discriminate Eo.
  injection Eo as <-.
  unfold res_rel in Hrel. rewrite Er in Hrel. destruct Hrel as (r' & Hrt & Hcl).
  assert (Hfs : fsm s = FError).
  { destruct r' as [x|]; [|subst r; discriminate Ef].
    eapply error_result_state_error; [exact Hreach|rewrite Hrt; reflexivity]. }
  cbn [step] in Hst. rewrite Hfs in Hst. destruct st0; try discriminate Hst. reflexivity.
Qed.

Lemma clause7_run P ls : forall tr s s',
  reach P s -> res_rel tr s -> failed_state_ok tr = true -> run (step P) s ls = Some s' ->
  failed_state_ok (tr ++ obs_trace obs ls) = true.
Proof.
  induction ls as [|l ls IH]; intros tr s s' Hreach Hrel Hok Hr.
  - cbn. now rewrite app_nil_r.
  - cbn in Hr. destruct (step P s l) as [s1|] eqn:E; [|discriminate].
    pose proof (clause7_step P tr s l s1 Hreach Hrel Hok E) as H1.
    pose proof (res_rel_step P tr s l s1 Hrel E) as H2.
    assert (Hreach1 : reach P s1).
    { destruct Hreach as [ls0 H0]. exists (ls0 ++ [l]). rewrite run_app, H0. cbn. now rewrite E. }
    cbn [obs_trace]. destruct (obs l) as [e|].
    + specialize (IH _ _ _ Hreach1 H2 H1 Hr). now rewrite <- app_assoc in IH.
    + exact (IH _ _ _ Hreach1 H2 H1 Hr).
Qed.

(* clause 7 of C10_holdsb never fires on the observable trace of a schedule of the model *)
Theorem c10_clause7_link P ls s :
  run (step P) init ls = Some s -> failed_state_ok (obs_trace obs ls) = true.
Proof.
  intros Hr. apply (clause7_run P ls [] init s); auto.
  - exists []. reflexivity.
  - unfold res_rel. cbn. discriminate.
Qed.

Corollary c10_holdsb_not_7 P ls s :
  run (step P) init ls = Some s -> C10_holdsb P (obs_trace obs ls) <> 7%N.
Proof.
  intros Hr. unfold C10_holdsb. rewrite (c10_clause7_link P ls s Hr).
  destruct (C10_base P (obs_trace obs ls)) eqn:E; [discriminate|].
  intros H. unfold C10_base in E.
  destruct (split_first is_fail_exit (obs_trace obs ls)) as [pre hit].
  destruct hit as [[e post]|].
  - destruct (existsb (is_state FRunning) pre && negb (existsb is_stop_or_cancel pre) && negb (existsb is_run_ret pre));
      cbn in E; [|discriminate E].
    destruct (run_result post) as [r|]; [|congruence].
    repeat match type of E with (if ?b then _ else _) = _ => destruct b; try congruence end.
  - destruct (run_result (obs_trace obs ls)) as [r|]; [|discriminate E].
    destruct (rc_failed r); congruence.
Qed.
