(* C15 — the response writer: getters vs what reached the recorder, first status stands,
   recovered panic => 500 when nothing had been sent.  For chains of any length.
   Method: every state `ref` passes through is reachable by primitive core steps (`reach`);
   the writer facts are invariants of those steps. *)
From Coq Require Import List NArith ZArith Bool Lia.
From GS Require Import Chain.
Import ListNotations.

(* ------------------------------------------------------------------ primitive steps *)
Definition plain (e : event) : bool :=
  match e with ERecovered _ _ _ | EObs _ _ _ _ _ => false | _ => true end.

Section Reach.
  Inductive cstep : core -> core -> Prop :=
  | cs_log e c : plain e = true -> cstep c (logc e c)
  | cs_obs i b c : cstep c (obsc i b c)
  | cs_simple a c : cstep c (fst (step_simple a c))
  | cs_err404 c : cstep c (fst (http_error 404 msg404 c))
  | cs_path p c : cstep c (mkC (c_w c) p (c_tr c))
  | cs_recover i c :
      cstep c (fst (http_error 500 msg500
                      (logc (ERecovered i (r_wrote (rc (c_w c))) (r_code (rc (c_w c)))) c))).

  Inductive reach : core -> core -> Prop :=
  | r_refl c : reach c c
  | r_step c1 c2 c3 : reach c1 c2 -> cstep c2 c3 -> reach c1 c3.

  Lemma reach_trans : forall a b c, reach a b -> reach b c -> reach a c.
  Proof.
    intros a b c H1 H2. revert H1. induction H2; intro H1; auto.
    eapply r_step; [apply IHreach; exact H1|assumption].
  Qed.

  Lemma reach_one : forall a b, cstep a b -> reach a b.
  Proof. intros. eapply r_step; [apply r_refl|auto]. Qed.

  Lemma reach_inv : forall (I : core -> Prop),
    (forall c c', cstep c c' -> I c -> I c') -> forall c c', reach c c' -> I c -> I c'.
  Proof. intros I HI c c' H. induction H; auto. intro. eapply HI; eauto. Qed.

  Definition reach_o (c : core) (o : outcome core) : Prop :=
    match o with Done c' | Panicked c' => reach c c' | _ => True end.
  Definition reach_a (c : core) (o : outcome (bool * core)) : Prop :=
    match o with Done (_, c') | Panicked (_, c') => reach c c' | _ => True end.

  Lemma reach_a_trans : forall c c1 o, reach c c1 -> reach_a c1 o -> reach_a c o.
  Proof.
    intros c c1 o H1 H2. destruct o as [[l c']|[l c']| |]; cbn in *; auto; eapply reach_trans; eauto.
  Qed.

  Lemma reach_log2 : forall c e i b, plain e = true -> reach c (obsc i b (logc e c)).
  Proof.
    intros c e i b H. apply (r_step c (logc e c)); [apply reach_one; apply cs_log; exact H|apply cs_obs].
  Qed.

  Lemma reach_log1 : forall c e, plain e = true -> reach c (logc e c).
  Proof. intros. apply reach_one. apply cs_log. assumption. Qed.

  Section Acts.
    Variables (k : core -> outcome core) (i : Z).
    Hypothesis Hk : forall c, reach_o c (k c).

    Lemma acts_reach : forall acts live c, reach_a c (ref_acts k i acts live c).
    Proof.
      induction acts as [|a rest IH]; intros live c.
      - cbn. apply r_refl.
      - destruct a; cbn [ref_acts].
        + destruct live.
          * pose proof (Hk (logc (ENextCall i) c)) as H.
            destruct (k (logc (ENextCall i) c)) as [c2|c2| |]; cbn in H; cbn; auto.
            -- eapply reach_a_trans; [|apply IH; auto].
               apply (reach_trans c (logc (ENextCall i) c)); [apply reach_log1; reflexivity|].
               apply (reach_trans _ c2); [exact H|]. apply reach_log2. reflexivity.
            -- apply (reach_trans c (logc (ENextCall i) c)); [apply reach_log1; reflexivity|exact H].
          * eapply reach_a_trans; [|apply IH; auto].
            apply (reach_trans c (logc (ENextCall i) c)); [apply reach_log1; reflexivity|].
            apply reach_log2. reflexivity.
        + eapply reach_a_trans; [|apply IH; auto]. apply reach_log2. reflexivity.
        + cbn. apply r_refl.
        + cbn. apply r_refl.
        + pose proof (cs_simple (AWriteHeader c0) c) as Hs.
          destruct (step_simple (AWriteHeader c0) c) as [c' p]. cbn [fst] in Hs. destruct p.
          * cbn. apply reach_one; auto.
          * eapply reach_a_trans; [|apply IH; auto].
            eapply r_step; [apply reach_one; exact Hs|apply cs_obs].
        + pose proof (cs_simple (AWrite b) c) as Hs.
          destruct (step_simple (AWrite b) c) as [c' p]. cbn [fst] in Hs. destruct p.
          * cbn. apply reach_one; auto.
          * eapply reach_a_trans; [|apply IH; auto].
            eapply r_step; [apply reach_one; exact Hs|apply cs_obs].
        + pose proof (cs_simple (ASetH k0 v) c) as Hs.
          destruct (step_simple (ASetH k0 v) c) as [c' p]. cbn [fst] in Hs. destruct p.
          * cbn. apply reach_one; auto.
          * eapply reach_a_trans; [|apply IH; auto].
            eapply r_step; [apply reach_one; exact Hs|apply cs_obs].
        + pose proof (cs_simple (AAddH k0 v) c) as Hs.
          destruct (step_simple (AAddH k0 v) c) as [c' p]. cbn [fst] in Hs. destruct p.
          * cbn. apply reach_one; auto.
          * eapply reach_a_trans; [|apply IH; auto].
            eapply r_step; [apply reach_one; exact Hs|apply cs_obs].
        + pose proof (cs_simple (ADelH k0) c) as Hs.
          destruct (step_simple (ADelH k0) c) as [c' p]. cbn [fst] in Hs. destruct p.
          * cbn. apply reach_one; auto.
          * eapply reach_a_trans; [|apply IH; auto].
            eapply r_step; [apply reach_one; exact Hs|apply cs_obs].
        + destruct (strip_prefix pfx (c_path c)) as [p'|].
          * eapply reach_a_trans; [|apply IH; auto]. apply reach_one. apply cs_path.
          * pose proof (cs_err404 c) as Hs.
            destruct (http_error 404 msg404 c) as [c' p]. cbn [fst] in Hs. destruct p; cbn.
            -- apply reach_one; auto.
            -- apply (reach_trans c c'); [apply reach_one; exact Hs|apply reach_log1; reflexivity].
    Qed.

    Lemma handler_reach : forall h c, reach_a c (ref_handler k i h c).
    Proof.
      intros h c. unfold ref_handler.
      pose proof (acts_reach (body_of h) true (logc (EEnter i) c)) as H.
      assert (H0 : reach c (logc (EEnter i) c)) by (apply reach_log1; reflexivity).
      destruct (ref_acts k i (body_of h) true (logc (EEnter i) c)) as [[l' c']|[l' c']| |]; cbn in H; cbn; auto.
      - apply (reach_trans c c'); [eapply reach_trans; eauto|apply reach_log1; reflexivity].
      - destruct (recovers h).
        + pose proof (cs_recover i c') as Hs.
          destruct (http_error 500 msg500
                      (logc (ERecovered i (r_wrote (rc (c_w c'))) (r_code (rc (c_w c')))) c')) as [c2 p].
          cbn [fst] in Hs.
          assert (H2 : reach c c2) by (eapply r_step; [eapply reach_trans; eauto|exact Hs]).
          destruct p; cbn.
          * apply (reach_trans c c2); [exact H2|apply reach_log1; reflexivity].
          * apply (reach_trans c (logc (EAbort i) c2)); [|apply reach_log1; reflexivity].
            apply (reach_trans c c2); [exact H2|apply reach_log1; reflexivity].
        + cbn. apply (reach_trans c c'); [eapply reach_trans; eauto|apply reach_log1; reflexivity].
    Qed.
  End Acts.

  Lemma seq_reach : forall hs i c, reach_o c (ref_seq i hs c).
  Proof.
    induction hs as [|h rest IH]; intros i c.
    - cbn. apply r_refl.
    - cbn [ref_seq].
      pose proof (handler_reach (ref_seq (i + 1) rest) i (fun c0 => IH (i + 1)%Z c0) h c) as H.
      destruct (ref_handler (ref_seq (i + 1) rest) i h c) as [[l' c']|[l' c']| |]; cbn in H; cbn; auto.
      destruct l'; cbn; auto.
      pose proof (IH (i + 1)%Z c') as H2.
      destruct (ref_seq (i + 1) rest c'); cbn in *; auto; eapply reach_trans; eauto.
  Qed.
End Reach.

Theorem ref_reach : forall hs path, reach_o (init_core path) (ref hs path).
Proof. intros. apply seq_reach. Qed.

(* ------------------------------------------------------------------ writer-level facts *)
(* the wrapper never changes its mind: once written, written and Status() are frozen *)
Definition wmono (w w' : wstate) : Prop :=
  g_written w = true -> g_written w' = true /\ g_status w' = g_status w.
(* neither does the recorder *)
Definition rmono (w w' : wstate) : Prop :=
  r_wrote (rc w) = true -> r_wrote (rc w') = true /\ r_code (rc w') = r_code (rc w).

Ltac crush_w w :=
  destruct w as [[st wrt sz] [rw rcode rb rh rs ra] ops];
  unfold wmono, rmono, w_write_header, w_write, wrap_write_header, rec_write, rec_write_header,
    w_hdr, g_written, g_status; cbn.

Ltac split_ifs :=
  repeat match goal with
         | |- context [if ?b then _ else _] => destruct b eqn:?; cbn in *; try discriminate
         end.

Lemma wh_mono : forall c w, wmono w (fst (w_write_header c w)) /\ rmono w (fst (w_write_header c w)).
Proof.
  intros c w. crush_w w. split; intro H; subst; cbn; split_ifs; auto.
Qed.

Lemma write_mono : forall b w, wmono w (fst (w_write b w)) /\ rmono w (fst (w_write b w)).
Proof.
  intros b w. crush_w w. split; intro H; subst; cbn; split_ifs; auto.
Qed.

Lemma hdr_mono : forall f w, wmono w (w_hdr f w) /\ rmono w (w_hdr f w).
Proof. intros f w. crush_w w. split; intro H; auto. Qed.

Lemma wmono_trans : forall a b c, wmono a b -> wmono b c -> wmono a c.
Proof. unfold wmono. intros a b c H1 H2 H. destruct (H1 H) as [E1 E2]. destruct (H2 E1). split; congruence. Qed.
Lemma rmono_trans : forall a b c, rmono a b -> rmono b c -> rmono a c.
Proof. unfold rmono. intros a b c H1 H2 H. destruct (H1 H) as [E1 E2]. destruct (H2 E1). split; congruence. Qed.

Lemma err_mono : forall code msg w,
  wmono w (fst (w_http_error code msg w)) /\ rmono w (fst (w_http_error code msg w)).
Proof.
  intros code msg w. unfold w_http_error.
  set (w1 := w_hdr (h_set k_xcto v_nosniff) (w_hdr (h_set k_ctype v_text) (w_hdr (h_del k_clen) w))).
  assert (H1 : wmono w w1 /\ rmono w w1).
  { unfold w1. split.
    - eapply wmono_trans; [apply hdr_mono|]. eapply wmono_trans; apply hdr_mono.
    - eapply rmono_trans; [apply hdr_mono|]. eapply rmono_trans; apply hdr_mono. }
  pose proof (wh_mono code w1) as H2.
  destruct (w_write_header code w1) as [w2 p]. cbn [fst] in H2.
  destruct H1 as [A1 B1], H2 as [A2 B2].
  destruct p; cbv beta iota; cbn [fst].
  - split; [apply (wmono_trans w w1 w2 A1 A2)|apply (rmono_trans w w1 w2 B1 B2)].
  - destruct (write_mono msg w2) as [A3 B3].
    split; [apply (wmono_trans w w2 _ (wmono_trans w w1 w2 A1 A2) A3)
           |apply (rmono_trans w w2 _ (rmono_trans w w1 w2 B1 B2) B3)].
Qed.

Lemma simple_mono : forall a c,
  wmono (c_w c) (c_w (fst (step_simple a c))) /\ rmono (c_w c) (c_w (fst (step_simple a c))).
Proof.
  intros a c. destruct a; cbn [step_simple]; try (split; intro; auto; fail); try apply hdr_mono.
  - pose proof (wh_mono c0 (c_w c)). destruct (w_write_header c0 (c_w c)); cbn in *; auto.
  - pose proof (write_mono b (c_w c)). destruct (w_write b (c_w c)); cbn in *; auto.
Qed.

Lemma http_error_w : forall code msg c,
  c_w (fst (http_error code msg c)) = fst (w_http_error code msg (c_w c)) /\
  c_tr (fst (http_error code msg c)) = c_tr c.
Proof. intros. unfold http_error. destruct (w_http_error code msg (c_w c)); cbn; auto. Qed.

Lemma simple_tr : forall a c, c_tr (fst (step_simple a c)) = c_tr c.
Proof.
  intros a c. destruct a; cbn; try reflexivity.
  - destruct (w_write_header c0 (c_w c)); reflexivity.
  - destruct (w_write b (c_w c)); reflexivity.
Qed.

(* ------------------------------------------------------------------ "the first status stands" *)
(* every observation made after something was written shows the final Status() *)
Definition Sinv (c : core) : Prop :=
  forall j st sz ab, In (EObs j st true sz ab) (c_tr c) ->
    g_written (c_w c) = true /\ g_status (c_w c) = st.

Lemma Sinv_w : forall c c', c_tr c' = c_tr c -> wmono (c_w c) (c_w c') -> Sinv c -> Sinv c'.
Proof.
  intros c c' Et Hm HS j st sz ab Hin. rewrite Et in Hin.
  destruct (HS _ _ _ _ Hin) as [H1 H2]. destruct (Hm H1). split; congruence.
Qed.

Lemma Sinv_log : forall e c, plain e = true -> Sinv c -> Sinv (logc e c).
Proof.
  intros e c Hp HS j st sz ab Hin. cbn in Hin. apply in_app_or in Hin. destruct Hin as [Hin|[Hin|[]]].
  - apply (HS _ _ _ _ Hin).
  - subst e. discriminate.
Qed.

Lemma Sinv_step : forall c c', cstep c c' -> Sinv c -> Sinv c'.
Proof.
  intros c c' H HS. destruct H.
  - apply Sinv_log; auto.
  - intros j st sz ab Hin. cbn in Hin. apply in_app_or in Hin. destruct Hin as [Hin|[Hin|[]]].
    + apply (HS _ _ _ _ Hin).
    + inversion Hin. subst. cbn. auto.
  - apply (Sinv_w c _ (simple_tr a c)); [apply simple_mono|exact HS].
  - destruct (http_error_w 404 msg404 c) as [E1 E2].
    apply (Sinv_w c _ E2); [rewrite E1; apply err_mono|exact HS].
  - apply (Sinv_w c _ eq_refl); [intro; auto|exact HS].
  - set (c1 := logc (ERecovered i (r_wrote (rc (c_w c))) (r_code (rc (c_w c)))) c).
    destruct (http_error_w 500 msg500 c1) as [E1 E2].
    intros j st sz ab Hin. rewrite E2 in Hin. cbn in Hin.
    apply in_app_or in Hin. destruct Hin as [Hin|[Hin|[]]]; [|discriminate].
    destruct (HS _ _ _ _ Hin) as [H1 H2]. rewrite E1.
    destruct (err_mono 500 msg500 (c_w c1)) as [Hm _].
    change (c_w c1) with (c_w c) in *. destruct (Hm H1). split; congruence.
Qed.

Theorem status_stands : forall hs path c,
  (ref hs path = Done c \/ ref hs path = Panicked c) ->
  forall j st sz ab, In (EObs j st true sz ab) (c_tr c) ->
    g_written (c_w c) = true /\ g_status (c_w c) = st.
Proof.
  intros hs path c Hr. pose proof (ref_reach hs path) as H.
  assert (Hreach : reach (init_core path) c)
    by (destruct Hr as [E|E]; rewrite E in H; exact H).
  apply (reach_inv Sinv Sinv_step _ _ Hreach).
  intros j st sz ab Hin. cbn in Hin. contradiction.
Qed.

(* ------------------------------------------------------------------ getters (all status codes) *)
Definition Gfresh (w : wstate) : Prop :=
  w_written (wr w) = false /\ w_status (wr w) = 0%N /\ w_size (wr w) = 0%N /\ ops w = [] /\
  r_wrote (rc w) = false /\ r_body (rc w) = [] /\ r_acc (rc w) = 0%N.

Definition Gsent (w : wstate) : Prop :=
  w_written (wr w) = true /\ ops w <> [] /\ r_wrote (rc w) = true /\
  w_status (wr w) = r_code (rc w) /\ spec_status (ops w) = r_code (rc w) /\
  code_valid (r_code (rc w)) = true /\ w_size (wr w) = r_acc (rc w) /\
  spec_bytes (ops w) = lenN (r_body (rc w)) /\
  r_acc (rc w) = (if body_allowed (r_code (rc w)) then lenN (r_body (rc w)) else 0%N).

Definition Gw (w : wstate) : Prop := Gfresh w \/ Gsent w.

Lemma spec_status_app : forall l x, l <> [] -> spec_status (l ++ [x]) = spec_status l.
Proof. intros [|a l] x H; [contradiction|reflexivity]. Qed.

Lemma spec_bytes_app : forall l x,
  spec_bytes (l ++ [x]) = (spec_bytes l + match x with OpWH _ => 0 | OpW n => n end)%N.
Proof.
  induction l as [|a l IH]; intros x; cbn.
  - destruct x; lia.
  - rewrite IH. destruct a; lia.
Qed.

Lemma lenN_app : forall a b, lenN (a ++ b) = (lenN a + lenN b)%N.
Proof. intros. unfold lenN. rewrite app_length. lia. Qed.

Lemma app_not_nil : forall A (l : list A) x, l ++ [x] <> [].
Proof. intros A [|a l] x; discriminate. Qed.

Lemma valid_200 : code_valid 200 = true. Proof. reflexivity. Qed.
Lemma allowed_200 : body_allowed 200 = true. Proof. reflexivity. Qed.

Ltac unpackG H :=
  unfold Gfresh, Gsent in H; cbn in H;
  repeat match type of H with _ /\ _ => let H1 := fresh "G" in destruct H as [H1 H] end.

Lemma G_wh : forall c w, Gw w -> Gw (fst (w_write_header c w)).
Proof.
  intros c w HG. destruct w as [[st wrt sz] [rw rcode rb rh rs ra] ops].
  unfold w_write_header, wrap_write_header, rec_write_header. cbn.
  destruct HG as [H|H]; unpackG H; subst; cbn.
  - destruct (code_valid c) eqn:Hc; cbn.
    + right. unfold Gsent. cbn. rewrite Hc.
      repeat split; auto; try discriminate. destruct (body_allowed c); reflexivity.
    + left. unfold Gfresh. cbn. repeat split; auto.
  - right. unfold Gsent. cbn.
    rewrite spec_status_app by auto. rewrite spec_bytes_app. rewrite N.add_0_r.
    repeat split; auto. apply app_not_nil.
Qed.

Lemma G_write : forall b w, Gw w -> Gw (fst (w_write b w)) /\ snd (w_write b w) = false.
Proof.
  intros b w HG. destruct w as [[st wrt sz] [rw rcode rb rh rs ra] ops].
  unfold w_write, wrap_write_header, rec_write_header, rec_write. cbn.
  destruct HG as [H|H]; unpackG H; subst; cbn.
  - split; auto. right. unfold Gsent. cbn. repeat split; auto; try discriminate; lia.
  - match goal with |- context [body_allowed ?x] => destruct (body_allowed x) eqn:Ea end; cbn;
      (split; [|reflexivity]); right; unfold Gsent; cbn;
      rewrite spec_status_app by auto; rewrite spec_bytes_app; rewrite lenN_app; rewrite ?Ea;
      repeat split; auto; try apply app_not_nil; try lia.
Qed.

Lemma G_hdr : forall f w, Gw w -> Gw (w_hdr f w).
Proof.
  intros f w HG. destruct w as [[st wrt sz] [rw rcode rb rh rs ra] ops].
  unfold w_hdr. cbn. destruct HG as [H|H]; [left|right]; exact H.
Qed.

Lemma G_err : forall code msg w, Gw w -> Gw (fst (w_http_error code msg w)).
Proof.
  intros code msg w HG. unfold w_http_error.
  set (w1 := w_hdr (h_set k_xcto v_nosniff) (w_hdr (h_set k_ctype v_text) (w_hdr (h_del k_clen) w))).
  assert (H1 : Gw w1) by (unfold w1; repeat apply G_hdr; exact HG).
  pose proof (G_wh code w1 H1) as H2.
  destruct (w_write_header code w1) as [w2 p]. cbn [fst] in H2.
  destruct p; cbv beta iota; cbn [fst]; [exact H2|].
  apply G_write. exact H2.
Qed.

Lemma G_simple : forall a c, Gw (c_w c) -> Gw (c_w (fst (step_simple a c))).
Proof.
  intros a c HG.
  destruct a; cbn [step_simple fst snd c_w set_w]; try exact HG; try (apply G_hdr; exact HG).
  - pose proof (G_wh c0 (c_w c) HG). destruct (w_write_header c0 (c_w c)); cbn in *; auto.
  - destruct (G_write b (c_w c) HG). destruct (w_write b (c_w c)); cbn in *; auto.
Qed.

(* recovered panics: what the client had received at that moment decides the final status *)
Definition Rinv (c : core) : Prop :=
  forall j sent code, In (ERecovered j sent code) (c_tr c) ->
    r_wrote (rc (c_w c)) = true /\ r_code (rc (c_w c)) = (if sent then code else 500%N).

Definition GR (c : core) : Prop := Gw (c_w c) /\ Rinv c.

Lemma Rinv_w : forall c c', c_tr c' = c_tr c -> rmono (c_w c) (c_w c') -> Rinv c -> Rinv c'.
Proof.
  intros c c' Et Hm HR j sent code Hin. rewrite Et in Hin.
  destruct (HR _ _ _ Hin) as [H1 H2]. destruct (Hm H1). split; congruence.
Qed.

Lemma fresh_500 : forall msg w, Gw w -> r_wrote (rc w) = false ->
  r_wrote (rc (fst (w_http_error 500 msg w))) = true /\ r_code (rc (fst (w_http_error 500 msg w))) = 500%N.
Proof.
  intros msg w HG Hw. destruct w as [[st wrt sz] [rw rcode rb rh rs ra] ops].
  destruct HG as [H|H]; unpackG H; cbn in Hw; subst; try discriminate.
  unfold w_http_error, w_write_header, wrap_write_header, rec_write_header, w_write, rec_write, w_hdr. cbn.
  auto.
Qed.

Lemma GR_step : forall c c', cstep c c' -> GR c -> GR c'.
Proof.
  intros c c' H [HG HR]. destruct H.
  - split; auto. intros j sent code Hin. cbn in Hin. apply in_app_or in Hin.
    destruct Hin as [Hin|[Hin|[]]]; [apply (HR _ _ _ Hin)|subst e; discriminate].
  - split; auto. intros j sent code Hin. cbn in Hin. apply in_app_or in Hin.
    destruct Hin as [Hin|[Hin|[]]]; [apply (HR _ _ _ Hin)|discriminate].
  - split.
    + apply G_simple; auto.
    + apply (Rinv_w c _ (simple_tr a c)); [apply simple_mono|exact HR].
  - destruct (http_error_w 404 msg404 c) as [E1 E2]. split.
    + rewrite E1. apply G_err; auto.
    + apply (Rinv_w c _ E2); [rewrite E1; apply err_mono|exact HR].
  - split; [exact HG|exact HR].
  - set (c1 := logc (ERecovered i (r_wrote (rc (c_w c))) (r_code (rc (c_w c)))) c).
    destruct (http_error_w 500 msg500 c1) as [E1 E2]. split.
    + rewrite E1. apply G_err; auto.
    + intros j sent code Hin. rewrite E2 in Hin. cbn in Hin. rewrite E1. cbn [c1 logc c_w].
      destruct (err_mono 500 msg500 (c_w c)) as [_ Hm].
      apply in_app_or in Hin. destruct Hin as [Hin|[Hin|[]]].
      * destruct (HR _ _ _ Hin) as [H1 H2]. destruct (Hm H1). split; congruence.
      * inversion Hin. subst. destruct (r_wrote (rc (c_w c))) eqn:Ew.
        -- destruct (Hm Ew). auto.
        -- apply fresh_500; auto.
Qed.

Lemma GR_init : forall path, GR (init_core path).
Proof.
  intros. split.
  - left. unfold Gfresh. cbn. repeat split; auto.
  - intros j sent code Hin. cbn in Hin. contradiction.
Qed.

Lemma ref_GR : forall hs path c,
  (ref hs path = Done c \/ ref hs path = Panicked c) -> GR c.
Proof.
  intros hs path c Hr. pose proof (ref_reach hs path) as H.
  assert (Hreach : reach (init_core path) c)
    by (destruct Hr as [E|E]; rewrite E in H; exact H).
  apply (reach_inv GR GR_step _ _ Hreach). apply GR_init.
Qed.

Lemma valid_nonzero : forall c, code_valid c = true -> N.eqb c 0 = false.
Proof.
  intros c H. unfold code_valid in H. apply andb_prop in H. destruct H as [H _].
  apply N.leb_le in H. apply N.eqb_neq. lia.
Qed.

(* the getter statement, on any writer state satisfying the invariant *)
Definition getters_spec (w : wstate) : Prop :=
  g_written w = spec_written (ops w) /\
  g_written w = r_wrote (rc w) /\
  (g_written w = true -> g_status w = spec_status (ops w) /\ g_status w = r_code (rc w)) /\
  (g_written w = false -> g_status w = 0%N /\ g_size w = 0%N /\ r_body (rc w) = []) /\
  g_size w = spec_size (ops w) /\
  g_size w = r_acc (rc w) /\
  r_acc (rc w) = (if body_allowed (r_code (rc w)) then lenN (r_body (rc w)) else 0%N) /\
  spec_bytes (ops w) = lenN (r_body (rc w)).

Lemma Gw_getters : forall w, Gw w -> getters_spec w.
Proof.
  intros w HG. destruct w as [[st wrt sz] [rw rcode rb rh rs ra] ops].
  unfold getters_spec, g_written, g_status, g_size, spec_size. cbn.
  destruct HG as [H|H].
  - unpackG H; subst; cbn.
    repeat split; auto; try discriminate. destruct (body_allowed rcode); reflexivity.
  - destruct H as (Hw & Ho & Hrw & Hst & Hss & Hv & Hsz & Hsb & Hacc). cbn in *.
    subst wrt rw st sz.
    assert (Hsw : spec_written ops = true) by (destruct ops; [contradiction|reflexivity]).
    rewrite Hsw, Hss, (valid_nonzero _ Hv). cbn.
    repeat split; auto; try discriminate.
    rewrite Hacc, Hsb. reflexivity.
Qed.

Theorem getters_ok : forall hs path c,
  (ref hs path = Done c \/ ref hs path = Panicked c) -> getters_spec (c_w c).
Proof. intros hs path c Hr. apply Gw_getters. apply (ref_GR hs path c Hr). Qed.

Theorem recovered_status : forall hs path c,
  (ref hs path = Done c \/ ref hs path = Panicked c) ->
  forall j sent code, In (ERecovered j sent code) (c_tr c) ->
    r_wrote (rc (c_w c)) = true /\
    r_code (rc (c_w c)) = (if sent then code else 500%N) /\
    g_written (c_w c) = true /\
    g_status (c_w c) = (if sent then code else 500%N).
Proof.
  intros hs path c Hr j sent code Hin.
  destruct (ref_GR hs path c Hr) as [HG HR].
  destruct (HR _ _ _ Hin) as [H1 H2].
  destruct (Gw_getters _ HG) as (_ & E2 & E3 & _).
  assert (Hw : g_written (c_w c) = true) by congruence.
  destruct (E3 Hw) as [_ E4]. repeat split; auto. congruence.
Qed.

(* ------------------------------------------------------------------ the repaired defect *)
(* Before repo commit d237067 the wrapper latched status/written before the underlying call, and
   WriteHeader(1000) under the recovery middleware ended as 200 + Status() = 1000.  The old witness
   now runs to a 500 with agreeing getters. *)
Definition witness_bad_code : list handler := [Recovery; User [AWriteHeader 1000]].

Lemma witness_fixed :
  exists c, ref witness_bad_code [] = Done c /\
    In (ERecovered 0 false 200) (c_tr c) /\
    g_written (c_w c) = true /\ g_status (c_w c) = 500%N /\
    r_wrote (rc (c_w c)) = true /\ r_code (rc (c_w c)) = 500%N /\ r_body (rc (c_w c)) = msg500.
Proof.
  eexists. split; [vm_compute; reflexivity|].
  repeat split; try (vm_compute; reflexivity).
  vm_compute. auto 10.
Qed.
