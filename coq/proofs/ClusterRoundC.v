(* Round convergence, part 3: every step preserves the round invariant; statements at idle points. *)
From Coq Require Import List Arith NArith Bool Lia Permutation.
From GS Require Import LTS Cluster ClusterLTS ClusterPlan ClusterFix ClusterFixPlan ClusterRun ClusterInv ClusterStep
     ClusterMain ClusterRound ClusterRoundB.
Import ListNotations.
Open Scope N_scope.

Lemma remove_id_notin k ts : ~ In k ts -> remove_id k ts = ts.
Proof.
  intros H. unfold remove_id. apply filter_all. intros x Hx. apply negb_true_iff, id_eqb_neq. intros ->. contradiction.
Qed.

Lemma in_remove_inst i l x : In x (remove_inst i l) -> In x l /\ fst x <> i.
Proof.
  unfold remove_inst. intros H. apply filter_In in H as [H1 H2]. split; [exact H1|].
  apply negb_true_iff, N.eqb_neq in H2. exact H2.
Qed.

Lemma not_in_removeN i l : ~ In i (removeN i l).
Proof. unfold removeN. intros H. apply filter_In in H as [_ H]. now rewrite N.eqb_refl in H. Qed.

Lemma in_removeN_other j i l : In j l -> j <> i -> In j (removeN i l).
Proof.
  intros H Hn. unfold removeN. apply filter_In. split; [exact H|]. apply negb_true_iff, N.eqb_neq. congruence.
Qed.

(* the pure-frame labels: nothing the round invariant looks at changes *)
Ltac rframe Hs HR := injection Hs as <-; unfold round_inv, round_pc, mid in *; psimpl; exact HR.

Lemma round_step s l s' : acct s -> round_inv s -> step true s l = Some s' -> round_inv s'.
Proof.
  intros (Hnd & Hlt & Hpc) HR Hs. destruct l; unfold step in Hs.
  - (* LOffer *) destruct (s_offer s); [discriminate|]. destruct (s_closed s); [discriminate|]. rframe Hs HR.
  - (* LStopApi *) rframe Hs HR.
  - (* LStopApiRet *) destruct (s_stopreq s); [|discriminate].
    destruct (s_pc s); try discriminate; injection Hs as <-; exact HR.
  - (* LCancel *) injection Hs as <-. intros Hsh. psimpl in Hsh. specialize (HR Hsh).
    unfold round_pc, mid in *. psimpl. destruct (s_pc s); try exact I.
    + destruct HR as (H1 & H2). split; [exact (mid_cancel _ _ _ _ _ _ _ _ H1)|exact H2].
    + exact (mid_cancel _ _ _ _ _ _ _ _ HR).
    + exact (mid_cancel _ _ _ _ _ _ _ _ HR).
    + exact (mid_cancel _ _ _ _ _ _ _ _ HR).
    + exact (mid_cancel _ _ _ _ _ _ _ _ HR).
    + destruct HR as (H1 & H2). split; [exact (mid_cancel _ _ _ _ _ _ _ _ H1)|exact H2].
  - (* LClose *) destruct (s_offer s); [discriminate|]. rframe Hs HR.
  - (* LRecv *)
    destruct (s_pc s) eqn:Epc; try discriminate. destruct (s_offer s) as [m|]; [|discriminate].
    destruct (cstate_eqb (s_fsm s) CRunning && fsm_allowed (s_fsm s) CReloading); [|injection Hs as <-; exact HR].
    destruct (is_perm ord (keys (s_entries s))) eqn:Ep; [|discriminate]. injection Hs as <-.
    unfold acct_pc in Hpc. rewrite Epc in Hpc. destruct Hpc as (Hk & Hp & Hsp & Hsh).
    specialize (HR Hsh). unfold round_pc in HR. rewrite Epc in HR. destruct HR as ((M1 & M2 & M3 & M4 & M7) & HA).
    set (cur := s_entries s) in *. set (des := new_entries m) in *.
    pose proof (is_perm_spec ord (keys cur) Hk Ep) as Hperm.
    apply round_begin.
    + now apply true_nodup; [|apply new_entries_nodup|].
    + unfold mid. psimpl. apply mid_begin; try assumption; [apply new_entries_nodup| | |].
      * intros q e H. apply (M1 q e H). unfold ns. now rewrite (HA q e H).
      * intros q e H Hr. destruct (M4 q e H) as [[]|Hc]; [unfold ns; now rewrite (HA q e H)|exact Hr|exact Hc].
      * intros j k c Hin. destruct (M7 j k c Hin) as (q & e & He & Hr & Hi & Hcf & _). exists q, e. repeat split; assumption.
  - (* LShut *)
    destruct (s_pc s) eqn:Epc; try discriminate.
    destruct (s_cancel s || s_stopreq s || s_closed s); [|discriminate]. injection Hs as <-.
    intros Hsh. rewrite shut_begin in Hsh. psimpl in Hsh. discriminate.
  - (* LStopCall *)
    destruct (s_pc s) eqn:Epc; try discriminate; unfold acct_pc in Hpc; rewrite Epc in Hpc.
    + destruct (memN i tocall) eqn:Em; [|discriminate]. injection Hs as <-. apply memN_in in Em.
      destruct Hpc as (Hk & Hp & Hsp & Htp & Hok & Hsh).
      assert (Hin : In i (lv s)) by (eapply Permutation_in; [apply Permutation_sym; exact Hp|apply in_or_app; now right]).
      unfold move_to_stopping, set_pc. psimpl. destruct (find_inst i (s_live s)) as [x|] eqn:Ef;
        [|apply find_inst_none in Ef; contradiction].
      intros Hs'. psimpl in Hs'. specialize (HR Hs'). unfold round_pc, mid in *. rewrite Epc in HR. psimpl.
      eapply mid_live_sub; [exact HR|]. intros j kc Hj. apply in_remove_inst in Hj as [Hj Hne]. cbn [fst] in Hne.
      split; [exact Hj|]. intros Ht. now apply in_removeN_other.
    + destruct ((i =? i0) && (negb (beh_eqb b BReady) || s_cancel s)) eqn:Ec; [|discriminate]. injection Hs as <-.
      apply andb_prop in Ec as [Ei _]. apply N.eqb_eq in Ei. subst i0.
      destruct Hpc as (Hk & Hp & Hsp & Hok & Hsh & Hat & Hnk).
      assert (Hin : In i (lv s)) by (eapply Permutation_in; [apply Permutation_sym; exact Hp|now apply (at_key_in_keep pend k)]).
      unfold move_to_stopping, set_pc. psimpl. destruct (find_inst i (s_live s)) as [x|] eqn:Ef;
        [|apply find_inst_none in Ef; contradiction].
      intros Hs'. psimpl in Hs'. specialize (HR Hs'). unfold round_pc, mid in *. rewrite Epc in HR. psimpl. split.
      * eapply mid_live_sub; [exact HR|]. intros j kc Hj. apply in_remove_inst in Hj as [Hj _]. now split.
      * rewrite map_fst_remove_inst. apply not_in_removeN.
  - (* LStopRet *)
    destruct (s_pc s) eqn:Epc; try discriminate; unfold acct_pc in Hpc; rewrite Epc in Hpc.
    + destruct (memN i called) eqn:Em; [|discriminate].
      destruct Hpc as (Hk & Hp & Hsp & Htp & Hok & Hsh).
      assert (HR' : s_shut s = false -> mid (drop_stopping i s) pend ts tocall).
      { intros E. specialize (HR E). unfold round_pc in HR. rewrite Epc in HR. exact HR. }
      destruct tocall as [|c tocall]; [destruct (removeN i called) as [|c' called'] eqn:Er|]; injection Hs as <-.
      * intros E. pose proof E as E0. rewrite shut_after in E0. rewrite Htp in *.
        apply round_after_stops; [exact Hk|now apply HR'|exact E].
      * intros E. psimpl in E. unfold round_pc, set_pc, mid in *. psimpl. now apply HR'.
      * intros E. psimpl in E. unfold round_pc, set_pc, mid in *. psimpl. now apply HR'.
    + destruct (i =? i0) eqn:Ei; [|discriminate]. injection Hs as <-. apply N.eqb_eq in Ei. subst i0.
      destruct Hpc as (Hk & Hp & Hsp & Hok & Hsh & (e & Hle & Hre & Hae) & Hnk).
      specialize (HR Hsh). unfold round_pc in HR. rewrite Epc in HR. destruct HR as (HM & Hni).
      apply round_next_start; [now apply nodup_keys_remove|].
      unfold mid, add_failed, drop_stopping in *. psimpl. rewrite <- (remove_id_notin k ts Hnk).
      apply (mid_remove _ _ _ _ _ _ _ k e HM Hle Hae).
      intros j kc Hj Hr. rewrite Hre in Hr. injection Hr as <-. apply Hni.
      change i with (fst (i, kc)). now apply in_map.
  - (* LDelayFire *)
    destruct (s_pc s) eqn:Epc; try discriminate. injection Hs as <-. intros E. psimpl in E. specialize (HR E).
    unfold round_pc, set_pc, mid in *. rewrite Epc in HR. psimpl. exact HR.
  - (* LDelayCancel *)
    destruct (s_pc s) eqn:Epc; try discriminate. destruct (s_cancel s) eqn:Ecn; [|discriminate]. injection Hs as <-.
    unfold acct_pc in Hpc. rewrite Epc in Hpc. destruct Hpc as (Hk & Hp & Hsp & Hok & Hsh).
    specialize (HR Hsh). unfold round_pc in HR. rewrite Epc in HR.
    apply (round_finish s pend ts); [exact Hk|exact HR|now right].
  - (* LFactory *)
    destruct (s_pc s) eqn:Epc; try discriminate. destruct (lookup k pend) as [e|] eqn:El; [|discriminate].
    destruct (mem_id k ts && id_eqb (e_id e) k && (e_cfg e =? c) && (i =? s_next s)) eqn:Ec; [|discriminate].
    injection Hs as <-. apply andb_prop in Ec as [Ec Ei]. apply andb_prop in Ec as [Ec Ecf]. apply andb_prop in Ec as [Ek Eid].
    apply mem_id_in in Ek. apply id_eqb_eq in Eid. apply N.eqb_eq in Ecf.
    unfold acct_pc in Hpc. rewrite Epc in Hpc. destruct Hpc as (Hkk & Hp & Hsp & Hok & Hsh).
    destruct (Hok k Ek) as (e' & Hle & Hre & Hae). rewrite El in Hle. injection Hle as <-.
    intros E. psimpl in E. specialize (HR E). unfold round_pc, mid in *. rewrite Epc in HR. psimpl.
    exact (mid_update _ _ _ _ _ _ _ k e i c HR El Hre Hae Eid Ecf).
  - (* LFactoryErr *)
    destruct (s_pc s) eqn:Epc; try discriminate. destruct (lookup k pend) as [e|] eqn:El; [|discriminate].
    destruct (mem_id k ts && id_eqb (e_id e) k && (e_cfg e =? c)) eqn:Ec; [|discriminate].
    injection Hs as <-. apply andb_prop in Ec as [Ec _]. apply andb_prop in Ec as [Ek _]. apply mem_id_in in Ek.
    unfold acct_pc in Hpc. rewrite Epc in Hpc. destruct Hpc as (Hkk & Hp & Hsp & Hok & Hsh).
    destruct (Hok k Ek) as (e' & Hle & Hre & Hae). rewrite El in Hle. injection Hle as <-.
    specialize (HR Hsh). unfold round_pc in HR. rewrite Epc in HR.
    apply round_next_start; [now apply nodup_keys_remove|].
    unfold mid, add_failed in *. psimpl. apply (mid_remove _ _ _ _ _ _ _ k e HR El Hae).
    intros j kc _ Hr. rewrite Hre in Hr. discriminate.
  - (* LRunCall *) destruct (memN i (s_unrun s)); [|discriminate]. rframe Hs HR.
  - (* LReady *)
    destruct (s_pc s) eqn:Epc; try discriminate. destruct (beh_eqb b BReady); [|discriminate]. injection Hs as <-.
    unfold acct_pc in Hpc. rewrite Epc in Hpc. destruct Hpc as (Hk & Hp & Hsp & Hok & Hsh & _).
    specialize (HR Hsh). unfold round_pc in HR. rewrite Epc in HR. now apply round_next_start.
  - (* LCount *)
    destruct (s_pc s); try discriminate; destruct (n =? N.of_nat (count (s_entries s))); try discriminate;
      injection Hs as <-; exact HR.
  - (* LState *) destruct (cstate_eqb c (s_fsm s)); [|discriminate]. injection Hs as <-. exact HR.
  - (* LRunReturn *)
    destruct (s_pc s) eqn:Epc; try discriminate. injection Hs as <-. intros _. unfold round_pc, set_pc. psimpl. exact I.
Qed.

Definition RInv (s : state) : Prop := acct s /\ round_inv s.

Lemma RInv_step s l s' : RInv s -> step true s l = Some s' -> RInv s'.
Proof. intros (Ha & Hr) Hs. split; [now apply (acct_step s l s')|now apply (round_step s l s')]. Qed.

Lemma RInv_init d : RInv (init d).
Proof.
  split; [apply acct_init|]. intros _. unfold round_pc, mid, init. psimpl.
  split; [|intros q e H; cbn in H; discriminate]. msplit.
  - intros q e H. cbn in H. discriminate.
  - intros q c H. cbn in H. discriminate.
  - intros k old H. cbn in H. discriminate.
  - intros q e H. cbn in H. discriminate.
  - intros j k c [].
Qed.

Theorem RInv_reachable d ls s : run (step true) (init d) ls = Some s -> RInv s.
Proof. intros H. eapply (run_inv _ _ (step true) RInv); [apply RInv_step|apply RInv_init|exact H]. Qed.

(* ---------------------------------------------------------------- the statements *)
Theorem round_converges d ls s :
  run (step true) (init d) ls = Some s -> s_pc s = PIdle ->
  (forall q e, lookup q (s_entries s) = Some e ->
               dcfg (s_des s) q = Some (e_cfg e) /\ e_act e = ANone /\ e_id e = q) /\
  (forall q c, dcfg (s_des s) q = Some c -> (exists e, lookup q (s_entries s) = Some e) \/ In q (s_failed s)) /\
  (forall k old, lookup k (s_base s) = Some old -> dcfg (s_des s) k = Some (e_cfg old) ->
                 lookup k (s_entries s) = Some (set_act ANone old)) /\
  (forall q e, lookup q (s_entries s) = Some e -> e_rt e = None -> s_cancel s = true) /\
  (forall j k c, In (j, (k, c)) (s_live s) ->
                 exists e, lookup k (s_entries s) = Some e /\ e_rt e = Some j /\ e_cfg e = c /\
                           dcfg (s_des s) k = Some c).
Proof.
  intros Hr Epc. destruct (RInv_reachable d ls s Hr) as ((_ & _ & Hpc) & HR).
  unfold acct_pc in Hpc. rewrite Epc in Hpc. destruct Hpc as (_ & _ & _ & Hsh).
  specialize (HR Hsh). unfold round_pc, mid in HR. rewrite Epc in HR. destruct HR as ((M1 & M2 & M3 & M4 & M7) & HA).
  assert (NS : forall q e, lookup q (s_entries s) = Some e -> ns e) by (intros q e H; unfold ns; now rewrite (HA q e H)).
  msplit.
  - intros q e H. destruct (M1 q e H (NS q e H)) as [A B]. split; [exact A|]. split; [now apply (HA q e)|exact B].
  - intros q c H. destruct (M2 q c H) as [(e & He & _)|Hf]; [left; now exists e|now right].
  - exact M3.
  - intros q e H Hrt. destruct (M4 q e H (NS q e H) Hrt) as [[]|Hc]. exact Hc.
  - intros j k c Hin. destruct (M7 j k c Hin) as (q & e & He & Hrt & Hi & Hcf & _).
    destruct (M1 q e He (NS q e He)) as [A B]. rewrite Hi in B. subst q. exists e.
    repeat split; try assumption. now rewrite <- Hcf.
Qed.

Theorem count_exact_without_cancel d ls s :
  run (step true) (init d) ls = Some s -> s_pc s = PIdle -> s_cancel s = false ->
  no_rt (s_entries s) = [] /\ count (s_entries s) = length (s_live s).
Proof.
  intros Hr Epc Hc. destruct (round_converges d ls s Hr Epc) as (_ & _ & _ & R4 & _).
  assert (Hn : no_rt (s_entries s) = []).
  { unfold no_rt. apply filter_none. intros (q, e) Hin. cbn [snd]. destruct (e_rt e) eqn:Er; [reflexivity|].
    exfalso. destruct (acct_reachable d ls s Hr) as (_ & _ & Hpc). unfold acct_pc in Hpc. rewrite Epc in Hpc.
    destruct Hpc as (Hk & _). pose proof (in_lookup _ q e Hk Hin) as Hl. rewrite (R4 q e Hl Er) in Hc. discriminate. }
  split; [exact Hn|]. destruct (count_ok d ls s Hr) as (_ & Hcount); [now rewrite Epc|].
  rewrite Hcount, Hn. cbn [length]. lia.
Qed.

(* bounds that hold also after cancellation: at least the running servers, at most one entry per id of
   the last received map *)
Theorem count_bounds d ls s :
  run (step true) (init d) ls = Some s -> s_pc s = PIdle ->
  (length (s_live s) <= count (s_entries s) <= length (s_des s))%nat.
Proof.
  intros Hr Epc. split.
  - destruct (count_ok d ls s Hr) as (_ & Hc); [now rewrite Epc|]. rewrite Hc. lia.
  - destruct (round_converges d ls s Hr Epc) as (R1 & _).
    destruct (acct_reachable d ls s Hr) as (_ & _ & Hpc). unfold acct_pc in Hpc. rewrite Epc in Hpc.
    destruct Hpc as (Hk & _). unfold count.
    rewrite <- (map_length fst (s_entries s)), <- (map_length fst (s_des s)).
    apply NoDup_incl_length; [exact Hk|]. intros q Hq. apply mem_true in Hq. unfold mem in Hq.
    destruct (lookup q (s_entries s)) as [e|] eqn:El; [|discriminate].
    destruct (R1 q e El) as (Hd & _). unfold dcfg in Hd.
    apply mem_true. unfold mem. destruct (lookup q (s_des s)); [reflexivity|discriminate].
Qed.
