(* Proofs about the pure configuration model (C13_equal_iff and its helpers). *)
From Coq Require Import List NArith ZArith Bool Lia Permutation.
From GS Require Import HttpCfg.
Import ListNotations.

Lemma str_eqb_refl a : str_eqb a a = true.
Proof. induction a as [|x a IH]; [reflexivity|]. cbn [str_eqb]. now rewrite N.eqb_refl, IH. Qed.

Lemma str_eqb_eq a b : str_eqb a b = true <-> a = b.
Proof.
  split; [|intros <-; apply str_eqb_refl].
  revert b; induction a as [|x a IH]; intros [|y b] H; try discriminate; [reflexivity|].
  cbn [str_eqb] in H. apply andb_true_iff in H as [H1 H2].
  apply N.eqb_eq in H1. apply IH in H2. now subst.
Qed.

Lemma str_eqb_neq a b : str_eqb a b = false <-> a <> b.
Proof.
  split.
  - intros H E. apply str_eqb_eq in E. congruence.
  - intros H. destruct (str_eqb a b) eqn:E; [|reflexivity]. apply str_eqb_eq in E. contradiction.
Qed.

Lemma route_eta (x y : route) : rname x = rname y -> rpath x = rpath y -> x = y.
Proof. destruct x, y; cbn; intros -> ->; reflexivity. Qed.

Lemma route_equal_eq y x : route_equal y x = true <-> y = x.
Proof.
  unfold route_equal. split.
  - destruct (str_eqb (rpath y) (rpath x)) eqn:E1; cbn [negb]; [|discriminate].
    destruct (str_eqb (rname y) (rname x)) eqn:E2; cbn [negb]; [|discriminate].
    intros _. apply route_eta; now apply str_eqb_eq.
  - intros ->. now rewrite !str_eqb_refl.
Qed.

Lemma route_eqb_eq x y : route_eqb x y = true <-> x = y.
Proof.
  unfold route_eqb. rewrite andb_true_iff, !str_eqb_eq. split.
  - intros [A B]. now apply route_eta.
  - intros ->. now split.
Qed.

Lemma routes_eqb_eq a b : routes_eqb a b = true <-> a = b.
Proof.
  revert b; induction a as [|x a IH]; intros [|y b]; cbn [routes_eqb]; try (split; congruence).
  rewrite andb_true_iff, route_eqb_eq, IH. split; [intros [-> ->]; reflexivity|intros H; injection H; auto].
Qed.

Lemma config_eqb_eq a b : config_eqb a b = true <-> a = b.
Proof.
  unfold config_eqb. rewrite !andb_true_iff, !str_eqb_eq, !Z.eqb_eq, routes_eqb_eq.
  destruct a, b; cbn. split.
  - intros [[[[[-> ->] ->] ->] ->] ->]. reflexivity.
  - intros H; injection H; intros; subst; repeat split.
Qed.

(* ---- the route map ---- *)

Lemma route_map_rev r acc :
  fold_left (fun m x => (rpath x, x) :: m) r acc = rev (map (fun x => (rpath x, x)) r) ++ acc.
Proof.
  revert acc; induction r as [|x r IH]; intros acc; [reflexivity|].
  cbn [fold_left map rev]. rewrite IH, <- app_assoc. reflexivity.
Qed.

Lemma map_get_some m p y : map_get m p = Some y -> exists k, In (k, y) m /\ k = p.
Proof.
  induction m as [|[k v] m IH]; [discriminate|]. cbn [map_get].
  destruct (str_eqb k p) eqn:E.
  - intros H; injection H as ->. exists k. split; [now left|now apply str_eqb_eq].
  - intros H. destruct (IH H) as (k' & Hin & Hk). exists k'. split; [now right|exact Hk].
Qed.

Lemma map_get_none m p : map_get m p = None -> forall k v, In (k, v) m -> k <> p.
Proof.
  induction m as [|[k v] m IH]; intros H k' v' Hin; [contradiction|]. cbn [map_get] in H.
  destruct (str_eqb k p) eqn:E; [discriminate|].
  destruct Hin as [Heq|Hin]; [injection Heq as <- <-; now apply str_eqb_neq|eapply IH; eassumption].
Qed.

Lemma in_route_map r k y : In (k, y) (route_map r) <-> In y r /\ k = rpath y.
Proof.
  unfold route_map. rewrite route_map_rev, app_nil_r, <- in_rev, in_map_iff. split.
  - intros (x & Hx & Hin). injection Hx as <- <-. now split.
  - intros [Hin ->]. exists y. now split.
Qed.

Lemma route_map_get_some r p y : map_get (route_map r) p = Some y -> In y r /\ rpath y = p.
Proof.
  intros H. apply map_get_some in H as (k & Hin & <-). apply in_route_map in Hin as [Hin ->]. now split.
Qed.

Lemma route_map_get_none r p : map_get (route_map r) p = None -> forall y, In y r -> rpath y <> p.
Proof.
  intros H y Hin. eapply (map_get_none _ _ H (rpath y) y). apply in_route_map. now split.
Qed.

(* ---- duplicate-free path lists ---- *)

Lemma path_in_iff p l : path_in p l = true <-> In p (map rpath l).
Proof.
  induction l as [|x l IH]; cbn [path_in map In]; [split; [discriminate|contradiction]|].
  rewrite orb_true_iff, IH, str_eqb_eq. tauto.
Qed.

Lemma paths_nodup_iff l : paths_nodup l = true <-> NoDup (map rpath l).
Proof.
  induction l as [|x l IH]; cbn [paths_nodup map]; [split; [constructor|reflexivity]|].
  rewrite andb_true_iff, negb_true_iff, IH. split.
  - intros [H1 H2]. constructor; [|exact H2]. intros Hin. apply path_in_iff in Hin. congruence.
  - intros H. inversion H as [|? ? Hn Hd]; subst. split; [|exact Hd].
    destruct (path_in (rpath x) l) eqn:E; [|reflexivity]. apply path_in_iff in E. contradiction.
Qed.

Lemma NoDup_map_inv {A B} (f : A -> B) l : NoDup (map f l) -> NoDup l.
Proof.
  induction l as [|x l IH]; cbn [map]; intros H; [constructor|].
  inversion H as [|? ? Hn Hd]; subst. constructor; [|now apply IH].
  intros Hin. apply Hn. now apply in_map.
Qed.

Lemma nodup_paths_inj l x y :
  NoDup (map rpath l) -> In x l -> In y l -> rpath x = rpath y -> x = y.
Proof.
  induction l as [|z l IH]; [contradiction|]. cbn [map]. intros H Hx Hy E.
  inversion H as [|? ? Hn Hd]; subst.
  destruct Hx as [<-|Hx], Hy as [<-|Hy].
  - reflexivity.
  - exfalso. apply Hn. rewrite E. now apply in_map.
  - exfalso. apply Hn. rewrite <- E. now apply in_map.
  - now apply IH.
Qed.

Lemma route_map_get_nodup r y :
  NoDup (map rpath r) -> In y r -> map_get (route_map r) (rpath y) = Some y.
Proof.
  intros Hnd Hin. destruct (map_get (route_map r) (rpath y)) as [y'|] eqn:E.
  - apply route_map_get_some in E as [Hin' Hp]. f_equal. now apply (nodup_paths_inj r).
  - exfalso. exact (route_map_get_none _ _ E y Hin eq_refl).
Qed.

(* ---- Routes.Equal ---- *)

Section Key.
  Variable key : list str -> str.

  (* soundness needs NOTHING about the key and only the second list duplicate-free:
     in Reload the receiver is the new configuration and the argument the active one *)
  Lemma routes_equal_sound r o :
    paths_nodup o = true -> routes_equal key r o = true ->
    (forall x, In x r <-> In x o) /\ paths_nodup r = true /\ length r = length o.
  Proof.
    intros Hnd H. unfold routes_equal in H.
    destruct (Nat.eqb (length r) (length o)) eqn:El; cbn [negb] in H; [|discriminate].
    apply Nat.eqb_eq in El.
    destruct (str_eqb (key (map rname r)) (key (map rname o))); cbn [negb] in H; [|discriminate].
    rewrite forallb_forall in H.
    assert (Hincl : incl o r).
    { intros x Hx. specialize (H x Hx).
      destruct (map_get (route_map r) (rpath x)) as [y|] eqn:E; [|discriminate].
      apply route_equal_eq in H; subst y. now apply route_map_get_some in E as [E _]. }
    apply paths_nodup_iff in Hnd.
    assert (Hndo : NoDup o) by (eapply NoDup_map_inv; exact Hnd).
    assert (Hincl' : incl r o).
    { apply NoDup_length_incl; [exact Hndo|lia|exact Hincl]. }
    split; [intros x; split; [apply Hincl'|apply Hincl]|]. split; [|exact El].
    apply paths_nodup_iff.
    apply (@NoDup_incl_NoDup _ (map rpath o)); [exact Hnd|rewrite !map_length; lia|].
    intros p Hp. apply in_map_iff in Hp as (x & <- & Hx). apply in_map. now apply Hincl.
  Qed.

  Hypothesis key_perm : forall l l', Permutation l l' -> key l = key l'.

  Lemma routes_equal_complete r o :
    paths_nodup r = true -> paths_nodup o = true ->
    (forall x, In x r <-> In x o) -> routes_equal key r o = true.
  Proof.
    intros Hr Ho Hset. apply paths_nodup_iff in Hr, Ho.
    assert (Hp : Permutation r o).
    { apply NoDup_Permutation; [eapply NoDup_map_inv; exact Hr|eapply NoDup_map_inv; exact Ho|exact Hset]. }
    unfold routes_equal.
    rewrite (Permutation_length Hp), Nat.eqb_refl. cbn [negb].
    rewrite (key_perm _ _ (Permutation_map rname Hp)), str_eqb_refl. cbn [negb].
    apply forallb_forall. intros x Hx.
    rewrite (route_map_get_nodup r x Hr); [now apply route_equal_eq|now apply Hset].
  Qed.

  Definition same_settings (a b : config) : Prop :=
    addr a = addr b /\ drain a = drain b /\ read_to a = read_to b /\
    write_to a = write_to b /\ idle_to a = idle_to b.

  Lemma config_equal_split a b :
    config_equal key a b = true <-> same_settings a b /\ routes_equal key (routes a) (routes b) = true.
  Proof.
    unfold config_equal, same_settings.
    destruct (str_eqb (addr a) (addr b)) eqn:E1; cbn [negb].
    2:{ apply str_eqb_neq in E1. split; [discriminate|tauto]. }
    apply str_eqb_eq in E1.
    destruct (Z.eqb (drain a) (drain b)) eqn:E2; cbn [negb].
    2:{ apply Z.eqb_neq in E2. split; [discriminate|tauto]. }
    apply Z.eqb_eq in E2.
    destruct (routes_equal key (routes a) (routes b)) eqn:E3; cbn [negb].
    2:{ split; [discriminate|intros [_ ?]; discriminate]. }
    destruct (Z.eqb (read_to a) (read_to b)) eqn:E4; cbn [negb].
    2:{ apply Z.eqb_neq in E4. split; [discriminate|tauto]. }
    apply Z.eqb_eq in E4.
    destruct (Z.eqb (write_to a) (write_to b)) eqn:E5; cbn [negb].
    2:{ apply Z.eqb_neq in E5. split; [discriminate|tauto]. }
    apply Z.eqb_eq in E5.
    destruct (Z.eqb (idle_to a) (idle_to b)) eqn:E6; cbn [negb].
    2:{ apply Z.eqb_neq in E6. split; [discriminate|tauto]. }
    apply Z.eqb_eq in E6. tauto.
  Qed.

  Theorem config_equal_iff a b :
    paths_nodup (routes a) = true -> paths_nodup (routes b) = true ->
    config_equal key a b = true <->
    same_settings a b /\ (forall x, In x (routes a) <-> In x (routes b)).
  Proof.
    intros Ha Hb. rewrite config_equal_split. split; intros [Hs H]; (split; [exact Hs|]).
    - now apply routes_equal_sound in H.
    - now apply routes_equal_complete.
  Qed.
End Key.

(* Equal answers "unchanged" only if the new configuration really has the active one's
   settings and route set; only the ACTIVE configuration needs to be duplicate-free, and
   nothing is assumed about the name key (so the %v collisions of names containing spaces
   cannot produce a wrong "unchanged") *)
Theorem config_equal_never_stale key new active :
  paths_nodup (routes active) = true -> config_equal key new active = true ->
  same_settings new active /\ (forall x, In x (routes new) <-> In x (routes active)) /\
  paths_nodup (routes new) = true.
Proof.
  intros Hnd H. apply config_equal_split in H as [Hs H].
  apply routes_equal_sound in H as (H1 & H2 & _); [|exact Hnd].
  split; [exact Hs|]. split; [exact H1|exact H2].
Qed.

(* ---- the executable specification agrees with the Prop-level one ---- *)

Lemma route_in_iff x l : route_in x l = true <-> In x l.
Proof.
  induction l as [|y l IH]; cbn [route_in In]; [split; [discriminate|contradiction]|].
  rewrite orb_true_iff, route_eqb_eq, IH. split; intros [H|H]; auto.
Qed.

Lemma same_route_set_iff a b : same_route_set a b = true <-> (forall x, In x a <-> In x b).
Proof.
  unfold same_route_set. rewrite andb_true_iff, !forallb_forall. split.
  - intros [H1 H2] x. split; intros Hx; apply route_in_iff; auto.
  - intros H. split; intros x Hx; apply route_in_iff; now apply H.
Qed.

Lemma config_equiv_iff a b :
  config_equiv a b = true <-> same_settings a b /\ (forall x, In x (routes a) <-> In x (routes b)).
Proof.
  unfold config_equiv, same_settings.
  rewrite !andb_true_iff, str_eqb_eq, !Z.eqb_eq, same_route_set_iff.
  split.
  - intros [[[[[A B] C] D] E] F]. repeat split; try assumption; apply F.
  - intros [(A & B & C & D & E) F]. repeat split; try assumption; apply F.
Qed.

(* ---- the code's key (slices.Sort + Sprintf "%v") is permutation-invariant ---- *)

Lemma str_cmp_eq a b : str_cmp a b = Eq <-> a = b.
Proof.
  revert b; induction a as [|x a IH]; intros [|y b]; cbn [str_cmp]; try (split; congruence).
  destruct (N.compare x y) eqn:E.
  - apply N.compare_eq_iff in E; subst. rewrite IH. split; [intros ->; reflexivity|intros H; now injection H].
  - split; [discriminate|]. intros H; injection H as -> _. rewrite N.compare_refl in E. discriminate.
  - split; [discriminate|]. intros H; injection H as -> _. rewrite N.compare_refl in E. discriminate.
Qed.

Lemma str_cmp_antisym a b : str_cmp b a = CompOpp (str_cmp a b).
Proof.
  revert b; induction a as [|x a IH]; intros [|y b]; cbn [str_cmp]; try reflexivity.
  rewrite (N.compare_antisym x y). destruct (N.compare x y); cbn [CompOpp]; auto.
Qed.

Lemma str_cmp_trans_lt a b c : str_cmp a b = Lt -> str_cmp b c = Lt -> str_cmp a c = Lt.
Proof.
  revert b c; induction a as [|x a IH]; intros [|y b] [|z c]; cbn [str_cmp]; try congruence.
  destruct (N.compare x y) eqn:E1; try discriminate.
  - apply N.compare_eq_iff in E1; subst y. destruct (N.compare x z); try congruence. apply IH.
  - intros _. destruct (N.compare y z) eqn:E2; try discriminate.
    + apply N.compare_eq_iff in E2; subst z. now rewrite E1.
    + intros _. rewrite N.compare_lt_iff in *. assert (x < z)%N by lia.
      apply N.compare_lt_iff in H. now rewrite H.
Qed.

Lemma str_leb_total a b : str_leb a b = true \/ str_leb b a = true.
Proof.
  unfold str_leb. rewrite (str_cmp_antisym a b). destruct (str_cmp a b); cbn; auto.
Qed.

Lemma str_leb_antisym a b : str_leb a b = true -> str_leb b a = true -> a = b.
Proof.
  unfold str_leb. rewrite (str_cmp_antisym a b). destruct (str_cmp a b) eqn:E; cbn; try discriminate.
  intros _ _. now apply str_cmp_eq.
Qed.

Lemma str_leb_trans a b c : str_leb a b = true -> str_leb b c = true -> str_leb a c = true.
Proof.
  unfold str_leb.
  destruct (str_cmp a b) eqn:E1; try discriminate; destruct (str_cmp b c) eqn:E2; try discriminate; intros _ _.
  - apply str_cmp_eq in E1, E2; subst. now rewrite (proj2 (str_cmp_eq c c) eq_refl).
  - apply str_cmp_eq in E1; subst. now rewrite E2.
  - apply str_cmp_eq in E2; subst. now rewrite E1.
  - now rewrite (str_cmp_trans_lt _ _ _ E1 E2).
Qed.

Inductive sorted : list str -> Prop :=
| sorted_nil : sorted []
| sorted_cons x l : (forall y, In y l -> str_leb x y = true) -> sorted l -> sorted (x :: l).

Lemma insert_perm x l : Permutation (x :: l) (insert_sorted x l).
Proof.
  induction l as [|y l IH]; cbn [insert_sorted]; [apply Permutation_refl|].
  destruct (str_leb x y); [apply Permutation_refl|].
  eapply perm_trans; [apply perm_swap|]. now apply perm_skip.
Qed.

Lemma sort_perm l : Permutation l (sort_strs l).
Proof.
  induction l as [|x l IH]; cbn [sort_strs]; [constructor|].
  eapply perm_trans; [apply perm_skip; exact IH|apply insert_perm].
Qed.

Lemma insert_sorted_sorted x l : sorted l -> sorted (insert_sorted x l).
Proof.
  induction 1 as [|y l Hy Hs IH]; cbn [insert_sorted].
  - constructor; [intros ? []|constructor].
  - destruct (str_leb x y) eqn:E.
    + constructor; [|now constructor]. intros z [<-|Hz]; [exact E|].
      eapply str_leb_trans; [exact E|now apply Hy].
    + constructor; [|exact IH]. intros z Hz.
      apply (Permutation_in _ (Permutation_sym (insert_perm x l))) in Hz.
      destruct Hz as [<-|Hz]; [|now apply Hy].
      destruct (str_leb_total x y) as [H|H]; congruence.
Qed.

Lemma sort_sorted l : sorted (sort_strs l).
Proof. induction l as [|x l IH]; cbn [sort_strs]; [constructor|now apply insert_sorted_sorted]. Qed.

Lemma sorted_perm_eq l : forall l', sorted l -> sorted l' -> Permutation l l' -> l = l'.
Proof.
  induction l as [|x l IH]; intros l' Hs Hs' Hp.
  - apply Permutation_nil in Hp. now subst.
  - destruct l' as [|y l']; [apply Permutation_sym, Permutation_nil in Hp; discriminate|].
    inversion Hs as [|? ? Hx Hsl]; subst. inversion Hs' as [|? ? Hy Hsl']; subst.
    assert (x = y).
    { assert (In x (y :: l')) as [->|Hin] by (eapply Permutation_in; [exact Hp|now left]); [reflexivity|].
      assert (In y (x :: l)) as [->|Hin'] by (eapply Permutation_in; [apply Permutation_sym; exact Hp|now left]);
        [reflexivity|].
      apply str_leb_antisym; [now apply Hx|now apply Hy]. }
    subst y. f_equal. apply IH; [exact Hsl|exact Hsl'|]. eapply Permutation_cons_inv; exact Hp.
Qed.

Lemma go_names_key_perm l l' : Permutation l l' -> go_names_key l = go_names_key l'.
Proof.
  intros Hp. unfold go_names_key. f_equal.
  apply sorted_perm_eq; try apply sort_sorted.
  eapply perm_trans; [apply Permutation_sym, sort_perm|]. eapply perm_trans; [exact Hp|apply sort_perm].
Qed.

(* for duplicate-free configurations the code's Equal IS the specification *)
Corollary go_config_equal_spec a b :
  paths_nodup (routes a) = true -> paths_nodup (routes b) = true ->
  go_config_equal a b = config_equiv a b.
Proof.
  intros Ha Hb. apply eq_true_iff_eq.
  unfold go_config_equal. rewrite (config_equal_iff _ go_names_key_perm a b Ha Hb), config_equiv_iff.
  reflexivity.
Qed.
