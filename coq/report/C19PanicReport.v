(* C19 - the panic-site inventory (report file: compiled by checks/c19.py on every run, outside the make build,
   against the freshly generated coq/gen/HttpPanicSites.v).  Statements only. *)
From Coq Require Import String List Bool NArith ZArith.
From GS Require Import HttpPanic HttpPanicPolicy HttpPanicSites HttpPanicProofs.
Import ListNotations.
Open Scope string_scope.

(* ---- the panic-site inventory (syntactic; regenerated from the source on every run) ----
   Every panic-capable expression of runnables/httpserver and its middleware packages is covered by a rule of the
   hand-written policy whose required lexical conditions the site carries.  Re-proved by vm_compute against the
   freshly generated table: a new such expression in the source makes this theorem fail. *)
Theorem C19_panic_sites_justified : sites_ok http_panic_policy sites = true.
Proof. vm_compute. reflexivity. Qed.

(* in Prop form: each listed site has its rule, and the rule's conditions are the site's *)
Theorem C19_panic_site_covered : forall s, In s sites ->
  exists r, In r http_panic_policy /\ rule_matches r s = true /\ rule_wf r = true /\
            (forall c, In c (r_need r) -> In c (ps_conds s)).
Proof.
  intros s Hs. destruct (sites_ok_covered _ _ C19_panic_sites_justified s Hs) as (r & Hr & Hm & Hw).
  exists r. repeat split; auto. intros c. exact (rule_matches_needs r s c Hm).
Qed.

(* the reasons that are not "by reading": the ServeMux registration is guarded by the validating constructor
   (crash-freedom of the protocol model + the constructor theorem), the re-arming of the shutdown guard happens only
   under r.mutex in boot (every reachable state), a send cannot hit a closed channel because nothing is ever closed *)
Theorem C19_panic_reasons_backed :
  (forall w, why_backed w) /\ (forall s, In s sites -> ps_kind s <> PClose).
Proof.
  split; [exact whys_backed|].
  exact (sites_ok_no_close _ _ C19_panic_sites_justified eq_refl).
Qed.

Print Assumptions C19_panic_sites_justified.
Print Assumptions C19_panic_site_covered.
Print Assumptions C19_panic_reasons_backed.

(* the inventory is not empty and the checker does reject: the index expression of seeded change C19-1 and the
   slice expression of C19-2 are not covered *)
Example C19_ex_sites_listed : 100 <= length sites /\ existsb (fun s => pkind_eqb (ps_kind s) PIndex) sites = true.
Proof. split; vm_compute; [repeat constructor|reflexivity]. Qed.

Example C19_ex_new_index_breaks :
  sites_ok http_panic_policy (mkPSite "httpserver" "Runner.boot" PIndex "listenAddr[0]" [] "x" :: sites) = false /\
  sites_ok http_panic_policy
    (mkPSite "httpserver/middleware/wildcard" "New$1" PSlice "req.URL.Path[len(prefix):]" [] "x" :: sites) = false.
Proof. split; vm_compute; reflexivity. Qed.

(* a guard that is removed from the source disappears from the site's conditions: the rule stops matching *)
Example C19_ex_removed_guard_breaks :
  site_ok http_panic_policy (mkPSite "httpserver" "Runner.stopServer$1" PDeref "r.server" ["r.server != nil"] "x") = true /\
  site_ok http_panic_policy (mkPSite "httpserver" "Runner.stopServer$1" PDeref "r.server" [] "x") = false.
Proof. split; vm_compute; reflexivity. Qed.
