(* Not part of the make build: compiled by checks/c17.py after the table was regenerated
   (needs model/Race.vo, model/RacePolicy.vo, gen/AccessTable.vo).
   Prints, by vm_compute on the current table, everything that violates the policy, so that the
   check can name the field/site when theorem C17_table_ok stops compiling. *)
From Coq Require Import String List.
From GS Require Import Race RacePolicy AccessTable.
Import ListNotations.
Open Scope string_scope.
(* against the EFFECTIVE policy: declared entries first, then the disciplines inferred for the fields they do not name *)
Definition c17_failures_all := Eval vm_compute in failures (effective policy_all table) [] table.
Definition c17_failures_with_exceptions := Eval vm_compute in failures (effective policy_all table) exceptions table.
Definition c17_inferred := Eval vm_compute in inferred_report policy_all table.
Definition c17_exceptions := Eval vm_compute in map (fun k : fkey => fst k +++ "." +++ snd k) exceptions.
Definition c17_stale_policy := Eval vm_compute in stale_policy policy_all table.
Definition c17_hbvia := Eval vm_compute in hbvia_entries.
Print c17_failures_all.
Print c17_inferred.
Print c17_failures_with_exceptions.
Print c17_exceptions.
Print c17_stale_policy.
Print c17_hbvia.
