module github.com/robbyt/go-supervisor/verif_harness

go 1.26.0

require github.com/robbyt/go-supervisor v0.0.0

require github.com/robbyt/go-fsm/v2 v2.3.0

replace github.com/robbyt/go-supervisor => /repo
