// Package director is the shared scripted-environment toolkit of the harness:
// an event recorder, a quiescence detector and goroutine census based on
// runtime.Stack, and a slog.Handler that can park the logging goroutine on chosen
// records (hook-free schedule control).  See DESIGN.md section 3.2.
package director

import (
	"bytes"
	"context"
	"fmt"
	"log/slog"
	"regexp"
	"runtime"
	"sort"
	"strings"
	"sync"
	"sync/atomic"
	"time"
)

const ModulePrefix = "github.com/robbyt/go-supervisor/"
const HarnessPrefix = "github.com/robbyt/go-supervisor/verif_harness/"

// ---------------------------------------------------------------- recorder

// Recorder is a mutex-ordered event log: the order of entries is a linearisation
// consistent with real-time order at the mock/API boundary.
type Recorder struct {
	mu  sync.Mutex
	evs []string
	n   atomic.Int64
}

func (r *Recorder) Emit(format string, args ...any) {
	s := fmt.Sprintf(format, args...)
	r.mu.Lock()
	r.evs = append(r.evs, s)
	r.n.Add(1)
	r.mu.Unlock()
}

func (r *Recorder) Count() int64 { return r.n.Load() }

// EmitIfCount appends the event only if exactly cnt events have been recorded so far (atomically),
// so that an observation of quiescence cannot be logged after something else already happened.
func (r *Recorder) EmitIfCount(cnt int64, format string, args ...any) bool {
	s := fmt.Sprintf(format, args...)
	r.mu.Lock()
	defer r.mu.Unlock()
	if int64(len(r.evs)) != cnt {
		return false
	}
	r.evs = append(r.evs, s)
	r.n.Add(1)
	return true
}

// QuiescentAt waits for quiescence and returns the event count at which it was observed (-1 on timeout).
func (r *Recorder) QuiescentAt(maxWait time.Duration) int64 {
	for deadline := time.Now().Add(maxWait); ; {
		c := r.Count()
		if r.WaitQuiescentN(time.Until(deadline), 3, 300*time.Microsecond) && r.Count() == c {
			return c
		}
		if time.Now().After(deadline) {
			return -1
		}
	}
}

func (r *Recorder) Events() []string {
	r.mu.Lock()
	defer r.mu.Unlock()
	return append([]string(nil), r.evs...)
}

// Has reports whether an event equal to s has been recorded.
func (r *Recorder) Has(s string) bool {
	r.mu.Lock()
	defer r.mu.Unlock()
	for _, e := range r.evs {
		if e == s {
			return true
		}
	}
	return false
}

// WaitFor blocks until an event with the given prefix is in the log or the timeout expires.
func (r *Recorder) WaitFor(prefix string, timeout time.Duration) bool {
	deadline := time.Now().Add(timeout)
	for {
		r.mu.Lock()
		for _, e := range r.evs {
			if strings.HasPrefix(e, prefix) {
				r.mu.Unlock()
				return true
			}
		}
		r.mu.Unlock()
		if time.Now().After(deadline) {
			return false
		}
		time.Sleep(200 * time.Microsecond)
	}
}

// ---------------------------------------------------------------- goroutine census

// G describes one goroutine that has at least one frame inside the library under test.
type G struct {
	ID      int
	Status  string   // e.g. "chan receive", "select", "running"
	Top     string   // innermost library (non-harness) function
	Frames  []string // all function names, innermost first
	Blocked bool
}

var hdrRe = regexp.MustCompile(`^goroutine (\d+) \[([^\],]+)(?:, [^\]]*)?\]:$`)

var blockedStatus = map[string]bool{
	"chan receive": true, "chan send": true, "select": true, "select (no cases)": true,
	"sync.Mutex.Lock": true, "sync.RWMutex.Lock": true, "sync.RWMutex.RLock": true,
	"sync.WaitGroup.Wait": true, "sync.Cond.Wait": true, "semacquire": true,
	"IO wait": true, "sleep": true, "chan receive (nil chan)": true, "chan send (nil chan)": true,
	"sync.Once.Do": true,
}

// LibraryGoroutines parses runtime.Stack(all) and returns the goroutines that have a frame in
// the go-supervisor module outside the harness.  The calling goroutine is excluded.
func LibraryGoroutines() []G {
	buf := make([]byte, 1<<20)
	for {
		n := runtime.Stack(buf, true)
		if n < len(buf) {
			buf = buf[:n]
			break
		}
		buf = make([]byte, 2*len(buf))
	}
	var out []G
	blocks := bytes.Split(buf, []byte("\n\n"))
	for bi, b := range blocks {
		if bi == 0 {
			continue // the caller (first block is always the current goroutine)
		}
		lines := strings.Split(string(b), "\n")
		m := hdrRe.FindStringSubmatch(lines[0])
		if m == nil {
			continue
		}
		g := G{Status: m[2]}
		fmt.Sscanf(m[1], "%d", &g.ID)
		for _, l := range lines[1:] {
			if strings.HasPrefix(l, "\t") || l == "" {
				continue
			}
			fn := l
			if strings.HasPrefix(fn, "created by ") {
				fn = strings.TrimPrefix(fn, "created by ")
				if i := strings.Index(fn, " in goroutine"); i >= 0 {
					fn = fn[:i]
				}
				// creation site counts for membership only when nothing else matched
				if g.Top == "" && strings.HasPrefix(fn, ModulePrefix) && !strings.HasPrefix(fn, HarnessPrefix) {
					g.Top = "created-by:" + fn
				}
				continue
			}
			if i := strings.LastIndex(fn, "("); i > 0 {
				fn = fn[:i]
			}
			g.Frames = append(g.Frames, fn)
			if g.Top == "" && strings.HasPrefix(fn, ModulePrefix) && !strings.HasPrefix(fn, HarnessPrefix) {
				g.Top = fn
			}
		}
		if g.Top == "" {
			continue
		}
		g.Blocked = blockedStatus[g.Status]
		out = append(out, g)
	}
	return out
}

// Census returns library-goroutine counts keyed by their innermost library function.
func Census() map[string]int {
	c := map[string]int{}
	for _, g := range LibraryGoroutines() {
		c[strings.TrimPrefix(g.Top, ModulePrefix)]++
	}
	return c
}

func CensusString(c map[string]int) string {
	ks := make([]string, 0, len(c))
	for k := range c {
		ks = append(ks, k)
	}
	sort.Strings(ks)
	var b strings.Builder
	for i, k := range ks {
		if i > 0 {
			b.WriteString(",")
		}
		fmt.Fprintf(&b, "%s=%d", k, c[k])
	}
	return b.String()
}

// WaitQuiescent waits until, in `stable` consecutive samples taken `gap` apart, every library
// goroutine is blocked, the set of (goroutine id, status) is unchanged and the recorder did not
// move.  Returns false on timeout.
func (r *Recorder) WaitQuiescent(maxWait time.Duration) bool {
	return r.WaitQuiescentN(maxWait, 3, 300*time.Microsecond)
}

// allGoroutineStatus returns "id:status;" for every goroutine of the process except the caller,
// and whether all of them are blocked.  Using every goroutine (library, mocks, pumps, pending API
// calls of the harness) avoids declaring quiescence while a harness goroutine is still on its way
// into the library.
func allGoroutineStatus() (string, bool) {
	buf := make([]byte, 1<<20)
	for {
		n := runtime.Stack(buf, true)
		if n < len(buf) {
			buf = buf[:n]
			break
		}
		buf = make([]byte, 2*len(buf))
	}
	all := true
	var sb strings.Builder
	for bi, b := range bytes.Split(buf, []byte("\n\n")) {
		if bi == 0 {
			continue
		}
		line := b
		if i := bytes.IndexByte(b, '\n'); i >= 0 {
			line = b[:i]
		}
		m := hdrRe.FindSubmatch(line)
		if m == nil {
			continue
		}
		if bytes.Contains(b, []byte("os/signal.loop")) || bytes.Contains(b, []byte("os/signal.signal_recv")) {
			continue // the runtime's signal-forwarding goroutine sits in a syscall forever
		}
		if !blockedStatus[string(m[2])] {
			all = false
		}
		sb.Write(m[1])
		sb.WriteByte(':')
		sb.Write(m[2])
		sb.WriteByte(';')
	}
	return sb.String(), all
}

func (r *Recorder) WaitQuiescentN(maxWait time.Duration, stable int, gap time.Duration) bool {
	deadline := time.Now().Add(maxWait)
	prevSig := ""
	prevCount := int64(-1)
	good := 0
	for {
		sig, all := allGoroutineStatus()
		cnt := r.Count()
		if all && sig == prevSig && cnt == prevCount {
			good++
			if good >= stable {
				return true
			}
		} else {
			good = 0
		}
		prevSig, prevCount = sig, cnt
		if time.Now().After(deadline) {
			return false
		}
		time.Sleep(gap)
	}
}

// ---------------------------------------------------------------- parking log handler

// ParkHandler is a slog.Handler that parks the goroutine emitting a record whose message contains
// a registered substring.  A slow log handler is legitimate environment behaviour.
type ParkHandler struct {
	mu      sync.Mutex
	parks   []*Park
	Matched atomic.Int64
	Records atomic.Int64
	Rec     *Recorder // optional: log every message as "Log <msg>" (off by default)
	LogAll  bool
	notes   []note // records whose appearance is itself an event of the log (evidence of a program point)
}

type note struct{ substr, event string }

// Notify makes every record whose message contains substr append event to Rec (before any park on the
// same record is taken): the record is evidence that the logging goroutine has reached that program point.
func (h *ParkHandler) Notify(substr, event string) {
	h.mu.Lock()
	h.notes = append(h.notes, note{substr, event})
	h.mu.Unlock()
}

type Park struct {
	substr  string
	reached chan struct{}
	release chan struct{}
	once    sync.Once
	used    bool
}

// ParkOn arms a one-shot park on the next record whose message contains substr.
func (h *ParkHandler) ParkOn(substr string) *Park {
	p := &Park{substr: substr, reached: make(chan struct{}), release: make(chan struct{})}
	h.mu.Lock()
	h.parks = append(h.parks, p)
	h.mu.Unlock()
	return p
}

// Reached is closed once a goroutine is parked.
func (p *Park) Reached() <-chan struct{} { return p.reached }

// WaitReached waits for the park to be hit.
func (p *Park) WaitReached(d time.Duration) bool {
	select {
	case <-p.reached:
		return true
	case <-time.After(d):
		return false
	}
}

// Release lets the parked goroutine continue (idempotent; also disarms an unused park).
func (p *Park) Release() { p.once.Do(func() { close(p.release) }) }

func (h *ParkHandler) Enabled(context.Context, slog.Level) bool { return true }
func (h *ParkHandler) WithAttrs([]slog.Attr) slog.Handler      { return h }
func (h *ParkHandler) WithGroup(string) slog.Handler           { return h }
func (h *ParkHandler) Handle(_ context.Context, rec slog.Record) error {
	h.Records.Add(1)
	if h.LogAll && h.Rec != nil {
		h.Rec.Emit("Log %s", rec.Message)
	}
	var hit *Park
	h.mu.Lock()
	for _, n := range h.notes {
		if h.Rec != nil && strings.Contains(rec.Message, n.substr) {
			h.Rec.Emit("%s", n.event)
		}
	}
	for _, p := range h.parks {
		if !p.used && strings.Contains(rec.Message, p.substr) {
			p.used = true
			hit = p
			break
		}
	}
	h.mu.Unlock()
	if hit != nil {
		h.Matched.Add(1)
		close(hit.reached)
		<-hit.release
	}
	return nil
}

// ReleaseAll releases every park (used at scenario teardown).
func (h *ParkHandler) ReleaseAll() {
	h.mu.Lock()
	ps := append([]*Park(nil), h.parks...)
	h.mu.Unlock()
	for _, p := range ps {
		p.Release()
	}
}
