package director

import (
	"bytes"
	"runtime"
	"strings"
)

// CreatedByLibrary returns, for every goroutine that was started by a `go` statement inside the
// library under test (not inside the harness), the number of live goroutines keyed by the creating
// function (module prefix stripped), e.g. "runnables/composite.(*Runner[...]).boot".
// This is the census of goroutines the library created on its own behalf: goroutines of API callers
// (created by the harness) are not included even while they execute library code.
func CreatedByLibrary() map[string]int {
	buf := make([]byte, 1<<20)
	for {
		n := runtime.Stack(buf, true)
		if n < len(buf) {
			buf = buf[:n]
			break
		}
		buf = make([]byte, 2*len(buf))
	}
	out := map[string]int{}
	for _, b := range bytes.Split(buf, []byte("\n\n")) {
		for _, l := range strings.Split(string(b), "\n") {
			if !strings.HasPrefix(l, "created by ") {
				continue
			}
			fn := strings.TrimPrefix(l, "created by ")
			if i := strings.Index(fn, " in goroutine"); i >= 0 {
				fn = fn[:i]
			}
			if strings.HasPrefix(fn, ModulePrefix) && !strings.HasPrefix(fn, HarnessPrefix) {
				out[strings.TrimPrefix(fn, ModulePrefix)]++
			}
		}
	}
	return out
}
