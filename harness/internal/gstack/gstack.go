// Package gstack parses runtime.Stack(all) into goroutine records with ALL their frames (not only
// frames of the go-supervisor module, unlike director.LibraryGoroutines), so that the C18 legs can
// classify goroutines of the library AND of go-fsm (broadcast cleanup / sender goroutines started on
// the library's behalf) by the functions on their stacks.
package gstack

import (
	"bytes"
	"fmt"
	"regexp"
	"runtime"
	"sort"
	"strings"
)

// G is one goroutine of the process.
type G struct {
	ID        int
	Status    string   // "chan receive", "select", "running", ...
	Frames    []string // function names, innermost first
	CreatedBy string   // function that started the goroutine ("" for main)
}

var hdrRe = regexp.MustCompile(`^goroutine (\d+) \[([^\],]+)(?:, [^\]]*)?\]:$`)

// All returns every goroutine of the process except the caller.
func All() []G {
	buf := make([]byte, 1<<20)
	for {
		n := runtime.Stack(buf, true)
		if n < len(buf) {
			buf = buf[:n]
			break
		}
		buf = make([]byte, 2*len(buf))
	}
	var out []G
	for bi, b := range bytes.Split(buf, []byte("\n\n")) {
		if bi == 0 {
			continue // the first block is the calling goroutine
		}
		lines := strings.Split(string(b), "\n")
		m := hdrRe.FindStringSubmatch(lines[0])
		if m == nil {
			continue
		}
		g := G{Status: m[2]}
		fmt.Sscanf(m[1], "%d", &g.ID)
		for _, l := range lines[1:] {
			if strings.HasPrefix(l, "\t") || l == "" {
				continue
			}
			if strings.HasPrefix(l, "created by ") {
				fn := strings.TrimPrefix(l, "created by ")
				if i := strings.Index(fn, " in goroutine"); i >= 0 {
					fn = fn[:i]
				}
				g.CreatedBy = fn
				continue
			}
			fn := l
			if i := strings.LastIndex(fn, "("); i > 0 {
				fn = fn[:i]
			}
			g.Frames = append(g.Frames, fn)
		}
		out = append(out, g)
	}
	return out
}

// Has reports whether some frame's function name ends with suffix.
func (g G) Has(suffix string) bool {
	for _, f := range g.Frames {
		if strings.HasSuffix(f, suffix) {
			return true
		}
	}
	return false
}

// HasPrefix reports whether some frame's function name (or the creator) starts with prefix.
func (g G) HasPrefix(prefix string) bool {
	for _, f := range g.Frames {
		if strings.HasPrefix(f, prefix) {
			return true
		}
	}
	return strings.HasPrefix(g.CreatedBy, prefix)
}

// Entry is the outermost function of the goroutine.
func (g G) Entry() string {
	if len(g.Frames) == 0 {
		return ""
	}
	return g.Frames[len(g.Frames)-1]
}

// Describe is a short diagnostic form: status, innermost and outermost function, creator.
func (g G) Describe() string {
	in := ""
	if len(g.Frames) > 0 {
		in = g.Frames[0]
	}
	return fmt.Sprintf("[%s] %s .. %s <- %s", g.Status, in, g.Entry(), g.CreatedBy)
}

// Kinds counts goroutines per class; classify returns "" for goroutines to ignore.
func Kinds(gs []G, classify func(G) string) map[string]int {
	c := map[string]int{}
	for _, g := range gs {
		if k := classify(g); k != "" {
			c[k]++
		}
	}
	return c
}

func KindsString(c map[string]int) string {
	ks := make([]string, 0, len(c))
	for k := range c {
		ks = append(ks, k)
	}
	sort.Strings(ks)
	var b strings.Builder
	for i, k := range ks {
		if i > 0 {
			b.WriteByte(',')
		}
		fmt.Fprintf(&b, "%s=%d", k, c[k])
	}
	return b.String()
}
