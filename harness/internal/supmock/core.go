// Package supmock provides contract-driven runnables for the supervisor harness.  Every call
// across the supervisor/mock boundary is recorded in the director's event log.
package supmock

import (
	"context"
	"errors"
	"fmt"
	"sync"
	"sync/atomic"

	"github.com/robbyt/go-supervisor/verif_harness/internal/director"
)

// RunResult is what a released Run() returns.
type RunResult struct {
	Err    error
	ID     int  // identity of the error value in the event log (0 = nil)
	Cancel bool // the error is, or wraps, context.Canceled / DeadlineExceeded
}

// Core is the shared state of one mock runnable.
type Core struct {
	Idx        int
	Rec        *director.Recorder
	Stateable  bool
	Reloadable bool
	RSender    bool
	SSender    bool
	StopBlocks bool // Stop() blocks until Run has been invoked and has returned (lifecycle style)
	HeldRun    bool // Run returns only when the director releases it
	HeldStop   bool // Stop returns only when the director releases it (after its style's own wait)
	HeldReload bool
	HeldSub    bool // GetStateChan blocks until released
	HeldPoll   bool // IsRunning() blocks until the director supplies the answer
	ErrOnStop  *RunResult // when set, an unheld Run returns this (a real error) once Stop() was called
	Unhashable bool       // wrap as a value of a non-comparable type (only for runnables without capabilities)

	mu        sync.Mutex
	state     string
	subs      []*stateSub
	ready     atomic.Bool
	stopOnce  sync.Once
	stopCh    chan struct{}
	started   chan struct{}
	startOnce sync.Once
	done      chan struct{}
	doneOnce  sync.Once

	RunRelease    chan RunResult
	StopRelease   chan struct{}
	ReloadRelease chan struct{}
	SubRelease    chan struct{}
	PollRelease   chan bool
	PollPending   atomic.Bool
	ReloadTrig    chan struct{}
	ShutdownTrig  chan struct{}
	CtxDone       atomic.Bool // the context handed to Run was seen cancelled
	InRun         atomic.Bool

	// a slow String(): when armed, the next call parks until released (legitimate environment behaviour: the
	// library calls String() of its runnables when it builds a state map or formats a log record)
	holdString    atomic.Bool
	StringReached chan struct{}
	StringRelease chan struct{}
}

func NewCore(idx int, rec *director.Recorder) *Core {
	return &Core{
		Idx: idx, Rec: rec, state: "New",
		stopCh: make(chan struct{}), started: make(chan struct{}), done: make(chan struct{}),
		RunRelease: make(chan RunResult, 1), StopRelease: make(chan struct{}, 1),
		ReloadRelease: make(chan struct{}, 8), SubRelease: make(chan struct{}, 8), PollRelease: make(chan bool),
		ReloadTrig: make(chan struct{}), ShutdownTrig: make(chan struct{}),
		StringReached: make(chan struct{}, 1), StringRelease: make(chan struct{}, 1),
	}
}

func (c *Core) String() string {
	if c.holdString.CompareAndSwap(true, false) {
		c.StringReached <- struct{}{}
		<-c.StringRelease
	}
	return fmt.Sprintf("r%d", c.Idx)
}

// SetInitialState sets the state the runnable reports before any Emit (default "New").
func (c *Core) SetInitialState(s string) {
	c.mu.Lock()
	c.state = s
	c.mu.Unlock()
}

// HoldNextString arms a one-shot park of the next String() call.
func (c *Core) HoldNextString() { c.holdString.Store(true) }

// DisarmString disarms an unused hold; it reports whether the hold was still armed.
func (c *Core) DisarmString() bool { return c.holdString.CompareAndSwap(true, false) }

func (c *Core) Run(ctx context.Context) error {
	c.Rec.Emit("RunCall %d", c.Idx)
	c.InRun.Store(true)
	c.startOnce.Do(func() { close(c.started) })
	defer c.doneOnce.Do(func() { close(c.done) })
	// note when the context is cancelled, for the director's bookkeeping
	go func() {
		select {
		case <-ctx.Done():
			c.CtxDone.Store(true)
		case <-c.done:
		}
	}()
	if c.HeldRun {
		r := <-c.RunRelease
		c.emitRet(r)
		return r.Err
	}
	select {
	case r := <-c.RunRelease:
		c.emitRet(r)
		return r.Err
	case <-c.stopCh:
		if c.ErrOnStop != nil {
			c.emitRet(*c.ErrOnStop)
			return c.ErrOnStop.Err
		}
		c.emitRet(RunResult{})
		return nil
	case <-ctx.Done():
		c.CtxDone.Store(true)
		err := fmt.Errorf("mock %d stopping: %w", c.Idx, ctx.Err())
		c.emitRet(RunResult{Err: err, ID: 900 + c.Idx, Cancel: true})
		return err
	}
}

func (c *Core) emitRet(r RunResult) {
	if r.Err == nil {
		c.Rec.Emit("RunRet %d nil", c.Idx)
		return
	}
	// self-check of the harness's own classification
	isC := errors.Is(r.Err, context.Canceled) || errors.Is(r.Err, context.DeadlineExceeded)
	if isC != r.Cancel {
		c.Rec.Emit("HarnessBug cancel-flag-mismatch %d", c.Idx)
	}
	b := 0
	if r.Cancel {
		b = 1
	}
	c.Rec.Emit("RunRet %d err %d %d", c.Idx, r.ID, b)
}

func (c *Core) Stop() {
	c.Rec.Emit("StopCall %d", c.Idx)
	c.stopOnce.Do(func() { close(c.stopCh) })
	if c.StopBlocks {
		<-c.started
		<-c.done
	}
	if c.HeldStop {
		<-c.StopRelease
	}
	c.Rec.Emit("StopRet %d", c.Idx)
}

// SetReady sets the answer of IsRunning().
func (c *Core) SetReady(b bool) { c.ready.Store(b) }

// Emit changes the runnable's state and notifies subscribers.
func (c *Core) Emit(s string, code int) {
	c.mu.Lock()
	c.Rec.Emit("Emit %d %d", c.Idx, code) // logged before any consequence can be observed
	c.state = s
	for _, sb := range c.subs {
		sb.push(s)
	}
	c.mu.Unlock()
}

func (c *Core) State() string {
	c.mu.Lock()
	defer c.mu.Unlock()
	return c.state
}

// ---- capability mixins

type stCap struct{ c *Core }

func (s stCap) IsRunning() bool {
	if s.c.HeldPoll {
		s.c.Rec.Emit("PollBegin %d", s.c.Idx)
		s.c.PollPending.Store(true)
		b := <-s.c.PollRelease
		s.c.PollPending.Store(false)
		v := 0
		if b {
			v = 1
		}
		s.c.Rec.Emit("Poll %d %d", s.c.Idx, v)
		return b
	}
	b := s.c.ready.Load()
	v := 0
	if b {
		v = 1
	}
	s.c.Rec.Emit("Poll %d %d", s.c.Idx, v)
	return b
}
func (s stCap) GetState() string { return s.c.State() }
func (s stCap) GetStateChan(ctx context.Context) <-chan string {
	if s.c.HeldSub {
		select {
		case <-s.c.SubRelease:
		case <-ctx.Done():
		}
	}
	sb := newStateSub(ctx)
	s.c.mu.Lock()
	sb.push(s.c.state) // current state first
	s.c.subs = append(s.c.subs, sb)
	s.c.mu.Unlock()
	return sb.out
}

type rlCap struct{ c *Core }

func (r rlCap) Reload(ctx context.Context) {
	r.c.Rec.Emit("ReloadCall %d", r.c.Idx)
	if r.c.HeldReload {
		<-r.c.ReloadRelease
	}
	r.c.Rec.Emit("ReloadRet %d", r.c.Idx)
}

type rsCap struct{ c *Core }

func (r rsCap) GetReloadTrigger() <-chan struct{} { return r.c.ReloadTrig }

type ssCap struct{ c *Core }

func (s ssCap) GetShutdownTrigger() <-chan struct{} { return s.c.ShutdownTrig }

// ---- state subscription: unbounded queue pumped into an unbuffered channel, closed on ctx.Done

type stateSub struct {
	mu   sync.Mutex
	q    []string
	wake chan struct{}
	out  chan string
}

func newStateSub(ctx context.Context) *stateSub {
	sb := &stateSub{wake: make(chan struct{}, 1), out: make(chan string, 1)} // cap 1 like finitestate's wrapped channel
	go func() {
		defer close(sb.out)
		for {
			sb.mu.Lock()
			var head string
			has := len(sb.q) > 0
			if has {
				head = sb.q[0]
			}
			sb.mu.Unlock()
			if !has {
				select {
				case <-sb.wake:
					continue
				case <-ctx.Done():
					return
				}
			}
			select {
			case sb.out <- head:
				sb.mu.Lock()
				sb.q = sb.q[1:]
				sb.mu.Unlock()
			case <-ctx.Done():
				return
			}
		}
	}()
	return sb
}

func (sb *stateSub) push(s string) {
	sb.mu.Lock()
	sb.q = append(sb.q, s)
	sb.mu.Unlock()
	select {
	case sb.wake <- struct{}{}:
	default:
	}
}
