// panicsites lists, from the Go source of runnables/httpserver and its middleware packages (non-test
// files), every expression that CAN panic by the language definition or by the documented contract of the
// few standard-library calls named below, into coq/gen/HttpPanicSites.v.  The Coq side
// (coq/model/HttpPanic.v, HttpPanicPolicy.v) holds a hand-written policy that must justify every site;
// `sites_ok policy sites = true` is re-proved by vm_compute on every run of ./check C19, so a NEW
// panic-capable expression (an index, a slice expression, a type assertion, ...) breaks a proof
// obligation and sends the dynamic leg looking for a failing input.
//
// The inventory is SYNTACTIC.  Kinds:
//
//	PIndex          x[i] on a slice, array, string or pointer to array (not: map reads, constant index into an array)
//	PSlice          x[a:b] / x[a:b:c] (not: x[:])
//	PPanic          explicit panic(...)
//	PMapWrite       m[k] = v, m[k]++ (panics on a nil map)
//	PSend / PClose  ch <- v (panics on a closed channel), close(ch)
//	PAssert         x.(T) without comma-ok and outside a type switch
//	PCallFuncValue  a call through a function VALUE (field, variable, parameter, element): panics when nil
//	PDeref          explicit *p, and every selector / method call x.f through a pointer- or interface-typed x
//	                that is not the receiver of the enclosing method (nil dereference); one site per
//	                (function, x, conditions)
//	PDiv            integer / or % with a non-constant divisor
//	PCallApi        calls of ServeMux.Handle/HandleFunc, ResponseWriter.WriteHeader, WaitGroup.Add/Done,
//	                strings.Repeat, anything named Must*
//	POnceRearm      assignment of a sync.Once value (re-arming a Once that may be in use)
//	PMake           make with a size that is neither a constant nor len(...)/cap(...)
//
// Every site carries the function it is in ("Recv.Method", "Func", closures "Outer$1" numbered in order of
// appearance), the expression text (go/types.ExprString - no line numbers) and the lexical conditions known
// to hold there: conditions of enclosing if/for/switch-case, and the negation of every earlier
// `if c { ...return/continue/break/panic }` of the enclosing blocks (conjunctions and disjunctions are split,
// comparisons flipped), plus two pseudo-conditions: "k in range x" inside `for k := range x`, and
// "deferred recover()" after a `defer func() { ... recover() ... }()` of the same function.  Closures do not
// inherit conditions.  A harmless rewrite that moves lines changes
// nothing; only the file:line debug label (never inspected) moves.
//
// NOT seen: panics inside callees from other packages, runtime panics that are not tied to an expression form
// above (out of memory, stack overflow, unlock of an unlocked mutex, negative slice len via append...),
// method receivers being nil, reflection, unsafe.
package main

import (
	"bytes"
	"encoding/json"
	"flag"
	"fmt"
	"go/ast"
	"go/constant"
	"go/parser"
	"go/token"
	"go/types"
	"os"
	"os/exec"
	"path/filepath"
	"sort"
	"strings"
)

const modPath = "github.com/robbyt/go-supervisor"

type listPkg struct {
	ImportPath string
	Dir        string
	GoFiles    []string
	ImportMap  map[string]string
}

type loader struct {
	fset *token.FileSet
	pkgs map[string]*types.Package
}

type pkgImporter struct {
	l  *loader
	lp *listPkg
}

func (pi pkgImporter) Import(path string) (*types.Package, error) {
	if path == "unsafe" {
		return types.Unsafe, nil
	}
	if m, ok := pi.lp.ImportMap[path]; ok {
		path = m
	}
	if p, ok := pi.l.pkgs[path]; ok {
		return p, nil
	}
	return nil, fmt.Errorf("panicsites: package %q not loaded", path)
}

func isTarget(path string) bool {
	return path == modPath+"/runnables/httpserver" || strings.HasPrefix(path, modPath+"/runnables/httpserver/")
}

type site struct {
	Pkg, Func, Kind, Expr string
	Conds                 []string
	Dbg                   string
}

type walker struct {
	fset  *token.FileSet
	info  *types.Info
	pkg   string
	sites *[]site
	fn    string          // current function context
	recv  types.Object    // receiver of the enclosing method (nil derefs through it are not listed)
	nlit  *int            // closure counter of the enclosing top-level function
	top   string          // name of the enclosing top-level function
	seen  map[string]bool // de-duplication of PDeref sites: func|expr|conds
}

func (w *walker) add(kind string, e ast.Node, text string, conds []string) {
	p := w.fset.Position(e.Pos())
	var cs []string
	dup := map[string]bool{}
	for _, c := range conds { // a condition established twice is listed once
		if !dup[c] {
			dup[c] = true
			cs = append(cs, c)
		}
	}
	*w.sites = append(*w.sites, site{Pkg: w.pkg, Func: w.fn, Kind: kind, Expr: text, Conds: cs,
		Dbg: fmt.Sprintf("%s:%d", filepath.Base(p.Filename), p.Line)})
}

func str(e ast.Expr) string { return types.ExprString(e) }

// split a condition known to be TRUE into atoms
func pos(e ast.Expr) []string {
	e = ast.Unparen(e)
	if b, ok := e.(*ast.BinaryExpr); ok && b.Op == token.LAND {
		return append(pos(b.X), pos(b.Y)...)
	}
	if u, ok := e.(*ast.UnaryExpr); ok && u.Op == token.NOT {
		return neg(u.X)
	}
	return []string{str(e)}
}

// atoms known when the condition is FALSE
func neg(e ast.Expr) []string {
	e = ast.Unparen(e)
	switch x := e.(type) {
	case *ast.BinaryExpr:
		flip := map[token.Token]token.Token{token.EQL: token.NEQ, token.NEQ: token.EQL, token.LSS: token.GEQ,
			token.GEQ: token.LSS, token.GTR: token.LEQ, token.LEQ: token.GTR}
		if x.Op == token.LOR {
			return append(neg(x.X), neg(x.Y)...)
		}
		if x.Op == token.LAND {
			return []string{"!(" + str(e) + ")"}
		}
		if f, ok := flip[x.Op]; ok {
			return []string{str(&ast.BinaryExpr{X: x.X, Op: f, Y: x.Y})}
		}
	case *ast.UnaryExpr:
		if x.Op == token.NOT {
			return pos(x.X)
		}
	}
	return []string{"!" + str(e)}
}

func terminates(b *ast.BlockStmt) bool {
	if b == nil || len(b.List) == 0 {
		return false
	}
	switch s := b.List[len(b.List)-1].(type) {
	case *ast.ReturnStmt:
		return true
	case *ast.BranchStmt:
		return s.Tok == token.CONTINUE || s.Tok == token.BREAK || s.Tok == token.GOTO
	case *ast.ExprStmt:
		if c, ok := s.X.(*ast.CallExpr); ok {
			switch f := c.Fun.(type) {
			case *ast.Ident:
				return f.Name == "panic"
			case *ast.SelectorExpr:
				return str(f) == "os.Exit"
			}
		}
	}
	return false
}

func callsRecover(fl *ast.FuncLit) bool {
	found := false
	ast.Inspect(fl.Body, func(n ast.Node) bool {
		if c, ok := n.(*ast.CallExpr); ok {
			if id, ok := c.Fun.(*ast.Ident); ok && id.Name == "recover" {
				found = true
			}
		}
		return !found
	})
	return found
}

func (w *walker) block(list []ast.Stmt, conds []string) {
	cur := append([]string{}, conds...)
	for _, s := range list {
		w.stmt(s, cur)
		if is, ok := s.(*ast.IfStmt); ok && is.Else == nil && terminates(is.Body) {
			cur = append(cur, neg(is.Cond)...)
		}
		if ds, ok := s.(*ast.DeferStmt); ok {
			if fl, ok := ds.Call.Fun.(*ast.FuncLit); ok && callsRecover(fl) {
				cur = append(cur, "deferred recover()") // what follows in this function runs under a recover
			}
		}
	}
}

func (w *walker) stmt(s ast.Stmt, conds []string) {
	switch x := s.(type) {
	case nil:
	case *ast.BlockStmt:
		w.block(x.List, conds)
	case *ast.ExprStmt:
		w.expr(x.X, conds, false)
	case *ast.SendStmt:
		w.add("PSend", x, str(x.Chan), conds)
		w.expr(x.Chan, conds, false)
		w.expr(x.Value, conds, false)
	case *ast.IncDecStmt:
		w.lhs(x.X, conds)
	case *ast.AssignStmt:
		commaOk := len(x.Lhs) == 2 && len(x.Rhs) == 1
		for _, r := range x.Rhs {
			w.expr(r, conds, commaOk)
		}
		for i, l := range x.Lhs {
			w.lhs(l, conds)
			if i < len(x.Rhs) && len(x.Lhs) == len(x.Rhs) {
				if t := w.info.TypeOf(l); t != nil && t.String() == "sync.Once" {
					w.add("POnceRearm", x, str(l)+" = "+str(x.Rhs[i]), conds)
				}
			}
		}
	case *ast.GoStmt:
		w.expr(x.Call, conds, false)
	case *ast.DeferStmt:
		w.expr(x.Call, conds, false)
	case *ast.ReturnStmt:
		for _, r := range x.Results {
			w.expr(r, conds, false)
		}
	case *ast.IfStmt:
		w.stmt(x.Init, conds)
		w.expr(x.Cond, conds, false)
		w.block(x.Body.List, append(append([]string{}, conds...), pos(x.Cond)...))
		if x.Else != nil {
			w.stmt(x.Else, append(append([]string{}, conds...), neg(x.Cond)...))
		}
	case *ast.ForStmt:
		w.stmt(x.Init, conds)
		c := append([]string{}, conds...)
		if x.Cond != nil {
			w.expr(x.Cond, conds, false)
			c = append(c, pos(x.Cond)...)
		}
		w.stmt(x.Post, c)
		w.block(x.Body.List, c)
	case *ast.RangeStmt:
		w.expr(x.X, conds, false)
		c := append([]string{}, conds...)
		if k, ok := x.Key.(*ast.Ident); ok && k.Name != "_" {
			c = append(c, k.Name+" in range "+str(x.X)) // the key of a range loop is a valid index / key of its operand
		}
		w.block(x.Body.List, c)
	case *ast.SwitchStmt:
		w.stmt(x.Init, conds)
		if x.Tag != nil {
			w.expr(x.Tag, conds, false)
		}
		for _, cc := range x.Body.List {
			c := cc.(*ast.CaseClause)
			cs := append([]string{}, conds...)
			for _, e := range c.List {
				w.expr(e, conds, false)
			}
			if len(c.List) == 1 {
				if x.Tag == nil {
					cs = append(cs, pos(c.List[0])...)
				} else {
					cs = append(cs, str(x.Tag)+" == "+str(c.List[0]))
				}
			}
			w.block(c.Body, cs)
		}
	case *ast.TypeSwitchStmt:
		w.stmt(x.Init, conds)
		// the x.(type) of a type switch never panics: walk only the operand
		switch a := x.Assign.(type) {
		case *ast.ExprStmt:
			if ta, ok := a.X.(*ast.TypeAssertExpr); ok {
				w.expr(ta.X, conds, false)
			}
		case *ast.AssignStmt:
			if ta, ok := a.Rhs[0].(*ast.TypeAssertExpr); ok {
				w.expr(ta.X, conds, false)
			}
		}
		for _, cc := range x.Body.List {
			w.block(cc.(*ast.CaseClause).Body, conds)
		}
	case *ast.SelectStmt:
		for _, cc := range x.Body.List {
			c := cc.(*ast.CommClause)
			w.stmt(c.Comm, conds)
			w.block(c.Body, conds)
		}
	case *ast.LabeledStmt:
		w.stmt(x.Stmt, conds)
	case *ast.DeclStmt:
		if gd, ok := x.Decl.(*ast.GenDecl); ok {
			for _, sp := range gd.Specs {
				if vs, ok := sp.(*ast.ValueSpec); ok {
					commaOk := len(vs.Names) == 2 && len(vs.Values) == 1
					for _, v := range vs.Values {
						w.expr(v, conds, commaOk)
					}
				}
			}
		}
	}
}

// an expression in assignment position
func (w *walker) lhs(e ast.Expr, conds []string) {
	if ix, ok := ast.Unparen(e).(*ast.IndexExpr); ok {
		if t := w.info.TypeOf(ix.X); t != nil {
			if _, isMap := t.Underlying().(*types.Map); isMap {
				w.add("PMapWrite", ix, str(ix), conds)
				w.expr(ix.X, conds, false)
				w.expr(ix.Index, conds, false)
				return
			}
		}
	}
	w.expr(e, conds, false)
}

func isConst(info *types.Info, e ast.Expr) bool {
	tv, ok := info.Types[e]
	return ok && tv.Value != nil
}

func (w *walker) isRecv(e ast.Expr) bool {
	id, ok := ast.Unparen(e).(*ast.Ident)
	return ok && w.recv != nil && w.info.Uses[id] == w.recv
}

var apiPanics = map[string]bool{
	"(*net/http.ServeMux).Handle":           true,
	"(*net/http.ServeMux).HandleFunc":       true,
	"(net/http.ResponseWriter).WriteHeader": true,
	"(*sync.WaitGroup).Add":                 true,
	"(*sync.WaitGroup).Done":                true,
	"strings.Repeat":                        true,
}

func (w *walker) call(c *ast.CallExpr, conds []string) {
	fun := ast.Unparen(c.Fun)
	walkArgs := func() {
		for _, a := range c.Args {
			w.expr(a, conds, false)
		}
	}
	if tv, ok := w.info.Types[fun]; ok && tv.IsType() { // conversion
		walkArgs()
		return
	}
	api := func(obj types.Object) {
		if f, ok := obj.(*types.Func); ok {
			if apiPanics[f.FullName()] || strings.HasPrefix(f.Name(), "Must") {
				w.add("PCallApi", c, f.FullName(), conds)
			}
		}
	}
	switch f := fun.(type) {
	case *ast.Ident:
		switch obj := w.info.Uses[f].(type) {
		case *types.Builtin:
			switch obj.Name() {
			case "panic":
				w.add("PPanic", c, str(c), conds)
			case "close":
				w.add("PClose", c, str(c.Args[0]), conds)
			case "make":
				for _, a := range c.Args[1:] {
					if isConst(w.info, a) {
						continue
					}
					if ic, ok := ast.Unparen(a).(*ast.CallExpr); ok {
						if id, ok := ic.Fun.(*ast.Ident); ok && (id.Name == "len" || id.Name == "cap") {
							continue
						}
					}
					w.add("PMake", c, str(c), conds)
				}
			}
		case *types.Var:
			w.add("PCallFuncValue", c, str(f), conds)
		case *types.Func:
			api(obj)
		}
	case *ast.SelectorExpr:
		if sel, ok := w.info.Selections[f]; ok {
			if sel.Kind() == types.FieldVal {
				w.add("PCallFuncValue", c, str(f), conds)
			} else {
				api(sel.Obj())
			}
			w.expr(f, conds, false)
		} else { // qualified identifier
			switch obj := w.info.Uses[f.Sel].(type) {
			case *types.Var:
				w.add("PCallFuncValue", c, str(f), conds)
			case *types.Func:
				api(obj)
			}
		}
	case *ast.FuncLit: // immediately invoked
		w.expr(f, conds, false)
	case *ast.IndexExpr, *ast.IndexListExpr:
		// generic instantiation f[T](...) or a call through an element m[k](...)
		if tv, ok := w.info.Types[fun]; ok && tv.IsValue() {
			if _, isSig := tv.Type.Underlying().(*types.Signature); isSig {
				base := fun.(interface{ Pos() token.Pos })
				_ = base
				if ix, ok := fun.(*ast.IndexExpr); ok {
					if btv, ok := w.info.Types[ix.X]; ok {
						if _, gen := btv.Type.Underlying().(*types.Signature); gen {
							break // generic function instantiated
						}
					}
				}
				w.add("PCallFuncValue", c, str(fun), conds)
				w.expr(fun, conds, false)
			}
		}
	default:
		w.add("PCallFuncValue", c, str(fun), conds)
		w.expr(fun, conds, false)
	}
	walkArgs()
}

func (w *walker) expr(e ast.Expr, conds []string, commaOk bool) {
	switch x := e.(type) {
	case nil:
	case *ast.ParenExpr:
		w.expr(x.X, conds, commaOk)
	case *ast.CallExpr:
		w.call(x, conds)
	case *ast.IndexExpr:
		if tv, ok := w.info.Types[x.X]; ok && tv.IsValue() {
			switch t := tv.Type.Underlying().(type) {
			case *types.Map:
			case *types.Signature: // generic instantiation
			case *types.Array:
				if !isConst(w.info, x.Index) {
					w.add("PIndex", x, str(x), conds)
				} else if v, ok := constant.Int64Val(w.info.Types[x.Index].Value); !ok || v < 0 || v >= t.Len() {
					w.add("PIndex", x, str(x), conds)
				}
			default:
				w.add("PIndex", x, str(x), conds)
			}
			w.expr(x.X, conds, false)
			w.expr(x.Index, conds, false)
		}
	case *ast.SliceExpr:
		if x.Low != nil || x.High != nil || x.Max != nil {
			w.add("PSlice", x, str(x), conds)
		}
		w.expr(x.X, conds, false)
		w.expr(x.Low, conds, false)
		w.expr(x.High, conds, false)
		w.expr(x.Max, conds, false)
	case *ast.TypeAssertExpr:
		if !commaOk && x.Type != nil {
			w.add("PAssert", x, str(x), conds)
		}
		w.expr(x.X, conds, false)
	case *ast.StarExpr:
		if tv, ok := w.info.Types[x]; ok && tv.IsValue() {
			w.add("PDeref", x, str(x.X), conds)
			w.expr(x.X, conds, false)
		}
	case *ast.UnaryExpr:
		w.expr(x.X, conds, false)
	case *ast.BinaryExpr:
		if x.Op == token.QUO || x.Op == token.REM {
			if t := w.info.TypeOf(x); t != nil {
				if b, ok := t.Underlying().(*types.Basic); ok && b.Info()&types.IsInteger != 0 && !isConst(w.info, x.Y) {
					w.add("PDiv", x, str(x), conds)
				}
			}
		}
		w.expr(x.X, conds, false)
		if x.Op == token.LAND { // the right operand is evaluated only when the left one holds
			w.expr(x.Y, append(append([]string{}, conds...), pos(x.X)...), false)
		} else if x.Op == token.LOR {
			w.expr(x.Y, append(append([]string{}, conds...), neg(x.X)...), false)
		} else {
			w.expr(x.Y, conds, false)
		}
	case *ast.SelectorExpr:
		if _, ok := w.info.Selections[x]; ok {
			if tv, ok := w.info.Types[x.X]; ok && tv.IsValue() && !w.isRecv(x.X) {
				switch tv.Type.Underlying().(type) {
				case *types.Pointer, *types.Interface:
					w.add("PDeref", x, str(x.X), conds)
				}
			}
			w.expr(x.X, conds, false)
		}
	case *ast.CompositeLit:
		for _, el := range x.Elts {
			if kv, ok := el.(*ast.KeyValueExpr); ok {
				if _, isField := kv.Key.(*ast.Ident); !isField {
					w.expr(kv.Key, conds, false)
				}
				w.expr(kv.Value, conds, false)
			} else {
				w.expr(el, conds, false)
			}
		}
	case *ast.KeyValueExpr:
		w.expr(x.Value, conds, false)
	case *ast.FuncLit:
		*w.nlit++
		sub := *w
		sub.fn = fmt.Sprintf("%s$%d", w.top, *w.nlit)
		sub.block(x.Body.List, nil) // a closure runs later: no inherited conditions
	}
}

func coqStr(s string) string { return `"` + strings.ReplaceAll(s, `"`, `""`) + `"` }

func main() {
	repo := flag.String("repo", "/repo", "repository root")
	out := flag.String("out", "", "Coq file to write (default: stdout)")
	gobin := flag.String("go", "go1.26", "go command used for `go list`")
	flag.Parse()

	cmd := exec.Command(*gobin, "list", "-deps", "-json=ImportPath,Dir,GoFiles,ImportMap", "./runnables/httpserver/...")
	cmd.Dir = *repo
	cmd.Env = append(os.Environ(), "CGO_ENABLED=0", "GOFLAGS=-mod=mod", "GOPROXY=off", "GOTOOLCHAIN=local")
	var stderr bytes.Buffer
	cmd.Stderr = &stderr
	outb, err := cmd.Output()
	if err != nil {
		fmt.Fprintf(os.Stderr, "go list failed: %v\n%s", err, stderr.String())
		os.Exit(1)
	}
	l := &loader{fset: token.NewFileSet(), pkgs: map[string]*types.Package{}}
	var sites []site
	dec := json.NewDecoder(bytes.NewReader(outb))
	for dec.More() {
		lp := &listPkg{}
		if err := dec.Decode(lp); err != nil {
			fmt.Fprintln(os.Stderr, err)
			os.Exit(1)
		}
		if lp.ImportPath == "unsafe" {
			continue
		}
		tgt := isTarget(lp.ImportPath)
		var files []*ast.File
		for _, f := range lp.GoFiles {
			af, err := parser.ParseFile(l.fset, filepath.Join(lp.Dir, f), nil, parser.SkipObjectResolution)
			if err != nil {
				if tgt {
					fmt.Fprintln(os.Stderr, err)
					os.Exit(1)
				}
				continue
			}
			files = append(files, af)
		}
		var firstErr error
		conf := types.Config{Importer: pkgImporter{l, lp}, IgnoreFuncBodies: !tgt, FakeImportC: true,
			Error: func(e error) {
				if firstErr == nil {
					firstErr = e
				}
			}}
		info := &types.Info{}
		if tgt {
			info = &types.Info{Types: map[ast.Expr]types.TypeAndValue{}, Defs: map[*ast.Ident]types.Object{},
				Uses: map[*ast.Ident]types.Object{}, Selections: map[*ast.SelectorExpr]*types.Selection{}}
		}
		p, _ := conf.Check(lp.ImportPath, l.fset, files, info)
		if tgt && firstErr != nil {
			fmt.Fprintf(os.Stderr, "type error in %s: %v\n", lp.ImportPath, firstErr)
			os.Exit(1)
		}
		l.pkgs[lp.ImportPath] = p
		if !tgt {
			continue
		}
		short := strings.TrimPrefix(lp.ImportPath, modPath+"/runnables/")
		for _, af := range files {
			for _, d := range af.Decls {
				fd, ok := d.(*ast.FuncDecl)
				if !ok || fd.Body == nil {
					continue
				}
				name := fd.Name.Name
				var recv types.Object
				if fd.Recv != nil && len(fd.Recv.List) == 1 {
					t := fd.Recv.List[0].Type
					if s, ok := t.(*ast.StarExpr); ok {
						t = s.X
					}
					if ix, ok := t.(*ast.IndexExpr); ok {
						t = ix.X
					}
					name = str(t) + "." + name
					if len(fd.Recv.List[0].Names) == 1 {
						recv = info.Defs[fd.Recv.List[0].Names[0]]
					}
				}
				n := 0
				w := &walker{fset: l.fset, info: info, pkg: short, sites: &sites, fn: name, recv: recv, nlit: &n, top: name}
				w.block(fd.Body.List, nil)
			}
		}
	}
	// nil dereferences: one site per (package, function, expression) carrying the conditions common to ALL its
	// occurrences in that function (the weakest guarantee)
	{
		var outS []site
		idx := map[string]int{}
		for _, s := range sites {
			if s.Kind != "PDeref" {
				outS = append(outS, s)
				continue
			}
			k := s.Pkg + "\x00" + s.Func + "\x00" + s.Expr
			if i, ok := idx[k]; ok {
				var common []string
				for _, c := range outS[i].Conds {
					for _, d := range s.Conds {
						if c == d {
							common = append(common, c)
							break
						}
					}
				}
				outS[i].Conds = common
				continue
			}
			idx[k] = len(outS)
			outS = append(outS, s)
		}
		sites = outS
	}
	sort.SliceStable(sites, func(i, j int) bool {
		a, b := sites[i], sites[j]
		ka := a.Pkg + "\x00" + a.Func + "\x00" + a.Kind + "\x00" + a.Expr + "\x00" + strings.Join(a.Conds, "\x01")
		kb := b.Pkg + "\x00" + b.Func + "\x00" + b.Kind + "\x00" + b.Expr + "\x00" + strings.Join(b.Conds, "\x01")
		return ka < kb
	})
	var sb strings.Builder
	sb.WriteString("(* GENERATED by harness/cmd/panicsites from the Go source of runnables/httpserver (and its middleware\n" +
		"   packages) - do not edit.  Re-generated on every run of ./check C19.  The last (string) argument of\n" +
		"   mkPSite is a file:line debug label that no checking function inspects. *)\n" +
		"From Coq Require Import String List.\nFrom GS Require Import HttpPanic.\nImport ListNotations.\nOpen Scope string_scope.\n\n" +
		"(* mkPSite package function kind expression lexical-conditions debug-label *)\n" +
		"Definition sites : list psite := [\n")
	for i, s := range sites {
		var cs []string
		for _, c := range s.Conds {
			cs = append(cs, coqStr(c))
		}
		sep := ";"
		if i == len(sites)-1 {
			sep = ""
		}
		fmt.Fprintf(&sb, "  mkPSite %s %s %s %s [%s] %s%s\n", coqStr(s.Pkg), coqStr(s.Func), s.Kind, coqStr(s.Expr),
			strings.Join(cs, "; "), coqStr(s.Dbg), sep)
	}
	sb.WriteString("].\n")
	if *out == "" {
		fmt.Print(sb.String())
		return
	}
	if err := os.WriteFile(*out, []byte(sb.String()), 0o644); err != nil {
		fmt.Fprintln(os.Stderr, err)
		os.Exit(1)
	}
	fmt.Printf("panicsites: %d sites\n", len(sites))
}
