// c20 runs networking.ValidatePort on enumerated / generated inputs and prints
// one TSV line per input for the model driver (see /verif/ocaml/c20.ml).
package main

import (
	"bufio"
	"encoding/hex"
	"errors"
	"flag"
	"fmt"
	"net"
	"os"
	"strings"

	"github.com/robbyt/go-supervisor/internal/networking"
	"github.com/robbyt/go-supervisor/verif_harness/internal/prng"
)

var alphabet = []string{"0", "1", "6", "9", "+", "-", ":", "[", "]", ".", "%", "a", " ", "é"}

func classify(err error) int {
	switch {
	case err == nil:
		return 0
	case errors.Is(err, networking.ErrEmptyPort):
		return 1
	case errors.Is(err, networking.ErrInvalidFormat):
		return 2
	case errors.Is(err, networking.ErrPortOutOfRange):
		return 3
	}
	return 9
}

func emit(w *bufio.Writer, in string) {
	res, err := networking.ValidatePort(in)
	c := classify(err)
	sok, h, p := "0", "", ""
	if c == 0 {
		hh, pp, e := net.SplitHostPort(res)
		if e == nil {
			sok, h, p = "1", hh, pp
		}
	} else {
		res = ""
	}
	fmt.Fprintf(w, "%s\t%d\t%s\t%s\t%s\t%s\n", hex.EncodeToString([]byte(in)), c,
		hex.EncodeToString([]byte(res)), sok, hex.EncodeToString([]byte(h)), hex.EncodeToString([]byte(p)))
}

func exhaustive(w *bufio.Writer, maxLen, shard, shards int) {
	idx := 0
	var rec func(prefix string, depth int)
	rec = func(prefix string, depth int) {
		if idx%shards == shard {
			emit(w, prefix)
		}
		idx++
		if depth == maxLen {
			return
		}
		for _, a := range alphabet {
			rec(prefix+a, depth+1)
		}
	}
	rec("", 0)
}

var ports = []string{"1", "80", "8080", "65535", "65536", "0", "00", "0080", "99999", "70000",
	"9223372036854775807", "9223372036854775808", "18446744073709551616", "99999999999999999999999",
	"-1", "-80", "+80", "+0", "+", "-", "", " 80", "80 ", "8 0", "8_0", "0x50", "80a", "http", "８０", "1e3", "65535.0"}
var hosts = []string{"", "localhost", "127.0.0.1", "example.com", "a", "a.b", "0", "host name", "h-", "-h",
	"[::1]", "[::]", "[fe80::1%eth0]", "[2001:db8::1]", "[a]", "[]", "[::1", "::1]", "::1", "a:b", "[[::1]]",
	"[:-1]", "[a:-b]", "[::1]x", "x[::1]", "é", "%", "[%]", "[::ffff:1.2.3.4]"}

func gen(r *prng.R) string {
	var s string
	switch r.Intn(10) {
	case 0, 1:
		s = prng.Pick(r, ports)
	case 2, 3:
		s = ":" + prng.Pick(r, ports)
	case 4, 5, 6, 7:
		s = prng.Pick(r, hosts) + ":" + prng.Pick(r, ports)
	case 8:
		// numeric port from the whole range neighbourhood
		s = prng.Pick(r, hosts) + ":" + fmt.Sprint(r.Intn(70000)-100)
	default:
		n := r.Intn(12)
		var b strings.Builder
		for i := 0; i < n; i++ {
			b.WriteString(prng.Pick(r, alphabet))
		}
		s = b.String()
	}
	// mutation stream
	for r.Chance(1, 4) && len(s) < 40 {
		bs := []byte(s)
		pos := r.Intn(len(bs) + 1)
		switch r.Intn(3) {
		case 0:
			ins := prng.Pick(r, alphabet)
			s = string(bs[:pos]) + ins + string(bs[pos:])
		case 1:
			if len(bs) > 0 && pos < len(bs) {
				s = string(bs[:pos]) + string(bs[pos+1:])
			}
		default:
			if len(bs) > 0 && pos < len(bs) {
				bs[pos] = byte(r.Intn(256))
				s = string(bs)
			}
		}
	}
	return s
}

func main() {
	mode := flag.String("mode", "exhaustive", "exhaustive|random|corpus")
	maxLen := flag.Int("len", 4, "max length (symbols) for exhaustive mode")
	n := flag.Int("n", 10000, "number of random cases")
	seed := flag.Uint64("seed", 1, "PRNG seed")
	shard := flag.Int("shard", 0, "shard index")
	shards := flag.Int("shards", 1, "number of shards")
	file := flag.String("file", "", "corpus file: one hex input per line")
	flag.Parse()
	w := bufio.NewWriterSize(os.Stdout, 1<<20)
	defer w.Flush()
	switch *mode {
	case "exhaustive":
		exhaustive(w, *maxLen, *shard, *shards)
	case "random":
		r := prng.New(*seed)
		seen := map[string]bool{}
		for i := 0; i < *n; i++ {
			s := gen(r)
			if seen[s] {
				continue // only distinct inputs are emitted, so counts downstream are distinct counts
			}
			seen[s] = true
			emit(w, s)
		}
	case "corpus":
		f, err := os.Open(*file)
		if err != nil {
			fmt.Fprintln(os.Stderr, err)
			os.Exit(2)
		}
		sc := bufio.NewScanner(f)
		for sc.Scan() {
			line := strings.TrimSpace(sc.Text())
			if line == "" || strings.HasPrefix(line, "#") {
				continue
			}
			b, err := hex.DecodeString(strings.Fields(line)[0])
			if err != nil {
				fmt.Fprintln(os.Stderr, "bad corpus line:", line)
				os.Exit(2)
			}
			emit(w, string(b))
		}
	}
}
