// c15w runs random WriteHeader/Write call sequences on the real responseWriter of runnables/httpserver
// (obtained through Route.ServeHTTP and RequestProcessor.Writer()) over a SCRIPTED underlying
// http.ResponseWriter whose WriteHeader may panic and whose Write returns scripted (n, err) pairs,
// and prints per sequence:  OPS <TAB> ops <TAB> observations   (format: ocaml/c15w.ml).
package main

import (
	"bufio"
	"errors"
	"flag"
	"fmt"
	"net/http"
	"net/http/httptest"
	"os"
	"strings"

	"github.com/robbyt/go-supervisor/runnables/httpserver"
	"github.com/robbyt/go-supervisor/verif_harness/internal/prng"
)

type op struct {
	kind         byte // 'H' or 'W'
	code, length int
	panics       bool
	n            int
	err          bool
}

func (o op) String() string {
	if o.kind == 'H' {
		return fmt.Sprintf("H%d:%d", o.code, b2i(o.panics))
	}
	return fmt.Sprintf("W%d:%d:%d:%d", o.length, b2i(o.panics), o.n, b2i(o.err))
}

func b2i(b bool) int {
	if b {
		return 1
	}
	return 0
}

var errScripted = errors.New("scripted transport error")

// scripted is the underlying writer: it does what the current op says.
type scripted struct {
	hdr http.Header
	cur *op
	// what it received
	gotWH   []int
	gotBody int
}

func (s *scripted) Header() http.Header { return s.hdr }
func (s *scripted) WriteHeader(c int) {
	if s.cur.panics {
		panic("scripted: invalid WriteHeader code")
	}
	s.gotWH = append(s.gotWH, c)
}
func (s *scripted) Write(b []byte) (int, error) {
	s.gotBody += s.cur.n
	if s.cur.err {
		return s.cur.n, errScripted
	}
	return s.cur.n, nil
}

func parseOps(s string) []op {
	var out []op
	for _, t := range strings.Split(s, ";") {
		if t == "" {
			continue
		}
		var o op
		o.kind = t[0]
		var p, e int
		if o.kind == 'H' {
			fmt.Sscanf(t[1:], "%d:%d", &o.code, &p)
		} else {
			fmt.Sscanf(t[1:], "%d:%d:%d:%d", &o.length, &p, &o.n, &e)
		}
		o.panics, o.err = p == 1, e == 1
		out = append(out, o)
	}
	return out
}

func gen(r *prng.R) []op {
	k := 1 + r.Intn(7)
	ops := make([]op, k)
	weird := r.Chance(1, 5)
	for i := range ops {
		if r.Chance(1, 3) {
			codes := []int{200, 201, 204, 301, 404, 500, 503, 100, 999}
			o := op{kind: 'H', code: codes[r.Intn(len(codes))]}
			if weird && r.Chance(1, 3) {
				o.code = []int{0, 99, 1000, -1}[r.Intn(4)]
				o.panics = o.code != 0 || r.Bool() // net/http panics on all of these; code 0 accepted only by odd writers
				if o.code == 0 {
					o.panics = true
				}
			} else if r.Chance(1, 8) {
				o.panics = true
			}
			ops[i] = o
			continue
		}
		l := r.Intn(40)
		o := op{kind: 'W', length: l, n: l}
		switch r.Intn(6) {
		case 0: // short write, no error
			if l > 0 {
				o.n = r.Intn(l + 1)
			}
		case 1: // fails part-way
			if l > 0 {
				o.n = r.Intn(l + 1)
			}
			o.err = true
		case 2: // fails outright
			o.n, o.err = 0, true
		}
		if r.Chance(1, 10) {
			o.panics = true
		}
		ops[i] = o
	}
	return ops
}

// runOps performs the ops on the wrapper inside a route handler; returns the observation string and the
// scripted writer (for the property evaluated on the implementation alone).
func runOps(ops []op) (string, *scripted) {
	under := &scripted{hdr: http.Header{}}
	var obs []string
	mw := func(rp *httpserver.RequestProcessor) {
		w := rp.Writer()
		for i := range ops {
			o := &ops[i]
			under.cur = o
			out := "u"
			func() {
				defer func() {
					if r := recover(); r != nil {
						out = "p"
					}
				}()
				if o.kind == 'H' {
					w.WriteHeader(o.code)
				} else {
					n, err := w.Write(make([]byte, o.length))
					out = fmt.Sprintf("w%d:%d", n, b2i(err != nil))
				}
			}()
			obs = append(obs, fmt.Sprintf("%s/%d/%d/%d", out, w.Status(), b2i(w.Written()), w.Size()))
		}
	}
	route, err := httpserver.NewRouteFromHandlerFunc("r", "/", func(http.ResponseWriter, *http.Request) {}, mw)
	if err != nil {
		panic(err)
	}
	route.ServeHTTP(under, httptest.NewRequest("GET", "/", nil))
	return strings.Join(obs, ";"), under
}

func main() {
	n := flag.Int("n", 1000, "sequences")
	seed := flag.Uint64("seed", 1, "seed")
	file := flag.String("file", "", "replay op sequences from a file (one per line)")
	flag.Parse()
	w := bufio.NewWriter(os.Stdout)
	defer w.Flush()
	emit := func(ops []op) {
		var ss []string
		for _, o := range ops {
			ss = append(ss, o.String())
		}
		o, under := runOps(ops)
		// PROP: the getters against what the scripted writer really received
		fmt.Fprintf(w, "OPS\t%s\t%s\n", strings.Join(ss, ";"), o)
		last := o[strings.LastIndex(o, ";")+1:]
		var st, wr, sz int
		f := strings.Split(last, "/")
		fmt.Sscanf(f[1], "%d", &st)
		fmt.Sscanf(f[2], "%d", &wr)
		fmt.Sscanf(f[3], "%d", &sz)
		var bad []string
		if sz != under.gotBody {
			bad = append(bad, fmt.Sprintf("Size()=%d but the client received %d body bytes", sz, under.gotBody))
		}
		if (wr == 1) != (len(under.gotWH) > 0) {
			bad = append(bad, fmt.Sprintf("Written()=%d but the client received %d headers", wr, len(under.gotWH)))
		}
		if len(under.gotWH) > 1 {
			bad = append(bad, fmt.Sprintf("the client received %d WriteHeader calls", len(under.gotWH)))
		}
		if len(under.gotWH) > 0 && under.gotWH[0] != 0 && st != under.gotWH[0] {
			bad = append(bad, fmt.Sprintf("Status()=%d but the client received %d", st, under.gotWH[0]))
		}
		if len(bad) > 0 {
			fmt.Fprintf(w, "PROPFAIL\t%s\t%s\n", strings.Join(ss, ";"), strings.Join(bad, "; "))
		}
	}
	if *file != "" {
		f, err := os.Open(*file)
		if err != nil {
			panic(err)
		}
		sc := bufio.NewScanner(f)
		for sc.Scan() {
			if t := strings.TrimSpace(sc.Text()); t != "" && !strings.HasPrefix(t, "#") {
				emit(parseOps(t))
			}
		}
		return
	}
	r := prng.New(*seed)
	for i := 0; i < *n; i++ {
		emit(gen(r))
	}
}
