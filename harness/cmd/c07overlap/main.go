// c07overlap: what the real code does with OVERLAPPING Run() calls on one lifecycle.StartStop (audit L7(e)).
// Not part of any check: the C07 property quantifies over consecutive Run cycles ("up to m consecutive Run
// cycles"), and coq/model/Lifecycle.v enables LRunStart only when no cycle is in progress.  This program records
// the behaviour outside that premise (see checks/claims/C07.json, notes/C07-overlapping-run.md):
//
//	cd harness && go1.26 build -modfile=../build/gomod/go.mod -tags verif -o ../build/bin/c07overlap ./cmd/c07overlap
//
// Observed on /repo 8db8351:
//
//	bare: Stop returned after 0s; Run#1 returned=false (Run#2 returned=true)
//	composite: second Run() returned failed to transition to Booting state: ... 'Running' to 'Booting' is not allowed, state Running
//	composite: Stop returned after 0s; first Run STILL RUNNING
//	composite: first Run returned later: <nil>
package main

import (
	"context"
	"fmt"
	"time"

	"github.com/robbyt/go-supervisor/runnables/composite"
	"github.com/robbyt/go-supervisor/supervisor/lifecycle"
)

type child struct {
	lc   *lifecycle.StartStop
	slow time.Duration
}

func (c *child) String() string { return "child" }
func (c *child) Run(ctx context.Context) error {
	done := c.lc.Started()
	defer done()
	select {
	case <-ctx.Done():
	case <-c.lc.StopCh():
	}
	time.Sleep(c.slow)
	return nil
}
func (c *child) Stop() { c.lc.Stop() }

func main() {
	// 1. bare StartStop, two overlapping Runs
	l := lifecycle.New()
	ret := make([]chan struct{}, 2)
	for i := range ret {
		ret[i] = make(chan struct{})
	}
	run := func(i int, tail time.Duration) {
		done := l.Started()
		<-l.StopCh()
		time.Sleep(tail)
		done()
		close(ret[i])
	}
	go run(0, 300*time.Millisecond) // Run #1: slow to return after the signal
	time.Sleep(20 * time.Millisecond)
	go run(1, 0) // Run #2 overlaps, returns at once after the signal
	time.Sleep(20 * time.Millisecond)
	t0 := time.Now()
	l.Stop()
	d := time.Since(t0)
	r1 := false
	select {
	case <-ret[0]:
		r1 = true
	default:
	}
	fmt.Printf("bare: Stop returned after %v; Run#1 returned=%v (Run#2 returned=%v)\n", d.Round(time.Millisecond), r1, func() bool {
		select {
		case <-ret[1]:
			return true
		default:
			return false
		}
	}())

	// 2. composite runner: second Run() while the first is Running
	c := &child{lc: lifecycle.New(), slow: 300 * time.Millisecond}
	cfg, _ := composite.NewConfigFromRunnables("c", []*child{c}, nil)
	r, err := composite.NewRunner(func() (*composite.Config[*child], error) { return cfg, nil })
	if err != nil {
		panic(err)
	}
	ctx := context.Background()
	run1 := make(chan error, 1)
	go func() { run1 <- r.Run(ctx) }()
	for !r.IsRunning() {
		time.Sleep(time.Millisecond)
	}
	err2 := r.Run(ctx) // overlapping second Run
	fmt.Printf("composite: second Run() returned %v, state %s\n", err2, r.GetState())
	t0 = time.Now()
	r.Stop()
	d = time.Since(t0)
	select {
	case e := <-run1:
		fmt.Printf("composite: Stop returned after %v; first Run HAD returned (%v)\n", d.Round(time.Millisecond), e)
	default:
		fmt.Printf("composite: Stop returned after %v; first Run STILL RUNNING\n", d.Round(time.Millisecond))
		fmt.Printf("composite: first Run returned later: %v\n", <-run1)
	}
}
