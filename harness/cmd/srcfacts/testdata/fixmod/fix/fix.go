// Package fix is the fixture of the srcfacts self-test: every access below has a
// hand-determined expectation in ../../expect.txt.  Do not reformat without updating it.
package fix

import (
	"sync"
	"sync/atomic"
)

type T struct {
	mu     sync.RWMutex
	once   sync.Once
	wg     sync.WaitGroup
	ptr    atomic.Pointer[int]
	a      int
	b      int
	c      chan int
	m      map[string]int
	name   string
	closed bool
}

type Option func(*T)

func WithName(n string) Option {
	return func(t *T) {
		t.name = n // Wr PreCtor (option closure parameter)
	}
}

func New(opts ...Option) *T {
	t := &T{c: make(chan int), m: map[string]int{}} // c, m: Wr PreCtor
	t.a = 1                                         // Wr PreCtor
	for _, o := range opts {
		o(t) // option applied in a constructor
	}
	return t
}

// DeferUnlock: everything after Lock is under mu:Ex.
func (t *T) DeferUnlock() int {
	t.mu.Lock()
	defer t.mu.Unlock()
	t.a++      // Wr [mu Ex]
	return t.b // Rd [mu Ex]
}

// StraightLine: the access after Unlock holds nothing.
func (t *T) StraightLine() int {
	t.mu.RLock()
	x := t.a // Rd [mu Sh]
	t.mu.RUnlock()
	return x + t.b // Rd []
}

// EarlyUnlock: one branch unlocks and returns; the fall-through still holds the lock.
func (t *T) EarlyUnlock(k int) {
	t.mu.Lock()
	if k == 0 {
		t.mu.Unlock()
		t.b = 0 // Wr []
		return
	}
	t.b = k // Wr [mu Ex]
	t.mu.Unlock()
}

// BranchUnlock: only one branch unlocks and continues: afterwards nothing is held for sure.
func (t *T) BranchUnlock(k int) {
	t.mu.Lock()
	if k == 0 {
		t.mu.Unlock()
	}
	t.a = k // Wr []
}

// GoInside: the goroutine body does not inherit the lock.
func (t *T) GoInside() {
	t.mu.Lock()
	defer t.mu.Unlock()
	go func() {
		t.a = 2 // Wr [] in GoInside$go1
	}()
	t.wg.Go(func() {
		t.b = 2 // Wr [] in GoInside$go2
	})
	t.b = 3 // Wr [mu Ex]
}

// helper is entered with mu:Ex by both callers; helper2 has an unlocked caller.
func (t *T) helper() {
	t.a = 5 // Wr [] lexically, entry [mu Ex]
	t.helper2()
}

func (t *T) helper2() {
	t.b = 6 // Wr [], entry []
}

func (t *T) CallerA() {
	t.mu.Lock()
	t.helper()
	t.mu.Unlock()
	t.helper2()
}

func (t *T) CallerB() {
	t.mu.Lock()
	defer t.mu.Unlock()
	t.helper()
}

// spawned is started as a goroutine while the lock is held: no entry locks.
func (t *T) spawned() {
	t.a = 7 // Wr [], entry []
}

func (t *T) Spawner() {
	t.mu.Lock()
	defer t.mu.Unlock()
	go t.spawned()
}

// OnceBody: the body of Once.Do runs synchronously: inherits the lock; the deferred closure too.
func (t *T) OnceBody() {
	t.mu.Lock()
	defer t.mu.Unlock()
	defer func() {
		t.b = 8 // Wr in OnceBody$defer1, entry [mu Ex]
	}()
	t.once.Do(func() {
		t.a = 8 // Wr [mu Ex]
	})
}

// Escaping: the returned closure can run at any time.
func (t *T) Escaping() func() {
	t.mu.Lock()
	defer t.mu.Unlock()
	return func() {
		t.a = 9 // Wr [] in Escaping$lit1
	}
}

// LoopUnlock: the body releases the lock, so the loop head holds nothing on the second round.
func (t *T) LoopUnlock(n int) {
	t.mu.Lock()
	for i := 0; i < n; i++ {
		t.a = i // Wr []
		t.mu.Unlock()
		t.mu.Lock()
		t.b = i // Wr [mu Ex]
		t.mu.Unlock()
	}
}

// SelectBranches: each clause is a branch.
func (t *T) SelectBranches() {
	t.mu.RLock()
	select {
	case v := <-t.c: // Rd [mu Sh]
		t.mu.RUnlock()
		t.m["k"] = v // Wr []
	default:
		t.mu.RUnlock()
	}
	_ = t.name // Rd []
}

// LocalCopy: writes to a private copy.
func (t *T) LocalCopy() T {
	t.mu.RLock()
	defer t.mu.RUnlock()
	var cp T
	cp.a = t.a // Wr PreLocal ; Rd [mu Sh]
	return cp
}

// OtherObject: a lock of another object does not protect this one.
func (t *T) OtherObject(o *T) {
	o.mu.Lock()
	t.a = 10 // Wr []
	o.b = 10 // Wr [mu Ex]
	o.mu.Unlock()
}

// SyncUses: method calls on sync values are uses; delete writes the map field.
func (t *T) SyncUses() {
	t.ptr.Store(nil)     // Use
	t.wg.Wait()          // Use
	delete(t.m, "k")     // Wr []
	t.once = sync.Once{} // Wr []
}

// Gate: the launch-gate pattern - the Go is under mu and behind the latch test.
func (t *T) Gate(f func()) bool {
	t.mu.Lock()
	defer t.mu.Unlock()
	if t.closed { // Rd [mu Ex]
		return false
	}
	t.wg.Go(f) // Use [mu Ex] conds [!$.closed]; wg#addwait Wr
	return true
}

// CloseAndWait: the Wait runs in a goroutine spawned after the latch was set.
func (t *T) CloseAndWait() {
	t.mu.Lock()
	t.closed = true // Wr [mu Ex] note =true
	t.mu.Unlock()
	go func() {
		t.wg.Wait() // Use conds [set:$.closed]; wg#addwait Rd
	}()
}

// StaleCheck: the test happens before the lock is taken: the condition does not survive the Lock.
func (t *T) StaleCheck(f func()) {
	if t.closed { // Rd []
		return
	}
	t.mu.Lock()
	t.wg.Go(f) // conds []
	t.mu.Unlock()
}

// Reopen: assigning false removes the history fact.
func (t *T) Reopen() {
	t.mu.Lock()
	t.closed = true  // note =true
	t.closed = false // note =false
	t.mu.Unlock()
	t.wg.Wait() // conds []
}

// UnlockInHelper (audit M11): the helper releases the lock its caller took.  The extractor cannot follow
// that: the caller's write AFTER the call is still recorded under [mu Ex] (wrong), which is why the Unlock
// site of the helper - recorded with a lexical lock set that lacks mu - must make the table fail
// (coq/model/Race.v unlock_failures; "unbalanced-unlock" line of the fixture).
func (t *T) UnlockInHelper() {
	t.mu.Lock()
	t.releaseForCaller()
	t.a = 7 // Wr: really unlocked; recorded as lex=[mu:Ex]
}

func (t *T) releaseForCaller() {
	t.mu.Unlock()
}

// LatchThenWait: history facts across calls.  setLatch executes `t.closed = true` on every path before it returns
// (its summary); waitAfter is called only after it, so "set:$.closed" is an ENTRY FACT of waitAfter and, through the
// go statement, of its closure - although neither mentions the assignment lexically.
func (t *T) LatchThenWait() {
	t.setLatch()
	t.waitAfter()
}

func (t *T) setLatch() {
	t.mu.Lock()
	t.closed = true
	t.mu.Unlock()
}

func (t *T) waitAfter() {
	t.wg.Wait()
	go func() {
		t.wg.Wait()
	}()
}
