module example.com/fixmod

go 1.26.0
