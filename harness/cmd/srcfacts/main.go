// srcfacts extracts, from the Go source of the library under verification, the
// table of shared-field accesses that the Coq development of property C17
// checks against the hand-written lock policy (coq/model/RacePolicy.v).
//
// It uses only the standard library (go/parser, go/ast, go/types).  Packages
// and their dependencies are located with `go list -deps -json` and are all
// type-checked from source (dependencies without function bodies).
//
// For every field of the tracked structs it lists every syntactic access:
//
//	(struct, field, enclosing function context, Rd|Wr|Use,
//	 locks lexically held at that point (same base object only),
//	 whether the context's entry locks apply (same receiver object),
//	 pre-publication reason (constructor / fresh literal / local copy))
//
// plus, per function context, whether it is exported / usable as a value /
// reachable through an interface / a constructor, its proposed entry lock set
// ("held by every caller"), and every call site with the locks held there, so
// that the propagation is re-checked by Coq rather than trusted.
//
// Tracked besides the runners: the configuration values httpserver.Config, httpserver.Route and
// composite.Config (policy: written only in constructors/options).
//
// What this tool does NOT see (trusted / out of scope, see notes/C17.md): local variables captured by
// goroutine closures, package-level variables, fields of structs that are not in trackedStructs
// (httpserver.RequestProcessor, middleware state, ...), a reference read under a lock and
// dereferenced after the unlock,
// aliasing of a field's address, reflection, unsafe, accesses performed by
// dependencies through pointers handed to them, calls through function values.
// A `go func(){...}` body, a `wg.Go(func(){...})` body and any function literal
// that is not run synchronously get a context of their own with NO inherited
// locks.
package main

import (
	"bytes"
	"encoding/json"
	"flag"
	"fmt"
	"go/ast"
	"go/parser"
	"go/token"
	"go/types"
	"os"
	"os/exec"
	"path/filepath"
	"regexp"
	"sort"
	"strings"
)

// overridable by flags (the extractor self-test runs on a fixture module)
var modPath = "github.com/robbyt/go-supervisor"

var targetPkgs = []string{
	"supervisor", "supervisor/lifecycle", "internal/finitestate",
	"runnables/composite", "runnables/httpserver", "runnables/httpcluster",
}

// tracked structs: "<pkgname>.<Type>"
var trackedStructs = map[string]bool{
	"supervisor.PIDZero":      true,
	"lifecycle.StartStop":     true,
	"finitestate.Machine":     true,
	"composite.Runner":        true,
	"httpserver.Runner":       true,
	"httpcluster.Runner":      true,
	"httpcluster.entries":     true,
	"httpcluster.serverEntry": true,
	"httpserver.Config":       true,
	"httpserver.Route":        true,
	"composite.Config":        true,
}

type listPkg struct {
	ImportPath string
	Dir        string
	GoFiles    []string
	ImportMap  map[string]string
	Standard   bool
}

// ---------------------------------------------------------------- loading

type loader struct {
	fset  *token.FileSet
	pkgs  map[string]*types.Package
	meta  map[string]*listPkg
	infos map[string]*types.Info
	files map[string][]*ast.File
}

type pkgImporter struct {
	l  *loader
	lp *listPkg
}

func (pi pkgImporter) Import(path string) (*types.Package, error) {
	if path == "unsafe" {
		return types.Unsafe, nil
	}
	if m, ok := pi.lp.ImportMap[path]; ok {
		path = m
	}
	if p, ok := pi.l.pkgs[path]; ok {
		return p, nil
	}
	return nil, fmt.Errorf("srcfacts: package %q not loaded", path)
}

func isTarget(path string) bool {
	for _, t := range targetPkgs {
		if path == modPath+"/"+t {
			return true
		}
	}
	return false
}

// buildTags: extra build tags for the file selection (empty = the production file set).
var buildTags string

func load(repo, gobin string) (*loader, error) {
	args := []string{"list", "-deps", "-json=ImportPath,Dir,GoFiles,ImportMap,Standard"}
	if buildTags != "" {
		args = append(args, "-tags", buildTags)
	}
	for _, t := range targetPkgs {
		args = append(args, "./"+t)
	}
	cmd := exec.Command(gobin, args...)
	cmd.Dir = repo
	cmd.Env = append(os.Environ(), "CGO_ENABLED=0", "GOFLAGS=-mod=mod", "GOPROXY=off", "GOTOOLCHAIN=local")
	var stderr bytes.Buffer
	cmd.Stderr = &stderr
	out, err := cmd.Output()
	if err != nil {
		return nil, fmt.Errorf("go list failed: %v\n%s", err, stderr.String())
	}
	l := &loader{fset: token.NewFileSet(), pkgs: map[string]*types.Package{}, meta: map[string]*listPkg{},
		infos: map[string]*types.Info{}, files: map[string][]*ast.File{}}
	dec := json.NewDecoder(bytes.NewReader(out))
	for dec.More() {
		lp := &listPkg{}
		if err := dec.Decode(lp); err != nil {
			return nil, err
		}
		if lp.ImportPath == "unsafe" {
			continue
		}
		l.meta[lp.ImportPath] = lp
		tgt := isTarget(lp.ImportPath)
		var files []*ast.File
		for _, f := range lp.GoFiles {
			af, err := parser.ParseFile(l.fset, filepath.Join(lp.Dir, f), nil, parser.SkipObjectResolution)
			if err != nil {
				if tgt {
					return nil, err
				}
				continue
			}
			files = append(files, af)
		}
		var firstErr error
		conf := types.Config{
			Importer:         pkgImporter{l, lp},
			IgnoreFuncBodies: !tgt,
			FakeImportC:      true,
			Error: func(e error) {
				if firstErr == nil {
					firstErr = e
				}
			},
		}
		info := &types.Info{}
		if tgt {
			info = &types.Info{
				Types:      map[ast.Expr]types.TypeAndValue{},
				Defs:       map[*ast.Ident]types.Object{},
				Uses:       map[*ast.Ident]types.Object{},
				Selections: map[*ast.SelectorExpr]*types.Selection{},
			}
		}
		p, _ := conf.Check(lp.ImportPath, l.fset, files, info)
		if tgt && firstErr != nil {
			return nil, fmt.Errorf("type error in %s: %v", lp.ImportPath, firstErr)
		}
		l.pkgs[lp.ImportPath] = p
		if tgt {
			l.infos[lp.ImportPath] = info
			l.files[lp.ImportPath] = files
		}
	}
	return l, nil
}

// ---------------------------------------------------------------- facts

type lockRef struct {
	Name string `json:"name"` // "<struct>.<field>"
	Mode string `json:"mode"` // "Ex" | "Sh"
}

type fieldDecl struct {
	Struct, Field, Cat string // Cat: TSync | TChan | TCtx | TFunc | TPlain
	GoType             string
}

type funcDecl struct {
	Name      string
	Exported  bool // callable from outside the package (exported name)
	ValueUsed bool // used as a function value or reachable through an interface
	Ctor      bool
	Closure   string // "" | "go" | "lit" | "defer"
	Entry     []lockRef
	// EntryConds: history facts "set:$.f" that hold at every call of this context (greatest consistent
	// claim, computed by propagateConds from the call sites and re-checked by Coq: Race.cond_entry_failures)
	EntryConds []string
	File       string // source range of the context (JSON sidecar only; never emitted to Coq)
	Start      int
	End        int
	recvObj    types.Object
	isTop      bool
}

type callSite struct {
	Callee, Caller string
	Locks          []lockRef
	SameRecv       bool
	Spawn          bool
	Dbg            string
	// Conds: history facts known lexically at the call (about the callee's receiver); Inherit: the callee's "$"
	// is the caller's "$" (same receiver object, or a closure of the caller), so the caller's entry facts carry over
	Conds   []string
	Inherit bool
}

type site struct {
	Struct, Field, Func, Kind string
	Locks                     []lockRef
	SameRecv                  bool
	Pre                       string // PreNone | PreCtor | PreFresh | PreLocal
	Conds                     []string
	Note                      string // method name of a Use, "=true"/"=false" of a constant write
	Ord                       int
	Dbg                       string
	File                      string
	Line                      int
}

type optApply struct {
	Func   string
	InCtor bool
	Dbg    string
}

type heldLock struct {
	obj      types.Object
	name     string
	mode     string
	deferred bool
}

type state struct {
	held []heldLock
	// conds: canonical strings of conditions known to hold on every path to this point:
	// path conditions of enclosing ifs / early exits ("$.f", "!$.f", "$.fsm.GetState() == X"), dropped at
	// every lock operation and at assignments to what they mention; and history facts "set:$.f"
	// (this goroutine has executed `$.f = true` earlier), which survive lock operations.
	conds []string
}

func (s *state) clone() *state {
	c := &state{held: make([]heldLock, len(s.held)), conds: append([]string{}, s.conds...)}
	copy(c.held, s.held)
	return c
}

func (s *state) addConds(cs []string) {
	for _, c := range cs {
		if c != "" && !hasStr(s.conds, c) {
			s.conds = append(s.conds, c)
		}
	}
}

// dropConds removes path conditions (keepSet: history facts survive); if mention != "" only those mentioning it.
func (s *state) dropConds(mention string) {
	var out []string
	for _, c := range s.conds {
		isSet := strings.HasPrefix(c, "set:")
		if mention == "" {
			if isSet {
				out = append(out, c)
			}
			continue
		}
		if isSet || !strings.Contains(c, mention) {
			out = append(out, c)
		}
	}
	s.conds = out
}

func (s *state) setFacts() []string {
	var out []string
	for _, c := range s.conds {
		if strings.HasPrefix(c, "set:") {
			out = append(out, c)
		}
	}
	return out
}

func hasStr(l []string, x string) bool {
	for _, y := range l {
		if y == x {
			return true
		}
	}
	return false
}

func (s *state) add(h heldLock) {
	s.held = append(s.held, h)
}

// release removes the most recent holding of (obj,name); mode is not checked.
// When nothing matches (an Unlock of a lock this function context did not take, e.g. a helper releasing
// a lock on behalf of its caller) the state is left as it is: the Unlock site itself has already been
// recorded with a lexical lock set that LACKS the lock, and coq/model/Race.v `unlock_failures` rejects
// every table containing such a site - the callers' later sites would otherwise be recorded as still
// under the lock (audit M11).
func (s *state) release(obj types.Object, name string) {
	for i := len(s.held) - 1; i >= 0; i-- {
		if s.held[i].obj == obj && s.held[i].name == name && !s.held[i].deferred {
			s.held = append(s.held[:i], s.held[i+1:]...)
			return
		}
	}
}

func (s *state) markDeferred(obj types.Object, name string) {
	for i := len(s.held) - 1; i >= 0; i-- {
		if s.held[i].obj == obj && s.held[i].name == name && !s.held[i].deferred {
			s.held[i].deferred = true
			return
		}
	}
}

// intersect keeps only holdings present in both (weakest mode wins).
func intersect(a, b *state) *state {
	out := &state{}
	used := make([]bool, len(b.held))
	for _, h := range a.held {
		for j, g := range b.held {
			if !used[j] && g.obj == h.obj && g.name == h.name {
				used[j] = true
				m := h
				if g.mode == "Sh" {
					m.mode = "Sh"
				}
				m.deferred = h.deferred && g.deferred
				out.held = append(out.held, m)
				break
			}
		}
	}
	for _, c := range a.conds {
		if hasStr(b.conds, c) {
			out.conds = append(out.conds, c)
		}
	}
	return out
}

func sameState(a, b *state) bool {
	if len(a.held) != len(b.held) {
		return false
	}
	for i := range a.held {
		if a.held[i] != b.held[i] {
			return false
		}
	}
	if len(a.conds) != len(b.conds) {
		return false
	}
	for i := range a.conds {
		if a.conds[i] != b.conds[i] {
			return false
		}
	}
	return true
}

type fnCtx struct {
	decl    *funcDecl
	recvObj types.Object // receiver variable of the enclosing FuncDecl (nil if none)
	ctor    bool
	// objects that denote the value under construction inside a constructor/option
	fresh map[types.Object]bool
	// per-kind counters
	nGo, nLit, nDefer int
	ords              map[string]int
	frames            []*frame // enclosing breakable statements
	topName           string
	// history facts at the normal exits of the function body (nil until the first exit is seen); inLit > 0 while an
	// inlined literal is being walked (its `return` leaves the literal, not the function)
	exitFacts []string
	exitSeen  bool
	inLit     int
}

// noteExit intersects the history facts of a normal exit of the function body into c.exitFacts.
func (c *fnCtx) noteExit(st *state) {
	if c.inLit > 0 {
		return
	}
	f := st.setFacts()
	if !c.exitSeen {
		c.exitSeen, c.exitFacts = true, f
		return
	}
	var out []string
	for _, x := range c.exitFacts {
		if hasStr(f, x) {
			out = append(out, x)
		}
	}
	c.exitFacts = out
}

type frame struct {
	exits []*state
}

type analyzer struct {
	l        *loader
	pkgPath  string
	pkgName  string
	info     *types.Info
	fieldOf  map[*types.Var][2]string // origin field var -> (struct, field)
	funcName map[*types.Func]string   // declared funcs of the target packages
	fields   []fieldDecl
	funcs    map[string]*funcDecl
	calls    []callSite
	sites    []site
	opts     []optApply
	repo     string
	lhsNote  string
	// interprocedural history facts: summ[f] = facts "set:$.x" that hold at every normal return of the declared
	// method f (from the previous pass over the packages); nextSumm = the ones being computed by this pass
	summ     map[string][]string
	nextSumm map[string][]string
}

func (a *analyzer) pos(p token.Pos) (string, int) {
	ps := a.l.fset.Position(p)
	rel, err := filepath.Rel(a.repo, ps.Filename)
	if err != nil {
		rel = ps.Filename
	}
	return rel, ps.Line
}

func (a *analyzer) dbg(p token.Pos) string {
	f, l := a.pos(p)
	return fmt.Sprintf("%s:%d", f, l)
}

func namedOf(t types.Type) *types.Named {
	for {
		switch u := t.(type) {
		case *types.Pointer:
			t = u.Elem()
		case *types.Named:
			return u
		case *types.Alias:
			t = types.Unalias(u)
		default:
			return nil
		}
	}
}

func pkgShort(p *types.Package) string {
	if p == nil {
		return ""
	}
	return p.Name()
}

func typeCat(t types.Type) string {
	if n := namedOf(t); n != nil && n.Obj().Pkg() != nil {
		if _, isPtr := t.(*types.Pointer); !isPtr {
			pp := n.Obj().Pkg().Path()
			if pp == "sync" || pp == "sync/atomic" {
				return "TSync"
			}
		}
		if n.Obj().Pkg().Path() == "context" && n.Obj().Name() == "Context" {
			return "TCtx"
		}
	}
	switch t.Underlying().(type) {
	case *types.Chan:
		return "TChan"
	case *types.Signature:
		return "TFunc"
	}
	return "TPlain"
}

func isSyncValue(t types.Type) bool { return typeCat(t) == "TSync" }

func isWaitGroup(t types.Type) bool {
	if _, isPtr := t.(*types.Pointer); isPtr {
		return false
	}
	n := namedOf(t)
	return n != nil && n.Obj().Pkg() != nil && n.Obj().Pkg().Path() == "sync" && n.Obj().Name() == "WaitGroup"
}

func isMutexType(t types.Type) bool {
	n := namedOf(t)
	if n == nil || n.Obj().Pkg() == nil || n.Obj().Pkg().Path() != "sync" {
		return false
	}
	return n.Obj().Name() == "Mutex" || n.Obj().Name() == "RWMutex"
}

func structName(n *types.Named) string {
	return pkgShort(n.Obj().Pkg()) + "." + n.Obj().Name()
}

// collectDecls registers tracked fields and declared functions of one package.
func (a *analyzer) collectDecls(pkg *types.Package, files []*ast.File, info *types.Info) {
	scope := pkg.Scope()
	for _, name := range scope.Names() {
		tn, ok := scope.Lookup(name).(*types.TypeName)
		if !ok {
			continue
		}
		n, ok := tn.Type().(*types.Named)
		if !ok {
			continue
		}
		sn := structName(n)
		if !trackedStructs[sn] {
			continue
		}
		st, ok := n.Underlying().(*types.Struct)
		if !ok {
			continue
		}
		for i := 0; i < st.NumFields(); i++ {
			f := st.Field(i)
			a.fieldOf[f] = [2]string{sn, f.Name()}
			a.fields = append(a.fields, fieldDecl{sn, f.Name(), typeCat(f.Type()),
				types.TypeString(f.Type(), func(p *types.Package) string { return p.Name() })})
			if isWaitGroup(f.Type()) {
				a.fields = append(a.fields, fieldDecl{sn, f.Name() + "#addwait", "TPlain",
					"pseudo-location: Add/Go (write) vs Wait (read) ordering of the WaitGroup"})
			}
		}
	}
	for _, f := range files {
		for _, d := range f.Decls {
			fd, ok := d.(*ast.FuncDecl)
			if !ok {
				continue
			}
			obj, _ := info.Defs[fd.Name].(*types.Func)
			if obj == nil {
				continue
			}
			a.funcName[obj] = declName(pkg, fd, obj)
		}
	}
}

func declName(pkg *types.Package, fd *ast.FuncDecl, obj *types.Func) string {
	sig := obj.Type().(*types.Signature)
	if sig.Recv() != nil {
		if n := namedOf(sig.Recv().Type()); n != nil {
			return pkg.Name() + "." + n.Obj().Name() + "." + fd.Name.Name
		}
	}
	return pkg.Name() + "." + fd.Name.Name
}

// returnsOption: a plain function whose only result is a functional-option type of a target package.
func returnsOption(sig *types.Signature) bool {
	if sig.Results().Len() != 1 {
		return false
	}
	n, ok := types.Unalias(sig.Results().At(0).Type()).(*types.Named)
	return ok && n.Obj().Name() == "Option" && n.Obj().Pkg() != nil && isTarget(n.Obj().Pkg().Path())
}

func isCtorName(name string) bool {
	return strings.HasPrefix(name, "New") || strings.HasPrefix(name, "new") || strings.HasPrefix(name, "With")
}

// takesTracked: some parameter is a tracked struct or a pointer to one.
func takesTracked(sig *types.Signature) bool {
	for i := 0; i < sig.Params().Len(); i++ {
		if trackedPtrOrValue(sig.Params().At(i).Type()) {
			return true
		}
	}
	return false
}

// trackedPtrOrValue: t is a tracked struct or a pointer to one (instantiations of a generic struct included).
func trackedPtrOrValue(t types.Type) bool {
	t = types.Unalias(t)
	if p, ok := t.(*types.Pointer); ok {
		t = types.Unalias(p.Elem())
	}
	n, ok := t.(*types.Named)
	if !ok {
		return false
	}
	if _, isStruct := n.Underlying().(*types.Struct); !isStruct {
		return false
	}
	return trackedStructs[structName(n.Origin())]
}

// optionFuncType: t is (a named or unnamed) function type whose only parameter is a pointer to a tracked struct -
// the shape of a functional option `func(*T)` / `func(*T) error`, whatever the type is called (Option, ConfigOption ...).
func optionFuncType(t types.Type) bool {
	sg, ok := types.Unalias(t).Underlying().(*types.Signature)
	if !ok {
		return false
	}
	if sg.Params().Len() != 1 || sg.Results().Len() > 1 {
		return false // an option takes the value under construction and returns nothing (or an error)
	}
	p, isPtr := types.Unalias(sg.Params().At(0).Type()).(*types.Pointer)
	return isPtr && trackedPtrOrValue(p)
}

// ctorBySignature decides "constructor or functional option of a tracked struct" by TYPE, not by name: a
// package-level function that returns a tracked struct (or a pointer to one), or that returns a functional option
// for one.  The value under construction is then whatever the body builds from a fresh literal (c.fresh) or, in an
// option, the option closure's parameter - a renamed constructor stays a constructor.
func ctorBySignature(sig *types.Signature) bool {
	if sig.Recv() != nil {
		return false
	}
	for i := 0; i < sig.Results().Len(); i++ {
		t := sig.Results().At(i).Type()
		if trackedPtrOrValue(t) || optionFuncType(t) {
			return true
		}
	}
	return false
}

// ifaceMethodNames: names of methods of interfaces declared in the target packages.
func (a *analyzer) ifaceCallable(obj *types.Func) bool {
	sig := obj.Type().(*types.Signature)
	if sig.Recv() == nil {
		return false
	}
	rt := sig.Recv().Type()
	for _, tp := range targetPkgs {
		p := a.l.pkgs[modPath+"/"+tp]
		if p == nil {
			continue
		}
		for _, name := range p.Scope().Names() {
			tn, ok := p.Scope().Lookup(name).(*types.TypeName)
			if !ok {
				continue
			}
			it, ok := tn.Type().Underlying().(*types.Interface)
			if !ok {
				continue
			}
			has := false
			for i := 0; i < it.NumMethods(); i++ {
				if it.Method(i).Name() == obj.Name() {
					has = true
				}
			}
			if !has {
				continue
			}
			// generic receivers cannot be checked with Implements; be conservative
			if n := namedOf(rt); n != nil && n.TypeParams().Len() > 0 {
				return true
			}
			if types.Implements(rt, it) || types.Implements(types.NewPointer(rt), it) {
				return true
			}
		}
	}
	return false
}

func (a *analyzer) newFunc(name string, closure string) *funcDecl {
	fd := &funcDecl{Name: name, Closure: closure}
	a.funcs[name] = fd
	return fd
}

// ---------------------------------------------------------------- walking

// rootIdent returns the identifier at the root of a selector/index chain and
// whether the chain from the root to e crosses only value containment.
func rootIdent(e ast.Expr) *ast.Ident {
	for {
		switch x := e.(type) {
		case *ast.Ident:
			return x
		case *ast.ParenExpr:
			e = x.X
		case *ast.SelectorExpr:
			e = x.X
		case *ast.IndexExpr:
			e = x.X
		case *ast.StarExpr:
			e = x.X
		default:
			return nil
		}
	}
}

// baseObj: the object of the identifier x in `x.f` (nil if the base is not a plain identifier).
func (a *analyzer) baseObj(sel *ast.SelectorExpr) types.Object {
	x := sel.X
	for {
		if p, ok := x.(*ast.ParenExpr); ok {
			x = p.X
			continue
		}
		break
	}
	if id, ok := x.(*ast.Ident); ok {
		return a.info.Uses[id]
	}
	return nil
}

func (a *analyzer) trackedField(sel *ast.SelectorExpr) (st, fl string, v *types.Var, ok bool) {
	s := a.info.Selections[sel]
	if s == nil || s.Kind() != types.FieldVal {
		return
	}
	fv, isVar := s.Obj().(*types.Var)
	if !isVar {
		return
	}
	if len(s.Index()) != 1 {
		// promoted field through embedding: not used for tracked structs; handled as implicit below
		return
	}
	k, found := a.fieldOf[fv.Origin()]
	if !found {
		return
	}
	return k[0], k[1], fv, true
}

func (a *analyzer) locksFor(st *state, base types.Object) []lockRef {
	var out []lockRef
	if base == nil {
		return out
	}
	seen := map[string]string{}
	for _, h := range st.held {
		if h.obj != base {
			continue
		}
		if m, ok := seen[h.name]; ok {
			if m == "Sh" && h.mode == "Ex" {
				seen[h.name] = "Ex"
			}
			continue
		}
		seen[h.name] = h.mode
	}
	names := make([]string, 0, len(seen))
	for n := range seen {
		names = append(names, n)
	}
	sort.Strings(names)
	for _, n := range names {
		out = append(out, lockRef{n, seen[n]})
	}
	return out
}

func (a *analyzer) record(c *fnCtx, st *state, sel *ast.SelectorExpr, kind string) {
	note := ""
	if kind == "Wr" {
		note = a.lhsNote
	}
	a.recordN(c, st, sel, kind, note, "")
}

func sortedCopy(l []string) []string {
	out := append([]string{}, l...)
	sort.Strings(out)
	return out
}

// recordN: pseudo != "" records the access on the pseudo-field <field>#<pseudo> instead.
func (a *analyzer) recordN(c *fnCtx, st *state, sel *ast.SelectorExpr, kind, note, pseudo string) {
	sn, fl, _, ok := a.trackedField(sel)
	if !ok {
		return
	}
	if pseudo != "" {
		fl = fl + "#" + pseudo
	}
	base := a.baseObj(sel)
	pre := "PreNone"
	if base != nil {
		if c.fresh[base] {
			pre = "PreCtor"
		} else if v, isVar := base.(*types.Var); isVar && !v.IsField() {
			// a local struct VALUE (not pointer) of a tracked type: a private copy
			if _, isPtr := v.Type().(*types.Pointer); !isPtr {
				if n := namedOf(v.Type()); n != nil && trackedStructs[structName(n)] && v.Parent() != nil && v.Pkg() != nil && v.Parent() != v.Pkg().Scope() {
					pre = "PreLocal"
				}
			}
		}
	}
	key := sn + "." + fl + "/" + kind
	c.ords[key]++
	f, line := a.pos(sel.Sel.Pos())
	a.sites = append(a.sites, site{
		Struct: sn, Field: fl, Func: c.decl.Name, Kind: kind,
		Locks:    a.locksFor(st, base),
		SameRecv: base != nil && base == c.recvObj,
		Pre:      pre, Ord: c.ords[key],
		Conds: sortedCopy(st.conds), Note: note,
		Dbg: fmt.Sprintf("%s:%d", f, line), File: f, Line: line,
	})
}

// walkLHS handles an expression in assignment position.
func (a *analyzer) walkLHS(c *fnCtx, st *state, e ast.Expr) {
	switch x := e.(type) {
	case *ast.ParenExpr:
		a.walkLHS(c, st, x.X)
	case *ast.SelectorExpr:
		if _, _, fv, ok := a.trackedField(x); ok {
			a.record(c, st, x, "Wr")
			// writing a part of a value-typed container: inner selectors are written too
			_ = fv
			a.walkLHSInner(c, st, x.X)
			return
		}
		a.walkLHSInner(c, st, x.X)
	case *ast.IndexExpr:
		// element write: counts as a write of the container field
		a.walkLHS(c, st, x.X)
		a.walkExpr(c, st, x.Index)
	case *ast.StarExpr:
		a.walkLHS(c, st, x.X)
	case *ast.Ident:
	default:
		a.walkExpr(c, st, e)
	}
}

// walkLHSInner: x in `x.f = v`.  If x denotes a struct VALUE stored in a tracked field
// the enclosing field is written as well; through a pointer it is only read.
func (a *analyzer) walkLHSInner(c *fnCtx, st *state, e ast.Expr) {
	tv, ok := a.info.Types[e]
	if ok {
		if _, isPtr := tv.Type.Underlying().(*types.Pointer); isPtr {
			a.walkExpr(c, st, e)
			return
		}
	}
	a.walkLHS(c, st, e)
}

func (a *analyzer) calleeOf(call *ast.CallExpr) (*types.Func, *ast.SelectorExpr) {
	fun := call.Fun
	for {
		switch f := fun.(type) {
		case *ast.ParenExpr:
			fun = f.X
			continue
		case *ast.IndexExpr: // explicit instantiation f[T](...)
			fun = f.X
			continue
		case *ast.IndexListExpr:
			fun = f.X
			continue
		}
		break
	}
	switch f := fun.(type) {
	case *ast.Ident:
		if fn, ok := a.info.Uses[f].(*types.Func); ok {
			return fn.Origin(), nil
		}
	case *ast.SelectorExpr:
		if s := a.info.Selections[f]; s != nil {
			if fn, ok := s.Obj().(*types.Func); ok {
				return fn.Origin(), f
			}
			return nil, f
		}
		if fn, ok := a.info.Uses[f.Sel].(*types.Func); ok { // pkg.Func
			return fn.Origin(), nil
		}
	}
	return nil, nil
}

// lockOp recognises b.f.Lock()/RLock()/Unlock()/RUnlock() on a tracked mutex field.
func (a *analyzer) lockOp(call *ast.CallExpr) (op string, obj types.Object, name string, ok bool) {
	sel, isSel := call.Fun.(*ast.SelectorExpr)
	if !isSel {
		return
	}
	switch sel.Sel.Name {
	case "Lock", "RLock", "Unlock", "RUnlock":
	default:
		return
	}
	inner, isSel2 := sel.X.(*ast.SelectorExpr)
	if !isSel2 {
		return
	}
	sn, fl, fv, tracked := a.trackedField(inner)
	if !tracked || !isMutexType(fv.Type()) {
		return
	}
	b := a.baseObj(inner)
	if b == nil {
		return
	}
	return sel.Sel.Name, b, sn + "." + fl, true
}

func (a *analyzer) recordCall(c *fnCtx, st *state, call *ast.CallExpr, spawn bool) {
	fn, sel := a.calleeOf(call)
	if fn == nil {
		return
	}
	name, ok := a.funcName[fn]
	if !ok {
		return
	}
	var base types.Object
	if sel != nil {
		base = a.baseObj(sel)
	}
	locks := a.locksFor(st, base)
	if spawn {
		locks = nil
	}
	same := base != nil && base == c.recvObj
	cs := callSite{Callee: name, Caller: c.decl.Name, Locks: locks,
		SameRecv: same && !spawn, Spawn: spawn, Dbg: a.dbg(call.Pos())}
	if same {
		// history facts are about "$": they mean the same object in the callee only when the receivers coincide
		cs.Conds, cs.Inherit = sortedCopy(st.setFacts()), true
	}
	a.calls = append(a.calls, cs)
	if same && !spawn {
		// what the callee always does before it returns has been done when the call returns
		st.addConds(a.summ[name])
	}
}

// syncInline: callee known to run its function argument synchronously in the caller.
func (a *analyzer) syncInlineCallee(call *ast.CallExpr) bool {
	fn, _ := a.calleeOf(call)
	if fn == nil || fn.Pkg() == nil || fn.Pkg().Path() != "sync" {
		return false
	}
	sig := fn.Type().(*types.Signature)
	if sig.Recv() == nil {
		return false
	}
	n := namedOf(sig.Recv().Type())
	if n == nil {
		return false
	}
	return (n.Obj().Name() == "Once" && fn.Name() == "Do") || (n.Obj().Name() == "Map" && fn.Name() == "Range")
}

// wgGo: sync.WaitGroup.Go(f) spawns a goroutine.
func (a *analyzer) isWaitGroupGo(call *ast.CallExpr) bool {
	fn, _ := a.calleeOf(call)
	if fn == nil || fn.Pkg() == nil || fn.Pkg().Path() != "sync" || fn.Name() != "Go" {
		return false
	}
	sig := fn.Type().(*types.Signature)
	if sig.Recv() == nil {
		return false
	}
	n := namedOf(sig.Recv().Type())
	return n != nil && n.Obj().Name() == "WaitGroup"
}

// closure analyses a function literal as a context of its own.
func (a *analyzer) closure(c *fnCtx, st *state, lit *ast.FuncLit, kind string) {
	var name string
	switch kind {
	case "go":
		c.nGo++
		name = fmt.Sprintf("%s$go%d", c.topName, c.nGo)
	case "defer":
		c.nDefer++
		name = fmt.Sprintf("%s$defer%d", c.topName, c.nDefer)
	default:
		c.nLit++
		name = fmt.Sprintf("%s$lit%d", c.topName, c.nLit)
	}
	fd := a.newFunc(name, kind)
	fd.Ctor = c.ctor
	fd.File, fd.Start = a.pos(lit.Pos())
	_, fd.End = a.pos(lit.End())
	fd.ValueUsed = kind == "lit"
	sub := &fnCtx{decl: fd, recvObj: c.recvObj, ctor: c.ctor, fresh: map[types.Object]bool{},
		ords: map[string]int{}, topName: c.topName}
	// counters are shared with the top-level function so that names are unique
	sub.nGo, sub.nLit, sub.nDefer = c.nGo, c.nLit, c.nDefer
	for k, v := range c.fresh {
		sub.fresh[k] = v
	}
	// parameters shadow captured objects automatically (different types.Object)
	if c.ctor && kind == "lit" && lit.Type.Params != nil {
		// option closure `func(r *Runner) {...}` inside With*/New*: r is the value under construction
		for _, p := range lit.Type.Params.List {
			for _, id := range p.Names {
				if o := a.info.Defs[id]; o != nil {
					if n := namedOf(o.Type()); n != nil && trackedStructs[structName(n)] {
						sub.fresh[o] = true
					}
				}
			}
		}
	}
	inner := &state{conds: st.setFacts()}
	if kind == "go" {
		// recorded so that Coq can check that a spawned context claims no entry locks
		a.calls = append(a.calls, callSite{Callee: name, Caller: c.decl.Name, Spawn: true, Dbg: a.dbg(lit.Pos()),
			Conds: sortedCopy(st.setFacts()), Inherit: true})
	}
	if kind == "defer" {
		// a deferred closure runs before the unlocks that were deferred earlier
		for _, h := range st.held {
			if h.deferred {
				inner.held = append(inner.held, h)
			}
		}
		var lr []lockRef
		if c.recvObj != nil {
			lr = a.locksFor(inner, c.recvObj)
		}
		a.calls = append(a.calls, callSite{Callee: name, Caller: c.decl.Name, Locks: lr,
			SameRecv: c.recvObj != nil, Spawn: false, Dbg: a.dbg(lit.Pos()),
			Conds: sortedCopy(st.setFacts()), Inherit: true})
		inner = &state{conds: st.setFacts()} // the locks are carried by the entry set of the defer context
	}
	a.walkBlock(sub, inner, lit.Body)
	c.nGo, c.nLit, c.nDefer = sub.nGo, sub.nLit, sub.nDefer
}

// inlineLit analyses a function literal that runs synchronously at this point.
func (a *analyzer) inlineLit(c *fnCtx, st *state, lit *ast.FuncLit) {
	inner := st.clone()
	// holdings of the outer function stay; defers inside the literal end with it
	saved := c.frames
	c.frames = nil
	c.inLit++
	a.walkBlock(c, inner, lit.Body)
	c.inLit--
	c.frames = saved
}

func (a *analyzer) walkCall(c *fnCtx, st *state, call *ast.CallExpr) {
	// builtins that modify their first argument
	if id, ok := call.Fun.(*ast.Ident); ok {
		if _, isB := a.info.Uses[id].(*types.Builtin); isB {
			switch id.Name {
			case "delete", "clear", "copy":
				if len(call.Args) > 0 {
					a.walkLHS(c, st, call.Args[0])
					for _, x := range call.Args[1:] {
						a.walkExpr(c, st, x)
					}
					return
				}
			}
		}
	}
	// option application: a call of a value whose type is a named "Option"
	if tv, ok := a.info.Types[call.Fun]; ok {
		if n, isNamed := types.Unalias(tv.Type).(*types.Named); isNamed && n.Obj().Pkg() != nil && isTarget(n.Obj().Pkg().Path()) &&
			(n.Obj().Name() == "Option" || optionFuncType(n)) {
			a.opts = append(a.opts, optApply{Func: c.decl.Name, InCtor: c.ctor, Dbg: a.dbg(call.Pos())})
		}
	}
	if lit, ok := call.Fun.(*ast.FuncLit); ok { // immediately invoked
		for _, x := range call.Args {
			a.walkExpr(c, st, x)
		}
		a.inlineLit(c, st, lit)
		return
	}
	spawnArgs := a.isWaitGroupGo(call)
	inlineArgs := a.syncInlineCallee(call)
	a.walkExpr(c, st, call.Fun)
	a.recordCall(c, st, call, false)
	for _, x := range call.Args {
		if lit, ok := x.(*ast.FuncLit); ok {
			switch {
			case spawnArgs:
				a.closure(c, st, lit, "go")
			case inlineArgs:
				a.inlineLit(c, st, lit)
			default:
				a.closure(c, st, lit, "lit")
			}
			continue
		}
		if inlineArgs {
			// once.Do(p.method) / m.Range(p.method): the method runs synchronously here - a call, not a function value
			if sel, ok := x.(*ast.SelectorExpr); ok {
				if sl := a.info.Selections[sel]; sl != nil && sl.Kind() == types.MethodVal {
					if fn, ok := sl.Obj().(*types.Func); ok {
						if name, ok := a.funcName[fn.Origin()]; ok {
							var base types.Object
							if inner, isSel := sel.X.(*ast.Ident); isSel {
								base = a.info.Uses[inner]
							}
							same := base != nil && base == c.recvObj
							cs := callSite{Callee: name, Caller: c.decl.Name, Locks: a.locksFor(st, base),
								SameRecv: same, Dbg: a.dbg(x.Pos())}
							if same {
								cs.Conds, cs.Inherit = sortedCopy(st.setFacts()), true
							}
							a.calls = append(a.calls, cs)
							a.walkExpr(c, st, sel.X)
							if same {
								st.addConds(a.summ[name])
							}
							continue
						}
					}
				}
			}
		}
		if spawnArgs {
			// wg.Go(p.method): a spawn of that method
			if sel, ok := x.(*ast.SelectorExpr); ok {
				if s := a.info.Selections[sel]; s != nil && s.Kind() == types.MethodVal {
					if fn, ok := s.Obj().(*types.Func); ok {
						if name, ok := a.funcName[fn.Origin()]; ok {
							a.calls = append(a.calls, callSite{Callee: name, Caller: c.decl.Name, Spawn: true, Dbg: a.dbg(x.Pos())})
							a.walkExpr(c, st, sel.X)
							continue
						}
					}
				}
			}
		}
		a.walkExpr(c, st, x)
	}
}

func (a *analyzer) walkExpr(c *fnCtx, st *state, e ast.Expr) {
	switch x := e.(type) {
	case nil:
	case *ast.Ident, *ast.BasicLit:
		if id, ok := e.(*ast.Ident); ok {
			// a declared function used as a value (not in call position)
			if fn, ok := a.info.Uses[id].(*types.Func); ok {
				if name, ok := a.funcName[fn.Origin()]; ok {
					a.markValueUsed(name)
				}
			}
		}
	case *ast.ParenExpr:
		a.walkExpr(c, st, x.X)
	case *ast.FuncLit:
		a.closure(c, st, x, "lit")
	case *ast.CompositeLit:
		a.walkCompositeLit(c, st, x)
	case *ast.SelectorExpr:
		a.walkSelector(c, st, x, false)
	case *ast.IndexExpr:
		a.walkExpr(c, st, x.X)
		a.walkExpr(c, st, x.Index)
	case *ast.IndexListExpr:
		a.walkExpr(c, st, x.X)
	case *ast.SliceExpr:
		a.walkExpr(c, st, x.X)
		a.walkExpr(c, st, x.Low)
		a.walkExpr(c, st, x.High)
		a.walkExpr(c, st, x.Max)
	case *ast.TypeAssertExpr:
		a.walkExpr(c, st, x.X)
	case *ast.CallExpr:
		a.walkCall(c, st, x)
	case *ast.StarExpr:
		a.walkExpr(c, st, x.X)
	case *ast.UnaryExpr:
		if x.Op == token.AND {
			// address taken: of a sync value it is a use; of anything else it escapes -> write (conservative)
			if sel, ok := x.X.(*ast.SelectorExpr); ok {
				if _, _, fv, tracked := a.trackedField(sel); tracked {
					if isSyncValue(fv.Type()) {
						a.record(c, st, sel, "Use")
					} else {
						a.record(c, st, sel, "Wr")
					}
					a.walkExpr(c, st, sel.X)
					return
				}
			}
		}
		a.walkExpr(c, st, x.X)
	case *ast.BinaryExpr:
		a.walkExpr(c, st, x.X)
		a.walkExpr(c, st, x.Y)
	case *ast.KeyValueExpr:
		a.walkExpr(c, st, x.Key)
		a.walkExpr(c, st, x.Value)
	}
}

func (a *analyzer) markValueUsed(name string) {
	if fd, ok := a.funcs[name]; ok {
		fd.ValueUsed = true
	}
}

// walkSelector handles x.f in read position (or as the receiver of a method call).
func (a *analyzer) walkSelector(c *fnCtx, st *state, x *ast.SelectorExpr, _ bool) {
	s := a.info.Selections[x]
	if s == nil {
		// qualified identifier pkg.Name
		if fn, ok := a.info.Uses[x.Sel].(*types.Func); ok {
			if name, ok := a.funcName[fn.Origin()]; ok {
				a.markValueUsed(name) // call position is handled by recordCall; a spurious mark only loses precision
			}
		}
		return
	}
	// implicit embedded-field hops (promoted methods/fields): reads of the embedded fields
	if len(s.Index()) > 1 {
		t := s.Recv()
		for _, idx := range s.Index()[:len(s.Index())-1] {
			stt, ok := derefStruct(t)
			if !ok {
				break
			}
			f := stt.Field(idx)
			if k, found := a.fieldOf[f.Origin()]; found {
				base := a.baseObj(x)
				key := k[0] + "." + k[1] + "/Rd"
				c.ords[key]++
				file, line := a.pos(x.Sel.Pos())
				a.sites = append(a.sites, site{Struct: k[0], Field: k[1], Func: c.decl.Name, Kind: "Rd",
					Locks: a.locksFor(st, base), SameRecv: base != nil && base == c.recvObj, Pre: "PreNone",
					Ord: c.ords[key], Dbg: fmt.Sprintf("%s:%d", file, line), File: file, Line: line})
			}
			t = f.Type()
		}
	}
	switch s.Kind() {
	case types.FieldVal:
		a.record(c, st, x, "Rd")
	case types.MethodVal:
		// x.X is the receiver; if it is a tracked sync-valued field this is a Use
		if inner, ok := x.X.(*ast.SelectorExpr); ok {
			if _, _, fv, tracked := a.trackedField(inner); tracked && isSyncValue(fv.Type()) {
				a.recordN(c, st, inner, "Use", x.Sel.Name, "")
				if isWaitGroup(fv.Type()) {
					// the ordering contract of sync.WaitGroup (Add from zero must happen before Wait),
					// modelled as the race detector does: Add/Go write, Wait reads a pseudo-location
					switch x.Sel.Name {
					case "Add", "Go":
						a.recordN(c, st, inner, "Wr", x.Sel.Name, "addwait")
					case "Wait":
						a.recordN(c, st, inner, "Rd", x.Sel.Name, "addwait")
					}
				}
				a.walkExpr(c, st, inner.X)
				return
			}
		}
	}
	a.walkExpr(c, st, x.X)
}

func derefStruct(t types.Type) (*types.Struct, bool) {
	if p, ok := t.Underlying().(*types.Pointer); ok {
		t = p.Elem()
	}
	s, ok := t.Underlying().(*types.Struct)
	return s, ok
}

func (a *analyzer) walkCompositeLit(c *fnCtx, st *state, x *ast.CompositeLit) {
	tv, ok := a.info.Types[x]
	var stt *types.Struct
	var sn string
	if ok {
		if n := namedOf(tv.Type); n != nil && trackedStructs[structName(n)] {
			if s, isS := n.Underlying().(*types.Struct); isS {
				stt, sn = s, structName(n)
			}
		}
	}
	for i, el := range x.Elts {
		var fname string
		var val ast.Expr = el
		var p token.Pos = el.Pos()
		if kv, isKV := el.(*ast.KeyValueExpr); isKV {
			val = kv.Value
			if stt != nil {
				if id, isId := kv.Key.(*ast.Ident); isId {
					fname = id.Name
				}
			} else {
				a.walkExpr(c, st, kv.Key)
			}
		} else if stt != nil && i < stt.NumFields() {
			fname = stt.Field(i).Name()
		}
		if stt != nil && fname != "" {
			pre := "PreFresh"
			if c.ctor {
				pre = "PreCtor"
			}
			key := sn + "." + fname + "/Wr"
			c.ords[key]++
			file, line := a.pos(p)
			a.sites = append(a.sites, site{Struct: sn, Field: fname, Func: c.decl.Name, Kind: "Wr",
				Pre: pre, Ord: c.ords[key], Dbg: fmt.Sprintf("%s:%d", file, line), File: file, Line: line})
		}
		a.walkExpr(c, st, val)
	}
}

// canon prints an expression with the receiver variable replaced by "$".
func (a *analyzer) canon(c *fnCtx, e ast.Expr) string {
	s := types.ExprString(e)
	if c.recvObj != nil {
		s = regexp.MustCompile(`\b`+regexp.QuoteMeta(c.recvObj.Name())+`\.`).ReplaceAllString(s, "$$.")
	}
	return s
}

func unparen(e ast.Expr) ast.Expr {
	for {
		p, ok := e.(*ast.ParenExpr)
		if !ok {
			return e
		}
		e = p.X
	}
}

// conjuncts: conditions that hold when e is true.
func (a *analyzer) conjuncts(c *fnCtx, e ast.Expr) []string {
	e = unparen(e)
	switch x := e.(type) {
	case *ast.BinaryExpr:
		if x.Op == token.LAND {
			return append(a.conjuncts(c, x.X), a.conjuncts(c, x.Y)...)
		}
	case *ast.UnaryExpr:
		if x.Op == token.NOT {
			return a.negation(c, x.X)
		}
	}
	return []string{a.canon(c, e)}
}

// negation: conditions that hold when e is false.
func (a *analyzer) negation(c *fnCtx, e ast.Expr) []string {
	e = unparen(e)
	switch x := e.(type) {
	case *ast.BinaryExpr:
		switch x.Op {
		case token.LOR:
			return append(a.negation(c, x.X), a.negation(c, x.Y)...)
		case token.EQL:
			return []string{a.canon(c, x.X) + " != " + a.canon(c, x.Y)}
		case token.NEQ:
			return []string{a.canon(c, x.X) + " == " + a.canon(c, x.Y)}
		}
		return []string{"!(" + a.canon(c, e) + ")"}
	case *ast.UnaryExpr:
		if x.Op == token.NOT {
			return a.conjuncts(c, x.X)
		}
	case *ast.Ident, *ast.SelectorExpr, *ast.CallExpr:
		return []string{"!" + a.canon(c, e)}
	}
	return []string{"!(" + a.canon(c, e) + ")"}
}

// noteAssign updates the condition set after `lhs = rhs` (rhs may be nil).
func (a *analyzer) noteAssign(c *fnCtx, st *state, lhs, rhs ast.Expr) {
	sel, ok := unparen(lhs).(*ast.SelectorExpr)
	if !ok {
		return
	}
	if _, _, _, tracked := a.trackedField(sel); !tracked {
		return
	}
	x := a.canon(c, sel)
	st.dropConds(x)
	var keep []string
	for _, k := range st.conds {
		if k != "set:"+x {
			keep = append(keep, k)
		}
	}
	st.conds = keep
	if id, isId := rhs.(*ast.Ident); isId && id.Name == "true" {
		st.addConds([]string{"set:" + x})
	}
}

func constNote(e ast.Expr) string {
	if id, ok := e.(*ast.Ident); ok && (id.Name == "true" || id.Name == "false") {
		return "=" + id.Name
	}
	return ""
}

func (a *analyzer) walkBlock(c *fnCtx, st *state, b *ast.BlockStmt) bool {
	if b == nil {
		return false
	}
	return a.walkStmts(c, st, b.List)
}

func (a *analyzer) walkStmts(c *fnCtx, st *state, list []ast.Stmt) bool {
	for _, s := range list {
		if a.walkStmt(c, st, s) {
			return true
		}
	}
	return false
}

func (a *analyzer) pushExit(c *fnCtx, st *state) {
	for _, f := range c.frames {
		f.exits = append(f.exits, st.clone())
	}
}

// merge replaces *st by the intersection of the given continuing states.
func merge(st *state, conts []*state) {
	if len(conts) == 0 {
		return
	}
	r := conts[0]
	for _, o := range conts[1:] {
		r = intersect(r, o)
	}
	st.held = r.held
	st.conds = r.conds
}

// walkStmt returns true if control does not continue past the statement.
func (a *analyzer) walkStmt(c *fnCtx, st *state, s ast.Stmt) bool {
	switch x := s.(type) {
	case nil:
	case *ast.ExprStmt:
		if call, ok := x.X.(*ast.CallExpr); ok {
			if op, obj, name, isLock := a.lockOp(call); isLock {
				a.walkExpr(c, st, x.X) // the Use of the mutex field itself
				st.dropConds("")       // what was observed under another lock state is stale
				switch op {
				case "Lock":
					st.add(heldLock{obj: obj, name: name, mode: "Ex"})
				case "RLock":
					st.add(heldLock{obj: obj, name: name, mode: "Sh"})
				default:
					st.release(obj, name)
				}
				return false
			}
			if id, ok := call.Fun.(*ast.Ident); ok && id.Name == "panic" {
				a.walkExpr(c, st, x.X)
				return true
			}
		}
		a.walkExpr(c, st, x.X)
	case *ast.SendStmt:
		a.walkExpr(c, st, x.Chan)
		a.walkExpr(c, st, x.Value)
	case *ast.IncDecStmt:
		a.walkLHS(c, st, x.X)
		a.noteAssign(c, st, x.X, nil)
	case *ast.AssignStmt:
		for _, r := range x.Rhs {
			a.walkExpr(c, st, r)
		}
		for i, l := range x.Lhs {
			a.lhsNote = ""
			var rhs ast.Expr
			if len(x.Lhs) == len(x.Rhs) {
				rhs = x.Rhs[i]
				if x.Tok == token.ASSIGN {
					a.lhsNote = constNote(rhs)
				}
			}
			a.walkLHS(c, st, l)
			a.lhsNote = ""
			if x.Tok == token.ASSIGN {
				a.noteAssign(c, st, l, rhs)
			} else {
				a.noteAssign(c, st, l, nil)
			}
			// x := &T{...} / T{...} / new(T) inside a constructor: x is the value under construction
			if c.ctor && x.Tok == token.DEFINE && len(x.Lhs) == len(x.Rhs) {
				if id, ok := l.(*ast.Ident); ok && isFreshExpr(x.Rhs[i]) {
					if o := a.info.Defs[id]; o != nil {
						if n := namedOf(o.Type()); n != nil && trackedStructs[structName(n)] {
							c.fresh[o] = true
						}
					}
				}
			}
		}
	case *ast.GoStmt:
		for _, arg := range x.Call.Args {
			a.walkExpr(c, st, arg)
		}
		if lit, ok := x.Call.Fun.(*ast.FuncLit); ok {
			a.closure(c, st, lit, "go")
		} else {
			a.walkExpr(c, st, x.Call.Fun)
			a.recordCall(c, st, x.Call, true)
		}
	case *ast.DeferStmt:
		if op, obj, name, isLock := a.lockOp(x.Call); isLock && (op == "Unlock" || op == "RUnlock") {
			a.walkExpr(c, st, x.Call) // Use of the mutex field
			st.markDeferred(obj, name)
			return false
		}
		for _, arg := range x.Call.Args {
			a.walkExpr(c, st, arg)
		}
		if lit, ok := x.Call.Fun.(*ast.FuncLit); ok {
			a.closure(c, st, lit, "defer")
		} else {
			// deferred call of a declared function: runs with the deferred-held locks only
			a.walkExpr(c, st, x.Call.Fun)
			d := &state{}
			for _, h := range st.held {
				if h.deferred {
					d.held = append(d.held, h)
				}
			}
			a.recordCall(c, d, x.Call, false)
		}
	case *ast.ReturnStmt:
		for _, r := range x.Results {
			a.walkExpr(c, st, r)
		}
		c.noteExit(st)
		return true
	case *ast.BranchStmt:
		if x.Tok == token.BREAK || x.Tok == token.CONTINUE || x.Tok == token.GOTO {
			a.pushExit(c, st)
			return true
		}
	case *ast.BlockStmt:
		return a.walkBlock(c, st, x)
	case *ast.LabeledStmt:
		return a.walkStmt(c, st, x.Stmt)
	case *ast.DeclStmt:
		if gd, ok := x.Decl.(*ast.GenDecl); ok {
			for _, sp := range gd.Specs {
				if vs, ok := sp.(*ast.ValueSpec); ok {
					for _, v := range vs.Values {
						a.walkExpr(c, st, v)
					}
				}
			}
		}
	case *ast.IfStmt:
		a.walkStmt(c, st, x.Init)
		a.walkExpr(c, st, x.Cond)
		var conts []*state
		thenSt := st.clone()
		thenSt.addConds(a.conjuncts(c, x.Cond))
		if !a.walkBlock(c, thenSt, x.Body) {
			conts = append(conts, thenSt)
		}
		elseSt := st.clone()
		elseSt.addConds(a.negation(c, x.Cond))
		if x.Else != nil {
			if !a.walkStmt(c, elseSt, x.Else) {
				conts = append(conts, elseSt)
			}
		} else {
			conts = append(conts, elseSt)
		}
		if len(conts) == 0 {
			return true
		}
		merge(st, conts)
	case *ast.ForStmt:
		a.walkStmt(c, st, x.Init)
		a.loop(c, st, func(in *state) bool {
			a.walkExpr(c, in, x.Cond)
			t := a.walkBlock(c, in, x.Body)
			if !t {
				a.walkStmt(c, in, x.Post)
			}
			return t
		}, x.Cond == nil)
	case *ast.RangeStmt:
		a.walkExpr(c, st, x.X)
		a.loop(c, st, func(in *state) bool {
			if x.Tok == token.ASSIGN {
				if x.Key != nil {
					a.walkLHS(c, in, x.Key)
				}
				if x.Value != nil {
					a.walkLHS(c, in, x.Value)
				}
			}
			return a.walkBlock(c, in, x.Body)
		}, false)
	case *ast.SwitchStmt:
		a.walkStmt(c, st, x.Init)
		a.walkExpr(c, st, x.Tag)
		return a.clauses(c, st, x.Body, false)
	case *ast.TypeSwitchStmt:
		a.walkStmt(c, st, x.Init)
		a.walkStmt(c, st, x.Assign)
		return a.clauses(c, st, x.Body, false)
	case *ast.SelectStmt:
		return a.clauses(c, st, x.Body, true)
	}
	return false
}

func isFreshExpr(e ast.Expr) bool {
	switch x := e.(type) {
	case *ast.UnaryExpr:
		if x.Op == token.AND {
			_, ok := x.X.(*ast.CompositeLit)
			return ok
		}
	case *ast.CompositeLit:
		return true
	case *ast.CallExpr:
		if id, ok := x.Fun.(*ast.Ident); ok && id.Name == "new" {
			return true
		}
	}
	return false
}

// loop analyses a loop body to a fixed point of the (only shrinking) held set.
func (a *analyzer) loop(c *fnCtx, st *state, body func(in *state) bool, infinite bool) {
	head := st.clone()
	var exits []*state
	for iter := 0; iter < 8; iter++ {
		// sites are recorded on the last iteration only: trial runs are rolled back
		mark := a.snapshot()
		fr := &frame{}
		c.frames = append(c.frames, fr)
		in := head.clone()
		term := body(in)
		c.frames = c.frames[:len(c.frames)-1]
		next := head.clone()
		if !term {
			next = intersect(next, in)
		}
		for _, e := range fr.exits {
			next = intersect(next, e) // conservative: break and continue states both weaken the head
		}
		exits = fr.exits
		if sameState(next, head) {
			break
		}
		a.rollback(mark, c)
		head = next
	}
	// after the loop: zero iterations (head) or any exit state
	res := head
	for _, e := range exits {
		res = intersect(res, e)
	}
	_ = infinite
	st.held = res.held
	st.conds = res.conds
}

type snap struct {
	nSites, nCalls, nOpts int
	funcs                 map[string]bool
}

func (a *analyzer) snapshot() snap {
	m := map[string]bool{}
	for k := range a.funcs {
		m[k] = true
	}
	return snap{len(a.sites), len(a.calls), len(a.opts), m}
}

func (a *analyzer) rollback(s snap, c *fnCtx) {
	// undo ordinals of the discarded sites
	for _, x := range a.sites[s.nSites:] {
		if x.Func == c.decl.Name {
			c.ords[x.Struct+"."+x.Field+"/"+x.Kind]--
		}
	}
	a.sites = a.sites[:s.nSites]
	a.calls = a.calls[:s.nCalls]
	a.opts = a.opts[:s.nOpts]
	for k := range a.funcs {
		if !s.funcs[k] {
			delete(a.funcs, k)
			switch {
			case strings.Contains(k[len(c.topName):], "$go"):
				c.nGo--
			case strings.Contains(k[len(c.topName):], "$lit"):
				c.nLit--
			case strings.Contains(k[len(c.topName):], "$defer"):
				c.nDefer--
			}
		}
	}
}

func (a *analyzer) clauses(c *fnCtx, st *state, body *ast.BlockStmt, isSelect bool) bool {
	fr := &frame{}
	c.frames = append(c.frames, fr)
	var conts []*state
	hasDefault := false
	for _, cl := range body.List {
		in := st.clone()
		var stmts []ast.Stmt
		switch cc := cl.(type) {
		case *ast.CaseClause:
			if cc.List == nil {
				hasDefault = true
			}
			for _, e := range cc.List {
				a.walkExpr(c, in, e)
			}
			stmts = cc.Body
		case *ast.CommClause:
			if cc.Comm == nil {
				hasDefault = true
			}
			a.walkStmt(c, in, cc.Comm)
			stmts = cc.Body
		}
		if !a.walkStmts(c, in, stmts) {
			conts = append(conts, in)
		}
	}
	c.frames = c.frames[:len(c.frames)-1]
	conts = append(conts, fr.exits...)
	if !hasDefault && !isSelect {
		conts = append(conts, st.clone())
	}
	if len(conts) == 0 {
		return true
	}
	merge(st, conts)
	return false
}

// ---------------------------------------------------------------- driver

func (a *analyzer) analyzePackage(path string) {
	pkg := a.l.pkgs[path]
	a.pkgPath, a.pkgName, a.info = path, pkg.Name(), a.l.infos[path]
	for _, f := range a.l.files[path] {
		for _, d := range f.Decls {
			fd, ok := d.(*ast.FuncDecl)
			if !ok || fd.Body == nil {
				continue
			}
			obj := a.info.Defs[fd.Name].(*types.Func)
			name := a.funcName[obj]
			decl := a.funcs[name]
			c := &fnCtx{decl: decl, ctor: decl.Ctor, fresh: map[types.Object]bool{}, ords: map[string]int{}, topName: name}
			if fd.Recv != nil && len(fd.Recv.List) == 1 && len(fd.Recv.List[0].Names) == 1 {
				c.recvObj = a.info.Defs[fd.Recv.List[0].Names[0]]
			}
			decl.recvObj = c.recvObj
			decl.File, decl.Start = a.pos(fd.Pos())
			_, decl.End = a.pos(fd.End())
			st := &state{}
			if !a.walkBlock(c, st, fd.Body) {
				c.noteExit(st) // falling off the end of the body
			}
			if c.recvObj != nil && c.exitSeen && len(c.exitFacts) > 0 {
				a.nextSumm[name] = sortedCopy(c.exitFacts)
			}
		}
	}
}

func lockSetString(ls []lockRef) string {
	var sb strings.Builder
	sb.WriteString("[")
	for i, l := range ls {
		if i > 0 {
			sb.WriteString("; ")
		}
		fmt.Fprintf(&sb, "(%q, %s)", l.Name, l.Mode)
	}
	sb.WriteString("]")
	return sb.String()
}

func coqBool(b bool) string {
	if b {
		return "true"
	}
	return "false"
}

// lsSubset: every lock of a is in b with at least the same mode.
func lsCovers(have []lockRef, need lockRef) bool {
	for _, h := range have {
		if h.Name == need.Name && (h.Mode == "Ex" || need.Mode == "Sh") {
			return true
		}
	}
	return false
}

func lsMeet(a, b []lockRef) []lockRef {
	var out []lockRef
	for _, x := range a {
		for _, y := range b {
			if x.Name == y.Name {
				m := x.Mode
				if y.Mode == "Sh" {
					m = "Sh"
				}
				out = append(out, lockRef{x.Name, m})
				break
			}
		}
	}
	return out
}

func lsJoin(a, b []lockRef) []lockRef {
	m := map[string]string{}
	for _, x := range append(append([]lockRef{}, a...), b...) {
		if old, ok := m[x.Name]; !ok || (old == "Sh" && x.Mode == "Ex") {
			m[x.Name] = x.Mode
		}
	}
	names := make([]string, 0, len(m))
	for n := range m {
		names = append(names, n)
	}
	sort.Strings(names)
	var out []lockRef
	for _, n := range names {
		out = append(out, lockRef{n, m[n]})
	}
	return out
}

func lsEq(a, b []lockRef) bool {
	if len(a) != len(b) {
		return false
	}
	for i := range a {
		if a[i] != b[i] {
			return false
		}
	}
	return true
}

// propagate computes the greatest consistent entry lock sets for helper contexts.
func (a *analyzer) propagate() {
	callsOf := map[string][]callSite{}
	for _, c := range a.calls {
		callsOf[c.Callee] = append(callsOf[c.Callee], c)
	}
	top := map[string]bool{}
	for name, f := range a.funcs {
		helper := !f.Exported && !f.ValueUsed && len(callsOf[name]) > 0 && f.Closure != "go" && f.Closure != "lit"
		if helper {
			top[name] = true
		}
		f.Entry = nil
	}
	for iter := 0; iter < 64; iter++ {
		changed := false
		names := make([]string, 0, len(a.funcs))
		for n := range a.funcs {
			names = append(names, n)
		}
		sort.Strings(names)
		for _, name := range names {
			f := a.funcs[name]
			if f.Exported || f.ValueUsed || len(callsOf[name]) == 0 || f.Closure == "go" || f.Closure == "lit" {
				continue
			}
			var acc []lockRef
			first := true
			allTop := true
			for _, c := range callsOf[name] {
				var at []lockRef
				if c.Spawn {
					at = nil
				} else {
					at = c.Locks
					if c.SameRecv {
						if top[c.Caller] {
							continue // caller still unconstrained: does not restrict yet
						}
						if cf := a.funcs[c.Caller]; cf != nil {
							at = lsJoin(at, cf.Entry)
						}
					}
				}
				allTop = false
				if first {
					acc, first = lsJoin(at, nil), false
				} else {
					acc = lsMeet(acc, at)
				}
			}
			if allTop {
				continue
			}
			if top[name] || !lsEq(acc, f.Entry) {
				top[name] = false
				f.Entry = acc
				changed = true
			}
		}
		if !changed {
			break
		}
	}
	for name := range top {
		if top[name] {
			a.funcs[name].Entry = nil
		}
	}
}

// propagateConds computes the greatest consistent entry history facts of helper contexts: the facts every call site
// provides, lexically or - when the callee's "$" is the caller's - through the caller's own entry facts.  Spawned
// contexts take part (a fact of the form "this goroutine or the one that spawned it has executed `$.f = true`"
// survives a go statement); escaping literals, exported functions and function values claim nothing.
func (a *analyzer) propagateConds() {
	callsOf := map[string][]callSite{}
	for _, c := range a.calls {
		callsOf[c.Callee] = append(callsOf[c.Callee], c)
	}
	eligible := func(name string) bool {
		f := a.funcs[name]
		return f != nil && !f.Exported && !f.ValueUsed && len(callsOf[name]) > 0 && f.Closure != "lit"
	}
	top := map[string]bool{}
	names := make([]string, 0, len(a.funcs))
	for n, f := range a.funcs {
		names = append(names, n)
		f.EntryConds = nil
		if eligible(n) {
			top[n] = true
		}
	}
	sort.Strings(names)
	meet := func(x, y []string) []string {
		var out []string
		for _, v := range x {
			if hasStr(y, v) {
				out = append(out, v)
			}
		}
		return out
	}
	for iter := 0; iter < 64; iter++ {
		changed := false
		for _, name := range names {
			if !eligible(name) {
				continue
			}
			f := a.funcs[name]
			var acc []string
			first, allTop := true, true
			for _, c := range callsOf[name] {
				at := append([]string{}, c.Conds...)
				if c.Inherit {
					if top[c.Caller] {
						continue // caller still unconstrained: does not restrict yet
					}
					if cf := a.funcs[c.Caller]; cf != nil {
						for _, v := range cf.EntryConds {
							if !hasStr(at, v) {
								at = append(at, v)
							}
						}
					}
				}
				allTop = false
				if first {
					acc, first = at, false
				} else {
					acc = meet(acc, at)
				}
			}
			if allTop {
				continue
			}
			sort.Strings(acc)
			if top[name] || strings.Join(acc, "\x00") != strings.Join(f.EntryConds, "\x00") {
				top[name] = false
				f.EntryConds = acc
				changed = true
			}
		}
		if !changed {
			break
		}
	}
	for name := range top {
		if top[name] {
			a.funcs[name].EntryConds = nil
		}
	}
}

func main() {
	repo := flag.String("repo", "/repo", "root of the go-supervisor checkout")
	out := flag.String("out", "", "path of the generated AccessTable.v")
	js := flag.String("json", "", "path of the JSON sidecar (sites with file:line, for the check script)")
	gobin := flag.String("go", "go1.26", "go command used for `go list`")
	module := flag.String("module", "", "module path (default: the go-supervisor module)")
	pkgs := flag.String("pkgs", "", "comma-separated package directories relative to the module root")
	structs := flag.String("structs", "", "comma-separated tracked structs, <pkgname>.<Type>")
	flag.StringVar(&buildTags, "tags", "", "extra build tags for the file selection (default: production files only)")
	flag.Parse()
	if *module != "" {
		modPath = *module
	}
	if *pkgs != "" {
		targetPkgs = strings.Split(*pkgs, ",")
	}
	if *structs != "" {
		trackedStructs = map[string]bool{}
		for _, s := range strings.Split(*structs, ",") {
			trackedStructs[s] = true
		}
	}
	absRepo, _ := filepath.Abs(*repo)
	if r, err := filepath.EvalSymlinks(absRepo); err == nil {
		absRepo = r
	}
	l, err := load(absRepo, *gobin)
	if err != nil {
		fmt.Fprintln(os.Stderr, "srcfacts:", err)
		os.Exit(2)
	}
	a := &analyzer{l: l, fieldOf: map[*types.Var][2]string{}, funcName: map[*types.Func]string{},
		funcs: map[string]*funcDecl{}, repo: absRepo}
	for _, t := range targetPkgs {
		p := modPath + "/" + t
		a.collectDecls(l.pkgs[p], l.files[p], l.infos[p])
	}
	for fn, name := range a.funcName {
		fd := a.newFunc(name, "")
		fd.isTop = true
		fd.Exported = ast.IsExported(fn.Name())
		sig := fn.Type().(*types.Signature)
		// by signature; the historical name heuristic (New*/new*/With*, a result type called Option) is kept only
		// for package-level functions that do not touch a tracked struct through a parameter (nothing shared to mutate)
		fd.Ctor = ctorBySignature(sig) || (sig.Recv() == nil && (isCtorName(fn.Name()) || returnsOption(sig)) && !takesTracked(sig))
		if a.ifaceCallable(fn) {
			fd.ValueUsed = true
		}
	}
	// The packages are walked until the per-method summaries "always executes `$.f = true` before returning" are
	// stable (a caller's facts after a call depend on the callee's summary): every pass starts from clean tables.
	a.summ = map[string][]string{}
	for pass := 0; pass < 5; pass++ {
		a.calls, a.sites, a.opts = nil, nil, nil
		for n, f := range a.funcs {
			if !f.isTop {
				delete(a.funcs, n) // closure contexts are re-created by the walk
			}
		}
		a.nextSumm = map[string][]string{}
		for _, t := range targetPkgs {
			a.analyzePackage(modPath + "/" + t)
		}
		same := len(a.summ) == len(a.nextSumm)
		for k, v := range a.nextSumm {
			if strings.Join(v, "\x00") != strings.Join(a.summ[k], "\x00") {
				same = false
			}
		}
		a.summ = a.nextSumm
		if same {
			break
		}
	}
	a.propagate()
	a.propagateConds()
	if *out != "" {
		if err := os.WriteFile(*out, []byte(a.emitCoq()), 0o644); err != nil {
			fmt.Fprintln(os.Stderr, "srcfacts:", err)
			os.Exit(2)
		}
	}
	if *js != "" {
		b, _ := json.MarshalIndent(map[string]any{"sites": a.sortedSites(), "calls": a.sortedCalls(),
			"fields": a.sortedFields(), "funcs": a.sortedFuncs(), "option_applies": a.opts}, "", " ")
		if err := os.WriteFile(*js, b, 0o644); err != nil {
			fmt.Fprintln(os.Stderr, "srcfacts:", err)
			os.Exit(2)
		}
	}
	fmt.Printf("srcfacts: %d fields, %d function contexts, %d call sites, %d access sites\n",
		len(a.fields), len(a.funcs), len(a.calls), len(a.sites))
}

func (a *analyzer) sortedFields() []fieldDecl {
	fs := append([]fieldDecl{}, a.fields...)
	sort.Slice(fs, func(i, j int) bool {
		if fs[i].Struct != fs[j].Struct {
			return fs[i].Struct < fs[j].Struct
		}
		return fs[i].Field < fs[j].Field
	})
	return fs
}

func (a *analyzer) sortedFuncs() []*funcDecl {
	var fs []*funcDecl
	for _, f := range a.funcs {
		fs = append(fs, f)
	}
	sort.Slice(fs, func(i, j int) bool { return fs[i].Name < fs[j].Name })
	return fs
}

func (a *analyzer) sortedCalls() []callSite {
	cs := append([]callSite{}, a.calls...)
	sort.SliceStable(cs, func(i, j int) bool {
		if cs[i].Callee != cs[j].Callee {
			return cs[i].Callee < cs[j].Callee
		}
		return cs[i].Caller < cs[j].Caller
	})
	return cs
}

func (a *analyzer) sortedSites() []site {
	ss := append([]site{}, a.sites...)
	sort.SliceStable(ss, func(i, j int) bool {
		x, y := ss[i], ss[j]
		if x.Struct != y.Struct {
			return x.Struct < y.Struct
		}
		if x.Field != y.Field {
			return x.Field < y.Field
		}
		if x.Func != y.Func {
			return x.Func < y.Func
		}
		if x.Kind != y.Kind {
			return x.Kind < y.Kind
		}
		return x.Ord < y.Ord
	})
	return ss
}

func (a *analyzer) emitCoq() string {
	var sb strings.Builder
	sb.WriteString("(* GENERATED by harness/cmd/srcfacts from the Go source of the library - do not edit.\n")
	sb.WriteString("   Overwritten on every run of ./check C17.  The last (string) argument of mkSite / mkCall is a\n")
	sb.WriteString("   file:line debug label that no checking function inspects. *)\n")
	sb.WriteString("From Coq Require Import String List.\nFrom GS Require Import Race.\nImport ListNotations.\nOpen Scope string_scope.\n\n")
	sb.WriteString("Definition fields : list field_decl := [\n")
	fs := a.sortedFields()
	for i, f := range fs {
		fmt.Fprintf(&sb, "  mkField %q %q %s (* %s *)%s\n", f.Struct, f.Field, f.Cat, strings.ReplaceAll(f.GoType, "*)", "* )"), sep(i, len(fs)))
	}
	sb.WriteString("].\n\n")
	sb.WriteString("(* mkFuncC name exported value_used ctor entry_locks entry_facts *)\nDefinition funcs : list func_decl := [\n")
	fns := a.sortedFuncs()
	for i, f := range fns {
		fmt.Fprintf(&sb, "  mkFuncC %q %s %s %s %s %s%s\n", f.Name, coqBool(f.Exported), coqBool(f.ValueUsed), coqBool(f.Ctor),
			lockSetString(f.Entry), strList(f.EntryConds), sep(i, len(fns)))
	}
	sb.WriteString("].\n\n")
	sb.WriteString("(* mkCallC callee caller locks_held_lexically same_receiver spawn dbg history_facts_at_call same_dollar *)\nDefinition calls : list call_site := [\n")
	cs := a.sortedCalls()
	for i, c := range cs {
		fmt.Fprintf(&sb, "  mkCallC %q %q %s %s %s %q %s %s%s\n", c.Callee, c.Caller, lockSetString(c.Locks), coqBool(c.SameRecv),
			coqBool(c.Spawn), c.Dbg, strList(c.Conds), coqBool(c.Inherit), sep(i, len(cs)))
	}
	sb.WriteString("].\n\n")
	sb.WriteString("(* mkSite struct field func kind lexical_locks same_receiver prepub ordinal conditions note dbg *)\nDefinition sites : list site := [\n")
	ss := a.sortedSites()
	for i, s := range ss {
		fmt.Fprintf(&sb, "  mkSite %q %q %q %s %s %s %s %d %s %q %q%s\n", s.Struct, s.Field, s.Func, s.Kind, lockSetString(s.Locks),
			coqBool(s.SameRecv), s.Pre, s.Ord, strList(s.Conds), s.Note, s.Dbg, sep(i, len(ss)))
	}
	sb.WriteString("].\n\n")
	sb.WriteString("(* functions in which a value of a functional-option type is applied; the bool says whether it is a constructor *)\n")
	sb.WriteString("Definition option_applies : list (string * bool) := [\n")
	for i, o := range a.opts {
		fmt.Fprintf(&sb, "  (%q, %s)%s\n", o.Func, coqBool(o.InCtor), sep(i, len(a.opts)))
	}
	sb.WriteString("].\n\n")
	sb.WriteString("Definition table : access_table := mkTable fields funcs calls sites option_applies.\n")
	return sb.String()
}

func strList(l []string) string {
	var sb strings.Builder
	sb.WriteString("[")
	for i, x := range l {
		if i > 0 {
			sb.WriteString("; ")
		}
		sb.WriteString("\"" + strings.ReplaceAll(x, "\"", "\"\"") + "\"")
	}
	sb.WriteString("]")
	return sb.String()
}

func sep(i, n int) string {
	if i+1 < n {
		return ";"
	}
	return ""
}
