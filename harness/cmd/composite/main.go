// composite drives runnables/composite for the properties C09, C10, C11.
//
//	-mode batch -family c10|c11|c11dup|c09|f8|boot|stale|errwin|multifail|failreload|stoperr|churn -n N -seed S   generate N scenarios, run each in a
//	      child process under a watchdog, print one CASE block per scenario for ocaml/composite.ml
//	-one <json>            run one scenario in this process (used by batch and by replays)
//	-mode script -file f   run the scenario stored in a file through the batch machinery (replay)
//	-mode membership       check A: hasMembershipChanged observed through Reload, all pairs of
//	                       entry lists over 4 names up to length -len (incl. duplicates)
//	-mode errclass -n N    check A: error classification of startRunnable observed through Run()
package main

import (
	"bytes"
	"context"
	"encoding/json"
	"flag"
	"fmt"
	"os"
	"os/exec"
	"runtime"
	"strings"
	"sync"
	"time"

	"github.com/robbyt/go-supervisor/verif_harness/internal/prng"
)

func header(sc Scenario) string {
	var b strings.Builder
	fmt.Fprintf(&b, "CASE %s %s pool %d", sc.ID, sc.Family, len(sc.Pool))
	for _, p := range sc.Pool {
		fmt.Fprintf(&b, " %d:%s:%s:%s", p.Name, p.Style, p.Exit, p.RK)
	}
	return b.String()
}

func runChild(self string, sc Scenario, timeout time.Duration) string {
	js, _ := json.Marshal(sc)
	ctx, cancel := context.WithTimeout(context.Background(), timeout)
	defer cancel()
	cmd := exec.CommandContext(ctx, self, "-one", string(js))
	var out bytes.Buffer
	cmd.Stdout = &out
	cmd.Stderr = &out
	err := cmd.Run()
	var b strings.Builder
	b.WriteString(header(sc) + "\n")
	b.WriteString("SCRIPT " + string(js) + "\n")
	txt := out.String()
	if ctx.Err() != nil {
		b.WriteString(keepE(txt))
		b.WriteString("OUTCOME timeout\n")
	} else if err != nil || !strings.Contains(txt, "OUTCOME ") {
		b.WriteString(keepE(txt))
		tail := txt
		if len(tail) > 600 {
			tail = tail[len(tail)-600:]
		}
		b.WriteString("CRASH " + strings.ReplaceAll(tail, "\n", " | ") + "\n")
		b.WriteString("OUTCOME crashed\n")
	} else {
		b.WriteString(txt)
	}
	b.WriteString("END\n")
	return b.String()
}

func keepE(txt string) string {
	var b strings.Builder
	for _, l := range strings.Split(txt, "\n") {
		if strings.HasPrefix(l, "E ") {
			b.WriteString(l + "\n")
		}
	}
	return b.String()
}

func generate(family string, n int, seed uint64) []Scenario {
	r := prng.New(seed)
	var out []Scenario
	for i := 0; i < n; i++ {
		rr := r.Fork()
		switch family {
		case "c10":
			out = append(out, genC10(rr, i))
		case "c11":
			out = append(out, genC11(rr, i))
		case "c11dup":
			out = append(out, genC11Dup(rr, i))
		case "c09":
			out = append(out, genC09(rr, i))
		case "f8":
			out = append(out, genF8(i))
		case "stale":
			out = append(out, genStale(i))
		case "errwin":
			out = append(out, genErrWin(rr, i))
		case "multifail":
			out = append(out, genMultiFail(rr, i))
		case "failreload":
			out = append(out, genFailReload(rr, i))
		case "stoperr":
			out = append(out, genStopErr(rr, i))
		case "churn":
			out = append(out, genChurn(rr, i))
		case "boot":
			out = append(out, genBoot(rr, i))
		default:
			fmt.Fprintln(os.Stderr, "unknown family", family)
			os.Exit(2)
		}
	}
	return out
}

func batch(scs []Scenario, par int, timeout time.Duration) {
	self, _ := os.Executable()
	res := make([]string, len(scs))
	var wg sync.WaitGroup
	sem := make(chan struct{}, par)
	for i := range scs {
		wg.Add(1)
		sem <- struct{}{}
		go func(i int) {
			defer wg.Done()
			res[i] = runChild(self, scs[i], timeout)
			<-sem
		}(i)
	}
	wg.Wait()
	for _, r := range res {
		fmt.Print(r)
	}
}

func main() {
	mode := flag.String("mode", "batch", "")
	family := flag.String("family", "c10", "")
	n := flag.Int("n", 10, "")
	seed := flag.Uint64("seed", 1, "")
	one := flag.String("one", "", "")
	file := flag.String("file", "", "")
	par := flag.Int("par", runtime.NumCPU(), "")
	maxLen := flag.Int("len", 4, "")
	wd := flag.Duration("watchdog", 15*time.Second, "")
	flag.Parse()
	if *one != "" {
		var sc Scenario
		if err := json.Unmarshal([]byte(*one), &sc); err != nil {
			fmt.Println("FATAL bad scenario:", err)
			os.Exit(2)
		}
		runScenario(sc)
		return
	}
	switch *mode {
	case "batch":
		batch(generate(*family, *n, *seed), *par, *wd)
	case "script":
		data, err := os.ReadFile(*file)
		if err != nil {
			fmt.Println("FATAL", err)
			os.Exit(2)
		}
		var scs []Scenario
		for _, l := range strings.Split(string(data), "\n") {
			l = strings.TrimSpace(l)
			if l == "" {
				continue
			}
			var sc Scenario
			if err := json.Unmarshal([]byte(l), &sc); err != nil {
				fmt.Println("FATAL bad scenario:", err)
				os.Exit(2)
			}
			scs = append(scs, sc)
		}
		batch(scs, *par, *wd)
	case "membership":
		membership(*maxLen)
	case "errclass":
		errclass(*n, *seed)
	default:
		flag.Usage()
		os.Exit(2)
	}
}
