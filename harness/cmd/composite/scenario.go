package main

import (
	"context"
	"errors"
	"fmt"
	"log/slog"
	"os"
	"sort"
	"strconv"
	"strings"
	"sync"
	"sync/atomic"
	"time"

	"github.com/robbyt/go-supervisor/runnables/composite"
	"github.com/robbyt/go-supervisor/supervisor"
	"github.com/robbyt/go-supervisor/verif_harness/internal/director"
)

type discard struct{}

func (discard) Enabled(context.Context, slog.Level) bool  { return false }
func (discard) Handle(context.Context, slog.Record) error { return nil }
func (discard) WithAttrs([]slog.Attr) slog.Handler        { return discard{} }
func (discard) WithGroup(string) slog.Handler             { return discard{} }

type Entry struct {
	C int `json:"c"`
	V int `json:"v"`
}

// Op is one director action.
//
//	run | stop | cancel | wait | release | end
//	reload  Cb ("some"|"nil"|"err"), Cfg
//	exit    C, Err (Go-flavoured error tokens)
//	park    Sub (arms a park on the next log record containing Sub), P (park slot, default 0)
//	waitpark P | release P
//	hold C (child C's next ReloadWithConfig/Reload blocks inside the call) | waithold C | unhold C
type Op struct {
	Op  string  `json:"op"`
	Cb  string  `json:"cb,omitempty"`
	Cfg []Entry `json:"cfg,omitempty"`
	C   int     `json:"c,omitempty"`
	Err string  `json:"err,omitempty"`
	Sub string  `json:"sub,omitempty"`
	P   int     `json:"p,omitempty"`
}

type Scenario struct {
	ID     string      `json:"id"`
	Family string      `json:"family"`
	Pool   []ChildSpec `json:"pool"`
	InitCb string      `json:"initcb"`
	Init   []Entry     `json:"init"`
	Ops    []Op        `json:"ops"`
}

type cbVal struct {
	kind string
	cfg  []Entry
}

type env struct {
	sc       Scenario
	rec      *director.Recorder
	ph       *director.ParkHandler
	children []supervisor.Runnable
	mocks    []*mock
	runner   *composite.Runner[supervisor.Runnable]

	cbMu   sync.Mutex
	cbq    []cbVal
	cbLast cbVal
	cbSeq  int

	spawned atomic.Int64
	entered atomic.Int64

	openMu sync.Mutex
	open   map[string]bool // API calls that have not returned

	cancel context.CancelFunc
	park   map[int]*director.Park
	parks  int
}

func cfgString(es []Entry) string {
	var b strings.Builder
	fmt.Fprintf(&b, "%d", len(es))
	for _, e := range es {
		fmt.Fprintf(&b, " %d:%d", e.C, e.V)
	}
	return b.String()
}

func (e *env) callback() (*composite.Config[supervisor.Runnable], error) {
	e.cbMu.Lock()
	v := e.cbLast
	if len(e.cbq) > 0 {
		v = e.cbq[0]
		e.cbq = e.cbq[1:]
		if v.kind == "some" {
			e.cbLast = v
		}
	}
	e.cbMu.Unlock()
	switch v.kind {
	case "nil":
		e.rec.Emit("Callback nil")
		return nil, nil
	case "err":
		e.rec.Emit("Callback err")
		return nil, errors.New("callback failed")
	}
	ents := make([]composite.RunnableEntry[supervisor.Runnable], len(v.cfg))
	for i, x := range v.cfg {
		ents[i] = composite.RunnableEntry[supervisor.Runnable]{Runnable: e.children[x.C], Config: x.V}
	}
	// every configuration the callback returns carries its sequence number in its name, so that
	// Runner.String() reveals which one the runner holds
	e.cbMu.Lock()
	e.cbSeq++
	seq := e.cbSeq
	e.cbMu.Unlock()
	cfg, err := composite.NewConfig[supervisor.Runnable]("cfg"+strconv.Itoa(seq), ents)
	if err != nil {
		e.rec.Emit("Callback err")
		return nil, err
	}
	e.rec.Emit("Callback some %s", cfgString(v.cfg))
	return cfg, nil
}

func (e *env) api(name string, f func() string) {
	e.rec.Emit("ApiCall %s", name)
	e.openMu.Lock()
	e.open[name] = true
	e.openMu.Unlock()
	e.spawned.Add(1)
	go func() {
		e.entered.Add(1)
		r := f()
		e.openMu.Lock()
		delete(e.open, name)
		if r == "" {
			e.rec.Emit("ApiRet %s", name)
		} else {
			e.rec.Emit("ApiRet %s %s", name, r)
		}
		e.openMu.Unlock()
	}()
}

// quiesce waits until every spawned API goroutine has entered the library and every library
// goroutine is blocked with a stable event log.
func (e *env) quiesce() bool {
	deadline := time.Now().Add(3 * time.Second)
	for e.entered.Load() < e.spawned.Load() && time.Now().Before(deadline) {
		time.Sleep(100 * time.Microsecond)
	}
	time.Sleep(300 * time.Microsecond)
	return e.rec.WaitQuiescentN(3*time.Second, 4, 400*time.Microsecond)
}

func (e *env) snapshot() {
	e.rec.Emit("State %s", e.runner.GetState())
	e.census()
	if e.rec.WaitFor("Callback some", 0) {
		// "CompositeRunner{name: cfg<seq>, entries: <n>}"
		str := e.runner.String()
		if i := strings.Index(str, "name: cfg"); i >= 0 {
			rest := str[i+len("name: cfg"):]
			if j := strings.Index(rest, ","); j >= 0 {
				e.rec.Emit("Held %s", rest[:j])
			}
		}
	}
}

// census records the goroutines the composite created on its own behalf (C18): child goroutines
// (created by boot), Stop workers (created by stopAllRunnables) and anything else created inside the
// library.  Not recorded when a child is itself a real composite.Runner (its goroutines would count).
func (e *env) census() {
	for _, p := range e.sc.Pool {
		if p.Nested {
			return
		}
	}
	k, w, o := 0, 0, 0
	for fn, n := range director.CreatedByLibrary() {
		switch {
		case strings.HasSuffix(fn, ".boot") || strings.Contains(fn, ".boot."):
			k += n
		case strings.HasSuffix(fn, ".stopAllRunnables") || strings.Contains(fn, ".stopAllRunnables."):
			w += n
		default:
			o += n
		}
	}
	e.rec.Emit("Census %d %d %d", k, w, o)
}

func runScenario(sc Scenario) {
	e := &env{sc: sc, rec: &director.Recorder{}, ph: &director.ParkHandler{}, open: map[string]bool{},
		park: map[int]*director.Park{}}
	for i, sp := range sc.Pool {
		c, m := makeChild(i, sp, e.rec)
		e.children = append(e.children, c)
		e.mocks = append(e.mocks, m)
	}
	kind := sc.InitCb
	if kind == "" {
		kind = "some"
	}
	e.cbq = append(e.cbq, cbVal{kind, sc.Init})
	e.cbLast = cbVal{"some", sc.Init}
	r, err := composite.NewRunner[supervisor.Runnable](e.callback,
		composite.WithLogHandler[supervisor.Runnable](e.ph))
	if err != nil {
		fmt.Println("FATAL NewRunner:", err)
		os.Exit(3)
	}
	e.runner = r
	ctx, cancel := context.WithCancel(context.Background())
	e.cancel = cancel
	nrel, nstop := 0, 0
	quiet := true
	for _, op := range sc.Ops {
		switch op.Op {
		case "run":
			e.api("Run 0", func() string { return classifyRes(r.Run(ctx)) })
		case "reload":
			e.cbMu.Lock()
			e.cbq = append(e.cbq, cbVal{op.Cb, op.Cfg})
			e.cbMu.Unlock()
			k := nrel
			nrel++
			e.api("Reload "+strconv.Itoa(k), func() string { r.Reload(context.Background()); return "" })
		case "stop":
			k := nstop
			nstop++
			e.api("Stop "+strconv.Itoa(k), func() string { r.Stop(); return "" })
		case "cancel":
			e.rec.Emit("Cancel")
			cancel()
		case "exit":
			m := e.mocks[op.C]
			if m == nil {
				continue
			}
			// rendezvous with the child's Run; given up early when no Run of the child is in
			// progress any more (it was stopped or cancelled in the meantime)
			delivered := false
			deadline := time.Now().Add(500 * time.Millisecond)
			for !delivered && time.Now().Before(deadline) {
				select {
				case m.release <- relMsg{op.Err}:
					delivered = true
				case <-time.After(2 * time.Millisecond):
					m.mu.Lock()
					gone := m.ever && m.active == 0
					m.mu.Unlock()
					if gone {
						deadline = time.Now()
					}
				}
			}
			if !delivered {
				e.rec.Emit("Note exit-not-delivered %d", op.C)
			}
		case "park":
			e.park[op.P] = e.ph.ParkOn(op.Sub)
			e.parks++
			e.rec.Emit("Note park-armed %s", strings.ReplaceAll(op.Sub, " ", "_"))
		case "waitpark":
			if p := e.park[op.P]; p != nil {
				if p.WaitReached(2 * time.Second) {
					e.rec.Emit("Note park-reached")
				} else {
					e.rec.Emit("Note park-missed")
				}
			}
			quiet = e.quiesce() && quiet
			e.census()
		case "release":
			if p := e.park[op.P]; p != nil {
				p.Release()
				e.rec.Emit("Note park-released")
			}
		case "hold":
			if m := e.mocks[op.C]; m != nil {
				m.armHold()
				e.parks++
				e.rec.Emit("Note hold-armed %d", op.C)
			}
		case "waithold":
			if m := e.mocks[op.C]; m != nil {
				if m.waitHolding(2 * time.Second) {
					e.rec.Emit("Note park-reached hold")
				} else {
					e.rec.Emit("Note hold-missed %d", op.C)
				}
			}
			quiet = e.quiesce() && quiet
			e.census()
		case "unhold":
			if m := e.mocks[op.C]; m != nil {
				m.unhold()
				e.rec.Emit("Note hold-released %d", op.C)
			}
		case "wait":
			quiet = e.quiesce() && quiet
			e.snapshot()
		case "end":
		}
	}
	e.ph.ReleaseAll()
	for _, m := range e.mocks {
		if m != nil {
			m.unhold()
		}
	}
	quiet = e.quiesce() && quiet
	e.snapshot()
	// final observations
	e.openMu.Lock()
	var blocked []string
	for k := range e.open {
		blocked = append(blocked, strings.ReplaceAll(k, " ", "_"))
	}
	e.openMu.Unlock()
	sort.Strings(blocked)
	if len(blocked) == 0 {
		e.rec.Emit("Blocked -")
	} else {
		e.rec.Emit("Blocked %s", strings.Join(blocked, ","))
	}
	if e.rec.WaitFor("Callback some", 0) {
		// GetChildStates may call the callback if no config was ever stored; only safe after boot
		st := r.GetChildStates()
		ks := make([]string, 0, len(st))
		for k := range st {
			ks = append(ks, k)
		}
		sort.Strings(ks)
		e.rec.Emit("Note childstates %s", strings.Join(ks, ","))
	}
	for i, m := range e.mocks {
		if m != nil {
			m.mu.Lock()
			e.rec.Emit("Live %d %d", i, m.active)
			m.mu.Unlock()
		}
	}
	e.rec.Emit("Note parks armed=%d matched=%d quiet=%v census=%s", e.parks, e.ph.Matched.Load(), quiet,
		director.CensusString(director.Census()))
	for _, ev := range e.rec.Events() {
		fmt.Println("E " + ev)
	}
	if len(blocked) > 0 {
		fmt.Println("OUTCOME blocked")
	} else {
		fmt.Println("OUTCOME ok")
	}
	os.Stdout.Sync()
	os.Exit(0)
}

func contains(xs []string, s string) bool {
	for _, x := range xs {
		if x == s {
			return true
		}
	}
	return false
}
