package main

import (
	"context"
	"errors"
	"fmt"
	"strconv"
	"strings"
	"sync"
	"time"

	"github.com/robbyt/go-supervisor/runnables/composite"
	"github.com/robbyt/go-supervisor/supervisor"
	"github.com/robbyt/go-supervisor/verif_harness/internal/director"
)

// ---------------------------------------------------------------- error trees

// Sentinels: index = model leaf id (0 = ErrRunnableFailed, 1 = "internal", never built here).
var sentinels = func() []error {
	s := make([]error, 12)
	for i := range s {
		s[i] = errors.New("leaf" + strconv.Itoa(i))
	}
	return s
}()

type customWrap struct{ inner error }

func (c customWrap) Error() string { return "custom(" + c.inner.Error() + ")" }
func (c customWrap) Unwrap() error { return c.inner }

type customMulti struct{ inner []error }

func (c customMulti) Error() string   { return fmt.Sprintf("multi%v", c.inner) }
func (c customMulti) Unwrap() []error { return c.inner }

// buildErr parses the prefix token syntax: nil | L<n> | C | D | W x | U x | J n x.. | M n x.. | F n x..
//   W = fmt.Errorf("%w"), U = custom Unwrap() error, J = errors.Join, M = custom Unwrap() []error,
//   F = fmt.Errorf with several %w.
func buildErr(toks []string) (error, []string) {
	t := toks[0]
	rest := toks[1:]
	switch {
	case t == "nil":
		return nil, rest
	case t == "C":
		return context.Canceled, rest
	case t == "D":
		return context.DeadlineExceeded, rest
	case t[0] == 'L':
		n, _ := strconv.Atoi(t[1:])
		return sentinels[n], rest
	case t == "W":
		e, r := buildErr(rest)
		return fmt.Errorf("wrapped: %w", e), r
	case t == "U":
		e, r := buildErr(rest)
		return customWrap{e}, r
	case t == "J" || t == "M" || t == "F":
		n, _ := strconv.Atoi(rest[0])
		rest = rest[1:]
		var es []error
		for i := 0; i < n; i++ {
			var e error
			e, rest = buildErr(rest)
			es = append(es, e)
		}
		switch t {
		case "J":
			return errors.Join(es...), rest
		case "M":
			return customMulti{es}, rest
		default:
			f := strings.TrimSuffix(strings.Repeat("%w; ", n), "; ")
			as := make([]any, n)
			for i := range es {
				as[i] = es[i]
			}
			return fmt.Errorf(f, as...), rest
		}
	}
	panic("bad error token " + t)
}

func parseErr(s string) error {
	e, _ := buildErr(strings.Fields(s))
	return e
}

// modelErr rewrites the Go-flavoured token string into the model's constructors.
func modelErr(s string) string {
	f := strings.Fields(s)
	for i, t := range f {
		switch t {
		case "U":
			f[i] = "W"
		case "M", "F":
			f[i] = "J"
		}
	}
	return strings.Join(f, " ")
}

// classify a result of Run with errors.Is only.
func classifyRes(err error) string {
	if err == nil {
		return "nil"
	}
	failed, canc := 0, 0
	if errors.Is(err, composite.ErrRunnableFailed) {
		failed = 1
	}
	if errors.Is(err, context.Canceled) || errors.Is(err, context.DeadlineExceeded) {
		canc = 1
	}
	var ls []string
	for i := 2; i < len(sentinels); i++ {
		if errors.Is(err, sentinels[i]) {
			ls = append(ls, strconv.Itoa(i))
		}
	}
	l := "-"
	if len(ls) > 0 {
		l = strings.Join(ls, ",")
	}
	return fmt.Sprintf("err %d %d %s", failed, canc, l)
}

// ---------------------------------------------------------------- contract mock children

type ChildSpec struct {
	Name   int    `json:"name"`
	Style  string `json:"style"`  // "N" NonBlocking | "U" UntilRunDone
	Exit   string `json:"exit"`   // "S" OnSignal | "F" Free | "E" Free: returns the error L7 when stopped | "X" Free: L7 when stopped, L8 when its context is cancelled
	RK     string `json:"rk"`     // "W" ReloadWithConfig | "P" Reload | "-" neither
	Nested bool   `json:"nested"` // a real composite.Runner (UntilRunDone, OnSignal, Reload)
}

type relMsg struct {
	err string // Go-flavoured token string
}

// mock implements exactly the child contract of coq/model/Composite.v.
type mock struct {
	id   int
	spec ChildSpec
	rec  *director.Recorder

	mu      sync.Mutex
	cond    *sync.Cond
	sig     bool
	sigch   chan struct{}
	ever    bool
	active  int
	gen     int // number of cycle resets (mirrors lifecycle.StartStop after /repo b0569e6)
	release chan relMsg

	// a director-controlled hold inside ReloadWithConfig / Reload (a slow reload of a child is
	// legitimate environment behaviour): armed by op "hold", left by op "unhold"
	holdMu  sync.Mutex
	hold    chan struct{} // non-nil: the next reload call blocks until it is closed
	holding chan struct{} // closed when a reload call has entered the hold
	entered bool
}

func newMock(id int, spec ChildSpec, rec *director.Recorder) *mock {
	m := &mock{id: id, spec: spec, rec: rec, sigch: make(chan struct{}), release: make(chan relMsg)}
	m.cond = sync.NewCond(&m.mu)
	return m
}

func (m *mock) String() string { return "child-" + strconv.Itoa(m.spec.Name) }

func (m *mock) Run(ctx context.Context) error {
	m.mu.Lock()
	if m.ever && m.active == 0 {
		// a new cycle: the stop signal is cleared and Stop() callers still waiting are released
		m.gen++
		if m.sig {
			m.sig = false
			m.sigch = make(chan struct{})
		}
		m.cond.Broadcast()
	}
	m.ever = true
	m.active++
	sigch := m.sigch
	m.rec.Emit("RunCall %d", m.id)
	m.mu.Unlock()

	var err error
	es := "nil"
	select {
	case <-sigch:
		if m.spec.Exit == "E" || m.spec.Exit == "X" {
			// e.g. a server that reports a shutdown timeout when it is stopped
			err = sentinels[7]
			es = "L7"
		}
	case <-ctx.Done():
		err = ctx.Err()
		es = "C"
		if errors.Is(err, context.DeadlineExceeded) {
			es = "D"
		}
		if m.spec.Exit == "X" {
			// a child that reports a real error of its own when its context is cancelled
			err = sentinels[8]
			es = "L8"
		}
	case msg := <-m.release:
		es = msg.err
		err = parseErr(es)
	}
	m.mu.Lock()
	m.active--
	m.rec.Emit("RunRet %d %s", m.id, modelErr(es))
	m.cond.Broadcast()
	m.mu.Unlock()
	return err
}

func (m *mock) Stop() {
	m.mu.Lock()
	m.rec.Emit("StopCall %d", m.id)
	if !m.sig {
		m.sig = true
		close(m.sigch)
	}
	if m.spec.Style == "U" {
		gen := m.gen
		for !(m.ever && m.active == 0) && m.gen == gen {
			m.cond.Wait()
		}
	}
	m.rec.Emit("StopRet %d", m.id)
	m.mu.Unlock()
}

// armHold makes the next ReloadWithConfig / Reload call of this child block (after it has been
// logged) until unhold.
func (m *mock) armHold() {
	m.holdMu.Lock()
	m.hold = make(chan struct{})
	m.holding = make(chan struct{})
	m.entered = false
	m.holdMu.Unlock()
}

func (m *mock) unhold() {
	m.holdMu.Lock()
	if m.hold != nil {
		close(m.hold)
		m.hold = nil
	}
	m.holdMu.Unlock()
}

// waitHolding waits until a reload call is inside the hold.
func (m *mock) waitHolding(d time.Duration) bool {
	m.holdMu.Lock()
	h := m.holding
	m.holdMu.Unlock()
	if h == nil {
		return false
	}
	select {
	case <-h:
		return true
	case <-time.After(d):
		return false
	}
}

func (m *mock) inReload() {
	m.holdMu.Lock()
	h, hg := m.hold, m.holding
	first := h != nil && !m.entered
	if first {
		m.entered = true
	}
	m.holdMu.Unlock()
	if first {
		close(hg)
		<-h
	}
}

// isActive reports whether a Run of this child is in progress.
func (m *mock) isActive() bool {
	m.mu.Lock()
	defer m.mu.Unlock()
	return m.active > 0
}

type mockRWC struct{ *mock }

func (m mockRWC) ReloadWithConfig(cfg any) {
	v, _ := cfg.(int)
	m.rec.Emit("ReloadCfg %d %d", m.id, v)
	m.inReload()
}

type mockPlain struct{ *mock }

func (m mockPlain) Reload(context.Context) {
	m.rec.Emit("ReloadPlain %d", m.id)
	m.inReload()
}

// nested wraps a real composite.Runner (with one quiet inner child) as a child.
type quiet struct {
	stop chan struct{}
	once sync.Once
}

func (q *quiet) String() string { return "quiet" }
func (q *quiet) Run(ctx context.Context) error {
	select {
	case <-ctx.Done():
	case <-q.stop:
	}
	return nil
}
func (q *quiet) Stop() { q.once.Do(func() { close(q.stop) }) }

type nested struct {
	id    int
	name  int
	rec   *director.Recorder
	inner *composite.Runner[supervisor.Runnable]

	mu     sync.Mutex // orders the wrapper's own log entries: RunRet is logged before StopRet
	active int
}

func newNested(id int, spec ChildSpec, rec *director.Recorder) *nested {
	cb := func() (*composite.Config[supervisor.Runnable], error) {
		// a fresh quiet child per (re)start so that the inner runner can be run repeatedly
		return composite.NewConfig[supervisor.Runnable]("inner", []composite.RunnableEntry[supervisor.Runnable]{
			{Runnable: &quiet{stop: make(chan struct{})}},
		})
	}
	in, err := composite.NewRunner[supervisor.Runnable](cb, composite.WithLogHandler[supervisor.Runnable](discard{}))
	if err != nil {
		panic(err)
	}
	return &nested{id: id, name: spec.Name, rec: rec, inner: in}
}

func (n *nested) String() string { return "child-" + strconv.Itoa(n.name) }
func (n *nested) Run(ctx context.Context) error {
	n.mu.Lock()
	n.active++
	n.rec.Emit("RunCall %d", n.id)
	n.mu.Unlock()
	err := n.inner.Run(ctx)
	es := "nil"
	if err != nil {
		if errors.Is(err, context.Canceled) {
			es = "C"
		} else {
			es = "L9"
			err = fmt.Errorf("%w: %v", sentinels[9], err)
		}
	}
	n.mu.Lock()
	n.active--
	n.rec.Emit("RunRet %d %s", n.id, es)
	n.mu.Unlock()
	return err
}
func (n *nested) Stop() {
	n.rec.Emit("StopCall %d", n.id)
	n.inner.Stop()
	for { // the inner Run has returned; let the wrapper log RunRet first
		n.mu.Lock()
		a := n.active
		n.mu.Unlock()
		if a == 0 {
			break
		}
		time.Sleep(50 * time.Microsecond)
	}
	n.rec.Emit("StopRet %d", n.id)
}
func (n *nested) Reload(context.Context) { n.rec.Emit("ReloadPlain %d", n.id) }

func makeChild(id int, spec ChildSpec, rec *director.Recorder) (supervisor.Runnable, *mock) {
	if spec.Nested {
		return newNested(id, spec, rec), nil
	}
	m := newMock(id, spec, rec)
	switch spec.RK {
	case "W":
		return mockRWC{m}, m
	case "P":
		return mockPlain{m}, m
	}
	return m, m
}
