package main

import (
	"bytes"
	"context"
	"errors"
	"fmt"
	"os"
	"runtime"
	"strconv"
	"strings"
	"sync"
	"sync/atomic"
	"time"

	"github.com/robbyt/go-supervisor/runnables/composite"
	"github.com/robbyt/go-supervisor/supervisor"
	"github.com/robbyt/go-supervisor/verif_harness/internal/prng"
)

// light is a cheap NonBlocking/OnSignal child with call counters.
type light struct {
	name  string
	mu    sync.Mutex
	ch    chan struct{}
	stops atomic.Int64
	rwcs  atomic.Int64
	runs  atomic.Int64
	goid  atomic.Int64 // goroutine that last entered Run
	rel   chan error
}

func newLight(name string) *light {
	return &light{name: name, ch: make(chan struct{}), rel: make(chan error)}
}
func (l *light) String() string { return l.name }
func (l *light) Run(ctx context.Context) error {
	l.mu.Lock()
	ch := l.ch
	l.mu.Unlock()
	l.goid.Store(curGoid())
	l.runs.Add(1)
	select {
	case <-ctx.Done():
		return nil
	case <-ch:
		return nil
	case e := <-l.rel:
		return e
	}
}
func (l *light) Stop() {
	l.stops.Add(1)
	l.mu.Lock()
	close(l.ch)
	l.ch = make(chan struct{})
	l.mu.Unlock()
}
func (l *light) ReloadWithConfig(any) { l.rwcs.Add(1) }

func allLists(k, maxLen int) [][]int {
	out := [][]int{{}}
	prev := [][]int{{}}
	for l := 1; l <= maxLen; l++ {
		var cur [][]int
		for _, p := range prev {
			for x := 0; x < k; x++ {
				cur = append(cur, append(append([]int(nil), p...), x))
			}
		}
		out = append(out, cur...)
		prev = cur
	}
	return out
}

func namesStr(l []int) string {
	if len(l) == 0 {
		return "-"
	}
	s := make([]string, len(l))
	for i, x := range l {
		s[i] = strconv.Itoa(x)
	}
	return strings.Join(s, ",")
}

// membership observes hasMembershipChanged through Reload: with current config old, Reload(new)
// either restarts (Stop on every old entry, no ReloadWithConfig) or reloads in place
// (ReloadWithConfig on every new entry, no Stop).
func membership(maxLen int) {
	lists := allLists(4, maxLen)
	shards := runtime.NumCPU()
	outs := make([]strings.Builder, shards)
	var wg sync.WaitGroup
	for sh := 0; sh < shards; sh++ {
		wg.Add(1)
		go func(sh int) {
			defer wg.Done()
			kids := []*light{newLight("n0"), newLight("n1"), newLight("n2"), newLight("n3")}
			var next atomic.Pointer[[]int]
			empty := []int{}
			next.Store(&empty)
			cb := func() (*composite.Config[supervisor.Runnable], error) {
				l := *next.Load()
				es := make([]composite.RunnableEntry[supervisor.Runnable], len(l))
				for i, x := range l {
					es[i] = composite.RunnableEntry[supervisor.Runnable]{Runnable: kids[x], Config: i}
				}
				return composite.NewConfig[supervisor.Runnable]("m", es)
			}
			r, err := composite.NewRunner[supervisor.Runnable](cb, composite.WithLogHandler[supervisor.Runnable](discard{}))
			if err != nil {
				panic(err)
			}
			ctx, cancel := context.WithCancel(context.Background())
			done := make(chan error, 1)
			go func() { done <- r.Run(ctx) }()
			for !r.IsRunning() {
				time.Sleep(50 * time.Microsecond)
			}
			count := func() (int64, int64) {
				var s, w int64
				for _, k := range kids {
					s += k.stops.Load()
					w += k.rwcs.Load()
				}
				return s, w
			}
			for i := range lists {
				if i%shards != sh {
					continue
				}
				for j := range lists {
					old, nw := lists[i], lists[j]
					if len(old) == 0 && len(nw) == 0 {
						continue
					}
					next.Store(&old)
					r.Reload(ctx)
					s0, w0 := count()
					next.Store(&nw)
					r.Reload(ctx)
					s1, w1 := count()
					ds, dw := s1-s0, w1-w0
					v := "X"
					if dw == int64(len(nw)) && ds == 0 && !(len(nw) == 0 && len(old) == 0) {
						v = "0"
					}
					if ds == int64(len(old)) && dw == 0 {
						if v == "0" {
							v = "X"
						} else {
							v = "1"
						}
					}
					if !r.IsRunning() {
						v = "S" + r.GetState()
					}
					fmt.Fprintf(&outs[sh], "M %s %s %s\n", namesStr(old), namesStr(nw), v)
				}
			}
			cancel()
			<-done
		}(sh)
	}
	wg.Wait()
	for i := range outs {
		os.Stdout.WriteString(outs[i].String())
	}
}

func randErr(r *prng.R, depth int) string {
	if depth == 0 || r.Chance(1, 4) {
		return prng.Pick(r, []string{"L2", "L3", "L4", "L5", "C", "D", "L6"})
	}
	switch r.Intn(6) {
	case 0, 1:
		return "W " + randErr(r, depth-1)
	case 2:
		return "U " + randErr(r, depth-1)
	default:
		k := 1 + r.Intn(3)
		parts := make([]string, k)
		for i := range parts {
			parts[i] = randErr(r, depth-1)
		}
		return prng.Pick(r, []string{"J", "M", "F"}) + " " + strconv.Itoa(k) + " " + strings.Join(parts, " ")
	}
}

// errclass: errors.Is classification of generated trees, and (for every 8th) the filter of
// startRunnable as observed through Run()'s result.
func errclass(n int, seed uint64) {
	r := prng.New(seed)
	type job struct {
		toks string
		obs  bool
	}
	jobs := make([]job, n)
	for i := range jobs {
		jobs[i] = job{randErr(r, 1+r.Intn(6)), i%8 == 0}
	}
	res := make([]string, n)
	var wg sync.WaitGroup
	sem := make(chan struct{}, runtime.NumCPU())
	for i := range jobs {
		wg.Add(1)
		sem <- struct{}{}
		go func(i int) {
			defer wg.Done()
			defer func() { <-sem }()
			j := jobs[i]
			e := parseErr(j.toks)
			ic := 0
			if errors.Is(e, context.Canceled) || errors.Is(e, context.DeadlineExceeded) {
				ic = 1
			}
			ls := []string{}
			for x := 2; x < len(sentinels); x++ {
				if errors.Is(e, sentinels[x]) {
					ls = append(ls, strconv.Itoa(x))
				}
			}
			lv := "-"
			if len(ls) > 0 {
				lv = strings.Join(ls, ",")
			}
			obs := "-"
			if j.obs {
				obs = observeFilter(e)
			}
			res[i] = fmt.Sprintf("X %d %s %s | %s", ic, lv, obs, modelErr(j.toks))
		}(i)
	}
	wg.Wait()
	for _, l := range res {
		fmt.Println(l)
	}
}

func curGoid() int64 {
	var buf [64]byte
	n := runtime.Stack(buf[:], false)
	f := strings.Fields(string(buf[:n])) // "goroutine 123 [running]:"
	if len(f) < 2 {
		return -1
	}
	id, _ := strconv.ParseInt(f[1], 10, 64)
	return id
}

// waitGone waits until goroutine id no longer exists.
func waitGone(id int64, d time.Duration) bool {
	needle := []byte("goroutine " + strconv.FormatInt(id, 10) + " [")
	deadline := time.Now().Add(d)
	buf := make([]byte, 1<<20)
	for {
		n := runtime.Stack(buf, true)
		for n == len(buf) {
			buf = make([]byte, 2*len(buf))
			n = runtime.Stack(buf, true)
		}
		if !bytes.Contains(buf[:n], needle) {
			return true
		}
		if time.Now().After(deadline) {
			return false
		}
		time.Sleep(100 * time.Microsecond)
	}
}

// observeFilter runs a composite with two children; child a returns e.  Once a's goroutine has
// finished (so its report, if any, is in the error channel) child b fails with L11: Run()'s result
// wraps L11 iff a's exit was filtered ("F"); otherwise it is a's error ("P <cls>").  No timing
// assumption: the channel is FIFO and Run() reads one value.
func observeFilter(e error) string {
	a, b := newLight("a"), newLight("b")
	cb := func() (*composite.Config[supervisor.Runnable], error) {
		return composite.NewConfig[supervisor.Runnable]("x", []composite.RunnableEntry[supervisor.Runnable]{
			{Runnable: a}, {Runnable: b}})
	}
	r, err := composite.NewRunner[supervisor.Runnable](cb, composite.WithLogHandler[supervisor.Runnable](discard{}))
	if err != nil {
		return "E"
	}
	ctx, cancel := context.WithCancel(context.Background())
	defer cancel()
	done := make(chan error, 1)
	go func() { done <- r.Run(ctx) }()
	for !r.IsRunning() || a.runs.Load() == 0 || b.runs.Load() == 0 {
		time.Sleep(50 * time.Microsecond)
	}
	ga := a.goid.Load()
	a.rel <- e
	if !waitGone(ga, 5*time.Second) {
		return "H"
	}
	select {
	case b.rel <- sentinels[11]:
	case re := <-done:
		return "P " + strings.ReplaceAll(classifyRes(re), " ", "_")
	case <-time.After(5 * time.Second):
		return "H"
	}
	select {
	case re := <-done:
		if errors.Is(re, sentinels[11]) {
			return "F"
		}
		return "P " + strings.ReplaceAll(classifyRes(re), " ", "_")
	case <-time.After(5 * time.Second):
		return "H"
	}
}
