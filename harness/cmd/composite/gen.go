package main

import (
	"fmt"

	"github.com/robbyt/go-supervisor/verif_harness/internal/prng"
)

// error shapes (Go-flavoured tokens); the comment says whether startRunnable must filter it
var failShapes = []string{
	"L2", "W L3", "U L2", "W W L4", "J 2 L2 L3", "W J 2 L5 W L6", "M 2 L2 L7", "F 2 L3 L4",
	"U W U L8", "J 1 W L2", "W M 1 U L5",
}
var benignShapes = []string{
	"nil", "C", "D", "W C", "U D", "W W C", "J 2 L2 C", "M 2 D L3", "F 2 C L4", "W J 2 L5 W D", "U J 1 C",
}

var parksRestart = []string{
	"Membership change detected", "Stopping child runnable", "Updating config after stopping",
	"Config updated", "Starting child runnables", "All child runnables launched",
	"Reloaded runnables due to membership change",
}
var parksInPlace = []string{
	"Updating config", "Config updated", "Reloading configs of existing runnables",
	"Reloading child runnable", "Reloaded runnables without membership change",
}

func randPool(r *prng.R, n int, exit string, ubias int) []ChildSpec {
	p := make([]ChildSpec, n)
	for i := range p {
		st := "N"
		if r.Chance(ubias, 10) {
			st = "U"
		}
		p[i] = ChildSpec{Name: i, Style: st, Exit: exit, RK: prng.Pick(r, []string{"W", "W", "P", "-"})}
	}
	return p
}

func seqEntries(r *prng.R, ids []int) []Entry {
	es := make([]Entry, len(ids))
	for i, c := range ids {
		es[i] = Entry{C: c, V: r.Intn(4)}
	}
	return es
}

func perm(r *prng.R, n int) []int {
	p := make([]int, n)
	for i := range p {
		p[i] = i
	}
	for i := n - 1; i > 0; i-- {
		j := r.Intn(i + 1)
		p[i], p[j] = p[j], p[i]
	}
	return p
}

// randSubset returns a random ordered subset of 0..n-1 of size k.
func randSubset(r *prng.R, n, k int) []int { return perm(r, n)[:k] }

func ids(es []Entry) []int {
	out := make([]int, len(es))
	for i, e := range es {
		out[i] = e.C
	}
	return out
}

func sameSet(a, b []int) bool {
	m := map[int]bool{}
	for _, x := range a {
		m[x] = true
	}
	n := map[int]bool{}
	for _, x := range b {
		n[x] = true
		if !m[x] {
			return false
		}
	}
	return len(m) == len(n)
}

// ---------------------------------------------------------------- C10 family

func genC10(r *prng.R, i int) Scenario {
	n := 1 + r.Intn(4)
	sc := Scenario{ID: fmt.Sprintf("c10-%d", i), Family: "c10", Pool: randPool(r, n, "F", 5)}
	m := 1 + r.Intn(n)
	if r.Chance(1, 3) {
		m = 1 // start small so that reloads grow beyond the initial channel capacity
	}
	cur := make([]int, m)
	for j := range cur {
		cur[j] = j
	}
	sc.Init = seqEntries(r, cur)
	ops := []Op{{Op: "run"}, {Op: "wait"}}
	for len(cur) < n && r.Chance(4, 5) { // growth reloads
		add := 1 + r.Intn(n-len(cur))
		for a := 0; a < add; a++ {
			cur = append(cur, len(cur))
		}
		if r.Chance(1, 4) { // permute as well
			p := perm(r, len(cur))
			nc := make([]int, len(cur))
			for x, y := range p {
				nc[x] = cur[y]
			}
			cur = nc
		}
		ops = append(ops, Op{Op: "reload", Cb: "some", Cfg: seqEntries(r, cur)}, Op{Op: "wait"})
	}
	if r.Chance(1, 4) { // an in-place reload before the failure
		ops = append(ops, Op{Op: "reload", Cb: "some", Cfg: seqEntries(r, cur)}, Op{Op: "wait"})
	}
	if r.Chance(1, 3) { // benign exits never fail the composite
		c := cur[r.Intn(len(cur))]
		ops = append(ops, Op{Op: "exit", C: c, Err: prng.Pick(r, benignShapes)}, Op{Op: "wait"})
		if r.Chance(1, 2) {
			sc.ID += "b"
			ops = append(ops, Op{Op: "stop"}, Op{Op: "wait"}, Op{Op: "end"})
			sc.Ops = ops
			return sc
		}
		// the child that exited is no longer running; fail another one if there is one
		rest := []int{}
		for _, x := range cur {
			if x != c {
				rest = append(rest, x)
			}
		}
		if len(rest) == 0 {
			ops = append(ops, Op{Op: "stop"}, Op{Op: "wait"}, Op{Op: "end"})
			sc.Ops = ops
			return sc
		}
		cur = rest
	}
	j := r.Intn(len(cur))
	if r.Chance(1, 2) {
		j = len(cur) - 1 // the child added last
	}
	ops = append(ops, Op{Op: "exit", C: cur[j], Err: prng.Pick(r, failShapes)})
	if len(cur) > 1 && r.Chance(1, 3) { // simultaneous second failure
		k := (j + 1 + r.Intn(len(cur)-1)) % len(cur)
		ops = append(ops, Op{Op: "exit", C: cur[k], Err: prng.Pick(r, failShapes)})
	}
	ops = append(ops, Op{Op: "wait"})
	if r.Chance(1, 3) {
		ops = append(ops, Op{Op: "stop"}, Op{Op: "wait"})
	}
	ops = append(ops, Op{Op: "end"})
	sc.Ops = ops
	return sc
}

// ---------------------------------------------------------------- C11 family

func nextCfg(r *prng.R, n int, cur []int) ([]int, string) {
	switch r.Intn(7) {
	case 0: // same set, permuted
		p := perm(r, len(cur))
		nc := make([]int, len(cur))
		for x, y := range p {
			nc[x] = cur[y]
		}
		return nc, "same"
	case 1: // identical
		return append([]int(nil), cur...), "same"
	case 2: // grow
		have := map[int]bool{}
		for _, x := range cur {
			have[x] = true
		}
		nc := append([]int(nil), cur...)
		for x := 0; x < n; x++ {
			if !have[x] && (len(nc) == len(cur) || r.Bool()) {
				nc = append(nc, x)
			}
		}
		return nc, "grow"
	case 3: // shrink
		if len(cur) == 0 {
			return cur, "same"
		}
		return cur[:r.Intn(len(cur))], "shrink"
	case 4:
		return []int{}, "empty"
	default: // arbitrary subset, arbitrary order (same size swaps included)
		return randSubset(r, n, r.Intn(n+1)), "any"
	}
}

func genC11(r *prng.R, i int) Scenario {
	n := 2 + r.Intn(3)
	sc := Scenario{ID: fmt.Sprintf("c11-%d", i), Family: "c11", Pool: randPool(r, n, "S", 5)}
	cur := randSubset(r, n, r.Intn(n+1))
	sc.Init = seqEntries(r, cur)
	ops := []Op{{Op: "run"}, {Op: "wait"}}
	steps := 1 + r.Intn(4)
	failed := false
	for s := 0; s < steps; s++ {
		if !failed && r.Chance(1, 8) {
			ops = append(ops, Op{Op: "reload", Cb: prng.Pick(r, []string{"nil", "err"})}, Op{Op: "wait"})
			failed = true
			continue
		}
		k := 1
		if r.Chance(1, 5) {
			k = 2 + r.Intn(2) // concurrent Reload callers
		}
		for c := 0; c < k; c++ {
			cur, _ = nextCfg(r, n, cur)
			ops = append(ops, Op{Op: "reload", Cb: "some", Cfg: seqEntries(r, cur)})
		}
		ops = append(ops, Op{Op: "wait"})
	}
	ops = append(ops, Op{Op: prng.Pick(r, []string{"stop", "cancel"})}, Op{Op: "wait"}, Op{Op: "end"})
	sc.Ops = ops
	return sc
}

// duplicate entry names: the same child listed twice, or two pool members sharing a name
func genC11Dup(r *prng.R, i int) Scenario {
	sc := Scenario{ID: fmt.Sprintf("c11dup-%d", i), Family: "c11dup"}
	one := func(pool []ChildSpec, init, next []Entry) {
		sc.Pool = pool
		sc.Init = init
		sc.Ops = []Op{{Op: "run"}, {Op: "wait"}, {Op: "reload", Cb: "some", Cfg: next}, {Op: "wait"},
			{Op: "stop"}, {Op: "wait"}, {Op: "end"}}
	}
	switch i % 10 {
	case 3: // old [a,b], new [a,a2]: a2 is a distinct runnable whose String() is a's (blocking Stop)
		p := randPool(r, 3, "S", 5)
		p[2].Name = 0
		p[2].Style = "U"
		one(p, []Entry{{0, 0}, {1, 0}}, []Entry{{0, 1}, {2, 1}})
	case 0: // old [a,b], new [a,a]
		one(randPool(r, 2, "S", 5), []Entry{{0, 0}, {1, 0}}, []Entry{{0, 1}, {0, 2}})
	case 1: // two distinct children with one name: old [a,b,c'] new [a,c',c] where name(c') = name(c)
		p := randPool(r, 4, "S", 5)
		p[3].Name = 2
		one(p, []Entry{{0, 0}, {1, 0}, {2, 0}}, []Entry{{0, 1}, {2, 1}, {3, 1}})
	case 2: // old [a,b,c], new [c,a,a]
		one(randPool(r, 3, "S", 5), []Entry{{0, 0}, {1, 0}, {2, 0}}, []Entry{{2, 1}, {0, 1}, {0, 3}})
	case 4: // same length, same name SET, different multiplicities: old [a,a,b], new [a,b,b] (H3 of the second audit)
		one(randPool(r, 2, "S", 5), []Entry{{0, 0}, {0, 1}, {1, 0}}, []Entry{{0, 2}, {1, 1}, {1, 2}})
	case 5: // ... and a permutation of it: old [b,a,a], new [a,b,b]; then back
		one(randPool(r, 2, "S", 5), []Entry{{1, 0}, {0, 0}, {0, 1}}, []Entry{{0, 2}, {1, 1}, {1, 2}})
		sc.Ops = append(sc.Ops[:4:4], Op{Op: "reload", Cb: "some", Cfg: []Entry{{0, 3}, {0, 4}, {1, 3}}}, Op{Op: "wait"},
			Op{Op: "stop"}, Op{Op: "wait"}, Op{Op: "end"})
	case 6: // same multiset, permuted: old [a,a,b], new [a,b,a] - genuinely unchanged, in place
		one(randPool(r, 2, "S", 5), []Entry{{0, 0}, {0, 1}, {1, 0}}, []Entry{{0, 2}, {1, 1}, {0, 3}})
	case 7: // four entries over three names: old [a,a,b,c], new [a,b,b,c] / [a,b,c,c]
		nc := []Entry{{0, 1}, {1, 1}, {1, 2}, {2, 1}}
		if r.Bool() {
			nc = []Entry{{0, 1}, {1, 1}, {2, 1}, {2, 2}}
		}
		one(randPool(r, 3, "S", 5), []Entry{{0, 0}, {0, 1}, {1, 0}, {2, 0}}, nc)
	case 8: // H4 of the second audit: a DIFFERENT runnable object with the same String(): old [x], new [x'] - same
		// names, so the reload is taken in place: x' (never started, blocking Stop) gets ReloadWithConfig, x keeps running
		p := randPool(r, 2, "S", 5)
		p[1].Name = 0
		p[1].Style = "U"
		one(p, []Entry{{0, 0}}, []Entry{{1, 1}})
	default: // ... with a bystander, and x' non-blocking: old [x,y], new [x',y]
		p := randPool(r, 3, "S", 5)
		p[2].Name = 0
		p[2].Style = "N"
		one(p, []Entry{{0, 0}, {1, 0}}, []Entry{{2, 1}, {1, 1}})
	}
	return sc
}

// ---------------------------------------------------------------- C09 family

func genC09(r *prng.R, i int) Scenario {
	n := 2 + r.Intn(3)
	sc := Scenario{ID: fmt.Sprintf("c09-%d", i), Family: "c09", Pool: randPool(r, n, "S", 7)}
	if r.Chance(1, 6) {
		// a real composite.Runner as an UntilRunDone child (never restarted: it is added by the reload)
		sc.Pool[n-1] = ChildSpec{Name: n - 1, Style: "U", Exit: "F", RK: "P", Nested: true}
	}
	cur := randSubset(r, n-1, 1+r.Intn(n-1))
	sc.Init = seqEntries(r, cur)
	if r.Chance(1, 5) { // an old child that returns a real error when it is stopped
		sc.Pool[cur[0]].Exit = "E"
	}
	ops := []Op{{Op: "run"}, {Op: "wait"}}
	if r.Chance(1, 4) { // an earlier unparked reload
		cur, _ = nextCfg(r, n-1, cur)
		ops = append(ops, Op{Op: "reload", Cb: "some", Cfg: seqEntries(r, cur)}, Op{Op: "wait"})
	}
	var nc []int
	switch r.Intn(5) {
	case 0:
		nc, _ = nextCfg(r, n, cur)
	case 1, 2: // grow with children never started before
		nc = append(append([]int(nil), cur...), n-1)
	case 3: // replace
		nc = []int{n - 1}
	default:
		nc = randSubset(r, n, 1+r.Intn(n))
	}
	subs := parksRestart
	if sameSet(cur, nc) && len(cur) == len(nc) {
		subs = parksInPlace
	}
	sub := prng.Pick(r, subs)
	inj := prng.Pick(r, []string{"stop", "stop", "cancel", "reload", "none"})
	ops = append(ops, Op{Op: "park", Sub: sub}, Op{Op: "reload", Cb: "some", Cfg: seqEntries(r, nc)}, Op{Op: "waitpark"})
	switch inj {
	case "stop":
		ops = append(ops, Op{Op: "stop"}, Op{Op: "waitpark"})
	case "cancel":
		ops = append(ops, Op{Op: "cancel"}, Op{Op: "waitpark"})
	case "reload":
		nc2, _ := nextCfg(r, n, nc)
		ops = append(ops, Op{Op: "reload", Cb: "some", Cfg: seqEntries(r, nc2)}, Op{Op: "waitpark"})
	}
	ops = append(ops, Op{Op: "release"}, Op{Op: "wait"})
	if inj == "none" || inj == "reload" {
		ops = append(ops, Op{Op: prng.Pick(r, []string{"stop", "cancel"})}, Op{Op: "wait"})
	}
	ops = append(ops, Op{Op: "end"})
	sc.Ops = ops
	sc.ID += "-" + inj
	return sc
}

// the known-defect shape, always run: Stop()/cancel between setConfig(new) and boot(new),
// the new configuration containing a never-started UntilRunDone child
func genF8(i int) Scenario {
	inj := []string{"stop", "cancel"}[i%2]
	nested := i%4 >= 2
	sc := Scenario{ID: fmt.Sprintf("f8-%d-%s", i, inj), Family: "f8"}
	sc.Pool = []ChildSpec{{Name: 0, Style: "U", Exit: "S", RK: "W"}, {Name: 1, Style: "U", Exit: "S", RK: "W"}}
	if nested {
		sc.Pool[1] = ChildSpec{Name: 1, Style: "U", Exit: "F", RK: "P", Nested: true}
	}
	sc.Init = []Entry{{0, 0}}
	sc.Ops = []Op{{Op: "run"}, {Op: "wait"}, {Op: "park", Sub: "Config updated"},
		{Op: "reload", Cb: "some", Cfg: []Entry{{0, 1}, {1, 1}}}, {Op: "waitpark"},
		{Op: inj}, {Op: "waitpark"}, {Op: "release"}, {Op: "wait"}, {Op: "end"}}
	return sc
}

// boot-time races: Reload/Stop/cancel while Run is still booting (parked inside boot)
func genBoot(r *prng.R, i int) Scenario {
	n := 1 + r.Intn(3)
	sc := Scenario{ID: fmt.Sprintf("boot-%d", i), Family: "boot", Pool: randPool(r, n, "S", 5)}
	sc.Init = seqEntries(r, randSubset(r, n, 1+r.Intn(n)))
	if r.Chance(1, 6) {
		sc.InitCb = prng.Pick(r, []string{"nil", "err"})
	}
	sub := prng.Pick(r, []string{"Starting child runnables", "All child runnables launched", "Loading new config via callback"})
	inj := prng.Pick(r, []string{"stop", "cancel", "reload"})
	ops := []Op{{Op: "park", Sub: sub}, {Op: "run"}, {Op: "waitpark"}}
	if inj == "reload" {
		ops = append(ops, Op{Op: "reload", Cb: "some", Cfg: seqEntries(r, randSubset(r, n, r.Intn(n+1)))})
	} else {
		ops = append(ops, Op{Op: inj})
	}
	ops = append(ops, Op{Op: "waitpark"}, Op{Op: "release"}, Op{Op: "wait"}, Op{Op: "stop"}, Op{Op: "wait"}, Op{Op: "end"})
	sc.Ops = ops
	return sc
}

// the stale-stop shape: a restarted child's goroutine is parked before it calls Run (on the
// "Executing Run()" record of startRunnable); the next restart reload stops the child while its new
// Run has not been entered.
func genStale(i int) Scenario {
	style := []string{"U", "N"}[i%2]
	sc := Scenario{ID: fmt.Sprintf("stale-%d-%s", i, style), Family: "stale"}
	sc.Pool = []ChildSpec{{Name: 0, Style: style, Exit: "S", RK: "W"}, {Name: 1, Style: "U", Exit: "S", RK: "W"}}
	sc.Init = []Entry{{0, 0}, {1, 0}}
	last := []Entry{{0, 2}, {1, 2}}
	if i%4 >= 2 {
		last = []Entry{{1, 2}} // the child leaves the configuration altogether
	}
	sc.Ops = []Op{{Op: "run"}, {Op: "wait"},
		{Op: "park", Sub: "Executing Run()"},
		{Op: "reload", Cb: "some", Cfg: []Entry{{0, 1}}}, {Op: "waitpark"},
		{Op: "reload", Cb: "some", Cfg: last}, {Op: "waitpark"},
		{Op: "release"}, {Op: "wait"}, {Op: "stop"}, {Op: "wait"}, {Op: "end"}}
	return sc
}

// a child failure racing a membership-changing reload: an OLD child returns a real error when the
// reload stops it (exit style "E"), the reloader is parked at one of its steps, so Run's
// failure teardown meets the reload in progress; the new configuration contains a never-started
// child with a blocking Stop.
func genErrWin(r *prng.R, i int) Scenario {
	subs := []string{"Config updated", "Updating config after stopping", "Starting child runnables",
		"Membership change detected", "All child runnables launched"}
	sub := subs[i%len(subs)]
	sc := Scenario{ID: fmt.Sprintf("errwin-%d", i), Family: "errwin"}
	n := 3
	sc.Pool = randPool(r, n, "S", 8)
	sc.Pool[0].Exit = "E"
	sc.Pool[n-1].Style = "U" // the child added by the reload blocks in Stop until its Run is over
	if i%4 == 3 {
		sc.Pool[n-1] = ChildSpec{Name: n - 1, Style: "U", Exit: "F", RK: "P", Nested: true}
	}
	sc.Init = []Entry{{0, 0}, {1, 0}}
	var nc []Entry
	switch (i / len(subs)) % 3 {
	case 0:
		nc = []Entry{{0, 1}, {1, 1}, {2, 1}} // grow
	case 1:
		nc = []Entry{{2, 1}} // replace
	default:
		nc = []Entry{{1, 1}, {2, 1}} // drop the failing child, add a new one
	}
	sc.Ops = []Op{{Op: "run"}, {Op: "wait"}, {Op: "park", Sub: sub},
		{Op: "reload", Cb: "some", Cfg: nc}, {Op: "waitpark"}, {Op: "release"}, {Op: "wait"},
		{Op: "stop"}, {Op: "wait"}, {Op: "end"}}
	return sc
}

// several children fail at once after a reload that grew the membership beyond the capacity the
// error channel got at the initial boot (cap = max(1, initial entries)): init m children, reload to
// n > m, then cap+2 or more (up to all n) children return non-cancellation errors without a pause.
func genMultiFail(r *prng.R, i int) Scenario {
	n := 3 + r.Intn(2)
	m := 1 + r.Intn(n-2) // cap = m, so that cap+2 <= n
	sc := Scenario{ID: fmt.Sprintf("multifail-%d", i), Family: "multifail", Pool: randPool(r, n, "F", 5)}
	cur := make([]int, m)
	for j := range cur {
		cur[j] = j
	}
	sc.Init = seqEntries(r, cur)
	all := make([]int, n)
	for j := range all {
		all[j] = j
	}
	ops := []Op{{Op: "run"}, {Op: "wait"}, {Op: "reload", Cb: "some", Cfg: seqEntries(r, all)}, {Op: "wait"}}
	k := m + 2 + r.Intn(n-m-1) // number of failing children, cap+2 .. n
	for _, c := range perm(r, n)[:k] {
		ops = append(ops, Op{Op: "exit", C: c, Err: prng.Pick(r, failShapes)})
	}
	ops = append(ops, Op{Op: "wait"}, Op{Op: "stop"}, Op{Op: "wait"}, Op{Op: "end"})
	sc.Ops = ops
	return sc
}

// ---------------------------------------------------------------- failreload / stoperr families

func allIDs(n int) []int {
	out := make([]int, n)
	for i := range out {
		out[i] = i
	}
	return out
}

// a child FAILS (returns a non-cancellation error on its own) while a Reload() is in progress, for
// every flavour of "in progress"; then the reload is let go.  The state is observed while the reload
// is still held (after Run() handled the failure) and after everything has settled.
//
//	0  in-place reload blocked inside a sibling's (or the failing child's own) ReloadWithConfig / Reload
//	1  in-place reload parked on one of its log records
//	2  membership-changing reload parked before / inside its stopAllRunnables (old children still running)
//	3  membership-changing reload parked after its boot (the NEW children run; one of them fails)
//	4  the failing child's goroutine is parked between its Run's return and its report; a reload of any
//	   kind is started (and parked / held, or - restart flavour - left blocked in the drain of
//	   stopAllRunnables, which waits for that goroutine); then the report is let through
//	5  a second Reload() waits for reloadMu behind a parked one when the child fails
//	6  Run()'s own failure teardown is parked inside stopAllRunnables (it holds reloadMu); a Reload() waits
//	7  an OLD child returns a real error when the reload stops it; the reloader is parked after
//	   stopAllRunnables, before / inside boot (nothing runs at that moment)
func genFailReload(r *prng.R, i int) Scenario {
	v := i % 8
	n := 2 + r.Intn(2)
	sc := Scenario{ID: fmt.Sprintf("failreload-%d-v%d", i, v), Family: "failreload", Pool: randPool(r, n, "F", 5)}
	cur := allIDs(n)
	if v == 2 || v == 3 || v == 7 || ((v == 4 || v == 5) && r.Bool()) {
		cur = allIDs(n - 1) // leave a child to be added by the membership-changing reload
	}
	sc.Init = seqEntries(r, cur)
	ops := []Op{{Op: "run"}, {Op: "wait"}}
	if r.Chance(1, 4) { // an earlier, undisturbed reload
		ops = append(ops, Op{Op: "reload", Cb: "some", Cfg: seqEntries(r, cur)}, Op{Op: "wait"})
	}
	fail := prng.Pick(r, failShapes)
	j := cur[r.Intn(len(cur))]
	same := func() []Entry { // same identity set, new values, possibly permuted
		p := perm(r, len(cur))
		nc := make([]int, len(cur))
		for x, y := range p {
			nc[x] = cur[y]
		}
		return seqEntries(r, nc)
	}
	changed := func() []Entry { // a different identity set that keeps at least one child
		switch r.Intn(3) {
		case 0:
			if len(cur) < n {
				return seqEntries(r, allIDs(n)) // grow
			}
			return seqEntries(r, cur[:len(cur)-1]) // shrink
		case 1:
			if len(cur) < n {
				return seqEntries(r, append(append([]int(nil), cur[1:]...), n-1)) // replace one
			}
			return seqEntries(r, cur[1:])
		default:
			if len(cur) < n {
				return seqEntries(r, []int{n - 1}) // replace all
			}
			return seqEntries(r, cur[:1])
		}
	}
	holdable := func(c int) {
		if sc.Pool[c].RK == "-" {
			sc.Pool[c].RK = prng.Pick(r, []string{"W", "P"})
		}
	}
	switch v {
	case 0:
		h := cur[r.Intn(len(cur))]
		holdable(h)
		ops = append(ops, Op{Op: "hold", C: h}, Op{Op: "reload", Cb: "some", Cfg: same()}, Op{Op: "waithold", C: h},
			Op{Op: "exit", C: j, Err: fail}, Op{Op: "wait"}, Op{Op: "unhold", C: h}, Op{Op: "wait"})
	case 1:
		ops = append(ops, Op{Op: "park", Sub: prng.Pick(r, parksInPlace)}, Op{Op: "reload", Cb: "some", Cfg: same()},
			Op{Op: "waitpark"}, Op{Op: "exit", C: j, Err: fail}, Op{Op: "wait"}, Op{Op: "release"}, Op{Op: "wait"})
	case 2:
		sub := prng.Pick(r, []string{"Membership change detected", "Reloading runnables due to membership change", "Stopping child runnable"})
		ops = append(ops, Op{Op: "park", Sub: sub}, Op{Op: "reload", Cb: "some", Cfg: changed()},
			Op{Op: "waitpark"}, Op{Op: "exit", C: j, Err: fail}, Op{Op: "wait"}, Op{Op: "release"}, Op{Op: "wait"})
	case 3:
		nc := changed()
		sub := prng.Pick(r, []string{"All child runnables launched", "Reloaded runnables due to membership change", "Completed."})
		jn := nc[r.Intn(len(nc))].C
		ops = append(ops, Op{Op: "park", Sub: sub}, Op{Op: "reload", Cb: "some", Cfg: nc},
			Op{Op: "waitpark"}, Op{Op: "exit", C: jn, Err: fail}, Op{Op: "wait"}, Op{Op: "release"}, Op{Op: "wait"})
	case 4:
		ops = append(ops, Op{Op: "park", Sub: "Returned unexpected error", P: 1}, Op{Op: "exit", C: j, Err: fail}, Op{Op: "waitpark", P: 1})
		switch r.Intn(4) {
		case 0: // in-place, parked
			ops = append(ops, Op{Op: "park", Sub: prng.Pick(r, parksInPlace)}, Op{Op: "reload", Cb: "some", Cfg: same()}, Op{Op: "waitpark"},
				Op{Op: "release", P: 1}, Op{Op: "wait"}, Op{Op: "release"}, Op{Op: "wait"})
		case 1: // in-place, held inside a child's reload
			h := cur[r.Intn(len(cur))]
			holdable(h)
			ops = append(ops, Op{Op: "hold", C: h}, Op{Op: "reload", Cb: "some", Cfg: same()}, Op{Op: "waithold", C: h},
				Op{Op: "release", P: 1}, Op{Op: "wait"}, Op{Op: "unhold", C: h}, Op{Op: "wait"})
		case 2: // restart, parked before the Stop() calls are issued
			ops = append(ops, Op{Op: "park", Sub: prng.Pick(r, []string{"Membership change detected", "Stopping child runnable"})},
				Op{Op: "reload", Cb: "some", Cfg: changed()}, Op{Op: "waitpark"},
				Op{Op: "release", P: 1}, Op{Op: "wait"}, Op{Op: "release"}, Op{Op: "wait"})
		default: // restart, blocked in the drain of stopAllRunnables behind the parked goroutine
			ops = append(ops, Op{Op: "reload", Cb: "some", Cfg: changed()}, Op{Op: "wait"}, Op{Op: "release", P: 1}, Op{Op: "wait"})
		}
	case 5:
		var first []Entry
		sub := ""
		if r.Bool() {
			first, sub = same(), prng.Pick(r, parksInPlace)
		} else {
			first, sub = changed(), prng.Pick(r, []string{"Membership change detected", "Stopping child runnable"})
		}
		ops = append(ops, Op{Op: "park", Sub: sub}, Op{Op: "reload", Cb: "some", Cfg: first}, Op{Op: "waitpark"},
			Op{Op: "reload", Cb: "some", Cfg: seqEntries(r, cur)}, Op{Op: "waitpark"},
			Op{Op: "exit", C: j, Err: fail}, Op{Op: "wait"}, Op{Op: "release"}, Op{Op: "wait"})
	case 6:
		ops = append(ops, Op{Op: "park", Sub: "Stopping child runnable"}, Op{Op: "exit", C: j, Err: fail}, Op{Op: "waitpark"},
			Op{Op: "reload", Cb: "some", Cfg: prng.Pick(r, [][]Entry{same(), changed()})}, Op{Op: "wait"}, Op{Op: "release"}, Op{Op: "wait"})
	default:
		sc.Pool[cur[0]].Exit = prng.Pick(r, []string{"E", "X"})
		sub := prng.Pick(r, []string{"Updating config after stopping", "Config updated", "Starting child runnables", "All child runnables launched"})
		ops = append(ops, Op{Op: "park", Sub: sub}, Op{Op: "reload", Cb: "some", Cfg: changed()},
			Op{Op: "waitpark"}, Op{Op: "wait"}, Op{Op: "release"}, Op{Op: "wait"})
	}
	if r.Bool() {
		ops = append(ops, Op{Op: prng.Pick(r, []string{"stop", "stop", "cancel"})}, Op{Op: "wait"})
	}
	ops = append(ops, Op{Op: "end"})
	sc.Ops = ops
	return sc
}

// children that return a REAL (non-cancellation) error from Run() in reaction to Stop() / to the
// cancellation of their context (exit styles "E" and "X"), 1..3 children, alone and racing a
// Stop() / cancel / Reload().  Observed: Run()'s result, the state at every quiescent point and after
// Run() returned, which children were stopped.
//
//	0  Stop()               1  cancel
//	2  Run() parked right after its select chose Stop(); a further child then fails on its own
//	3  Stop() and a Reload() issued together (no pause)
//	4  a Reload() parked at one of its steps, then Stop() / cancel, then the reload is let go
//	5  Stop() / cancel and, without a pause, a child that fails on its own
func genStopErr(r *prng.R, i int) Scenario {
	v := i % 6
	n := 1 + r.Intn(3)
	sc := Scenario{ID: fmt.Sprintf("stoperr-%d-v%d", i, v), Family: "stoperr", Pool: randPool(r, n, "S", 5)}
	for c := range sc.Pool {
		sc.Pool[c].Exit = prng.Pick(r, []string{"E", "X", "E", "X", "F", "S"})
	}
	sc.Pool[r.Intn(n)].Exit = prng.Pick(r, []string{"E", "X"})
	cur := allIDs(n)
	if n > 1 && r.Chance(1, 3) {
		cur = allIDs(n - 1)
		sc.Pool[0].Exit = prng.Pick(r, []string{"E", "X"})
	}
	sc.Init = seqEntries(r, cur)
	free := []int{}
	for _, c := range cur {
		if sc.Pool[c].Exit != "S" {
			free = append(free, c)
		}
	}
	reloadCfg := func() []Entry {
		if r.Bool() {
			return seqEntries(r, cur)
		}
		nc, _ := nextCfg(r, n, cur)
		return seqEntries(r, nc)
	}
	how := prng.Pick(r, []string{"stop", "stop", "cancel"})
	ops := []Op{}
	switch v {
	case 0:
		ops = append(ops, Op{Op: "run"}, Op{Op: "wait"}, Op{Op: "stop"}, Op{Op: "wait"})
	case 1:
		ops = append(ops, Op{Op: "run"}, Op{Op: "wait"}, Op{Op: "cancel"}, Op{Op: "wait"})
	case 2:
		ops = append(ops, Op{Op: "run"}, Op{Op: "wait"}, Op{Op: "park", Sub: "Stop() called"}, Op{Op: "stop"}, Op{Op: "waitpark"},
			Op{Op: "exit", C: free[r.Intn(len(free))], Err: prng.Pick(r, failShapes)}, Op{Op: "waitpark"}, Op{Op: "release"}, Op{Op: "wait"})
	case 3:
		ops = append(ops, Op{Op: "run"}, Op{Op: "wait"})
		if r.Bool() {
			ops = append(ops, Op{Op: "stop"}, Op{Op: "reload", Cb: "some", Cfg: reloadCfg()})
		} else {
			ops = append(ops, Op{Op: "reload", Cb: "some", Cfg: reloadCfg()}, Op{Op: "stop"})
		}
		ops = append(ops, Op{Op: "wait"})
	case 4:
		nc := reloadCfg()
		subs := parksRestart
		if sameSet(cur, ids(nc)) && len(cur) == len(nc) {
			subs = parksInPlace
		}
		ops = append(ops, Op{Op: "run"}, Op{Op: "wait"}, Op{Op: "park", Sub: prng.Pick(r, subs)},
			Op{Op: "reload", Cb: "some", Cfg: nc}, Op{Op: "waitpark"}, Op{Op: how}, Op{Op: "waitpark"}, Op{Op: "release"}, Op{Op: "wait"})
	default:
		ops = append(ops, Op{Op: "run"}, Op{Op: "wait"}, Op{Op: how},
			Op{Op: "exit", C: free[r.Intn(len(free))], Err: prng.Pick(r, failShapes)}, Op{Op: "wait"})
	}
	if r.Chance(1, 4) { // a Reload() on the finished runner
		ops = append(ops, Op{Op: "reload", Cb: "some", Cfg: seqEntries(r, cur)}, Op{Op: "wait"})
	}
	ops = append(ops, Op{Op: "end"})
	sc.Ops = ops
	return sc
}

// C18: many restarts and in-place reloads, callback failures in between, then a clean stop; the
// goroutine census must follow the model at every quiescent point and be zero at the end.
func genChurn(r *prng.R, i int) Scenario {
	n := 3 + r.Intn(2)
	sc := Scenario{ID: fmt.Sprintf("churn-%d", i), Family: "churn", Pool: randPool(r, n, "S", 5)}
	cur := randSubset(r, n, 1+r.Intn(n))
	sc.Init = seqEntries(r, cur)
	if i%7 == 6 {
		sc.InitCb = prng.Pick(r, []string{"nil", "err"}) // failed boot followed by a clean stop
	}
	ops := []Op{{Op: "run"}, {Op: "wait"}}
	steps := 8 + r.Intn(8)
	for s := 0; s < steps; s++ {
		if r.Chance(1, 12) {
			ops = append(ops, Op{Op: "reload", Cb: prng.Pick(r, []string{"nil", "err"})}, Op{Op: "wait"})
			break
		}
		cur, _ = nextCfg(r, n, cur)
		ops = append(ops, Op{Op: "reload", Cb: "some", Cfg: seqEntries(r, cur)})
		if r.Chance(2, 3) {
			ops = append(ops, Op{Op: "wait"})
		}
	}
	ops = append(ops, Op{Op: "wait"}, Op{Op: prng.Pick(r, []string{"stop", "cancel"})}, Op{Op: "wait"}, Op{Op: "end"})
	sc.Ops = ops
	return sc
}
