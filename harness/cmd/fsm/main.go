package main

import (
	"bufio"
	"flag"
	"fmt"
	"os"
	"time"

	"github.com/robbyt/go-supervisor/verif_harness/internal/prng"
)

func main() {
	mode := flag.String("mode", "raw", "raw | composite | compfail | slowsub | slowlive | http | cluster | storm")
	n := flag.Int("n", 10, "number of cases")
	seed := flag.Uint64("seed", 1, "PRNG seed")
	shard := flag.Int("shard", 0, "shard index (mixed into the seed and the case ids)")
	only := flag.Int("only", -1, "run only case k of the sequence (replay)")
	ms := flag.Int("ms", 3000, "storm duration in milliseconds")
	flag.Parse()
	w := bufio.NewWriter(os.Stdout)
	defer w.Flush()
	if *mode == "storm" {
		storm(w, time.Duration(*ms)*time.Millisecond, 5)
		return
	}
	base := prng.New(*seed*1000003 + uint64(*shard)*7919 + uint64(len(*mode)))
	for i := 0; i < *n; i++ {
		rng := base.Fork()
		if *only >= 0 && i != *only {
			continue
		}
		id := fmt.Sprintf("%s:%d:%d:%d", *mode, *seed, *shard, i)
		switch *mode {
		case "raw":
			rawCase(w, rng, id)
		case "composite":
			compositeCase(w, rng, id)
		case "compfail":
			compositeFailCase(w, rng, id)
		case "slowsub":
			slowSubCase(w, rng, id)
		case "slowlive":
			if i%2 == 0 {
				slowLiveRaw(w, rng, id)
			} else {
				slowLiveComposite(w, rng, id)
			}
		case "http":
			httpCase(w, rng, id)
		case "cluster":
			clusterCase(w, rng, id)
		default:
			fmt.Fprintln(os.Stderr, "unknown mode")
			os.Exit(2)
		}
		w.Flush()
	}
}
